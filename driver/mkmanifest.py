#!/usr/bin/env python3
"""Regenerates MANIFEST.json from the table below (one place to keep claims, notes and N/A reasons)."""
import json
import os
import subprocess

VERIF = os.path.dirname(os.path.dirname(os.path.abspath(__file__)))

CHECKS = {
    "C10": dict(
        text="The table-driven octet arithmetic of the model is proved to be the polynomial field GF(2)[x]/(x^8+x^4+x^3+x^2+1) with alpha=2 for all operands (field laws algebraically from 510/256-entry sweeps, products by a 65 536-pair sweep lifted with forallb_forall; derived tables likewise); OCT_EXP/OCT_LOG are re-extracted from the current source on every run so the theorems are re-checked against what the code says now; the operator impls and the three derived tables are compared exhaustively (all pairs, both build profiles) with the model and with the Spec oracle. Complete for this finite property.",
        note="Trusted: Coq kernel + vm_compute; translator for two tables; Spec/GF256.v as the RFC's field; the Rust harness and the diff. No axioms (Print Assumptions: closed under the global context).",
        technique="Rocq proof over translator-regenerated tables + exhaustive correspondence",
        ref="DESIGN.md section 5, C10"),
    "C13": dict(
        text="Serialisers and deserialisers of payload id, packet and OTI are modelled shift for shift; theorems (all field values within their widths, all payload lengths, all 4- and 12-byte buffers): layout = big-endian digit strings of the Spec, deserialise(serialise x) = x, re-serialisation reproduces the buffer except the reserved byte, short packets panic. Tie: hand model checked against the real API on boundary + random + malformed streams in both profiles, and the real bytes compared with the Spec layout directly. The correspondence is additionally SYMBOLIC for the payload id and the OTI: Kani/CBMC harnesses (kani/src/proofs.rs) decide for all 2^32 ids / all 12-byte buffers that the real serialisers and deserialisers equal the Spec's digit strings (bounded model checking used as validation of the model against the code, never as a proof; the reference formulas are compared with the extracted Spec).",
        note="Trusted: Coq kernel; Spec/Wire.v as the RFC 3.2/3.3 layouts; correspondence is sampled for packets, symbolic (Kani 0.68 / CBMC 6.11, trusted as a validation tool only) over all ids and all OTI buffers; static array lengths modelled as dynamic checks. No axioms.",
        technique="Rocq proof (bit-level algebra) + differential and symbolic (Kani) correspondence",
        ref="DESIGN.md section 5, C13"),
    "C19": dict(
        text="Theorem C19_fixed_accepts_iff_valid: for all F < 2^64, 0<T<2^16, 0<Z<2^8, 0<Al<2^8 the modelled constructor returns exactly the given values iff the documented limits hold and panics otherwise, in both overflow modes; the pre-fix code is refuted by C19_pinned_refuted (2^32+5,1,1,1,1), repaired in /repo by fix 51a20da. Tie: accept/refuse of the real constructor vs the model and vs the Spec predicate on limit-adjacent inputs (F/T beyond 2^32, 56403*Z*T +- d, 942574504275 +- d), both profiles.",
        note="Trusted: Coq kernel; Spec/Oti.v as the documented limits; sampled correspondence. No axioms.",
        technique="Rocq proof (accept <-> valid) + boundary-stream correspondence",
        ref="DESIGN.md section 5, C19"),
    "C17": dict(
        text="The cache is modelled as atomic steps (lookup critical section, unlocked generation, insert critical section with double check and FIFO eviction) of any number of threads; C17_invariant holds for EVERY schedule by induction (|plans| <= 64, order duplicate-free and equal to the key set, every stored and every in-flight plan is gen k), C17_transparent (every plan handed out for k is gen k), C17_bound, C17_fifo_eviction, C17_request_completes. Capacity comes from the source via the translator. Tie: the real cache is driven through the between-sections hook under enumerated and random schedules; its contents after every critical section are compared with the model, and the property predicates are evaluated on the real trace. A fourth step, Abort t (a request dying between its critical sections, e.g. a refused symbol count panicking in the unlocked generation), is part of every schedule: invariant, transparency and completion hold with it and C17_abort_harmless shows it changes nothing for anybody else; the harness aborts parked requests on schedule and issues refused requests on throwaway threads.",
        note="Assumed: std::sync::Mutex mutual exclusion (one critical section = one atomic step); no modelled step can fail while the lock is held, so poisoning does not arise in the model (a refused request on another thread is exercised on the real cache and must leave later traces unchanged); plan generation is a function of the symbol count; Arc identity not observed. No axioms.",
        technique="Rocq invariant proof over all schedules + schedule-controlled correspondence",
        ref="DESIGN.md section 5, C17"),
    "C05": dict(
        text="partition, calculate_block_offsets, padding, create_symbols (sub-block interleave), source packet ids, decoder block sizing, unpack_sub_blocks and reassembly are modelled loop for loop; theorems for every valid (F,T,Z,N,Al) and all data: the packets are exactly the RFC 4.4.1.2 index function of the Spec (C05_source_packets_are_rfc, general N), only the tail of the last block is zero padding, payloads are exactly T bytes, ids run in order, the decoder's block sizes equal the encoder's and unpack inverts the interleave (C05_unpack_inverts_create, C05_decoder_inverts). Tie: real Encoder packets and Decoder output vs model and vs the Spec on a (F,T,Z,N,Al) grid with position-coded data, both profiles.",
        note="Trusted: Coq kernel; Spec/Layout.v as RFC 4.4.1.2; sampled correspondence (small objects). usize/u64 ranges proved (Kt*T < 2^48). No axioms.",
        technique="Rocq proof (loop invariants vs index-function spec) + grid correspondence",
        ref="DESIGN.md section 5, C05"),
    "C09": dict(
        text="For EVERY operation list, mode and symbol size: replay on a slab is additive, homogeneous and acts column-wise (C09_replay_additive / _scalar / _columnwise), panic behaviour depends on indices only (C09_replay_shape, C09_symbol_size_irrelevant), read-out commutes (C09_read_linear); proofs by induction on the op list from the C10 field laws. Tie: perform_op/SymbolSlab of the real crate vs the model on random op lists over T residues, both profiles (debug_assert on FMA scalars modelled); metamorphic runs on the real encoder (A xor B, c*A, byte columns) as the property-level oracle.",
        note="Trusted: Coq kernel; byte kernels modelled element-wise (C11 proves each kernel equals that); symbol_size = 0 outside the modelled domain. The lift from replay to packets uses that packets are xor-combinations of the replayed symbols (Model/Encoder.enc_into); validated end to end by the metamorphic runs. No axioms.",
        technique="Rocq proof by induction over arbitrary op lists + metamorphic correspondence",
        ref="DESIGN.md section 5, C09"),
    "C11": dict(
        text="Each of the 13 x86/portable kernels, the binary-vector kernels, to_octet_vec and the three dispatchers are modelled over a small table of intrinsic semantics; theorems for every length, scalar and content: kernel = element-wise GF(256) operation (C11_add_assign_*, C11_mulassign_*, C11_fma_*, C11_fma_binary_*), nibble-split / shuffle / srli lemmas from the C10 tables, dispatch irrelevant for every CPU feature set. Tie: every kernel is called directly through the hook (also the ones runtime dispatch never selects on this AVX-512 host) over lengths 0..257, 64 alignments, boundary scalars and adversarial contents, both profiles, and compared with the model and with an independent element-wise computation. NEON is not compiled here and not claimed.",
        note="Trusted: Coq kernel; the transcribed semantics of ~15 Intel intrinsics (validated by the runs on this CPU, not proved); little-endian host. No axioms.",
        technique="Rocq proof over intrinsic-level kernel models + direct per-kernel correspondence",
        ref="DESIGN.md section 5, C11"),
    "C12": dict(
        text="PARTIAL (logic only). Proved: every load/store/unchecked index recorded by each kernel model lies inside its buffer for all lengths (C12_kernel_in_bounds, 14 kernels), table look-ups in bounds (C12_tables_in_bounds, C10_unchecked_in_bounds), an out-of-bounds access would surface as a model panic and never occurs (C12_kernels_never_out_of_bounds); the slab's paired borrow: C12_slab_pair_in_bounds_and_disjoint (whenever get_pair_mut does not panic its two raw slices are symbol_size long, inside the count*symbol_size bytes and disjoint, for every mapping incl. non-permutations) and C12_slab_pair_agrees_with_model (the byte-offset computation and the symbol-level model of C09 take the same decisions). Validated only: real kernels run with guard bytes on both sides of every buffer at 64 alignments, slab op lists against the model.",
        note="Cannot be exhibited by the model: pointer provenance, allocator slack, compiler reordering, what the CPU does on an actual out-of-bounds access; that the recorded access lists are exactly what the Rust performs is by construction of the hand model and validated by canaries, not proved. No axioms.",
        technique="Rocq proof of index bounds over access-list models + guard-byte validation (partial)",
        ref="DESIGN.md section 5, C12"),
    "C14": dict(
        text="generate_encoding_parameters is modelled cast by cast (both the pre-fix and the repaired code); on the Spec domain D (a valid configuration exists) C14_matches_rfc: the result is the RFC 4.3 derivation for all F, mtu < 2^16, WS < 2^64 in both modes; T largest multiple, Z least, N least and existing, monotone in the budget, result accepted by the constructor; the two pre-fix defects are refuted by witnesses (C14_pinned_refuted_*), repaired in /repo by fixes a0c0f31 and 8169afc. Tie: hook + with_defaults vs model in both profiles and vs the Spec on its domain; budgets log-uniform over u64 plus KL change points and 2^32 multiples.",
        note="Trusted: Coq kernel; translator (Table 2, default budget); Spec/Derive.v as RFC 4.3 with the crate's free choice of Al/SS; sampled correspondence. The round-trip clause of the property is covered through C01/C05 on the derived configuration. No axioms.",
        technique="Rocq proof (model = RFC derivation on its domain) + boundary correspondence",
        ref="DESIGN.md section 5, C14"),
    "C15": dict(
        text="Look-up functions, rand, deg, intermediate_tuple and enc_indices modelled statement by statement with u32/u64 widths; C15_params for all K <= 56403 via a scan lemma + 477-row sweep (K' least, S/W/P1 prime with P1 the least prime >= P, B >= 1, P >= H >= 2, L < 65536); C15_tuple_is_rfc and C15_tuple_ranges for every row and every X < 2^32; C15_no_panic_fixed / C15_enc_indices_in_range (PI loop terminates by a number-theoretic argument on the prime P1); the pre-fix overflow is characterised exactly (C15_pinned_only_two: the two reachable (K',X) pairs, found by inverting A modulo 2^32), repaired by fix 78eb5b2. Tables re-extracted every run and proved equal to the Spec snapshot. Tie: all 8 look-ups for all K (exhaustive), rand/deg/tuple/enc_indices on boundary and algebraically selected inputs, both profiles, tuples vs the Spec. Symbolic correspondence: Kani/CBMC harnesses decide for ALL v < 2^20, W that the real deg equals Spec.Deg, and for all y, i < 256 that the real rand equals Spec.Rand at the moduli 2^32-1 and 2^20 (validation, not proof).",
        note="Trusted: Coq kernel; translator (V0..V3, Table 2, P1 table, f[], multipliers); Spec/Tables_RFC.v snapshot trusted to be the RFC's tables; sampled correspondence over the 8e9 (K',X) pairs, symbolic (Kani/CBMC, validation only) for deg and rand. No axioms.",
        technique="Rocq proof (sweeps lifted + algebra over all X) + exhaustive/boundary and symbolic (Kani) correspondence",
        ref="DESIGN.md section 5, C15"),
    "C08": dict(
        text="SourceBlockDecoder / Decoder modelled as the state machine of the code (ESI set, optional source symbols, repair list, counter, per-block memo; cases 1/2/3a/3b with fall-back). Theorems for every consistent history: C08_inv (counter = number of present source symbols, ESI set = ESIs present, repair list duplicate-free), C08_dup_ignored, C08_set_determined (state depends only on the packet set, up to order of the repair list), C08_answer_set_determined_none (Some/None depends only on the set: matrices of permuted ISI lists have permuted rows, injectivity is permutation invariant), C08_batching, C08_stable, C08_incremental_eq_oneshot, C08_block_interleaving. Tie: histories (permutations with repetitions, batch boundaries, interleaved blocks, post-completion, clones, both APIs) on the real decoder vs the model step by step, both profiles, thresholds dense/250/sparse; different histories of one packet set must end in the same answer on the real code.",
        note="Trusted: Coq kernel; the model's solver is the reference elimination (equality of bytes across orders follows from uniqueness for the encoder's own packets: C01); derive(Clone) deep copy; sampled histories (K <= 40). For corrupted payloads the answer may legitimately depend on order (C08_ex_corrupt_order_dependent): outside the property (packets the encoder produced). No axioms.",
        technique="Rocq proof (state-machine invariants + permutation invariance of injectivity) + history correspondence",
        ref="DESIGN.md section 5, C08"),
    "C02": dict(
        text="C02_decodes_iff: for every reachable decoder state with at least K ESIs and not all source symbols, the model returns Some exactly when the constraint matrix of the received set is injective over GF(256) (3b is the reference elimination, proved Some iff injective; 3a's rows are a sub-list of the full matrix's rows so its success implies the full system's, and its failure falls through: C02_fast_path_never_loses); C02_case1_not_injective (fewer than K symbols can never determine the block), C02_all_source_decodes, C02_monotone; panic-freedom of the rebuild for all K <= 56403. With C04_matrix_is_rfc the matrix is the RFC's. Tie: real SourceBlockDecoder fed one symbol at a time, Some/None at EVERY prefix vs the model (= rank oracle), oracle-guided generation of rank-deficient sets, overhead stream exercising the binary-only path at its own rank boundary, both profiles and back-ends.",
        note="Trusted: Coq kernel; the five-phase solver of pi_solver.rs is itself modelled (Model/PiSolver.v: selection statistics, component graph, the five phases, both build variants incl. the errata-11 release shortcuts) and proved sound and complete (C02s_PS_sound: a returned operation list is a certificate; C02s_PS_complete: None iff the matrix is not injective; C02s_PS_first_phase_total: errata 2 as a theorem); its operation lists are compared TOKEN BY TOKEN with the real solver's on the dense back-end on every run (encoding systems and decoder systems incl. singular ones, both profiles). The model never panics (C02s_PS_total: component-graph bookkeeping, selection statistics and all debug-build *_verify assertions), so pi_solve = None <-> not injective holds outright (C02s_PS_complete_solve, C02s_PS_system_total for every generated system, K <= 56403); the sparse back-end iterates in physical order and is tied through C16 + C07 + prefix-wise Some/None. Sampled K <= 40 quick / 120 thorough. No axioms.",
        technique="Rocq proof (decode <-> injective; five-phase solver model proved sound and complete) + prefix-wise rank-oracle and exact op-list correspondence",
        ref="DESIGN.md section 5, C02"),
    "C01": dict(
        text="C01u_object_sound / C01u_block_sound (unconditional, both modes, every K <= 56403): for every valid configuration, all data and EVERY history of packets the model encoder produces (any order, multiplicity, subset, repair ESIs < 2^24) the model decoder never panics and answers None or exactly the object with length F; C01u_object_complete / C01u_all_source_complete: all source packets delivered => the object. Chain: the encoder's intermediate symbols solve the encoding system (reference elimination, proved correct), G_ENC rows are indicator rows of duplicate-free index lists so every received row is satisfied by the true C, uniqueness of the solution of an injective system forces the decoder's C, rebuilt symbols are Enc(C) = source symbols, un-interleaving by C05. Matrix facts discharged from the C04 development. Props/C01s.v closes the loop to the solver: the encoder and decoder models that run the five-phase solver model (Model/PiSolver.v, whose op lists equal the real solver's token by token) plus the op replay are EQUAL to the ones with the reference elimination on every consistent system (C01s_solver_equals_reference, C01s_block_decoder_equal, C01s_object_decoder_equal), so soundness and completeness hold for them too (C01s_object_sound_pi / _complete_pi). Tie: whole encode -> erase/reorder/duplicate -> decode histories on the real code vs the model step by step (Z>1, N>1, padding, both profiles, dense/sparse thresholds) with the oracle 'None or exactly the object'.",
        note="Trusted: Coq kernel; the real plan replay producing the model's intermediate symbols is certified per K' in C06 (in-kernel up to the stated bound) and tied by correspondence beyond; the real five-phase solver is tied to its model op list by op list on the dense back-end and by results on the sparse back-end (C02). repair_packets with a start index beyond the 24-bit ESI space used to wrap in release builds (repaired, fix 7bdcd6d). No axioms.",
        technique="Rocq proof (encode/decode soundness via uniqueness of the solution) + history correspondence",
        ref="DESIGN.md section 5, C01"),
    "C04": dict(
        text="C04_matrix_is_rfc: for every one of the 477 rows of Table 2, every K selecting it, every ISI list (< 2^32) and both modes the constraint matrix the model builds (as the code does: set-based LDPC/ENC rows, right-to-left HDPC recursion) equals, as a list of rows, the RFC matrix of the Spec (parity of the RFC's additive relations, HDPC = MT x GAMMA naive product): C04_hdpc_recursion_is_product by induction with the field laws and i1 <> i2, C04_ldpc_rows_are_rfc and C04_enc_rows_are_rfc from distinctness of the indices (S, W, P1 prime; P >= 3 swept over the table), the no-HDPC variant likewise. With C01u_source_is_enc / C18_enc_into_is_enc_indices the packets are Enc[K', C, Tuple[K', X+K'-K]] of THE solution C. Tie: real packets (source, first repair, windows over the whole 24-bit ESI range) vs the Spec oracle, which shares nothing with the crate's computation; multi-block objects vs the model.",
        note="Trusted: Coq kernel; Spec/Code.v, Spec/Tuple.v, Spec/Rand.v hand-transcribed from RFC 6330; unstructured tables are a snapshot; that A(K') is invertible is proved per K' by the C06 certificates (in-kernel bound stated there) and is the RFC's own claim beyond. No axioms.",
        technique="Rocq proof (model matrix = RFC matrix for all K') + Spec-oracle correspondence of packets",
        ref="DESIGN.md section 5, C04"),
    "C06": dict(
        text="PARTIAL beyond the in-kernel bound. For every K' up to the bound (quick: 74 rows K' <= 500; thorough: 201 rows K' <= 3000) the operation list of SourceBlockEncodingPlan::generate(K') is dumped from the CURRENT tree on every run and `cert_ok K' plan = true` is checked by the kernel's VM in a generated file; C06_for_block_size turns it into: for every K mapping to K', all data, all T, both modes the replayed symbols satisfy every LDPC/HDPC relation and reproduce every source and padding symbol, are the unique solution, equal the direct solve, the encoder builds, A(K') is invertible. Direct solves on the sparse and dense back-ends are certified for a subset. Beyond the bound: the extracted checker (validation, K' = 5008 and 10002 in the thorough tier), the hook-based constraint check of the real intermediate symbols, and a row-by-row comparison of the real constraint matrix (all LDPC rows, sampled G_ENC rows, sparse back-end) with the model for the largest block sizes incl. K' = 56403.",
        note="Trusted: Coq kernel (vm_cast_no_check: evaluated by the kernel VM at Qed); the generated files contain only the dumped literal; K' above the bound (276 rows in thorough) are NOT proved, only validated; the sparse/dense row representations are abstracted (C16). No axioms.",
        technique="Rocq proof by per-K' certificate checking in the kernel (plans regenerated from source every run) + hook-based constraint check",
        ref="DESIGN.md section 5, C06"),
    "C16": dict(
        text="Both implementations are modelled statement by statement (dense: bit positions, masks, popcount, iterator stepping, right-aligned packing, resize compaction; sparse: sorted u16 rows with the single-entry fast path, right-aligned dense tail with the re-spacing loop of the freeze, logical/physical row and column maps, the immutable column index and its staleness, every assert / unimplemented! as a panic) and proved to refine the abstract bit array of Spec/BitMatrix.v for every operation and query (C16_dense_*_refines, C16_sparse_*_refines; row and column queries as sets), lifted to every admissible operation sequence (C16_dense_sequence, C16_sparse_sequence, C16_*_run: model run = abstract run; no panic, all answers equal, undefined cells excluded as the interface says). Admissibility for the sparse matrix is an explicit phase-aware predicate (Spec/SparseAdm.v). Eight defects found on the way are repaired in /repo and kept as `_pinned_refuted` witnesses. Tie: real DenseBinaryMatrix and SparseBinaryMatrix run on random / phase-structured operation sequences (widths across word boundaries, tails growing to a third word, inadmissible ops as a separate stream) vs both models and vs the Spec, both profiles.",
        note="Trusted: Coq kernel; Spec/BitMatrix.v + Spec/SparseAdm.v as the interface meaning (the sparse restrictions are the implementation's own documented refusals; height >= width and non-zero width are part of the domain). HashMap/Vec behaviour is modelled by lists. No axioms.",
        technique="Rocq refinement proofs (dense and sparse -> abstract bit matrix, all admissible sequences) + op-sequence correspondence",
        ref="DESIGN.md section 5, C16"),
    "C18": dict(
        text="C18_window_is_singles (both modes, unconditional), C18_singles_make_window, C18_overlap_agree, C18_ids / C18_ids_mod (ESI = K+s+i, distinct, disjoint from source ids), C18_object_order (block by block: source 0..K-1 then repair K..), C18_all_ids_producible (every id below 2^24 is produced without panic, via the C15 tuple facts), C18_symbol_depends_only_on (payload is a function of K, the intermediate symbols and the ESI), C18_enc_into_is_enc_indices. Tie: on the real encoder windows vs singles vs overlapping windows, ids, object order, the three constructors (cache / explicit plan / regenerated plan) produce equal encoders, top-of-range windows and the 2^24 limit, all also vs the model in both profiles.",
        note="Trusted: Coq kernel; determinism of plan generation on the real code is a correspondence fact. Windows reaching beyond the 24-bit ESI space are refused (assert added by fix 7bdcd6d; before it a start index near 2^32 wrapped in release builds). No axioms.",
        technique="Rocq proof over the encoder model + window/constructor correspondence",
        ref="DESIGN.md section 5, C18"),
    "C07": dict(
        text="PARTIAL. Proved (corollaries of the uniqueness theorems): any two certified solves of one system -- whatever back-end, sparse threshold, pivoting or plan origin -- read out the same symbols (C07_two_certificates_same_symbols); success is a property of the system, not of the solver run (C07_success_is_backend_independent); replayed plan = direct solve in both modes (C07_plan_origin_irrelevant); the matrix model does not depend on overflow checking (C07_matrix_mode_irrelevant); every kernel dispatch path equals the portable kernels (C07_kernel_dispatch_irrelevant, from C11); build variants at model level: the encoder's intermediate symbols are the same for the reference model in every mode and for the model running the real five-phase solver in its debug (X matrix, full-row eliminations, overflow checks) and release (errata-11 shortcuts) variants (C07_encoder_reference_mode_irrelevant, C07_encoder_build_mode_irrelevant); the decoder's constraint matrix and WHETHER it answers are the same in both variants for every reachable state (C07_decoder_matrix_mode_irrelevant, C07_decodability_build_mode_irrelevant; what it answers is the block in every mode by C01u/C01s). Validated by cross-build correspondence on every run: one seeded workload in {release, debug+overflow-checks} x {std, no_std} with decoder thresholds {dense, 250, sparse} and encoders built five ways (warm/cold cache, explicit plan, direct sparse, direct dense); all result lines identical and equal to the model's.",
        note="Build, no_std and CPU independence of the REAL binaries is validated on this AVX-512 x86_64 host only, not proved: a theorem about the model cannot exhibit compiler or CPU behaviour; other CPUs' kernels are covered by C11's per-kernel theorems and direct runs. No axioms.",
        technique="Rocq corollaries of solution uniqueness + cross-build / cross-back-end correspondence (partial)",
        ref="DESIGN.md section 5, C07"),
}

NOT_APPLICABLE = {
    "C03": "quantitative probability claim over ~C(2^24,K+h) received sets; no closed form or provable bound, and sampling may not decide a property in this technique family; the reduction 'fails iff RFC matrix rank-deficient' is proved under C02/C04 instead (DESIGN.md section 9)",
}

PENDING_REASON = "not yet claimed: model/proofs/correspondence for this property are still being built in this round (pending, not judged inapplicable)"
ALL = ["C%02d" % i for i in range(1, 20)]


def main():
    hooks_commits = subprocess.run(["git", "-C", "/repo", "log", "--format=%h %s"], stdout=subprocess.PIPE).stdout.decode().split("\n")
    hook_shas = [l.split()[0] for l in hooks_commits if "verif_hooks" in l or "verif hook" in l.lower()]
    checks = []
    for pid in sorted(CHECKS):
        c = CHECKS[pid]
        checks.append({
            "property_id": pid,
            "quick_cmd": f"bin/vcheck {pid} quick",
            "thorough_cmd": f"bin/vcheck {pid} thorough",
            "evidence_file": f"evidence/{pid}.json",
            "replay_cmd_template": "bin/vreplay {path}",
            "engine": "rocq-proof",
            "level_claimed": {"category": "proof", "text": c["text"], "design_ref": c["ref"]},
            "level_note": c["note"],
            "technique": c["technique"],
        })
    na = [{"property_id": k, "reason": v} for k, v in sorted(NOT_APPLICABLE.items())]
    for pid in ALL:
        if pid not in CHECKS and pid not in NOT_APPLICABLE:
            na.append({"property_id": pid, "reason": PENDING_REASON})
    m = {
        "version": 1,
        "setup_cmd": "bin/vsetup",
        "hooks": {
            "guard": "verif_hooks",
            "enable": "cargo feature: harness/Cargo.toml depends on raptorq { path = \"/repo\", features = [\"benchmarking\", \"verif_hooks\"] }",
            "baseline_off_cmd": "cd /repo && cargo test --workspace --no-fail-fast --offline",
            "source_commits": hook_shas,
            "add_only": True,
        },
        "engines": [
            {"name": "rocq-proof", "path": "coq/", "serves_properties": sorted(CHECKS),
             "kind_free_text": "Coq 8.16.1 development: Spec (RFC 6330) / Gen (tables regenerated from /repo by translator/rs2v.py) / Model (hand-written executable Gallina mirroring the Rust) / Proofs / Props (pinned theorems)"},
            {"name": "correspondence", "path": "driver/ harness/ ocaml/", "serves_properties": sorted(CHECKS),
             "kind_free_text": "differential run of the real crate (harness/rqh, built from /repo's working tree with the verif_hooks feature) against the extracted model and the Spec oracle; sample re-evaluated in the Coq kernel"},
        ],
        "checks": checks,
        "not_applicable": na,
        "notes": "Properties listed under not_applicable with reason 'not yet claimed' are pending work of this round, not judged inapplicable; only C03 is judged not decidable by this technique family.",
    }
    with open(os.path.join(VERIF, "MANIFEST.json"), "w") as f:
        json.dump(m, f, indent=1)
        f.write("\n")
    print("MANIFEST.json:", len(checks), "checks,", len(na), "not_applicable")


if __name__ == "__main__":
    main()
