#!/usr/bin/env python3
"""Regenerates MANIFEST.json from the table below (one place to keep claims, notes and N/A reasons)."""
import json
import os
import subprocess

VERIF = os.path.dirname(os.path.dirname(os.path.abspath(__file__)))

CHECKS = {
    "C10": dict(
        text="The table-driven octet arithmetic of the model is proved to be the polynomial field GF(2)[x]/(x^8+x^4+x^3+x^2+1) with alpha=2 for all operands (field laws algebraically from 510/256-entry sweeps, products by a 65 536-pair sweep lifted with forallb_forall; derived tables likewise); OCT_EXP/OCT_LOG are re-extracted from the current source on every run so the theorems are re-checked against what the code says now; the operator impls and the three derived tables are compared exhaustively (all pairs, both build profiles) with the model and with the Spec oracle. Complete for this finite property.",
        note="Trusted: Coq kernel + vm_compute; translator for two tables; Spec/GF256.v as the RFC's field; the Rust harness and the diff. No axioms (Print Assumptions: closed under the global context).",
        technique="Rocq proof over translator-regenerated tables + exhaustive correspondence",
        ref="DESIGN.md section 5, C10"),
    "C13": dict(
        text="Serialisers and deserialisers of payload id, packet and OTI are modelled shift for shift; theorems (all field values within their widths, all payload lengths, all 4- and 12-byte buffers): layout = big-endian digit strings of the Spec, deserialise(serialise x) = x, re-serialisation reproduces the buffer except the reserved byte, short packets panic. Tie: hand model checked against the real API on boundary + random + malformed streams in both profiles, and the real bytes compared with the Spec layout directly.",
        note="Trusted: Coq kernel; Spec/Wire.v as the RFC 3.2/3.3 layouts; correspondence is sampled (not exhaustive over 2^32 ids); static array lengths modelled as dynamic checks. No axioms.",
        technique="Rocq proof (bit-level algebra) + differential correspondence",
        ref="DESIGN.md section 5, C13"),
    "C19": dict(
        text="Theorem C19_fixed_accepts_iff_valid: for all F < 2^64, 0<T<2^16, 0<Z<2^8, 0<Al<2^8 the modelled constructor returns exactly the given values iff the documented limits hold and panics otherwise, in both overflow modes; the pre-fix code is refuted by C19_pinned_refuted (2^32+5,1,1,1,1), repaired in /repo by fix 51a20da. Tie: accept/refuse of the real constructor vs the model and vs the Spec predicate on limit-adjacent inputs (F/T beyond 2^32, 56403*Z*T +- d, 942574504275 +- d), both profiles.",
        note="Trusted: Coq kernel; Spec/Oti.v as the documented limits; sampled correspondence. No axioms.",
        technique="Rocq proof (accept <-> valid) + boundary-stream correspondence",
        ref="DESIGN.md section 5, C19"),
    "C17": dict(
        text="The cache is modelled as atomic steps (lookup critical section, unlocked generation, insert critical section with double check and FIFO eviction) of any number of threads; C17_invariant holds for EVERY schedule by induction (|plans| <= 64, order duplicate-free and equal to the key set, every stored and every in-flight plan is gen k), C17_transparent (every plan handed out for k is gen k), C17_bound, C17_fifo_eviction, C17_request_completes. Capacity comes from the source via the translator. Tie: the real cache is driven through the between-sections hook under enumerated and random schedules; its contents after every critical section are compared with the model, and the property predicates are evaluated on the real trace.",
        note="Assumed: std::sync::Mutex mutual exclusion (one critical section = one atomic step); poisoning recovery not modelled; plan generation is a function of the symbol count; Arc identity not observed. No axioms.",
        technique="Rocq invariant proof over all schedules + schedule-controlled correspondence",
        ref="DESIGN.md section 5, C17"),
}

NOT_APPLICABLE = {
    "C03": "quantitative probability claim over ~C(2^24,K+h) received sets; no closed form or provable bound, and sampling may not decide a property in this technique family; the reduction 'fails iff RFC matrix rank-deficient' is proved under C02/C04 instead (DESIGN.md section 9)",
}

PENDING_REASON = "not yet claimed: model/proofs/correspondence for this property are still being built in this round (pending, not judged inapplicable)"
ALL = ["C%02d" % i for i in range(1, 20)]


def main():
    hooks_commits = subprocess.run(["git", "-C", "/repo", "log", "--format=%h %s"], stdout=subprocess.PIPE).stdout.decode().split("\n")
    hook_shas = [l.split()[0] for l in hooks_commits if "verif_hooks" in l or "verif hook" in l.lower()]
    checks = []
    for pid in sorted(CHECKS):
        c = CHECKS[pid]
        checks.append({
            "property_id": pid,
            "quick_cmd": f"bin/vcheck {pid} quick",
            "thorough_cmd": f"bin/vcheck {pid} thorough",
            "evidence_file": f"evidence/{pid}.json",
            "replay_cmd_template": "bin/vreplay {path}",
            "engine": "rocq-proof",
            "level_claimed": {"category": "proof", "text": c["text"], "design_ref": c["ref"]},
            "level_note": c["note"],
            "technique": c["technique"],
        })
    na = [{"property_id": k, "reason": v} for k, v in sorted(NOT_APPLICABLE.items())]
    for pid in ALL:
        if pid not in CHECKS and pid not in NOT_APPLICABLE:
            na.append({"property_id": pid, "reason": PENDING_REASON})
    m = {
        "version": 1,
        "setup_cmd": "bin/vsetup",
        "hooks": {
            "guard": "verif_hooks",
            "enable": "cargo feature: harness/Cargo.toml depends on raptorq { path = \"/repo\", features = [\"benchmarking\", \"verif_hooks\"] }",
            "baseline_off_cmd": "cd /repo && cargo test --workspace --no-fail-fast --offline",
            "source_commits": hook_shas,
            "add_only": True,
        },
        "engines": [
            {"name": "rocq-proof", "path": "coq/", "serves_properties": sorted(CHECKS),
             "kind_free_text": "Coq 8.16.1 development: Spec (RFC 6330) / Gen (tables regenerated from /repo by translator/rs2v.py) / Model (hand-written executable Gallina mirroring the Rust) / Proofs / Props (pinned theorems)"},
            {"name": "correspondence", "path": "driver/ harness/ ocaml/", "serves_properties": sorted(CHECKS),
             "kind_free_text": "differential run of the real crate (harness/rqh, built from /repo's working tree with the verif_hooks feature) against the extracted model and the Spec oracle; sample re-evaluated in the Coq kernel"},
        ],
        "checks": checks,
        "not_applicable": na,
        "notes": "Properties listed under not_applicable with reason 'not yet claimed' are pending work of this round, not judged inapplicable; only C03 is judged not decidable by this technique family.",
    }
    with open(os.path.join(VERIF, "MANIFEST.json"), "w") as f:
        json.dump(m, f, indent=1)
        f.write("\n")
    print("MANIFEST.json:", len(checks), "checks,", len(na), "not_applicable")


if __name__ == "__main__":
    main()
