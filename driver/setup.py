#!/usr/bin/env python3
import os
import sys
import time

sys.path.insert(0, os.path.dirname(os.path.abspath(__file__)))
import common as C


def main():
    t0 = time.time()
    with C.BuildLock():
        ok, out = C.run_translator()
        print(out)
        if not ok:
            return 1
        C.ensure_makefile()
        rc, out = C.sh(["make", f"-j{C.NCPU}", "-k"], cwd=C.COQ, timeout=7200)
        print("\n".join(l for l in out.split("\n") if "Closed under" not in l)[-6000:])
        if rc != 0:
            print("setup: coq build failed")
            return 1
        ok, out = C.build_model()
        if not ok:
            print(out[-4000:])
            return 1
        ok, out = C.build_harness(("release", "dev"))
        if not ok:
            print(out[-4000:])
            return 1
        ok, out = C.build_harness_nostd(("release", "dev"))
        if not ok:
            print(out[-4000:])
            return 1
        # symbolic-correspondence crate: reference evaluator + Kani codegen (best effort: a failure here only makes
        # the C13 / C15 checks report their Kani part as inconclusive)
        import shutil
        import subprocess
        kdir = os.path.join(C.VERIF, "kani")
        env = dict(os.environ, CARGO_NET_OFFLINE="true")
        lock = os.path.join(C.REPO, "Cargo.lock")
        if os.path.exists(lock) and not os.path.exists(os.path.join(kdir, "Cargo.lock")):
            shutil.copy(lock, os.path.join(kdir, "Cargo.lock"))
        for cmd in (["cargo", "build", "--release", "--bin", "kref"], ["cargo", "kani", "--only-codegen"]):
            try:
                p = subprocess.run(cmd, cwd=kdir, env=env, stdout=subprocess.PIPE, stderr=subprocess.STDOUT, timeout=1800)
                print("setup:", " ".join(cmd), "rc", p.returncode)
            except (OSError, subprocess.TimeoutExpired) as e:
                print("setup:", " ".join(cmd), "failed:", e)
    print(f"setup done in {time.time() - t0:.0f}s")
    return 0


if __name__ == "__main__":
    sys.exit(main())
