#!/usr/bin/env python3
import os
import sys
import time

sys.path.insert(0, os.path.dirname(os.path.abspath(__file__)))
import common as C


def main():
    t0 = time.time()
    with C.BuildLock():
        ok, out = C.run_translator()
        print(out)
        if not ok:
            return 1
        C.ensure_makefile()
        rc, out = C.sh(["make", f"-j{C.NCPU}", "-k"], cwd=C.COQ, timeout=7200)
        print("\n".join(l for l in out.split("\n") if "Closed under" not in l)[-6000:])
        if rc != 0:
            print("setup: coq build failed")
            return 1
        ok, out = C.build_model()
        if not ok:
            print(out[-4000:])
            return 1
        ok, out = C.build_harness(("release", "dev"))
        if not ok:
            print(out[-4000:])
            return 1
        ok, out = C.build_harness_nostd(("release", "dev"))
        if not ok:
            print(out[-4000:])
            return 1
    print(f"setup done in {time.time() - t0:.0f}s")
    return 0


if __name__ == "__main__":
    sys.exit(main())
