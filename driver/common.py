"""Shared machinery for the per-property checks (see DESIGN.md section 3).

Build steps (all incremental, all from /repo's current working tree):
  translator -> coq/Gen/*.v ; make <targets> ; hygiene gates ; extraction -> build/rqmodel ;
  cargo build of harness/ (release and dev profiles).
Running: case lines -> implementation (rqh) and model (extracted OCaml; a sample re-evaluated in
the Coq kernel with vm_compute), diffing, evidence, violation reporting.
"""
import fcntl
import hashlib
import json
import os
import re
import shutil
import subprocess
import sys
import time

VERIF = os.path.dirname(os.path.dirname(os.path.abspath(__file__)))
REPO = os.environ.get("VERIF_REPO", "/repo")
COQ = os.path.join(VERIF, "coq")
BUILD = os.path.join(VERIF, "build")
HARNESS = os.path.join(VERIF, "harness")
EVIDENCE = os.environ.get("VERIF_EVIDENCE_DIR") or os.path.join(VERIF, "evidence")  # run_seeded redirects it: a run on a mutated tree must never overwrite committed evidence
REPLAYS = os.path.join(VERIF, "replays")
CORPUS = os.path.join(VERIF, "corpus")
NCPU = os.cpu_count() or 4

ENV = dict(os.environ)
ENV.update({"CARGO_NET_OFFLINE": "true", "CARGO_TERM_COLOR": "never"})

sys.path.insert(0, os.path.dirname(os.path.abspath(__file__)))
from fncodes import FN  # noqa: E402


# ------------------------------------------------------------------ deterministic randomness
class Rng:
    """splitmix64; every random choice of a check derives from VERIF_SEED through this."""

    def __init__(self, seed):
        self.s = seed & 0xFFFFFFFFFFFFFFFF

    def next(self):
        self.s = (self.s + 0x9E3779B97F4A7C15) & 0xFFFFFFFFFFFFFFFF
        z = self.s
        z = ((z ^ (z >> 30)) * 0xBF58476D1CE4E5B9) & 0xFFFFFFFFFFFFFFFF
        z = ((z ^ (z >> 27)) * 0x94D049BB133111EB) & 0xFFFFFFFFFFFFFFFF
        return z ^ (z >> 31)

    def below(self, n):
        return self.next() % n if n > 0 else 0

    def range(self, lo, hi):
        """inclusive"""
        return lo + self.below(hi - lo + 1)

    def choice(self, xs):
        return xs[self.below(len(xs))]

    def shuffle(self, xs):
        xs = list(xs)
        for i in range(len(xs) - 1, 0, -1):
            j = self.below(i + 1)
            xs[i], xs[j] = xs[j], xs[i]
        return xs

    def bytes(self, n):
        out = bytearray()
        while len(out) < n:
            out += self.next().to_bytes(8, "little")
        return bytes(out[:n])

    def fork(self, tag):
        h = hashlib.sha256(f"{self.s}:{tag}".encode()).digest()
        return Rng(int.from_bytes(h[:8], "little"))


def get_seed():
    try:
        return int(os.environ.get("VERIF_SEED", "1"))
    except ValueError:
        return 1


# ------------------------------------------------------------------ locking / subprocess
class BuildLock:
    def __enter__(self):
        os.makedirs(BUILD, exist_ok=True)
        self.f = open(os.path.join(BUILD, ".lock"), "w")
        fcntl.flock(self.f, fcntl.LOCK_EX)
        return self

    def __exit__(self, *a):
        fcntl.flock(self.f, fcntl.LOCK_UN)
        self.f.close()


def sh(cmd, cwd=None, timeout=1800, env=None):
    """run, return (rc, combined output)"""
    try:
        p = subprocess.run(cmd, cwd=cwd, env=env or ENV, stdout=subprocess.PIPE, stderr=subprocess.STDOUT,
                           timeout=timeout, shell=isinstance(cmd, str))
        return p.returncode, p.stdout.decode(errors="replace")
    except subprocess.TimeoutExpired as e:
        out = (e.stdout or b"").decode(errors="replace")
        return 124, out + f"\n[timeout after {timeout}s]"


# ------------------------------------------------------------------ build steps
def coq_files():
    fs = []
    for d in ("Base", "Spec", "Gen", "Model", "Proofs", "Props", "Extract"):
        p = os.path.join(COQ, d)
        if os.path.isdir(p):
            for root, _, names in os.walk(p):
                for n in sorted(names):
                    if n.endswith(".v"):
                        fs.append(os.path.relpath(os.path.join(root, n), COQ))
    top = [n for n in sorted(os.listdir(COQ)) if n.endswith(".v")]
    return sorted(fs) + top


def run_translator():
    rc, out = sh([sys.executable, os.path.join(VERIF, "translator", "rs2v.py"), REPO, os.path.join(COQ, "Gen")])
    return rc == 0, out


def ensure_makefile():
    files = coq_files()
    listing = "\n".join(files)
    stamp = os.path.join(COQ, ".filelist")
    old = open(stamp).read() if os.path.exists(stamp) else None
    if old != listing or not os.path.exists(os.path.join(COQ, "Makefile")):
        rc, out = sh(["coq_makefile", "-f", "_CoqProject", "-o", "Makefile"] + files, cwd=COQ)
        if rc != 0:
            raise RuntimeError("coq_makefile failed:\n" + out)
        with open(stamp, "w") as f:
            f.write(listing)


def make_targets(targets, timeout=2400):
    """make the given .vo targets; returns (ok, output)"""
    ensure_makefile()
    rc, out = sh(["make", f"-j{NCPU}", "-k"] + targets, cwd=COQ, timeout=timeout)
    return rc == 0, out


FORBIDDEN = re.compile(
    r"\b(Admitted|admit|Axiom|Axioms|Parameter|Parameters|Conjecture|Conjectures|Hypothesis|Hypotheses|Variable|Variables)\b"
    r"|Unset\s+Guard|bypass_check|type-in-type|impredicative-set|Admit\s+Obligations|Unset\s+Universe|Unset\s+Positivity"
)


def strip_coq_comments(s):
    out = []
    depth = 0
    i = 0
    while i < len(s):
        if s.startswith("(*", i):
            depth += 1
            i += 2
        elif s.startswith("*)", i) and depth > 0:
            depth -= 1
            i += 2
        else:
            if depth == 0:
                out.append(s[i])
            i += 1
    return "".join(out)


def hygiene():
    """no Admitted / Axiom / Parameter ... anywhere; Section Variables are allowed only inside a Section"""
    problems = []
    for rel in coq_files():
        if rel.startswith("Gen/"):
            pass
        text = strip_coq_comments(open(os.path.join(COQ, rel)).read())
        depth = 0
        for ln, line in enumerate(text.split("\n"), 1):
            if re.match(r"\s*Section\b", line):
                depth += 1
            if re.match(r"\s*End\b", line) and depth > 0:
                depth -= 1
                continue
            for m in FORBIDDEN.finditer(line):
                w = m.group(0)
                if w.split()[0] in ("Variable", "Variables", "Hypothesis", "Hypotheses") and depth > 0:
                    continue
                problems.append(f"{rel}:{ln}: {w}")
    proj = open(os.path.join(COQ, "_CoqProject")).read()
    if re.search(r"type-in-type|impredicative-set", proj):
        problems.append("_CoqProject: forbidden flag")
    return problems


ALLOWED_AXIOMS = set()  # target: none.  Extend (by name) only together with DESIGN.md section 7.


def assumptions_of(prop_id, theorem_names, props_files=None):
    """Print Assumptions for each pinned theorem through a generated file; returns dict name -> text"""
    os.makedirs(BUILD, exist_ok=True)
    path = os.path.join(BUILD, f"assum_{prop_id}.v")
    with open(path, "w") as f:
        for pf in (props_files or [prop_id]):
            f.write(f"From RQ Require Import Props.{pf}.\n")
        for n in theorem_names:
            f.write(f'Goal True. idtac "@@BEGIN {n}". Abort.\nPrint Assumptions {n}.\n')
        f.write('Goal True. idtac "@@END". Abort.\n')
    rc, out = sh(["coqc", "-Q", COQ, "RQ", "-noglob", "-o", os.path.join(BUILD, f"assum_{prop_id}.vo"), path], cwd=BUILD, timeout=900)
    res = {}
    if rc != 0:
        return None, out
    cur = None
    for line in out.split("\n"):
        m = re.match(r"@@BEGIN (\S+)", line)
        if m:
            cur = m.group(1)
            res[cur] = ""
            continue
        if line.startswith("@@END"):
            cur = None
            continue
        if cur is not None:
            res[cur] += line + "\n"
    return res, out


def theorem_names(prop_id):
    text = strip_coq_comments(open(os.path.join(COQ, "Props", f"{prop_id}.v")).read())
    return re.findall(r"^\s*Theorem\s+(\w+)", text, flags=re.M)


def pins_ok(prop_id):
    """Props/<id>.v must hash to the value recorded in coq/Props/PINS.json (statements cannot drift silently)"""
    pins_path = os.path.join(COQ, "Props", "PINS.json")
    if not os.path.exists(pins_path):
        return False, "PINS.json missing"
    pins = json.load(open(pins_path))
    h = hashlib.sha256(open(os.path.join(COQ, "Props", f"{prop_id}.v"), "rb").read()).hexdigest()
    if pins.get(prop_id) != h:
        return False, f"Props/{prop_id}.v hash {h} != pinned {pins.get(prop_id)}"
    return True, h


def build_model():
    """extraction + ocamlopt -> build/rqmodel (rebuilt only when the extracted source changed)"""
    ok, out = make_targets(["Extract/Extract.vo"])
    if not ok:
        return False, out
    src_ml = os.path.join(COQ, "rqmodel.ml")
    src_mli = os.path.join(COQ, "rqmodel.mli")
    os.makedirs(BUILD, exist_ok=True)
    changed = False
    for src in (src_ml, src_mli):
        if os.path.exists(src):
            dst = os.path.join(BUILD, os.path.basename(src))
            new = open(src, "rb").read()
            old = open(dst, "rb").read() if os.path.exists(dst) else None
            if old != new:
                with open(dst, "wb") as f:
                    f.write(new)
                changed = True
    drv_src = os.path.join(VERIF, "ocaml", "driver.ml")
    drv_dst = os.path.join(BUILD, "driver.ml")
    if not os.path.exists(drv_dst) or open(drv_src).read() != open(drv_dst).read():
        shutil.copy(drv_src, drv_dst)
        changed = True
    exe = os.path.join(BUILD, "rqmodel")
    if changed or not os.path.exists(exe):
        if not os.path.exists(os.path.join(BUILD, "rqmodel.ml")):
            return False, "no extracted rqmodel.ml"
        rc, out2 = sh(["ocamlfind", "ocamlopt", "-O3", "-w", "-a", "rqmodel.mli", "rqmodel.ml", "driver.ml", "-o", "rqmodel"],
                      cwd=BUILD, timeout=900)
        if rc != 0:
            return False, out2
    return True, ""


def build_harness(profiles=("release",)):
    lock_src = os.path.join(REPO, "Cargo.lock")
    lock_dst = os.path.join(HARNESS, "Cargo.lock")
    if not os.path.exists(lock_dst) and os.path.exists(lock_src):
        shutil.copy(lock_src, lock_dst)
    outs = []
    for prof in profiles:
        cmd = ["cargo", "build", "--offline"] + (["--release"] if prof == "release" else [])
        rc, out = sh(cmd, cwd=HARNESS, timeout=1800)
        outs.append(out)
        if rc != 0:
            return False, "\n".join(outs)
    return True, "\n".join(outs)


HARNESS_NOSTD = os.path.join(VERIF, "harness_nostd")


def build_harness_nostd(profiles=("release", "dev")):
    lock_src = os.path.join(REPO, "Cargo.lock")
    lock_dst = os.path.join(HARNESS_NOSTD, "Cargo.lock")
    if not os.path.exists(lock_dst) and os.path.exists(lock_src):
        shutil.copy(lock_src, lock_dst)
    for prof in profiles:
        cmd = ["cargo", "build", "--offline"] + (["--release"] if prof == "release" else [])
        rc, out = sh(cmd, cwd=HARNESS_NOSTD, timeout=1800)
        if rc != 0:
            return False, out
    return True, ""


def run_impl_nostd(cases, profile="release", timeout=3600):
    exe = os.path.join(HARNESS_NOSTD, "target", "release" if profile == "release" else "debug", "rqh_nostd")
    return _run_sharded(exe, [c.impl_line() for c in cases], "nostd_" + profile, timeout)


def harness_exe(profile="release"):
    return os.path.join(HARNESS, "target", "release" if profile == "release" else "debug", "rqh")


# ------------------------------------------------------------------ running cases
class Case:
    """one correspondence case: a function name with integer arguments"""

    __slots__ = ("fn", "args", "tag")

    def __init__(self, fn, args, tag=""):
        self.fn = fn
        self.args = [int(a) for a in args]
        self.tag = tag

    def impl_line(self):
        return self.fn + "".join(f" {a}" for a in self.args)

    def model_line(self, prefix=""):
        return str(FN[prefix + self.fn]) + "".join(f" {a}" for a in self.args)

    def key(self):
        return self.impl_line()

    def __repr__(self):
        return self.impl_line()


import itertools
import threading

_uniq = itertools.count()
_uniq_lock = threading.Lock()


def _run_sharded(exe, lines, tag, timeout):
    with _uniq_lock:
        tag = f"{tag}.{next(_uniq)}"
    """run exe on the lines split over NCPU processes; returns list of result lines"""
    os.makedirs(os.path.join(BUILD, "tmp"), exist_ok=True)
    n = len(lines)
    if n == 0:
        return []
    shards = min(NCPU, max(1, n // 200))
    per = (n + shards - 1) // shards
    procs = []
    for i in range(shards):
        chunk = lines[i * per : (i + 1) * per]
        inp = os.path.join(BUILD, "tmp", f"{tag}.{os.getpid()}.{i}.in")
        outp = os.path.join(BUILD, "tmp", f"{tag}.{os.getpid()}.{i}.out")
        with open(inp, "w") as f:
            f.write("\n".join(chunk) + "\n")
        # unlimited stack: the extracted model recurses over lists with millions of elements for the largest plans
        p = subprocess.Popen(["sh", "-c", 'ulimit -s unlimited 2>/dev/null; exec "$0" "$@"', exe, inp, outp],
                             stdout=subprocess.PIPE, stderr=subprocess.STDOUT, env=ENV)
        procs.append((p, inp, outp, len(chunk)))
    results = []
    deadline = time.time() + timeout
    for p, inp, outp, cnt in procs:
        try:
            p.wait(timeout=max(1, deadline - time.time()))
        except subprocess.TimeoutExpired:
            p.kill()
            raise RuntimeError(f"{exe} timed out on {inp}")
        if p.returncode != 0:
            msg = p.stdout.read().decode(errors="replace")
            raise RuntimeError(f"{exe} failed rc={p.returncode} on {inp}: {msg[-2000:]}")
        got = open(outp).read().split("\n")
        if got and got[-1] == "":
            got.pop()
        if len(got) != cnt:
            raise RuntimeError(f"{exe}: {len(got)} result lines for {cnt} cases ({inp})")
        results.extend(got)
        os.unlink(inp)
        os.unlink(outp)
    return results


def run_impl(cases, profile="release", timeout=3600):
    return _run_sharded(harness_exe(profile), [c.impl_line() for c in cases], "impl_" + profile, timeout)


def run_model(cases, prefix="", timeout=3600):
    return _run_sharded(os.path.join(BUILD, "rqmodel"), [c.model_line(prefix) for c in cases], "model", timeout)


def run_impl_crashsafe(cases, profile="release", chunk=60, timeout=600):
    """like run_impl, but a process killed by a signal (e.g. SIGSEGV on a guard page) is survived: the cases of
    the crashed chunk are re-run one per process and the crashing ones get the result line 'CRASH <signal>'"""
    import concurrent.futures as cf
    exe = harness_exe(profile)
    os.makedirs(os.path.join(BUILD, "tmp"), exist_ok=True)

    def run_chunk(idx_cases):
        try:
            return run_chunk0(idx_cases)
        except subprocess.TimeoutExpired:
            return -99, None

    def run_chunk0(idx_cases):
        with _uniq_lock:
            u = next(_uniq)
        inp = os.path.join(BUILD, "tmp", f"crash.{os.getpid()}.{u}.in")
        outp = inp[:-3] + ".out"
        with open(inp, "w") as f:
            f.write("\n".join(c.impl_line() for c in idx_cases) + "\n")
        p = subprocess.run([exe, inp, outp], stdout=subprocess.PIPE, stderr=subprocess.STDOUT, env=ENV, timeout=timeout)
        res = None
        if p.returncode == 0:
            res = open(outp).read().split("\n")
            if res and res[-1] == "":
                res.pop()
        for f in (inp, outp):
            try:
                os.unlink(f)
            except OSError:
                pass
        return p.returncode, res

    chunks = [cases[i : i + chunk] for i in range(0, len(cases), chunk)]
    out = []
    with cf.ThreadPoolExecutor(max_workers=NCPU) as ex:
        results = list(ex.map(run_chunk, chunks))
        for ch, (rc, res) in zip(chunks, results):
            if rc == 0 and res is not None and len(res) == len(ch):
                out.extend(res)
            else:
                singles = list(ex.map(lambda c: run_chunk([c]), ch))
                for (rc1, r1) in singles:
                    out.append(r1[0] if rc1 == 0 and r1 else f"CRASH {rc1}")
    return out


def canon(line):
    """canonical comparison form: panics compare equal whatever their class"""
    t = line.split()
    if not t:
        return ("?",)
    if t[0] == "0":
        return ("panic",)
    return tuple(t)


def run_kernel(cases, prefix="", timeout=1800):
    """evaluate cases inside Coq with vm_compute (the kernel's VM); returns canonical result lines"""
    if not cases:
        return []
    os.makedirs(os.path.join(BUILD, "tmp"), exist_ok=True)
    n = len(cases)
    shards = min(NCPU, max(1, n // 40))
    per = (n + shards - 1) // shards
    procs = []
    for i in range(shards):
        chunk = cases[i * per : (i + 1) * per]
        if not chunk:
            continue
        path = os.path.join(BUILD, "tmp", f"kcases_{os.getpid()}_{i}.v")
        with open(path, "w") as f:
            f.write("From Coq Require Import NArith List.\nFrom RQ Require Import Model.Run.\nImport ListNotations.\nOpen Scope N_scope.\n")
            for c in chunk:
                args = "; ".join(str(a) for a in c.args)
                f.write(f"Eval vm_compute in (run {FN[prefix + c.fn]} [{args}]).\n")
        p = subprocess.Popen(["coqc", "-Q", COQ, "RQ", "-noglob", "-o", path + "o", path], stdout=subprocess.PIPE,
                             stderr=subprocess.STDOUT, cwd=os.path.join(BUILD, "tmp"), env=ENV)
        procs.append((p, path, len(chunk)))
    results = []
    for p, path, cnt in procs:
        try:
            out, _ = p.communicate(timeout=timeout)
        except subprocess.TimeoutExpired:
            p.kill()
            raise RuntimeError("coqc timed out on " + path)
        out = out.decode(errors="replace")
        if p.returncode != 0:
            raise RuntimeError(f"coqc failed on {path}:\n{out[-3000:]}")
        # each answer: "     = [1; 49]\n     : list N"
        answers = re.findall(r"=\s*(\[.*?\])(?:%N)?\s*:\s*list N", out, flags=re.S)
        if len(answers) != cnt:
            raise RuntimeError(f"kernel evaluation: {len(answers)} answers for {cnt} cases in {path}")
        for a in answers:
            nums = re.findall(r"\d+", a)
            results.append(" ".join(nums))
        for ext in ("", "o"):
            try:
                os.unlink(path + ext)
            except OSError:
                pass
    return results


# ------------------------------------------------------------------ known findings
def load_known_findings():
    """KNOWN_FINDINGS.txt lines:  known: property=<id> case=<case line> :: <what fails>
                                 fixed: property=<id> <commit> <what failed>"""
    path = os.path.join(VERIF, "KNOWN_FINDINGS.txt")
    known = []
    fixed = []
    if os.path.exists(path):
        for line in open(path):
            line = line.strip()
            if not line or line.startswith("#"):
                continue
            m = re.match(r"known:\s+property=(\S+)\s+case=(.*?)\s+::\s+(.*)$", line)
            if m:
                known.append({"property": m.group(1), "case": m.group(2).strip(), "what": m.group(3)})
                continue
            m = re.match(r"fixed:\s+property=(\S+)\s+(\S+)\s+(.*)$", line)
            if m:
                fixed.append({"property": m.group(1), "commit": m.group(2), "what": m.group(3)})
    return known, fixed


# ------------------------------------------------------------------ reporting
class Report:
    def __init__(self, prop_id, tier, seed):
        self.prop_id = prop_id
        self.tier = tier
        self.seed = seed
        self.t0 = time.time()
        self.violations = []  # (kind, replay dict)
        self.notes = []
        self.coverage = {}
        self.assumptions = []

    def log(self, msg):
        print(f"[{self.prop_id}] {msg}", flush=True)

    def add_violation(self, kind, replay):
        self.violations.append((kind, replay))

    def write_evidence(self, level="proof"):
        os.makedirs(EVIDENCE, exist_ok=True)
        ev = {
            "property_id": self.prop_id,
            "tier": self.tier,
            "seed": self.seed,
            "level": level,
            "coverage": self.coverage,
            "assumptions": self.assumptions,
            "wall_s": round(time.time() - self.t0, 2),
            "violations": len(self.violations),
        }
        with open(os.path.join(EVIDENCE, f"{self.prop_id}.json"), "w") as f:
            json.dump(ev, f, indent=1, sort_keys=True)
            f.write("\n")

    def finish(self, level="proof"):
        self.write_evidence(level)
        if not self.violations:
            self.log(f"OK ({self.tier}, {time.time() - self.t0:.1f}s)")
            return 0
        os.makedirs(REPLAYS, exist_ok=True)
        for i, (kind, replay) in enumerate(self.violations):
            path = os.path.join(REPLAYS, f"{self.prop_id}-{self.seed}-{i}.json")
            replay = dict(replay)
            replay.setdefault("property", self.prop_id)
            replay["kind"] = kind
            replay["replay_cmd"] = f"bin/vreplay {path}"
            with open(path, "w") as f:
                json.dump(replay, f, indent=1)
                f.write("\n")
            tail = "" if kind == "counterexample" else " no-failing-input-found"
            print(f"VIOLATION property={self.prop_id} replay={path}{tail}", flush=True)
        return 1


# ---------------------------------------------------------------------------------------------------
# Table 2 / P1 table of the CURRENT /repo, parsed by the translator's tokenising parser (format-insensitive:
# hex, digit-group underscores, constant expressions, comments) -- never by ad-hoc regular expressions.
_T2 = None


def repo_table2():
    """-> (rows [(K', J, S, H, W)], p1 {K': P1}) as written in /repo/src/systematic_constants.rs now"""
    global _T2
    if _T2 is None:
        sys.path.insert(0, os.path.join(VERIF, "translator"))
        import rs2v
        rs2v.collect_named_consts(REPO)
        src = rs2v.read(REPO, "src/systematic_constants.rs")
        rows = rs2v.tuple_rows(rs2v.find_array(src, "SYSTEMATIC_INDICES_AND_PARAMETERS"), 5)
        p1 = dict(rs2v.tuple_rows(rs2v.find_array(src, "P1_TABLE"), 2))
        _T2 = (rows, p1)
    return _T2
