"""Symbolic (all-inputs) part of the correspondence check, for the small integer functions.

For each harness of kani/src/proofs.rs Kani/CBMC decides, for EVERY input of the stated domain, whether the
real function of /repo equals the reference formula of kani/src/refs.rs (a transcription of coq/Spec).  The
reference formulas themselves are compared with the extracted Coq Spec on boundary + random inputs (they are
fixed artefacts of /verif, so sampling is adequate there: no change to /repo can affect them).

This is VALIDATION of the model/Spec against the code (bounded model checking is not a proof and is never
counted as one): a failed harness is a broken correspondence; its concrete playback is turned into ordinary
cases of the property, which the property's evaluate() then judges against the Spec oracle.  A harness that
times out is recorded as inconclusive and never raises an alarm.
"""
import os
import re
import subprocess
import time
from concurrent.futures import ThreadPoolExecutor

import common as C

KDIR = os.path.join(C.VERIF, "kani")
ENV = dict(os.environ, CARGO_NET_OFFLINE="true")

# harness -> (widths in bytes of the kani::any() draws in order, function mapping the drawn values to cases)
HARNESSES = {
    "C13": {
        "c13_pid_wire": ([1, 4], lambda v: [C.Case("pid_new", [v[0], v[1]], tag="kani"), C.Case("pid_ser", [v[0], v[1]], tag="kani")]),
        "c13_pid_reserialize": ([1] * 4, lambda v: [C.Case("pid_deser", v, tag="kani")]),
        "c13_pid_refuses": ([1, 4], lambda v: [C.Case("pid_new", [v[0], v[1]], tag="kani")]),
        "c13_oti_wire": ([1] * 12, lambda v: [C.Case("oti_deser", v, tag="kani")]),
    },
    "C15": {
        "c15_deg_is_rfc": ([4, 4], lambda v: [C.Case("deg", [v[0], v[1]], tag="kani")]),
        "c15_rand_is_rfc_raw": ([4, 4], lambda v: [C.Case("rand", [v[0], v[1], 4294967295], tag="kani")]),
        "c15_rand_is_rfc_v": ([4, 4], lambda v: [C.Case("rand", [v[0], v[1], 1048576], tag="kani")]),
    },
}
# harnesses whose solve time is dominated by 64-bit dividers: given a short leash, inconclusive when exceeded
SLOW = {}
# harnesses whose code under test panics on purpose: only the sentinel assertion counts as a failure
SENTINEL = {"c13_pid_refuses": "SENTINEL accepted"}
TIMEOUT = 600


def parse_playback(out, widths, sentinel=None):
    """values drawn by kani::any() in order, from the printed concrete-playback unit test (the one generated for
    the sentinel assertion, when the harness has one)"""
    if sentinel:
        i = out.find("Check for `assertion`: \"" + sentinel)
        if i < 0:
            return None
        out = out[i:]
    m = re.search(r"let concrete_vals: Vec<Vec<u8>> = vec!\[(.*?)\];", out, flags=re.S)
    if not m:
        return None
    body = re.sub(r"//[^\n]*", "", m.group(1))
    bs = []
    for v in re.findall(r"vec!\[([^\]]*)\]", body):
        bs += [int(x) for x in re.split(r"[\s,]+", v.strip()) if x]
    vals, p = [], 0
    for w in widths:
        if p + w > len(bs):
            return None
        vals.append(int.from_bytes(bytes(bs[p : p + w]), "little"))
        p += w
    return vals


def run_harness(h):
    t0 = time.time()
    cmd = ["cargo", "kani", "--harness", h, "--output-format", "terse", "-Z", "concrete-playback", "--concrete-playback=print"]
    try:
        p = subprocess.run(cmd, cwd=KDIR, env=ENV, stdout=subprocess.PIPE, stderr=subprocess.STDOUT, timeout=SLOW.get(h, TIMEOUT))
        out = p.stdout.decode(errors="replace")
    except subprocess.TimeoutExpired:
        return h, "inconclusive", "timeout", round(time.time() - t0, 1)
    if "VERIFICATION:- SUCCESSFUL" in out and "VERIFICATION:- FAILED" not in out:
        return h, "verified", "", round(time.time() - t0, 1)
    if h in SENTINEL and "VERIFICATION:- FAILED" in out:
        failed = "\n".join(re.findall(r"Failed Checks: ([^\n]*)", out))
        if SENTINEL[h] not in failed:
            return h, "verified", "", round(time.time() - t0, 1)  # only the constructor's own (expected) panics
    if "VERIFICATION:- FAILED" in out:
        fails = re.findall(r"Failed Checks: ([^\n]*)", out)
        tool_limits = ("not currently supported", "unsupported", "unwinding assertion", "is not supported")
        if fails and all(any(w in f for w in tool_limits) for f in fails):
            # Kani could not model a construct / unwind a loop in the current source: nothing is known
            return h, "inconclusive", "tool limit: " + "; ".join(fails)[:300], round(time.time() - t0, 1)
        return h, "failed", out, round(time.time() - t0, 1)
    return h, "error", out[-3000:], round(time.time() - t0, 1)


def ref_cases(prop_id, rng):
    cs = []
    B = [0, 1, 2, 3, 255, 256, 257, 65535, 65536, 2**20 - 1, 2**20, 2**24 - 1, 2**24, 2**32 - 2, 2**32 - 1]
    if prop_id == "C13":
        for _ in range(300):
            cs.append(C.Case("spec_pid_wire", [rng.below(256), rng.below(2**24)]))
            cs.append(C.Case("spec_oti_wire", [rng.below(2**40), rng.below(2**16), rng.below(256), rng.below(2**16), rng.below(256)]))
            cs.append(C.Case("spec_be", [rng.below(6), rng.below(2**40)]))
        for e in (0, 255, 256, 65535, 65536, 2**24 - 1):
            cs.append(C.Case("spec_pid_wire", [255, e]))
    if prop_id == "C19":
        for _ in range(600):
            z, t, al = 1 + rng.below(255), 1 + rng.below(65535), 1 + rng.below(255)
            f = rng.choice([56403 * z * t + rng.below(5) - 2, 942574504275 + rng.below(5) - 2, rng.below(2**40), rng.below(2**64)])
            cs.append(C.Case("spec_oti_valid", [max(0, f), t, z, 1, rng.choice([al, 1, t, max(1, t // 2)]) % 256 or 1]))
    if prop_id == "C15":
        for y in B:
            for i in range(6):
                cs.append(C.Case("spec_rand", [y % 2**32, i, rng.choice([1, 2, 17, 2**20, 2**32 - 1])]))
        for _ in range(400):
            cs.append(C.Case("spec_rand", [rng.below(2**32), rng.below(256), 1 + rng.below(2**32 - 1)]))
            cs.append(C.Case("spec_deg", [rng.below(2**20), 2 + rng.below(70000)]))
            cs.append(C.Case("spec_tuple", [rng.below(2**32), 3 + rng.below(60000), rng.below(1000), 2 + rng.below(60000)]))
        for v in (0, 5242, 5243, 5244, 529530, 529531, 1017661, 1017662, 1048575):
            for w in (2, 3, 17, 31, 32, 33, 1000):
                cs.append(C.Case("spec_deg", [v, w]))
    return cs


def run(prop_id, rng, rep):
    """-> (extra_cases, broken, stats)"""
    hs = HARNESSES.get(prop_id)
    if not hs:
        return [], [], {}
    broken, extra = [], []
    stats = {"engine": "Kani 0.68 / CBMC 6.11 (bounded model checking used as symbolic correspondence; not a proof)", "harnesses": {}}
    lock = os.path.join(C.REPO, "Cargo.lock")
    if os.path.exists(lock) and not os.path.exists(os.path.join(KDIR, "Cargo.lock")):
        import shutil
        shutil.copy(lock, os.path.join(KDIR, "Cargo.lock"))
    # (1) the reference formulas are the Coq Spec's
    p = subprocess.run(["cargo", "build", "--release", "--bin", "kref"], cwd=KDIR, env=ENV, stdout=subprocess.PIPE, stderr=subprocess.STDOUT, timeout=1200)
    if p.returncode != 0:
        broken.append(("kani-ref-build", p.stdout.decode(errors="replace")[-2000:]))
        return extra, broken, stats
    rc = ref_cases(prop_id, rng)
    inp = "".join(c.fn + " " + " ".join(str(a) for a in c.args) + "\n" for c in rc).encode()
    q = subprocess.run([os.path.join(KDIR, "target", "release", "kref")], input=inp, stdout=subprocess.PIPE, stderr=subprocess.PIPE, timeout=600)
    got = q.stdout.decode().split("\n")
    want = C.run_model(rc)
    bad = [(c, g, w) for c, g, w in zip(rc, got, want) if g.split() != w.split()]
    stats["reference_vs_spec_cases"] = len(rc)
    if bad or q.returncode != 0 or len(got) < len(rc):
        c, g, w = bad[0] if bad else (None, q.stderr.decode()[-300:], "")
        broken.append(("kani-reference-vs-Spec", f"kani/src/refs.rs disagrees with the Coq Spec on {c}: {g} vs {w}"))
        return extra, broken, stats
    # (2) the real functions equal the reference formulas for all inputs
    b = subprocess.run(["cargo", "kani", "--only-codegen"], cwd=KDIR, env=ENV, stdout=subprocess.PIPE, stderr=subprocess.STDOUT, timeout=1200)
    if b.returncode != 0:
        stats["note"] = "cargo kani --only-codegen failed; symbolic correspondence skipped (inconclusive)"
        rep.log("kani: codegen failed, symbolic correspondence inconclusive:\n" + b.stdout.decode(errors="replace")[-800:])
        return extra, broken, stats
    with ThreadPoolExecutor(max_workers=4) as ex:
        results = list(ex.map(run_harness, list(hs)))
    for h, status, out, secs in results:
        stats["harnesses"][h] = {"status": status, "seconds": secs}
        if status == "failed":
            vals = parse_playback(out, hs[h][0], SENTINEL.get(h))
            fails = re.findall(r"Failed Checks: ([^\n]*)", out)[:3]
            if vals is not None:
                extra += hs[h][1](vals)
                stats["harnesses"][h]["playback"] = vals
            broken.append(("symbolic-correspondence:" + h, f"Kani: the real function differs from the Spec formula for some input; failed checks: {fails}; playback values {vals}"))
        elif status == "error":
            stats["harnesses"][h]["detail"] = out[-400:]
            rep.log(f"kani: harness {h} could not be run (inconclusive): {out[-300:]}")
        elif status == "inconclusive":
            rep.log(f"kani: harness {h} timed out (inconclusive, not counted)")
    rep.log("kani: " + ", ".join(f"{h}={v['status']}({v['seconds']}s)" for h, v in stats["harnesses"].items()))
    return extra, broken, stats
