"""Function numbering shared by the case files and coq/Model/Run.v (keep in sync with Run.v)."""
FN = {
    # ---- octet (C10): model 1..49, spec oracles 50..99
    "oct_add": 1,
    "oct_mul": 2,
    "oct_div": 3,
    "oct_fma": 4,
    "oct_alpha": 5,
    "oct_tbl_mul": 6,
    "oct_tbl_low": 7,
    "oct_tbl_hi": 8,
    "spec_oct_add": 50,
    "spec_oct_mul": 51,
    "spec_oct_alpha": 52,
}
