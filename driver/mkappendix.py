#!/usr/bin/env python3
"""Regenerates Appendix E of DESIGN.md (seeded changes and which check catches them) from seeded/*/."""
import json, os, re
V = os.path.dirname(os.path.dirname(os.path.abspath(__file__)))
rows = []
for n in sorted(os.listdir(os.path.join(V, "seeded"))):
    d = os.path.join(V, "seeded", n)
    try:
        meta = json.load(open(os.path.join(d, "meta.json")))
    except OSError:
        continue
    res = "not run"
    lr = os.path.join(d, "last_result.txt")
    if os.path.exists(lr):
        res = open(lr).readline().strip()
    summ = re.sub(r"\s+", " ", str(meta.get("summary", "")))[:170]
    needs = re.sub(r"\s+", " ", str(meta.get("needs", "")))[:150]
    extra = meta.get("strengthened", "")
    rows.append(f"| {n} | {summ} | {needs} | {res}{(' — ' + extra) if extra else ''} |")
text = ["## Appendix E. Seeded changes and what catches them", "",
        "Each row is a change to cberner/raptorq written by a sub-agent that saw only the property text and a scratch",
        "worktree; it compiles, the crate's 60 tests still pass with it, and its own demonstration fails with it and passes",
        "without it (confirmed by `bin/confirm_mutants`).  `bin/run_seeded` applies the patch to /repo, runs the property's quick",
        "check and undoes the patch.  `DETECTED with-input`: the check exited 1 with a replay that is a concrete failing input;",
        "`no-input`: exited 1 naming the broken obligation only.  Where a change was first missed, the strengthening that now",
        "catches it is noted.", "",
        "| seeded change | what it does | what it needs to manifest | result of the property's quick check |", "|---|---|---|---|"] + rows + [""]
p = os.path.join(V, "DESIGN.md")
s = open(p).read()
# table of the behaviour-preserving refactorings (section 0.7)
hrows = []
hd = os.path.join(V, "seeded_harmless")
for n in sorted(os.listdir(hd)) if os.path.isdir(hd) else []:
    try:
        meta = json.load(open(os.path.join(hd, n, "meta.json")))
        patch = open(os.path.join(hd, n, "patch.diff")).read()
    except OSError:
        continue
    files = ", ".join(sorted(set(f.replace("src/", "") for f in re.findall(r"^\+\+\+ b/(\S+)", patch, flags=re.M))))
    try:
        res = json.load(open(os.path.join(hd, n, "last_result.json")))
    except (OSError, ValueError):
        res = {}
    quiet = all(v == "quiet" for v in res.values())
    summ = re.sub(r"\s+", " ", str(meta.get("summary", "")))[:200]
    hrows.append(f"| {n}: {summ} | {files} | {' '.join(sorted(res)) or 'not run'} | {'all quiet' if res and quiet else ('; '.join(k + ': ' + v for k, v in res.items() if v != 'quiet') or 'not run')} |")
a, b = s.find("<!-- HARMLESS-BEGIN -->"), s.find("<!-- HARMLESS-END -->")
if a >= 0 and b > a:
    s = s[:a] + "<!-- HARMLESS-BEGIN -->\n" + "\n".join(hrows) + "\n" + s[b:]
i = s.find("## Appendix E.")
if i >= 0:
    s = s[:i]
s = s.rstrip("\n") + "\n\n" + "\n".join(text)
open(p, "w").write(s)
print(len(rows), "rows")
