"""Generators for end-to-end codec cases (shared by C01, C02, C04, C06, C08, C18)."""
import common as C


def rand_data(rng, n):
    return list(rng.bytes(n))


def block_esis(rng, k, extra, repair_frac, esi_hi=(1 << 24) - 1):
    """a set of k+extra distinct ESIs of a K-symbol block: a source/repair mix"""
    n = max(0, k + extra)
    nsrc = min(k, int(round(n * (1 - repair_frac))))
    src = rng.shuffle(list(range(k)))[:nsrc]
    rep = set()
    while len(rep) < n - nsrc:
        r = rng.below(6)
        if r == 0:
            e = k + rng.below(16)
        elif r == 1:
            e = esi_hi - rng.below(1000)
        else:
            e = rng.range(k, esi_hi)
        rep.add(e)
    return src + sorted(rep)


def sbd_case(rng, k, t, nsub, al, thr, batches, data):
    a = [k, t, nsub, al, thr, len(batches)]
    for b in batches:
        a.append(len(b))
        a.extend(b)
    return C.Case("sbd_hist", a + data)


def split_batches(rng, esis, one_by_one=False):
    if one_by_one:
        return [[e] for e in esis]
    out = []
    i = 0
    while i < len(esis):
        n = rng.range(1, max(1, min(6, len(esis) - i)))
        out.append(esis[i : i + n])
        i += n
    return out


def small_k(rng, kmax=40):
    r = rng.below(10)
    if r < 3:
        return rng.range(1, 12)
    if r < 5:
        return rng.choice([9, 10, 11, 12, 13, 17, 18, 19, 20, 21, 25, 26, 27, 29, 30, 31, 32, 33])
    return rng.range(1, kmax)
