"""Generators for end-to-end codec cases (shared by C01, C02, C04, C06, C08, C18)."""
import common as C


def rand_data(rng, n):
    return list(rng.bytes(n))


def structured_data(rng, f, t, z):
    """object contents with repetition: all zero, one constant byte, or periodic with the length of a block
    (adjacent source blocks then have identical bytes) -- caching or de-duplication keyed on content shows here"""
    kind = rng.below(4)
    if kind == 0:
        return [0] * f
    if kind == 1:
        return [rng.below(256)] * f
    kt = -(-f // t)
    period = max(1, (kt // max(1, z)) * t) if kind == 2 else max(1, t)
    base = list(rng.bytes(period))
    return [base[i % period] for i in range(f)]


def block_esis(rng, k, extra, repair_frac, esi_hi=(1 << 24) - 1):
    """a set of k+extra distinct ESIs of a K-symbol block: a source/repair mix"""
    n = max(0, k + extra)
    nsrc = min(k, int(round(n * (1 - repair_frac))))
    src = rng.shuffle(list(range(k)))[:nsrc]
    rep = set()
    while len(rep) < n - nsrc:
        r = rng.below(7)
        if r == 0:
            e = k + rng.below(16)
        elif r == 1:
            e = esi_hi - rng.below(1000)
        elif r == 2:
            # agrees with a small ESI (a source symbol or an early repair symbol) in its low 8 / 16 bits
            e = rng.choice([256, 65536]) * rng.range(1, 255) + rng.below(k + 20)
            if e < k or e > esi_hi:
                continue
        else:
            e = rng.range(k, esi_hi)
        rep.add(e)
    return src + sorted(rep)


def sbd_case(rng, k, t, nsub, al, thr, batches, data):
    a = [k, t, nsub, al, thr, len(batches)]
    for b in batches:
        a.append(len(b))
        a.extend(b)
    return C.Case("sbd_hist", a + data)


def split_batches(rng, esis, one_by_one=False):
    if one_by_one:
        return [[e] for e in esis]
    out = []
    i = 0
    while i < len(esis):
        n = rng.range(1, max(1, min(6, len(esis) - i)))
        out.append(esis[i : i + n])
        i += n
    return out


def small_k(rng, kmax=40):
    r = rng.below(10)
    if r < 3:
        return rng.range(1, 12)
    if r < 5:
        return rng.choice([9, 10, 11, 12, 13, 17, 18, 19, 20, 21, 25, 26, 27, 29, 30, 31, 32, 33])
    return rng.range(1, kmax)


def obj_config(rng, maxf=1200):
    """a valid (F,T,Z,N,Al) with small blocks: Z > 1, N > 1 and F not a multiple of T are all frequent"""
    al = rng.choice([1, 1, 2, 4])
    t = al * rng.range(1, max(1, 16 // al))
    kt = rng.range(1, max(1, min(60, maxf // t)))
    z = max(1, min(rng.choice([1, 1, 2, 3, rng.range(1, 4)]), kt))
    nsub = rng.choice([1, 1, 2, rng.range(1, max(1, t // al))])
    f = max(1, kt * t - rng.choice([0, 0, 1, rng.below(t)]))
    if -(-f // t) < z:
        z = -(-f // t)
    return f, t, z, nsub, al


def block_sizes(f, t, z):
    kt = -(-f // t)
    kl, ks = -(-kt // z), kt // z
    zl = kt - ks * z
    return [kl] * zl + [ks] * (z - zl)


def object_history(rng, f, t, z, extra_choices=(0, 1, 2), drop_frac=None, dup=True, post=True):
    """steps (kind, sbn, esi): per block a decodable-looking set, blocks interleaved, duplicates, continuation"""
    ks = block_sizes(f, t, z)
    per = []
    for sbn, k in enumerate(ks):
        frac = rng.choice([0.0, 0.2, 0.5, 1.0]) if drop_frac is None else drop_frac
        esis = block_esis(rng, k, rng.choice(list(extra_choices)), frac)
        per.append([(sbn, e) for e in rng.shuffle(esis)])
    steps = []
    while any(per):
        i = rng.choice([j for j, q in enumerate(per) if q])
        steps.append(per[i].pop(0))
        if dup and steps and rng.below(6) == 0:
            steps.append(rng.choice(steps))
    if post:
        for _ in range(rng.below(4)):
            sbn = rng.below(len(ks))
            steps.append((sbn, rng.choice([rng.below(ks[sbn]), ks[sbn] + rng.below(50)])))
    return steps


def codec_case(rng, cfg, thr, steps, kinds, data):
    f, t, z, nsub, al = cfg
    a = [f, t, z, nsub, al, thr, len(steps)]
    for (sbn, esi), kd in zip(steps, kinds):
        a += [kd, sbn, esi]
    return C.Case("codec_hist", a + data)


_DEG = {}


def degrees(k, upto=700):
    """LT degree d of the tuple of every ESI < upto of a block with K = K' = k (k a Table-2 size), from the model"""
    if k in _DEG:
        return _DEG[k]
    rows, p1t = C.repo_table2()
    row = next(r for r in rows if r[0] == k)
    p1 = p1t[k]
    kp, j, s_, h, w = row
    res = C.run_model([C.Case("tuple", [x, w, j, p1]) for x in range(upto)])
    _DEG[k] = [int(r.split()[1]) for r in res]
    return _DEG[k]


def heavy_esis(rng, k, dmin, extra):
    """a received set of k + extra distinct ESIs whose LT degree is at least dmin (k must be a Table-2 size)"""
    d = degrees(k)
    pool = [x for x, dx in enumerate(d) if dx >= dmin]
    if len(pool) < k + extra:
        return None
    return rng.shuffle(pool)[: k + extra]
