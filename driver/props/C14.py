"""C14 -- derived transmission parameters.  generate_encoding_parameters (through the hook) and with_defaults
against the model in both profiles, and against the Spec derivation of RFC 6330 4.3 on its domain; monotonicity
in the memory budget and acceptance of the derived configuration are checked on the implementation's own answers."""
import re

import common as C
from props import generic as G

MAKE_TARGETS = ["Props/C14.vo"]
PROFILES = ("release", "dev")
RULE = ("F in boundary values and random up to 56403*255*T; packet sizes 1..65535 from a boundary set (1,7,8,63,64,65,"
        "1024,1316,65528,65535,...) and random; memory budgets log-uniform over u64 plus the points Al*x*K' +- 1 where "
        "KL changes, 2^32*Al*x +- k and the 2^40 / 700 / 2000 witnesses of the repaired defects; non-trivial = the "
        "configuration lies in the Spec domain D (a valid configuration exists); monotonicity pairs share (F, mtu)")
TRUSTED = [
    "Coq 8.16.1 kernel + vm_compute",
    "translator/rs2v.py (Table 2, default memory budget)",
    "Spec/Derive.v: RFC 6330 4.3 with the crate's choice of Al and SS taken as given",
    "extraction (ExtrOcamlBasic only) + ocamlopt; sample cross-checked in the kernel",
    "harness rqh: generate_encoding_parameters via verif_hooks, with_defaults via the public API",
]
ASSUMPTIONS = ["Al = SS = 8 for packet sizes >= 64, else 1, is the crate's free choice and is not judged"]

KPRIMES = None


def kprimes():
    global KPRIMES
    if KPRIMES is None:
        KPRIMES = [r[0] for r in C.repo_table2()[0]]
    return KPRIMES


def gen_cases(rng, n):
    cs = []
    mtus = [1, 2, 7, 8, 9, 63, 64, 65, 71, 72, 100, 512, 1024, 1280, 1316, 1400, 1500, 4096, 9000, 65527, 65528, 65529, 65535]
    for _ in range(n):
        mtu = rng.choice(mtus + [rng.range(1, 65535)])
        al = 8 if mtu >= 64 else 1
        t = mtu - mtu % al
        nmax = max(1, t // (al * al))
        kind = rng.below(8)
        nn = rng.choice([1, 2, nmax, max(1, nmax - 1), rng.range(1, nmax)])
        x = -(-t // (al * nn))
        kp = rng.choice(kprimes())
        if kind == 0:
            ws = al * x * kp + rng.range(-2, 2) * rng.choice([1, al * x])
        elif kind == 1:
            ws = (1 << 32) * al * x + rng.range(-3, 3)
        elif kind == 2:
            ws = 1 << rng.range(0, 63)
        elif kind == 3:
            ws = rng.choice([10 * 1024 * 1024, 700, 2000, 1 << 40, (1 << 64) - 1, 1, 0, al * x * 10 - 1, al * x * 10])
        else:
            ws = int(2 ** (rng.below(6400) / 100.0))
        ws = max(0, min(ws, (1 << 64) - 1))
        fk = rng.below(6)
        if fk == 0:
            f = rng.range(1, 100000)
        elif fk == 1:
            f = 56403 * 255 * t + rng.range(-2, 2)
        elif fk == 2:
            f = kp * t * rng.range(1, 255) + rng.range(-1, 1)
        elif fk == 3:
            f = rng.choice([1, t, t + 1, max(1, t - 1), 30000])
        else:
            f = rng.range(1, max(1, 56403 * 255 * t))
        f = max(0, f)
        cs.append(C.Case("gen_params", [f, mtu, ws]))
        if rng.below(4) == 0:
            cs.append(C.Case("gen_params", [f, mtu, min((1 << 64) - 1, ws * rng.choice([2, 3, 1000]) + rng.below(100))], tag="mono"))
        if rng.below(6) == 0:
            cs.append(C.Case("with_defaults", [f, mtu]))
    return cs


def cases(rng, tier):
    cs = [C.Case("gen_params", a) for a in ([30000, 1024, 1 << 40], [30000, 1024, 700], [30000, 1024, 2000], [1000000000, 1024, 10485760],
                                             [30000, 1024, 70], [30000, 0, 10485760], [0, 1024, 10485760], [56403 * 255 * 65528, 65535, (1 << 64) - 1],
                                             [56403 * 255 * 65528 + 1, 65535, (1 << 64) - 1], [1, 1, 10], [1, 63, 630])]
    cs += gen_cases(rng, 3000 if tier == "quick" else 40000)
    return cs


def evaluate(cases, rep, tier):
    impl, model, dis = G.diff_impl_model(cases, PROFILES, "gen_params")
    both = G.all_profiles_impl(cases, PROFILES)
    counter = []
    gp = [(idx, c) for idx, c in enumerate(cases) if c.fn == "gen_params"]
    spec = C.run_model([C.Case("spec_derive", c.args) for _, c in gp])
    indom = 0
    answers = {}
    for (idx, c), sp in zip(gp, spec):
        t = sp.split()
        in_d = t[1] == "1"
        if not in_d:
            continue
        indom += 1
        want = "1 " + " ".join(t[2:])
        for prof in PROFILES:
            i = both[prof][idx]
            if i != want:
                counter.append({"input": c.impl_line(), "expected": want, "observed": i, "profile": prof, "oracle": "Spec.Derive (RFC 4.3)"})
                break
        answers[tuple(c.args)] = [int(x) for x in t[2:]]
    # monotonicity in the budget and acceptance by the constructor, on the implementation's own answers
    byfm = {}
    accept = []
    for (idx, c) in gp:
        i = impl[idx].split()
        if i[0] == "1":
            byfm.setdefault((c.args[0], c.args[1]), []).append((c.args[2], int(i[3])))
            if tuple(c.args) in answers:
                accept.append(C.Case("oti_new", [int(v) for v in i[1:]]))
    for (f, mtu), lst in byfm.items():
        lst.sort()
        for (w1, z1), (w2, z2) in zip(lst, lst[1:]):
            if tuple([f, mtu, w1]) in answers and tuple([f, mtu, w2]) in answers and z2 > z1:
                counter.append({"input": f"gen_params {f} {mtu} {w1} / gen_params {f} {mtu} {w2}", "expected": "a larger budget never yields more source blocks", "observed": f"Z = {z1} then {z2}", "oracle": "monotonicity"})
    # "encoder and decoder built from the derived parameters round-trip the object": EncoderBuilder end to end
    rb = C.Rng(C.get_seed()).fork("C14rt")
    rt = []
    for _ in range(40 if tier == "quick" else 400):
        mtu = rb.choice([8, 16, 63, 64, 72, 100, 128])
        f = rb.range(1, 3000)
        al = 8 if mtu >= 64 else 1
        t = mtu - mtu % al
        x = -(-t // (al * rb.range(1, max(1, t // (al * al)))))
        ws = al * x * rb.choice([10, 12, 18, 26, 101, 1002]) + rb.range(0, 3)
        rt.append(C.Case("builder_roundtrip", [ws, mtu, rb.choice([0, 2, 3, 5])] + list(rb.bytes(f))))
    rres = {p: C.run_impl(rt, p) for p in PROFILES}
    rspec = C.run_model([C.Case("spec_derive", [len(c.args) - 3, c.args[1], c.args[0]]) for c in rt])
    for c, sp, r0, r1 in zip(rt, rspec, rres["release"], rres["dev"]):
        t = sp.split()
        if t[1] != "1":
            continue
        want = "1 " + " ".join(t[2:]) + " 1"
        for prof, r in (("release", r0), ("dev", r1)):
            if r != want:
                counter.append({"input": " ".join(c.impl_line().split()[:4]) + " <%d data bytes>" % (len(c.args) - 3), "expected": "derived configuration " + " ".join(t[2:]) + " and a successful round trip", "observed": r[:80], "profile": prof, "oracle": "EncoderBuilder -> Decoder round trip on the derived parameters"})
                break
    if accept:
        acc = C.run_impl(accept, "release")
        for c, r in zip(accept, acc):
            if not r.startswith("1"):
                counter.append({"input": c.impl_line(), "expected": "derived configuration accepted by the constructor", "observed": r, "oracle": "result valid"})
    kinds = {"builder_roundtrips": len(rt), "gen_params": len(gp), "with_defaults": len(cases) - len(gp), "in_spec_domain": indom,
             "impl_panics": sum(1 for i in impl if i.startswith("0"))}
    return {"disagreements": dis, "counterexamples": counter,
            "stats": {"evaluations": len(cases) * 4 + len(gp) + len(accept), "distinct_nontrivial": len(set(answers)),
                      "samples": [cases[3].impl_line() + " -> " + impl[3], cases[1].impl_line() + " -> " + impl[1]],
                      "input_distribution": kinds}}


def search(rng, rep, tier, disagreements):
    return evaluate(gen_cases(rng, 100000), rep, "thorough")["counterexamples"]
