"""C19 -- the configuration constructor enforces the limits.  accept/reject of the real constructor
against the Spec predicate oti_valid on limit-adjacent inputs, in both build profiles."""
import common as C
from props import generic as G

MAKE_TARGETS = ["Props/C19.vo"]
PROFILES = ("release", "dev")
RULE = ("(F,T,Z,N,Al) with F in {k*2^32 + d, 56403*Z*T + d, 942574504275 + d, powers of two +- d}, T in 1..65535 "
        "(small T so that F/T exceeds 2^32), Z in 1..255, Al dividing and not dividing T, plus degenerate T=0/Z=0/Al=0; "
        "non-trivial = F/T/Z put ceil(ceil(F/T)/Z) within 2 of 56403 or F within 2 of a limit or ceil(F/T) >= 2^32")
TRUSTED = [
    "Coq 8.16.1 kernel + vm_compute",
    "Spec/Oti.v: oti_valid (RFC 6330 4.4.1.2 + erratum 5548 limits as the constructor documents them)",
    "extraction (ExtrOcamlBasic only) + ocamlopt; sample cross-checked in the kernel",
    "harness rqh (ObjectTransmissionInformation::new and accessors)",
]
ASSUMPTIONS = []


def cdiv(a, b):
    return -(-a // b)


def gen_cases(rng, n):
    cs = []
    Ts = [1, 2, 3, 7, 8, 64, 255, 256, 1024, 1316, 65535, 65534, 4096]
    for _ in range(n):
        t = rng.choice(Ts + [rng.range(1, 65535)])
        z = rng.choice([1, 2, 3, 255, 254, rng.range(1, 255)])
        al = rng.choice([1, 1, 2, 4, 8, rng.range(1, 255)])
        if rng.below(4) != 0 and t % al != 0:
            t = max(al, t - t % al) if t >= al else al
            t = min(t, 65535 - (65535 % al))
        kind = rng.below(6)
        d = rng.range(-2, 2)
        if kind == 0:
            f = 56403 * z * t + d * rng.choice([1, t, z * t])
        elif kind == 1:
            f = 942574504275 + d
        elif kind == 2:
            f = rng.range(1, 255) * (1 << 32) * rng.choice([1, t]) + d + rng.choice([0, 5, 56403 * z * t])
        elif kind == 3:
            f = (1 << rng.range(0, 63)) + d
        elif kind == 4:
            f = rng.below(1 << 40)
        else:
            f = rng.below(56403 * z * t + 1)
        f = max(0, min(f, (1 << 64) - 1))
        nsub = rng.choice([1, 2, 65535, rng.below(65536)])
        cs.append(C.Case("oti_new", [f, t, z, nsub, al]))
    return cs


def cases(rng, tier):
    cs = [C.Case("oti_new", a) for a in (
        [4294967301, 1, 1, 1, 1], [942574504275, 65535, 255, 1, 1], [942574504276, 65535, 255, 1, 1],
        [56403, 1, 1, 1, 1], [56404, 1, 1, 1, 1], [0, 1, 1, 1, 1], [1, 0, 1, 1, 1], [1, 1, 0, 1, 1], [1, 1, 1, 1, 0],
        [1, 0, 1, 1, 0], [(1 << 32) * 3 + 56403, 1, 1, 1, 1], [(1 << 32) + 56403 * 2, 1, 2, 1, 1],
        [56403 * 255 * 65535, 65535, 255, 7, 3], [10, 8, 1, 1, 3])]
    cs += gen_cases(rng, 4000 if tier == "quick" else 60000)
    return cs


def nontrivial(c):
    f, t, z, _, al = c.args
    if t == 0 or z == 0 or al == 0:
        return True
    k = cdiv(cdiv(f, t), z)
    return abs(k - 56403) <= 2 or abs(f - 942574504275) <= 2 or cdiv(f, t) >= (1 << 32)


def evaluate(cases, rep, tier):
    impl, model, dis = G.diff_impl_model(cases, PROFILES, "oti_new")
    counter = []
    both = G.all_profiles_impl(cases, PROFILES)
    spec = C.run_model([C.Case("spec_oti_valid", c.args) for c in cases])
    for idx, (c, sp) in enumerate(zip(cases, spec)):
        f, t, z, nsub, al = c.args
        if t == 0 or z == 0 or al == 0:
            continue  # outside the property's domain (positive T, Z, Al); covered by the correspondence only
        valid = sp.split()[1] == "1"
        for prof in PROFILES:
            i = both[prof][idx]
            accepted = i.startswith("1")
            if accepted != valid:
                counter.append({"input": c.impl_line(), "expected": "accept" if valid else "refuse", "observed": i, "profile": prof, "oracle": "Spec.oti_valid"})
                break
            if accepted and [int(x) for x in i.split()[1:]] != c.args:
                counter.append({"input": c.impl_line(), "expected": "accessors report the given values", "observed": i, "profile": prof, "oracle": "accessors"})
                break
    nt = len(set(c.key() for c in cases if nontrivial(c)))
    acc = sum(1 for i in impl if i.startswith("1"))
    return {"disagreements": dis, "counterexamples": counter,
            "stats": {"evaluations": len(cases) * 5, "distinct_nontrivial": nt,
                      "samples": [cases[0].impl_line() + " -> " + impl[0], cases[20].impl_line() + " -> " + impl[20]],
                      "input_distribution": {"accepted": acc, "refused": len(cases) - acc, "profiles": list(PROFILES)}}}


def search(rng, rep, tier, disagreements):
    res = evaluate(gen_cases(rng, 100000), rep, "thorough")
    return res["counterexamples"]
