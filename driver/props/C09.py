"""C09 -- GF(256)-linearity and column independence.  (1) perform_op / SymbolSlab of the real crate against the
model on random operation lists for every residue of T modulo 64; (2) metamorphic runs on the real encoder:
packets(A xor B) = packets(A) xor packets(B), packets(c*A) = c*packets(A), byte column j of the packets at symbol
size T equals the packets of column j encoded alone at T = 1."""
import common as C
from props import generic as G
from props import codecgen as CG

MAKE_TARGETS = ["Props/C09.vo"]
PROFILES = ("release", "dev")
RULE = ("slab replays: 4-12 symbols, T over every residue modulo 64 in the thorough tier (a spread in quick), 5-40 ops "
        "mixing AddAssign / MulAssign / FMA / Reorder (also in the middle of a list), with inadmissible ops (dest = src, "
        "index out of range, FMA by 0 or 1) as the malformed stream; metamorphic triples on the real encoder for K "
        "across table rows; non-trivial replay = at least one FMA or MulAssign with scalar >= 2 and T >= 2")
TRUSTED = [
    "Coq 8.16.1 kernel + vm_compute",
    "the byte kernels are modelled element-wise here; C11 proves every kernel equals the element-wise operation",
    "extraction (ExtrOcamlBasic only) + ocamlopt; sample cross-checked in the kernel",
    "harness rqh: perform_op / SymbolSlab through verif_hooks + benchmarking exports; Encoder public API",
]
ASSUMPTIONS = ["SymbolSlab with symbol_size = 0 is outside the modelled domain (the encoder always has T >= 1)"]

EXP = [0] * 512
LOG = [0] * 256
_x = 1
for _i in range(255):
    EXP[_i] = _x
    LOG[_x] = _i
    _x <<= 1
    if _x & 256:
        _x ^= 0x11D
for _i in range(255, 512):
    EXP[_i] = EXP[_i - 255]


def gmul(a, b):
    return 0 if a == 0 or b == 0 else EXP[LOG[a] + LOG[b]]


def rand_ops(rng, count, n, malformed):
    v = []
    cur = count
    for _ in range(n):
        k = rng.below(10)
        d, s = rng.below(cur), rng.below(cur)
        if d == s and not malformed:
            s = (d + 1) % cur
            if s == d:
                continue
        if malformed and rng.below(12) == 0:
            d = cur + rng.below(3)
        c = rng.choice([2, 3, 0x1D, 0x80, 0xFF, rng.range(2, 255)])
        if malformed and rng.below(10) == 0:
            c = rng.choice([0, 1])
        if k < 4:
            v += [1, d, s]
        elif k < 6:
            v += [2, d, rng.choice([c, 1, 0]) if malformed else c]
        elif k < 9:
            v += [3, d, s, c]
        else:
            order = rng.shuffle(list(range(cur)))[: rng.range(max(1, cur - 2), cur)]
            if malformed and rng.below(3) == 0 and len(order) >= 2:
                # not a permutation: a duplicate physical index or one beyond the symbol count
                order[rng.below(len(order))] = rng.choice([order[0], count + rng.below(3)])
            v += [4, len(order)] + order
            cur = len(order)
    return v, cur


def slab_cases(rng, tier):
    cs = []
    ts = list(range(1, 131)) if tier != "quick" else [1, 2, 3, 7, 8, 9, 15, 16, 17, 31, 32, 33, 63, 64, 65, 100, 127, 128, 129]
    for t in ts:
        for rep in range(3 if tier == "quick" else 4):
            count = rng.range(4, 12)
            malformed = rep == 2
            v, nread = rand_ops(rng, count, rng.range(5, 40), malformed)
            cs.append(C.Case("slab_replay", [t, count, nread, len(v)] + v + CG.rand_data(rng, count * t), tag="malformed" if malformed else "valid"))
        # a reorder that is not a permutation, followed by paired operations through the affected logical indices:
        # two logical indices on one physical symbol (the borrow would alias) / a physical index beyond the slab
        count = rng.range(4, 8)
        order = rng.shuffle(list(range(count)))
        i, j = 0, 1 + rng.below(count - 1)
        dup = list(order)
        dup[j] = dup[i]
        far = list(order)
        far[j] = count + rng.below(3)
        for bad in (dup, far):
            for op in ([1, i, j], [1, j, i], [3, i, j, 7], [3, j, i, 7]):
                v = [4, count] + bad + op
                cs.append(C.Case("slab_replay", [t, count, 0, len(v)] + v + CG.rand_data(rng, count * t), tag="malformed"))
    return cs


def structured(rng, n, t, kind):
    """data closed under xor / scaling that data-dependent kernel shortcuts mistake for 'zero':
    1 high-nibble-only bytes, 2 low-nibble-only bytes, 3 symbols whose first half is zero, 4 whose second half is
    zero, 5 sparse one-hot bytes, 0 random"""
    if kind == 0:
        return CG.rand_data(rng, n)
    out = []
    for i in range(n):
        pos = i % t
        if kind == 1:
            out.append(rng.below(16) << 4)
        elif kind == 2:
            out.append(rng.below(16))
        elif kind == 3:
            out.append(0 if pos % 64 < 32 else rng.range(1, 255))
        elif kind == 4:
            out.append(0 if pos % 64 >= 32 else rng.range(1, 255))
        elif kind == 6:
            # every symbol a run of one byte drawn from [0x00,0x0F] u [0x80,0xFF] (sign-sensitive vector compares)
            if pos == 0:
                structured.cur = rng.choice([rng.below(16), rng.range(0x80, 0xFF), 0xFF, 0x0F])
            out.append(structured.cur)
        else:
            out.append((1 << rng.below(8)) if rng.below(9) == 0 else 0)
    return out


def meta_cases(rng, tier):
    """(label, case) groups on the real encoder: single block, N = 1"""
    groups = []
    ks = [1, 5, 10, 11, 26, 33, 101] if tier == "quick" else [1, 2, 9, 10, 11, 12, 13, 26, 27, 49, 50, 101, 102, 250, 251]
    ks = [(k, None, 0) for k in ks]
    # every small symbol size once (size-specific fast paths in the slab layer)
    for t in list(range(1, 25)) + [17, 19, 20, 22, 23, 33, 41]:
        ks.append((rng.choice([4, 10, 12]), t, 0))
    # symbol sizes of at least one vector width with structured contents (data-dependent kernel paths)
    for kind in (1, 2, 3, 4, 5, 6, 6):
        for t in ((64, 100) if tier == "quick" else (64, 65, 100, 128, 130, 200)):
            ks.append((rng.choice([4, 10, 12, 20]), t, kind))
    for k, tfix, kind in ks:
        t = tfix if tfix else rng.choice([2, 3, 5, 8, 16])
        f = k * t
        a = structured(rng, f, t, kind)
        b = structured(rng, f, t, kind)
        c = rng.choice([2, 0x1D, 0xFF, rng.range(2, 255)])
        nrep = 6
        hdr = [f, t, 1, 1, 1, nrep]
        mk = lambda d, tt=t, ff=f: C.Case("enc_packets", [ff, tt, 1, 1, 1, nrep] + d)
        j = rng.below(t)
        if t >= 9 and t % 8 and rng.below(2) == 0:
            j = t - 1 - rng.below(t % 8)  # a column in the last T mod 8 bytes (the part word-wise scans leave to a tail)
        col = [a[m * t + j] for m in range(k)]
        # decoding side: the same ESI set (one source symbol lost, repair symbols instead) at T and for column j at T = 1
        lost = rng.below(k)
        esis = [e for e in range(k) if e != lost] + [k + rng.below(40), k + 40 + rng.below(1000)]
        dec_t = CG.sbd_case(rng, k, t, 1, 1, 0, [esis], a)
        dec_1 = CG.sbd_case(rng, k, 1, 1, 1, 0, [esis], col)
        groups.append({"k": k, "t": t, "c": c, "j": j, "A": mk(a), "B": mk(b), "AxB": mk([x ^ y for x, y in zip(a, b)]),
                       "cA": mk([gmul(c, x) for x in a]), "col": C.Case("enc_packets", [k, 1, 1, 1, 1, nrep] + col),
                       "decT": dec_t, "dec1": dec_1, "data": a, "colv": col,
                       # the byte column embedded alone at symbol size t (every other column zero): symbols with a
                       # zero prefix and a non-zero tail, or the reverse
                       "emb": mk([a[i] if i % t == j else 0 for i in range(k * t)])})
    return groups


def cases(rng, tier):
    cs = slab_cases(rng, tier)
    cases.groups = meta_cases(rng, tier)
    for g in cases.groups:
        cs += [g["A"], g["B"], g["AxB"], g["cA"], g["col"], g["decT"], g["dec1"], g["emb"]]
    return cs


def payloads(line, t):
    v = [int(x) for x in line.split()[1:]]
    out = []
    for i in range(0, len(v), t + 2):
        out.append((v[i], v[i + 1], v[i + 2 : i + 2 + t]))
    return out


def evaluate(cs, rep, tier):
    slab = [c for c in cs if c.fn == "slab_replay"]
    impl_s, model_s, dis = G.diff_impl_model(slab, PROFILES, "slab")
    counter = []
    groups = getattr(cases, "groups", [])
    flat = [g[k] for g in groups for k in ("A", "B", "AxB", "cA", "col", "decT", "dec1", "emb")]
    res = dict(zip([c.key() for c in flat], C.run_impl(flat, "release"))) if flat else {}
    for g in groups:
        t = g["t"]
        try:
            pa, pb, px, pc = (payloads(res[g[k].key()], t) for k in ("A", "B", "AxB", "cA"))
            pcol = payloads(res[g["col"].key()], 1)
        except (KeyError, ValueError, IndexError):
            counter.append({"input": g["A"].impl_line()[:300], "expected": "packets", "observed": "encoder failed", "oracle": "metamorphic"})
            continue
        try:
            pe = payloads(res[g["emb"].key()], t)
            for (s1, e1, d1), (_, _, d5) in zip(pe, pcol):
                if d1[g["j"]] != d5[0] or any(x for n_, x in enumerate(d1) if n_ != g["j"]):
                    counter.append({"input": g["emb"].impl_line()[:400], "expected": f"packet ({s1},{e1}) of the block whose only non-zero byte column is {g['j']}: byte {g['j']} = the T = 1 packet of that column, every other byte 0", "observed": str(d1), "oracle": "column independence (embedded column)"})
                    break
        except (KeyError, ValueError, IndexError):
            counter.append({"input": g["emb"].impl_line()[:300], "expected": "packets", "observed": "encoder failed", "oracle": "metamorphic"})
        rt, r1 = res[g["decT"].key()].split(), res[g["dec1"].key()].split()
        if rt[:2] != ["1", "1"] or [int(x) for x in rt[2:]] != g["data"]:
            counter.append({"input": g["decT"].impl_line()[:500], "expected": "decoding returns the block at this symbol size", "observed": " ".join(rt[:20]), "oracle": "decode independent of T"})
        elif r1[:2] != ["1", "1"] or [int(x) for x in r1[2:]] != g["colv"]:
            counter.append({"input": g["dec1"].impl_line()[:500], "expected": f"decoding byte column {g['j']} alone (T = 1) returns that column", "observed": " ".join(r1[:20]), "oracle": "decode independent of T"})
        for (s1, e1, d1), (_, _, d2), (_, _, d3), (_, _, d4), (_, _, d5) in zip(pa, pb, px, pc, pcol):
            if [x ^ y for x, y in zip(d1, d2)] != d3:
                counter.append({"input": g["AxB"].impl_line()[:400], "expected": f"packet ({s1},{e1}) of A xor B = xor of packets", "observed": str(d3), "oracle": "additivity"})
                break
            if [gmul(g["c"], x) for x in d1] != d4:
                counter.append({"input": g["cA"].impl_line()[:400], "expected": f"packet ({s1},{e1}) of c*A = c * packet of A (c = {g['c']})", "observed": str(d4), "oracle": "homogeneity"})
                break
            if [d1[g["j"]]] != d5:
                counter.append({"input": g["col"].impl_line()[:400], "expected": f"byte {g['j']} of packet ({s1},{e1}) at T = {t} equals the T = 1 packet of that column", "observed": str(d5), "oracle": "column independence"})
                break
    nt = len(set(c.key() for c in slab if c.args[0] >= 2 and c.tag == "valid"))
    # big symbols / big blocks (release): column independence evaluated inside the harness (data drawn from a seed
    # there): symbols of 4 KiB .. 64 KiB, blocks whose intermediate symbols exceed 4 MiB / 16 MiB, columns on both
    # sides of every power of two and of the 64-byte vector width
    rb = C.Rng(C.get_seed()).fork("C09big")
    shapes = [(80, 60000), (1000, 4104), (26, 16384 + 8), (300, 16400)] if tier == "quick" else \
             [(80, 60000), (1000, 4104), (26, 16384 + 8), (300, 16400), (10, 65528), (2000, 4100), (520, 32768), (101, 20000), (12, 40001)]
    bigc = []
    for (k, t) in shapes:
        cols = sorted(set([0, 1, 63, 64, 65, t - 1, t - 2] + [c for p2 in (4096, 8192, 16384, 32768) for c in (p2 - 1, p2, p2 + 1) if c < t] + [rb.below(t) for _ in range(6)]))
        bigc.append(C.Case("col_indep", [k, t, 3, rb.below(1 << 32)] + cols))
    for c, r in zip(bigc, C.run_impl_crashsafe(bigc, "release", chunk=1, timeout=900)):
        tk = r.split()
        bad = [col for col, v in zip(c.args[4:], tk[1:]) if v != "1"] if tk[0] == "1" else None
        if bad is None or bad:
            counter.append({"input": c.impl_line(), "expected": "byte j of every packet at symbol size T equals the one-byte packet of byte column j", "observed": ("panic / crash: " + r[:60]) if bad is None else f"columns {bad[:8]} differ", "profile": "release", "oracle": "C09 column independence (K=%d, T=%d)" % (c.args[0], c.args[1])})
    return {"disagreements": dis, "counterexamples": counter,
            "stats": {"evaluations": len(slab) * 4 + len(flat), "distinct_nontrivial": nt,
                      "samples": [slab[0].impl_line()[:200] + " ... -> " + impl_s[0][:80]],
                      "input_distribution": {"slab_replays": len(slab), "malformed": sum(1 for c in slab if c.tag == "malformed"),
                                             "metamorphic_groups": len(groups), "T_values": len(set(c.args[0] for c in slab))}}}


def kernel_ok(c):
    return c.fn == "slab_replay" and len(c.args) < 400


def search(rng, rep, tier, disagreements):
    return evaluate(cases(rng, "thorough"), rep, "thorough")["counterexamples"]
