"""C04 -- encoding symbols are byte-exact RFC 6330 symbols.  The real encoder's packets are compared with the Spec
oracle, which shares nothing with the crate's way of computing: naive MT x GAMMA HDPC product, index-wise matrix,
reference elimination for C, RFC tuple generator and Enc.  Plus the model correspondence for multi-block objects.
The in-kernel part (matrix = RFC matrix for all 477 K'; plans certified per K') is in the theorems of C04m / C06."""
import common as C
from props import generic as G
from props import codecgen as CG

MAKE_TARGETS = ["Props/C04.vo"]
PROFILES = ("release", "dev")
RULE = ("single-block objects with K over every size 1..60 (quick) / selected sizes to 300 (thorough) incl. K equal to "
        "and just above Table-2 entries, T in 1..9 and 16; all source packets, the first repair packets, and repair "
        "windows at ESIs spread over the whole 24-bit range (incl. 2^24-1); non-trivial = a repair packet; distinct = "
        "distinct (K, T, data, ESI window)")
TRUSTED = [
    "Coq 8.16.1 kernel + vm_compute",
    "Spec/Code.v + Spec/Tuple.v + Spec/Rand.v + Spec/Tables_RFC.v as RFC 6330 (hand transcription; unstructured tables are a snapshot)",
    "extraction (ExtrOcamlBasic only) + ocamlopt; sample cross-checked in the kernel",
    "harness rqh: Encoder public API",
]
ASSUMPTIONS = ["invertibility of A(K') beyond the K' certified in the kernel is the RFC's own claim about Table 2; it is exercised, not proved, by these runs"]


def cases(rng, tier):
    cs = []
    ks = list(range(1, 61)) if tier == "quick" else list(range(1, 131)) + [140, 141, 149, 150, 200, 236, 237, 248, 249, 250, 251, 300]
    for k in ks:
        t = rng.choice([1, 2, 3, 4, 5, 6, 7, 8, 9, 16])
        data = CG.rand_data(rng, k * t)
        c = C.Case("enc_packets", [k * t, t, 1, 1, 1, 8] + data)
        c.tag = "first"
        cs.append(c)
        for _ in range(2):
            start = rng.choice([rng.below(1 << 24), (1 << 24) - k - 3, (1 << 24) - k - 1, 1 << rng.range(0, 23), rng.below(1000)])
            start = max(0, min(start, (1 << 24) - k - 1))
            n = min(3, (1 << 24) - k - start)
            w = C.Case("repair_window", [k * t, t, 1, 1, 1, 0, start, n] + data)
            w.tag = "window"
            cs.append(w)
    # tuples at the boundaries of the degree table: X with v(X) in {f[d]-1, f[d]} (a comparison flipped there changes
    # one packet in ~35000); found by scanning v(X) with the Spec
    f_tab = [5243, 529531, 704294, 791675, 844104, 879057, 904023, 922747, 937311, 948962, 958494, 966438, 973160, 978921, 983914,
             988283, 992138, 995565, 998631, 1001391, 1003887, 1006157, 1008229, 1010129, 1011876, 1013490, 1014983, 1016370, 1017662]
    edge = set(f_tab) | set(x - 1 for x in f_tab)
    for (kp, j) in ((10, 254), (36, 267)) if tier == "quick" else ((10, 254), (26, 80), (36, 267), (101, 562)):
        chunk, nchunks = 4000, 16
        import concurrent.futures as cf
        with cf.ThreadPoolExecutor(max_workers=C.NCPU) as ex:
            outs = list(ex.map(lambda i: C.run_model([C.Case("spec_v_list", [j, kp + i * chunk, chunk])])[0].split()[1:], range(nchunks)))
        hits = [kp + ci * chunk + i for ci, vs in enumerate(outs) for i, v in enumerate(vs) if int(v) in edge][:6]
        data = CG.rand_data(rng, kp * 2)
        for x in hits:
            w = C.Case("repair_window", [kp * 2, 2, 1, 1, 1, 0, x - kp, 1] + data)
            w.tag = "window"
            cs.append(w)
    # multi-block / sub-block objects: implementation vs model only (the Spec oracle is single-block)
    for i in range(60 if tier == "quick" else 400):
        f, t, z, nsub, al = CG.obj_config(rng, 600)
        if i % 2 == 0:
            # alignment > 1 with a sub-block count that does not divide T/Al
            al = rng.choice([2, 4, 8])
            q = rng.choice([3, 5, 7])
            t = al * q
            nsub = rng.choice([2, q - 1])
            z = 1
            f = t * rng.range(1, 12)
        m = C.Case("enc_packets", [f, t, z, nsub, al, 3] + CG.rand_data(rng, f))
        m.tag = "multi"
        cs.append(m)
    # larger blocks, checked through the packet relation on the REAL intermediate symbols (no reference solve):
    # packet(ESI) = Enc[K', C, Tuple_rfc[K', ESI + K' - K]].  Includes the two (K', ISI) pairs whose seed y is
    # 2^32 - 1 / 2^32 - 2 (the only ones below 2^24 + K'), found by inverting A modulo 2^32
    cases.relation = []
    pts = [(989, 3158229), (978, 3158229 - 11), (2195, 8192877), (989, 3158228), (1050, 5), (3015, (1 << 24) - 3016)]
    pts += [(rng.choice([600, 811, 1002, 1673, 2000]), rng.below(1 << 23)) for _ in range(3 if tier == "quick" else 30)]
    for k, isi in pts:
        data = CG.rand_data(rng, k)
        cases.relation.append((k, isi, data))
    # the largest block sizes (release profile): rows of Table 2 with S >= 2P (the G_LDPC,2 column pattern wraps
    # more than once there), the last row, and a random large row; the real intermediate symbols must satisfy the
    # RFC's LDPC + LT relations (O(L) check with the RFC snapshot's parameters) and repair packets the Enc relation
    rows = C.repo_table2()[0]
    wrap = [r[0] for r in rows if r[2] >= 2 * (r[0] + r[2] + r[3] - r[4])]
    big = [rng.choice(wrap)] if wrap else []
    big += [rows[-1][0]] if tier != "quick" else [rng.choice([r[0] for r in rows if 3000 < r[0] < 12000])]
    if tier != "quick":
        big += wrap[:2] + [rng.choice([r[0] for r in rows if r[0] > 3000]) for _ in range(4)]
    cases.bigrel = [(k - rng.choice([0, 0, 1, 3]), CG.rand_data(rng, k)) for k in big]
    cases.bigrel = [(k, d[:k]) for k, d in cases.bigrel]
    return cs


def evaluate(cs, rep, tier):
    impl, model, dis = G.diff_impl_model(cs, PROFILES, "packets")
    counter = []
    sc = []
    for c, i in zip(cs, impl):
        if c.tag == "first":
            f, t = c.args[0], c.args[1]
            sc.append((c, i, C.Case("spec_block_packets", [t, 0, c.args[5]] + c.args[6:]), 0))
        elif c.tag == "window":
            f, t = c.args[0], c.args[1]
            sc.append((c, i, C.Case("spec_block_packets", [t, c.args[6], c.args[7]] + c.args[8:]), (f // t) * (t + 2)))
    spec = C.run_model([s for _, _, s, _ in sc])
    nrep = 0
    for (c, i, s, skip), sp in zip(sc, spec):
        st = sp.split()
        want = ["1"] + st[1 + skip :]
        if i.split() != want:
            it = i.split()
            pos = next((k for k, (x, y) in enumerate(zip(it, want)) if x != y), min(len(it), len(want)))
            t = c.args[1]
            counter.append({"input": c.impl_line()[:800], "expected": f"RFC packet stream (first difference at value {pos}, i.e. packet {max(0, pos - 1) // (t + 2)})", "observed": " ".join(it[max(0, pos - 3) : pos + 6]), "oracle": "Spec.Code: Enc[K', C, Tuple[K', X + K' - K]] with C the solution of the RFC constraint system"})
        nrep += c.args[5] if c.tag == "first" else c.args[7]
    # sub-blocked / multi-block objects: source packets against the Spec layout as well
    mc = [(c, i) for c, i in zip(cs, impl) if c.tag == "multi" and i.startswith("1")]
    mspec = C.run_model([C.Case("spec_layout_packets", c.args[:5] + c.args[6:]) for c, _ in mc])
    for (c, i), sp in zip(mc, mspec):
        f, t, z = c.args[0], c.args[1], c.args[2]
        ks = CG.block_sizes(f, t, z)
        it, st = i.split()[1:], sp.split()[1:]
        # walk the implementation's list block by block: K source packets, then 3 repair packets to skip
        pos_i = pos_s = 0
        bad = False
        for k in ks:
            n = k * (t + 2)
            if it[pos_i : pos_i + n] != st[pos_s : pos_s + n]:
                bad = True
                break
            pos_i += n + c.args[5] * (t + 2)
            pos_s += n
        if bad:
            counter.append({"input": c.impl_line()[:600], "expected": "source packet i carries source symbol i of RFC 4.4.1.2", "observed": "source packets differ from the Spec layout", "oracle": "Spec.Layout"})
    # packet relation on the real intermediate symbols for larger blocks
    rel = getattr(cases, "relation", [])
    for k, isi, data in rel:
        kp = next(x for x in __import__("props.C06", fromlist=["kprimes"]).kprimes() if x >= k)
        esi = isi - (kp - k)
        if esi < k or esi >= (1 << 24):
            continue
        for prof in (("release",) if k > 1100 else PROFILES):
            ci, pi = C.run_impl([C.Case("intermediate", [1, 0, 0] + data), C.Case("repair_window", [k, 1, 1, 1, 1, 0, esi - k, 1] + data)], prof)
            if not ci.startswith("1") or not pi.startswith("1"):
                counter.append({"input": f"repair_window {k} 1 1 1 1 0 {esi - k} 1 <{k} data bytes>", "expected": "a repair packet", "observed": pi[:60], "profile": prof, "oracle": "C04"})
                break
            want = C.run_model([C.Case("spec_enc_from_c", [k, 1, esi] + [int(x) for x in ci.split()[1:]])])[0]
            gotp = pi.split()
            if want.split()[1:] != gotp[3:]:
                counter.append({"input": f"repair_window {k} 1 1 1 1 0 {esi - k} 1 <{k} data bytes>", "expected": "Enc[K', C, Tuple[K', %d]] = %s" % (isi, want), "observed": " ".join(gotp[1:]), "profile": prof, "oracle": "RFC tuple and Enc on the real intermediate symbols"})
                break
    bigrel = getattr(cases, "bigrel", [])
    for k, data in bigrel:
        esi = k + 5
        ci, pi = C.run_impl_crashsafe([C.Case("intermediate", [1, 0, 0] + data), C.Case("repair_window", [k, 1, 1, 1, 1, 0, esi - k, 1] + data)], "release", chunk=1, timeout=900)
        inp = f"repair_window {k} 1 1 1 1 0 {esi - k} 1 <{k} data bytes>"
        if not ci.startswith("1") or not pi.startswith("1"):
            counter.append({"input": inp, "expected": "an encoder and a repair packet for every K <= 56403", "observed": (ci[:40] + " / " + pi[:40]), "profile": "release", "oracle": "C04 (large block)"})
            continue
        cvals = [int(x) for x in ci.split()[1:]]
        ans = C.run_model([C.Case("spec_check_rows_rfc", [k, 1] + data + cvals)], timeout=3600)[0]
        if ans != "1 1":
            counter.append({"input": inp, "expected": "intermediate symbols satisfying the RFC's LDPC relations and reproducing every source / padding symbol through Enc", "observed": "violated on the real intermediate symbols", "profile": "release", "oracle": "RFC relations with the parameters of the RFC snapshot"})
            continue
        want = C.run_model([C.Case("spec_enc_from_c", [k, 1, esi] + cvals)], timeout=3600)[0]
        if want.split()[1:] != pi.split()[3:]:
            counter.append({"input": inp, "expected": "Enc[K', C, Tuple[K', ISI]] = " + want[:60], "observed": " ".join(pi.split()[1:8]), "profile": "release", "oracle": "RFC tuple and Enc on the real intermediate symbols"})
    return {"disagreements": dis, "counterexamples": counter,
            "stats": {"evaluations": len(cs) * 4 + len(sc), "packet_relation_points": len(rel), "large_blocks_checked_by_rfc_relations": [k for k, _ in bigrel], "distinct_nontrivial": len(set(c.key() for c in cs if c.tag in ("first", "window"))),
                      "repair_packets_vs_spec": nrep,
                      "samples": [cs[min(9, len(cs) - 1)].impl_line()[:160] + " ... -> " + impl[min(9, len(cs) - 1)][:80]],
                      "input_distribution": {"K_values": len(set(c.args[0] // c.args[1] for c in cs if c.tag == "first")), "windows": sum(1 for c in cs if c.tag == "window"), "multi_block_objects": sum(1 for c in cs if c.tag == "multi")}}}


def kernel_ok(c):
    return c.tag in ("first", "window") and c.args[0] // c.args[1] <= 12 and len(c.args) < 150


def changed_table_rows():
    """K' of the Table-2 rows that differ between the current source (Gen) and the RFC snapshot (Spec)"""
    import os, re
    gen = open(os.path.join(C.COQ, "Gen", "SysTables.v")).read()
    spec = open(os.path.join(C.COQ, "Spec", "Tables_RFC.v")).read()
    rows_g = re.findall(r"\((\d+), (\d+), (\d+), (\d+), (\d+)\)", gen[gen.index("TABLE2") : gen.index("P1_TABLE")])
    sp = spec[spec.index("RFC_TABLE2") :]
    rows_s = re.findall(r"\((\d+), (\d+), (\d+), (\d+), (\d+)\)", sp)[: len(rows_g)]
    return [int(g[0]) for g, r in zip(rows_g, rows_s) if g != r]


def search(rng, rep, tier, disagreements):
    # targeted first: a table row that no longer matches the RFC snapshot -> packets of exactly that block size
    out = []
    try:
        ks = [k for k in changed_table_rows() if k <= 1300][:4]
    except (ValueError, OSError):
        ks = []
    if ks:
        cs = []
        for k in ks:
            c = C.Case("enc_packets", [k, 1, 1, 1, 1, 3] + CG.rand_data(rng, k))
            c.tag = "first"
            cs.append(c)
        out = evaluate(cs, rep, "quick")["counterexamples"]
    if out:
        return out
    return evaluate(cases(rng, "quick")[:400], rep, "quick")["counterexamples"]
