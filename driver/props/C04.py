"""C04 -- encoding symbols are byte-exact RFC 6330 symbols.  The real encoder's packets are compared with the Spec
oracle, which shares nothing with the crate's way of computing: naive MT x GAMMA HDPC product, index-wise matrix,
reference elimination for C, RFC tuple generator and Enc.  Plus the model correspondence for multi-block objects.
The in-kernel part (matrix = RFC matrix for all 477 K'; plans certified per K') is in the theorems of C04m / C06."""
import common as C
from props import generic as G
from props import codecgen as CG

MAKE_TARGETS = ["Props/C04.vo"]
PROFILES = ("release", "dev")
RULE = ("single-block objects with K over every size 1..60 (quick) / selected sizes to 300 (thorough) incl. K equal to "
        "and just above Table-2 entries, T in 1..9 and 16; all source packets, the first repair packets, and repair "
        "windows at ESIs spread over the whole 24-bit range (incl. 2^24-1); non-trivial = a repair packet; distinct = "
        "distinct (K, T, data, ESI window)")
TRUSTED = [
    "Coq 8.16.1 kernel + vm_compute",
    "Spec/Code.v + Spec/Tuple.v + Spec/Rand.v + Spec/Tables_RFC.v as RFC 6330 (hand transcription; unstructured tables are a snapshot)",
    "extraction (ExtrOcamlBasic only) + ocamlopt; sample cross-checked in the kernel",
    "harness rqh: Encoder public API",
]
ASSUMPTIONS = ["invertibility of A(K') beyond the K' certified in the kernel is the RFC's own claim about Table 2; it is exercised, not proved, by these runs"]


def cases(rng, tier):
    cs = []
    ks = list(range(1, 61)) if tier == "quick" else list(range(1, 131)) + [140, 141, 149, 150, 200, 236, 237, 248, 249, 250, 251, 300]
    for k in ks:
        t = rng.choice([1, 2, 3, 4, 5, 6, 7, 8, 9, 16])
        data = CG.rand_data(rng, k * t)
        c = C.Case("enc_packets", [k * t, t, 1, 1, 1, 8] + data)
        c.tag = "first"
        cs.append(c)
        for _ in range(2):
            start = rng.choice([rng.below(1 << 24), (1 << 24) - k - 3, (1 << 24) - k - 1, 1 << rng.range(0, 23), rng.below(1000)])
            start = max(0, min(start, (1 << 24) - k - 1))
            n = min(3, (1 << 24) - k - start)
            w = C.Case("repair_window", [k * t, t, 1, 1, 1, 0, start, n] + data)
            w.tag = "window"
            cs.append(w)
    # multi-block / sub-block objects: implementation vs model only (the Spec oracle is single-block)
    for _ in range(15 if tier == "quick" else 150):
        f, t, z, nsub, al = CG.obj_config(rng, 600)
        m = C.Case("enc_packets", [f, t, z, nsub, al, 3] + CG.rand_data(rng, f))
        m.tag = "multi"
        cs.append(m)
    return cs


def evaluate(cs, rep, tier):
    impl, model, dis = G.diff_impl_model(cs, PROFILES, "packets")
    counter = []
    sc = []
    for c, i in zip(cs, impl):
        if c.tag == "first":
            f, t = c.args[0], c.args[1]
            sc.append((c, i, C.Case("spec_block_packets", [t, 0, c.args[5]] + c.args[6:]), 0))
        elif c.tag == "window":
            f, t = c.args[0], c.args[1]
            sc.append((c, i, C.Case("spec_block_packets", [t, c.args[6], c.args[7]] + c.args[8:]), (f // t) * (t + 2)))
    spec = C.run_model([s for _, _, s, _ in sc])
    nrep = 0
    for (c, i, s, skip), sp in zip(sc, spec):
        st = sp.split()
        want = ["1"] + st[1 + skip :]
        if i.split() != want:
            it = i.split()
            pos = next((k for k, (x, y) in enumerate(zip(it, want)) if x != y), min(len(it), len(want)))
            t = c.args[1]
            counter.append({"input": c.impl_line()[:800], "expected": f"RFC packet stream (first difference at value {pos}, i.e. packet {max(0, pos - 1) // (t + 2)})", "observed": " ".join(it[max(0, pos - 3) : pos + 6]), "oracle": "Spec.Code: Enc[K', C, Tuple[K', X + K' - K]] with C the solution of the RFC constraint system"})
        nrep += c.args[5] if c.tag == "first" else c.args[7]
    return {"disagreements": dis, "counterexamples": counter,
            "stats": {"evaluations": len(cs) * 4 + len(sc), "distinct_nontrivial": len(set(c.key() for c in cs if c.tag in ("first", "window"))),
                      "repair_packets_vs_spec": nrep,
                      "samples": [cs[9].impl_line()[:160] + " ... -> " + impl[9][:80]],
                      "input_distribution": {"K_values": len(set(c.args[0] // c.args[1] for c in cs if c.tag == "first")), "windows": sum(1 for c in cs if c.tag == "window"), "multi_block_objects": sum(1 for c in cs if c.tag == "multi")}}}


def kernel_ok(c):
    return c.tag in ("first", "window") and c.args[0] // c.args[1] <= 12 and len(c.args) < 150


def search(rng, rep, tier, disagreements):
    return evaluate(cases(rng, "thorough"), rep, "thorough")["counterexamples"]
