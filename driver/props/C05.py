"""C05 -- object partitioning and packet layout.  The real Encoder's source packets (ids and payloads) are
compared with the model and with the Spec index function of RFC 6330 4.4.1.2 on position-coded data, and
the real Decoder must return the object when given exactly the source packets."""
import common as C
from props import generic as G

MAKE_TARGETS = ["Props/C05.vo"]
PROFILES = ("release", "dev")
RULE = ("grid over (F,T,Z,N,Al): Al in {1,2,4,8,3}, T = Al*k, N from 1 to T/Al including values not dividing T/Al, "
        "Z from 1 to Kt including values not dividing Kt, F in {1, T-1, T, T+1, Z*T+-1, random}; data is a position "
        "code (byte i = (i*167+13) mod 251) so a misplaced byte is visible; non-trivial = Z > 1 or N > 1 or F not a "
        "multiple of T; plus invalid configurations (Al not dividing T) as the malformed stream")
TRUSTED = [
    "Coq 8.16.1 kernel + vm_compute",
    "Spec/Layout.v: Partition and the 4.4.1.2 layout as index functions",
    "extraction (ExtrOcamlBasic only) + ocamlopt; sample cross-checked in the kernel",
    "harness rqh: Encoder::new(..).get_encoded_packets(0), Decoder::decode",
]
ASSUMPTIONS = ["usize/u64 sums and products of the layout code stay far below 2^64 (C05_block_offsets gives Kt*T < 2^48)"]


def pos_data(f):
    return [(i * 167 + 13) % 251 for i in range(f)]


def cdiv(a, b):
    return -(-a // b)


def gen_cfgs(rng, n, maxf):
    out = []
    while len(out) < n:
        al = rng.choice([1, 1, 2, 4, 8, 3])
        t = al * rng.range(1, max(1, 40 // al))
        kt = rng.range(1, max(1, maxf // t))
        z = rng.choice([1, 1, 2, 3, kt, max(1, kt - 1), rng.range(1, min(kt, 255))])
        z = max(1, min(z, kt, 255))
        nsub = rng.choice([1, 1, 2, 3, t // al, max(1, t // al - 1), rng.range(1, t // al)])
        k = rng.below(6)
        if k == 0:
            f = kt * t
        elif k == 1:
            f = kt * t - (t - 1)
        elif k == 2:
            f = max(1, kt * t - 1)
        else:
            f = max((kt - 1) * t + 1, kt * t - rng.below(t))
        if cdiv(cdiv(f, t), z) > 56403:
            continue
        out.append((f, t, z, nsub, al))
    return out


def cases(rng, tier):
    from props import codecgen as CG
    cs = []
    fixed = [(991, 20, 3, 3, 4), (1, 1, 1, 1, 1), (100, 8, 1, 1, 1), (64, 8, 8, 1, 8), (1000, 24, 7, 2, 4), (17, 16, 2, 4, 4), (129, 64, 3, 8, 8)]
    cfgs = fixed + gen_cfgs(rng, 250 if tier == "quick" else 2500, 1500 if tier == "quick" else 6000)
    for n_, (f, t, z, nsub, al) in enumerate(cfgs):
        # mostly a position code (any misplaced byte is visible); every eighth object has repeating contents
        # (zero-filled, constant, periodic with the block length: adjacent blocks identical)
        d = CG.structured_data(rng, f, t, z) if n_ % 8 == 7 else pos_data(f)
        cs.append(C.Case("layout_packets", [f, t, z, nsub, al] + d))
        cs.append(C.Case("layout_roundtrip", [f, t, z, nsub, al, rng.below(50)] + d))
    # the decoder must invert the layout also for symbols it REBUILDS (lost source symbols, N > 1), on both
    # solver paths: with little overhead (standard path) and with >= H symbols of overhead in one call (binary path)
    for _ in range(12 if tier == "quick" else 120):
        al = rng.choice([1, 2, 4])
        q = rng.choice([3, 5, 7])
        t = al * q
        nsub = rng.choice([2, 3, q])
        k = rng.range(4, 30)
        for extra in (1, 12):
            esis = rng.shuffle(CG.block_esis(rng, k, extra, rng.choice([0.3, 0.6])))
            cs.append(CG.sbd_case(rng, k, t, nsub, al, rng.choice([0, 1, 251]), [esis], pos_data(k * t)))
    # oracle-only cases (not run through the model): the add_new_packet / get_result API on objects with unequal
    # blocks, and objects with more than 65535 symbols in total (many blocks), source packets vs the Spec layout
    cases.extra = []
    for _ in range(40 if tier == "quick" else 400):
        al = rng.choice([1, 2, 4])
        t = al * rng.range(1, 6)
        z = rng.range(2, 9)
        kt = z * rng.range(1, 6) + rng.range(1, z - 1)          # Kt not divisible by Z
        f = kt * t - rng.below(t)
        nsub = rng.range(1, t // al)
        cases.extra.append(C.Case("layout_roundtrip_api", [f, t, z, nsub, al, rng.below(80)] + pos_data(f), tag="api"))
    for (kt, t, z) in ([(66001, 1, 255), (65536, 1, 254), (65537, 2, 200)] if tier == "quick" else [(66001, 1, 255), (65536, 1, 254), (65537, 2, 200), (131073, 1, 255), (70000, 4, 9)]):
        f = kt * t - (t - 1 if t > 1 else 0)
        cases.extra.append(C.Case("layout_packets", [f, t, z, 1, 1] + pos_data(f), tag="manysyms"))
    # malformed stream: Al does not divide T, Z = 0, N = 0, N > T/Al
    for (f, t, z, nsub, al) in [(100, 10, 1, 1, 4), (100, 8, 0, 1, 1), (100, 8, 1, 0, 1), (100, 8, 1, 9, 1), (100, 8, 1, 5, 2), (50, 8, 9, 1, 1)]:
        cs.append(C.Case("layout_packets", [f, t, z, nsub, al] + pos_data(f), tag="malformed"))
    return cs


def in_domain(c):
    f, t, z, nsub, al = c.args[:5]
    return f >= 1 and al >= 1 and t >= 1 and t % al == 0 and 1 <= nsub <= t // al and 1 <= z <= cdiv(f, t) and cdiv(cdiv(f, t), z) <= 56403


def evaluate(cases, rep, tier):
    impl, model, dis = G.diff_impl_model(cases, PROFILES, "layout")
    counter = []
    sc = [(c, i) for c, i in zip(cases, impl) if c.fn == "layout_packets" and in_domain(c)]
    spec = C.run_model([C.Case("spec_layout_packets", c.args) for c, _ in sc])
    for (c, i), sp in zip(sc, spec):
        if C.canon(i) != C.canon(sp):
            counter.append({"input": c.impl_line(), "expected": sp[:400], "observed": i[:400], "oracle": "Spec.Layout (RFC 4.4.1.2)"})
    for c, i in zip(cases, impl):
        if c.fn == "layout_roundtrip" and in_domain(c):
            f = c.args[0]
            want = "1 1" + "".join(f" {b}" for b in c.args[6:6 + f])
            if i != want:
                counter.append({"input": c.impl_line(), "expected": "the original object", "observed": i[:400], "oracle": "decoder inverts the layout"})
    for c, i in zip(cases, impl):
        if c.fn == "sbd_hist":
            k, t = c.args[0], c.args[1]
            tok = i.split()
            if tok[:2] == ["1", "1"] and [int(x) for x in tok[2:]] != c.args[-k * t:]:
                counter.append({"input": c.impl_line()[:700], "expected": "the block bytes (lost symbols rebuilt and un-interleaved)", "observed": " ".join(tok[2:40]), "oracle": "decoder inverts the layout for rebuilt symbols"})
    extra = getattr(globals()["cases"], "extra", [])
    api = [c for c in extra if c.tag == "api"]
    for prof in PROFILES:
        for c, r in zip(api, C.run_impl(api, prof)):
            f = c.args[0]
            want = "1 1" + "".join(f" {b}" for b in c.args[6:6 + f])
            if r != want:
                counter.append({"input": c.impl_line(), "expected": "the original object from get_result()", "observed": r[:400], "profile": prof, "oracle": "decoder inverts the layout (add_new_packet / get_result)"})
                break
    many = [c for c in extra if c.tag == "manysyms"]
    mi = C.run_impl_crashsafe(many, "release", chunk=1, timeout=900)
    # the Spec index function costs O(F^2) to evaluate on these sizes: screen with the model's layout (proved equal
    # to the Spec, C05_packets_are_rfc) and evaluate the Spec itself only on a case that differs
    mm = C.run_model(many)
    for c, i, mo in zip(many, mi, mm):
        if C.canon(i) == C.canon(mo):
            continue
        sp = C.run_model([C.Case("spec_layout_packets", c.args)])[0]
        if C.canon(i) != C.canon(sp):
            counter.append({"input": " ".join(c.impl_line().split()[:6]) + " <position-coded data: byte i = (i*167+13) mod 251>", "expected": "source packets of RFC 4.4.1.2 (%d tokens): %s" % (len(sp.split()), sp[:200]), "observed": "(%d tokens) %s" % (len(i.split()), i[:200]), "oracle": "Spec.Layout, object with more than 65535 symbols"})
    cases = [c for c in cases if c.fn != "sbd_hist"] + []
    nt = len(set(c.key() for c in cases if in_domain(c) and (c.args[2] > 1 or c.args[3] > 1 or c.args[0] % c.args[1])))
    dist = {"Z>1": sum(1 for c in cases if c.args[2] > 1), "N>1": sum(1 for c in cases if c.args[3] > 1),
            "padded": sum(1 for c in cases if c.args[1] and c.args[0] % c.args[1]), "malformed": sum(1 for c in cases if c.tag == "malformed")}
    return {"disagreements": dis, "counterexamples": counter,
            "stats": {"evaluations": len(cases) * 4 + len(sc), "distinct_nontrivial": nt,
                      "samples": [" ".join(cases[0].impl_line().split()[:6]) + " <991 data bytes> -> " + impl[0][:120]],
                      "get_result_api_cases": len(api), "objects_over_65535_symbols": len(many), "input_distribution": dist}}


def kernel_ok(c):
    return len(c.args) < 400


def search(rng, rep, tier, disagreements):
    return evaluate(cases(rng, "thorough"), rep, "thorough")["counterexamples"]
