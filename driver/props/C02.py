"""C02 -- a block decodes exactly when the received symbols determine it.  The real SourceBlockDecoder is fed one
symbol at a time; its Some/None after EVERY packet is compared with the model, whose answer is the rank criterion
(reference Gaussian elimination over GF(256) on the constraint matrix of the received set).  Rank-deficient sets
with >= K symbols are rare, so the generator is oracle-guided: a large seeded batch runs on the implementation
alone, every set it refuses with >= K symbols goes to the model (a lost decode shows there), an equal number of
accepted sets and a uniform sample go too (a bogus Some shows there), and refused sets are mutated by one symbol to
stay near the rank boundary."""
import common as C
from props import generic as G
from props import codecgen as CG

MAKE_TARGETS = ["Props/C02.vo", "Props/C02s.vo"]
PROPS = ["C02", "C02s"]
PROFILES = ("release", "dev")
RULE = ("block sizes K in 1..40 (quick) / 1..120 (thorough) incl. sizes straddling Table-2 rows; sets of K+h distinct "
        "ESIs, h in {0,1}, source fraction in {0,.1,.5,.9}, repair ESIs over the whole 24-bit range; thresholds "
        "{dense, 250, sparse}; candidates screened on the implementation, then all refused sets + as many accepted + a "
        "uniform sample are replayed one symbol at a time on implementation and model; non-trivial = a set with >= K "
        "symbols that is not all-source; counted separately by rank outcome")
TRUSTED = [
    "Coq 8.16.1 kernel + vm_compute",
    "rank oracle = Spec.Linear.gauss_solve on the model's constraint matrix (proved: Some iff injective); that the model matrix is the RFC matrix is C04_matrix_is_rfc",
    "extraction (ExtrOcamlBasic only) + ocamlopt; sample cross-checked in the kernel",
    "harness rqh: SourceBlockEncoder / SourceBlockDecoder public API (+ set_sparse_threshold)",
]
ASSUMPTIONS = []


_KP = None


def kprime(k):
    global _KP
    if _KP is None:
        _KP = [r[0] for r in C.repo_table2()[0]]
    return next(x for x in _KP if x >= k)


def isis_of(k, esis):
    """the ISI list the decoder builds: present source ESIs ascending, padding, repair ESIs in arrival order"""
    kp = kprime(k)
    src = sorted(e for e in esis if e < k)
    rep = [e for e in esis if e >= k]
    return src + list(range(k, kp)) + [e + (kp - k) for e in rep]


def solver_cases(rng, tier, chosen):
    """the real five-phase solver's operation list (dense back-end) vs the executable model of pi_solver.rs"""
    cs = []
    ks = [k for k in ([10, 12, 18, 20, 26, 30, 32, 36, 42, 46, 48, 49, 55, 60] if tier == "quick" else (_KP or [kprime(1)] and _KP)) if k <= (60 if tier == "quick" else 257)]
    for k in ks:
        cs.append(C.Case("dense_solve_ops", [k], tag="solver"))
    for (k, thr, esis) in chosen[: 120 if tier == "quick" else 1200]:
        if len(set(esis)) != len(esis) or len(esis) < k:
            continue
        isis = isis_of(k, esis)
        cs.append(C.Case("dec_ops", [k, 0] + isis, tag="solver"))
        cs.append(C.Case("dec_ops", [k, 1] + isis, tag="solver"))
    return cs


def mk(rng, k, t, thr, esis, data, one_by_one=True):
    return CG.sbd_case(rng, k, t, 1, 1, thr, [[e] for e in esis] if one_by_one else [esis], data)


def cases(rng, tier):
    ncand = 4000 if tier == "quick" else 60000
    kmax = 40 if tier == "quick" else 120
    cand = []
    for n in range(ncand):
        if n % 3 == 0:
            # repair-only receptions of small blocks: every row of V is heavy, so the first phase goes through its
            # r >= 3 steps (original-degree scan, column swaps into U), which ordinary receptions never reach
            k = rng.choice([3, 4, 5, 6, 7, 8, 9, 10, 11, 12, 13, 18, 20, 26])
            esis = rng.shuffle(CG.block_esis(rng, k, rng.choice([0, 0, 1]), 0.0))
        else:
            k = CG.small_k(rng, kmax)
            h = rng.choice([0, 0, 0, 1])
            esis = rng.shuffle(CG.block_esis(rng, k, h, rng.choice([0.0, 0.1, 0.5, 0.9])))
        cand.append((k, rng.choice([0, 1, 251]), esis))
    # receptions of heavy symbols only (LT degree >= 3 / 4 / 6): the first phase's r >= 3 and r >= 4 steps
    for _ in range(300 if tier == "quick" else 6000):
        k = rng.choice([10, 12, 18, 20, 26])
        esis = CG.heavy_esis(rng, k, rng.choice([3, 4, 4, 6, 6]), rng.choice([0, 0, 1]))
        if esis is not None:
            cand.append((k, rng.choice([0, 1, 251]), esis))
    screen = [mk(rng, k, 1, thr, esis, [(7 * i + 1) % 256 for i in range(k)], one_by_one=False) for (k, thr, esis) in cand]
    res = C.run_impl(screen, "release")
    # the screening run is itself judged: a panic on the encoder's own packets, or an answer that is not the block
    cases.screen_bad = []
    for sc, (k, thr, esis), r in zip(screen, cand, res):
        t = r.split()
        want = [(7 * i + 1) % 256 for i in range(k)]
        if t[0] != "1":
            cases.screen_bad.append({"input": sc.impl_line()[:700], "expected": "None or the block", "observed": "panic: " + r[:60], "oracle": "decoder never panics on a received set"})
        elif t[1] == "1" and [int(x) for x in t[2:]] != want:
            cases.screen_bad.append({"input": sc.impl_line()[:700], "expected": "the block " + str(want[:12]), "observed": " ".join(t[2:14]), "oracle": "never answers with anything but the block"})
    refused = [c for c, r in zip(cand, res) if r.split()[:2] == ["1", "0"]]
    accepted = [c for c, r in zip(cand, res) if r.split()[:2] == ["1", "1"]]
    cases.screen = {"candidates": len(cand), "refused_by_impl": len(refused), "accepted_by_impl": len(accepted)}
    chosen = list(refused)
    chosen += accepted[: max(len(refused), 40 if tier == "quick" else 400)]
    chosen += [rng.choice(cand) for _ in range(40 if tier == "quick" else 400)]
    chosen += cand[-(60 if tier == "quick" else 600):]  # heavy-symbol receptions: also compared op by op with the solver model
    # mutate refused sets by one symbol (stay near the rank boundary)
    for (k, thr, esis) in refused[: 60 if tier == "quick" else 600]:
        e2 = list(esis)
        e2[rng.below(len(e2))] = rng.range(k, (1 << 24) - 1)
        if len(set(e2)) == len(e2):
            chosen.append((k, thr, e2))
    cs = []
    for (k, thr, esis) in chosen:
        t = rng.choice([1, 1, 2, 3])
        cs.append(mk(rng, k, t, thr, esis, CG.rand_data(rng, k * t)))
    # overhead stream: K + H .. K + H + 3 symbols, delivered one at a time, so that the binary-only fast path
    # (taken when S + |received| + padding >= L, i.e. from H symbols of overhead on) is exercised at its own
    # rank boundary: it fails often there and must fall back to the full solver
    for _ in range(60 if tier == "quick" else 600):
        k = CG.small_k(rng, kmax)
        esis = rng.shuffle(CG.block_esis(rng, k, rng.range(10, 13), rng.choice([0.0, 0.1, 0.5, 0.9])))
        t = rng.choice([1, 2])
        cs.append(mk(rng, k, t, rng.choice([0, 1, 251]), esis, CG.rand_data(rng, k * t)))
    # batches (block-level API): the same kind of sets delivered in batches of several packets, with duplicates of
    # already delivered packets placed inside and at the END of batches, before the block is decoded
    for (k, thr, esis) in rng.shuffle(list(chosen))[: 80 if tier == "quick" else 800]:
        bs = CG.split_batches(rng, list(esis))
        seen = []
        for b in bs:
            if seen and rng.below(2) == 0:
                b.append(rng.choice(seen))
            if len(b) > 1 and rng.below(4) == 0:
                b.insert(rng.below(len(b)), rng.choice(b))
            seen += b
        t = rng.choice([1, 2])
        cs.append(CG.sbd_case(rng, k, t, 1, 1, thr, bs, CG.rand_data(rng, k * t)))
    # large blocks (release): decodability and the bytes of a received set must not depend on the matrix back-end
    cases.big = []
    special = [835, 860, 870, 891, 913, 950, 1002, 1236, 1281, 1616, 1640, 1649, 1673, 1698, 2005]
    # always: the block sizes whose dense tail (P = L - W columns) starts as a whole number of 64-bit words
    wordp = [r[0] for r in C.repo_table2()[0] if (r[0] + r[2] + r[3] - r[4]) % 64 == 0 and 250 <= r[0] <= 2700]
    for k in wordp + rng.shuffle(special)[: (4 if tier == "quick" else 15)] + [rng.range(300, 2600) for _ in range(3 if tier == "quick" else 30)]:
        lost = set(rng.shuffle(list(range(k)))[: rng.range(1, 6)])
        rep_ = set()
        while len(rep_) < len(lost) + rng.choice([0, 0, 1]):
            rep_.add(rng.range(k, (1 << 24) - 1))
        esis = rng.shuffle([e for e in range(k) if e not in lost] + sorted(rep_))
        data = CG.rand_data(rng, k)
        cases.big.append((k, [CG.sbd_case(rng, k, 1, 1, 1, thr, [esis[:-1], esis[-1:]], data) for thr in (1, 100000)], data))
    kprime(1)
    cases.solver = solver_cases(rng, tier, chosen)
    # fewer than K symbols / exactly the K source symbols
    for _ in range(20):
        k = CG.small_k(rng, kmax)
        cs.append(mk(rng, k, 1, 0, rng.shuffle(list(range(k))), CG.rand_data(rng, k)))
    return cs + cases.solver


def evaluate(cs, rep, tier):
    solver = [c for c in cs if c.tag == "solver"]
    cs = [c for c in cs if c.tag != "solver"]
    impl, model, dis = G.diff_impl_model(cs, PROFILES, "rank")
    # the solver itself: exact operation lists (and Some/None) of pi_solver.rs on the dense back-end vs its model
    s_impl, s_model, s_dis = G.diff_impl_model(solver, PROFILES, "solver-oplist")
    dis = dis + s_dis
    counter = list(getattr(cases, "screen_bad", []))[:5]
    deficient = full = 0
    for c, i, m in zip(cs, impl, model):
        k, nb = c.args[0], c.args[5]
        ti, tm = i.split(), m.split()
        if tm[0] == "1" and ti[0] != "1":
            # the model answers (None / Some after every batch) and the implementation panics on the same history
            counter.append({"input": c.impl_line()[:800], "expected": "an answer after every batch: " + " ".join(tm[1 : 1 + nb]), "observed": "the implementation panics: " + i[:60], "oracle": "the decoder never gives up on a received set by panicking (the model, proved panic-free, answers)"})
            continue
        if ti[0] != "1" or tm[0] != "1":
            continue
        fi, fm = ti[1 : 1 + nb], tm[1 : 1 + nb]
        for step, (a, b) in enumerate(zip(fi, fm)):
            if (a == "0") != (b == "0"):
                what = "gives up on a decodable set" if a == "0" else "answers for an undecodable set"
                counter.append({"input": c.impl_line()[:800], "expected": f"after packet {step + 1}: {'Some' if b != '0' else 'None'} (rank criterion)", "observed": f"implementation {what}", "oracle": "rank of the constraint matrix over GF(256)"})
                break
        if nb >= k and fm and fm[min(nb, len(fm)) - 1] == "0":
            deficient += 1
        elif nb >= k:
            full += 1
    big = getattr(cases, "big", [])
    if big:
        flat = [c for _, pair, _ in big for c in pair]
        rr = C.run_impl_crashsafe(flat, "release", chunk=2, timeout=900)
        for n, (k, pair, data) in enumerate(big):
            rs, rd = rr[2 * n].split(), rr[2 * n + 1].split()
            inp = pair[0].impl_line()[:300] + " ..."
            if rs[0] != "1" or rd[0] != "1":
                counter.append({"input": inp, "expected": "Some / None", "observed": f"sparse: {rr[2 * n][:40]} dense: {rr[2 * n + 1][:40]}", "profile": "release", "oracle": "the decoder never panics on a received set (K=%d)" % k, "replay_case": pair[0].impl_line()})
            elif rs[1:3] != rd[1:3]:
                counter.append({"input": inp, "expected": "the same Some/None after each batch on both matrix back-ends (decodability is a property of the received set)", "observed": f"sparse {rs[1:3]} dense {rd[1:3]}", "profile": "release", "oracle": "rank criterion: independent of the back-end (K=%d)" % k, "replay_case": pair[0].impl_line()})
            elif rs[2] == "1" and ([int(x) for x in rs[3:]] != data or [int(x) for x in rd[3:]] != data):
                counter.append({"input": inp, "expected": "exactly the block (the set determines it)", "observed": "an answer that is not the block: the solver answered without having solved the received system", "profile": "release", "oracle": "a Some answer is the unique solution (K=%d)" % k, "replay_case": pair[0].impl_line()})
    # disagreements on flags are counterexamples already; keep only the others as correspondence failures
    keys = set(ce["input"] for ce in counter)
    dis = [d for d in dis if d["input"][:800] not in keys]
    return {"disagreements": dis, "counterexamples": counter,
            "stats": {"evaluations": len(cs) * 4 + len(solver) * 4 + getattr(cases, "screen", {}).get("candidates", 0), "distinct_nontrivial": deficient + full,
                      "solver_oplists_compared": len(solver), "solver_singular_systems": sum(1 for r in s_impl if r.split()[:2] == ["1", "0"]),
                      "rank_deficient_sets": deficient, "full_rank_sets": full, "screening": getattr(cases, "screen", {}),
                      "samples": [cs[0].impl_line()[:200] + " ... -> " + impl[0][:50]],
                      "prefixes_compared": sum(c.args[5] for c in cs),
                      "input_distribution": {"large_blocks_both_backends_release": len(big), "sets": len(cs), "rank_deficient": deficient, "full_rank": full}}}


def kernel_ok(c):
    return c.tag != "solver" and c.args[0] <= 12 and len(c.args) < 150


def search(rng, rep, tier, disagreements):
    return evaluate(cases(rng, "thorough"), rep, "thorough")["counterexamples"]
