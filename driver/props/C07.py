"""C07 (partial) -- results depend only on the inputs.  Proved: algorithmic independence (any two successful solves
of one system give the same symbols; success is a property of the system; plan origin; build mode of the matrix
model; kernel dispatch).  Validated here by cross-build correspondence: one seeded workload (encode packets, decode
outcomes and bytes) is run by the real crate in {release, debug-assertions+overflow-checks} x {std, no_std
(default-features = false)}, with the decoder's sparse threshold in {dense, 250, sparse}, and with block encoders built
by new() (warm and cold cache), with_encoding_plan, and direct solves on both back-ends; every result line must be
identical across all of them and equal to the model's.  The kernel axis (AVX-512 / AVX2 / SSSE3 / portable) is C11."""
import common as C
from props import generic as G
from props import codecgen as CG

MAKE_TARGETS = ["Props/C07.vo"]
PROFILES = ("release", "dev")
RULE = ("workload: objects from the C01 generator (Z>1, N>1, padding), block histories with losses and overhead "
        "(incl. >= H symbols so that both solver paths run), repair windows at small and top-of-range ESIs, K on both "
        "sides of the default sparse threshold (K' = 236..257) in the thorough tier; each case is evaluated in 4 builds "
        "x up to 3 thresholds (+ 5 encoder construction variants); non-trivial = a case whose decode uses repair symbols")
TRUSTED = [
    "Coq 8.16.1 kernel + vm_compute",
    "build / CPU / no_std independence is VALIDATED by cross-build runs on this host only (AVX-512 x86_64), not proved",
    "harness/ (std + hooks) and harness_nostd/ (default-features = false, public API only), both built from /repo's working tree",
]
ASSUMPTIONS = ["other CPUs select other kernels: covered by C11's per-kernel theorems and direct kernel runs, not by this workload"]


def cases(rng, tier):
    cs = []
    n = 30 if tier == "quick" else 200
    for i in range(n):
        cfg = CG.obj_config(rng, 700)
        f, t, z, nsub, al = cfg
        data = CG.rand_data(rng, f)
        steps = CG.object_history(rng, f, t, z, extra_choices=(0, 1, 2, 11))
        c = CG.codec_case(rng, cfg, 0, steps, [rng.choice([0, 1, 2]) for _ in steps], data)
        c.tag = "object"
        cs.append(c)
    ks = [5, 10, 11, 26, 40] if tier == "quick" else [5, 10, 11, 26, 40, 101, 236, 242, 248, 249, 250, 257]
    for k in ks:
        for _ in range(3 if tier == "quick" else 2):
            t = rng.choice([1, 3, 8])
            esis = rng.shuffle(CG.block_esis(rng, k, rng.choice([0, 1, 11, 12]), rng.choice([0.0, 0.3, 0.7])))
            b = CG.sbd_case(rng, k, t, 1, 1, 0, CG.split_batches(rng, esis), CG.rand_data(rng, k * t))
            b.tag = "block"
            cs.append(b)
            data = CG.rand_data(rng, k * t)
            w = C.Case("repair_window", [k * t, t, 1, 1, 1, 0, rng.choice([0, 7, (1 << 24) - k - 4]), 3] + data)
            w.tag = "window"
            cs.append(w)
            e = C.Case("enc_packets", [k * t, t, 1, 1, 1, 4] + data)
            e.tag = "encode"
            cs.append(e)
    # receptions made only of heavy repair symbols on the largest block sizes that still use the dense back-end by
    # default: the first phase inactivates far more than 64 columns, so the dense matrix's packed sub-rows span
    # several words (in every build, on both back-ends through the threshold variants below)
    tsizes = [r[0] for r in C.repo_table2()[0] if 150 <= r[0] < 250]
    for k in ([tsizes[-1]] if tier == "quick" else tsizes[-3:]):
        for dmin in (3, 4):
            esis = CG.heavy_esis(rng, k, dmin, rng.choice([0, 1, 2]))
            if esis is None:
                continue
            b = CG.sbd_case(rng, k, 1, 1, 1, 0, [esis[:-1], esis[-1:]], CG.rand_data(rng, k))
            b.tag = "block"
            cs.append(b)
    return cs


def tail_boundary_sizes(limit):
    """K' whose initial dense tail (P = L - W columns) ends on or next to a 64-bit word boundary"""
    out = []
    for kp, j, s, h, w in C.repo_table2()[0]:
        if kp <= limit and (kp + s + h - w) % 64 in (63, 0, 1):
            out.append(kp)
    return out


def with_thr(c, thr):
    a = list(c.args)
    if c.fn == "codec_hist":
        a[5] = thr
    elif c.fn == "sbd_hist":
        a[4] = thr
    return C.Case(c.fn, a, tag=c.tag)


def evaluate(cs, rep, tier):
    ok, out = C.build_harness_nostd(PROFILES)
    if not ok:
        raise RuntimeError("harness_nostd build failed:\n" + out[-2000:])
    impl, model, dis = G.diff_impl_model(cs, PROFILES, "workload")
    counter = []
    results = {("std", p): C.run_impl(cs, p) for p in PROFILES}
    for p in PROFILES:
        results[("no_std", p)] = C.run_impl_nostd(cs, p)
    base = results[("std", "release")]
    for key, res in results.items():
        for c, r0, r1 in zip(cs, base, res):
            if C.canon(r0) != C.canon(r1):
                counter.append({"input": c.impl_line()[:700], "expected": "identical result in every build: " + r0[:120], "observed": f"{key[0]}/{key[1]}: " + r1[:120], "oracle": "cross-build equality"})
                break
    # thresholds (std builds): dense (thr huge), sparse (thr 0 -> parameter 1), default
    dec = [c for c in cs if c.fn in ("codec_hist", "sbd_hist")]
    for thr in (1, 100000):
        for p in PROFILES:
            r = C.run_impl([with_thr(c, thr) for c in dec], p)
            b = C.run_impl(dec, p)
            for c, r0, r1 in zip(dec, b, r):
                if r0 != r1:
                    counter.append({"input": with_thr(c, thr).impl_line()[:700], "expected": "same answers with the " + ("sparse" if thr == 1 else "dense") + " back-end: " + r0[:100], "observed": r1[:100], "profile": p, "oracle": "back-end / threshold independence"})
                    break
    # encoder construction variants
    enc = [c for c in cs if c.tag == "encode"]
    vs = []
    for c in enc:
        t = c.args[1]
        data = c.args[6:]
        for variant, thr in ((0, 0), (1, 0), (2, 0), (2, 1 << 31), (3, 0)):
            vs.append((c, C.Case("variant_packets", [t, variant, thr, c.args[5]] + data)))
    for p in PROFILES:
        vr = C.run_impl([v for _, v in vs], p)
        br = dict(zip([c.key() for c in cs], results[("std", p)]))
        for (c, v), r in zip(vs, vr):
            if r != br[c.key()]:
                counter.append({"input": v.impl_line()[:700], "expected": "packets equal to Encoder::new's: " + br[c.key()][:100], "observed": r[:100], "profile": p, "oracle": "plan origin / cache independence"})
    # multi-block objects: Encoder::new (one plan shared between blocks) vs independently constructed block encoders,
    # with long and short blocks on both sides of a Table-2 row (KL = K' + 1 > KS = K') and inside one row
    ro = C.Rng(C.get_seed()).fork("C07obj")
    from props import C06 as _C06
    kps = [k for k in _C06.kprimes() if k <= (60 if tier == "quick" else 300)]
    oc = []
    for i in range(14 if tier == "quick" else 80):
        z = ro.range(2, 5)
        ks = ro.choice(kps) if i % 2 == 0 else ro.range(2, 40)
        zl = ro.range(1, z - 1)
        kt = zl * (ks + 1) + (z - zl) * ks
        t = ro.choice([1, 2, 4])
        f = kt * t - ro.below(t)
        oc.append(C.Case("enc_packets", [f, t, z, 1, 1, 2] + CG.rand_data(ro, f)))
    for p in PROFILES:
        r1 = C.run_impl(oc, p)
        r2 = C.run_impl([C.Case("enc_packets_per_block", c.args) for c in oc], p)
        for c, x, y in zip(oc, r1, r2):
            if x != y or not x.startswith("1"):
                counter.append({"input": c.impl_line()[:500], "expected": "Encoder::new produces the packets of independently built block encoders: " + y[:80], "observed": x[:80], "profile": p, "oracle": "plan sharing between blocks"})
                break
    # larger blocks whose dense tail starts at a word boundary: sparse vs dense back-end, release build only
    # (the debug profile's solver self-checks make K > 1000 take minutes; the model is not needed for this equality)
    big = tail_boundary_sizes(2000 if tier == "quick" else 7000)
    rb = C.Rng(C.get_seed()).fork("C07big")
    bc = []
    for kp in big:
        data = CG.rand_data(rb, kp)
        esis = [e for e in range(kp) if e not in (1, 5)] + [kp + 3, kp + 40, kp + 1000]
        for variant, thr in ((0, 0), (2, 0), (2, 1 << 31)):
            bc.append((kp, C.Case("variant_packets", [1, variant, thr, 3] + data)))
        for thr in (1, 100000):
            bc.append((kp, CG.sbd_case(rb, kp, 1, 1, 1, thr, [esis], data)))
    br = C.run_impl_crashsafe([c for _, c in bc], "release", chunk=1, timeout=900) if bc else []
    bykp = {}
    for (kp, c), r in zip(bc, br):
        bykp.setdefault((kp, c.fn), []).append((c, r))
    for (kp, fn), lst in bykp.items():
        if len(set(r for _, r in lst)) > 1 or any(r.startswith("0") or r.startswith("CRASH") for _, r in lst):
            c, r = next(((c, r) for c, r in lst if r != lst[0][1] or r.startswith("0") or r.startswith("CRASH")), lst[-1])
            counter.append({"input": c.impl_line()[:300] + " ...", "expected": f"identical result on the sparse and the dense back-end for K' = {kp}: " + lst[0][1][:60], "observed": r[:80], "oracle": "back-end independence at dense-tail word boundaries"})
    # no_std build at block sizes where the packed U rows span several 64-bit words (the portable tail of the binary
    # fused kernel is only reachable in no_std builds on this host): packets and decode vs the std build, release
    nb = []
    for kp in sorted(set([1002, 1281] + big[-2:] if tier == "quick" else [1002, 1281, 1530, 2005, 3015] + big)):
        data = CG.rand_data(rb, kp)
        esis = [e for e in range(kp) if e % 17 != 3] + list(range(kp, kp + kp // 17 + 3))
        nb.append(C.Case("enc_packets", [kp, 1, 1, 1, 1, 5] + data))
        nb.append(CG.sbd_case(rb, kp, 1, 1, 1, 0, [esis], data))
    rs = C.run_impl_crashsafe(nb, "release", chunk=1, timeout=900)
    rn = C.run_impl_nostd(nb, "release")
    for c, a, b in zip(nb, rs, rn):
        if C.canon(a) != C.canon(b) or not a.startswith("1"):
            counter.append({"input": c.impl_line()[:300] + " ...", "expected": "identical result in the std and the no_std build: " + a[:80], "observed": "no_std/release: " + b[:80], "oracle": "cross-build equality (large blocks)"})
    # every CPU-dependent kernel path computes the same bytes (the property's kernel axis; proofs in C11)
    from props import C11 as K
    kc = [c for c in K.cases(C.Rng(C.get_seed()).fork("C07kern"), "quick") if c.fn in ("k_add", "k_mul", "k_fma") and (c.args[2] if c.fn == "k_add" else c.args[3]) % 7 in (0, 3)]
    kres = C.run_impl(kc, "release")
    groups = {}
    for c, r in zip(kc, kres):
        key = (c.fn, tuple(c.args[2:])) if c.fn == "k_add" else (c.fn, tuple(c.args[2:]))
        want = K.elementwise(c)
        tok = r.split()
        if tok[0] != "1" or [int(x) for x in tok[1:-1]] != want:
            counter.append({"input": c.impl_line()[:500], "expected": "the same bytes on every kernel path: " + str(want[:12]), "observed": " ".join(tok[:16]), "oracle": "kernel-path independence (path %d)" % c.args[0]})
            break
    nt = sum(1 for c in cs if c.fn in ("codec_hist", "sbd_hist"))
    return {"disagreements": dis, "counterexamples": counter,
            "stats": {"evaluations": len(cs) * 6 + len(dec) * 8 + len(vs) * 2, "distinct_nontrivial": nt,
                      "tail_boundary_block_sizes": big, "nostd_large_block_cases": len(nb), "shared_plan_objects": len(oc), "kernel_path_cases": len(kc),
                      "builds_compared": [f"{a}/{b}" for a, b in results], "thresholds": ["default 250", "sparse (0)", "dense (99999)"],
                      "encoder_variants": ["new (warm cache)", "with_encoding_plan(generate)", "direct sparse", "direct dense", "new (cold cache)"],
                      "samples": [cs[0].impl_line()[:200] + " ... -> " + base[0][:60]],
                      "input_distribution": {"objects": sum(1 for c in cs if c.tag == "object"), "block_histories": sum(1 for c in cs if c.tag == "block"),
                                             "windows": sum(1 for c in cs if c.tag == "window"), "encodes": len(enc)}}}


def kernel_ok(c):
    return len(c.args) < 150 and c.fn != "codec_hist"


def search(rng, rep, tier, disagreements):
    return evaluate(cases(rng, "thorough"), rep, "thorough")["counterexamples"]
