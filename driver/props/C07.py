"""C07 (partial) -- results depend only on the inputs.  Proved: algorithmic independence (any two successful solves
of one system give the same symbols; success is a property of the system; plan origin; build mode of the matrix
model; kernel dispatch).  Validated here by cross-build correspondence: one seeded workload (encode packets, decode
outcomes and bytes) is run by the real crate in {release, debug-assertions+overflow-checks} x {std, no_std
(default-features = false)}, with the decoder's sparse threshold in {dense, 250, sparse}, and with block encoders built
by new() (warm and cold cache), with_encoding_plan, and direct solves on both back-ends; every result line must be
identical across all of them and equal to the model's.  The kernel axis (AVX-512 / AVX2 / SSSE3 / portable) is C11."""
import common as C
from props import generic as G
from props import codecgen as CG

MAKE_TARGETS = ["Props/C07.vo"]
PROFILES = ("release", "dev")
RULE = ("workload: objects from the C01 generator (Z>1, N>1, padding), block histories with losses and overhead "
        "(incl. >= H symbols so that both solver paths run), repair windows at small and top-of-range ESIs, K on both "
        "sides of the default sparse threshold (K' = 236..257) in the thorough tier; each case is evaluated in 4 builds "
        "x up to 3 thresholds (+ 5 encoder construction variants); non-trivial = a case whose decode uses repair symbols")
TRUSTED = [
    "Coq 8.16.1 kernel + vm_compute",
    "build / CPU / no_std independence is VALIDATED by cross-build runs on this host only (AVX-512 x86_64), not proved",
    "harness/ (std + hooks) and harness_nostd/ (default-features = false, public API only), both built from /repo's working tree",
]
ASSUMPTIONS = ["other CPUs select other kernels: covered by C11's per-kernel theorems and direct kernel runs, not by this workload"]


def cases(rng, tier):
    cs = []
    n = 30 if tier == "quick" else 200
    for i in range(n):
        cfg = CG.obj_config(rng, 700)
        f, t, z, nsub, al = cfg
        data = CG.rand_data(rng, f)
        steps = CG.object_history(rng, f, t, z, extra_choices=(0, 1, 2, 11))
        c = CG.codec_case(rng, cfg, 0, steps, [rng.choice([0, 1, 2]) for _ in steps], data)
        c.tag = "object"
        cs.append(c)
    ks = [5, 10, 11, 26, 40] if tier == "quick" else [5, 10, 11, 26, 40, 101, 236, 242, 248, 249, 250, 257]
    for k in ks:
        for _ in range(3 if tier == "quick" else 2):
            t = rng.choice([1, 3, 8])
            esis = rng.shuffle(CG.block_esis(rng, k, rng.choice([0, 1, 11, 12]), rng.choice([0.0, 0.3, 0.7])))
            b = CG.sbd_case(rng, k, t, 1, 1, 0, CG.split_batches(rng, esis), CG.rand_data(rng, k * t))
            b.tag = "block"
            cs.append(b)
            data = CG.rand_data(rng, k * t)
            w = C.Case("repair_window", [k * t, t, 1, 1, 1, 0, rng.choice([0, 7, (1 << 24) - k - 4]), 3] + data)
            w.tag = "window"
            cs.append(w)
            e = C.Case("enc_packets", [k * t, t, 1, 1, 1, 4] + data)
            e.tag = "encode"
            cs.append(e)
    return cs


def with_thr(c, thr):
    a = list(c.args)
    if c.fn == "codec_hist":
        a[5] = thr
    elif c.fn == "sbd_hist":
        a[4] = thr
    return C.Case(c.fn, a, tag=c.tag)


def evaluate(cs, rep, tier):
    ok, out = C.build_harness_nostd(PROFILES)
    if not ok:
        raise RuntimeError("harness_nostd build failed:\n" + out[-2000:])
    impl, model, dis = G.diff_impl_model(cs, PROFILES, "workload")
    counter = []
    results = {("std", p): C.run_impl(cs, p) for p in PROFILES}
    for p in PROFILES:
        results[("no_std", p)] = C.run_impl_nostd(cs, p)
    base = results[("std", "release")]
    for key, res in results.items():
        for c, r0, r1 in zip(cs, base, res):
            if C.canon(r0) != C.canon(r1):
                counter.append({"input": c.impl_line()[:700], "expected": "identical result in every build: " + r0[:120], "observed": f"{key[0]}/{key[1]}: " + r1[:120], "oracle": "cross-build equality"})
                break
    # thresholds (std builds): dense (thr huge), sparse (thr 0 -> parameter 1), default
    dec = [c for c in cs if c.fn in ("codec_hist", "sbd_hist")]
    for thr in (1, 100000):
        for p in PROFILES:
            r = C.run_impl([with_thr(c, thr) for c in dec], p)
            b = C.run_impl(dec, p)
            for c, r0, r1 in zip(dec, b, r):
                if r0 != r1:
                    counter.append({"input": with_thr(c, thr).impl_line()[:700], "expected": "same answers with the " + ("sparse" if thr == 1 else "dense") + " back-end: " + r0[:100], "observed": r1[:100], "profile": p, "oracle": "back-end / threshold independence"})
                    break
    # encoder construction variants
    enc = [c for c in cs if c.tag == "encode"]
    vs = []
    for c in enc:
        t = c.args[1]
        data = c.args[6:]
        for variant, thr in ((0, 0), (1, 0), (2, 0), (2, 1 << 31), (3, 0)):
            vs.append((c, C.Case("variant_packets", [t, variant, thr, c.args[5]] + data)))
    for p in PROFILES:
        vr = C.run_impl([v for _, v in vs], p)
        br = dict(zip([c.key() for c in cs], results[("std", p)]))
        for (c, v), r in zip(vs, vr):
            if r != br[c.key()]:
                counter.append({"input": v.impl_line()[:700], "expected": "packets equal to Encoder::new's: " + br[c.key()][:100], "observed": r[:100], "profile": p, "oracle": "plan origin / cache independence"})
    nt = sum(1 for c in cs if c.fn in ("codec_hist", "sbd_hist"))
    return {"disagreements": dis, "counterexamples": counter,
            "stats": {"evaluations": len(cs) * 6 + len(dec) * 8 + len(vs) * 2, "distinct_nontrivial": nt,
                      "builds_compared": [f"{a}/{b}" for a, b in results], "thresholds": ["default 250", "sparse (0)", "dense (99999)"],
                      "encoder_variants": ["new (warm cache)", "with_encoding_plan(generate)", "direct sparse", "direct dense", "new (cold cache)"],
                      "samples": [cs[0].impl_line()[:200] + " ... -> " + base[0][:60]],
                      "input_distribution": {"objects": sum(1 for c in cs if c.tag == "object"), "block_histories": sum(1 for c in cs if c.tag == "block"),
                                             "windows": sum(1 for c in cs if c.tag == "window"), "encodes": len(enc)}}}


def kernel_ok(c):
    return len(c.args) < 150 and c.fn != "codec_hist"


def search(rng, rep, tier, disagreements):
    return evaluate(cases(rng, "thorough"), rep, "thorough")["counterexamples"]
