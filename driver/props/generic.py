"""Helpers shared by property plug-ins: run implementation + model + spec oracle and diff."""
import common as C
from fncodes import FN


def model_for_profile(cases, profile):
    """model results; for the dev profile use the Checked-mode entry (prefix chk_) where one exists"""
    if profile == "release":
        return C.run_model(cases)
    chk = [c for c in cases if ("chk_" + c.fn) in FN]
    rel = [c for c in cases if ("chk_" + c.fn) not in FN]
    r1 = C.run_model(chk, prefix="chk_") if chk else []
    r2 = C.run_model(rel) if rel else []
    it1, it2 = iter(r1), iter(r2)
    return [next(it1) if ("chk_" + c.fn) in FN else next(it2) for c in cases]


def diff_impl_model(cases, profiles=("release",), group=""):
    """returns (impl results of the first profile, model results of the first profile, disagreements)"""
    dis = []
    first = None
    first_model = None
    for prof in profiles:
        try:
            impl = C.run_impl(cases, prof)
        except RuntimeError:
            # the implementation process died (abort / segfault): survive it and attribute it to the cases
            impl = C.run_impl_crashsafe(cases, prof)
        model = model_for_profile(cases, prof)
        if first is None:
            first, first_model = impl, model
        for c, i, m in zip(cases, impl, model):
            if C.canon(i) != C.canon(m):
                dis.append({"input": c.impl_line(), "impl": i, "model": m, "profile": prof, "group": group})
    return first, first_model, dis


def all_profiles_impl(cases, profiles):
    out = {}
    for p in profiles:
        try:
            out[p] = C.run_impl(cases, p)
        except RuntimeError:
            out[p] = C.run_impl_crashsafe(cases, p)
    return out


def boundary_values(rng, extra=()):
    """values adjacent to every power of two and limit that appears in the code"""
    vals = set()
    for k in (0, 1, 2, 3, 7, 8, 15, 16, 23, 24, 31, 32, 39, 40, 47, 48, 63, 64):
        for d in (-2, -1, 0, 1, 2):
            v = (1 << k) + d
            if 0 <= v < (1 << 64):
                vals.add(v)
    for lim in (56403, 942574504275, 16777216, 65535, 255, 1048576, 4294967296) + tuple(extra):
        for d in (-2, -1, 0, 1, 2):
            if 0 <= lim + d < (1 << 64):
                vals.add(lim + d)
    return sorted(vals)
