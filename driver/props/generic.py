"""Helpers shared by property plug-ins: run implementation + model + spec oracle and diff."""
import common as C


def diff_impl_model(cases, profiles=("release",), group=""):
    """returns (impl results of the first profile, disagreements)"""
    model = C.run_model(cases)
    dis = []
    first = None
    for prof in profiles:
        impl = C.run_impl(cases, prof)
        if first is None:
            first = impl
        for c, i, m in zip(cases, impl, model):
            if C.canon(i) != C.canon(m):
                dis.append({"input": c.impl_line(), "impl": i, "model": m, "profile": prof, "group": group})
    return first, model, dis
