"""C11 -- bulk kernels equal element-wise field operations.  Every x86 / portable kernel is called directly
through the hook (not only the one runtime dispatch selects on this host), for lengths 0..4*64+1, start alignments
0..63, boundary scalars and adversarial contents, and compared with the kernel models; the real results are also
compared with the element-wise GF(256) definition computed independently here."""
import common as C
from props import generic as G

MAKE_TARGETS = ["Props/C11.vo"]
PROFILES = ("release", "dev")
ISAS = [0, 1, 2, 3, 4]  # avx512, avx2, ssse3, portable, public dispatcher
RULE = ("4 operations x 5 paths (AVX-512, AVX2, SSSE3, portable, dispatcher) x lengths 0..257 (every residue of the "
        "16/32/64-byte strides; thorough: all lengths 0..300) x rotating start alignments 0..63 x scalars "
        "{0,1,2,0x1D,0x80,0xFF,random} x contents {random, 0x00, 0xFF, one-hot}; binary vectors with every padding; "
        "non-trivial = length >= 1 and scalar >= 2 (or add); distinct = distinct case lines.  NEON kernels are not "
        "compiled on this x86_64 host and are not claimed")
TRUSTED = [
    "Coq 8.16.1 kernel + vm_compute",
    "the documented semantics of ~15 x86 intrinsics as transcribed in Model/Kernels.v (validated by these runs, not proved)",
    "extraction (ExtrOcamlBasic only) + ocamlopt; sample cross-checked in the kernel",
    "verif_hooks::kernels wrappers calling each private kernel",
]
ASSUMPTIONS = ["little-endian host for the u32/u64 reinterpretation of the packed bit vector"]

EXP = [0] * 512
LOG = [0] * 256
_x = 1
for _i in range(255):
    EXP[_i] = _x
    LOG[_x] = _i
    _x <<= 1
    if _x & 256:
        _x ^= 0x11D
for _i in range(255, 512):
    EXP[_i] = EXP[_i - 255]


def gmul(a, b):
    return 0 if a == 0 or b == 0 else EXP[LOG[a] + LOG[b]]


def content(rng, n, kind):
    if kind == 0:
        return list(rng.bytes(n))
    if kind == 1:
        return [0] * n
    if kind == 2:
        return [255] * n
    v = [0] * n
    if n:
        v[rng.below(n)] = 1 << rng.below(8)
    return v


def cases(rng, tier):
    cs = []
    lens = list(range(0, 258)) if tier == "quick" else list(range(0, 301)) + [511, 512, 513, 1024, 1316, 4096 + 7]
    scal = [0, 1, 2, 0x1D, 0x80, 0xFF]
    al = 0
    for ln in lens:
        for isa in ISAS:
            al = (al + 7) % 64
            kind = rng.below(4)
            d, s = content(rng, ln, kind if ln % 3 else 0), content(rng, ln, rng.below(4) if ln % 5 else 0)
            c = rng.choice(scal + [rng.range(2, 255)] * 3)
            cs.append(C.Case("k_add", [isa, al, ln] + d + s))
            cs.append(C.Case("k_mul", [isa, al, c, ln] + d))
            # fma: the dispatcher and debug builds reject scalars 0 / 1 (debug_assert); kernels accept them
            cf = c if isa != 4 else (c if c >= 2 else 2)
            cs.append(C.Case("k_fma", [isa, al, cf, ln] + d + s))
            if isa in (0, 1, 3, 4):
                nw = -(-ln // 64)
                wk = rng.below(6)

                def word(kind):
                    return rng.next() if kind == 0 else (0 if kind == 1 else ((1 << 64) - 1 if kind == 2 else (1 << rng.below(64))))

                # kinds 4/5: every word chosen independently (sparse rows: zero words in front of non-zero ones)
                words = [word(wk if wk < 4 else rng.choice([1, 1, 0, 3, 2])) for _ in range(nw)]
                cb = c if c >= 1 else 1
                if isa in (3, 4) and cb == 1 and False:
                    cb = 2
                cs.append(C.Case("k_fmabin", [isa, al, max(cb, 1), ln, nw] + words + d))
        if ln <= 200:
            nw = -(-ln // 64)
            cs.append(C.Case("k_unpack", [ln, nw] + [rng.next() for _ in range(nw)]))
    # malformed: mismatched lengths / wrong word count
    cs.append(C.Case("k_fmabin", [0, 0, 3, 10, 2, 1, 2] + [0] * 10, tag="malformed"))
    return cs


def elementwise(c):
    a = c.args
    if c.fn == "k_add":
        ln = a[2]
        return [x ^ y for x, y in zip(a[3 : 3 + ln], a[3 + ln :])]
    if c.fn == "k_mul":
        return [gmul(a[2], x) for x in a[4 : 4 + a[3]]]
    if c.fn == "k_fma":
        ln = a[3]
        return [x ^ gmul(a[2], y) for x, y in zip(a[4 : 4 + ln], a[4 + ln :])]
    if c.fn == "k_fmabin":
        ln, nw = a[3], a[4]
        words = a[5 : 5 + nw]
        pad = (64 - ln % 64) % 64
        bits = [(words[(pad + i) // 64] >> ((pad + i) % 64)) & 1 for i in range(ln)]
        return [x ^ gmul(a[2], b) for x, b in zip(a[5 + nw : 5 + nw + ln], bits)]
    return None


def evaluate(cases, rep, tier):
    impl, model, dis = G.diff_impl_model(cases, PROFILES, "kernels")
    both = G.all_profiles_impl(cases, PROFILES)
    counter = []
    canary_bad = 0
    for idx, c in enumerate(cases):
        if c.tag == "malformed":
            continue
        want = elementwise(c)
        if want is None:
            continue
        for prof in PROFILES:
            i = both[prof][idx].split()
            if prof == "dev" and c.fn in ("k_fma", "k_fmabin") and c.args[2] in (0, 1) and i[0] == "0":
                continue  # debug_assert on scalars 0/1 in debug builds: not part of the property
            if i[0] != "1" or [int(x) for x in i[1:-1]] != want:
                counter.append({"input": c.impl_line()[:600], "expected": "element-wise GF(256) result " + str(want[:16]), "observed": " ".join(i[:24]), "profile": prof, "oracle": "element-wise definition"})
                break
            if i[-1] != "1":
                canary_bad += 1
                counter.append({"input": c.impl_line()[:600], "expected": "guard bytes intact", "observed": "a byte outside the buffer changed", "profile": prof, "oracle": "canary"})
                break
    uc = [c for c in cases if c.fn == "k_unpack"]
    spec = C.run_model([C.Case("spec_bits", c.args) for c in uc])
    ui = {c.key(): i for c, i in zip(cases, impl)}
    for c, sp in zip(uc, spec):
        if C.canon(ui[c.key()]) != C.canon(sp):
            counter.append({"input": c.impl_line(), "expected": sp[:200], "observed": ui[c.key()][:200], "oracle": "Spec.Bits layout"})
    nt = len(set(c.key() for c in cases if (c.fn == "k_add" and c.args[2] >= 1) or (c.fn != "k_add" and c.fn != "k_unpack" and c.args[3] >= 1 and c.args[2] >= 2)))
    kinds = {}
    for c in cases:
        kinds[c.fn] = kinds.get(c.fn, 0) + 1
    return {"disagreements": dis, "counterexamples": counter,
            "stats": {"evaluations": len(cases) * 4, "distinct_nontrivial": nt, "canary_violations": canary_bad,
                      "samples": [cases[40].impl_line()[:160] + " -> " + impl[40][:100]],
                      "input_distribution": dict(kinds, lengths=len(set(c.args[2] if c.fn == "k_add" else c.args[3] for c in cases if c.fn != "k_unpack")), paths=len(ISAS))}}


def kernel_ok(c):
    return len(c.args) < 120


def search(rng, rep, tier, disagreements):
    return evaluate(cases(rng, "thorough"), rep, "thorough")["counterexamples"]
