"""C12 (partial) -- unsafe code stays inside its buffers.  Decided here: the index logic (theorems over the access
lists of every kernel model, table look-ups, the slab's paired borrow).  Validated, not proved: the real kernels are
run with guard bytes on both sides of every buffer at all 64 start alignments (same runs as C11) and the slab's
paired accesses through random op lists.  Not expressible in the model: pointer provenance, allocator slack,
compiler reordering."""
import common as C
from props import C11 as K
from props import C09 as S
from props import generic as G

MAKE_TARGETS = ["Props/C12.vo", "Props/C10.vo"]
PROFILES = ("release", "dev")
RULE = K.RULE + "; plus slab op lists (paired borrow dest/src) from the C09 generator; non-trivial as in C11"
TRUSTED = K.TRUSTED + ["the access list recorded by each kernel model is the set of loads/stores the real kernel performs (by construction of the model; validated by the guard-byte runs)"]
ASSUMPTIONS = ["runtime memory behaviour (provenance, allocator, reordering) is outside the model: this check is partial"]


def cases(rng, tier):
    return K.cases(rng, tier) + S.slab_cases(rng, tier)


def guard_cases(kc):
    """the kernel cases again, with every operand flush against an inaccessible page (both placements)"""
    out = []
    for c in kc:
        a = c.args
        if c.fn == "k_add":
            isa, ln = a[0], a[2]
            body = [0, isa, None, 0, ln] + a[3:]
        elif c.fn == "k_mul":
            isa, cc, ln = a[0], a[2], a[3]
            body = [1, isa, None, cc, ln] + a[4:]
        elif c.fn == "k_fma":
            isa, cc, ln = a[0], a[2], a[3]
            if isa == 4 and cc < 2:
                continue
            body = [2, isa, None, cc, ln] + a[4:]
        elif c.fn == "k_fmabin":
            isa, cc, ln, nw = a[0], a[2], a[3], a[4]
            body = [3, isa, None, cc, ln, nw] + a[5:]
        else:
            continue
        for place in (0, 1):
            b = list(body)
            b[2] = place
            out.append(C.Case("kg", b, tag=c.fn))
    return out


def mismatched_cases(rng, tier):
    """operands of DIFFERENT length through the public entry points, each flush against a guard page"""
    out = []
    lens = [0, 1, 7, 8, 9, 31, 32, 33, 63, 64, 65, 127, 128, 129, 200]
    for _ in range(60 if tier == "quick" else 600):
        dl = rng.choice(lens)
        sl = rng.choice([x for x in lens if x != dl])
        cc = rng.choice([1, 2, 3, 0x53, 255])
        place = rng.below(2)
        op = rng.choice([4, 5, 6])
        if op == 6:
            nw = -(-sl // 64)
            a = [6, 4, place, cc, dl, sl, nw] + [rng.below(1 << 64) for _ in range(nw)] + [rng.below(256) for _ in range(dl)]
        else:
            a = [op, 4, place, cc, dl, sl] + [rng.below(256) for _ in range(dl + sl)]
        out.append(C.Case("kg", a, tag="mismatch"))
    return out


def evaluate(cases, rep, tier):
    kc = [c for c in cases if c.fn.startswith("k_")]
    sc = [c for c in cases if c.fn == "slab_replay"]
    res = K.evaluate(kc, rep, tier)
    counter = [c for c in res["counterexamples"] if c.get("oracle") == "canary"]
    # element-wise mismatches are C11's business; here they still mean the access model is not validated
    other = [c for c in res["counterexamples"] if c.get("oracle") != "canary"]
    # guard pages: an access outside an operand faults even when it rewrites identical bytes
    gc = guard_cases([c for c in kc if c.tag != "malformed"]) + mismatched_cases(C.Rng(C.get_seed()).fork("C12mis"), tier)
    crashes = 0
    refused = 0
    for prof in PROFILES:
        gres = C.run_impl_crashsafe(gc, prof)
        for c, r in zip(gc, gres):
            if r.startswith("CRASH"):
                crashes += 1
                counter.append({"input": c.impl_line()[:600], "expected": "no access outside the operands", "observed": "the process died with signal %s on a guard page (operands placed at the %s of their mappings)" % (r.split()[1].lstrip("-"), "end" if c.args[2] == 0 else "start"), "profile": prof, "oracle": "guard pages"})
            elif c.tag == "mismatch":
                # the dispatchers assert equal lengths (Model/Kernels.v: PAssert): anything but a refusal means
                # the kernel ran over operands of different length
                if r.startswith("0"):
                    refused += 1
                else:
                    counter.append({"input": c.impl_line()[:600], "expected": "a refusal (panic): the operands have different lengths", "observed": "returned normally: " + r[:60], "profile": prof, "oracle": "length guard of the public kernel entry points"})
        if len(counter) > 5:
            break
    # slab op lists: crash-safe (a bypassed guard corrupts the heap and may abort the process)
    model_s = C.run_model(sc)
    impl_s = C.run_impl_crashsafe(sc, "release")
    dis_s = []
    for c, i, m in zip(sc, impl_s, model_s):
        if i.startswith("CRASH"):
            counter.append({"input": c.impl_line()[:600], "expected": "panic or result, memory intact", "observed": "the process was killed (signal %s): heap corruption / invalid access" % i.split()[1].lstrip("-"), "oracle": "process survives"})
        elif C.canon(i) != C.canon(m):
            dis_s.append({"input": c.impl_line(), "impl": i, "model": m, "profile": "release", "group": "slab"})
    # a paired borrow whose guard the model fires (dest = src after mapping, index beyond count) must panic
    for c, i, m in zip(sc, impl_s, model_s):
        if m.startswith("0") and not i.startswith("0"):
            counter.append({"input": c.impl_line()[:600], "expected": "panic (the paired borrow's guards refuse these indices)", "observed": i[:80], "oracle": "get_pair_mut guards"})
    # the two-slices-of-one-vector helpers (util::get_both_ranges / get_both_indices, used by the dense matrix's row
    # addition and row swap): a row index beyond the matrix must be REFUSED in every profile, never turned into an
    # access outside the word vector (the helpers are safe code today; written with raw pointers they would only be
    # guarded by debug assertions)
    def enc_ops(ops):
        out = []
        for o in ops:
            out += [len(o)] + o
        return out
    rm = C.Rng(C.get_seed()).fork("C12rows")
    mis = []
    for _ in range(24 if tier == "quick" else 200):
        h, w = rm.choice([1, 2, 5, 64, 100]), rm.choice([1, 63, 64, 65, 130, 700])
        far = h + rm.choice([0, 1, 2, 7, 64, 1000, 100000])
        good = rm.below(h)
        ops = [[1, rm.below(h), rm.below(w), 1] for _ in range(3)]
        bad = rm.choice([[5, far, good, 0], [5, good, far, 0], [3, far, good], [3, good, far], [5, far, far + 1, 0]])
        # DenseBinaryMatrix::new allocates h*(w+63)/64 words (more than h*ceil(w/64) in general): a row just beyond
        # the matrix may still lie inside the allocation, where release builds do not check it (no memory is touched
        # outside the vector, so C12 has nothing to say); only rows beyond the ALLOCATION must be refused
        rw, alloc = (w + 63) // 64, h * (w + 63) // 64
        if (max(bad[1], bad[2]) + 1) * rw <= alloc:
            continue
        mis.append(C.Case("bm_dense", [h, w, 0, len(ops) + 1] + enc_ops(ops + [bad]), tag="row_out_of_range"))
    row_refused = 0
    for prof in PROFILES:
        for c, r in zip(mis, C.run_impl_crashsafe(mis, prof, chunk=6, timeout=300)):
            if r.startswith("CRASH"):
                counter.append({"input": c.impl_line(), "expected": "a refusal (panic) for a row index beyond the matrix", "observed": "the process died: " + r, "profile": prof, "oracle": "C12: row helpers stay inside the word vector"})
            elif not r.rstrip().endswith(" 1 0"):
                counter.append({"input": c.impl_line(), "expected": "a refusal (panic) for a row index beyond the matrix", "observed": "returned normally: " + r[-40:], "profile": prof, "oracle": "C12: row helpers stay inside the word vector"})
            else:
                row_refused += 1
    st = res["stats"]
    st["out_of_range_row_calls_refused"] = row_refused
    st["evaluations"] += len(sc) * 4
    st["slab_replays"] = len(sc)
    st["guard_page_runs"] = len(gc)
    st["guard_page_faults"] = crashes
    st["mismatched_length_calls_refused"] = refused
    st["evaluations"] += len(gc)
    return {"disagreements": res["disagreements"] + dis_s + [{"input": o["input"], "impl": o["observed"], "model": o["expected"], "group": "kernels"} for o in other[:3]],
            "counterexamples": counter, "stats": st}


kernel_ok = K.kernel_ok


def search(rng, rep, tier, disagreements):
    return []
