"""C12 (partial) -- unsafe code stays inside its buffers.  Decided here: the index logic (theorems over the access
lists of every kernel model, table look-ups, the slab's paired borrow).  Validated, not proved: the real kernels are
run with guard bytes on both sides of every buffer at all 64 start alignments (same runs as C11) and the slab's
paired accesses through random op lists.  Not expressible in the model: pointer provenance, allocator slack,
compiler reordering."""
import common as C
from props import C11 as K
from props import C09 as S
from props import generic as G

MAKE_TARGETS = ["Props/C12.vo", "Props/C10.vo"]
PROFILES = ("release", "dev")
RULE = K.RULE + "; plus slab op lists (paired borrow dest/src) from the C09 generator; non-trivial as in C11"
TRUSTED = K.TRUSTED + ["the access list recorded by each kernel model is the set of loads/stores the real kernel performs (by construction of the model; validated by the guard-byte runs)"]
ASSUMPTIONS = ["runtime memory behaviour (provenance, allocator, reordering) is outside the model: this check is partial"]


def cases(rng, tier):
    return K.cases(rng, tier) + S.slab_cases(rng, tier)


def evaluate(cases, rep, tier):
    kc = [c for c in cases if c.fn.startswith("k_")]
    sc = [c for c in cases if c.fn == "slab_replay"]
    res = K.evaluate(kc, rep, tier)
    counter = [c for c in res["counterexamples"] if c.get("oracle") == "canary"]
    # element-wise mismatches are C11's business; here they still mean the access model is not validated
    other = [c for c in res["counterexamples"] if c.get("oracle") != "canary"]
    impl_s, model_s, dis_s = G.diff_impl_model(sc, PROFILES, "slab")
    st = res["stats"]
    st["evaluations"] += len(sc) * 4
    st["slab_replays"] = len(sc)
    return {"disagreements": res["disagreements"] + dis_s + [{"input": o["input"], "impl": o["observed"], "model": o["expected"], "group": "kernels"} for o in other[:3]],
            "counterexamples": counter, "stats": st}


kernel_ok = K.kernel_ok


def search(rng, rep, tier, disagreements):
    return []
