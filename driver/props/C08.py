"""C08 -- decoder outcome independent of order, duplication, batching.  Histories (permutations with repetitions,
arbitrary batch boundaries on the block API, interleaved blocks, continuation after completion, clones, the
incremental vs one-shot API) are run on the real Decoder / SourceBlockDecoder and the model step by step; in
addition, different histories of the SAME packet set must end in the same answer on the real code."""
import common as C
from props import generic as G
from props import codecgen as CG

MAKE_TARGETS = ["Props/C08.vo"]
PROFILES = ("release", "dev")
RULE = ("object histories over configurations with Z in 1..4, N >= 1, F not a multiple of T: per block K+h symbols "
        "(h in -1..2, source/repair mixes, repair ESIs over the 24-bit range), blocks interleaved, duplicates, "
        "re-delivery after completion; each set is replayed as 3 variants (API kinds decode / add+get_result / clone, "
        "another permutation with other duplicates); block-level histories with random batch boundaries vs one by "
        "one; non-trivial = the history contains a duplicate or a post-completion packet or Z > 1")
TRUSTED = [
    "Coq 8.16.1 kernel + vm_compute",
    "the decoder model solves with the reference Gaussian elimination (Spec.Linear); the real solver's Some/None and symbols are compared, not proved equal (C01/C02/C06 carry the certificates)",
    "derive(Clone) is a deep copy (clone = identity in the functional model)",
    "extraction (ExtrOcamlBasic only) + ocamlopt; sample cross-checked in the kernel",
]
ASSUMPTIONS = ["packets are the encoder's own (a packet id always carries the same payload)"]


def cases(rng, tier):
    cs = []
    groups = []
    n = 25 if tier == "quick" else 250
    for g in range(n):
        cfg = CG.obj_config(rng, 700 if tier == "quick" else 1500)
        f, t, z, nsub, al = cfg
        data = CG.rand_data(rng, f)
        base = CG.object_history(rng, f, t, z, extra_choices=(-1, 0, 0, 1, 2, 10, 12))
        setp = sorted(set(base))
        thr = rng.choice([0, 0, 1, 251])
        variants = []
        # variant 0: as generated, one-shot API
        variants.append(CG.codec_case(rng, cfg, thr, base, [0] * len(base), data))
        # variant 1: another permutation with other duplicates, incremental API and clones mixed in
        perm = rng.shuffle(setp)
        perm2 = []
        for p in perm:
            perm2.append(p)
            if rng.below(5) == 0:
                perm2.append(rng.choice(perm2))
        variants.append(CG.codec_case(rng, cfg, thr, perm2, [rng.choice([0, 1, 1, 2]) for _ in perm2], data))
        # variant 2: block by block (no interleaving), reversed
        byblk = sorted(setp, key=lambda p: (p[0], -p[1]))
        variants.append(CG.codec_case(rng, cfg, thr, byblk, [1] * len(byblk), data))
        for v in variants:
            v.tag = f"set{g}"
        cs += variants
        groups.append((variants, data))
    # block API: same set in random batches vs one at a time
    for g in range(n):
        k = CG.small_k(rng, 40)
        al = rng.choice([1, 1, 2, 4])
        t = al * rng.choice([1, 2, 3, 5, 7])
        nsub = rng.choice([1, 1, 2, 3, t // al])
        nsub = max(1, min(nsub, t // al))
        esis = CG.block_esis(rng, k, rng.choice([-1, 0, 0, 1, 2, 10, 11, 14]), rng.choice([0.1, 0.3, 0.6]))
        data = CG.rand_data(rng, k * t)
        if not esis:
            esis = [0]
        e1 = rng.shuffle(esis)
        e2 = rng.shuffle(esis + [rng.choice(esis)])
        thr = rng.choice([0, 1, 251])
        a = CG.sbd_case(rng, k, t, nsub, al, thr, CG.split_batches(rng, e1), data)
        b = CG.sbd_case(rng, k, t, nsub, al, thr, CG.split_batches(rng, e2, one_by_one=True), data)
        c = CG.sbd_case(rng, k, t, nsub, al, thr, [e1], data)
        for v in (a, b, c):
            v.tag = f"blk{g}"
        cs += [a, b, c]
        groups.append(([a, b, c], data))
    cases.groups = groups
    return cs


def final_answer(case, line):
    t = line.split()
    if t[0] != "1":
        return "panic"
    if case.fn == "codec_hist":
        n = case.args[6]
    else:
        n = case.args[5]
    flags = t[1 : 1 + n]
    rest = t[1 + n :]
    return (flags[-1] if flags else "0", tuple(rest)), flags


def evaluate(cs, rep, tier):
    impl, model, dis = G.diff_impl_model(cs, PROFILES, "history")
    res = dict(zip([c.key() for c in cs], impl))
    counter = []
    for variants, data in getattr(cases, "groups", []):
        finals = []
        for v in variants:
            fa = final_answer(v, res[v.key()])
            if fa == "panic":
                counter.append({"input": v.impl_line()[:600], "expected": "no panic on the encoder's own packets", "observed": res[v.key()], "oracle": "C08"})
                continue
            (last, payload), flags = fa
            if "9" in flags:
                counter.append({"input": v.impl_line()[:600], "expected": "every later answer identical to the first", "observed": " ".join(flags), "oracle": "stability"})
            seen = False
            for fl in flags:
                if fl == "1":
                    seen = True
                elif seen:
                    counter.append({"input": v.impl_line()[:600], "expected": "once Some, always Some", "observed": " ".join(flags), "oracle": "stability"})
                    break
            if last == "1" and list(map(int, payload)) != data:
                counter.append({"input": v.impl_line()[:600], "expected": "the original bytes", "observed": " ".join(payload[:40]), "oracle": "answer = object"})
            finals.append(last)
        if len(set(finals)) > 1:
            counter.append({"input": " | ".join(v.impl_line()[:200] for v in variants), "expected": "same final answer for the same packet set", "observed": str(finals), "oracle": "set determinacy"})
    nt = len(set(c.key() for c in cs))
    return {"disagreements": dis, "counterexamples": counter,
            "stats": {"evaluations": len(cs) * 4, "distinct_nontrivial": nt,
                      "samples": [cs[1].impl_line()[:240] + " ... -> " + impl[1][:60]],
                      "steps_compared": sum(c.args[6] if c.fn == "codec_hist" else c.args[5] for c in cs),
                      "input_distribution": {"object_histories": sum(1 for c in cs if c.fn == "codec_hist"), "block_histories": sum(1 for c in cs if c.fn == "sbd_hist"),
                                             "Z>1": sum(1 for c in cs if c.fn == "codec_hist" and c.args[2] > 1), "decoded": sum(1 for c, i in zip(cs, impl) if final_answer(c, i) != "panic" and final_answer(c, i)[0][0] == "1")}}}


def kernel_ok(c):
    return len(c.args) < 300 and (c.args[0] if c.fn == "sbd_hist" else 99) <= 12


def search(rng, rep, tier, disagreements):
    return evaluate(cases(rng, "thorough"), rep, "thorough")["counterexamples"]
