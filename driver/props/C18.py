"""C18 -- the repair stream is addressed consistently.  On the real encoder: a window (s, n) equals the n single
requests, overlapping windows agree, encoders built through the three constructors (cache, explicit plan,
regenerated plan) are interchangeable, the per-object list is source ESI 0..K-1 then repair K.. per block in order
with distinct ids, and ids up to 2^24-1 are producible (one past is refused).  All compared with the model too."""
import common as C
from props import generic as G
from props import codecgen as CG

MAKE_TARGETS = ["Props/C18.vo"]
PROFILES = ("release", "dev")
RULE = ("blocks with K in 1..40, windows (s, n) with s random, small, and at the top of the range (K+s+n = 2^24 and "
        "2^24+1 as the malformed stream), each window checked against its singles and an overlapping window; "
        "multi-block objects for the per-object order; non-trivial = n >= 2; distinct = distinct case lines")
TRUSTED = [
    "Coq 8.16.1 kernel + vm_compute",
    "plan generation is deterministic on the real code: compared across constructors here (a correspondence fact, not a theorem)",
    "extraction (ExtrOcamlBasic only) + ocamlopt; sample cross-checked in the kernel",
]
ASSUMPTIONS = []


def cases(rng, tier):
    cs = []
    groups = []
    for _ in range(40 if tier == "quick" else 400):
        k = CG.small_k(rng, 40)
        t = rng.choice([1, 2, 4, 7])
        data = CG.rand_data(rng, k * t)
        top = (1 << 24) - k
        s = rng.choice([0, 1, rng.below(1000), rng.below(top - 8), top - 6, top - 3])
        n = rng.range(2, 5)
        n = min(n, top - s)
        hdr = [k * t, t, 1, 1, 1, 0]
        w = C.Case("repair_window", hdr + [s, n] + data)
        singles = [C.Case("repair_window", hdr + [s + i, 1] + data) for i in range(n)]
        o = C.Case("repair_window", hdr + [s + 1, n] + data) if s + 1 + n <= top else None
        groups.append((w, singles, o, k, t))
        cs += [w] + singles + ([o] if o else [])
        if rng.below(4) == 0:
            bad = C.Case("repair_window", hdr + [top - 1, 2] + data, tag="malformed")
            cs.append(bad)
    # one very long window (an in-window offset narrowed to 16 bits wraps beyond 65536 packets)
    k, t = 6, 1
    data = CG.rand_data(rng, k * t)
    hdr = [k * t, t, 1, 1, 1, 0]
    big_n = 65536 + rng.range(3, 40)
    bigw = C.Case("repair_window", hdr + [5, big_n] + data, tag="long_window")
    probes = [0, 1, 65535, 65536, 65537, big_n - 1]
    bigs = [C.Case("repair_window", hdr + [5 + i, 1] + data) for i in probes]
    cases.long = (bigw, bigs, probes, k, t)
    cs += [bigw] + bigs
    for i in range(40 if tier == "quick" else 300):
        f, t, z, nsub, al = CG.obj_config(rng, 500)
        if i % 2 == 0:
            # uneven partition: blocks of different sizes (long blocks first)
            t = al * rng.range(1, 4)
            z = rng.range(2, 5)
            kt = z * rng.range(2, 9) + rng.range(1, z - 1)
            f = kt * t - rng.below(t)
            nsub = 1
        m = C.Case("enc_packets", [f, t, z, nsub, al, rng.range(1, 4)] + (CG.structured_data(rng, f, t, z) if i % 4 == 1 or (i % 4 == 2 and z > 1) else CG.rand_data(rng, f)))
        m.tag = "object"
        cs.append(m)
    # multi-block objects whose blocks all have the same size AND the same bytes (zero-filled / periodic objects)
    for _ in range(6 if tier == "quick" else 40):
        t = rng.choice([1, 2, 4, 8])
        z = rng.range(2, 5)
        kb = rng.range(2, 12)
        f = z * kb * t
        blk = rng.choice([[0] * (kb * t), list(rng.bytes(kb * t))])
        m = C.Case("enc_packets", [f, t, z, 1, 1, rng.range(1, 3)] + blk * z)
        m.tag = "object"
        cs.append(m)
    # a per-object request for more repair packets than a block may have SOURCE symbols (56403 bounds K, not K + n)
    hm = C.Case("enc_packets", [19, 1, 2, 1, 1, 56400] + CG.rand_data(rng, 19))
    hm.tag = "huge_object"
    cases.huge = hm
    for _ in range(10 if tier == "quick" else 60):
        k = CG.small_k(rng, 60)
        t = rng.choice([1, 3, 8])
        v = C.Case("plan_variants", [t, 4] + CG.rand_data(rng, k * t))
        v.tag = "variants"
        cs.append(v)
    cases.groups = groups
    return cs


def pk(line, t):
    v = line.split()
    if v[0] != "1":
        return None
    v = [int(x) for x in v[1:]]
    return [(v[i], v[i + 1], tuple(v[i + 2 : i + 2 + t])) for i in range(0, len(v), t + 2)]


def evaluate(cs, rep, tier):
    plain = [c for c in cs if c.tag != "variants"]
    impl, model, dis = G.diff_impl_model(plain, PROFILES, "windows")
    # a request the model (= the RFC stream, proved producible for every id below 2^24) answers and on which the
    # implementation panics in some build is a counterexample of its own: that id is not producible there
    panics = [d for d in dis if str(d.get("impl", "")).split()[:1] != ["1"] and str(d.get("model", "")).split()[:1] == ["1"]]
    res = dict(zip([c.key() for c in plain], impl))
    counter = []
    for d in panics[:3]:
        counter.append({"input": d["input"][:600], "expected": "the packets of the RFC stream (model): " + str(d["model"])[:80], "observed": "the implementation panics: " + str(d["impl"])[:60], "profile": d.get("profile"), "oracle": "C18: every requested window of ids below 2^24 is producible, in every build"})
    for w, singles, o, k, t in getattr(cases, "groups", []):
        pw = pk(res[w.key()], t)
        ps = [pk(res[s.key()], t) for s in singles]
        if pw is None or any(p is None for p in ps):
            counter.append({"input": w.impl_line()[:600], "expected": "every id below 2^24 producible", "observed": res[w.key()][:60], "oracle": "producible"})
            continue
        if any(len(p) != 1 for p in ps) or len(pw) != len(singles):
            counter.append({"input": w.impl_line()[:600], "expected": f"{len(singles)} packets in the window and one per single request", "observed": f"window has {len(pw)}, singles have {[len(p) for p in ps]}", "oracle": "every id below 2^24 producible"})
            continue
        if pw != [p[0] for p in ps]:
            counter.append({"input": w.impl_line()[:600], "expected": "window = concatenation of its single-packet requests", "observed": "differs", "oracle": "window vs singles"})
        s0 = w.args[6]
        if [p[:2] for p in pw] != [(0, k + s0 + i) for i in range(len(pw))]:
            counter.append({"input": w.impl_line()[:600], "expected": "ids (0, K+s+i)", "observed": str([p[:2] for p in pw]), "oracle": "ids"})
        if o is not None:
            po = pk(res[o.key()], t)
            if po is None or po[:-1] != pw[1:]:
                counter.append({"input": o.impl_line()[:600], "expected": "overlapping windows agree", "observed": "differ", "oracle": "overlap"})
    if getattr(cases, "long", None):
        bigw, bigs, probes, k, t = cases.long
        pw = pk(res[bigw.key()], t)
        for i, sc in zip(probes, bigs):
            ps = pk(res[sc.key()], t)
            if pw is None or ps is None or pw[i] != ps[0]:
                counter.append({"input": sc.impl_line()[:300] + " vs " + " ".join(bigw.impl_line().split()[:9]), "expected": f"packet {i} of the long window equals the single request", "observed": "differs", "oracle": "window vs singles (long window)"})
                break
    for c in plain:
        if c.tag == "malformed" and not res[c.key()].startswith("0"):
            counter.append({"input": c.impl_line()[:600], "expected": "an encoding symbol id of 2^24 is refused", "observed": res[c.key()][:60], "oracle": "id limit"})
        if c.tag == "object":
            f, t, z = c.args[0], c.args[1], c.args[2]
            p = pk(res[c.key()], t)
            ks = CG.block_sizes(f, t, z)
            want = [(sbn, e) for sbn, k in enumerate(ks) for e in range(k + c.args[5])]
            if p is None or [x[:2] for x in p] != want:
                counter.append({"input": c.impl_line()[:600], "expected": "per block in order: source ESI 0..K-1 then repair ESI K..", "observed": str([x[:2] for x in (p or [])][:12]), "oracle": "object order"})
    hm = getattr(cases, "huge", None)
    if hm is not None:
        r = C.run_impl([hm], "release")[0]
        p = pk(r, 1)
        want = [(sbn, e) for sbn, k in enumerate([10, 9]) for e in range(k + 56400)]
        if p is None or [x[:2] for x in p] != want:
            counter.append({"input": " ".join(hm.impl_line().split()[:7]) + " <19 data bytes>", "expected": "per block the K source packets and then exactly the 56400 requested repair packets", "observed": "%s packets" % (len(p) if p else r[:40]), "oracle": "object order with many repair packets"})
    var = [c for c in cs if c.tag == "variants"]
    vres = C.run_impl(var, "release") if var else []
    for c, r in zip(var, vres):
        if r.split()[:2] != ["1", "1"]:
            counter.append({"input": c.impl_line()[:600], "expected": "encoders from new / with_encoding_plan(generate) / a second generated plan are equal", "observed": r[:80], "oracle": "plans interchangeable"})
    return {"disagreements": dis, "counterexamples": counter,
            "stats": {"evaluations": len(plain) * 4 + len(var), "distinct_nontrivial": len(getattr(cases, "groups", [])),
                      "samples": [plain[0].impl_line()[:160] + " ... -> " + impl[0][:60]],
                      "input_distribution": {"windows": len(getattr(cases, "groups", [])), "objects": sum(1 for c in cs if c.tag == "object"), "plan_variant_sets": len(var), "top_of_range": sum(1 for g in getattr(cases, "groups", []) if g[0].args[6] > (1 << 24) - 100)}}}


def kernel_ok(c):
    return c.tag not in ("variants", "long_window") and c.args[0] <= 14 and len(c.args) < 120


def search(rng, rep, tier, disagreements):
    return evaluate(cases(rng, "thorough"), rep, "thorough")["counterexamples"]
