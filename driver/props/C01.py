"""C01 -- decoding never returns anything but the original object.  Whole encode -> erase/reorder/duplicate -> decode
histories on the real Encoder/Decoder for valid (F,T,Z,N,Al) incl. F not a multiple of T, multi-block, sub-blocks;
every answer must be 'not yet' or exactly the object; all-source delivery must complete.  Compared step by step with
the model (whose decoder solves with the reference elimination), in release and debug profiles and with the sparse
and dense back-ends (threshold 0 / default / huge)."""
import common as C
from props import generic as G
from props import codecgen as CG

MAKE_TARGETS = ["Props/C01.vo", "Props/C01u.vo", "Props/C01s.vo"]
PROPS = ["C01", "C01u", "C01s"]
PROFILES = ("release", "dev")
RULE = ("configurations from a generator biased to Z > 1, N > 1, padding; packet multisets: per block K+h symbols, "
        "h in {-1,0,1,2}, source fraction in {0, .2, .5, 1}, repair ESIs anywhere below 2^24 (incl. the top of the range), "
        "duplicates, interleaving; plus 'all source packets' histories in random order; single-byte and single-symbol "
        "objects; non-trivial = at least one block is decoded from repair symbols; distinct = distinct histories")
TRUSTED = [
    "Coq 8.16.1 kernel + vm_compute",
    "the model encoder's intermediate symbols are the reference solution of the encoding system; that the real plans produce the same symbols is the certificate theorem of C06 (in-kernel for the K' covered there) and this correspondence elsewhere",
    "extraction (ExtrOcamlBasic only) + ocamlopt; sample cross-checked in the kernel",
    "harness rqh: Encoder::new / Decoder::decode through the public API (+ set_sparse_threshold from the benchmarking feature)",
]
ASSUMPTIONS = ["packets delivered are exactly packets the encoder produced for that object (no corruption)"]


def cases(rng, tier):
    cs = []
    n = 60 if tier == "quick" else 600
    for i in range(n):
        if i < 4:
            cfg = [(1, 1, 1, 1, 1), (1, 8, 1, 1, 8), (7, 16, 1, 4, 4), (10, 1, 1, 1, 1)][i]
        else:
            cfg = CG.obj_config(rng, 800 if tier == "quick" else 2500)
        f, t, z, nsub, al = cfg
        data = CG.structured_data(rng, f, t, z) if i % 5 == 4 else CG.rand_data(rng, f)
        thr = rng.choice([0, 1, 251, 100000])
        steps = CG.object_history(rng, f, t, z, extra_choices=(-1, 0, 0, 1, 2, 10, 11, 12))
        c = CG.codec_case(rng, cfg, thr, steps, [rng.choice([0, 0, 1]) for _ in steps], data)
        c.tag = "mixed"
        cs.append(c)
        if i % 3 == 0:
            ks = CG.block_sizes(f, t, z)
            allsrc = rng.shuffle([(sbn, e) for sbn, k in enumerate(ks) for e in range(k)])
            c2 = CG.codec_case(rng, cfg, thr, allsrc, [0] * len(allsrc), data)
            c2.tag = "all_source"
            cs.append(c2)
    # repair-only receptions of small blocks (no padding where K is a table size): the solver's r >= 3 steps
    cases.blocks = []
    for _ in range(250 if tier == "quick" else 4000):
        k = rng.choice([3, 4, 5, 6, 7, 8, 9, 10, 12, 18, 20, 26])
        t = rng.choice([1, 2, 4, 16, 32])
        esis = rng.shuffle(CG.block_esis(rng, k, rng.choice([0, 0, 1, 2]), 0.0))
        data = CG.rand_data(rng, k * t)
        cases.blocks.append((CG.sbd_case(rng, k, t, 1, 1, rng.choice([0, 1]), [esis], data), data))
    # one batch with at least H symbols of overhead and SEVERAL lost source symbols: the binary-only path (no HDPC
    # rows) rebuilds every lost symbol itself
    for _ in range(120 if tier == "quick" else 1500):
        k = rng.choice([4, 6, 10, 12, 13, 20, 26, 27, 40])
        t = rng.choice([1, 2, 3, 8])
        nlost = rng.range(2, max(2, min(6, k - 1)))
        lost = set(rng.shuffle(list(range(k)))[:nlost])
        rep_ = set()
        while len(rep_) < nlost + rng.range(10, 14):
            rep_.add(rng.choice([k + rng.below(40), rng.range(k, (1 << 24) - 1)]))
        esis = rng.shuffle([e for e in range(k) if e not in lost] + sorted(rep_))
        data = CG.rand_data(rng, k * t)
        cases.blocks.append((CG.sbd_case(rng, k, t, 1, 1, rng.choice([0, 1, 100000]), [esis], data), data))
    # receptions made only of symbols of LT degree >= 3 / 4 / 6: every remaining row is heavy, so the first phase
    # takes its r >= 3 and r >= 4 steps (column swaps of more than two ones), unreachable by ordinary receptions
    for _ in range(150 if tier == "quick" else 3000):
        k = rng.choice([10, 12, 18, 20, 26])
        esis = CG.heavy_esis(rng, k, rng.choice([3, 4, 4, 6, 6]), rng.choice([0, 0, 1, 2]))
        if esis is None:
            continue
        t = rng.choice([1, 2, 16, 32])
        data = CG.rand_data(rng, k * t)
        cases.blocks.append((CG.sbd_case(rng, k, t, 1, 1, rng.choice([0, 1]), [esis], data), data))
    # large blocks on the sparse back-end (release profile only: the debug solver's self-checks are O(L^2) per
    # step): above ~800 symbols the dense tail of the sparse matrix spans several 64-bit words per row and the
    # inactivated part exceeds 64 columns; block sizes whose P = L - W is a multiple of 64, and sizes around the
    # places where the number of inactivated columns crosses a word boundary, are always included
    cases.big = []
    special = [835, 860, 870, 891, 913, 950, 1002, 1236, 1281, 1616, 1640, 1649, 1673, 1698, 2005]
    wordp = [r[0] for r in C.repo_table2()[0] if (r[0] + r[2] + r[3] - r[4]) % 64 == 0 and 250 <= r[0] <= 7000]
    ks = wordp + rng.shuffle(special)[: (4 if tier == "quick" else 15)] + [rng.range(830, 3000) for _ in range(4 if tier == "quick" else 40)]
    ks += [rng.choice([6589, 6655, 5008, 10002, 14862])] if tier == "quick" else [6589, 6655, 14862, 26291, 56403]
    for k in ks:
        t = rng.choice([1, 1, 2, 4])
        lost = set(rng.shuffle(list(range(k)))[: rng.range(1, 8)])
        rep_ = set()
        while len(rep_) < len(lost) + rng.choice([0, 0, 1, 2]):
            rep_.add(rng.choice([k + rng.below(64), rng.range(k, (1 << 24) - 1)]))
        esis = rng.shuffle([e for e in range(k) if e not in lost] + sorted(rep_))
        data = CG.rand_data(rng, k * t)
        thr = 0 if k > 1700 else rng.choice([0, 0, 1, 100000])
        cases.big.append((CG.sbd_case(rng, k, t, 1, 1, thr, [esis[:-1], esis[-1:]], data), data))
    return cs


def evaluate(cs, rep, tier):
    impl, model, dis = G.diff_impl_model(cs, PROFILES, "codec")
    both = G.all_profiles_impl(cs, PROFILES)
    counter = []
    blocks = getattr(cases, "blocks", [])
    if blocks:
        bres = G.all_profiles_impl([c for c, _ in blocks], PROFILES)
        for prof in PROFILES:
            for (c, data), r in zip(blocks, bres[prof]):
                t = r.split()
                if t[0] != "1":
                    counter.append({"input": c.impl_line()[:700], "expected": "None or the block", "observed": "panic / crash: " + r[:60], "profile": prof, "oracle": "C01 (repair-only reception)"})
                    break
                if t[1] == "1" and [int(x) for x in t[2:]] != data:
                    counter.append({"input": c.impl_line()[:700], "expected": "exactly the block", "observed": "different bytes", "profile": prof, "oracle": "C01 (repair-only reception)"})
                    break
    big = getattr(cases, "big", [])
    if big:
        for (c, data), r in zip(big, C.run_impl_crashsafe([c for c, _ in big], "release", chunk=4, timeout=900)):
            t = r.split()
            nb = c.args[5]
            if t[0] != "1":
                counter.append({"input": c.impl_line()[:300] + " ...", "expected": "None or the block", "observed": "panic / crash: " + r[:60], "profile": "release", "oracle": "C01 (large block, K=%d, threshold code %d)" % (c.args[0], c.args[4]), "replay_case": c.impl_line()})
            elif t[nb] == "1" and [int(x) for x in t[1 + nb :]] != data:
                counter.append({"input": c.impl_line()[:300] + " ...", "expected": "exactly the block", "observed": "different bytes", "profile": "release", "oracle": "C01 (large block, K=%d, threshold code %d)" % (c.args[0], c.args[4]), "replay_case": c.impl_line()})
    repaired = 0
    for idx, c in enumerate(cs):
        f = c.args[0]
        n = c.args[6]
        data = c.args[7 + 3 * n :]
        for prof in PROFILES:
            t = both[prof][idx].split()
            if t[0] != "1":
                counter.append({"input": c.impl_line()[:800], "expected": "None or the object", "observed": "panic " + " ".join(t[1:2]), "profile": prof, "oracle": "C01"})
                break
            flags, rest = t[1 : 1 + n], [int(x) for x in t[1 + n :]]
            if any(fl not in ("0", "1") for fl in flags):
                counter.append({"input": c.impl_line()[:800], "expected": "identical answers once decoded", "observed": " ".join(flags), "profile": prof, "oracle": "C01"})
                break
            if flags and flags[-1] == "1" and rest != data:
                counter.append({"input": c.impl_line()[:800], "expected": f"exactly the {f} original bytes", "observed": f"{len(rest)} bytes, first difference at {next((i for i, (x, y) in enumerate(zip(rest, data)) if x != y), min(len(rest), len(data)))}", "profile": prof, "oracle": "C01"})
                break
            if c.tag == "all_source" and (not flags or flags[-1] != "1"):
                counter.append({"input": c.impl_line()[:800], "expected": "the object once all source packets of every block are delivered", "observed": " ".join(flags[-5:]), "profile": prof, "oracle": "C01 completeness"})
                break
        t = impl[idx].split()
        if t[0] == "1" and c.tag == "mixed" and n and t[n] == "1":
            repaired += 1
    # objects of 4 GiB and more (never materialised): a decoder that has received fewer than ceil(F/T) packets
    # cannot know the object, so every answer must be None (source packets with arbitrary payloads are packets of
    # SOME object; a Some(..) here is neither None nor "exactly the object of F bytes")
    huge = []
    rh = C.Rng(C.get_seed()).fork("C01huge")
    for (f, t) in [((1 << 32) + 1000, 1024), ((1 << 33) + 5, 4096), ((1 << 32) + 1, 65535), ((1 << 36) + 7, 65535), ((1 << 32) - 1 + 1024, 1024)]:
        kt = -(-f // t)
        z = min(255, max(-(-kt // 56403), rh.choice([1, 3, 75])))
        ks = CG.block_sizes(f, t, z)
        pk = [(b, 0) for b in range(z)] + [(b, ks[b] - 1) for b in range(z)] + [(0, 1), (z - 1, ks[z - 1]), (0, 0)]
        a = [f, t, z, 1, 1, len(pk)]
        for b, e in pk:
            a += [b, e]
        huge.append(C.Case("dec_feed", a, tag="huge"))
    for prof in PROFILES:
        for c, r in zip(huge, C.run_impl_crashsafe(huge, prof, chunk=1, timeout=600)):
            tok = r.split()
            if tok[0] != "1" or any(x != "0" for x in tok[1:]):
                counter.append({"input": c.impl_line(), "expected": "None after every packet (%d packets of an object of %d symbols)" % (c.args[5], -(-c.args[0] // c.args[1])), "observed": r[:120], "profile": prof, "oracle": "C01: None or exactly the object of F bytes"})
                break
    return {"disagreements": dis, "counterexamples": counter,
            "stats": {"evaluations": len(cs) * 4, "distinct_nontrivial": repaired, "huge_object_decoder_feeds": len(huge),
                      "samples": [cs[5].impl_line()[:240] + " ... -> " + impl[5][:60]],
                      "steps_compared": sum(c.args[6] for c in cs),
                      "input_distribution": {"large_sparse_block_receptions_release": len(big), "repair_only_block_receptions": len(blocks), "histories": len(cs), "all_source": sum(1 for c in cs if c.tag == "all_source"), "Z>1": sum(1 for c in cs if c.args[2] > 1),
                                             "N>1": sum(1 for c in cs if c.args[3] > 1), "padded": sum(1 for c in cs if c.args[0] % c.args[1]), "decoded": repaired}}}


def kernel_ok(c):
    return c.args[0] <= 24 and len(c.args) < 200


def search(rng, rep, tier, disagreements):
    return evaluate(cases(rng, "thorough"), rep, "thorough")["counterexamples"]
