"""C06 -- every block size is encodable; the intermediate symbols satisfy all constraints.
(1) Per-K' certificates IN THE KERNEL: for every K' of Table 2 up to the tier's bound the operation list of
    SourceBlockEncodingPlan::generate(K') is dumped from the CURRENT tree, written into a generated Coq file and
    `cert_ok K' plan = true` is checked by the kernel's VM; Props/C06.v turns each such fact into: for all data and
    symbol sizes the replayed symbols satisfy every LDPC / HDPC relation and reproduce every source and padding
    symbol, the direct solve gives the same symbols, A(K') is invertible, the encoder builds -- for every K mapping
    to that K'.  For a subset the op lists of the direct solve on the sparse and on the dense back-end are certified
    as well.  (2) Beyond the in-kernel bound the same checker runs extracted (validation, reported separately).
(3) Intermediate symbols of the real encoder (plan cache / explicit plan / direct solve, both back-ends) are read
    through the hook and compared with the model and checked against the constraint system."""
import os
import re
import subprocess
import time

import common as C
from props import generic as G
from props import codecgen as CG

MAKE_TARGETS = ["Props/C06.vo"]
PROFILES = ("release", "dev")
RULE = ("certificates: every Table-2 size K' <= 500 (quick) / <= 3000 (thorough) for the plan, every 4th of them also for "
        "the direct solves with threshold 0 (sparse) and 2^31 (dense); extracted checker for K' in {5008, 10002} in the thorough "
        "tier; intermediate symbols: K over table rows up to 60 (quick) / 300, T in "
        "{1,2,3,8}, three construction variants x two back-ends; non-trivial = one certified (K', variant) pair or one "
        "intermediate-symbol comparison")
TRUSTED = [
    "Coq 8.16.1 kernel + vm_compute (vm_cast_no_check: the certificate is evaluated by the kernel's VM at Qed)",
    "the generated Cert_<K'>.v files contain only the dumped plan as a literal and the application of Props/C06.v",
    "harness dump of the plan / solve operation lists through verif_hooks (a wrong dump can only make a certificate fail)",
    "extraction (ExtrOcamlBasic only) + ocamlopt for the validation beyond the in-kernel bound",
]
ASSUMPTIONS = ["K' above the in-kernel bound are validated by the extracted checker and by correspondence only: the claim is partial there"]

CERTDIR = os.path.join(C.BUILD, "certs")


def kprimes():
    return [r[0] for r in C.repo_table2()[0]]


def instantiate(k, nums, tag):
    tmpl = open(os.path.join(C.COQ, "Proofs", "Cert_template.v.txt")).read()
    chunks = []
    for i in range(0, len(nums), 1000):
        chunks.append("; ".join(nums[i : i + 1000]))
    plan = "] ++\n [".join(chunks)
    text = tmpl.replace("@K@", str(k)).replace("@PLAN@", plan)
    path = os.path.join(CERTDIR, f"Cert_{k}_{tag}.v")
    with open(path, "w") as f:
        f.write(text)
    return path


def run_certs(jobs, timeout=1500):
    """jobs: list of (k, tag, nums); returns dict (k,tag) -> (ok, seconds, message)"""
    os.makedirs(CERTDIR, exist_ok=True)
    out = {}
    pending = list(jobs)
    running = []
    maxpar = max(2, C.NCPU - 2)
    while pending or running:
        while pending and len(running) < maxpar:
            k, tag, nums = pending.pop(0)
            path = instantiate(k, nums, tag)
            p = subprocess.Popen(["coqc", "-Q", C.COQ, "RQ", "-noglob", path], stdout=subprocess.PIPE, stderr=subprocess.STDOUT, cwd=CERTDIR, env=C.ENV)
            running.append((k, tag, p, time.time(), path))
        time.sleep(0.2)
        for item in list(running):
            k, tag, p, t0, path = item
            if p.poll() is not None:
                txt = p.stdout.read().decode(errors="replace")
                closed = txt.count("Closed under the global context")
                ok = p.returncode == 0 and closed >= 2
                out[(k, tag)] = (ok, round(time.time() - t0, 1), txt[-600:] if not ok else "")
                running.remove(item)
                for ext in (".v", ".vo", ".vok", ".vos", ".glob"):
                    try:
                        os.unlink(path[:-2] + ext)
                    except OSError:
                        pass
            elif time.time() - t0 > timeout:
                p.kill()
                out[(k, tag)] = (False, timeout, "timeout")
                running.remove(item)
    return out


def cases(rng, tier):
    cs = []
    ks = [1, 9, 10, 11, 12, 26, 27, 46, 49, 60] if tier == "quick" else [1, 2, 10, 11, 12, 13, 18, 19, 26, 27, 49, 50, 55, 101, 102, 127, 149, 200, 249, 250, 251, 300]
    for k in ks:
        t = rng.choice([1, 2, 3, 8])
        data = CG.rand_data(rng, k * t)
        for variant, thr in ((0, 0), (1, 0), (2, 0), (2, 1 << 31)):
            c = C.Case("intermediate", [t, variant, thr] + data)
            c.tag = f"K{k}"
            cs.append(c)
    # block sizes whose systematic index J coincides with another row's: built one after the other in ONE process
    # through the plan cache (variant 0) and with an explicit plan (variant 1): a cache keyed by anything coarser
    # than the symbol count hands out the wrong plan
    byj = {}
    for r in C.repo_table2()[0]:
        byj.setdefault(r[1], []).append(r[0])
    pairs = sorted((v for v in byj.values() if len(v) >= 2 and v[1] <= (420 if tier == "quick" else 1100)), key=lambda v: v[1])
    for v in pairs[: 3 if tier == "quick" else 12]:
        for k in v[:2]:
            data = CG.rand_data(rng, k)
            for variant in (0, 1):
                c = C.Case("intermediate", [1, variant, 0] + data)
                c.tag = f"K{k}"
                cs.append(c)
    # the largest block sizes, release build only: plan replay vs direct sparse solve, and the RFC relations
    # checked directly on the real intermediate symbols (parameters from the RFC snapshot)
    kps_all = kprimes()
    cases.big = []
    for k in ([kps_all[-1], 10002] if tier == "quick" else [kps_all[-1], kps_all[-2], 29434, 20020, 10002, 9497, 5008, 3015]):
        if k in kps_all:
            data = CG.rand_data(rng, k)
            cases.big.append((k, [C.Case("intermediate", [1, 0, 0] + data), C.Case("intermediate", [1, 2, 0] + data)]))
    # structure of the encoding matrix for the LARGEST block sizes (no solving, cheap): all S LDPC rows and a sample
    # of G_ENC rows, on the sparse back-end; these sizes are beyond every in-kernel certificate
    kps = kprimes()
    big = [kps[-1], 28845] if tier == "quick" else [kps[-1], kps[-2], 28845, 29138, 30654, 40398, 10002]
    for kp in [k for k in big if k in kps]:
        rows = list(range(0, 1200))[: 2000]
        srows = sorted(set(r for r in rows))
        # S is at most 907: rows beyond S+H are G_ENC rows; add a few at the far end
        rows = srows + [rng.range(1200, kp) for _ in range(30)]
        c = C.Case("cm_rows", [kp] + rows)
        c.tag = "structure"
        cs.append(c)
    return cs


def evaluate(cs, rep, tier):
    structure = [c for c in cs if c.tag == "structure"]
    cs = [c for c in cs if c.tag != "structure"]
    impl, model, dis = G.diff_impl_model(cs, PROFILES, "intermediate")
    counter = []
    if structure:
        s_impl, s_model, s_dis = G.diff_impl_model(structure, ("release",), "matrix-structure")
        for c, i, m in zip(structure, s_impl, s_model):
            if C.canon(i) != C.canon(m):
                what = "building the constraint matrix panics" if not i.startswith("1") else "constraint-matrix rows differ from the model (proved equal to the RFC matrix)"
                counter.append({"input": " ".join(c.impl_line().split()[:2]) + " <rows>", "expected": "LDPC / G_ENC rows of RFC 6330 for K' = %d" % c.args[0], "observed": what + ": " + i[:80], "oracle": "Model.CMatrix rows (= A_rfc by C04_matrix_is_rfc)"})
    # (3) constraint check of the real intermediate symbols + equality across variants
    chk = []
    byk = {}
    for c, i in zip(cs, impl):
        t = c.args[0]
        data = c.args[3:]
        k = len(data) // t
        tok = i.split()
        if tok[0] != "1":
            counter.append({"input": c.impl_line()[:400], "expected": "building an encoder succeeds", "observed": i[:60], "oracle": "C06"})
            continue
        chk.append((c, C.Case("spec_check_intermediate", [k, t] + data + [int(x) for x in tok[1:]])))
        byk.setdefault(c.tag, set()).add(" ".join(tok[1:]))
    r = C.run_model([s for _, s in chk])
    for (c, s), ans in zip(chk, r):
        if ans != "1 1":
            counter.append({"input": c.impl_line()[:400], "expected": "intermediate symbols satisfy every LDPC/HDPC relation and reproduce source and padding symbols", "observed": "constraint check failed", "oracle": "A.C = D on the real intermediate symbols"})
    for tag, vals in byk.items():
        if len(vals) > 1:
            counter.append({"input": f"intermediate variants for {tag}", "expected": "identical symbols from plan cache / explicit plan / direct solve (dense and sparse)", "observed": f"{len(vals)} different results", "oracle": "variants agree"})
    # largest block sizes (release only)
    rfc_checked = []
    for k, (c0, c2) in getattr(cases, "big", []):
        r0, r2 = C.run_impl_crashsafe([c0, c2], "release", chunk=1, timeout=900)
        if not r0.startswith("1") or not r2.startswith("1"):
            counter.append({"input": " ".join(c0.impl_line().split()[:4]) + f" <{k} data bytes>", "expected": f"an encoder for K = {k} builds (plan replay and direct solve)", "observed": (r0[:40] + " / " + r2[:40]), "oracle": "C06"})
            continue
        if r0 != r2:
            counter.append({"input": " ".join(c0.impl_line().split()[:4]) + f" <{k} data bytes>", "expected": "plan replay and direct solve give the same intermediate symbols", "observed": "they differ", "oracle": "plan replay = direct solve"})
        if tier != "quick" or k <= 12000:
            ans = C.run_model([C.Case("spec_check_rows_rfc", [k, 1] + c0.args[3:] + [int(x) for x in r0.split()[1:]])], timeout=3600)[0]
            rfc_checked.append(k)
            if ans != "1 1":
                counter.append({"input": " ".join(c0.impl_line().split()[:4]) + f" <{k} data bytes>", "expected": "the RFC's LDPC relations hold and Enc[K', C, Tuple[K', i]] reproduces every source / padding symbol", "observed": "violated on the real intermediate symbols", "oracle": "RFC relations with the parameters of the RFC snapshot"})
    # (1) certificates in the kernel
    bound = 500 if tier == "quick" else 3000
    kps = [k for k in kprimes() if k <= bound]
    dump = [C.Case("plan_ops", [k]) for k in kps]
    sub = kps[::4]
    dump += [C.Case("solve_ops", [k, 0]) for k in sub] + [C.Case("solve_ops", [k, 1 << 31]) for k in sub]
    t0 = time.time()
    dres = C.run_impl(dump, "release")
    jobs = []
    for c, r0 in zip(dump, dres):
        tok = r0.split()
        tag = "plan" if c.fn == "plan_ops" else ("sparse" if c.args[1] == 0 else "dense")
        if tok[0] != "1":
            counter.append({"input": c.impl_line(), "expected": "plan generation / solve succeeds for every K'", "observed": r0[:60], "oracle": "C06"})
            continue
        jobs.append((c.args[0], tag, tok[1:]))
    jobs.sort(key=lambda j: -len(j[2]))
    res = run_certs(jobs)
    failed = [(k, tag, msg) for (k, tag), (ok, sec, msg) in sorted(res.items()) if not ok]
    cert_dis = []
    for k, tag, msg in failed:
        cert_dis.append({"input": f"certificate K'={k} variant={tag}", "impl": "operation list dumped from the current tree", "model": "cert_ok = false or file failed: " + msg[-300:], "group": "certificate"})
    # (2) extracted validation beyond the bound
    validated = []
    if tier != "quick":
        big = [k for k in (5008, 10002) if k in kprimes()]  # measured: 35 s and 176 s; K' = 56403 did not finish in 2 h
        bd = C.run_impl([C.Case("plan_ops", [k]) for k in big], "release")
        vc = [C.Case("spec_cert_ok", [k] + [int(x) for x in r0.split()[1:]]) for k, r0 in zip(big, bd) if r0.startswith("1")]
        vr = C.run_model(vc, timeout=7200)
        for c, ans in zip(vc, vr):
            validated.append((c.args[0], ans))
            if ans != "1 1":
                cert_dis.append({"input": f"extracted certificate K'={c.args[0]}", "impl": "plan", "model": ans, "group": "certificate-extracted"})
    secs = [sec for (_, _), (ok, sec, _) in res.items()]
    stats = {"evaluations": len(cs) * 4 + len(chk) + len(jobs), "distinct_nontrivial": len([1 for v in res.values() if v[0]]) + len(chk),
             "certificates_in_kernel": len([1 for v in res.values() if v[0]]), "certificates_failed": len(failed),
             "in_kernel_bound_Kprime": bound, "Kprimes_certified": len(set(k for (k, tag), v in res.items() if v[0] and tag == "plan")),
             "of_477_table_rows": len(kprimes()), "certificate_seconds_total": round(sum(secs), 1), "certificate_seconds_max": max(secs) if secs else 0,
             "certificate_wall_s": round(time.time() - t0, 1), "extracted_validation": validated,
             "largest_sizes_plan_vs_direct": [k for k, _ in getattr(cases, "big", [])], "rfc_relations_checked_for": rfc_checked,
             "samples": [f"cert_ok {jobs[0][0]} <{len(jobs[0][2])} numbers of the {jobs[0][1]} op list> = true" if jobs else "", cs[0].impl_line()[:120]],
             "input_distribution": {"certificate_jobs": len(jobs), "variants": {t: sum(1 for j in jobs if j[1] == t) for t in ("plan", "sparse", "dense")}, "intermediate_cases": len(cs)}}
    return {"disagreements": dis + cert_dis, "counterexamples": counter, "stats": stats}


def kernel_ok(c):
    return len(c.args) < 40


def search_table_edit(rng):
    """a Table-2 row that differs from the RFC snapshot: check the real intermediate symbols of that block size
    against the RFC constraint system built from the SNAPSHOT parameters"""
    from props import C04
    out = []
    try:
        changed = C04.changed_table_rows()
    except (ValueError, OSError):
        changed = []
    for k in [k for k in changed if k > 1300][:2]:
        c = C.Case("intermediate", [1, 1, 0] + CG.rand_data(rng, k))
        i = C.run_impl_crashsafe([c], "release", chunk=1, timeout=900)[0]
        if i.startswith("1"):
            ans = C.run_model([C.Case("spec_check_rows_rfc", [k, 1] + c.args[3:] + [int(x) for x in i.split()[1:]])], timeout=3600)[0]
            if ans != "1 1":
                out.append({"input": " ".join(c.impl_line().split()[:4]) + f" <{k} data bytes>", "expected": "RFC LDPC and LT relations (parameters of RFC Table 2) on the intermediate symbols", "observed": "violated", "oracle": "RFC relations from the snapshot"})
    ks = [k for k in changed if k <= 1300][:3]
    for k in ks:
        c = C.Case("intermediate", [1, 1, 0] + CG.rand_data(rng, k))
        i = C.run_impl([c], "release")[0]
        if not i.startswith("1"):
            out.append({"input": c.impl_line()[:300], "expected": "building an encoder succeeds", "observed": i[:60], "oracle": "C06"})
            continue
        ans = C.run_model([C.Case("spec_check_intermediate_rfc", [k, 1] + c.args[3:] + [int(x) for x in i.split()[1:]])], timeout=3600)[0]
        if ans != "1 1":
            out.append({"input": c.impl_line()[:300] + " ...", "expected": "L(K') intermediate symbols satisfying the RFC's S LDPC and H HDPC relations and reproducing source/padding symbols (parameters of RFC Table 2)", "observed": "the real intermediate symbols do not (count or relations differ)", "oracle": "A_rfc from the RFC snapshot"})
    return out


def search(rng, rep, tier, disagreements):
    t = search_table_edit(rng)
    if t:
        return t
    # a failed certificate: look for data on which the real intermediate symbols violate the constraint system
    ks = sorted(set(int(m.group(1)) for d in disagreements for m in [re.search(r"K'=(\d+)", d.get("input", ""))] if m))[:6]
    cs = []
    for k in ks:
        if k > 2000:
            continue
        for variant, thr in ((0, 0), (1, 0), (2, 0), (2, 1 << 31)):
            cs.append(C.Case("intermediate", [1, variant, thr] + CG.rand_data(rng, k)))
    out = []
    if cs:
        impl = C.run_impl(cs, "release")
        chk = [(c, C.Case("spec_check_intermediate", [len(c.args) - 3, 1] + c.args[3:] + [int(x) for x in i.split()[1:]])) for c, i in zip(cs, impl) if i.startswith("1")]
        r = C.run_model([s for _, s in chk], timeout=3600)
        for (c, s), ans in zip(chk, r):
            if ans != "1 1":
                out.append({"input": c.impl_line()[:600], "expected": "A.C = D", "observed": "the real intermediate symbols violate the constraint system", "oracle": "spec_check_intermediate"})
    return out
