"""C10 -- octet arithmetic is GF(256).  Exhaustive correspondence: all 65 536 pairs for + * / fma-with-
acc-sample, alpha(0..=260), the three derived tables; the Spec oracle (polynomial arithmetic) is
evaluated on every pair as well, so the dump is also the search."""
import common as C
from props import generic as G

MAKE_TARGETS = ["Props/C10.vo"]
PROFILES = ("release", "dev")
RULE = ("exhaustive enumeration of all 256x256 operand pairs for add/mul/div, fma with 3 accumulators per pair "
        "(tier thorough: 16), alpha(0..260), all entries of OCTET_MUL / LOW / HI tables; a case is non-trivial "
        "when both operands are non-zero (table path taken); distinct = distinct case lines")
TRUSTED = [
    "Coq 8.16.1 kernel + vm_compute",
    "translator/rs2v.py (OCT_EXP, OCT_LOG extraction)",
    "Spec/GF256.v transcription of RFC 6330 5.7 (polynomial 0x11D, alpha = 2)",
    "extraction (ExtrOcamlBasic only) + ocamlopt for the volume runs; sample cross-checked in the kernel",
    "harness/ (rqh) calling the real operator impls; hook re-export of OCTET_MUL* tables",
]
ASSUMPTIONS = ["Octet::new accepts every u8; values are compared as bytes"]


def cases(rng, tier):
    cs = []
    accs = [0, 0xFF, 0x53] if tier == "quick" else [0, 1, 2, 0x80, 0xFF] + [rng.below(256) for _ in range(11)]
    for a in range(256):
        for b in range(256):
            cs.append(C.Case("oct_add", [a, b]))
            cs.append(C.Case("oct_mul", [a, b]))
            cs.append(C.Case("oct_div", [a, b]))
            for acc in accs:
                cs.append(C.Case("oct_fma", [acc, a, b]))
            cs.append(C.Case("oct_tbl_mul", [a, b]))
        for j in range(32):
            cs.append(C.Case("oct_tbl_low", [a, j]))
            cs.append(C.Case("oct_tbl_hi", [a, j]))
    for i in range(0, 261):
        cs.append(C.Case("oct_alpha", [i]))
    return cs


def spec_case(c):
    if c.fn == "oct_add":
        return C.Case("spec_oct_add", c.args)
    if c.fn in ("oct_mul", "oct_tbl_mul"):
        return C.Case("spec_oct_mul", c.args)
    if c.fn == "oct_alpha" and c.args[0] < 256:
        return C.Case("spec_oct_alpha", c.args)
    return None


def evaluate(cases, rep, tier):
    impl, model, dis = G.diff_impl_model(cases, PROFILES, "octet")
    counter = []
    # property-level oracle: implementation vs polynomial arithmetic
    sc = [(c, spec_case(c)) for c in cases]
    sc = [(c, s, i) for (c, s), i in zip(sc, impl) if s is not None]
    spec = C.run_model([s for _, s, _ in sc])
    for (c, s, i), sp in zip(sc, spec):
        if C.canon(i) != C.canon(sp):
            counter.append({"input": c.impl_line(), "expected": sp, "observed": i, "oracle": "Spec.GF256"})
    # division: a / b is the unique q with q * b = a ; fma = acc xor a*b  (checked on the implementation's own outputs)
    mul = {}
    for c, i in zip(cases, impl):
        if c.fn == "oct_mul":
            mul[(c.args[0], c.args[1])] = i
    for c, i in zip(cases, impl):
        if c.fn == "oct_div":
            a, b = c.args
            if b == 0:
                if not i.startswith("0"):
                    counter.append({"input": c.impl_line(), "expected": "panic", "observed": i, "oracle": "division by zero is refused"})
            else:
                t = i.split()
                if t[0] != "1" or mul.get((int(t[1]), b)) != f"1 {a}":
                    counter.append({"input": c.impl_line(), "expected": f"q with q*{b} = {a}", "observed": i, "oracle": "field inverse"})
        elif c.fn == "oct_fma":
            acc, a, b = c.args
            m = mul.get((a, b), "?").split()
            if len(m) == 2 and i != f"1 {acc ^ int(m[1])}":
                counter.append({"input": c.impl_line(), "expected": f"1 {acc ^ int(m[1])}", "observed": i, "oracle": "fma = add after mul"})
        elif c.fn in ("oct_tbl_low",):
            pass
    # nibble tables against the product table: LOW[c][x&15] ^ HI[c][x>>4] = c*x, and duplicated halves
    low = {(c.args[0], c.args[1]): i for c, i in zip(cases, impl) if c.fn == "oct_tbl_low"}
    hi = {(c.args[0], c.args[1]): i for c, i in zip(cases, impl) if c.fn == "oct_tbl_hi"}
    for (a, b), m in mul.items():
        l, h = low[(a, b & 15)].split(), hi[(a, b >> 4)].split()
        if l[0] != "1" or h[0] != "1" or f"1 {int(l[1]) ^ int(h[1])}" != m:
            counter.append({"input": f"oct_tbl_low {a} {b & 15} / oct_tbl_hi {a} {b >> 4}", "expected": m, "observed": f"{l} ^ {h}", "oracle": "nibble split"})
        if low[(a, (b & 15) + 16)] != low[(a, b & 15)] or hi[(a, (b >> 4) + 16)] != hi[(a, b >> 4)]:
            counter.append({"input": f"oct_tbl_low/hi {a} {(b & 15) + 16}", "expected": "duplicate of lower half", "observed": "differs", "oracle": "duplicated halves"})
    nontriv = len(set(c.key() for c in cases if all(x != 0 for x in c.args)))
    return {
        "disagreements": dis,
        "counterexamples": counter,
        "stats": {
            "evaluations": len(cases) * (len(PROFILES) + 1) + len(sc),
            "distinct_nontrivial": nontriv,
            "exhaustive": True,
            "samples": [cases[5 * 300 + 7].impl_line() + " -> " + impl[5 * 300 + 7], "oct_div 1 2 -> " + next(i for c, i in zip(cases, impl) if c.fn == "oct_div" and c.args == [1, 2])],
            "input_distribution": {"pairs": 65536, "profiles": list(PROFILES), "spec_oracle_cases": len(sc)},
        },
    }


def search(rng, rep, tier, disagreements):
    # the evaluation is exhaustive and already compares the implementation with the Spec oracle
    return []
