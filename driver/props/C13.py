"""C13 -- wire formats.  Correspondence of the three serialisers / deserialisers with the model, and the
implementation's bytes against the Spec's big-endian digit strings (independent of shifts and masks)."""
import common as C
from props import generic as G

MAKE_TARGETS = ["Props/C13.vo"]
PROFILES = ("release", "dev")
RULE = ("payload ids: all 256 SBNs x boundary ESIs, ESIs sweeping each byte lane (one-hot / 0xFF lanes), random; "
        "packets: payload lengths 0..70 and a few large; OTI: fields at 0/1/max/one-hot per byte via deserialize of "
        "arbitrary 12-byte buffers (re-serialisation) and via the constructor for valid sets; short buffers as the "
        "malformed stream.  Non-trivial = at least two non-zero bytes in the value; distinct = distinct case lines")
TRUSTED = [
    "Coq 8.16.1 kernel + vm_compute",
    "Spec/Wire.v: big-endian digit strings `be` as the RFC 6330 3.2 / 3.3.2 / 3.3.3 layouts",
    "extraction (ExtrOcamlBasic only) + ocamlopt; sample cross-checked in the kernel",
    "harness rqh (PayloadId / EncodingPacket / ObjectTransmissionInformation public API)",
]
ASSUMPTIONS = ["&[u8;4] / &[u8;12] static lengths are modelled as dynamic length checks"]


def esis(rng, n):
    out = [0, 1, 255, 256, 257, 65535, 65536, 65537, 16777215, 16777214, 0x010203, 0xFF00FF, 0x00FF00, 0x800000, 0x7FFFFF]
    for lane in range(3):
        for b in range(8):
            out.append((1 << b) << (8 * lane))
        out.append(0xFF << (8 * lane))
    out += [rng.below(1 << 24) for _ in range(n)]
    return out


def cases(rng, tier):
    n = 300 if tier == "quick" else 3000
    cs = []
    es = esis(rng, n)
    for sbn in range(256):
        for e in (es[:15] if sbn % 16 else es[:60]):
            cs.append(C.Case("pid_ser", [sbn, e]))
    for e in es:
        sbn = rng.below(256)
        cs.append(C.Case("pid_ser", [sbn, e]))
        cs.append(C.Case("pid_new", [sbn, e]))
    # ESI limit (malformed stream)
    for e in (16777216, 16777217, 1 << 31, (1 << 32) - 1):
        cs.append(C.Case("pid_new", [rng.below(256), e]))
        cs.append(C.Case("pid_ser", [rng.below(256), e]))
    # re-serialisation of arbitrary 4-byte buffers
    for _ in range(n):
        b = list(rng.bytes(4))
        cs.append(C.Case("pid_deser", b))
    for b in ([0, 0, 0, 0], [255, 255, 255, 255], [1, 0, 0, 0], [0, 1, 0, 0], [0, 0, 1, 0], [0, 0, 0, 1], [0, 128, 0, 0]):
        cs.append(C.Case("pid_deser", b))
    # packets
    # lengths around every power of two up to 2^17 (a length narrowed to u8/u16 wraps there)
    for ln in list(range(0, 71)) + [255, 256, 257, 1024, 1500, 4095, 4096, 65531, 65532, 65535, 65536, 65537, 65540, 70000, 131071, 131072, 131076]:
        sbn, e = rng.below(256), rng.choice(es)
        data = list(rng.bytes(ln))
        cs.append(C.Case("pkt_ser", [sbn, e] + data))
        cs.append(C.Case("pkt_deser", [sbn, (e >> 16) & 255, (e >> 8) & 255, e & 255] + data))
    for ln in range(0, 4):  # short input
        cs.append(C.Case("pkt_deser", list(rng.bytes(ln))))
    # OTI: arbitrary 12-byte buffers
    pats = [[0] * 12, [255] * 12]
    for i in range(12):
        for v in (1, 128, 255):
            b = [0] * 12
            b[i] = v
            pats.append(b)
    pats += [list(rng.bytes(12)) for _ in range(n)]
    for b in pats:
        cs.append(C.Case("oti_deser", b))
    # OTI via the constructor (valid sets, fields across their widths)
    for _ in range(n):
        al = rng.choice([1, 2, 4, 8, 3, 255])
        t = al * rng.range(1, max(1, 65535 // al))
        z = rng.range(1, 255)
        f = rng.range(1, min(942574504275, 56403 * z * t))
        nsub = rng.choice([1, 2, 255, 256, 65535, rng.below(65536)])
        cs.append(C.Case("oti_ser", [f, t, z, nsub, al]))
    cs.append(C.Case("oti_ser", [942574504275, 65535, 255, 1, 1]))
    cs.append(C.Case("oti_ser", [942574504276, 65535, 255, 1, 1]))
    return cs


def be(w, x):
    return [(x >> (8 * (w - 1 - i))) & 255 for i in range(w)]


def evaluate(cases, rep, tier):
    impl, model, dis = G.diff_impl_model(cases, PROFILES, "wire")
    counter = []
    # Spec oracle through the extracted Spec functions
    sc = []
    for c, i in zip(cases, impl):
        if c.fn == "pid_ser" and c.args[1] < (1 << 24):
            sc.append((c, C.Case("spec_pid_wire", c.args), i))
        elif c.fn == "oti_ser" and i.startswith("1"):
            sc.append((c, C.Case("spec_oti_wire", c.args), i))
    spec = C.run_model([s for _, s, _ in sc])
    for (c, s, i), sp in zip(sc, spec):
        if C.canon(i) != C.canon(sp):
            counter.append({"input": c.impl_line(), "expected": sp, "observed": i, "oracle": "Spec.Wire big-endian layout"})
    # round-trip / re-serialisation / packet layout, on the implementation's own outputs
    for c, i in zip(cases, impl):
        t = i.split()
        if c.fn == "pid_deser" and t[0] == "1":
            vals = [int(x) for x in t[1:]]
            if vals[0] != c.args[0] or vals[1] != (c.args[1] << 16 | c.args[2] << 8 | c.args[3]) or vals[2:] != c.args:
                counter.append({"input": c.impl_line(), "expected": f"({c.args[0]}, be value) and re-serialised {c.args}", "observed": i, "oracle": "re-serialise"})
        elif c.fn == "pkt_ser" and t[0] == "1":
            exp = [c.args[0]] + be(3, c.args[1]) + c.args[2:]
            if [int(x) for x in t[1:]] != exp:
                counter.append({"input": c.impl_line(), "expected": "1 " + " ".join(map(str, exp)), "observed": i, "oracle": "payload id ++ data"})
        elif c.fn == "pkt_deser":
            if len(c.args) < 4:
                if t[0] != "0":
                    counter.append({"input": c.impl_line(), "expected": "panic", "observed": i, "oracle": "short input"})
            else:
                exp = [c.args[0], c.args[1] << 16 | c.args[2] << 8 | c.args[3]] + c.args[4:]
                if t[0] != "1" or [int(x) for x in t[1:]] != exp:
                    counter.append({"input": c.impl_line(), "expected": "1 " + " ".join(map(str, exp)), "observed": i, "oracle": "packet round trip"})
        elif c.fn == "oti_deser" and t[0] == "1":
            vals = [int(x) for x in t[1:]]
            b = c.args
            expf = [b[0] << 32 | b[1] << 24 | b[2] << 16 | b[3] << 8 | b[4], b[6] << 8 | b[7], b[8], b[9] << 8 | b[10], b[11]]
            expb = b[:5] + [0] + b[6:]
            if vals[:5] != expf or vals[5:] != expb:
                counter.append({"input": c.impl_line(), "expected": f"{expf} {expb}", "observed": i, "oracle": "OTI re-serialise (reserved byte zeroed)"})
    # per profile: (a) an id beyond 24 bits has no 4-byte wire form, so it must be refused, never serialised;
    # (b) every 4- / 12-byte buffer parses (re-serialisation is required for EVERY parsed buffer)
    both = G.all_profiles_impl(cases, PROFILES)
    for prof in PROFILES:
        for c, i in zip(cases, both[prof]):
            t = i.split()
            if c.fn in ("pid_new", "pid_ser") and c.args[1] >= (1 << 24) and t[0] == "1":
                counter.append({"input": c.impl_line(), "expected": "refusal: the encoding symbol id does not fit 24 bits, the 4-byte wire form cannot carry it (round trip impossible)", "observed": i[:60], "profile": prof, "oracle": "C13 round trip for every representable value"})
                break
            if c.fn in ("pid_deser", "oti_deser") and len(c.args) in (4, 12) and t[0] != "1":
                counter.append({"input": c.impl_line(), "expected": "a parsed value (every buffer of the right length parses and re-serialises)", "observed": i[:60], "profile": prof, "oracle": "C13 re-serialisation of a parsed buffer"})
                break
    nontriv = len(set(c.key() for c in cases if sum(1 for x in c.args if x) >= 2))
    kinds = {}
    for c in cases:
        kinds[c.fn] = kinds.get(c.fn, 0) + 1
    return {"disagreements": dis, "counterexamples": counter,
            "stats": {"evaluations": len(cases) * 4 + len(sc), "distinct_nontrivial": nontriv,
                      "samples": [cases[3].impl_line() + " -> " + impl[3], next(c.impl_line() + " -> " + i for c, i in zip(cases, impl) if c.fn == "oti_deser" and sum(c.args) > 300)],
                      "input_distribution": kinds}}


def kernel_ok(c):
    return len(c.args) < 300


def search(rng, rep, tier, disagreements):
    big = cases(rng, "thorough")
    res = evaluate(big, rep, "thorough")
    return res["counterexamples"]
