"""C17 -- the plan cache under concurrency.  The harness imposes schedules on the real cache through the
between-sections hook (each request = first critical section, unlocked generation, second critical section);
after every step the real cache contents are compared with the model's, and the property predicates
(transparency, bound, order/keys consistency) are evaluated on the implementation's own trace."""
import itertools

import common as C
from props import generic as G

MAKE_TARGETS = ["Props/C17.vo"]
PROFILES = ("release",)
RULE = ("schedules: every interleaving of 2 threads x 2 requests and of 3 threads x 1 request over <= 3 keys "
        "(enumerated), random interleavings of 3-5 threads with repeated keys, long single- and multi-thread histories "
        "over > 64 distinct symbol counts (eviction, re-request of evicted keys), plus disabled steps (insert without "
        "lookup) as the malformed stream; non-trivial = at least one request misses while another thread holds a "
        "generated plan for the same key, or an eviction happens; distinct = distinct schedules")
TRUSTED = [
    "Coq 8.16.1 kernel + vm_compute",
    "std::sync::Mutex gives mutual exclusion (each critical section is one atomic step of the model); poisoning not modelled",
    "plan generation is some function of the symbol count (Section variable `gen`)",
    "verif_hooks: between-sections callback, cache snapshot/clear (harness/src/cache.rs drives threads with them)",
    "extraction (ExtrOcamlBasic only) + ocamlopt; sample cross-checked in the kernel",
]
ASSUMPTIONS = ["Arc<plan> identity is not observed; plans are compared by the symbol count they were generated for"]


def interleavings(seqs):
    """all merges of the given step sequences preserving each sequence's order"""
    if all(not s for s in seqs):
        yield []
        return
    for i, s in enumerate(seqs):
        if s:
            rest = [q if j != i else q[1:] for j, q in enumerate(seqs)]
            for tail in interleavings(rest):
                yield [s[0]] + tail


def req(t, k):
    return [(t, 0, k), (t, 1, 0), (t, 2, 0)]


def flat(sched):
    return [x for st in sched for x in st]


def cases(rng, tier):
    cs = []
    keys = [10, 11, 26]
    # 2 threads x 2 requests each, all interleavings, a few key assignments
    assigns = [(10, 10, 10, 10), (10, 11, 10, 11), (10, 11, 11, 10), (10, 10, 11, 26)]
    for ka in assigns if tier != "quick" else assigns[:3]:
        seqs = [req(0, ka[0]) + req(0, ka[1]), req(1, ka[2]) + req(1, ka[3])]
        for s in interleavings(seqs):
            cs.append(C.Case("cache_trace", flat(s), tag="enum2x2"))
    # 3 threads x 1 request, all interleavings, all key assignments over <= 2 keys
    for ka in itertools.product([10, 11], repeat=3):
        for s in interleavings([req(0, ka[0]), req(1, ka[1]), req(2, ka[2])]):
            cs.append(C.Case("cache_trace", flat(s), tag="enum3x1"))
    # random interleavings, more threads, repeated keys, with disabled steps sprinkled in
    for _ in range(150 if tier == "quick" else 1500):
        nt = rng.range(3, 5)
        seqs = []
        for t in range(nt):
            q = []
            for _ in range(rng.range(1, 3)):
                q += req(t, rng.choice(keys + [12, 18]))
            seqs.append(q)
        s = []
        while any(seqs):
            i = rng.choice([j for j, q in enumerate(seqs) if q])
            s.append(seqs[i].pop(0))
            if rng.below(8) == 0:
                s.append((rng.below(nt), rng.choice([1, 2, 3, 3]), 0))  # possibly disabled step; 3 = the request dies between its critical sections
        cs.append(C.Case("cache_trace", flat(s), tag="random"))
    # long histories over more than 64 distinct keys
    for h in range(2 if tier == "quick" else 8):
        ks = rng.shuffle(list(range(1, 90)))[: rng.range(66, 80)]
        s = []
        for idx, k in enumerate(ks):
            s += req(idx % 3, k)
            if rng.below(5) == 0 and idx > 3:
                s += req((idx + 1) % 3, ks[rng.below(idx)])  # re-request (possibly evicted)
        cs.append(C.Case("cache_trace", flat(s), tag="long"))
    # racing duplicates at capacity: fill to 64, then two threads miss on the same fresh key
    s = []
    for k in range(1, 65):
        s += req(0, k)
    s += [(1, 0, 70), (2, 0, 70), (1, 1, 0), (2, 1, 0), (1, 2, 0), (2, 2, 0), (0, 0, 1), (0, 1, 0), (0, 2, 0)]
    cs.append(C.Case("cache_trace", flat(s), tag="race_at_capacity"))
    # overlapping misses on DIFFERENT fresh keys around the capacity boundary: prefill to 61..64, then n threads
    # all look up before any of them inserts (a decision taken in the first critical section is stale by then)
    for fill in (61, 62, 63, 64):
        for nth in (2, 3, 4):
            for variant in range(2 if tier == "quick" else 6):
                s = []
                for k in range(1, fill + 1):
                    s += req(0, k)
                fresh = [100 + i for i in range(nth)]
                if variant % 2 == 1:
                    fresh[-1] = fresh[0]  # one duplicate among the racers
                s += [(1 + i, 0, fresh[i]) for i in range(nth)]
                s += [(1 + i, 1, 0) for i in range(nth)]
                for i in rng.shuffle(list(range(nth))):
                    s.append((1 + i, 2, 0))
                s += req(0, 1) + req(0, 2)
                cs.append(C.Case("cache_trace", flat(s), tag="overlap_at_capacity"))
    # random interleavings of fresh-key requests on an almost full cache
    for _ in range(4 if tier == "quick" else 30):
        fill = rng.range(58, 64)
        s = []
        for k in range(1, fill + 1):
            s += req(0, k)
        seqs = [sum((req(t, 100 + rng.below(12)) for _ in range(rng.range(1, 3))), []) for t in range(1, 5)]
        while any(seqs):
            i = rng.choice([j for j, q in enumerate(seqs) if q])
            s.append(seqs[i].pop(0))
        cs.append(C.Case("cache_trace", flat(s), tag="random_near_capacity"))
    return cs


def parse_rows(vals, nsteps):
    rows = []
    i = 0
    for _ in range(nsteps):
        ret, p, lo = vals[i], vals[i + 1], vals[i + 2]
        order = vals[i + 3 : i + 3 + lo]
        i += 3 + lo
        lk = vals[i]
        ks = vals[i + 1 : i + 1 + lk]
        i += 1 + lk
        rows.append((ret, p, order, ks))
    if i != len(vals):
        raise ValueError("trailing values in trace")
    return rows


def property_check(c, line):
    """transparency, bound and consistency evaluated directly on the implementation's trace"""
    t = line.split()
    if t[0] != "1":
        return "implementation panicked"
    steps = [tuple(c.args[i : i + 3]) for i in range(0, len(c.args), 3)]
    rows = parse_rows([int(x) for x in t[1:]], len(steps))
    pending = {}
    generated = set()
    for (th, kind, k), (ret, p, order, ks) in zip(steps, rows):
        if len(ks) > 64:
            return f"cache holds {len(ks)} plans"
        if sorted(order) != ks or len(set(order)) != len(order):
            return f"insertion order {order} inconsistent with keys {ks}"
        want = None
        if kind == 0 and th not in pending:
            if ret:
                want = k
            else:
                pending[th] = k
        elif kind == 3 and th in pending:
            pending.pop(th)
            generated.discard(th)
            if ret:
                return f"an aborted request of thread {th} returned a plan"
        elif kind == 1 and th in pending:
            generated.add(th)
        elif kind == 2 and th in pending and th in generated:
            generated.discard(th)
            want = pending.pop(th)
            if not ret:
                return f"insert step of thread {th} did not return"
        if want is not None and p != want:
            return f"request for {want} got the plan of {p}"
    return None


def encoder_cases(rng, tier):
    """SourceBlockEncoder::new is the cache's only caller: encoders built through the cache must equal encoders
    built without it, for blocks of every byte length incl. 64 KiB and more (key arithmetic on lengths)"""
    out = []
    shapes = [(1, 10), (8, 26), (1024, 64), (4096, 17), (1024, 65), (2048, 33), (512, 130)] if tier == "quick" else \
             [(1, 10), (8, 26), (1024, 64), (4096, 17), (1024, 65), (2048, 33), (512, 130), (65535, 2), (32768, 3), (256, 257), (4096, 16), (128, 513)]
    for (t, k) in shapes:
        data = list(rng.bytes(t * k))
        out.append((C.Case("variant_packets", [t, 0, 0, 2] + data), C.Case("variant_packets", [t, 2, 0, 2] + data)))
    return out


def evaluate(cases, rep, tier):
    impl, model, dis = G.diff_impl_model(cases, PROFILES, "cache")
    counter = []
    enc = encoder_cases(C.Rng(C.get_seed()).fork("C17enc"), tier)
    flat = [c for pair in enc for c in pair]
    er = C.run_impl_crashsafe(flat, "release", chunk=2, timeout=600)
    for i, (a, b) in enumerate(enc):
        ra, rb = er[2 * i], er[2 * i + 1]
        if ra != rb or not ra.startswith("1"):
            counter.append({"input": " ".join(a.impl_line().split()[:5]) + f" <{len(a.args) - 4} data bytes>", "expected": "the encoder built through the plan cache equals the encoder built without it", "observed": (ra[:50] + " vs " + rb[:50]), "oracle": "cache transparency through SourceBlockEncoder::new"})
    # a refused request (symbol count beyond the largest block size: the library panics) on another thread must not
    # disturb anybody else: the same schedules afterwards give the same traces (a lock poisoned by that panic, or a
    # cache left half-updated, shows here)
    sample = [c for c in cases if c.tag in ("enum2x2", "random", "race_at_capacity")][:12]
    ref = C.run_impl_crashsafe(sample, "release", chunk=1, timeout=300)
    for prof in PROFILES:
        aft = C.run_impl_crashsafe([C.Case("cache_trace_after_refusal", [rng_bad] + c.args) for c, rng_bad in zip(sample, [60000, 56404, 65535] * 4)], prof, chunk=1, timeout=300)
        for c, r0, r1 in zip(sample, ref, aft):
            t0, t1 = r0.split(), r1.split()
            if t0[0] == "1" and (t1[0] != "1" or t1[2:] != t0[1:]):
                counter.append({"input": "cache_trace_after_refusal 60000 " + c.impl_line()[12:300], "expected": "the same trace as without the refused request on another thread", "observed": r1[:80], "profile": prof, "oracle": "C17 transparency: a refused request on one thread leaves every other request unaffected"})
                break
    nt = 0
    for c, i in zip(cases, impl):
        why = property_check(c, i)
        if why:
            counter.append({"input": c.impl_line(), "expected": "transparent, bounded cache", "observed": why, "oracle": "C17 predicates on the real trace"})
        if c.tag in ("long", "race_at_capacity", "enum2x2", "enum3x1", "overlap_at_capacity", "random_near_capacity"):
            nt += 1
    kinds = {}
    for c in cases:
        kinds[c.tag] = kinds.get(c.tag, 0) + 1
    return {"disagreements": dis, "counterexamples": counter,
            "stats": {"evaluations": len(cases) * 2, "distinct_nontrivial": len(set(c.key() for c in cases if c.tag != "random")),
                      "samples": [cases[0].impl_line() + " -> " + impl[0]],
                      "steps_compared": sum(len(c.args) // 3 for c in cases), "encoders_via_cache_vs_uncached": len(enc), "input_distribution": kinds}}


def kernel_ok(c):
    return len(c.args) < 200


def search(rng, rep, tier, disagreements):
    return evaluate(cases(rng, "thorough"), rep, "thorough")["counterexamples"]
