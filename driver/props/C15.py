"""C15 -- code parameters and tuples.  The seven parameter functions and P1 for ALL K in 0..56403 + out-of-range
K (exhaustive), rand on boundary y, deg at every f[d] +- 1, tuples / enc_indices for every one of the 477 rows at
boundary, algebraically selected and random X, in both overflow-check settings; tuples also against the Spec."""
import re

import common as C
from props import generic as G

MAKE_TARGETS = ["Props/C15.vo"]
PROFILES = ("release", "dev")
RULE = ("exhaustive over K = 0..56403 for the 8 look-ups; every Table-2 row x X in {0, K'-1, K', 2^24-1, 2^24+K'-1, "
        "the two residues solving y(X) in {2^32-1, 2^32-2} modulo 2^32 and +-2 around them when < 2^32, random}; rand on "
        "y with byte lanes 0/255 and y >= 2^32-8 x i in 0..7; deg at every f[d]+-1; non-trivial tuple = X >= K' "
        "(repair range) or a boundary X; distinct = distinct case lines")
TRUSTED = [
    "Coq 8.16.1 kernel + vm_compute",
    "translator/rs2v.py (V0..V3, Table 2, P1 table, f[], multipliers)",
    "Spec/Tables_RFC.v snapshot of the unstructured RFC tables (trusted to be the RFC's); Spec/Rand.v, Spec/Tuple.v",
    "extraction (ExtrOcamlBasic only) + ocamlopt; sample cross-checked in the kernel",
    "harness rqh through the verif_hooks re-exports (rand, deg, intermediate_tuple, enc_indices, systematic constants)",
]
ASSUMPTIONS = ["K' rows are identified with their (J, S, H, W, P1) as read by the look-up functions (C15_params)"]


def table_rows():
    return C.repo_table2()


def cases(rng, tier):
    cs = []
    for k in range(0, 56404):
        for f in ("sys_kprime", "sys_j", "sys_h", "sys_s", "sys_w", "sys_l", "sys_p", "sys_p1"):
            cs.append(C.Case(f, [k]))
    for k in (56404, 56405, 65535, 65536, 1 << 24, (1 << 32) - 1):
        for f in ("sys_kprime", "sys_p1", "sys_l"):
            cs.append(C.Case(f, [k], tag="malformed"))
    # rand
    ys = [0, 1, 255, 256, 65535, 65536, 0xFFFFFF, 0x1000000, 0xFF00FF00, 0x00FF00FF, 0x80000000] + [(1 << 32) - d for d in range(1, 9)]
    ys += [rng.below(1 << 32) for _ in range(200)]
    for y in ys:
        for i in range(8):
            for m in (1, 2, 7, 256, 1048576, 56403, (1 << 32) - 1):
                cs.append(C.Case("rand", [y, i, m]))
    cs.append(C.Case("rand", [5, 1, 0], tag="malformed"))
    # deg
    fs = [0, 5243, 529531, 704294, 791675, 844104, 879057, 904023, 922747, 937311, 948962, 958494, 966438, 973160, 978921, 983914,
          988283, 992138, 995565, 998631, 1001391, 1003887, 1006157, 1008229, 1010129, 1011876, 1013490, 1014983, 1016370, 1017662, 1048576]
    for f in fs:
        for d in (-1, 0, 1):
            v = f + d
            if v >= 0:
                for w in (17, 19, 29, 32, 33, 100, 56951, 2, 1, 3):
                    cs.append(C.Case("deg", [v, w]))
    rows, p1 = table_rows()
    nrand = 3 if tier == "quick" else 40
    for (kp, j, s, h, w) in rows:
        P1 = p1.get(kp, 0)
        a = 53591 + j * 997
        if a % 2 == 0:
            a += 1
        b = 10267 * (j + 1)
        ainv = pow(a, -1, 1 << 32)
        xs = {0, 1, kp - 1, kp, kp + 1, (1 << 24) - 1, (1 << 24) + kp - 1, (1 << 32) - 1, (1 << 32) - 5, (1 << 32) - 6}
        for t in ((1 << 32) - 1, (1 << 32) - 2):
            x0 = ((t - b) * ainv) % (1 << 32)
            for d in (-2, -1, 0, 1, 2):
                if 0 <= x0 + d < (1 << 32):
                    xs.add(x0 + d)
        for _ in range(nrand):
            xs.add(rng.below((1 << 24) + kp))
        for x in sorted(xs):
            cs.append(C.Case("tuple", [x, w, j, P1]))
    return cs


def evaluate(cases, rep, tier):
    impl, model, dis = G.diff_impl_model(cases, PROFILES, "tuple")
    both = G.all_profiles_impl(cases, PROFILES)
    counter = []
    # tuples against the Spec, and panic-freedom in both profiles for every X < 2^32
    tc = [(idx, c) for idx, c in enumerate(cases) if c.fn == "tuple"]
    spec = C.run_model([C.Case("spec_tuple", c.args) for _, c in tc])
    encs = []
    for (idx, c), sp in zip(tc, spec):
        for prof in PROFILES:
            i = both[prof][idx]
            if C.canon(i) != C.canon(sp):
                counter.append({"input": c.impl_line(), "expected": sp, "observed": i, "profile": prof, "oracle": "Spec.Tuple (RFC 5.3.5.4)"})
                break
        else:
            encs.append((c, impl[idx].split()[1:]))
    # deg against the Spec (RFC 5.3.5.2) where the Spec's side conditions hold (v < 2^20, W >= 3)
    dc = [(idx, c) for idx, c in enumerate(cases) if c.fn == "deg" and c.args[0] < (1 << 20) and c.args[1] >= 3]
    dspec = C.run_model([C.Case("spec_deg", c.args) for _, c in dc])
    for (idx, c), sp in zip(dc, dspec):
        for prof in PROFILES:
            if C.canon(both[prof][idx]) != C.canon(sp):
                counter.append({"input": c.impl_line(), "expected": sp, "observed": both[prof][idx], "profile": prof, "oracle": "Spec.Tuple.Deg (RFC 5.3.5.2)"})
                break
    # the look-up functions against the RFC snapshot of Table 2 (a sample of K incl. every table size)
    ks = sorted(set([r[0] for r in table_rows()[0]] + [r[0] - 1 for r in table_rows()[0]] + [0, 1, 56403]))
    srow = C.run_model([C.Case("spec_row", [k]) for k in ks])
    got = {}
    for c, i in zip(cases, impl):
        if c.fn in ("sys_kprime", "sys_j", "sys_s", "sys_h", "sys_w") and c.args[0] <= 56403:
            got[(c.fn, c.args[0])] = i
    for k, sp in zip(ks, srow):
        t = sp.split()
        for fn, pos in (("sys_kprime", 1), ("sys_j", 2), ("sys_s", 3), ("sys_h", 4), ("sys_w", 5)):
            g = got.get((fn, k))
            if g is not None and t[0] == "1" and g != f"1 {t[pos]}":
                counter.append({"input": f"{fn} {k}", "expected": f"1 {t[pos]}", "observed": g, "oracle": "RFC 6330 Table 2 (snapshot)"})
    # enc_indices on the implementation's own tuples: must not panic, indices < L, count d + d1
    rows, p1 = table_rows()
    byw = {(w, j): (kp, s, h) for (kp, j, s, h, w) in rows}
    ec = []
    for c, t in encs:
        x, w, j, P1 = c.args
        kp, s, h = byw[(w, j)]
        L = kp + s + h
        ec.append((C.Case("enc_indices", [int(v) for v in t] + [w, L - w, P1]), L, int(t[0]) + int(t[3])))
    eimpl = {p: C.run_impl([e for e, _, _ in ec], p) for p in PROFILES}
    emodel = G.model_for_profile([e for e, _, _ in ec], "dev")
    for n, (e, L, cnt) in enumerate(ec):
        for prof in PROFILES:
            r = eimpl[prof][n].split()
            if r[0] != "1" or len(r) - 1 != cnt or any(int(v) >= L for v in r[1:]):
                counter.append({"input": e.impl_line(), "expected": f"{cnt} indices below {L}, no panic", "observed": eimpl[prof][n], "profile": prof, "oracle": "enc_indices well-formed"})
                break
        if C.canon(eimpl["dev"][n]) != C.canon(emodel[n]):
            dis.append({"input": e.impl_line(), "impl": eimpl["dev"][n], "model": emodel[n], "profile": "dev", "group": "enc_indices"})
    # parameter consistency on the implementation's own answers (primality via the Spec checker)
    vals = {}
    for c, i in zip(cases, impl):
        if c.fn.startswith("sys_") and c.args[0] <= 56403:
            vals.setdefault(c.args[0], {})[c.fn] = i
    kps = sorted(set(r[0] for r in rows))
    primes_needed = set()
    for k, v in vals.items():
        try:
            kp, jj, hh, ss, ww, ll, pp, pp1 = (int(v[f].split()[1]) for f in ("sys_kprime", "sys_j", "sys_h", "sys_s", "sys_w", "sys_l", "sys_p", "sys_p1"))
        except (IndexError, ValueError, KeyError):
            counter.append({"input": f"sys_* {k}", "expected": "values", "observed": str(v), "oracle": "parameter functions return"})
            continue
        least = next(x for x in kps if x >= k)
        ok = kp == least and ll == kp + ss + hh and pp == ll - ww and ww - ss >= 1 and pp >= hh >= 2 and ll < 65536 and pp1 >= pp
        if not ok:
            counter.append({"input": f"sys_* {k}", "expected": "consistent parameters (K' least, L=K'+S+H, P=L-W, B>=1, P>=H>=2, L<65536)", "observed": str(v), "oracle": "C15 parameter relations"})
        primes_needed.update([("S", ss), ("W", ww), ("P1", pp1, pp)])
    pl = sorted(primes_needed, key=str)
    prim = C.run_model([C.Case("spec_is_prime", [t[1]]) for t in pl])
    for t, r in zip(pl, prim):
        if r != "1 1":
            counter.append({"input": f"is_prime {t[1]}", "expected": "prime", "observed": f"{t[0]} = {t[1]} is not prime", "oracle": "Spec.Prime"})
        if t[0] == "P1":
            between = C.run_model([C.Case("spec_is_prime", [q]) for q in range(t[2], t[1])])
            if any(b == "1 1" for b in between):
                counter.append({"input": f"P1 {t[1]} for P {t[2]}", "expected": "least prime >= P", "observed": "a smaller prime exists", "oracle": "Spec.Prime"})
    # producing AND consuming symbols at the top of the 24-bit ESI range on padded blocks (ISI = ESI + K' - K reaches
    # 2^24 + K' - K - 1): encoder and decoder must not panic in either profile and the decoder must return the block
    from props import codecgen as CG
    top = []
    rt = C.Rng(C.get_seed()).fork("C15top")
    for k in (1, 11, 13, 102, 9, 27) if tier == "quick" else (1, 2, 9, 11, 13, 19, 27, 102, 250, 600):
        kp = next(x for x in kps if x >= k)
        pad = kp - k
        lost = rt.below(k)
        reps = sorted(set([(1 << 24) - 1, (1 << 24) - 2, (1 << 24) - max(1, pad), (1 << 24) - pad - 1, (1 << 24) - pad - 2]))
        esis = [e for e in range(k) if e != lost] + [e for e in reps if e >= k]
        data = CG.rand_data(rt, k * 2)
        top.append((CG.sbd_case(rt, k, 2, 1, 1, rt.choice([0, 1, 100000]), [[e] for e in rt.shuffle(esis)], data), data))
    # ... and the symbols produced there are the model's (whose tuples are the RFC's for every ISI < 2^32): a
    # producer and a consumer that both truncate the internal id to 24 bits agree with each other, not with the RFC
    topw = []
    for (c, data) in top:
        k = c.args[0]
        kp = next(x for x in kps if x >= k)
        for e in sorted(set([(1 << 24) - 1, (1 << 24) - max(1, kp - k), (1 << 24) - (kp - k) - 1])):
            if e >= k:
                topw.append(C.Case("repair_window", [k * 2, 2, 1, 1, 1, 0, e - k, 1] + data))
    wi, wm, wdis = G.diff_impl_model(topw, PROFILES, "top-of-range repair symbols")
    for d in wdis[:3]:
        counter.append({"input": d["input"][:400], "expected": "the repair symbol of the RFC tuple for ISI = ESI + K' - K (model): " + str(d.get("model"))[:80], "observed": str(d.get("impl"))[:80], "profile": d.get("profile"), "oracle": "C15: tuples for every internal symbol id reachable from a 24-bit ESI are the RFC's"})
    for prof in PROFILES:
        for (c, data), r in zip(top, C.run_impl_crashsafe([c for c, _ in top], prof, chunk=1, timeout=600)):
            t = r.split()
            nb = c.args[5]
            if t[0] != "1":
                counter.append({"input": c.impl_line()[:400], "expected": "no panic when consuming repair symbols with ESIs up to 2^24-1 on a padded block", "observed": r[:80], "profile": prof, "oracle": "C15: producing or consuming any symbol reachable from a 24-bit ESI never panics"})
                break
            if t[nb] == "1" and [int(x) for x in t[1 + nb :]] != data:
                counter.append({"input": c.impl_line()[:400], "expected": "the block", "observed": "different bytes", "profile": prof, "oracle": "C15/C01: symbols at the top of the ESI range"})
                break
    nt = len(set(c.key() for c in cases if c.fn == "tuple"))
    kinds = {}
    for c in cases:
        kinds[c.fn] = kinds.get(c.fn, 0) + 1
    return {"disagreements": dis, "counterexamples": counter,
            "stats": {"evaluations": len(cases) * 4 + len(tc) + 3 * len(ec), "distinct_nontrivial": nt, "exhaustive": False,
                      "exhaustive_part": "the 8 look-up functions over K = 0..56403",
                      "samples": [tc[7][1].impl_line() + " -> " + impl[tc[7][0]], ec[3][0].impl_line() + " -> " + eimpl["release"][3]],
                      "top_of_esi_range_decodes": len(top) * len(PROFILES), "input_distribution": kinds}}


def kernel_ok(c):
    return True


def search(rng, rep, tier, disagreements):
    return evaluate(cases(rng, "thorough"), rep, "thorough")["counterexamples"]
