"""C16 -- dense and sparse binary matrices implement one abstract matrix.  Operation sequences are run on the real
DenseBinaryMatrix (vs the proved model and the abstract bit-array Spec) and on the real SparseBinaryMatrix (vs the
Spec, on phase-structured sequences admissible for the sparse implementation); row and column query answers are
compared as sets.  Inadmissible operations form a separate stream where only 'panics, never a wrong answer' counts."""
import common as C
from props import generic as G

MAKE_TARGETS = ["Props/C16.vo", "Props/C16s.vo"]
PROPS = ["C16", "C16s"]
PROFILES = ("release", "dev")
RULE = ("shapes with widths 1,2,63,64,65,100,127,128,129,200 and heights >= widths (plus small ones); dense: random "
        "sequences over all 14 operations incl. column swaps across word boundaries, resizes to multiples of 64 followed by "
        "last-row queries, empty ranges at the right edge; sparse: construction phase (sets), indexed phase (swaps, "
        "freezes growing the tail across word boundaries, column queries, single-entry eliminations), un-indexed phase "
        "(row additions with start_col in {0, first dense}, resize, tail queries), generated against a bit-array mirror "
        "that tracks undefined cells and stale columns; non-trivial = a sequence with at least 5 mutating operations")
TRUSTED = [
    "Coq 8.16.1 kernel + vm_compute",
    "Spec/BitMatrix.v as the interface's meaning (incl. its 'undefined left of start_col' clause)",
    "Spec/SparseAdm.v: the admissibility predicate of the sparse implementation (its documented asserts and unimplemented! refusals, phase and staleness tracked in a ghost state)",
    "extraction (ExtrOcamlBasic only) + ocamlopt; sample cross-checked in the kernel",
    "benchmarking feature exports (BinaryMatrix, DenseBinaryMatrix, SparseBinaryMatrix) + to_octet_vec hook",
]
ASSUMPTIONS = ["width-0 matrices are outside the domain (resize to width 0 asserts in the dense matrix; the solver never does it)"]

WIDTHS = [1, 2, 3, 63, 64, 65, 100, 127, 128, 129, 200]


def enc(ops):
    out = []
    for op in ops:
        out.append(len(op))
        out.extend(op)
    return out


def dense_seq(rng, tier, malformed):
    w = rng.choice(WIDTHS + [rng.range(1, 70)] * 6)
    h = rng.choice([w, w + 1, w + rng.below(20), max(1, w // 2), 1, 2]) if w <= 70 else rng.choice([w, 2, 5, w + 1])
    ops = []
    ch, cw = h, w
    for _ in range(rng.range(8, 40) if w <= 70 else rng.range(4, 12)):
        k = rng.below(16)
        r = lambda: rng.below(ch)
        c = lambda: rng.below(cw)
        if malformed and rng.below(9) == 0:
            ops.append(rng.choice([[2, ch, 0], [2, 0, cw], [7, r(), 0, cw + 1], [8, ch, 0, cw], [5, 0, 0, 0], [6, ch + 1, cw], [3, ch, 0], [4, 0, cw, 0]]))
            break
        if k < 4:
            ops.append([1, r(), c(), rng.choice([0, 1, 1, 255])])
        elif k == 4:
            ops.append([2, r(), c()])
        elif k == 5:
            ops.append([3, r(), r()])
        elif k == 6:
            ops.append([4, c(), c(), 0])
        elif k == 7 and ch >= 2:
            d = r()
            s = (d + 1 + rng.below(ch - 1)) % ch
            ops.append([5, d, s, rng.choice([0, 0, c()])])
            if ops[-1][3] > 0:
                break  # cells left of start_col become undefined: stop the dense sequence here
        elif k == 8:
            nh = rng.choice([ch, max(1, ch - rng.below(3)), rng.range(1, ch)])
            nw = rng.choice([cw, 64 if cw >= 64 else cw, 128 if cw >= 128 else cw, rng.range(1, cw)])
            ops.append([6, nh, nw])
            ch, cw = nh, nw
        elif k == 9:
            s = rng.choice([0, c(), cw])
            e = rng.choice([cw, rng.range(s, cw), s])
            ops.append([7, r(), s, e])
        elif k == 10:
            s = rng.choice([0, c(), cw])
            e = rng.choice([cw, rng.range(s, cw)])
            ops.append([8, rng.choice([r(), ch - 1]), s, e])
        elif k == 11:
            s = rng.below(ch + 1)
            ops.append([9, c(), s, rng.range(s, ch)])
        elif k == 12:
            ops.append([10, r(), rng.choice([0, c()])])
        elif k == 13:
            ops.append([11, r(), rng.choice([0, c()])])
        else:
            ops.append(rng.choice([[12, c()], [13], [14]]))
    return [h, w, 0, len(ops)] + enc(ops)


class Mirror:
    """bit-array mirror used to GENERATE sequences admissible for the sparse implementation"""

    def __init__(self, h, w, nd):
        self.h, self.w, self.nd = h, w, nd
        self.m = [[0] * w for _ in range(h)]
        self.undef = [[False] * w for _ in range(h)]
        self.indexed = False
        self.stale = set()

    def fd(self):
        return self.w - self.nd


def sparse_seq(rng, tier):
    w = rng.choice([3, 5, 9, 17, 30, 63, 64, 65, 70, 100, 129, 150, 150, 210])
    h = w + rng.below(8)
    nd = rng.choice([0, 0, 1, 2, min(w - 1, 3)] + ([64] if w >= 70 else []) + ([128, 64] if w >= 140 else []))
    M = Mirror(h, w, nd)
    ops = []
    # construction
    for _ in range(rng.range(w, 3 * w) if w <= 70 else rng.range(w // 2, w)):
        i, j = rng.below(h), rng.below(w)
        v = rng.choice([1, 1, 1, 0])
        M.m[i][j] = v
        ops.append([1, i, j, v])
    for _ in range(rng.below(6)):
        i = rng.below(h)
        if M.fd() > 0:
            s = rng.below(M.fd())
            e = rng.range(s, M.fd())
            ops.append(rng.choice([[7, i, s, e], [8, i, s, e]]))
        ops.append([2, rng.below(h), rng.below(w)])
    # indexed phase
    ops.append([13])
    M.indexed = True
    for _ in range(rng.range(5, 40)):
        k = rng.below(10)
        if k < 2 and M.fd() >= 2:
            a, b = rng.below(M.fd()), rng.below(M.fd())
            for row in M.m:
                row[a], row[b] = row[b], row[a]
            sa, sb = a in M.stale, b in M.stale
            M.stale.discard(a); M.stale.discard(b)
            if sa: M.stale.add(b)
            if sb: M.stale.add(a)
            ops.append([4, a, b, 0])
        elif k < 4:
            a, b = rng.below(h), rng.below(h)
            M.m[a], M.m[b] = M.m[b], M.m[a]
            ops.append([3, a, b])
        elif k < 6 and M.fd() >= 1:
            col = rng.below(M.fd())
            if col not in M.stale:
                s = rng.below(h)
                ops.append([9, col, s, rng.range(s, h)])
        elif k == 6 and M.fd() >= 2 and M.nd < 200:
            ops.append([12, M.fd() - 1])
            M.nd += 1
        elif k == 7 and M.fd() >= 1:
            # single-entry elimination: a source row with exactly one 1 among the sparse columns
            srcs = [i for i in range(h) if sum(M.m[i][: M.fd()]) == 1]
            if srcs:
                s = rng.choice(srcs)
                col = M.m[s][: M.fd()].index(1)
                dests = [i for i in range(h) if i != s and M.m[i][col] == 1]
                if dests:
                    d = rng.choice(dests)
                    M.m[d] = [x ^ y for x, y in zip(M.m[d], M.m[s])]
                    M.stale.add(col)
                    ops.append([5, d, s, 0])
        elif k == 8:
            ops.append([2, rng.below(h), rng.below(w)])
            if rng.below(3) == 0:
                # enabling the column index again while it is enabled rebuilds it from the rows (the interface does
                # not forbid it): stale columns become valid again
                ops.append([13])
                M.stale = set()
        elif k == 9 and M.fd() >= 1:
            i = rng.below(h)
            s = rng.below(M.fd())
            ops.append([7, i, s, rng.range(s, M.fd())])
    # a tail created at an exact word boundary must still be re-spaced by the next freeze
    if nd in (64, 128) and M.fd() >= 2:
        ops.append([12, M.fd() - 1])
        M.nd += 1
        for _ in range(4):
            ops.append([2, rng.below(h), rng.range(M.fd(), w - 1)])
    # wide matrices: keep freezing until the dense tail spans a third word per row (129+ columns)
    if w >= 129:
        while M.nd < (132 if w < 200 else 196) and M.fd() >= 2:
            ops.append([12, M.fd() - 1])
            M.nd += 1
            if rng.below(6) == 0:
                ops.append([2, rng.below(h), rng.range(M.fd(), w - 1)])
    # un-indexed phase
    ops.append([14])
    M.indexed = False
    # full read-back of every row (sparse part through the row iterator, dense tail through the packed sub-row):
    # a cell corrupted by a freeze / swap / elimination in ANY row is seen, not only in the rows later ops happen to read
    for i in range(M.h):
        if M.fd() >= 1:
            ops.append([8, i, 0, M.fd()])
        if M.nd > 0:
            ops.append([10, i, M.fd()])
    for _ in range(rng.range(5, 30)):
        k = rng.below(10)
        if k < 4 and M.h >= 2:
            d = rng.below(M.h)
            s = (d + 1 + rng.below(M.h - 1)) % M.h
            sc = rng.choice([0, 0, M.fd()])
            if any(M.undef[s]) or (sc == 0 and any(M.undef[d])):
                continue
            if sc == 0:
                M.m[d] = [x ^ y for x, y in zip(M.m[d], M.m[s])]
            elif M.nd > 0:
                for j in range(M.fd(), M.w):
                    M.m[d][j] ^= M.m[s][j]
                for j in range(M.fd()):
                    M.undef[d][j] = True
            else:
                continue
            ops.append([5, d, s, sc])
        elif k == 4:
            i, j = rng.below(M.h), rng.below(M.w)
            if not M.undef[i][j]:
                ops.append([2, i, j])
        elif k == 5 and M.nd > 0:
            ops.append(rng.choice([[10, rng.below(M.h), M.fd()], [11, rng.below(M.h), M.fd()]]))
        elif k == 5:
            ops.append([11, rng.below(M.h), M.w])  # no dense columns: the answer is the empty list
        elif k == 6:
            a, b = rng.below(M.h), rng.below(M.h)
            M.m[a], M.m[b] = M.m[b], M.m[a]
            M.undef[a], M.undef[b] = M.undef[b], M.undef[a]
            ops.append([3, a, b])
        elif k == 7:
            nh = rng.range(max(1, M.h - 3), M.h)
            nw = rng.choice([M.w, M.w, rng.range(1, M.fd()) if M.fd() >= 1 else M.w])
            ops.append([6, nh, nw])
            M.m = [r[:nw] for r in M.m[:nh]]
            M.undef = [r[:nw] for r in M.undef[:nh]]
            M.h = nh
            if nw != M.w:
                M.nd = 0
            M.w = nw
        elif k == 8 and M.fd() >= 1:
            i = rng.below(M.h)
            if not any(M.undef[i]):
                s = rng.below(M.fd())
                ops.append(rng.choice([[7, i, s, rng.range(s, M.fd())], [8, i, s, rng.range(s, M.fd())]]))
    # final read-back of every row (dense tail always; sparse part where every cell is still defined)
    for i in range(M.h):
        if M.nd > 0:
            ops.append([10, i, M.fd()])
        if M.fd() >= 1 and not any(M.undef[i]):
            ops.append([8, i, 0, M.fd()])
    return [h, w, nd, len(ops)] + enc(ops)


def cases(rng, tier):
    cs = []
    n = 120 if tier == "quick" else 1500
    for i in range(n):
        mal = i % 6 == 5
        cs.append(C.Case("bm_dense", dense_seq(rng, tier, mal), tag="malformed" if mal else "dense"))
    # the witnesses of the two repaired dense defects and their neighbours
    for a in ([64, 64, 0, 2, 3, 6, 64, 64, 4, 8, 63, 0, 64], [1, 64, 0, 1, 4, 7, 0, 64, 64], [128, 128, 0, 2, 3, 6, 100, 64, 4, 8, 99, 0, 64],
              [64, 64, 0, 2, 3, 6, 64, 64, 4, 7, 63, 64, 64]):
        cs.append(C.Case("bm_dense", a, tag="dense"))
    for i in range(n):
        cs.append(C.Case("bm_sparse", sparse_seq(rng, tier), tag="sparse"))
    # witnesses of the two repaired sparse defects
    cs.append(C.Case("bm_sparse", [11, 5, 0, 4, 4, 1, 3, 4, 1, 1, 13, 2, 12, 4, 3, 2, 3, 4], tag="sparse"))
    cs.append(C.Case("bm_sparse", [4, 3, 2, 4, 4, 1, 2, 2, 1, 1, 13, 4, 7, 0, 0, 1, 3, 2, 0, 0], tag="sparse"))
    cs.append(C.Case("bm_sparse", [2, 2, 0, 1, 3, 11, 0, 2], tag="sparse"))
    # debug/release agreement after disable + enable (staleness marks are reset)
    cs.append(C.Case("bm_sparse", [3, 3, 0, 8, 4, 1, 0, 0, 1, 4, 1, 1, 0, 1, 1, 13, 4, 5, 1, 0, 0, 1, 14, 1, 13, 4, 9, 0, 0, 3, 3, 2, 1, 0], tag="sparse"))
    return cs


def evaluate(cs, rep, tier):
    dense = [c for c in cs if c.fn == "bm_dense"]
    sparse = [c for c in cs if c.fn == "bm_sparse"]
    impl, model, dis = G.diff_impl_model(dense, PROFILES, "dense")
    counter = []
    spec_d = C.run_model([C.Case("spec_bm", c.args) for c in dense])
    for c, i, sp in zip(dense, impl, spec_d):
        if c.tag == "malformed":
            continue
        if sp.split()[-2:] in (["1", "3"],) or sp.rstrip().endswith(" 1 3") or sp.rstrip().endswith(" 1 2"):
            continue  # the generator produced an op outside the Spec's admissibility: not judged
        if i != sp:
            counter.append({"input": c.impl_line()[:700], "expected": sp[:300], "observed": i[:300], "oracle": "Spec.BitMatrix (dense)"})
    s_impl, s_model, s_dis = G.diff_impl_model(sparse, PROFILES, "sparse")
    dis = dis + s_dis
    both = {p: C.run_impl(sparse, p) for p in PROFILES}
    spec_s = C.run_model([C.Case("spec_bm", [c.args[0], c.args[1], 0] + c.args[3:]) for c in sparse])
    judged = 0
    for idx, (c, sp) in enumerate(zip(sparse, spec_s)):
        if sp.rstrip().endswith(" 1 3") or sp.rstrip().endswith(" 1 2"):
            continue
        judged += 1
        for p in PROFILES:
            i = both[p][idx]
            if i != sp:
                ti, ts = i.split(), sp.split()
                pos = next((k for k, (x, y) in enumerate(zip(ti, ts)) if x != y), min(len(ti), len(ts)))
                counter.append({"input": c.impl_line()[:900], "expected": " ".join(ts[max(0, pos - 4) : pos + 8]), "observed": " ".join(ti[max(0, pos - 4) : pos + 8]), "profile": p, "oracle": "Spec.BitMatrix (sparse), first difference at output value %d" % pos})
                break
    nt = len(set(c.key() for c in cs if c.args[3] >= 5))
    return {"disagreements": dis, "counterexamples": counter,
            "stats": {"evaluations": len(dense) * 5 + len(sparse) * 3, "distinct_nontrivial": nt,
                      "samples": [dense[0].impl_line()[:200] + " ... -> " + impl[0][:80]],
                      "input_distribution": {"dense_sequences": len(dense), "sparse_sequences": len(sparse), "sparse_judged_by_spec": judged,
                                             "malformed": sum(1 for c in cs if c.tag == "malformed"), "ops": sum(c.args[3] for c in cs)}}}


def kernel_ok(c):
    return c.fn == "bm_dense" and len(c.args) < 150 and c.args[0] * c.args[1] <= 400


def search(rng, rep, tier, disagreements):
    return evaluate(cases(rng, "thorough"), rep, "thorough")["counterexamples"]
