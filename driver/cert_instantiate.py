#!/usr/bin/env python3
# usage: instantiate.py K planfile out.v   (what the driver does with Proofs/Cert_template.v.txt)
import sys
K, planfile, out = sys.argv[1], sys.argv[2], sys.argv[3]
toks = open(planfile).read().split()
assert toks[0] == '1'
nums = toks[1:]
chunks = ["; ".join(nums[i:i+1000]) for i in range(0, len(nums), 1000)]
plan = "] ++\n [".join(chunks)
tpl = open('/tmp/ag/cert/coq/Proofs/Cert_template.v.txt').read()
open(out, 'w').write(tpl.replace('@K@', K).replace('@PLAN@', plan))
