#!/usr/bin/env python3
"""vcheck: decide one property.  Usage: check.py <ID> <quick|thorough>   (see DESIGN.md 3.5)"""
import importlib
import json
import os
import sys
import time

sys.path.insert(0, os.path.dirname(os.path.abspath(__file__)))
import common as C  # noqa: E402


def load_corpus(prop_id):
    path = os.path.join(C.CORPUS, f"{prop_id}.cases")
    cases = []
    if os.path.exists(path):
        for line in open(path):
            line = line.strip()
            if not line or line.startswith("#"):
                continue
            t = line.split()
            cases.append(C.Case(t[0], t[1:], tag="corpus"))
    return cases


def main():
    prop_id, tier = sys.argv[1], (sys.argv[2] if len(sys.argv) > 2 else os.environ.get("VERIF_TIER", "quick"))
    seed = C.get_seed()
    rep = C.Report(prop_id, tier, seed)
    P = importlib.import_module(f"props.{prop_id}")
    rng = C.Rng(seed).fork(prop_id)
    known, fixed = C.load_known_findings()
    known = [k for k in known if k["property"] == prop_id]

    broken = []  # (what, detail) proof obligations / correspondences that no longer check
    obligations = 0
    discharged = 0
    trusted = list(getattr(P, "TRUSTED", []))
    checker_cmd = "make -C coq " + " ".join(P.MAKE_TARGETS)

    # ------------------------------------------------------------ build
    with C.BuildLock():
        ok, out = C.run_translator()
        if not ok:
            broken.append(("translator", out[-3000:]))
        try:
            not_located = json.load(open(os.path.join(C.COQ, "Gen", "NOTES.json"))).get("not_located", [])
        except (OSError, ValueError):
            not_located = []
        if not_located:
            rep.log("translator: constants not located in the current source (pinned value used; their tie is the "
                    "boundary correspondence only): " + ", ".join(not_located))
        props_files = list(getattr(P, "PROPS", [prop_id]))
        names = []
        for pf in props_files:
            names += C.theorem_names(pf)
        obligations = len(names)
        ok_proof, out = C.make_targets(P.MAKE_TARGETS)
        if not ok_proof:
            broken.append(("proof:" + " ".join(P.MAKE_TARGETS), extract_error(out)))
        hp = C.hygiene()
        if hp:
            broken.append(("hygiene", "; ".join(hp[:20])))
        for pf in props_files:
            okp, msg = C.pins_ok(pf)
            if not okp:
                broken.append(("pins", msg))
        axioms_seen = set()
        if ok_proof:
            assum, raw = C.assumptions_of(prop_id, names, props_files)
            if assum is None:
                broken.append(("assumptions", raw[-2000:]))
            else:
                for n in names:
                    txt = assum.get(n, "")
                    if "Closed under the global context" in txt:
                        discharged += 1
                    else:
                        ax = set(a for a in __import__("re").findall(r"^(\S+)\s*:", txt, flags=__import__("re").M))
                        axioms_seen |= ax
                        if ax and ax <= C.ALLOWED_AXIOMS:
                            discharged += 1
                        else:
                            broken.append(("assumptions:" + n, txt.strip()[:500]))
        ok_model, out = C.build_model()
        if not ok_model:
            broken.append(("model-build", extract_error(out)))
        profiles = getattr(P, "PROFILES", ("release",))
        ok_h, out = C.build_harness(profiles)
        if not ok_h:
            rep.log("harness build failed (does /repo compile?):\n" + out[-3000:])
            rep.coverage = {"obligations": max(1, obligations), "discharged": discharged, "checker_cmd": checker_cmd,
                            "trusted_base": trusted, "explanation": "harness build failed"}
            rep.add_violation("unproved", {"failed_obligation": "harness-build", "detail": out[-3000:]})
            return rep.finish()

    # ------------------------------------------------------------ cases
    t_cases = time.time()
    corpus = load_corpus(prop_id)
    gen = P.cases(rng, tier)
    kani_stats = {}
    if ok_model and os.environ.get("VERIF_NO_KANI") != "1":
        import kani as K
        if prop_id in K.HARNESSES:
            kextra, kbroken, kani_stats = K.run(prop_id, rng.fork("kani"), rep)
            broken += kbroken
            corpus = kextra + corpus  # a concrete playback is judged like any other case (implementation vs Spec)
    cases = corpus + gen
    rep.log(f"{len(cases)} cases ({len(corpus)} corpus), proofs {'ok' if ok_proof else 'BROKEN'}")
    counter = []  # counterexamples against the property on the real code
    disagreements = []  # model vs implementation
    stats = {}
    if ok_model:
        res = P.evaluate(cases, rep, tier)  # -> dict(disagreements=[...], counterexamples=[...], stats=...)
        disagreements = res["disagreements"]
        counter = res["counterexamples"]
        stats = res.get("stats", {})
        # kernel cross-check of the extracted model on a seeded sample
        ksample = rng.fork("kernel").shuffle(cases)[: (150 if tier == "quick" else 600)]
        ksample = [c for c in ksample if getattr(P, "kernel_ok", lambda c: True)(c)]
        try:
            kres = C.run_kernel(ksample)
            mres = C.run_model(ksample)
            bad = [(c, k, m) for c, k, m in zip(ksample, kres, mres) if C.canon(k) != C.canon(m) or k.split()[:1] != m.split()[:1]]
            stats["kernel_crosschecked"] = len(ksample)
            if bad:
                c, k, m = bad[0]
                broken.append(("extraction", f"kernel vs extracted model differ on {c}: {k} vs {m}"))
        except RuntimeError as e:
            broken.append(("kernel-eval", str(e)[-1500:]))
    # ------------------------------------------------------------ search when something broke
    if (broken or disagreements) and not counter and ok_model and hasattr(P, "search"):
        rep.log("searching for a failing input (obligation or correspondence broke)")
        counter = P.search(rng.fork("search"), rep, tier, disagreements)

    # ------------------------------------------------------------ known findings
    new_counter = []
    for ce in counter:
        k = next((k for k in known if k["case"] == ce["input"]), None)
        if k is None:
            new_counter.append(ce)
    if hasattr(P, "known_reproduces"):
        for k in known:
            if P.known_reproduces(k):
                print(f"KNOWN-FINDING: property={prop_id} {k['case']} :: {k['what']}", flush=True)
    else:
        for k in known:
            print(f"KNOWN-FINDING: property={prop_id} {k['case']} :: {k['what']}", flush=True)

    # ------------------------------------------------------------ verdict
    if new_counter:
        first = dict(new_counter[0])
        first["further_counterexamples"] = [c["input"] for c in new_counter[1:20]]
        first["broken_obligations"] = [w for w, _ in broken]
        rep.add_violation("counterexample", first)
    if not new_counter:
        known_inputs = set(k["case"] for k in known)
        unexplained = [d for d in disagreements if d["input"] not in known_inputs]
        for what, detail in broken:
            rep.add_violation("unproved", {"failed_obligation": what, "detail": detail})
        if unexplained and not broken:
            d = unexplained[0]
            rep.add_violation("unproved", {"failed_obligation": "correspondence:" + d.get("group", prop_id), "input": d["input"],
                                           "observed": d.get("impl"), "model": d.get("model"),
                                           "detail": f"{len(unexplained)} model/implementation disagreements"})
        elif unexplained:
            rep.violations[0][1]["first_disagreement"] = unexplained[0]

    cov = {
        "obligations": max(1, obligations),
        "discharged": discharged,
        "checker_cmd": checker_cmd,
        "trusted_base": trusted,
        "evaluations": stats.get("evaluations", len(cases)),
        "distinct_nontrivial": stats.get("distinct_nontrivial", 0),
        "rule": getattr(P, "RULE", ""),
        "samples": stats.get("samples", [repr(c) for c in cases[:5]]),
        "exhaustive": bool(stats.get("exhaustive", False)),
        "theorems": names,
        "axioms": sorted(axioms_seen),
        "model_vs_impl_disagreements": len(disagreements),
        "counterexamples": len(counter),
        "case_seconds": round(time.time() - t_cases, 2),
        "constants_not_located_by_translator": not_located,
        "symbolic_correspondence": kani_stats,
    }
    for k, v in stats.items():
        cov.setdefault(k, v)
    rep.coverage = cov
    rep.assumptions = list(getattr(P, "ASSUMPTIONS", []))
    return rep.finish()


def extract_error(out):
    lines = out.split("\n")
    for i, l in enumerate(lines):
        if l.startswith("File ") and i + 1 < len(lines) and "Error" in "\n".join(lines[i : i + 3]):
            return "\n".join(lines[i : i + 14])
    return out[-2500:]


if __name__ == "__main__":
    sys.exit(main())
