#!/usr/bin/env python3
"""rs2v: regenerate coq/Gen/*.v from the *current* /repo sources.

Extracts every literal table and numeric constant that the Coq development depends on.  It is a
tokenising extractor (comments stripped, whitespace/format insensitive); it fails loudly when an
expected item is missing or malformed.  Output files are rewritten only when their content changes
so that `make` stays incremental.

Usage: rs2v.py <repo> <outdir>
"""
import os
import re
import sys


class TranslateError(Exception):
    pass


def strip_comments(src: str) -> str:
    src = re.sub(r"/\*.*?\*/", " ", src, flags=re.S)
    src = re.sub(r"//[^\n]*", " ", src)
    return src


def read(repo, rel):
    with open(os.path.join(repo, rel)) as f:
        return strip_comments(f.read())


def int_lit(tok: str) -> int:
    t = tok.replace("_", "")
    t = re.sub(r"(u8|u16|u32|u64|usize|i32|i64)$", "", t)
    if t.startswith("0x"):
        return int(t, 16)
    if t.startswith("0b"):
        return int(t, 2)
    return int(t)


_TYPES = r"(?:u8|u16|u32|u64|u128|usize|i8|i16|i32|i64|i128|isize)"
_MAXES = {"u8": 2**8 - 1, "u16": 2**16 - 1, "u32": 2**32 - 1, "u64": 2**64 - 1, "usize": 2**64 - 1}
NAMED_CONSTS = {}  # name -> expression text, collected from every src/*.rs (see collect_named_consts)


def eval_const_expr(expr: str, depth: int = 0) -> int:
    """evaluate a Rust constant expression: integer literals (decimal / hex / binary / octal, digit-group
    underscores, type suffixes), + - * / % << >> & | ^, parentheses, `as <int type>` casts (value-preserving
    for the constants concerned; checked against the type's range), `<int type>::MAX`, and names of `const`
    items of the crate (resolved recursively)."""
    if depth > 8:
        raise TranslateError(f"constant expression too deeply nested: {expr!r}")
    e = " " + expr.strip() + " "
    e = re.sub(r"\b(%s)::MAX\b" % _TYPES[3:-1], lambda m: str(_MAXES.get(m.group(1), 0)), e)
    casts = re.findall(r"\bas\s+(%s)\b" % _TYPES[3:-1], e)
    e = re.sub(r"\bas\s+%s\b" % _TYPES, " ", e)
    e = re.sub(r"\b(?:crate|self|super)::(?:\w+::)*", "", e)

    def lit(m):
        return str(int_lit(m.group(0)))

    e = re.sub(r"\b(?:0x[0-9a-fA-F_]+|0b[01_]+|0o[0-7_]+|[0-9][0-9_]*)%s?\b" % _TYPES, lit, e)

    def name(m):
        n = m.group(0)
        if n not in NAMED_CONSTS:
            raise TranslateError(f"unsupported constant expression: {expr!r} (unknown name {n})")
        return "(" + str(eval_const_expr(NAMED_CONSTS[n], depth + 1)) + ")"

    e = re.sub(r"\b[A-Za-z_]\w*\b", name, e)
    if not re.fullmatch(r"[0-9\s\+\-\*/%<>&\|\^\(\)]+", e):
        raise TranslateError(f"unsupported constant expression: {expr!r}")
    e = re.sub(r"(?<![<>/])/(?!/)", "//", e)
    try:
        v = int(eval(e, {"__builtins__": {}}, {}))
    except Exception as ex:  # noqa: BLE001
        raise TranslateError(f"cannot evaluate constant expression {expr!r}: {ex}")
    for t in casts:
        if t in _MAXES and not (0 <= v <= _MAXES[t]):
            raise TranslateError(f"cast in constant expression {expr!r} is not value-preserving")
    return v


def collect_named_consts(repo):
    NAMED_CONSTS.clear()
    d = os.path.join(repo, "src")
    for fn in sorted(os.listdir(d)):
        if fn.endswith(".rs"):
            src = strip_comments(open(os.path.join(d, fn)).read())
            for m in re.finditer(r"\bconst\s+([A-Z][A-Z0-9_]*)\s*:\s*%s\s*=\s*([^;\[\]{}]+);" % _TYPES, src):
                NAMED_CONSTS.setdefault(m.group(1), m.group(2))


def split_top(body: str):
    """split at top-level commas"""
    out, depth, cur = [], 0, ""
    for c in body:
        if c in "([{":
            depth += 1
        elif c in ")]}":
            depth -= 1
        if c == "," and depth == 0:
            out.append(cur)
            cur = ""
        else:
            cur += c
    if cur.strip():
        out.append(cur)
    return [x.strip() for x in out if x.strip()]


def find_array(src: str, name: str, kind: str = "const|static|let"):
    """return the bracketed initializer text of `const NAME: [...] = [ ... ];`"""
    m = re.search(r"\b(?:pub\s+)?(?:%s)\s+(?:mut\s+)?%s\s*:\s*\[[^=]*?\]\s*=\s*\[" % (kind, re.escape(name)), src)
    if not m:
        raise TranslateError(f"array {name} not found")
    i = m.end() - 1
    depth = 0
    j = i
    while j < len(src):
        c = src[j]
        if c == "[":
            depth += 1
        elif c == "]":
            depth -= 1
            if depth == 0:
                return src[i + 1 : j]
        j += 1
    raise TranslateError(f"array {name}: unbalanced brackets")


def flat_ints(body: str):
    return [eval_const_expr(t) for t in split_top(body)]


def tuple_rows(body: str, arity: int):
    rows = []
    for m in re.finditer(r"\(([^()]*)\)", body):
        vals = [eval_const_expr(t) for t in split_top(m.group(1))]
        if len(vals) != arity:
            raise TranslateError(f"tuple arity {len(vals)} != {arity}")
        rows.append(tuple(vals))
    rest = re.sub(r"\(([^()]*)\)", "", body)
    if re.search(r"[0-9]", rest):
        raise TranslateError("stray literals outside tuples")
    return rows


def find_const(src: str, name: str) -> int:
    m = re.search(r"\b(?:pub(?:\([a-z]+\))?\s+)?(?:const|static)\s+%s\s*:\s*\w+\s*=\s*([^;]+);" % re.escape(name), src)
    if not m:
        raise TranslateError(f"const {name} not found")
    return eval_const_expr(m.group(1))


def nlist(vals, per_line=12):
    lines = []
    for i in range(0, len(vals), per_line):
        lines.append("; ".join(str(v) for v in vals[i : i + per_line]))
    return "[" + ";\n   ".join(lines) + "]%N"


def write_if_changed(path, text):
    old = None
    if os.path.exists(path):
        with open(path) as f:
            old = f.read()
    if old != text:
        with open(path, "w") as f:
            f.write(text)
        return True
    return False


HEADER = "(* GENERATED by translator/rs2v.py from /repo sources -- do not edit *)\nFrom Coq Require Import NArith List.\nImport ListNotations.\nOpen Scope N_scope.\n\n"


def gen_octet(repo):
    src = read(repo, "src/octet.rs")
    exp = flat_ints(find_array(src, "OCT_EXP"))
    log = flat_ints(find_array(src, "OCT_LOG"))
    if len(exp) != 510:
        raise TranslateError(f"OCT_EXP has {len(exp)} entries, expected 510")
    if len(log) != 256:
        raise TranslateError(f"OCT_LOG has {len(log)} entries, expected 256")
    for v in exp + log:
        if not (0 <= v < 256):
            raise TranslateError("octet table entry out of u8 range")
    return HEADER + f"Definition OCT_EXP : list N :=\n  {nlist(exp)}.\n\nDefinition OCT_LOG : list N :=\n  {nlist(log)}.\n"


def gen_rand(repo):
    src = read(repo, "src/rng.rs")
    out = HEADER
    for name in ("V0", "V1", "V2", "V3"):
        v = flat_ints(find_array(src, name))
        if len(v) != 256:
            raise TranslateError(f"{name} has {len(v)} entries")
        for x in v:
            if not (0 <= x < 2**32):
                raise TranslateError("V table entry out of u32 range")
        out += f"Definition {name} : list N :=\n  {nlist(v, 6)}.\n\n"
    return out


def gen_sys(repo):
    src = read(repo, "src/systematic_constants.rs")
    rows = tuple_rows(find_array(src, "SYSTEMATIC_INDICES_AND_PARAMETERS"), 5)
    p1 = tuple_rows(find_array(src, "P1_TABLE"), 2)
    if len(rows) != 477 or len(p1) != 477:
        raise TranslateError(f"Table 2 has {len(rows)} rows / P1 table {len(p1)} rows, expected 477")
    out = HEADER
    out += "(* (K', J, S, H, W) *)\nDefinition TABLE2 : list (N * N * N * N * N) :=\n  [" + ";\n   ".join(
        "(%d, %d, %d, %d, %d)" % r for r in rows
    ) + "]%N.\n\n"
    out += "(* (K', P1) *)\nDefinition P1_TABLE : list (N * N) :=\n  [" + ";\n   ".join("(%d, %d)" % r for r in p1) + "]%N.\n"
    return out


# Values at the pinned commit of the constants that are located by their syntactic context.  Used ONLY
# when no pattern finds the constant in the current source (a restructured function): the constant is then
# reported in <outdir>/NOTES.json as "not located" and its tie to /repo is the boundary correspondence
# of the property alone (the checks print this and record it in the evidence).
PINNED = {
    "MAX_TRANSFER_LENGTH": 942574504275, "ESI_LIMIT": 16777216, "TUPLE_A_BASE": 53591, "TUPLE_A_MUL": 997,
    "TUPLE_B_MUL": 10267, "TUPLE_Y_MOD": 4294967296, "TUPLE_V_RANGE": 1048576, "DEG_V_LIMIT": 1048576,
    "DEFAULT_MEMORY": 10485760,
}


def fn_body(src: str, name: str) -> str:
    """text of `fn name ... { ... }` (balanced braces); '' if absent"""
    m = re.search(r"\bfn\s+%s\b[^{;]*\{" % re.escape(name), src)
    if not m:
        return ""
    i = m.end() - 1
    depth = 0
    for j in range(i, len(src)):
        if src[j] == "{":
            depth += 1
        elif src[j] == "}":
            depth -= 1
            if depth == 0:
                return src[i : j + 1]
    return ""


def balanced_expr(text: str, pos: int) -> str:
    """the expression starting at pos, up to the first terminator `) , ; { } && ||` at nesting depth 0"""
    depth = 0
    j = pos
    while j < len(text):
        c = text[j]
        if c in "([":
            depth += 1
        elif c in ")]":
            if depth == 0:
                break
            depth -= 1
        elif depth == 0 and (c in ",;{}" or text[j : j + 2] in ("&&", "||")):
            break
        j += 1
    return text[pos:j]


def locate(notes, key, text, patterns):
    """patterns are (prefix regex [, suffix regex], transform): the constant is the balanced expression that
    follows the prefix (and is followed by the suffix, when given)"""
    for pat in patterns:
        rx, tr = pat[0], pat[-1]
        suffix = pat[1] if len(pat) == 3 else None
        for m in re.finditer(rx, text):
            e = balanced_expr(text, m.end())
            if suffix is not None and not re.match(suffix, text[m.end() + len(e):]):
                continue
            try:
                return tr(eval_const_expr(e))
            except TranslateError:
                continue
    notes.append(key)
    return PINNED[key]


def _tuple_b(notes, tup):
    for m in re.finditer(r"let\s+B\s*(?::\s*\w+\s*)?=\s*([^;]+);", tup):
        e = m.group(1)
        m2 = re.fullmatch(r"\s*(.+?)\s*\*\s*\(\s*J\s*\+\s*1\s*\)\s*", e) or re.fullmatch(r"\s*\(\s*J\s*\+\s*1\s*\)\s*\*\s*(.+?)\s*", e)
        if m2:
            try:
                return eval_const_expr(m2.group(1))
            except TranslateError:
                pass
    notes.append("TUPLE_B_MUL")
    return PINNED["TUPLE_B_MUL"]


def gen_consts(repo):
    sysc = read(repo, "src/systematic_constants.rs")
    base = read(repo, "src/base.rs")
    enc = read(repo, "src/encoder.rs")
    out = HEADER
    notes = []
    consts = {}
    consts["MAX_SOURCE_SYMBOLS_PER_BLOCK"] = find_const(sysc, "MAX_SOURCE_SYMBOLS_PER_BLOCK")
    consts["SPARSE_MATRIX_THRESHOLD"] = find_const(enc, "SPARSE_MATRIX_THRESHOLD")
    consts["PLAN_CACHE_CAPACITY"] = find_const(enc, "SOURCE_BLOCK_ENCODING_PLAN_CACHE_CAPACITY")
    ident = lambda v: v  # noqa: E731
    # literals inside function bodies, located by their syntactic context (several spellings each)
    consts["MAX_TRANSFER_LENGTH"] = locate(notes, "MAX_TRANSFER_LENGTH", base, [
        (r"transfer_length\s*<=\s*", ident), (r"transfer_length\s*<\s*(?!=)", lambda v: v - 1),
        (r"transfer_length\s*>\s*(?!=)", ident), (r"transfer_length\s*>=\s*", lambda v: v - 1)])
    consts["ESI_LIMIT"] = locate(notes, "ESI_LIMIT", base, [
        (r"encoding_symbol_id\s*<\s*(?![=<])", ident), (r"encoding_symbol_id\s*<=\s*", lambda v: v + 1),
        (r"encoding_symbol_id\s*>=\s*", ident), (r"encoding_symbol_id\s*>\s*(?![=>])", lambda v: v + 1)])
    tup = fn_body(base, "intermediate_tuple") or base
    ok_a = False
    for m in re.finditer(r"let\s+mut\s+A\s*(?::\s*\w+\s*)?=\s*([^;]+);", tup):
        e = m.group(1)
        m2 = re.fullmatch(r"\s*(.+?)\s*\+\s*J\s*\*\s*(.+?)\s*", e) or re.fullmatch(r"\s*(.+?)\s*\+\s*(.+?)\s*\*\s*J\s*", e)
        m3 = re.fullmatch(r"\s*J\s*\*\s*(.+?)\s*\+\s*(.+?)\s*", e)
        try:
            if m2:
                consts["TUPLE_A_BASE"], consts["TUPLE_A_MUL"] = eval_const_expr(m2.group(1)), eval_const_expr(m2.group(2))
                ok_a = True
            elif m3:
                consts["TUPLE_A_BASE"], consts["TUPLE_A_MUL"] = eval_const_expr(m3.group(2)), eval_const_expr(m3.group(1))
                ok_a = True
        except TranslateError:
            pass
        if ok_a:
            break
    if not ok_a:
        notes += ["TUPLE_A_BASE", "TUPLE_A_MUL"]
        consts["TUPLE_A_BASE"], consts["TUPLE_A_MUL"] = PINNED["TUPLE_A_BASE"], PINNED["TUPLE_A_MUL"]
    consts["TUPLE_B_MUL"] = _tuple_b(notes, tup)
    consts["TUPLE_Y_MOD"] = locate(notes, "TUPLE_Y_MOD", tup, [
        (r"%\s*", r"\s*\)\s*as\s+u32", ident), (r"&\s*(?!&)", r"\s*\)\s*as\s+u32", lambda v: v + 1)])
    consts["TUPLE_V_RANGE"] = locate(notes, "TUPLE_V_RANGE", tup, [
        (r"let\s+v\s*(?::\s*\w+\s*)?=\s*rand\(\s*y\s*,\s*0(?:u32)?\s*,\s*", r"\s*,?\s*\)", ident)])
    dg = fn_body(base, "deg") or base
    consts["DEG_V_LIMIT"] = locate(notes, "DEG_V_LIMIT", dg, [
        (r"\(\s*v\s*<\s*(?![=<])", ident), (r"\bif\s+v\s*>=\s*", ident)])
    wd = fn_body(base, "with_defaults") or base
    consts["DEFAULT_MEMORY"] = locate(notes, "DEFAULT_MEMORY", wd, [
        (r"generate_encoding_parameters\(\s*transfer_length\s*,\s*max_packet_size\s*,\s*", r"\s*,?\s*\)", ident)])
    # the degree table: whatever array is declared inside deg() (its name and its let/const spelling are free)
    f = None
    for m in re.finditer(r"\b(?:let|const|static)\s+(?:mut\s+)?(\w+)\s*:\s*\[", dg):
        try:
            f = flat_ints(find_array(dg, m.group(1), kind="let|const|static"))
            break
        except TranslateError:
            continue
    if f is None:
        f = flat_ints(find_array(base, "f", kind="let|const|static"))
    if len(f) != 31:
        raise TranslateError(f"deg table f has {len(f)} entries")
    for k, v in consts.items():
        out += f"Definition {k} : N := {v}.\n"
    out += f"\nDefinition DEG_F : list N :=\n  {nlist(f, 8)}.\n"
    gen_consts.notes = notes
    return out


def main():
    repo, outdir = sys.argv[1], sys.argv[2]
    os.makedirs(outdir, exist_ok=True)
    collect_named_consts(repo)
    gens = {
        "OctetTables.v": gen_octet,
        "RandTables.v": gen_rand,
        "SysTables.v": gen_sys,
        "Consts.v": gen_consts,
    }
    rc = 0
    for fn, g in gens.items():
        try:
            text = g(repo)
        except TranslateError as e:
            print(f"rs2v: ERROR {fn}: {e}", file=sys.stderr)
            rc = 2
            continue
        ch = write_if_changed(os.path.join(outdir, fn), text)
        print(f"rs2v: {fn} {'updated' if ch else 'unchanged'}")
    import json
    notes = getattr(gen_consts, "notes", [])
    write_if_changed(os.path.join(outdir, "NOTES.json"), json.dumps({"not_located": notes}) + "\n")
    for n in notes:
        print(f"rs2v: NOTE constant {n} not located in the current source; pinned value used (tie: correspondence only)")
    sys.exit(rc)


if __name__ == "__main__":
    main()
