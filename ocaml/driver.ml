(* Reads numeric case lines "<fcode> <arg>..." and prints the model's result line. *)
open Rqmodel

let rec pos_of_int (n : int) : positive =
  if n = 1 then XH
  else if n land 1 = 0 then XO (pos_of_int (n lsr 1))
  else XI (pos_of_int (n lsr 1))

let n_of_int (n : int) : n = if n = 0 then N0 else Npos (pos_of_int n)

let rec int_of_pos (p : positive) : int =
  match p with XH -> 1 | XO q -> 2 * int_of_pos q | XI q -> 2 * int_of_pos q + 1

let int_of_n (x : n) : int = match x with N0 -> 0 | Npos p -> int_of_pos p

(* values above max_int are not expected on case lines except u64 arguments: parse via Int64 *)
let n_of_string (s : string) : n =
  match int_of_string_opt s with
  | Some i when i >= 0 -> n_of_int i
  | _ ->
    (* unsigned 64-bit decimal beyond OCaml's 63-bit int: build from digits *)
    let r = ref N0 in
    String.iter (fun c ->
      let d = Char.code c - 48 in
      r := N.add (N.mul !r (n_of_int 10)) (n_of_int d)) s;
    !r

let rec string_of_n_big (x : n) : string =
  (* decimal printing for arbitrarily large N *)
  match x with
  | N0 -> "0"
  | _ ->
    let ten = n_of_int 10 in
    let rec go x acc =
      match x with
      | N0 -> acc
      | _ ->
        let (q, r) = N.div_eucl x ten in
        go q (string_of_int (int_of_n r) ^ acc)
    in go x ""

let () =
  let ic = open_in Sys.argv.(1) in
  let oc = open_out Sys.argv.(2) in
  (try
    while true do
      let line = String.trim (input_line ic) in
      if line <> "" && line.[0] <> '#' then begin
        let toks = List.filter (fun s -> s <> "") (String.split_on_char ' ' line) in
        match toks with
        | [] -> ()
        | f :: args ->
          let res = run (n_of_string f) (List.map n_of_string args) in
          output_string oc (String.concat " " (List.map string_of_n_big res));
          output_char oc '\n'
      end
    done
  with End_of_file -> ());
  close_in ic; close_out oc
