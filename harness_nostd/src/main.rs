//! rqh_nostd: the codec workload of the correspondence check against raptorq built with
//! `default-features = false` (no_std library; this driver itself uses std for file I/O).
//! Same case / result line protocol as harness/ (subset: public API only).
use raptorq::{Decoder, Encoder, EncodingPacket, ObjectTransmissionInformation, SourceBlockDecoder, SourceBlockEncoder};
use std::fmt::Write as _;
use std::io::{BufRead, BufReader, BufWriter, Write};
use std::panic::{AssertUnwindSafe, catch_unwind};

fn cfg(a: &[u64]) -> ObjectTransmissionInformation {
    ObjectTransmissionInformation::new(a[0], a[1] as u16, a[2] as u8, a[3] as u16, a[4] as u8)
}
fn bytes(a: &[u64]) -> Vec<u8> {
    a.iter().map(|&b| b as u8).collect()
}
fn push_packet(out: &mut Vec<u64>, p: &EncodingPacket) {
    out.push(p.payload_id().source_block_number() as u64);
    out.push(p.payload_id().encoding_symbol_id() as u64);
    out.extend(p.data().iter().map(|&b| b as u64));
}
fn packet_of(enc: &Encoder, sbn: usize, esi: u32) -> EncodingPacket {
    let b = &enc.get_block_encoders()[sbn];
    let k = b.source_packets().len() as u32;
    if esi < k { b.source_packets()[esi as usize].clone() } else { b.repair_packets(esi - k, 1).pop().unwrap() }
}

fn run(name: &str, a: &[u64]) -> Vec<u64> {
    match name {
        "enc_packets" => {
            let enc = Encoder::new(&bytes(&a[6..]), cfg(a));
            let mut out = vec![];
            for p in enc.get_encoded_packets(a[5] as u32) {
                push_packet(&mut out, &p);
            }
            out
        }
        "repair_window" => {
            let enc = Encoder::new(&bytes(&a[8..]), cfg(a));
            let mut out = vec![];
            for p in enc.get_block_encoders()[a[5] as usize].repair_packets(a[6] as u32, a[7] as u32) {
                push_packet(&mut out, &p);
            }
            out
        }
        "codec_hist" => {
            let c = cfg(a);
            let n = a[6] as usize;
            let steps = &a[7..7 + 3 * n];
            let data = bytes(&a[7 + 3 * n..]);
            let enc = Encoder::new(&data, c);
            let mut dec = Decoder::new(c);
            let mut out = vec![];
            let mut first: Option<Vec<u8>> = None;
            let mut last: Option<Vec<u8>> = None;
            for s in steps.chunks(3) {
                let p = packet_of(&enc, s[1] as usize, s[2] as u32);
                let r = match s[0] {
                    0 => dec.decode(p),
                    1 => {
                        dec.add_new_packet(p);
                        dec.get_result()
                    }
                    _ => {
                        let mut d2 = dec.clone();
                        let r = d2.decode(p);
                        dec = d2;
                        r
                    }
                };
                match &r {
                    None => out.push(0),
                    Some(b) => {
                        if first.is_none() {
                            first = Some(b.clone());
                        }
                        out.push(if first.as_ref() == Some(b) { 1 } else { 9 });
                    }
                }
                last = r;
            }
            if let Some(b) = last {
                out.extend(b.iter().map(|&x| x as u64));
            }
            out
        }
        "sbd_hist" => {
            let (k, t) = (a[0], a[1]);
            let c = ObjectTransmissionInformation::new(k * t, t as u16, 1, a[2] as u16, a[3] as u8);
            let nb = a[5] as usize;
            let mut i = 6;
            let mut batches = vec![];
            for _ in 0..nb {
                let len = a[i] as usize;
                batches.push(a[i + 1..i + 1 + len].to_vec());
                i += 1 + len;
            }
            let data = bytes(&a[i..]);
            let enc = SourceBlockEncoder::new(0, &c, &data);
            let src = enc.source_packets();
            let mut dec = SourceBlockDecoder::new(0, &c, k * t);
            let mut out = vec![];
            let mut first: Option<Vec<u8>> = None;
            let mut last = None;
            for b in batches {
                let pk: Vec<EncodingPacket> = b
                    .iter()
                    .map(|&esi| if esi < k { src[esi as usize].clone() } else { enc.repair_packets((esi - k) as u32, 1).pop().unwrap() })
                    .collect();
                let r = dec.decode(pk);
                match &r {
                    None => out.push(0),
                    Some(b) => {
                        if first.is_none() {
                            first = Some(b.clone());
                        }
                        out.push(if first.as_ref() == Some(b) { 1 } else { 9 });
                    }
                }
                last = r;
            }
            if let Some(b) = last {
                out.extend(b.iter().map(|&x| x as u64));
            }
            out
        }
        "gen_params_default" => {
            let o = ObjectTransmissionInformation::with_defaults(a[0], a[1] as u16);
            vec![o.transfer_length(), o.symbol_size() as u64, o.source_blocks() as u64, o.sub_blocks() as u64, o.symbol_alignment() as u64]
        }
        _ => panic!("unknown case function {}", name),
    }
}

fn main() {
    let args: Vec<String> = std::env::args().collect();
    std::panic::set_hook(Box::new(|_| {}));
    let input = BufReader::new(std::fs::File::open(&args[1]).expect("open casefile"));
    let mut out = BufWriter::new(std::fs::File::create(&args[2]).expect("create outfile"));
    for line in input.lines() {
        let line = line.unwrap();
        let line = line.trim();
        if line.is_empty() || line.starts_with('#') {
            continue;
        }
        let mut it = line.split_whitespace();
        let name = it.next().unwrap().to_string();
        let nums: Vec<u64> = it.map(|t| t.parse::<u64>().expect("numeric arg")).collect();
        let r = catch_unwind(AssertUnwindSafe(|| run(&name, &nums)));
        let mut s = String::new();
        match r {
            Ok(vals) => {
                s.push('1');
                for v in vals {
                    write!(s, " {}", v).unwrap();
                }
            }
            Err(_) => s.push_str("0 panic"),
        }
        writeln!(out, "{}", s).unwrap();
    }
    out.flush().unwrap();
}
