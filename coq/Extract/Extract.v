(* Extraction of the executable model for the volume part of the correspondence check.
   Only ExtrOcamlBasic (bool, option, unit, list, prod, sumbool ... as OCaml natives);
   N / positive / Z / nat stay the extracted inductive types. *)
From Coq Require Import Extraction ExtrOcamlBasic NArith.
From RQ Require Import Model.Run.
Extraction "rqmodel.ml" Model.Run.run N.add N.mul N.div_eucl.
