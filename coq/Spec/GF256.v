(* RFC 6330 section 5.7: the field GF(256) = GF(2)[x] / (x^8 + x^4 + x^3 + x^2 + 1),
   written as polynomial arithmetic, with no reference to how the crate computes it. *)
From Coq Require Import NArith List Bool.
From RQ Require Import Base.ListX.
Import ListNotations.
Open Scope N_scope.

Definition POLY : N := 285.   (* x^8 + x^4 + x^3 + x^2 + 1 = 0x11D *)

Definition padd (a b : N) : N := N.lxor a b.

(* a * x  mod POLY *)
Definition xtime (a : N) : N :=
  let s := 2 * a in if 256 <=? s then N.lxor s POLY else s.

(* a * x^i mod POLY *)
Fixpoint xtimes (a : N) (i : nat) : N :=
  match i with O => a | S j => xtime (xtimes a j) end.

Definition sel (b : bool) (m : N) : N := if b then m else 0.

(* a * b = sum over the bits b_i of b of  b_i * (a * x^i) *)
Definition pmul (a b : N) : N :=
  xsum (map (fun i => sel (N.testbit b (N.of_nat i)) (xtimes a i)) (seq 0 8)).

(* alpha^i with alpha = x = 2 *)
Fixpoint ppow2 (i : nat) : N := match i with O => 1 | S j => xtime (ppow2 j) end.
