(* RFC 6330 sections 3.2 (FEC Payload ID), 3.3.2 / 3.3.3 (Object Transmission Information) and
   4.4.2 (encoding packets): the wire formats are fixed-width big-endian unsigned integers.
   Written as positional base-256 arithmetic, with no reference to the crate's shifts and masks. *)
From Coq Require Import NArith List.
Import ListNotations.
Open Scope N_scope.

(* the w big-endian base-256 digits of x (most significant first); digits above 256^w are dropped *)
Fixpoint be (w : nat) (x : N) : list N :=
  match w with
  | O => []
  | S w' => (x / 256 ^ N.of_nat w') mod 256 :: be w' x
  end.

(* positional value of a big-endian digit string *)
Fixpoint be_val (l : list N) : N :=
  match l with
  | [] => 0
  | d :: t => d * 256 ^ N.of_nat (length t) + be_val t
  end.

Definition is_byte (d : N) : Prop := d < 256.
Definition bytes (l : list N) : Prop := Forall is_byte l.

(* FEC Payload ID (3.2): SBN (8 bits) | ESI (24 bits) *)
Definition payload_id_wire (sbn esi : N) : list N := sbn :: be 3 esi.

(* Common (3.3.2: F 40 bits | reserved 8 bits | T 16 bits) and scheme-specific (3.3.3: Z 8 bits |
   N 16 bits | Al 8 bits) FEC Object Transmission Information *)
Definition oti_wire (F T Z Nsub Al : N) : list N :=
  be 5 F ++ [0] ++ be 2 T ++ [Z] ++ be 2 Nsub ++ [Al].
