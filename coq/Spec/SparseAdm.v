(* Admissibility of the `BinaryMatrix` operations for the SPARSE implementation
   (src/sparse_matrix.rs): what that implementation documents (`unimplemented!` messages, comments)
   or asserts IN ADDITION to the preconditions of the interface ([adm], Spec/BitMatrix.v).

   The sparse matrix is used in three phases (pi_solver.rs): construction with `set` while the
   column index is disabled; an indexed phase (column swaps, freezing columns into the dense tail,
   `get_ones_in_column`, eliminations of a single column entry); and, after the index has been
   disabled again, general row additions, `resize` and the dense-tail queries.  Which operations
   are allowed depends on the phase, on the number of dense columns, and on which columns of the
   index have been invalidated; this is tracked in a small ghost state next to the abstract matrix.

   Written without reference to the representation, except for two numbers the documentation of
   the implementation itself talks about: the number of trailing dense columns, and the width the
   matrix was created with (the column index is sized by the HEIGHT and keyed by column numbers of
   the original matrix, so it can only be built when that width does not exceed the height). *)
From Coq Require Import NArith List Bool Arith.
From RQ Require Import Spec.BitMatrix.
Import ListNotations.

Record sghost := mkg {
  g_indexed : bool;        (* column access acceleration is enabled *)
  g_nd : nat;              (* number of trailing dense columns: the tail [bw - g_nd, bw) *)
  g_w0 : nat;              (* the width the matrix was created with *)
  g_stale : list bool      (* per column (g_w0 of them): invalidated by an indexed row addition *)
}.

Definition sstate := (bitmat * sghost)%type.

(* the state after new(h, w, hint) *)
Definition ss_new (h w hint : nat) : sstate :=
  (bm_new h w, mkg false hint w (repeat false w)).

(* first dense column *)
Definition ss_fd (st : sstate) : nat := bw (fst st) - g_nd (snd st).

Fixpoint updb (l : list bool) (i : nat) (v : bool) : list bool :=
  match l, i with
  | [], _ => []
  | _ :: t, O => v :: t
  | x :: t, S k => x :: updb t k v
  end.

Definition swapb (l : list bool) (i j : nat) : list bool :=
  updb (updb l i (nth j l false)) j (nth i l false).

(* the columns < fd in which row [row] has a one *)
Definition sparse_ones (a : bitmat) (row fd : nat) : list nat :=
  filter (fun c => bm_get a row c) (seq 0 fd).

(* "columns are only eliminated one at a time" / "columns are only removed": the source row has
   exactly one (defined) one left of the dense tail, and the destination has a defined one there *)
Definition single_elim (a : bitmat) (fd dest src : nat) : bool :=
  all_def_row a src 0 fd &&
  match sparse_ones a src fd with
  | [k] => bm_def a dest k && bm_get a dest k
  | _ => false
  end.

Local Open Scope N_scope.

Definition adm_sparse (st : sstate) (o : op) : bool :=
  let '(a, g) := st in
  let fd := N.of_nat (ss_fd st) in
  let w := N.of_nat (bw a) in
  adm o a &&
  match o with
  | OSet i j _ => (fd <=? j) || negb (g_indexed g)
  | OGet _ _ => true
  | OSwapRows _ _ => true
  | OSwapCols i j _ => (i <? fd) && (j <? fd)
  | OAddRows dest src start_col =>
      ((start_col =? 0) || (start_col =? fd)) &&
      (if (start_col =? 0) && g_indexed g
       then single_elim a (ss_fd st) (N.to_nat dest) (N.to_nat src) else true)
  | OResize nh nw => negb (g_indexed g) && ((nw =? w) || (nw <=? fd))
  | OCountOnes _ _ e => e <=? fd
  | ORowIter _ _ e => e <=? fd
  | OOnesInCol col _ _ => g_indexed g && (col <? fd) && negb (nth (N.to_nat col) (g_stale g) true)
  | OSubRow _ s => s =? fd
  | ONonZeroCols _ s => s =? fd
  | OFreeze col => g_indexed g && (col + 1 =? fd)
  | OEnableAccel =>
      (* the index has one slot per ROW, is keyed by original column numbers, and its builder
         asserts that it holds fewer than u32::MAX entries *)
      (N.of_nat (g_w0 g) <=? N.of_nat (bh a)) &&
      (N.of_nat (bh a) * N.of_nat (g_w0 g) <? 2 ^ 32 - 1)
  | ODisableAccel => true
  end.

(* the ghost state after the operation *)
Definition sg_step (st : sstate) (o : op) : sghost :=
  let '(a, g) := st in
  match o with
  | OSwapCols i j _ =>
      mkg (g_indexed g) (g_nd g) (g_w0 g) (swapb (g_stale g) (N.to_nat i) (N.to_nat j))
  | OAddRows dest src start_col =>
      if (start_col =? 0) && g_indexed g
      then mkg (g_indexed g) (g_nd g) (g_w0 g)
               (updb (g_stale g) (hd 0%nat (sparse_ones a (N.to_nat src) (ss_fd st))) true)
      else g
  | OResize nh nw =>
      mkg (g_indexed g) (if nw =? N.of_nat (bw a) then g_nd g else 0%nat) (g_w0 g) (g_stale g)
  | OFreeze col => mkg (g_indexed g) (S (g_nd g)) (g_w0 g) (g_stale g)
  | OEnableAccel =>
      (* the index is rebuilt from the current entries: no column is stale any more *)
      mkg true (g_nd g) (g_w0 g) (repeat false (length (g_stale g)))
  | ODisableAccel => mkg false (g_nd g) (g_w0 g) (g_stale g)
  | _ => g
  end.

Definition ss_step (st : sstate) (o : op) : sstate * option ans :=
  let r := bm_step (fst st) o in ((fst r, sg_step st o), snd r).

Fixpoint ss_exec (st : sstate) (ops : list op) : sstate * list (option ans) :=
  match ops with
  | [] => (st, [])
  | o :: t => let '(st1, r) := ss_step st o in
              let '(st2, rs) := ss_exec st1 t in (st2, r :: rs)
  end.

Fixpoint adm_sparse_seq (st : sstate) (ops : list op) : bool :=
  match ops with
  | [] => true
  | o :: t => adm_sparse st o && adm_sparse_seq (fst (ss_step st o)) t
  end.

(* creation: the implementation's own limits (debug asserts of `new`) and a hint within the width *)
Definition adm_sparse_new (h w hint : N) : bool :=
  (h <? 16777216) && (w <? 65536) && (hint <=? w).
