(* Primality on N by trial division: n is prime iff 1 < n and no d in [2, sqrt n] divides it.
   The fuel is sqrt n - 1 (a small nat for every n met here: n < 2^16 gives fuel < 256).
   Proofs/PrimeProofs.v: is_prime n = true <-> 1 < n /\ forall d, 1 < d < n -> n mod d <> 0. *)
From Coq Require Import NArith.
Open Scope N_scope.

(* no d in [d0, d0 + fuel) divides n *)
Fixpoint no_divisor_from (fuel : nat) (n d0 : N) : bool :=
  match fuel with
  | O => true
  | S f => if n mod d0 =? 0 then false else no_divisor_from f n (d0 + 1)
  end.

Definition is_prime (n : N) : bool :=
  (1 <? n) && no_divisor_from (N.to_nat (N.sqrt n - 1)) n 2.

(* the mathematical notion *)
Definition prime_N (n : N) : Prop := 1 < n /\ forall d, 1 < d < n -> n mod d <> 0.
