(* Linear algebra over a byte field, as mathematics: vectors, linear combinations of symbols,
   linear systems A.C = D, elementary row operations on symbols, certificates of a solve
   (operation list + read-out order) and a reference solver by Gaussian elimination.
   Generic in the field multiplication `mul` and inverse `inv`; addition is N.lxor.
   Definitions only; the theory is in Proofs/LinearProofs.v. *)
From Coq Require Import NArith List Bool Arith.
Import ListNotations.
Open Scope N_scope.

(* ---- well-formedness (boolean-checkable side conditions) ---- *)

Definition wf_vec (v : list N) : Prop := Forall (fun x => x < 256) v.
(* a matrix with rows of length n / a list of symbols of length n, all entries bytes *)
Definition wf_mat (n : nat) (A : list (list N)) : Prop :=
  Forall (fun r => length r = n /\ wf_vec r) A.

Definition wf_vecb (v : list N) : bool := forallb (fun x => x <? 256) v.
Definition wf_matb (n : nat) (A : list (list N)) : bool :=
  forallb (fun r => (length r =? n)%nat && wf_vecb r) A.

(* ---- vectors ---- *)

(* pointwise xor (zip: the result has the length of the shorter argument) *)
Fixpoint vadd (u v : list N) : list N :=
  match u, v with
  | x :: u', y :: v' => N.lxor x y :: vadd u' v'
  | _, _ => []
  end.

Definition vzero (n : nat) : list N := repeat 0 n.

Fixpoint vec_eqb (u v : list N) : bool :=
  match u, v with
  | [], [] => true
  | x :: u', y :: v' => (x =? y) && vec_eqb u' v'
  | _, _ => false
  end.

Fixpoint map2 {A B C} (f : A -> B -> C) (l : list A) (m : list B) : list C :=
  match l, m with
  | a :: l', b :: m' => f a b :: map2 f l' m'
  | _, _ => []
  end.

(* replace element i (out of range: unchanged) *)
Fixpoint upd_nth {A} (i : nat) (x : A) (l : list A) : list A :=
  match l, i with
  | [], _ => []
  | _ :: t, O => x :: t
  | h :: t, S j => h :: upd_nth j x t
  end.

(* e_j in dimension L *)
Definition unit_row (L j : nat) : list N :=
  map (fun k => if (k =? j)%nat then 1 else 0) (seq 0 L).

(* ---- elementary row operations (src/operation_vector.rs SymbolOps, without Reorder) ---- *)

Inductive symop :=
| OpAdd (dest src : nat)
| OpMul (dest : nat) (c : N)
| OpFMA (dest src : nat) (c : N).

Definition op_valid (M : nat) (o : symop) : bool :=
  match o with
  | OpAdd d s => (d <? M)%nat && (s <? M)%nat && negb (d =? s)%nat
  | OpMul d c => (d <? M)%nat && (c <? 256) && negb (c =? 0)
  | OpFMA d s c => (d <? M)%nat && (s <? M)%nat && negb (d =? s)%nat && (c <? 256)
  end.

Definition read_out (order : list nat) (rows : list (list N)) : list (list N) :=
  map (fun i => nth i rows []) order.

Section Field.
Variable mul : N -> N -> N.
Variable inv : N -> N.

Definition vscale (c : N) (v : list N) : list N := map (mul c) v.

(* scalar product (xor-sum of r[k] * x[k], truncated to the shorter list) *)
Fixpoint dot (r x : list N) : N :=
  match r, x with
  | a :: r', v :: x' => N.lxor (mul a v) (dot r' x')
  | _, _ => 0
  end.

(* sum_k r[k] * C[k], the symbols C[k] of length T *)
Fixpoint lincomb (T : nat) (r : list N) (C : list (list N)) : list N :=
  match r, C with
  | a :: r', c :: C' => vadd (vscale a c) (lincomb T r' C')
  | _, _ => vzero T
  end.

(* A is M x L, C has L symbols, D has M symbols *)
Definition solves (T : nat) (A : list (list N)) (C D : list (list N)) : Prop :=
  Forall2 (fun r d => lincomb T r C = d) A D.

(* A.x = 0 -> x = 0 *)
Definition injective (L : nat) (A : list (list N)) : Prop :=
  forall x : list N, length x = L -> Forall (fun v => v < 256) x ->
    Forall (fun r => lincomb 1 r (map (fun v => [v]) x) = [0]) A -> x = repeat 0 L.

(* the same with the scalar product (equivalent: LinearProofs.injective_iff_dot) *)
Definition injective_dot (L : nat) (A : list (list N)) : Prop :=
  forall x : list N, length x = L -> wf_vec x ->
    Forall (fun r => dot r x = 0) A -> x = repeat 0 L.

(* src/symbol_slab.rs: add_assign, mulassign_scalar, fma on a list of rows *)
Definition apply_op (o : symop) (rows : list (list N)) : list (list N) :=
  match o with
  | OpAdd d s =>
      match nth_error rows d, nth_error rows s with
      | Some rd, Some rs => upd_nth d (vadd rd rs) rows
      | _, _ => rows
      end
  | OpMul d c =>
      match nth_error rows d with
      | Some rd => upd_nth d (vscale c rd) rows
      | None => rows
      end
  | OpFMA d s c =>
      match nth_error rows d, nth_error rows s with
      | Some rd, Some rs => upd_nth d (vadd rd (vscale c rs)) rows
      | _, _ => rows
      end
  end.

Definition apply_ops (ops : list symop) (rows : list (list N)) : list (list N) :=
  fold_left (fun rs o => apply_op o rs) ops rows.

(* certificate of a solve of A: after the operations, row order[j] is the unit row e_j *)
Definition check_cert (L : nat) (A : list (list N)) (ops : list symop) (order : list nat) : bool :=
  let M := length A in
  forallb (op_valid M) ops &&
  (length order =? L)%nat &&
  forallb (fun i => (i <? M)%nat) order &&
  (let A' := apply_ops ops A in
   forallb (fun j => vec_eqb (nth (nth j order O) A' []) (unit_row L j)) (seq 0 L)).

(* ---- reference solver: Gaussian elimination, one column per recursion step ----
   Column 0 of the current system: the first row with a non-zero head is the pivot row; it is
   taken out of the system (the "row swap"), column 0 is eliminated from the remaining rows,
   and the remaining (M-1) x (L-1) system is solved recursively; the value of unknown 0 then
   follows from the pivot row.  Rows that never become pivots are not checked for consistency. *)

(* first row with non-zero head, and the other rows in their order *)
Fixpoint pick_row (A : list (list N)) : option (list N * list (list N)) :=
  match A with
  | [] => None
  | r :: A' =>
      if hd 0 r =? 0
      then match pick_row A' with Some (p, R) => Some (p, r :: R) | None => None end
      else Some (r, A')
  end.

(* the right-hand sides split the same way (total: defaults when D is too short) *)
Fixpoint pick_rhs (A D : list (list N)) : list N * list (list N) :=
  match A with
  | [] => ([], D)
  | r :: A' =>
      if hd 0 r =? 0
      then let (dp, R) := pick_rhs A' (tl D) in (dp, hd [] D :: R)
      else (hd [] D, tl D)
  end.

Definition elim_coef (p r : list N) : N := mul (hd 0 r) (inv (hd 0 p)).
(* r + (r0/p0) p  without its (now zero) first column *)
Definition elim_row (p r : list N) : list N := vadd (tl r) (vscale (elim_coef p r) (tl p)).
Definition elim_rhs (p dp r d : list N) : list N := vadd d (vscale (elim_coef p r) dp).

Fixpoint gauss_rank_full (L : nat) (A : list (list N)) : bool :=
  match L with
  | O => true
  | S L' =>
      match pick_row A with
      | None => false
      | Some (p, R) => gauss_rank_full L' (map (elim_row p) R)
      end
  end.

Fixpoint gauss_solve (T L : nat) (A D : list (list N)) : option (list (list N)) :=
  match L with
  | O => Some []
  | S L' =>
      match pick_row A with
      | None => None
      | Some (p, R) =>
          let (dp, RD) := pick_rhs A D in
          match gauss_solve T L' (map (elim_row p) R) (map2 (elim_rhs p dp) R RD) with
          | None => None
          | Some Y => Some (vscale (inv (hd 0 p)) (vadd dp (lincomb T (tl p) Y)) :: Y)
          end
      end
  end.

End Field.
