(* RFC 6330 section 4.4.1.2 (+ erratum 5548): constraints on the transfer parameters.
   F <= 942574504275, Al divides T, and ceil(ceil(F/T)/Z) <= K'_max = 56403.
   Written as mathematics (unbounded N), with no reference to the crate's integer widths. *)
From Coq Require Import NArith Bool.
Open Scope N_scope.

(* ceil(a / b) for b > 0 *)
Definition cdiv (a b : N) : N := (a + b - 1) / b.

Definition oti_valid (F T Z Al : N) : Prop :=
  F <= 942574504275 /\ T mod Al = 0 /\ cdiv (cdiv F T) Z <= 56403.

Definition oti_validb (F T Z Al : N) : bool :=
  (F <=? 942574504275) && (T mod Al =? 0) && (cdiv (cdiv F T) Z <=? 56403).
