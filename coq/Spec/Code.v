(* RFC 6330 section 5.3.3 / 5.3.5: the constraint matrix A and the encoding function Enc, written
   index-wise from the RFC's relations (every "D[b] = D[b] + C[i]" contributes one to the count of
   (row b, column i); an entry of the binary part is that count modulo 2), with no reference to how
   the crate builds its matrices.  Parameters K', J, S, H, W, P1 are explicit. *)
From Coq Require Import NArith List Bool.
From RQ Require Import Base.ListX Spec.GF256 Spec.Rand Spec.Tuple.
Import ListNotations.
Open Scope N_scope.

Record cparams := mkCP { cK : N; cJ : N; cS : N; cH : N; cW : N; cP1 : N }.
Definition cL (p : cparams) : N := cK p + cS p + cH p.
Definition cP (p : cparams) : N := cL p - cW p.
Definition cB (p : cparams) : N := cW p - cS p.

Definition b2n (b : bool) : N := if b then 1 else 0.
Definition parity (n : N) : N := n mod 2.

(* ---- 5.3.3.3 LDPC relations, as counts ----
   For i = 0..B-1: a = 1 + floor(i/S); b = i mod S; D[b] += C[i]; b = (b+a) mod S; D[b] += C[i];
                   b = (b+a) mod S; D[b] += C[i]
   For i = 0..S-1: a = i mod P; b = (i+1) mod P; D[i] += C[W+a] + C[W+b]
   together with D[i] = C[B+i] (the LDPC symbol itself) *)
Definition ldpc_count (p : cparams) (r j : N) : N :=
  let S := cS p in let B := cB p in let W := cW p in let P := cP p in
  if j <? B then
    let a := 1 + j / S in
    let b0 := j mod S in
    let b1 := (b0 + a) mod S in
    let b2 := (b1 + a) mod S in
    b2n (b0 =? r) + b2n (b1 =? r) + b2n (b2 =? r)
  else if j <? W then b2n (j - B =? r)
  else b2n (r mod P =? j - W) + b2n ((r + 1) mod P =? j - W).

Definition ldpc_entry (p : cparams) (r j : N) : N := parity (ldpc_count p r j).

(* ---- 5.3.3.3 HDPC relations: G_HDPC = MT * GAMMA over GF(256) ---- *)
Definition alpha_pow (i : N) : N := ppow2 (N.to_nat i).

(* MT is H x (K'+S) *)
Definition MT (p : cparams) (i k : N) : N :=
  let H := cH p in let n := cK p + cS p in
  if k + 1 <? n then
    let r6 := Rand (k + 1) 6 H in
    let r7 := Rand (k + 1) 7 (H - 1) in
    if (i =? r6) || (i =? (r6 + r7 + 1) mod H) then 1 else 0
  else alpha_pow i.

(* GAMMA is (K'+S) x (K'+S), lower triangular: alpha^(k-j) for k >= j *)
Definition GAMMA (k j : N) : N := if j <=? k then alpha_pow (k - j) else 0.

Definition G_HDPC (p : cparams) (i j : N) : N :=
  let n := N.to_nat (cK p + cS p) in
  xsum (map (fun k => pmul (MT p i k) (GAMMA k j)) (rangeN n)).

Definition hdpc_entry (p : cparams) (i j : N) : N :=
  let n := cK p + cS p in
  if j <? n then G_HDPC p i j else b2n (j - n =? i).

(* ---- 5.3.5.3 Enc: the multiset of intermediate-symbol indices that are summed ---- *)
Fixpoint enc_lt (n : nat) (a W b : N) : list N :=
  match n with O => [] | S n' => let b' := (b + a) mod W in b' :: enc_lt n' a W b' end.

(* "While (b1 >= P) do b1 = (b1+a1) % P1" -- at most P1 steps when P1 is prime *)
Fixpoint enc_skip (fuel : nat) (a1 P P1 b1 : N) : N :=
  match fuel with
  | O => b1
  | S f => if P <=? b1 then enc_skip f a1 P P1 ((b1 + a1) mod P1) else b1
  end.

Fixpoint enc_pi (fuel n : nat) (a1 W P P1 b1 : N) : list N :=
  match n with
  | O => []
  | S n' => let b1' := enc_skip fuel a1 P P1 ((b1 + a1) mod P1) in
            (W + b1') :: enc_pi fuel n' a1 W P P1 b1'
  end.

Definition Enc_indices (p : cparams) (t : N * N * N * N * N * N) : list N :=
  let '(d, a, b, d1, a1, b1) := t in
  let W := cW p in let P := cP p in let P1 := cP1 p in
  let fuel := N.to_nat P1 in
  let b1' := enc_skip fuel a1 P P1 b1 in
  b :: enc_lt (N.to_nat (d - 1)) a W b ++ (W + b1') :: enc_pi fuel (N.to_nat (d1 - 1)) a1 W P P1 b1'.

Definition Tuple_of (p : cparams) (X : N) := Tuple (cJ p) (cW p) (cP1 p) X.

Definition count_occ_N (l : list N) (j : N) : N :=
  fold_left (fun acc x => if x =? j then acc + 1 else acc) l 0.

(* row of G_ENC for internal symbol id X *)
Definition enc_entry (p : cparams) (X j : N) : N :=
  parity (count_occ_N (Enc_indices p (Tuple_of p X)) j).

(* ---- the constraint matrix for a list of internal symbol ids (5.3.3.4.2 / 5.4.2.2) ----
   rows 0..S-1 LDPC, S..S+H-1 HDPC, then one G_ENC row per ISI *)
Definition A_entry (p : cparams) (isis : list N) (r j : N) : N :=
  let S := cS p in let H := cH p in
  if r <? S then ldpc_entry p r j
  else if r <? S + H then hdpc_entry p (r - S) j
  else enc_entry p (nth (N.to_nat (r - S - H)) isis 0) j.

Definition A_rfc (p : cparams) (isis : list N) : list (list N) :=
  let L := N.to_nat (cL p) in
  map (fun r => map (fun j => A_entry p isis r j) (rangeN L))
      (rangeN (N.to_nat (cS p + cH p) + length isis)).

(* Enc[K', C, tuple]: xor of the indexed intermediate symbols (symbols of T bytes) *)
Fixpoint vxor (u v : list N) : list N :=
  match u, v with x :: u', y :: v' => N.lxor x y :: vxor u' v' | _, _ => [] end.

Definition Enc (p : cparams) (T : nat) (C : list (list N)) (t : N * N * N * N * N * N) : list N :=
  fold_left (fun acc i => vxor acc (nth (N.to_nat i) C (repeat 0 T))) (Enc_indices p t) (repeat 0 T).
