(* What a packed binary vector means, independent of how any kernel walks it:
   a BinaryOctetVec is (elements : u64 words, length); its `length` values occupy the HIGHEST bits
   of the word sequence, i.e. value i is bit number  padding + i  of the little-endian bit string
   word0 bit0, word0 bit1, ..., word0 bit63, word1 bit0, ...   with padding = (-length) mod 64. *)
From Coq Require Import NArith List.
From RQ Require Import Base.Ints.
Import ListNotations.
Open Scope N_scope.

Definition bvec : Type := (list N * N)%type.          (* (elements, length) *)

Definition bv_padding (len : N) : N := (64 - len mod 64) mod 64.

Definition bit_at (elements : list N) (p : N) : N :=
  if N.testbit (nth (N.to_nat (p / 64)) elements 0) (p mod 64) then 1 else 0.

Definition to_bits (bv : bvec) : list N :=
  map (fun i => bit_at (fst bv) (bv_padding (snd bv) + N.of_nat i)) (seq 0 (N.to_nat (snd bv))).

(* BinaryOctetVec::new asserts the word count; the words are u64 *)
Definition wf_bvec (bv : bvec) : Prop :=
  length (fst bv) = N.to_nat (ceil_div (snd bv) 64) /\ Forall (fun w => w < 2 ^ 64) (fst bv).
