(* RFC 6330 section 4.3: derivation of the transport parameters (T, Z, N) from the transfer length F,
   the maximum payload size P' (here: mtu) and the decoder working-memory budget WS, for given
   symbol alignment Al and sub-symbol size lower bound SS.  Written as mathematics.

   Free parameters: the RFC leaves Al and SS to the sender.  The crate chooses Al = SS = 8 when the
   payload is at least 64 octets and Al = SS = 1 otherwise; that choice is taken as given here. *)
From Coq Require Import NArith List Bool.
From RQ Require Import Base.Ints Base.ListX Gen.SysTables.
Import ListNotations.
Open Scope N_scope.

(* The K' column of Table 2 (section 5.6). *)
Definition Kprimes : list N := map (fun r : N * N * N * N * N => let '(k, _, _, _, _) := r in k) TABLE2.

(* The greatest element of l that does not exceed b (order of l irrelevant); None if there is none. *)
Definition pick_le (b k : N) (r : option N) : option N :=
  if k <=? b then match r with None => Some k | Some a => Some (N.max k a) end else r.
Fixpoint greatest_le (b : N) (l : list N) : option N :=
  match l with
  | [] => None
  | k :: t => pick_le b k (greatest_le b t)
  end.

Definition Al_of (mtu : N) : N := if 64 <=? mtu then 8 else 1.
Definition SS_of (mtu : N) : N := if 64 <=? mtu then 8 else 1.

(* T = floor(P'/Al) * Al *)
Definition T_of (mtu : N) : N := mtu / Al_of mtu * Al_of mtu.

(* Kt = ceil(F/T) *)
Definition Kt_of (F mtu : N) : N := ceil_div F (T_of mtu).

(* N_max = floor(T / (SS*Al)) *)
Definition Nmax_of (mtu : N) : N := T_of mtu / (SS_of mtu * Al_of mtu).

(* KL(n) = the maximum K' of Table 2 with K' <= WS / (Al * ceil(T / (Al*n))) *)
Definition KL_bound (mtu WS n : N) : N :=
  WS / (Al_of mtu * ceil_div (T_of mtu) (Al_of mtu * n)).
Definition KL (mtu WS n : N) : option N := greatest_le (KL_bound mtu WS n) Kprimes.

(* Z = ceil(Kt / KL(N_max))   (0 stands for "undefined"; the domain D excludes that case) *)
Definition Z_of (F mtu WS : N) : N :=
  match KL mtu WS (Nmax_of mtu) with Some k => ceil_div (Kt_of F mtu) k | None => 0 end.

(* n accepts the object:  ceil(Kt/Z) <= KL(n)   (an undefined KL(n) accepts nothing) *)
Definition fits (F mtu WS n : N) : bool :=
  match KL mtu WS n with
  | Some k => ceil_div (Kt_of F mtu) (Z_of F mtu WS) <=? k
  | None => false
  end.

(* N = the minimum n = 1, ..., N_max such that ceil(Kt/Z) <= KL(n) *)
Definition N_opt (F mtu WS : N) : option N :=
  find (fits F mtu WS) (map N.of_nat (seq 1 (N.to_nat (Nmax_of mtu)))).
Definition N_of (F mtu WS : N) : N :=
  match N_opt F mtu WS with Some n => n | None => 0 end.

(* Domain: the inputs for which a valid configuration exists. *)
Definition D (F mtu WS : N) : Prop :=
  1 <= F /\
  Al_of mtu <= mtu /\
  F <= 56403 * 255 * T_of mtu /\
  KL mtu WS (Nmax_of mtu) <> None /\
  Z_of F mtu WS <= 255 /\
  Kt_of F mtu < 2 ^ 32.

Definition Db (F mtu WS : N) : bool :=
  (1 <=? F) && (Al_of mtu <=? mtu) && (F <=? 56403 * 255 * T_of mtu) &&
  (match KL mtu WS (Nmax_of mtu) with Some _ => true | None => false end) &&
  (Z_of F mtu WS <=? 255) && (Kt_of F mtu <? 2 ^ 32).
