(* RFC 6330 section 4.4.1.2 (source block and sub-block partitioning) and the layout of source
   packets, written as INDEX FUNCTIONS over the object: which object byte sits at position i of
   symbol m of source block j.  No reference to how the crate loops over the data. *)
From Coq Require Import NArith List Bool.
From RQ Require Import Base.ListX.
Import ListNotations.
Open Scope N_scope.

(* the transport parameters (F, T, Z, N, Al) of RFC 6330 3.3.2 / 3.3.3 *)
Record cfg : Type := mkCfg { cF : N; cT : N; cZ : N; cN : N; cAl : N }.

Definition ceil (a b : N) : N := (a + (b - 1)) / b.          (* ceil(a/b), b > 0 *)
Definition floor (a b : N) : N := a / b.

(* Partition[I, J] = (IL, IS, JL, JS) *)
Definition Partition (I J : N) : N * N * N * N :=
  let IL := ceil I J in
  let IS := floor I J in
  let JL := I - IS * J in
  let JS := J - JL in
  (IL, IS, JL, JS).

Definition q1 (p : N * N * N * N) : N := let '(a, _, _, _) := p in a.
Definition q2 (p : N * N * N * N) : N := let '(_, b, _, _) := p in b.
Definition q3 (p : N * N * N * N) : N := let '(_, _, x, _) := p in x.
Definition q4 (p : N * N * N * N) : N := let '(_, _, _, d) := p in d.

Definition sumN (l : list N) : N := fold_right N.add 0 l.

(* Kt = ceil(F/T),  (KL, KS, ZL, ZS) = Partition[Kt, Z],  (TL, TS, NL, NS) = Partition[T/Al, N] *)
Definition Kt (c : cfg) : N := ceil (cF c) (cT c).
Definition KL (c : cfg) : N := q1 (Partition (Kt c) (cZ c)).
Definition KS (c : cfg) : N := q2 (Partition (Kt c) (cZ c)).
Definition ZL (c : cfg) : N := q3 (Partition (Kt c) (cZ c)).
Definition ZS (c : cfg) : N := q4 (Partition (Kt c) (cZ c)).
Definition TL (c : cfg) : N := q1 (Partition (cT c / cAl c) (cN c)).
Definition TS (c : cfg) : N := q2 (Partition (cT c / cAl c) (cN c)).
Definition NL (c : cfg) : N := q3 (Partition (cT c / cAl c) (cN c)).
Definition NS (c : cfg) : N := q4 (Partition (cT c / cAl c) (cN c)).

(* number of source symbols of source block j: the first ZL blocks have KL, the others KS *)
Definition blk_K (c : cfg) (j : N) : N := if j <? ZL c then KL c else KS c.

(* byte offset of source block j inside the object: T * (sum of the sizes of the earlier blocks) *)
Definition blk_off (c : cfg) (j : N) : N :=
  cT c * sumN (map (blk_K c) (rangeN (N.to_nat j))).

(* the object extended with zeros (only positions < Kt * T are ever read) *)
Definition obj_byte (data : list N) (i : N) : N := nth (N.to_nat i) data 0.

(* byte i of source block j *)
Definition blk_byte (c : cfg) (data : list N) (j i : N) : N := obj_byte data (blk_off c j + i).

(* sub-symbol size of sub-block s: the first NL sub-blocks have TL*Al, the others TS*Al *)
Definition sub_len (c : cfg) (s : N) : N := if s <? NL c then TL c * cAl c else TS c * cAl c.

(* byte offset of sub-block s inside block j: each earlier sub-block holds K_j sub-symbols *)
Definition sub_off (c : cfg) (j s : N) : N :=
  blk_K c j * sumN (map (sub_len c) (rangeN (N.to_nat s))).

(* the m-th sub-symbol of sub-block s of block j *)
Definition sub_symbol (c : cfg) (data : list N) (j s m : N) : list N :=
  map (fun i => blk_byte c data j (sub_off c j s + m * sub_len c s + i))
      (rangeN (N.to_nat (sub_len c s))).

(* source symbol m of block j: the m-th sub-symbols of all N sub-blocks, concatenated *)
Definition symbol (c : cfg) (data : list N) (j m : N) : list N :=
  concat (map (fun s => sub_symbol c data j s m) (rangeN (N.to_nat (cN c)))).

(* the source packets of the object, in order: (SBN j, ESI m) carries symbol j m *)
Definition source_packets_spec (c : cfg) (data : list N) : list ((N * N) * list N) :=
  concat (map (fun j => map (fun m => ((j, m), symbol c data j m)) (rangeN (N.to_nat (blk_K c j))))
              (rangeN (N.to_nat (cZ c)))).

(* source block j as a byte string (K_j * T bytes of the zero-extended object) *)
Definition block_bytes (c : cfg) (data : list N) (j : N) : list N :=
  map (fun i => blk_byte c data j i) (rangeN (N.to_nat (blk_K c j * cT c))).

(* validity of (F, T, Z, N, Al) together with the field widths of the OTI and octet data *)
Definition cfg_ok (c : cfg) (data : list N) : Prop :=
  1 <= cF c /\ N.of_nat (length data) = cF c /\ 1 <= cAl c /\ cT c mod cAl c = 0 /\ 1 <= cT c /\
  (1 <= cN c /\ cN c <= cT c / cAl c) /\ (1 <= cZ c /\ cZ c <= Kt c) /\ KL c <= 56403 /\
  cZ c < 2 ^ 8 /\ cT c < 2 ^ 16 /\ cN c < 2 ^ 16 /\ cAl c < 2 ^ 8 /\ cF c < 2 ^ 40 /\
  Forall (fun b => b < 256) data.
