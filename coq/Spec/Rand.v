(* RFC 6330 5.3.5.1: the pseudo-random generator
     Rand[y, i, m] = (V0[x0] ^ V1[x1] ^ V2[x2] ^ V3[x3]) % m
     x0 = (y + i) mod 2^8,            x1 = (floor(y / 2^8) + i) mod 2^8,
     x2 = (floor(y / 2^16) + i) mod 2^8, x3 = (floor(y / 2^24) + i) mod 2^8
   over unbounded naturals, with the tables of the RFC snapshot (Spec/Tables_RFC.v).
   The look-ups are total (`nth _ _ 0`): every index is reduced mod 2^8 and the tables have 256
   entries.  The RFC requires m > 0. *)
From Coq Require Import NArith List.
From RQ Require Import Spec.Tables_RFC.
Open Scope N_scope.

Definition rfc_v (t : list N) (x : N) : N := nth (N.to_nat x) t 0.

Definition Rand (y i m : N) : N :=
  let x0 := (y + i) mod 2 ^ 8 in
  let x1 := (y / 2 ^ 8 + i) mod 2 ^ 8 in
  let x2 := (y / 2 ^ 16 + i) mod 2 ^ 8 in
  let x3 := (y / 2 ^ 24 + i) mod 2 ^ 8 in
  N.lxor (N.lxor (N.lxor (rfc_v RFC_V0 x0) (rfc_v RFC_V1 x1)) (rfc_v RFC_V2 x2)) (rfc_v RFC_V3 x3)
  mod m.
