(* RFC 6330 5.3.5.2 (degree generator) and 5.3.5.4 (tuple generator), over unbounded naturals.
   The parameters J = J(K'), W = W(K'), P1 = P1(K') are passed explicitly. *)
From Coq Require Import NArith List Bool.
From RQ Require Import Spec.Tables_RFC Spec.Rand.
Import ListNotations.
Open Scope N_scope.

Definition rfc_f (d : N) : N := nth (N.to_nat d) RFC_DEG_F 0.

(* 5.3.5.2: "find the index d in Table 1 such that f[d-1] <= v < f[d]" (d in 1..30; 0 if there
   is none, which happens only for v >= 2^20) *)
Definition Deg_index (v : N) : N :=
  match find (fun d => (rfc_f (d - 1) <=? v) && (v <? rfc_f d)) (map N.of_nat (seq 1 30)) with
  | Some d => d
  | None => 0
  end.

(* "Deg[v] = min(d, W-2)" *)
Definition Deg (v W : N) : N := N.min (Deg_index v) (W - 2).

(* 5.3.5.4 *)
Definition Tuple_A (J : N) : N :=
  let A := RFC_TUPLE_A_BASE + J * RFC_TUPLE_A_MUL in
  if A mod 2 =? 0 then A + 1 else A.

Definition Tuple_B (J : N) : N := RFC_TUPLE_B_MUL * (J + 1).

Definition Tuple_y (J X : N) : N := (Tuple_B J + X * Tuple_A J) mod 2 ^ 32.

(* Tuple[K', X] = (d, a, b, d1, a1, b1) *)
Definition Tuple (J W P1 X : N) : N * N * N * N * N * N :=
  let y := Tuple_y J X in
  let v := Rand y 0 (2 ^ 20) in
  let d := Deg v W in
  let a := 1 + Rand y 1 (W - 1) in
  let b := Rand y 2 W in
  let d1 := if d <? 4 then 2 + Rand X 3 2 else 2 in
  let a1 := 1 + Rand X 4 (P1 - 1) in
  let b1 := Rand X 5 P1 in
  (d, a, b, d1, a1, b1).
