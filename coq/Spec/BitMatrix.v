(* The abstract binary matrix of the `BinaryMatrix` interface (matrix.rs): a plain two-dimensional
   bit array together with a mask of the cells whose value the interface defines.  Written as
   mathematics: every operation says what cell (r, c) of the result is, as a function of the cells
   of the argument; the result is tabulated into lists so that everything is executable.

   Only one clause of the interface makes cells undefined:
     "If start_col is non-zero, values left of start_col in dest row are undefined after
      [add_assign_rows(dest, src, start_col)]". *)
From Coq Require Import NArith List Bool Arith.
Import ListNotations.

Record bitmat := mkbm {
  bh : nat;                     (* height *)
  bw : nat;                     (* width *)
  cell : list (list bool);      (* bh rows of bw booleans *)
  defd : list (list bool)       (* same shape: true = the interface defines this cell *)
}.

(* tabulate a function over [0,h) x [0,w) *)
Definition tab (h w : nat) (f : nat -> nat -> bool) : list (list bool) :=
  map (fun i => map (fun j => f i j) (seq 0 w)) (seq 0 h).

Definition bm_get (a : bitmat) (i j : nat) : bool := nth j (nth i (cell a) []) false.
Definition bm_def (a : bitmat) (i j : nat) : bool := nth j (nth i (defd a) []) false.

Definition bm_make (h w : nat) (f d : nat -> nat -> bool) : bitmat :=
  {| bh := h; bw := w; cell := tab h w f; defd := tab h w d |}.

(* the transposition (i j) applied to x *)
Definition swp (i j x : nat) : nat :=
  if Nat.eqb x i then j else if Nat.eqb x j then i else x.

(* ---- mutating operations ---- *)

Definition bm_new (h w : nat) : bitmat := bm_make h w (fun _ _ => false) (fun _ _ => true).

Definition bm_set (a : bitmat) (i j : nat) (v : bool) : bitmat :=
  bm_make (bh a) (bw a)
    (fun r c => if Nat.eqb r i && Nat.eqb c j then v else bm_get a r c)
    (fun r c => if Nat.eqb r i && Nat.eqb c j then true else bm_def a r c).

Definition bm_swap_rows (a : bitmat) (i j : nat) : bitmat :=
  bm_make (bh a) (bw a) (fun r c => bm_get a (swp i j r) c) (fun r c => bm_def a (swp i j r) c).

(* the hint is a promise about the argument (see [adm]); the result is the swap in ALL rows *)
Definition bm_swap_columns (a : bitmat) (i j : nat) (start_row_hint : nat) : bitmat :=
  bm_make (bh a) (bw a) (fun r c => bm_get a r (swp i j c)) (fun r c => bm_def a r (swp i j c)).

Definition bm_add_assign_rows (a : bitmat) (dest src start_col : nat) : bitmat :=
  bm_make (bh a) (bw a)
    (fun r c => if Nat.eqb r dest then xorb (bm_get a dest c) (bm_get a src c) else bm_get a r c)
    (fun r c => if Nat.eqb r dest
                then (if Nat.ltb c start_col then false else bm_def a dest c && bm_def a src c)
                else bm_def a r c).

Definition bm_resize (a : bitmat) (new_h new_w : nat) : bitmat :=
  bm_make new_h new_w (bm_get a) (bm_def a).

Definition bm_hint_column_dense_and_frozen (a : bitmat) (col : nat) : bitmat := a.
Definition bm_enable_column_access_acceleration (a : bitmat) : bitmat := a.
Definition bm_disable_column_access_acceleration (a : bitmat) : bitmat := a.

(* ---- queries, as functions of the cell function, so that "the answer depends only on the cells
        read" is visible in the definition ---- *)

Definition q_count_ones (f : nat -> nat -> bool) (row s e : nat) : nat :=
  length (filter (fun c => f row c) (seq s (e - s))).
Definition q_row (f : nat -> nat -> bool) (row s e : nat) : list (nat * bool) :=
  map (fun c => (c, f row c)) (seq s (e - s)).
Definition q_ones_in_column (f : nat -> nat -> bool) (col s e : nat) : list nat :=
  filter (fun r => f r col) (seq s (e - s)).
Definition q_sub_row (f : nat -> nat -> bool) (w row s : nat) : list bool :=
  map (fun c => f row c) (seq s (w - s)).
Definition q_non_zero_columns (f : nat -> nat -> bool) (w row s : nat) : list nat :=
  filter (fun c => f row c) (seq s (w - s)).

Definition bm_count_ones (a : bitmat) (row s e : nat) : nat := q_count_ones (bm_get a) row s e.
(* the (col, value) pairs for s <= col < e in increasing column order *)
Definition bm_row (a : bitmat) (row s e : nat) : list (nat * bool) := q_row (bm_get a) row s e.
Definition bm_ones_in_column (a : bitmat) (col s e : nat) : list nat :=
  q_ones_in_column (bm_get a) col s e.
Definition bm_sub_row (a : bitmat) (row s : nat) : list bool := q_sub_row (bm_get a) (bw a) row s.
Definition bm_non_zero_columns (a : bitmat) (row s : nat) : list nat :=
  q_non_zero_columns (bm_get a) (bw a) row s.

(* ---- the operations as data (arguments are the machine integers the caller passes) ---- *)

Inductive op :=
| OSet (i j v : N)                       (* v = 0 stores 0, anything else stores 1 *)
| OGet (i j : N)
| OSwapRows (i j : N)
| OSwapCols (i j hint : N)
| OAddRows (dest src start_col : N)
| OResize (new_h new_w : N)
| OCountOnes (row s e : N)
| ORowIter (row s e : N)
| OOnesInCol (col s e : N)
| OSubRow (row s : N)
| ONonZeroCols (row s : N)
| OFreeze (col : N)
| OEnableAccel
| ODisableAccel.

Inductive ans :=
| ABit (b : bool)
| ANat (n : nat)
| ARow (l : list (nat * bool))
| ANats (l : list nat)
| ABits (l : list bool).

Local Open Scope N_scope.

Definition all_def_row (a : bitmat) (row s e : nat) : bool :=
  forallb (fun c => bm_def a row c) (seq s (e - s)).
Definition all_def_col (a : bitmat) (col s e : nat) : bool :=
  forallb (fun r => bm_def a r col) (seq s (e - s)).

(* rows above the hint: columns i and j are interchangeable there (equally defined, and equal
   where defined) *)
Definition hint_ok (a : bitmat) (i j hint : nat) : bool :=
  forallb (fun r => eqb (bm_def a r i) (bm_def a r j) &&
                    (negb (bm_def a r i) || eqb (bm_get a r i) (bm_get a r j)))
          (seq 0 (Nat.min hint (bh a))).

(* The documented preconditions.  Comparisons are made in N so that [adm] can be evaluated on
   absurdly large arguments; [N.to_nat] is applied only to values already known to be in range. *)
Definition adm (o : op) (a : bitmat) : bool :=
  let h := N.of_nat (bh a) in
  let w := N.of_nat (bw a) in
  match o with
  | OSet i j _ => (i <? h) && (j <? w)
  | OGet i j => (i <? h) && (j <? w) && bm_def a (N.to_nat i) (N.to_nat j)
  | OSwapRows i j => (i <? h) && (j <? h)
  | OSwapCols i j hint =>
      (i <? w) && (j <? w) &&
      hint_ok a (N.to_nat i) (N.to_nat j) (N.to_nat (N.min hint h))
  | OAddRows dest src start_col => (dest <? h) && (src <? h) && negb (dest =? src) && (start_col <=? w)
  | OResize nh nw => (nh <=? h) && (nw <=? w)
  | OCountOnes row s e =>
      (row <? h) && (s <=? e) && (e <=? w) && all_def_row a (N.to_nat row) (N.to_nat s) (N.to_nat e)
  | ORowIter row s e =>
      (row <? h) && (s <=? e) && (e <=? w) && all_def_row a (N.to_nat row) (N.to_nat s) (N.to_nat e)
  | OOnesInCol col s e =>
      (col <? w) && (s <=? e) && (e <=? h) && all_def_col a (N.to_nat col) (N.to_nat s) (N.to_nat e)
  | OSubRow row s =>
      (row <? h) && (s <=? w) && all_def_row a (N.to_nat row) (N.to_nat s) (bw a)
  | ONonZeroCols row s =>
      (row <? h) && (s <=? w) && all_def_row a (N.to_nat row) (N.to_nat s) (bw a)
  | OFreeze col => col <? w
  | OEnableAccel => true
  | ODisableAccel => true
  end.

(* one step of the abstract machine: new matrix and, for a query, its answer *)
Definition bm_step (a : bitmat) (o : op) : bitmat * option ans :=
  let n := N.to_nat in
  match o with
  | OSet i j v => (bm_set a (n i) (n j) (negb (v =? 0)), None)
  | OGet i j => (a, Some (ABit (bm_get a (n i) (n j))))
  | OSwapRows i j => (bm_swap_rows a (n i) (n j), None)
  | OSwapCols i j hint => (bm_swap_columns a (n i) (n j) (n (N.min hint (N.of_nat (bh a)))), None)
  | OAddRows d s c => (bm_add_assign_rows a (n d) (n s) (n c), None)
  | OResize nh nw => (bm_resize a (n nh) (n nw), None)
  | OCountOnes row s e => (a, Some (ANat (bm_count_ones a (n row) (n s) (n e))))
  | ORowIter row s e => (a, Some (ARow (bm_row a (n row) (n s) (n e))))
  | OOnesInCol col s e => (a, Some (ANats (bm_ones_in_column a (n col) (n s) (n e))))
  | OSubRow row s => (a, Some (ABits (bm_sub_row a (n row) (n s))))
  | ONonZeroCols row s => (a, Some (ANats (bm_non_zero_columns a (n row) (n s))))
  | OFreeze col => (bm_hint_column_dense_and_frozen a (n col), None)
  | OEnableAccel => (bm_enable_column_access_acceleration a, None)
  | ODisableAccel => (bm_disable_column_access_acceleration a, None)
  end.

(* run a sequence: final matrix, answers in order; [adm_seq] = every step admissible *)
Fixpoint bm_exec (a : bitmat) (ops : list op) : bitmat * list (option ans) :=
  match ops with
  | [] => (a, [])
  | o :: t => let '(a1, r) := bm_step a o in
              let '(a2, rs) := bm_exec a1 t in (a2, r :: rs)
  end.

Fixpoint adm_seq (a : bitmat) (ops : list op) : bool :=
  match ops with
  | [] => true
  | o :: t => adm o a && adm_seq (fst (bm_step a o)) t
  end.

(* agreement of two matrices on the cells the second one defines *)
Definition bm_agree (x a : bitmat) : Prop :=
  bh x = bh a /\ bw x = bw a /\
  forall i j, (i < bh a)%nat -> (j < bw a)%nat -> bm_def a i j = true -> bm_get x i j = bm_get a i j.
