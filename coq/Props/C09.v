(* C09 (replay part) -- replaying ANY recorded operation list on a symbol slab is GF(256)-linear in
   the slab data and acts independently on every byte column; whether (and how) it panics depends
   on the number of symbols and the mapping only, never on the bytes nor on the symbol size.
   Only pinned statements, each closed by lemmas of Proofs/SlabProofs.v. *)
From Coq Require Import NArith List Bool Lia.
From RQ Require Import Base.Outcome Base.Ints Model.Octet Model.Slab Model.SlabSpec Proofs.SlabProofs.
Import ListNotations.
Open Scope N_scope.
Open Scope outcome_scope.

(* perform_op = (index plan, which reads count and mapping only) then (byte kernel on two symbols) *)
Theorem C09_perform_op_factors : forall m o s,
  perform_op m o s = omap (fun p => step o s (fst p) (snd p)) (op_idx m (slab_count s) (sl_map s) o).
Proof. exact perform_op_eq. Qed.

(* panic behaviour depends on indices and shape only, never on the bytes *)
Theorem C09_replay_shape : forall m ops s1 s2, same_shape s1 s2 ->
  (forall c, replay m ops s1 = Panic c <-> replay m ops s2 = Panic c) /\
  (forall r1 r2, replay m ops s1 = Ok r1 -> replay m ops s2 = Ok r2 -> same_shape r1 r2).
Proof. exact replay_shape_explicit. Qed.

Theorem C09_replay_shape_rel : forall m ops s1 s2, same_shape s1 s2 ->
  outcome_rel same_shape (replay m ops s1) (replay m ops s2).
Proof. exact replay_shape. Qed.

(* ... and not even on the symbol size *)
Theorem C09_symbol_size_irrelevant : forall m ops s1 s2,
  slab_count s1 = slab_count s2 -> sl_map s1 = sl_map s2 ->
  (forall c, replay m ops s1 = Panic c <-> replay m ops s2 = Panic c) /\
  is_panic (replay m ops s1) = is_panic (replay m ops s2) /\
  (forall r1 r2, replay m ops s1 = Ok r1 -> replay m ops s2 = Ok r2 ->
     slab_count r1 = slab_count r2 /\ sl_map r1 = sl_map r2 /\
     sl_ss r1 = sl_ss s1 /\ sl_ss r2 = sl_ss s2).
Proof. exact replay_symbol_size_irrelevant. Qed.

(* additivity *)
Theorem C09_replay_additive : forall m ops s1 s2, slab_wf s1 -> slab_wf s2 -> same_shape s1 s2 ->
  replay m ops (slab_xor s1 s2) = omap2 slab_xor (replay m ops s1) (replay m ops s2).
Proof. exact replay_additive. Qed.

Theorem C09_replay_additive_explicit : forall m ops s1 s2, slab_wf s1 -> slab_wf s2 -> same_shape s1 s2 ->
  (forall r1 r2, replay m ops s1 = Ok r1 -> replay m ops s2 = Ok r2 ->
     replay m ops (slab_xor s1 s2) = Ok (slab_xor r1 r2)) /\
  (forall c, replay m ops s1 = Panic c \/ replay m ops s2 = Panic c ->
     replay m ops (slab_xor s1 s2) = Panic c).
Proof. exact replay_additive_explicit. Qed.

(* homogeneity: uses commutativity + associativity of mulN and distributivity *)
Theorem C09_replay_scalar : forall m ops c s, c < 256 -> slab_wf s ->
  replay m ops (slab_scale c s) = omap (slab_scale c) (replay m ops s).
Proof. exact replay_scale. Qed.

(* byte column j of the result = the result on byte column j alone (a slab with symbol size 1) *)
Theorem C09_replay_columnwise : forall m ops j s, slab_wf s -> (j < sl_ss s)%nat ->
  replay m ops (slab_column j s) = omap (slab_column j) (replay m ops s).
Proof. exact replay_column. Qed.

(* the same with no hypothesis at all (an out-of-range column is the empty column) *)
Theorem C09_replay_columnwise_any : forall m ops j s,
  replay m ops (slab_column j s) = omap (slab_column j) (replay m ops s).
Proof. exact replay_column_any. Qed.

(* col j really is "byte j" *)
Theorem C09_col_is_byte : forall j v, (j < length v)%nat -> col j v = [nth j v 0].
Proof. exact col_nth. Qed.

(* well-formedness is preserved *)
Theorem C09_replay_wf : forall m ops s r, ops_wf ops -> slab_wf s -> replay m ops s = Ok r -> slab_wf r.
Proof. exact replay_wf. Qed.

(* ... even when a scalar in the list is not an octet (the model then multiplies like 1) *)
Theorem C09_replay_wf_any : forall m ops s r, slab_wf s -> replay m ops s = Ok r -> slab_wf r.
Proof. exact replay_wf_any. Qed.

(* the three constructions stay inside well-formed slabs, so the statements compose *)
Theorem C09_structure_wf : forall s1 s2 c j, slab_wf s1 -> slab_wf s2 -> same_shape s1 s2 ->
  slab_wf (slab_xor s1 s2) /\ same_shape (slab_xor s1 s2) s1 /\
  slab_wf (slab_scale c s1) /\ same_shape (slab_scale c s1) s1 /\
  ((j < sl_ss s1)%nat -> slab_wf (slab_column j s1)) /\
  slab_count (slab_column j s1) = slab_count s1 /\ sl_map (slab_column j s1) = sl_map s1.
Proof. exact structure_wf. Qed.

(* reading symbols out through the mapping commutes with the three constructions *)
Theorem C09_read_linear : forall s1 s2 c j n from,
  (same_shape s1 s2 ->
     slab_read (slab_xor s1 s2) n from = omap2 syms_xor (slab_read s1 n from) (slab_read s2 n from)) /\
  slab_read (slab_scale c s1) n from = omap (syms_scale c) (slab_read s1 n from) /\
  slab_read (slab_column j s1) n from = omap (syms_column j) (slab_read s1 n from).
Proof. exact read_linear. Qed.

(* ---- non-vacuity: a 4-symbol slab with T = 3, all four op kinds, a Reorder in the middle ---- *)

Definition exA : slab := mkSlab [[1;2;3];[4;5;6];[7;8;9];[10;11;12]] 3 None.
Definition exB : slab := mkSlab [[200;100;50];[0;255;17];[33;34;35];[90;80;70]] 3 None.
Definition ex_ops : list symbol_op :=
  [SAdd 0 1; SFMA 2 3 7; SReorder [3;2;1;0]; SMul 0 5; SFMA 1 0 19; SAdd 3 1].

Example C09_example_hyps :
  slab_wf exA /\ slab_wf exB /\ same_shape exA exB /\ ops_wf ex_ops /\ (1 < sl_ss exA)%nat /\ 29 < 256.
Proof.
  repeat split; try reflexivity; try (cbn; lia);
    repeat (constructor; try (split; [reflexivity|])); try reflexivity; exact I.
Qed.

Example C09_example_run :
  replay Checked ex_ops exA =
    Ok (mkSlab [[72;29;139];[4;5;6];[77;26;142];[34;39;60]] 3 (Some [3;2;1;0])) /\
  replay Checked ex_ops exB =
    Ok (mkSlab [[201;211;78];[0;255;17];[1;72;109];[47;13;67]] 3 (Some [3;2;1;0])) /\
  (r <- replay Checked ex_ops exA ;; slab_read r 4 0) =
    Ok [[34;39;60];[77;26;142];[4;5;6];[72;29;139]].
Proof. vm_compute. auto. Qed.

Example C09_example_additive :
  replay Checked ex_ops (slab_xor exA exB) =
    Ok (mkSlab [[129;206;197];[4;250;23];[76;82;227];[13;42;127]] 3 (Some [3;2;1;0])) /\
  replay Checked ex_ops (slab_xor exA exB) =
    omap2 slab_xor (replay Checked ex_ops exA) (replay Checked ex_ops exB).
Proof. vm_compute. auto. Qed.

Example C09_example_column :
  replay Checked ex_ops (slab_column 1 exA) = Ok (mkSlab [[29];[5];[26];[39]] 1 (Some [3;2;1;0])) /\
  replay Checked ex_ops (slab_column 1 exA) = omap (slab_column 1) (replay Checked ex_ops exA).
Proof. vm_compute. auto. Qed.

Example C09_example_scalar :
  replay Checked ex_ops (slab_scale 29 exA) =
    Ok (mkSlab [[251;76;233];[116;105;78];[146;31;128];[189;212;214]] 3 (Some [3;2;1;0])) /\
  replay Checked ex_ops (slab_scale 29 exA) = omap (slab_scale 29) (replay Checked ex_ops exA).
Proof. vm_compute. auto. Qed.

(* panics: same class at T = 3, T = 1 and T = 7, whatever the bytes; mode matters only for FMA by 0/1 *)
Example C09_example_panics :
  replay Checked [SAdd 0 1; SReorder [1;0]; SAdd 0 2] exA = Panic PIndex /\
  replay Checked [SAdd 0 1; SReorder [1;0]; SAdd 0 2] (slab_column 0 exB) = Panic PIndex /\
  replay Checked [SAdd 0 1; SReorder [1;0]; SAdd 0 2] (slab_zeros 4 7) = Panic PIndex /\
  replay Checked [SAdd 0 1; SFMA 1 0 1] exA = Panic PAssert /\
  replay Checked [SAdd 0 1; SFMA 1 0 1] (slab_zeros 4 7) = Panic PAssert /\
  is_ok (replay Release [SAdd 0 1; SFMA 1 0 1] exA) = true /\
  replay Release [SMul 4 2] exA = Panic PIndex /\
  replay Release [SAdd 2 2] exA = Panic PAssert.
Proof. vm_compute. repeat split. Qed.

Print Assumptions C09_perform_op_factors.
Print Assumptions C09_replay_shape.
Print Assumptions C09_replay_shape_rel.
Print Assumptions C09_symbol_size_irrelevant.
Print Assumptions C09_replay_additive.
Print Assumptions C09_replay_additive_explicit.
Print Assumptions C09_replay_scalar.
Print Assumptions C09_replay_columnwise.
Print Assumptions C09_replay_columnwise_any.
Print Assumptions C09_col_is_byte.
Print Assumptions C09_replay_wf.
Print Assumptions C09_replay_wf_any.
Print Assumptions C09_structure_wf.
Print Assumptions C09_read_linear.
