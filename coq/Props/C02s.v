(* C02s -- the five-phase inactivation-decoding solver of src/pi_solver.rs, brought inside the model
   (Model/PiSolver.v: an executable mirror of `execute` for the dense back-end, both build variants)
   and tied to the proved linear algebra of Spec/Linear.v.

   Only pinned statements, each closed by lemmas of Proofs/PiSolver*.v.

   Vocabulary.  `pi_run m S H A_bin hdpc L P : outcome (option (list symbol_op))` is
   fused_inverse_mul_symbols (IntermediateSymbolDecoder::new + execute) without the symbols;
   `pi_run_no_hdpc` is the variant new_no_hdpc; `pi_solve` / `pi_solve_no_hdpc` map a panic to None.
   `full_matrix S H A_bin hdpc` is the matrix the solver works on (the HDPC rows replace rows
   S..S+H-1 of the binary matrix).  `sym_of` reads a recorded SymbolOps as an elementary row operation
   of Spec/Linear.v on ORIGINAL row indices; `check_cert` is the certificate check of Spec/Linear.v
   (Proofs/LinearInst.v: an accepted certificate computes THE solution and the matrix is injective).
   `fp_inv A0 M W H s st` is the first-phase invariant of Proofs/PiSolverPhase1.v:
   G = the logical matrix denoted by the recorded operations (original rows through d, original
   columns through c) has the identity block, the zero block right of it up to column W-u and the zero
   block below it; the stored cells (rows of A, HDPC rows) agree with G on the columns >= i (mode
   Release does not maintain the cells left of i: errata 11); the rows of A are binary; the selection
   statistics (ones_per_row, rows_with_single_one) are exact for V. *)
From Coq Require Import NArith List Bool Lia.
From RQ Require Import Base.Outcome Base.Ints Base.ListX Spec.Linear Model.Octet Model.FieldFast
  Model.CMatrix Model.Slab Model.PiSolver Proofs.LinearInst
  Proofs.PiSolverBase Proofs.PiSolverOps Proofs.PiSolverG Proofs.PiSolverInvDefs Proofs.PiSolverHist
  Proofs.PiSolverCells Proofs.PiSolverPhase1 Proofs.PiSolverSound Proofs.PiSolverSystem
  Proofs.PiSolverPlan Proofs.PiSolverExamples Proofs.PiSolverTotalAll Model.SysConst.
Import ListNotations.
Open Scope N_scope.

(* ---- PS_ops_are_row_ops: every recorded operation is a valid elementary row operation on
        original row indices ---- *)
Theorem C02s_PS_ops_are_row_ops : forall m S H A hdpc L P ops,
  bytes_mat A -> bytes_mat hdpc ->
  pi_solve m S H A hdpc L P = Some ops ->
  exists body ord, ops = body ++ [SReorder ord] /\
    forallb (sop_valid (lenN A)) body = true /\
    forallb (op_valid (length A)) (map sym_of body) = true.
Proof. exact pi_solve_ops_valid. Qed.

Theorem C02s_PS_ops_are_row_ops_no_hdpc : forall m A L P ops,
  bytes_mat A ->
  pi_solve_no_hdpc m A L P = Some ops ->
  exists body ord, ops = body ++ [SReorder ord] /\ forallb (sop_valid (lenN A)) body = true.
Proof. intros m A L P ops BA E. apply pi_solve_no_hdpc_some in E. exact (pi_run_no_hdpc_ops_valid _ _ _ _ _ BA E). Qed.

(* ---- PS_invariant: one iteration of the loop of the first phase preserves the state invariant
        (both build variants); the histogram stays exact and every column of V keeps a one in a
        non-HDPC row ---- *)
Theorem C02s_PS_invariant : forall A0 M W H,
  wf_mat (N.to_nat W) A0 -> lenN A0 = M -> W < 65536 -> H <= M -> M < 4294967296 ->
  forall m s st rops s' st' rops',
  fp_inv A0 M W H s st -> ps_i s + ps_u s < W ->
  first_phase_step m s st rops = Ok (Some (s', st', rops')) ->
  fp_inv A0 M W H s' st' /\ ps_i s' = ps_i s + 1 /\
  (hist_ok st -> hist_ok st') /\ (cover_s M W H s -> cover_s M W H s').
Proof. exact fp_step_inv. Qed.

(* ---- PS_sound: a returned operation list is a certificate for the ORIGINAL matrix ---- *)
Theorem C02s_PS_sound : forall m S H A hdpc L P ops M W,
  dims A M W -> 0 < M -> M < 4294967296 -> bin_mat A -> dims hdpc H W -> bytes_mat hdpc ->
  S + 2 * H <= M -> L = W -> P <= W -> W < 65536 ->
  pi_solve m S H A hdpc L P = Some ops ->
  exists body ord, ops = body ++ [SReorder ord] /\
    check_cert fmul (N.to_nat W) (full_matrix S H A hdpc) (map sym_of body) (map N.to_nat ord) = true /\
    NoDup (map N.to_nat ord) /\ length ord = N.to_nat W.
Proof. exact pi_solve_sound. Qed.

Theorem C02s_PS_sound_no_hdpc : forall m A L P ops M W,
  dims A M W -> 0 < M -> M < 4294967296 -> bin_mat A -> L = W -> P <= W -> W < 65536 ->
  pi_solve_no_hdpc m A L P = Some ops ->
  exists body ord, ops = body ++ [SReorder ord] /\
    check_cert fmul (N.to_nat W) A (map sym_of body) (map N.to_nat ord) = true /\
    NoDup (map N.to_nat ord) /\ length ord = N.to_nat W.
Proof. exact pi_solve_no_hdpc_sound. Qed.

(* with Proofs/LinearInst.v: the read-out of the replayed operations is THE solution of every
   consistent system with this matrix, and the matrix is injective *)
Theorem C02s_PS_sound_solution : forall m S H A hdpc L P ops M W,
  dims A M W -> 0 < M -> M < 4294967296 -> bin_mat A -> dims hdpc H W -> bytes_mat hdpc ->
  S + 2 * H <= M -> L = W -> P <= W -> W < 65536 ->
  pi_solve m S H A hdpc L P = Some ops ->
  exists body ord, ops = body ++ [SReorder ord] /\
    injective fmul (N.to_nat W) (full_matrix S H A hdpc) /\
    forall T C D, wf_mat T C -> length C = N.to_nat W ->
      solves fmul T (full_matrix S H A hdpc) C D ->
      read_out (map N.to_nat ord) (apply_ops fmul (map sym_of body) D) = C.
Proof. exact pi_solve_sound_solution. Qed.

(* ---- PS_first_phase_total (errata 2): as long as every column of V has a one in a non-HDPC row,
        the row selection never answers "no row"; and that property is itself preserved
        (C02s_PS_invariant), so the first phase never returns None on such a matrix ---- *)
Theorem C02s_PS_first_phase_total : forall A0 M W H,
  wf_mat (N.to_nat W) A0 -> lenN A0 = M -> W < 65536 -> H <= M -> M < 4294967296 ->
  forall m s st rops,
  fp_inv A0 M W H s st -> hist_ok st -> cover_s M W H s -> ps_i s + ps_u s < W ->
  first_phase_step m s st rops <> Ok None.
Proof. intros A0 M W H Wf Hl W16 HM M32 m s st rops I Hh C Hlt. eapply fp_step_total; eassumption. Qed.

(* ---- PS_complete, for runs that do not panic: None exactly when the matrix is not injective.
        The covering hypothesis holds for constraint matrices: every column left of the PI columns
        has a one in an LDPC row (G_LDPC,1 and I_S) ---- *)
Theorem C02s_PS_complete : forall m S H A hdpc L P r M W,
  dims A M W -> 0 < M -> M < 4294967296 -> bin_mat A -> dims hdpc H W -> bytes_mat hdpc ->
  S + 2 * H <= M -> L = W -> P <= W -> W < 65536 ->
  (forall j, j < W - P -> exists k, k < M /\ (k < S \/ S + H <= k) /\ cell A k j = 1) ->
  pi_run m S H A hdpc L P = Ok r ->
  (r = None <-> ~ injective fmul (N.to_nat W) (full_matrix S H A hdpc)).
Proof. exact pi_run_complete. Qed.

Theorem C02s_PS_complete_no_hdpc : forall m A L P r M W,
  dims A M W -> 0 < M -> M < 4294967296 -> bin_mat A -> L = W -> P <= W -> W < 65536 ->
  (forall j, j < W - P -> exists k, k < M /\ cell A k j = 1) ->
  pi_run_no_hdpc m A L P = Ok r ->
  (r = None <-> ~ injective fmul (N.to_nat W) A).
Proof. exact pi_run_no_hdpc_complete. Qed.

(* ---- the same for the matrices the crate builds (any K <= 56403, any received set): the shape,
        binarity and covering hypotheses hold for generate_constraint_matrix(_no_hdpc) ---- *)
Theorem C02s_PS_system_sound : forall m K isis sp bin hd ops,
  K <= 56403 -> Forall (fun x => x < 2 ^ 32) isis -> lenN isis < 2 ^ 31 ->
  sys_params K = Ok sp -> generate_constraint_matrix m K isis = Ok (bin, hd) ->
  pi_system_run m K isis = Ok (Some ops) ->
  exists body ord, ops = body ++ [SReorder ord] /\
    check_cert fmul (N.to_nat (spL sp)) (full_matrix (spS sp) (spH sp) bin hd)
               (map sym_of body) (map N.to_nat ord) = true /\
    NoDup (map N.to_nat ord) /\ length ord = N.to_nat (spL sp).
Proof. exact pi_system_sound. Qed.

Theorem C02s_PS_system_complete : forall m K isis sp bin hd r,
  K <= 56403 -> Forall (fun x => x < 2 ^ 32) isis -> lenN isis < 2 ^ 31 ->
  sys_params K = Ok sp -> generate_constraint_matrix m K isis = Ok (bin, hd) ->
  pi_system_run m K isis = Ok r ->
  (r = None <-> ~ injective fmul (N.to_nat (spL sp)) (full_matrix (spS sp) (spH sp) bin hd)).
Proof. exact pi_system_complete. Qed.

Theorem C02s_PS_system_no_hdpc_sound : forall m K isis sp A ops,
  K <= 56403 -> Forall (fun x => x < 2 ^ 32) isis -> lenN isis < 2 ^ 31 ->
  sys_params K = Ok sp -> generate_constraint_matrix_no_hdpc m K isis = Ok A ->
  pi_system_run_no_hdpc m K isis = Ok (Some ops) ->
  exists body ord, ops = body ++ [SReorder ord] /\
    check_cert fmul (N.to_nat (spL sp)) A (map sym_of body) (map N.to_nat ord) = true /\
    NoDup (map N.to_nat ord) /\ length ord = N.to_nat (spL sp).
Proof. exact pi_system_no_hdpc_sound. Qed.

Theorem C02s_PS_system_no_hdpc_complete : forall m K isis sp A r,
  K <= 56403 -> Forall (fun x => x < 2 ^ 32) isis -> lenN isis < 2 ^ 31 ->
  sys_params K = Ok sp -> generate_constraint_matrix_no_hdpc m K isis = Ok A ->
  pi_system_run_no_hdpc m K isis = Ok r ->
  (r = None <-> ~ injective fmul (N.to_nat (spL sp)) A).
Proof. exact pi_system_no_hdpc_complete. Qed.

(* SourceBlockEncodingPlan::generate(K): the plan the model produces is the flat encoding of a
   certificate for the encoding matrix of K *)
Theorem C02s_PS_plan_sound : forall m K sp bin hd v,
  K <= 56403 -> sys_params K = Ok sp ->
  generate_constraint_matrix m K (seqN 0 (spK sp)) = Ok (bin, hd) ->
  pi_plan m K = Some v ->
  exists body ord, v = flat_ops (body ++ [SReorder ord]) /\
    check_cert fmul (N.to_nat (spL sp)) (full_matrix (spS sp) (spH sp) bin hd)
               (map sym_of body) (map N.to_nat ord) = true /\
    NoDup (map N.to_nat ord) /\ length ord = N.to_nat (spL sp).
Proof. exact pi_plan_sound. Qed.

(* ---- PS_no_panic / PS_total: the run never panics, in either build variant.  In particular the
        component-graph bookkeeping never reaches its panicking branches (a row with exactly two ones
        in V exists whenever r = 2 is selected and the largest component has a node adjacent to such a
        row; rows counted with two ones have two ones; ids and sizes stay in range; the searches have
        enough fuel), the column search of the swap substep finds its destinations, and (mode
        Checked) the *_verify assertions hold.
        Extra hypotheses with respect to C02s_PS_complete: at least as many rows as columns, the rows
        S..S+H-1 of the binary matrix (which the HDPC rows replace) are empty left of the PI columns,
        and fewer than 65535 columns left of the PI columns (first_phase_original_degree_substep
        starts from u16::MAX and only accepts smaller degrees) ---- *)
Theorem C02s_PS_total : forall m S H A hdpc L P M W,
  dims A M W -> 0 < M -> M < 4294967296 -> bin_mat A -> dims hdpc H W -> bytes_mat hdpc ->
  S + 2 * H <= M -> L = W -> P <= W -> W < 65536 -> W <= M ->
  (forall k j, S <= k < S + H -> j < W - P -> cell A k j = 0) -> W - P < 65535 ->
  exists r, pi_run m S H A hdpc L P = Ok r.
Proof. exact pi_run_total. Qed.

Theorem C02s_PS_total_no_hdpc : forall m A L P M W,
  dims A M W -> 0 < M -> M < 4294967296 -> bin_mat A -> L = W -> P <= W -> W < 65536 -> W <= M ->
  W - P < 65535 ->
  exists r, pi_run_no_hdpc m A L P = Ok r.
Proof. exact pi_run_no_hdpc_total. Qed.

(* ---- PS_complete for pi_solve: None exactly for non-injective matrices ---- *)
Theorem C02s_PS_complete_solve : forall m S H A hdpc L P M W,
  dims A M W -> 0 < M -> M < 4294967296 -> bin_mat A -> dims hdpc H W -> bytes_mat hdpc ->
  S + 2 * H <= M -> L = W -> P <= W -> W < 65536 -> W <= M ->
  (forall k j, S <= k < S + H -> j < W - P -> cell A k j = 0) -> W - P < 65535 ->
  (forall j, j < W - P -> exists k, k < M /\ (k < S \/ S + H <= k) /\ cell A k j = 1) ->
  (pi_solve m S H A hdpc L P = None <-> ~ injective fmul (N.to_nat W) (full_matrix S H A hdpc)).
Proof. exact pi_solve_complete. Qed.

Theorem C02s_PS_complete_solve_no_hdpc : forall m A L P M W,
  dims A M W -> 0 < M -> M < 4294967296 -> bin_mat A -> L = W -> P <= W -> W < 65536 -> W <= M ->
  W - P < 65535 ->
  (forall j, j < W - P -> exists k, k < M /\ cell A k j = 1) ->
  (pi_solve_no_hdpc m A L P = None <-> ~ injective fmul (N.to_nat W) A).
Proof. exact pi_solve_no_hdpc_complete. Qed.

(* ---- the systems the crate builds: always Ok, None exactly when rank deficient ---- *)
Theorem C02s_PS_system_total : forall m K isis sp bin hd,
  K <= 56403 -> Forall (fun x => x < 2 ^ 32) isis -> lenN isis < 2 ^ 31 ->
  sys_params K = Ok sp -> generate_constraint_matrix m K isis = Ok (bin, hd) ->
  exists r, pi_system_run m K isis = Ok r /\
    (r = None <-> ~ injective fmul (N.to_nat (spL sp)) (full_matrix (spS sp) (spH sp) bin hd)).
Proof. exact pi_system_total. Qed.

Theorem C02s_PS_system_total_no_hdpc : forall m K isis sp A,
  K <= 56403 -> Forall (fun x => x < 2 ^ 32) isis -> lenN isis < 2 ^ 31 ->
  sys_params K = Ok sp -> generate_constraint_matrix_no_hdpc m K isis = Ok A ->
  exists r, pi_system_run_no_hdpc m K isis = Ok r /\
    (r = None <-> ~ injective fmul (N.to_nat (spL sp)) A).
Proof. exact pi_system_no_hdpc_total. Qed.

(* ---- non-vacuity: the encoding matrix of K' = 10 (S = 7, H = 10, L = 27, P = 10) ---- *)
Definition ex_sys : outcome (list (list N) * list (list N)) :=
  generate_constraint_matrix Release 10 (seqN 0 10).
Definition ex_A : list (list N) := match ex_sys with Ok (a, _) => a | Panic _ => [] end.
Definition ex_hdpc : list (list N) := match ex_sys with Ok (_, h) => h | Panic _ => [] end.

Example C02s_ex_hyps :
  dims ex_A 27 27 /\ bin_mat ex_A /\ dims ex_hdpc 10 27 /\ bytes_mat ex_hdpc /\ bytes_mat ex_A /\
  (forall j, j < 27 - 10 -> exists k, k < 27 /\ (k < 7 \/ 7 + 10 <= k) /\ cell ex_A k j = 1) /\
  (forall k j, 7 <= k < 7 + 10 -> j < 27 - 10 -> cell ex_A k j = 0).
Proof.
  split; [apply dimsb_ok; vm_compute; reflexivity|].
  split; [apply bin_matb_ok; vm_compute; reflexivity|].
  split; [apply dimsb_ok; vm_compute; reflexivity|].
  split; [apply bytes_matb_ok; vm_compute; reflexivity|].
  split; [apply bytes_matb_ok; vm_compute; reflexivity|].
  split; [apply coverb_ok; vm_compute; reflexivity|].
  apply zerob_ok. vm_compute. reflexivity.
Qed.

Example C02s_ex_some : forall m,
  exists ops, pi_solve m 7 10 ex_A ex_hdpc 27 10 = Some ops /\ lenN ops = 426.
Proof. intros [|]; eexists; split; vm_compute; reflexivity. Qed.

(* the selected row / preserved invariant hypotheses are inhabited: the first step of that run *)
Example C02s_ex_none :
  (* a rank-deficient system without HDPC rows: two equal rows cannot make up for a missing column *)
  pi_run_no_hdpc Release [[1;0];[1;0]] 2 0 = Ok None /\
  pi_run_no_hdpc Checked [[1;0];[1;0]] 2 0 = Ok None.
Proof. split; vm_compute; reflexivity. Qed.

Print Assumptions C02s_PS_ops_are_row_ops.
Print Assumptions C02s_PS_ops_are_row_ops_no_hdpc.
Print Assumptions C02s_PS_invariant.
Print Assumptions C02s_PS_sound.
Print Assumptions C02s_PS_sound_no_hdpc.
Print Assumptions C02s_PS_sound_solution.
Print Assumptions C02s_PS_first_phase_total.
Print Assumptions C02s_PS_complete.
Print Assumptions C02s_PS_complete_no_hdpc.
Print Assumptions C02s_PS_system_sound.
Print Assumptions C02s_PS_system_complete.
Print Assumptions C02s_PS_system_no_hdpc_sound.
Print Assumptions C02s_PS_system_no_hdpc_complete.
Print Assumptions C02s_PS_plan_sound.
Print Assumptions C02s_PS_total.
Print Assumptions C02s_PS_total_no_hdpc.
Print Assumptions C02s_PS_complete_solve.
Print Assumptions C02s_PS_complete_solve_no_hdpc.
Print Assumptions C02s_PS_system_total.
Print Assumptions C02s_PS_system_total_no_hdpc.
