(* C01s -- the decoder and the encoder built on the model of the REAL five-phase solver
   (Model/DecoderPi.v: run the solver of Model/PiSolver.v on the constraint matrix, replay its deferred
   operation list with the final Reorder on the symbol slab, read out the L intermediate symbols) agree
   with Model/Decoder.v / Model/Encoder.v, which take the intermediate symbols from the reference
   elimination gauss_solve.  Hence C01 / C01u / C02 hold for the decoder with the real solver.
   Only pinned statements, closed by Proofs/DecoderPiProofs.v and Proofs/DecoderPiBlock.v. *)
From Coq Require Import NArith List Bool Lia.
From RQ Require Import Base.Outcome Base.Ints Base.ListX Spec.Linear Spec.Layout
  Model.Octet Model.FieldFast Model.SysConst Model.Tuple Model.CMatrix Model.Layout Model.Slab
  Model.Encoder Model.Decoder Model.PiSolver Model.DecoderPi
  Proofs.LinearProofs Proofs.SoundProofs Proofs.BlockSound Proofs.ObjectSound
  Proofs.DecoderPiProofs Proofs.DecoderPiBlock.
Import ListNotations.
Open Scope N_scope.

(* the solver-generic decision procedure instantiated with the reference elimination IS sbd_try *)
Theorem C01s_generic_is_model : forall m d, sbd_try_ref m d = sbd_try m d.
Proof. intros m d. reflexivity. Qed.

(* ---- solver + replay = reference elimination, on every consistent system the crate builds
        (nh = true: the system without HDPC rows) ---- *)
Theorem C01s_solver_equals_reference : forall m K nh isis sp A T D,
  K <= 56403 -> Forall (fun x => x < 2 ^ 32) isis -> lenN isis < 2 ^ 31 ->
  sys_params K = Ok sp -> sys_matrix m K nh isis sp = Ok A ->
  (exists C, wf_mat T C /\ length C = N.to_nat (spL sp) /\ solves fmul T A C D) ->
  solve_pi m K nh isis T D = Ok (gauss_solve fmul finv T (N.to_nat (spL sp)) A D).
Proof. exact solver_equals_reference. Qed.

(* ---- the encoder: the direct five-phase solve gives the model's intermediate symbols ---- *)
Theorem C01s_encoder_equal : forall m syms T C, wf_mat T syms ->
  gen_intermediate_symbols m syms T = Ok C -> gen_intermediate_symbols_pi m syms T = Ok C.
Proof. exact encoder_equal. Qed.

Theorem C01s_block_encoder_equal : forall m c data id K blk e,
  cfg_ok c data -> lenN blk = K * cT c -> Forall (fun b => b < 256) blk ->
  sbe_new m id c blk = Ok e -> sbe_new_pi m id c blk = Ok e.
Proof. exact sbe_new_pi_equal. Qed.

(* ---- the block decoder: on any batches of packets of the encoder, the same answers and states ---- *)
Theorem C01s_block_decoder_equal : forall m c data id K blk e,
  cfg_ok c data -> lenN blk = K * cT c -> Forall (fun b => b < 256) blk ->
  sbe_new m id c blk = Ok e ->
  forall d0, sbd_new id c (K * cT c) = Ok d0 ->
  forall bs, Forall (Forall (enc_produces m e)) bs ->
    run_batches_pi m d0 bs = run_batches m d0 bs.
Proof. exact block_decoder_equal. Qed.

(* ---- the object decoder ---- *)
Theorem C01s_object_decoder_equal : forall m c data encs d0 pkts,
  cfg_ok c data -> encoder_new_full m c data = Ok encs -> dec_new c = Ok d0 ->
  Forall (obj_produces m c encs) pkts ->
  run_dec_pi m d0 pkts = run_dec m d0 pkts.
Proof. exact object_decoder_equal. Qed.

Theorem C01s_object_sound_pi : forall m c data encs d0 pkts,
  cfg_ok c data -> encoder_new_full m c data = Ok encs -> dec_new c = Ok d0 ->
  Forall (obj_produces m c encs) pkts ->
  exists rs d', run_dec_pi m d0 pkts = Ok (rs, d') /\
    Forall (fun r => r = None \/ (r = Some data /\ lenN data = cF c)) rs.
Proof. exact object_sound_pi. Qed.

Theorem C01s_object_complete_pi : forall m c data encs d0 pkts,
  cfg_ok c data -> encoder_new_full m c data = Ok encs -> dec_new c = Ok d0 ->
  Forall (obj_produces m c encs) pkts ->
  (forall j i, j < cZ c -> i < blk_K c j -> exists p, In p pkts /\ fst p = (j, i)) ->
  exists rs d', run_dec_pi m d0 pkts = Ok (rs, d') /\
    dec_result d' = Some data /\ last rs None = Some data.
Proof. exact object_complete_pi. Qed.

(* ---- non-vacuity: ten one-byte source symbols, both build variants ---- *)
Definition ex_syms : list (list N) := map (fun x => [x]) [3; 1; 4; 1; 5; 9; 2; 6; 5; 250].

Example C01s_ex_encoder : forall m,
  wf_mat 1 ex_syms /\
  exists C, gen_intermediate_symbols m ex_syms 1 = Ok C /\ gen_intermediate_symbols_pi m ex_syms 1 = Ok C /\
            length C = 27%nat.
Proof.
  intros m. split; [apply (proj1 (wf_matb_ok 1 ex_syms)); reflexivity|].
  destruct m; eexists; (split; [vm_compute; reflexivity|]); split; vm_compute; reflexivity.
Qed.

Print Assumptions C01s_generic_is_model.
Print Assumptions C01s_solver_equals_reference.
Print Assumptions C01s_encoder_equal.
Print Assumptions C01s_block_encoder_equal.
Print Assumptions C01s_block_decoder_equal.
Print Assumptions C01s_object_decoder_equal.
Print Assumptions C01s_object_sound_pi.
Print Assumptions C01s_object_complete_pi.
