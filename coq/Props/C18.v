(* C18 -- stream addressing of the block encoder (Model/Encoder.v: sbe_repair_packets,
   sbe_source_packets, get_encoded_packets, enc_into).  The repair packet for an encoding symbol ID
   is the same however it is requested; identifiers are K + s + i (u32), all distinct and disjoint
   from the source identifiers; every identifier below 2^24 is producible; the per-object list is,
   block by block, the K source packets followed by the requested repair packets.
   Only pinned statements, each closed by lemmas of Proofs/EncoderProofs.v.

   K = lenN (sbe_syms e) is the number of source symbols.  [sbe_repair_packets] is the repaired
   function: `assert!(K + start + packets <= 2^24)` (in u64) followed by the unchanged body, which
   computes `start + K'`, then `+ i`, and the ESI `K + start + i` in u32.  The body alone is kept as
   [sbe_repair_packets_pinned]: without the assert a window starting near 2^32 wraps in mode
   Release and hands out source identifiers with foreign payloads (C18_pinned_refuted). *)
From Coq Require Import NArith List Bool Lia.
From RQ Require Import Base.Outcome Base.Ints Base.ListX Spec.Linear Spec.Layout
  Model.Octet Model.FieldFast Model.SysConst Model.Tuple Model.CMatrix Model.Layout Model.Slab
  Model.Encoder Model.Decoder Proofs.OutcomeLemmas Proofs.RowParams Proofs.EncoderProofs.
Import ListNotations.
Open Scope N_scope.

(* the repaired function is the id-space assert followed by the pinned body *)
Theorem C18_repaired_iff : forall m e s n l,
  sbe_repair_packets m e s n = Ok l <->
  lenN (sbe_syms e) + s + n <= 16777216 /\ sbe_repair_packets_pinned m e s n = Ok l.
Proof. exact repair_ok_iff. Qed.

(* a window that reaches beyond the 24-bit id space is refused: both modes, also for n = 0 *)
Theorem C18_beyond_id_space_refused : forall m e s n,
  16777216 < lenN (sbe_syms e) + s + n -> sbe_repair_packets m e s n = Panic PAssert.
Proof. exact repair_refused. Qed.

(* a window of n packets starting at repair index s is the n single-packet requests (both modes) *)
Theorem C18_window_is_singles : forall m e s n l, sbe_repair_packets m e s n = Ok l ->
  length l = N.to_nat n /\
  forall i d, i < n -> sbe_repair_packets m e (s + i) 1 = Ok [nth (N.to_nat i) l d].
Proof. exact c18_window_is_singles. Qed.

(* ... and conversely, as soon as the window itself is inside the id space (the look-up
   hypothesis only matters for n = 0, where there is no single request to witness K <= 56403) *)
Theorem C18_singles_make_window : forall m e Kp s n l d,
  extended_source_block_symbols (lenN (sbe_syms e)) = Ok Kp ->
  lenN (sbe_syms e) + s + n <= 16777216 -> length l = N.to_nat n ->
  (forall i, i < n -> sbe_repair_packets m e (s + i) 1 = Ok [nth (N.to_nat i) l d]) ->
  sbe_repair_packets m e s n = Ok l.
Proof. exact c18_singles_make_window. Qed.

(* two windows agree on every common repair index *)
Theorem C18_overlap_agree : forall m e s1 n1 l1 s2 n2 l2 i1 i2 d,
  sbe_repair_packets m e s1 n1 = Ok l1 -> sbe_repair_packets m e s2 n2 = Ok l2 ->
  i1 < n1 -> i2 < n2 -> s1 + i1 = s2 + i2 ->
  nth (N.to_nat i1) l1 d = nth (N.to_nat i2) l2 d.
Proof. exact c18_overlap_agree. Qed.

(* identifiers, no side condition: an accepted window lies inside the id space, packet i has id
   (sbe_id e, K + s + i); all distinct; all in [K, 2^24), hence distinct from every source
   identifier *)
Theorem C18_ids : forall m e s n l, sbe_repair_packets m e s n = Ok l ->
  lenN (sbe_syms e) + s + n <= 16777216 /\
  map fst l = map (fun i => (sbe_id e, lenN (sbe_syms e) + s + i)) (rangeN (N.to_nat n)) /\
  NoDup (map fst l) /\
  Forall (fun p => fst (fst p) = sbe_id e /\ lenN (sbe_syms e) <= snd (fst p) < 16777216) l /\
  (forall src p q, sbe_source_packets e = Ok src -> In p l -> In q src -> fst p <> fst q).
Proof. exact c18_ids. Qed.

(* source packets: ids (sbe_id e, 0..K-1) in order, payloads the source symbols in order *)
Theorem C18_source_ids : forall e l, sbe_source_packets e = Ok l ->
  map fst l = map (fun i => (sbe_id e, i)) (rangeN (length (sbe_syms e))) /\
  map snd l = sbe_syms e /\ lenN (sbe_syms e) <= 16777216.
Proof. intros e l. exact (source_packets_inv (sbe_id e) (sbe_syms e) l). Qed.

(* the per-object list: block by block in order, the K source packets (ESI 0..K-1) followed by
   the repair packets ESI K..K+n-1, every packet carrying its block's sbe_id *)
Theorem C18_object_order : forall m encs n l, get_encoded_packets m encs n = Ok l ->
  exists parts,
    Forall2 (fun e part =>
      let K := lenN (sbe_syms e) in
      exists src rep,
        sbe_source_packets e = Ok src /\ sbe_repair_packets m e 0 n = Ok rep /\ part = src ++ rep /\
        map fst src = map (fun i => (sbe_id e, i)) (rangeN (N.to_nat K)) /\ map snd src = sbe_syms e /\
        map fst rep = map (fun i => (sbe_id e, K + i)) (rangeN (N.to_nat n)) /\
        K + n <= 16777216) encs parts /\
    l = concat parts.
Proof. exact encoded_packets_order. Qed.

(* every identifier up to 2^24 - 1 is producible: no assert fires (PayloadId limit, the asserts of
   the tuple and of enc_into, the index ranges, the loop fuel) once the encoder holds L
   intermediate symbols *)
Theorem C18_all_ids_producible : forall m e L s n,
  lenN (sbe_syms e) <= 56403 -> num_intermediate_symbols (lenN (sbe_syms e)) = Ok L ->
  lenN (sbe_C e) = L -> lenN (sbe_syms e) + s + n <= 16777216 ->
  exists l, sbe_repair_packets m e s n = Ok l.
Proof. exact c18_all_ids_producible. Qed.

(* the payload for an ESI is a function of (K, intermediate symbols, ESI) only: two encoders with
   the same source-symbol count and the same intermediate symbols, whatever the windows *)
Theorem C18_symbol_depends_only_on : forall m e1 e2 s1 n1 l1 s2 n2 l2 i1 i2 d,
  lenN (sbe_syms e1) = lenN (sbe_syms e2) -> sbe_C e1 = sbe_C e2 ->
  sbe_repair_packets m e1 s1 n1 = Ok l1 -> sbe_repair_packets m e2 s2 n2 = Ok l2 ->
  i1 < n1 -> i2 < n2 ->
  snd (fst (nth (N.to_nat i1) l1 d)) = snd (fst (nth (N.to_nat i2) l2 d)) ->
  snd (nth (N.to_nat i1) l1 d) = snd (nth (N.to_nat i2) l2 d).
Proof. exact c18_symbol_depends_only_on. Qed.

(* enc_into is the xor of the intermediate symbols at the indices enc_indices lists (the list the
   constraint matrix is built from); enc_indices succeeding includes d >= 1 *)
Theorem C18_enc_into_is_enc_indices : forall m K C t W P P1 idx,
  num_lt_symbols K = Ok W -> num_pi_symbols K = Ok P -> calculate_p1 K = Ok P1 ->
  enc_indices m t W P P1 = Ok idx ->
  enc_into m K C t =
  match idx with
  | [] => Panic PIndex
  | i0 :: rest =>
      (first <- nth_ok C (N.to_nat i0) ;;
       ofold (fun j acc => s <- nth_ok C (N.to_nat j) ;; Ok (bytes_add acc s)) rest first)%outcome
  end.
Proof. exact enc_into_is_enc_indices. Qed.

(* conversely, for d >= 1, enc_into succeeding means enc_indices succeeds with the same value *)
Theorem C18_enc_into_ok_enc_indices : forall m K C t W P P1 v,
  num_lt_symbols K = Ok W -> num_pi_symbols K = Ok P -> calculate_p1 K = Ok P1 ->
  (let '(d, _, _, _, _, _) := t in 1 <= d) ->
  enc_into m K C t = Ok v -> exists idx, enc_indices m t W P P1 = Ok idx /\ xor_at C idx = Ok v.
Proof. exact enc_into_ok_enc_indices. Qed.

(* ---- non-vacuity: F = 100, T = 8 (K = 13, K' = 18), data byte i = 7 i + 3 mod 251 ---- *)

Definition ex_c : cfg := mkCfg 100 8 1 1 1.
Definition ex_data : list N := map (fun i => (i * 7 + 3) mod 251) (rangeN 100).

Definition ex_enc : outcome sb_encoder :=
  (encs <- encoder_new_full Checked ex_c ex_data ;; nth_ok encs 0)%outcome.

(* windows (3, 4) and (5, 3) overlap on repair indices 5, 6; single requests; ids *)
Example C18_example_windows :
  (e <- ex_enc ;;
   w1 <- sbe_repair_packets Checked e 3 4 ;;
   w2 <- sbe_repair_packets Checked e 5 3 ;;
   s5 <- sbe_repair_packets Checked e 5 1 ;;
   Ok (lenN (sbe_syms e), map fst w1, map fst w2,
       vec_eqb (snd (nth 2 w1 ((0, 0), []))) (snd (nth 0 w2 ((0, 0), []))),
       vec_eqb (snd (nth 3 w1 ((0, 0), []))) (snd (nth 1 w2 ((0, 0), []))),
       vec_eqb (snd (nth 0 s5 ((0, 0), []))) (snd (nth 0 w2 ((0, 0), []))),
       length (snd (nth 0 s5 ((0, 0), [])))))%outcome
  = Ok (13, [(0, 16); (0, 17); (0, 18); (0, 19)], [(0, 18); (0, 19); (0, 20)], true, true, true, 8%nat).
Proof. vm_compute. reflexivity. Qed.

(* the hypotheses of C18_all_ids_producible hold for this encoder; the last valid window *)
Example C18_example_producible :
  (e <- ex_enc ;;
   L <- num_intermediate_symbols (lenN (sbe_syms e)) ;;
   w <- sbe_repair_packets Checked e (16777216 - 13 - 2) 2 ;;
   Ok (lenN (sbe_syms e) <=? 56403, lenN (sbe_C e) =? L, map fst w))%outcome
  = Ok (true, true, [(0, 16777214); (0, 16777215)]).
Proof. vm_compute. reflexivity. Qed.

(* one past the last identifier, and a start near 2^32 (also with no packet requested): refused
   by the id-space assert in both modes *)
Example C18_example_limits :
  (e <- ex_enc ;; sbe_repair_packets Checked e (16777216 - 13) 1)%outcome = Panic PAssert /\
  (e <- ex_enc ;; sbe_repair_packets Checked e (2 ^ 32 - 18) 0)%outcome = Panic PAssert /\
  (e <- ex_enc ;; sbe_repair_packets Release e (2 ^ 32 - 18) 0)%outcome = Panic PAssert /\
  (e <- ex_enc ;; sbe_repair_packets Release e (16777216 - 13) 0)%outcome = Ok [].
Proof. vm_compute. repeat split; reflexivity. Qed.

(* ---- the pinned (pre-repair) body ---- *)

(* its identifiers in any mode: K + s + i reduced mod 2^32 *)
Theorem C18_pinned_ids_mod : forall m e s n l, sbe_repair_packets_pinned m e s n = Ok l ->
  forall i d, i < n ->
    fst (nth (N.to_nat i) l d) = (sbe_id e, (lenN (sbe_syms e) + s + i) mod 2 ^ 32) /\
    (lenN (sbe_syms e) + s + i) mod 2 ^ 32 < 16777216.
Proof. exact pinned_ids_mod. Qed.

(* the defect of the pinned code (confirmed on the crate, release profile): K = 13, K' = 18,
   s = 2^32 - 13.  ESI = K + s + i mod 2^32 = i, ISI = s + K' + i mod 2^32 = 5 + i: mode Release
   returns packets with the SOURCE identifiers (0, 0) and (0, 1) whose payloads are source symbols
   5 and 6, not 0 and 1 (a decoder fed with them returns a wrong block); mode Checked panics with
   an overflow; the repaired function refuses the window in both modes *)
Theorem C18_pinned_refuted :
  (e <- ex_enc ;;
   w <- sbe_repair_packets_pinned Release e (2 ^ 32 - 13) 2 ;;
   Ok (map fst w,
       vec_eqb (snd (nth 0 w ((0, 0), []))) (nth 0 (sbe_syms e) []),
       vec_eqb (snd (nth 1 w ((0, 0), []))) (nth 1 (sbe_syms e) []),
       vec_eqb (snd (nth 0 w ((0, 0), []))) (nth 5 (sbe_syms e) []),
       vec_eqb (snd (nth 1 w ((0, 0), []))) (nth 6 (sbe_syms e) [])))%outcome
  = Ok ([(0, 0); (0, 1)], false, false, true, true) /\
  (e <- ex_enc ;; sbe_repair_packets_pinned Checked e (2 ^ 32 - 13) 2)%outcome = Panic POverflow /\
  (e <- ex_enc ;; sbe_repair_packets Release e (2 ^ 32 - 13) 2)%outcome = Panic PAssert /\
  (e <- ex_enc ;; sbe_repair_packets Checked e (2 ^ 32 - 13) 2)%outcome = Panic PAssert.
Proof. vm_compute. repeat split; reflexivity. Qed.

(* the per-object list for 2 repair packets per block *)
Example C18_example_object :
  (encs <- encoder_new_full Checked ex_c ex_data ;;
   pk <- get_encoded_packets Checked encs 2 ;; Ok (map fst pk))%outcome
  = Ok (map (fun i => (0, i)) (rangeN 15)).
Proof. vm_compute. reflexivity. Qed.

Print Assumptions C18_repaired_iff.
Print Assumptions C18_beyond_id_space_refused.
Print Assumptions C18_window_is_singles.
Print Assumptions C18_singles_make_window.
Print Assumptions C18_overlap_agree.
Print Assumptions C18_ids.
Print Assumptions C18_source_ids.
Print Assumptions C18_object_order.
Print Assumptions C18_all_ids_producible.
Print Assumptions C18_symbol_depends_only_on.
Print Assumptions C18_enc_into_is_enc_indices.
Print Assumptions C18_enc_into_ok_enc_indices.
Print Assumptions C18_pinned_ids_mod.
Print Assumptions C18_pinned_refuted.
Print Assumptions C18_example_windows.
Print Assumptions C18_example_producible.
Print Assumptions C18_example_limits.
Print Assumptions C18_example_object.
