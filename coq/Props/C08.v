(* C08 -- the decoder's answer depends only on the set of distinct packets received.
   Only pinned statements, each closed by lemmas of Proofs/Decoder*.v.

   A block decoder state is abstracted by [abs d], the list of received (ESI, payload) pairs read
   as a set; a history is [consistent id T pkts] when every packet addresses block id, a packet id
   always carries the same payload, payloads have T bytes and ESIs fit 24 bits.
   [sbd_run] is the packet loop of SourceBlockDecoder::decode, [sbd_try] its decision part,
   [sbd_decode] = loop then decision; [dec_add] / [dec_result] / [dec_decode] are
   Decoder::add_new_packet / get_result / decode. *)
From Coq Require Import NArith List Bool Lia Permutation.
From RQ Require Import Base.Outcome Base.Ints Base.ListX Spec.Linear Spec.Layout
  Model.FieldFast Model.SysConst Model.CMatrix Model.Layout Model.Decoder Model.DecoderSpec
  Proofs.DecoderLists Proofs.DecoderProofs Proofs.DecoderMatrix Proofs.DecoderTry Proofs.DecoderTop
  Proofs.DecoderC02.
Import ListNotations.
Open Scope N_scope.

(* the invariant of the packet loop, and what the state stands for *)
Theorem C08_inv : forall m id c bl d0 pkts,
  sbd_new id c bl = Ok d0 -> consistent id (N.to_nat (cT c)) pkts ->
  exists d, sbd_run m d0 pkts = Ok d /\
    sbd_nsrc d = N.of_nat (count_some (sbd_src d)) /\
    NoDup (sbd_esis d) /\
    (forall e, In e (sbd_esis d) <-> In e (map fst (present_sources d) ++ map fst (sbd_rep d))) /\
    NoDup (map fst (sbd_rep d)) /\
    (forall e, In e (map fst (sbd_rep d)) -> sbd_K d <= e) /\
    length (sbd_src d) = N.to_nat (sbd_K d) /\
    (forall x, In x (abs d) <-> In x (pset pkts)).
Proof.
  intros m id c bl d0 pkts Hnew Hc.
  destruct (consistent_run m id c bl d0 pkts Hnew Hc) as [d [R [I [_ [_ [_ [_ Habs]]]]]]].
  exists d. destruct I. split; [exact R|]. do 6 (split; [assumption|]). exact Habs.
Qed.

(* the entries of present_sources are the source ESIs whose slot is filled *)
Theorem C08_present_sources : forall d i x,
  In (i, x) (present_sources d) <-> nth_error (sbd_src d) (N.to_nat i) = Some (Some x).
Proof.
  intros d i x. rewrite present_sources_pres, pres_in. split.
  - intros [k [E H]]. replace (N.to_nat i) with k by lia. exact H.
  - intros H. exists (N.to_nat i). split; [lia | exact H].
Qed.

Theorem C08_dup_ignored : forall m d sbn esi payload,
  sbd_id d = sbn -> In esi (sbd_esis d) -> sbd_add m d ((sbn, esi), payload) = Ok d.
Proof. exact sbd_add_dup. Qed.

Theorem C08_set_determined : forall m id c bl d0 l1 l2 d1 d2,
  sbd_new id c bl = Ok d0 ->
  consistent id (N.to_nat (cT c)) l1 -> consistent id (N.to_nat (cT c)) l2 ->
  same_set (pset l1) (pset l2) ->
  sbd_run m d0 l1 = Ok d1 -> sbd_run m d0 l2 = Ok d2 ->
  sbd_id d1 = sbd_id d2 /\ sbd_cfg d1 = sbd_cfg d2 /\ sbd_K d1 = sbd_K d2 /\
  sbd_src d1 = sbd_src d2 /\ sbd_nsrc d1 = sbd_nsrc d2 /\
  same_set (sbd_esis d1) (sbd_esis d2) /\ Permutation (sbd_rep d1) (sbd_rep d2).
Proof. exact set_determined. Qed.

(* permuting the ISI list permutes the G_ENC rows of the generated matrix and nothing else *)
Theorem C08_matrix_rows_perm : forall m K isis1 isis2 bin1 hd,
  Permutation isis1 isis2 -> generate_constraint_matrix m K isis1 = Ok (bin1, hd) ->
  exists sp bin2, sys_params K = Ok sp /\ generate_constraint_matrix m K isis2 = Ok (bin2, hd) /\
    Permutation (full_matrix (spS sp) (spH sp) bin1 hd) (full_matrix (spS sp) (spH sp) bin2 hd).
Proof. exact gcm_perm. Qed.

(* every row of a generated full matrix has L byte entries (what the rank argument needs) *)
Theorem C08_matrix_wf : forall m K isis bin hd sp,
  generate_constraint_matrix m K isis = Ok (bin, hd) -> sys_params K = Ok sp ->
  wf_mat (N.to_nat (spL sp)) (full_matrix (spS sp) (spH sp) bin hd).
Proof. exact gcm_wf. Qed.

Theorem C08_answer_set_determined_none : forall m d1 d2,
  sbd_inv d1 -> sbd_inv d2 -> sbd_equiv d1 d2 ->
  ((exists d1', sbd_try m d1 = Ok (None, d1')) <-> (exists d2', sbd_try m d2 = Ok (None, d2'))).
Proof.
  intros m d1 d2 I1 I2 E. split; intros [d' H].
  - exact (none_transfer m d1 d2 d' I1 I2 E H).
  - exact (none_transfer m d2 d1 d' I2 I1 (sbd_equiv_sym _ _ E) H).
Qed.

(* the same on histories: reordering / duplicating packets does not change whether decode() says None *)
Theorem C08_answer_set_determined_none_hist : forall m id c bl d0 l1 l2,
  sbd_new id c bl = Ok d0 ->
  consistent id (N.to_nat (cT c)) l1 -> consistent id (N.to_nat (cT c)) l2 ->
  same_set (pset l1) (pset l2) ->
  ((exists d1, sbd_decode m d0 l1 = Ok (None, d1)) <-> (exists d2, sbd_decode m d0 l2 = Ok (None, d2))).
Proof. exact none_hist. Qed.

(* sbd_try changes nothing but the [decoded] flag and never reads it *)
Theorem C08_try_state : forall m d r d', sbd_try m d = Ok (r, d') -> sbd_core d' = sbd_core d.
Proof. exact sbd_try_state. Qed.

Theorem C08_batching : forall m d p1 p2 r1 d1 r2 d2,
  sbd_decode m d p1 = Ok (r1, d1) -> sbd_decode m d1 p2 = Ok (r2, d2) ->
  exists d', sbd_decode m d (p1 ++ p2) = Ok (r2, d') /\ sbd_core d' = sbd_core d2.
Proof. exact sbd_batching. Qed.

Theorem C08_stable : forall m d x, dec_result d = Some x ->
  (forall p d', dec_add m d p = Ok d' -> d' = d /\ dec_result d' = Some x) /\
  (forall p r d', dec_decode m d p = Ok (r, d') -> r = Some x /\ d' = d) /\
  (forall pkts d', dec_run m d pkts = Ok d' -> d' = d /\ dec_result d' = Some x).
Proof.
  intros m d x Hr. split; [|split].
  - intros p d' H. pose proof (dec_add_after_result m d p x d' Hr H) as ->. split; [reflexivity | exact Hr].
  - intros p r d' H. unfold dec_decode in H. destruct (dec_add m d p) as [d1|] eqn:E; [|discriminate].
    cbn [obind] in H. injection H as <- <-.
    pose proof (dec_add_after_result m d p x d1 Hr E) as ->. split; [exact Hr | reflexivity].
  - intros pkts d' H. pose proof (dec_run_after_result m pkts d x d' Hr H) as ->. split; [reflexivity | exact Hr].
Qed.

(* finished blocks are never touched again *)
Theorem C08_block_stable : forall m d p d' i b,
  nth_error (dec_blocks d) i = Some (Some b) -> dec_add m d p = Ok d' ->
  nth_error (dec_blocks d') i = Some (Some b) /\ nth_error (dec_sbd d') i = nth_error (dec_sbd d) i /\
  dec_cfg d' = dec_cfg d.
Proof. exact dec_add_block_kept. Qed.

Theorem C08_incremental_eq_oneshot : forall m d p,
  dec_decode m d p = obind (dec_add m d p) (fun d' => Ok (dec_result d', d')).
Proof. reflexivity. Qed.

Theorem C08_block_interleaving : forall m d p q d1 d12,
  pkt_sbn p <> pkt_sbn q -> dec_add m d p = Ok d1 -> dec_add m d1 q = Ok d12 ->
  exists d2, dec_add m d q = Ok d2 /\ dec_add m d2 p = Ok d12.
Proof.
  intros m d p q d1 d12 Hne. apply dec_add_comm. unfold pkt_sbn in Hne. intros E. apply Hne.
  apply N2Nat.inj. exact E.
Qed.

(* ---- non-vacuity: K = 10, T = 2, one block; packets of the model encoder for ex_data ---- *)

Definition ex_c : cfg := mkCfg 20 2 1 1 1.
Definition ex_data : list N := map (fun i => (7 * i + 3) mod 256) (rangeN 20).
Definition ex_src (i : N) : packet := ((0, i), [14 * i + 3; 14 * i + 10]).
Definition ex_r10 : packet := ((0, 10), [6; 40]).
Definition ex_r11 : packet := ((0, 11), [214; 21]).
Definition ex_r21 : packet := ((0, 21), [104; 104]).
Definition ex_r29 : packet := ((0, 29), [24; 110]).
Definition ex_d0 : sb_decoder := mkSBD 0 ex_c 10 (repeat None 10) [] 0 [] false.

(* two histories with the same set of packets: order reversed, duplicates added *)
Definition ex_l1 : list packet := map ex_src [2; 3; 4; 5; 6; 7; 8; 9] ++ [ex_r10; ex_r11].
Definition ex_l2 : list packet :=
  [ex_r11; ex_r10] ++ map ex_src [9; 8; 7; 6; 5; 4; 3; 2] ++ [ex_r10; ex_src 5].
(* K symbols whose matrix is rank deficient *)
Definition ex_bad1 : list packet := map ex_src [2; 3; 4; 5; 6; 7; 8; 9] ++ [ex_r21; ex_r29].
Definition ex_bad2 : list packet := [ex_r29; ex_r21; ex_r29] ++ map ex_src [9; 8; 7; 6; 5; 4; 3; 2].

Example C08_ex_new : sbd_new 0 ex_c 20 = Ok ex_d0.
Proof. vm_compute. reflexivity. Qed.

Example C08_ex_consistent :
  consistent 0 (N.to_nat (cT ex_c)) ex_l1 /\ consistent 0 (N.to_nat (cT ex_c)) ex_l2 /\
  consistent 0 (N.to_nat (cT ex_c)) ex_bad1 /\ consistent 0 (N.to_nat (cT ex_c)) ex_bad2.
Proof. split; [|split; [|split]]; apply consistentb_ok; vm_compute; reflexivity. Qed.

Ltac in_list := repeat (first [left; reflexivity | right]).
Ltac same_set_tac l1 l2 :=
  let v1 := eval vm_compute in (pset l1) in
  let v2 := eval vm_compute in (pset l2) in
  change (pset l1) with v1; change (pset l2) with v2;
  intros x; split; intros H; cbn [In] in H;
  repeat (destruct H as [<-|H]); try (destruct H); cbn [In]; in_list.

Example C08_ex_same_set : same_set (pset ex_l1) (pset ex_l2) /\ same_set (pset ex_bad1) (pset ex_bad2).
Proof. split; [same_set_tac ex_l1 ex_l2 | same_set_tac ex_bad1 ex_bad2]. Qed.

(* both orders return the source block; the duplicate (ex_src 5) is dropped *)
Example C08_ex_same_answer :
  match sbd_decode Checked ex_d0 ex_l1, sbd_decode Checked ex_d0 ex_l2 with
  | Ok (Some a, d1), Ok (Some b, d2) =>
      a = ex_data /\ b = ex_data /\ sbd_src d1 = sbd_src d2 /\ sbd_nsrc d1 = 8 /\ sbd_nsrc d2 = 8 /\
      sbd_rep d1 = [(10, [6; 40]); (11, [214; 21])] /\ sbd_rep d2 = [(11, [214; 21]); (10, [6; 40])]
  | _, _ => False
  end.
Proof. vm_compute. repeat split. Qed.

(* both orders of the rank deficient set say None *)
Example C08_ex_same_none :
  match sbd_decode Checked ex_d0 ex_bad1, sbd_decode Checked ex_d0 ex_bad2 with
  | Ok (None, d1), Ok (None, d2) => lenN (sbd_esis d1) = 10 /\ lenN (sbd_esis d2) = 10
  | _, _ => False
  end.
Proof. vm_compute. repeat split. Qed.

(* batching: 7 packets (answer None), then the other 3 *)
Definition st_of (x : outcome (option (list N) * sb_decoder)) : sb_decoder :=
  match x with Ok (_, d) => d | Panic _ => ex_d0 end.
Definition ex_after7 : sb_decoder := st_of (sbd_decode Checked ex_d0 (firstn 7 ex_l1)).
Definition ex_after10 : sb_decoder := st_of (sbd_decode Checked ex_after7 (skipn 7 ex_l1)).
Definition ex_oneshot : sb_decoder := st_of (sbd_decode Checked ex_d0 ex_l1).

Example C08_ex_batching :
  sbd_decode Checked ex_d0 (firstn 7 ex_l1) = Ok (None, ex_after7) /\
  sbd_decode Checked ex_after7 (skipn 7 ex_l1) = Ok (Some ex_data, ex_after10) /\
  sbd_decode Checked ex_d0 ex_l1 = Ok (Some ex_data, ex_oneshot) /\
  sbd_core ex_oneshot = sbd_core ex_after10.
Proof. vm_compute. repeat split. Qed.

(* CAVEAT (why only the answer None is proved to be a function of the set): `consistent` does not
   say that the payloads come from one encoding.  With a corrupted repair payload the system
   A.C = D is inconsistent, the reference solver uses the first L independent rows in arrival
   order and ignores the rest, and the bytes returned depend on that order. *)
Definition ex_corrupt : packet := ((0, 12), [99; 99]).
Example C08_ex_corrupt_order_dependent :
  omap fst (sbd_decode Checked ex_d0 (map ex_src [2; 3; 4; 5; 6; 7; 8; 9] ++ [ex_r10; ex_r11; ex_corrupt]))
    = Ok (Some ex_data) /\
  omap fst (sbd_decode Checked ex_d0 (map ex_src [2; 3; 4; 5; 6; 7; 8; 9] ++ [ex_corrupt; ex_r11; ex_r10]))
    = Ok (Some ([154; 164; 79; 154] ++ skipn 4 ex_data)).
Proof. vm_compute. split; reflexivity. Qed.

(* Decoder level: two blocks of K = 10, source packets only (Case 2) *)
Definition ex_c2 : cfg := mkCfg 40 2 2 1 1.
Definition ex_data2 : list N := map (fun i => (5 * i + 1) mod 256) (rangeN 40).
Definition ex_p (b i : N) : packet := ((b, i), [5 * (20 * b + 2 * i) + 1; 5 * (20 * b + 2 * i + 1) + 1]).
Definition ex_blk (b : N) : list packet := map (ex_p b) (rangeN 10).
Definition ex_dec0 : decoder := match dec_new ex_c2 with Ok d => d | Panic _ => mkDec ex_c2 [] [] end.

Fixpoint interleave {A} (l1 l2 : list A) : list A :=
  match l1, l2 with
  | a :: t1, b :: t2 => a :: b :: interleave t1 t2
  | _, _ => l1 ++ l2
  end.

Example C08_ex_decoder :
  match dec_run Checked ex_dec0 (ex_blk 0 ++ ex_blk 1), dec_run Checked ex_dec0 (interleave (ex_blk 1) (ex_blk 0)) with
  | Ok da, Ok db =>
      da = db /\ dec_result da = Some ex_data2 /\
      (* a late duplicate and a packet of a finished block change nothing *)
      dec_decode Checked da (ex_p 1 3) = Ok (Some ex_data2, da) /\
      dec_decode Checked da ((0, 77), [1; 2]) = Ok (Some ex_data2, da) /\
      (* the answer appears exactly with the last packet *)
      match dec_run Checked ex_dec0 (ex_blk 0 ++ firstn 9 (ex_blk 1)) with
      | Ok dc => dec_result dc = None /\ dec_decode Checked dc (ex_p 1 9) = Ok (Some ex_data2, da)
      | Panic _ => False
      end
  | _, _ => False
  end.
Proof. vm_compute. repeat split. Qed.

Example C08_ex_interleaving :
  ex_p 0 4 <> ex_p 1 6 /\ pkt_sbn (ex_p 0 4) <> pkt_sbn (ex_p 1 6) /\
  match dec_add Checked ex_dec0 (ex_p 0 4), dec_add Checked ex_dec0 (ex_p 1 6) with
  | Ok d1, Ok d2 => dec_add Checked d1 (ex_p 1 6) = dec_add Checked d2 (ex_p 0 4) /\
                    is_ok (dec_add Checked d1 (ex_p 1 6)) = true
  | _, _ => False
  end.
Proof. vm_compute. repeat split; intros E; discriminate E. Qed.

Print Assumptions C08_inv.
Print Assumptions C08_present_sources.
Print Assumptions C08_dup_ignored.
Print Assumptions C08_set_determined.
Print Assumptions C08_matrix_rows_perm.
Print Assumptions C08_matrix_wf.
Print Assumptions C08_answer_set_determined_none.
Print Assumptions C08_answer_set_determined_none_hist.
Print Assumptions C08_try_state.
Print Assumptions C08_batching.
Print Assumptions C08_stable.
Print Assumptions C08_block_stable.
Print Assumptions C08_incremental_eq_oneshot.
Print Assumptions C08_block_interleaving.
