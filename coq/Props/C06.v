(* C06 -- "For each of the 477 extended block sizes K' (hence for every K from 1 to 56403) building
   an encoder succeeds, and the intermediate symbols it works from satisfy every LDPC and HDPC
   pre-code relation and reproduce every source symbol and every zero padding symbol through the LT
   encoding relation.  This holds whether they are computed directly or by replaying a pre-computed
   encoding plan, and on either matrix representation."

   Shape of the proof.  For one K' the driver dumps the encoding plan the CURRENT crate generates
   (SourceBlockEncodingPlan::generate(K')) and checks, in a generated file (Proofs/Cert_template.v.txt),
   the single closed fact   cert_ok K' plan = true   by vm_compute: the plan's row operations reduce
   the MODEL's constraint matrix A(K') to the identity up to the plan's final reorder.  The generic
   theorems below turn that fact into the property for K' and, by C06_extended, for every K whose
   extended size is K'.  Only pinned statements (Proofs/CertRunProofs.v, Proofs/CMatrixMode.v). *)
From Coq Require Import NArith List Bool.
From RQ Require Import Base.Outcome Base.Ints Base.ListX Spec.Linear Spec.Layout Model.FieldFast
  Model.CertFast Model.SysConst Model.CMatrix Model.Slab Model.Layout Model.Encoder Model.CertRun
  Proofs.CertFastProofs Proofs.CMatrixMode Proofs.CertSparseProofs Proofs.CertRunProofs.
Import ListNotations.
Open Scope N_scope.

(* the certificate fact fixes the parameters and the matrix, in both build modes *)
Theorem C06_cert_params : forall K v, cert_ok K v = true ->
  exists sp A, sys_params K = Ok sp /\ (forall m, enc_matrix_m m K = Ok A) /\
    length A = N.to_nat (spL sp) /\ wf_mat (N.to_nat (spL sp)) A /\
    K <= spK sp /\ spL sp = spS sp + spH sp + spK sp.
Proof. exact cert_params. Qed.

(* the replayed symbols C solve A.C = D: every LDPC row, every HDPC row, every LT row *)
Theorem C06_cert_gives_solution : forall K v sp A,
  cert_ok K v = true -> sys_params K = Ok sp -> enc_matrix K = Ok A ->
  forall T syms, lenN syms = K -> wf_mat T syms ->
  let D := create_d sp syms T in
  let C := read_out (plan_order v) (apply_ops fmul (plan_ops v) D) in
  solves fmul T A C D /\ length C = N.to_nat (spL sp) /\ wf_mat T C.
Proof. exact pinned_gives_solution. Qed.

(* the same, row by row: rows 0..S+H-1 (LDPC, HDPC) give the zero symbol, row S+H+i gives source
   symbol i for i < K and the zero padding symbol for K <= i < K' *)
Theorem C06_cert_rows : forall K v sp A,
  cert_ok K v = true -> sys_params K = Ok sp -> enc_matrix K = Ok A ->
  forall T syms, lenN syms = K -> wf_mat T syms ->
  let C := plan_solution v (create_d sp syms T) in
  (forall i, i < spS sp + spH sp -> lincomb fmul T (nth (N.to_nat i) A []) C = repeat 0 T) /\
  (forall i, i < K ->
     lincomb fmul T (nth (N.to_nat (spS sp + spH sp + i)) A []) C = nth (N.to_nat i) syms []) /\
  (forall i, K <= i < spK sp ->
     lincomb fmul T (nth (N.to_nat (spS sp + spH sp + i)) A []) C = repeat 0 T).
Proof. exact pinned_rows. Qed.

(* they are the only solution *)
Theorem C06_cert_unique : forall K v sp A,
  cert_ok K v = true -> sys_params K = Ok sp -> enc_matrix K = Ok A ->
  forall T syms C', wf_mat T C' -> length C' = N.to_nat (spL sp) ->
  solves fmul T A C' (create_d sp syms T) -> C' = plan_solution v (create_d sp syms T).
Proof. exact pinned_unique. Qed.

(* A(K') is invertible: the systematic index J(K') of Table 2 is right for this K' *)
Theorem C06_cert_injective : forall K v sp A,
  cert_ok K v = true -> sys_params K = Ok sp -> enc_matrix K = Ok A ->
  injective fmul (N.to_nat (spL sp)) A.
Proof. exact pinned_injective. Qed.

(* gen_intermediate_symbols_with_plan: the slab replay of the plan, in either build mode, does not
   panic and leaves exactly those symbols in the slab *)
Theorem C06_replay_is_readout : forall K v sp A,
  cert_ok K v = true -> sys_params K = Ok sp -> enc_matrix K = Ok A ->
  forall T syms, lenN syms = K -> wf_mat T syms ->
  forall m, exists s',
    replay m (plan_symbol_ops v) (mkSlab (create_d sp syms T) T None) = Ok s' /\
    slab_read s' (N.to_nat (spL sp)) 0 = Ok (plan_solution v (create_d sp syms T)).
Proof. exact pinned_replay. Qed.

(* gen_intermediate_symbols: the direct solve returns the same symbols *)
Theorem C06_direct_equals_replay : forall K v sp A,
  cert_ok K v = true -> sys_params K = Ok sp -> enc_matrix K = Ok A ->
  forall T syms, lenN syms = K -> wf_mat T syms ->
  forall m, gen_intermediate_symbols m syms T = Ok (plan_solution v (create_d sp syms T)).
Proof. exact pinned_direct. Qed.

(* building an encoder succeeds *)
Theorem C06_encoder_builds : forall K v, cert_ok K v = true ->
  forall m T syms, lenN syms = K -> wf_mat T syms ->
  exists C, gen_intermediate_symbols m syms T = Ok C.
Proof. exact pinned_encoder_builds. Qed.

Theorem C06_block_encoder_builds : forall K v sp, cert_ok K v = true -> sys_params K = Ok sp ->
  forall m id c block syms, create_symbols c block = Ok syms -> lenN syms = K ->
  wf_mat (N.to_nat (cT c)) syms ->
  sbe_new m id c block =
  Ok (mkSBE id syms (plan_solution v (create_d sp syms (N.to_nat (cT c)))) (N.to_nat (cT c))).
Proof. exact pinned_sbe_new. Qed.

(* a certificate for K' serves every K with extended_source_block_symbols K = K' *)
Theorem C06_extended : forall K K' v,
  extended_source_block_symbols K = Ok K' -> cert_ok K' v = true -> cert_ok K v = true.
Proof. exact cert_ok_extended. Qed.

(* all of it at once: what one checked fact `cert_ok K' plan = true` gives for every K with
   extended size K' -- the form the generated per-K' file instantiates *)
Theorem C06_for_block_size : forall K' v, cert_ok K' v = true ->
  forall K, extended_source_block_symbols K = Ok K' ->
  exists sp A,
    sys_params K = Ok sp /\ spK sp = K' /\ (forall m, enc_matrix_m m K = Ok A) /\
    injective fmul (N.to_nat (spL sp)) A /\
    forall T syms, lenN syms = K -> wf_mat T syms ->
      let D := create_d sp syms T in
      let C := plan_solution v D in
      (forall m, gen_intermediate_symbols m syms T = Ok C) /\
      (forall m, exists s', replay m (plan_symbol_ops v) (mkSlab D T None) = Ok s' /\
                            slab_read s' (N.to_nat (spL sp)) 0 = Ok C) /\
      solves fmul T A C D /\ length C = N.to_nat (spL sp) /\ wf_mat T C /\
      (forall C', wf_mat T C' -> length C' = N.to_nat (spL sp) -> solves fmul T A C' D -> C' = C) /\
      (forall i, i < spS sp + spH sp -> lincomb fmul T (nth (N.to_nat i) A []) C = repeat 0 T) /\
      (forall i, i < K ->
         lincomb fmul T (nth (N.to_nat (spS sp + spH sp + i)) A []) C = nth (N.to_nat i) syms []) /\
      (forall i, K <= i < K' ->
         lincomb fmul T (nth (N.to_nat (spS sp + spH sp + i)) A []) C = repeat 0 T).
Proof. exact pinned_all. Qed.

(* what the flat plan denotes: the operation list replayed on the slab, the row operations and the
   read-out order of Spec/Linear.v are three readings of one decoded plan; all operations are in
   range, no FMA carries the scalars 0 or 1 (debug assertions), the order is a permutation of 0..L-1 *)
Theorem C06_plan_decoded : forall K v, cert_ok K v = true ->
  exists ops ord, decode_plan v = Some (ops, ord) /\
    plan_symbol_ops v = map sop_of ops ++ [SReorder ord] /\
    plan_ops v = map op_of ops /\ plan_order v = map N.to_nat ord /\
    (forall sp, sys_params K = Ok sp ->
       forallb (fop_valid (spL sp)) ops = true /\ lenN ord = spL sp /\
       Forall (fun i => i < spL sp) ord /\ NoDup ord) /\
    forallb fma_scalar_ok ops = true.
Proof. exact cert_plan_decoded. Qed.

(* the check the driver runs builds the matrix sparsely: it is the model's matrix *)
Theorem C06_sparse_matrix_is_model : forall K sp As,
  sys_params K = Ok sp -> enc_matrix_sparse K = Ok As ->
  enc_matrix K = Ok (dense (spL sp) (spL sp) As) /\ spS sp + spH sp + spK sp = spL sp.
Proof. exact enc_matrix_sparse_dense. Qed.

(* the reference check against the dense matrix of Model/CMatrix.v establishes the same facts
   (cert_core: the record from which every theorem above is proved) *)
Theorem C06_dense_checker : forall K v, cert_ok_dense K v = true ->
  exists sp A ops ord, cert_core K v sp A ops ord.
Proof. exact cert_ok_dense_core. Qed.

(* the matrix does not depend on the build mode *)
Theorem C06_matrix_mode_irrelevant : forall m K isis, Forall (fun x => x < 2 ^ 32) isis ->
  generate_constraint_matrix m K isis = generate_constraint_matrix Release K isis.
Proof. exact generate_constraint_matrix_mode. Qed.

(* ---- non-vacuity: the plan the crate generates for K' = 10 ---- *)

Definition plan10 : list N :=
  [1; 2; 21; 1; 4; 21; 1; 18; 21; 1; 19; 21; 1; 0; 21; 1; 22; 21; 3; 7; 21; 122; 3; 8; 21; 53; 3; 9; 
   21; 117; 3; 10; 21; 220; 3; 11; 21; 153; 3; 12; 21; 147; 3; 13; 21; 38; 3; 14; 21; 100; 3; 15; 21; 
   158; 3; 16; 21; 16; 1; 5; 22; 1; 19; 22; 3; 7; 22; 2; 3; 8; 22; 4; 3; 9; 22; 9; 3; 10; 22; 16; 3; 
   11; 22; 32; 3; 12; 22; 64; 3; 13; 22; 128; 3; 14; 22; 29; 3; 15; 22; 58; 3; 16; 22; 117; 1; 4; 20; 
   1; 5; 20; 1; 6; 20; 1; 19; 20; 1; 25; 20; 3; 7; 20; 244; 3; 8; 20; 181; 3; 9; 20; 143; 3; 10; 20; 
   172; 3; 11; 20; 189; 3; 12; 20; 232; 3; 13; 20; 45; 3; 14; 20; 3; 3; 15; 20; 132; 3; 16; 20; 128; 
   1; 4; 5; 1; 3; 5; 1; 19; 5; 3; 7; 5; 245; 3; 8; 5; 118; 3; 9; 5; 3; 3; 10; 5; 69; 3; 11; 5; 103; 3; 
   12; 5; 204; 3; 13; 5; 90; 3; 14; 5; 6; 3; 15; 5; 21; 3; 16; 5; 29; 1; 6; 25; 1; 19; 25; 1; 26; 25; 
   1; 7; 25; 3; 8; 25; 2; 3; 9; 25; 4; 3; 10; 25; 8; 3; 11; 25; 16; 3; 12; 25; 32; 3; 13; 25; 64; 3; 
   14; 25; 128; 3; 15; 25; 29; 3; 16; 25; 58; 1; 3; 17; 1; 18; 17; 1; 19; 17; 1; 23; 17; 3; 7; 17; 9; 
   3; 8; 17; 17; 3; 9; 17; 38; 3; 10; 17; 64; 3; 11; 17; 128; 3; 12; 17; 31; 3; 13; 17; 58; 3; 14; 17; 
   116; 3; 15; 17; 232; 3; 16; 17; 201; 1; 19; 6; 1; 0; 6; 1; 1; 6; 1; 24; 6; 3; 7; 6; 244; 3; 8; 6; 
   106; 3; 9; 6; 234; 3; 10; 6; 165; 3; 11; 6; 47; 3; 12; 6; 58; 3; 13; 6; 76; 3; 14; 6; 201; 3; 15; 
   6; 33; 3; 16; 6; 32; 1; 18; 24; 1; 19; 24; 1; 2; 24; 3; 7; 24; 18; 3; 8; 24; 34; 3; 9; 24; 76; 3; 
   10; 24; 128; 3; 11; 24; 29; 3; 12; 24; 62; 3; 13; 24; 116; 3; 14; 24; 233; 3; 15; 24; 205; 3; 16; 
   24; 142; 1; 19; 3; 1; 2; 3; 1; 18; 3; 1; 4; 3; 1; 26; 3; 3; 7; 3; 247; 3; 8; 3; 236; 3; 9; 3; 6; 3; 
   10; 3; 138; 3; 11; 3; 207; 3; 12; 3; 133; 3; 13; 3; 181; 3; 14; 3; 12; 3; 15; 3; 42; 3; 16; 3; 58; 
   1; 19; 2; 1; 0; 2; 1; 1; 2; 3; 7; 2; 250; 3; 8; 2; 151; 3; 9; 2; 24; 3; 10; 2; 18; 3; 11; 2; 27; 3; 
   12; 2; 44; 3; 13; 2; 238; 3; 14; 2; 48; 3; 15; 2; 168; 3; 16; 2; 235; 1; 19; 0; 3; 7; 0; 72; 3; 8; 
   0; 136; 3; 9; 0; 45; 3; 10; 0; 56; 3; 11; 0; 119; 3; 12; 0; 248; 3; 13; 0; 205; 3; 14; 0; 130; 3; 
   15; 0; 19; 3; 16; 0; 2; 1; 19; 1; 1; 26; 1; 3; 7; 1; 36; 3; 8; 1; 68; 3; 9; 1; 152; 3; 10; 1; 28; 
   3; 11; 1; 59; 3; 12; 1; 124; 3; 13; 1; 232; 3; 14; 1; 207; 3; 15; 1; 135; 1; 16; 1; 1; 18; 4; 1; 
   26; 4; 3; 7; 4; 4; 3; 8; 4; 8; 3; 9; 4; 19; 3; 10; 4; 32; 3; 11; 4; 64; 3; 12; 4; 129; 3; 13; 4; 
   29; 3; 14; 4; 58; 3; 15; 4; 116; 3; 16; 4; 234; 1; 19; 18; 1; 26; 18; 3; 7; 18; 36; 3; 8; 18; 101; 
   3; 9; 18; 129; 3; 10; 18; 191; 3; 11; 18; 55; 3; 12; 18; 110; 3; 13; 18; 55; 3; 14; 18; 225; 3; 15; 
   18; 141; 3; 16; 18; 164; 2; 7; 50; 3; 8; 7; 242; 3; 9; 7; 126; 3; 10; 7; 178; 3; 11; 7; 176; 3; 12; 
   7; 87; 3; 13; 7; 72; 3; 14; 7; 225; 3; 15; 7; 248; 3; 16; 7; 205; 1; 26; 19; 1; 23; 19; 3; 8; 19; 
   38; 3; 9; 19; 16; 3; 10; 19; 85; 3; 11; 19; 55; 3; 12; 19; 10; 3; 13; 19; 52; 3; 14; 19; 111; 3; 
   15; 19; 229; 3; 16; 19; 36; 2; 8; 187; 3; 9; 8; 24; 3; 10; 8; 127; 3; 11; 8; 24; 3; 12; 8; 150; 3; 
   13; 8; 43; 3; 14; 8; 115; 3; 15; 8; 54; 3; 16; 8; 148; 2; 9; 22; 3; 10; 9; 108; 3; 11; 9; 64; 3; 
   12; 9; 15; 3; 13; 9; 164; 3; 14; 9; 174; 3; 15; 9; 83; 3; 16; 9; 28; 2; 10; 161; 3; 11; 10; 202; 3; 
   12; 10; 93; 3; 13; 10; 212; 3; 14; 10; 201; 3; 15; 10; 53; 3; 16; 10; 140; 3; 11; 26; 179; 3; 12; 
   26; 10; 3; 13; 26; 242; 3; 14; 26; 5; 3; 15; 26; 23; 3; 16; 26; 203; 2; 11; 61; 3; 12; 11; 184; 3; 
   13; 11; 243; 3; 14; 11; 223; 3; 15; 11; 175; 3; 16; 11; 101; 3; 12; 23; 217; 3; 13; 23; 79; 3; 14; 
   23; 121; 3; 15; 23; 218; 3; 16; 23; 37; 2; 12; 165; 3; 13; 12; 248; 3; 14; 12; 137; 3; 15; 12; 187; 
   3; 16; 12; 230; 2; 13; 46; 3; 14; 13; 11; 3; 15; 13; 252; 3; 16; 13; 20; 2; 14; 160; 3; 15; 14; 
   179; 3; 16; 14; 219; 2; 15; 121; 3; 16; 15; 131; 2; 16; 254; 1; 18; 16; 3; 7; 16; 99; 3; 8; 16; 48; 
   3; 9; 16; 84; 3; 10; 16; 104; 1; 26; 16; 3; 11; 16; 185; 1; 23; 16; 3; 12; 16; 2; 3; 13; 16; 182; 
   3; 14; 16; 188; 3; 15; 16; 117; 3; 7; 15; 61; 3; 8; 15; 125; 3; 9; 15; 78; 3; 10; 15; 212; 1; 26; 
   15; 3; 11; 15; 51; 3; 12; 15; 109; 3; 13; 15; 110; 3; 14; 15; 57; 3; 7; 14; 209; 1; 19; 14; 3; 8; 
   14; 150; 3; 9; 14; 234; 3; 10; 14; 165; 1; 26; 14; 3; 11; 14; 59; 1; 23; 14; 3; 12; 14; 176; 3; 13; 
   14; 76; 1; 18; 13; 3; 7; 13; 36; 3; 8; 13; 196; 3; 9; 13; 180; 3; 10; 13; 67; 3; 11; 13; 163; 1; 
   23; 13; 3; 12; 13; 16; 1; 18; 12; 3; 7; 12; 9; 3; 8; 12; 22; 3; 9; 12; 154; 3; 10; 12; 4; 3; 11; 
   12; 247; 1; 23; 12; 1; 18; 23; 3; 7; 23; 117; 1; 19; 23; 3; 8; 23; 228; 3; 9; 23; 191; 3; 10; 23; 
   232; 1; 26; 23; 3; 11; 23; 108; 1; 18; 11; 3; 7; 11; 128; 3; 8; 11; 76; 3; 9; 11; 157; 3; 10; 11; 
   183; 1; 18; 26; 3; 7; 26; 99; 1; 19; 26; 3; 8; 26; 78; 3; 9; 26; 252; 3; 10; 26; 42; 1; 18; 10; 3; 
   7; 10; 198; 1; 19; 10; 3; 8; 10; 89; 3; 9; 10; 231; 1; 18; 9; 3; 7; 9; 253; 3; 8; 9; 155; 1; 18; 8; 
   3; 7; 8; 196; 3; 7; 19; 41; 1; 1; 2; 1; 0; 2; 1; 4; 3; 1; 2; 3; 1; 2; 24; 1; 24; 6; 1; 1; 6; 1; 0; 
   6; 1; 3; 17; 1; 6; 25; 1; 3; 5; 1; 4; 5; 1; 25; 20; 1; 6; 20; 1; 5; 20; 1; 4; 20; 1; 5; 22; 1; 22; 
   21; 1; 0; 21; 1; 4; 21; 1; 2; 21; 1; 21; 8; 1; 21; 11; 1; 21; 15; 1; 21; 16; 1; 22; 23; 1; 22; 14; 
   1; 20; 19; 1; 20; 9; 1; 20; 11; 1; 20; 15; 1; 5; 19; 1; 5; 8; 1; 5; 12; 1; 5; 13; 1; 25; 7; 1; 25; 
   9; 1; 25; 11; 1; 25; 15; 1; 17; 7; 1; 17; 10; 1; 17; 13; 1; 6; 7; 1; 6; 19; 1; 6; 13; 1; 6; 14; 1; 
   24; 26; 1; 24; 12; 1; 3; 18; 1; 3; 8; 1; 3; 11; 1; 3; 23; 1; 2; 18; 1; 2; 7; 1; 2; 26; 1; 2; 11; 1; 
   0; 19; 1; 0; 9; 1; 0; 10; 1; 1; 18; 1; 1; 8; 1; 1; 10; 1; 1; 26; 1; 4; 7; 1; 4; 23; 1; 4; 12; 1; 2; 
   21; 1; 4; 21; 1; 0; 21; 1; 22; 21; 1; 5; 22; 1; 4; 20; 1; 5; 20; 1; 6; 20; 1; 25; 20; 1; 4; 5; 1; 
   3; 5; 1; 6; 25; 1; 3; 17; 1; 0; 6; 1; 1; 6; 1; 24; 6; 1; 2; 24; 1; 2; 3; 1; 4; 3; 1; 0; 2; 1; 1; 2; 
   4; 27; 2; 18; 3; 5; 20; 19; 6; 21; 8; 7; 0; 1; 24; 17; 4; 22; 25; 9; 10; 26; 11; 23; 12; 13; 14; 
   15; 16].

Example C06_cert_10 : cert_ok 10 plan10 = true.
Proof. vm_compute. reflexivity. Qed.

Example C06_cert_dense_10 : cert_ok_dense 10 plan10 = true.
Proof. vm_compute. reflexivity. Qed.

Definition sp10 : sysparams := mkSP 10 254 7 10 17 10 11 27.
Example C06_sp_10 : sys_params 10 = Ok sp10 /\ sys_params 7 = Ok sp10.
Proof. vm_compute. split; reflexivity. Qed.

Example C06_matrix_10 : exists A, enc_matrix 10 = Ok A /\ length A = 27%nat.
Proof. destruct (enc_matrix 10) as [A|] eqn:E; [|vm_compute in E; discriminate]. exists A. split; [reflexivity|].
  vm_compute in E. injection E as <-. reflexivity. Qed.

(* every block of 10 symbols: direct solve = replay, in both modes *)
Example C06_instance_10 : forall m T syms, lenN syms = 10 -> wf_mat T syms ->
  gen_intermediate_symbols m syms T = Ok (plan_solution plan10 (create_d sp10 syms T)) /\
  exists s', replay m (plan_symbol_ops plan10) (mkSlab (create_d sp10 syms T) T None) = Ok s' /\
             slab_read s' 27 0 = Ok (plan_solution plan10 (create_d sp10 syms T)).
Proof.
  intros m T syms Hl Hw. destruct C06_matrix_10 as [A [EA _]].
  split.
  - exact (C06_direct_equals_replay 10 plan10 sp10 A C06_cert_10 (proj1 C06_sp_10) EA T syms Hl Hw m).
  - exact (C06_replay_is_readout 10 plan10 sp10 A C06_cert_10 (proj1 C06_sp_10) EA T syms Hl Hw m).
Qed.

(* and every block of 7 symbols (K' = 10, three padding symbols) *)
Example C06_instance_7 : forall m T syms, lenN syms = 7 -> wf_mat T syms ->
  exists C, gen_intermediate_symbols m syms T = Ok C.
Proof.
  intros m T syms Hl Hw.
  assert (E : extended_source_block_symbols 7 = Ok 10) by (vm_compute; reflexivity).
  exact (C06_encoder_builds 7 plan10 (C06_extended 7 10 plan10 E C06_cert_10) m T syms Hl Hw).
Qed.

(* the assembled statement for K' = 10 *)
Example C06_block_size_10 := C06_for_block_size 10 plan10 C06_cert_10.

(* a concrete block, computed: the hypotheses are satisfiable and the three computations agree *)
Definition ex_syms : list (list N) :=
  [[1; 2]; [3; 4]; [5; 6]; [7; 8]; [9; 10]; [11; 12]; [13; 14]; [15; 16]; [17; 18]; [255; 0]].

Example C06_concrete_10 :
  lenN ex_syms = 10 /\ wf_matb 2 ex_syms = true /\
  gen_intermediate_symbols Checked ex_syms 2 = Ok (plan_solution plan10 (create_d sp10 ex_syms 2)) /\
  (s' <- replay Checked (plan_symbol_ops plan10) (mkSlab (create_d sp10 ex_syms 2) 2 None) ;;
   slab_read s' 27 0)%outcome = Ok (plan_solution plan10 (create_d sp10 ex_syms 2)).
Proof. vm_compute. repeat split; reflexivity. Qed.

(* the checker rejects: a plan for another K', a plan with one scalar changed, a truncated plan,
   an FMA by 1 (valid linear algebra, but a debug assertion of the slab) *)
Example C06_rejects :
  cert_ok 12 plan10 = false /\
  cert_ok 10 (firstn 21 plan10 ++ [123] ++ skipn 22 plan10) = false /\
  cert_ok 10 (firstn 1500 plan10) = false /\
  cert_ok 10 ([3; 0; 1; 1; 3; 0; 1; 1] ++ plan10) = false /\
  check_cert_fast 27 27
    (smat_of_dense (match enc_matrix 10 with Ok A => A | _ => [] end))
    (FFMA 0 1 1 :: FFMA 0 1 1 :: fst (match decode_plan plan10 with Some p => p | None => ([], []) end))
    (snd (match decode_plan plan10 with Some p => p | None => ([], []) end)) = true.
Proof. vm_compute. repeat split; reflexivity. Qed.

Print Assumptions C06_cert_params.
Print Assumptions C06_cert_gives_solution.
Print Assumptions C06_cert_rows.
Print Assumptions C06_cert_unique.
Print Assumptions C06_cert_injective.
Print Assumptions C06_replay_is_readout.
Print Assumptions C06_direct_equals_replay.
Print Assumptions C06_encoder_builds.
Print Assumptions C06_block_encoder_builds.
Print Assumptions C06_extended.
Print Assumptions C06_for_block_size.
Print Assumptions C06_plan_decoded.
Print Assumptions C06_sparse_matrix_is_model.
Print Assumptions C06_dense_checker.
Print Assumptions C06_matrix_mode_irrelevant.
Print Assumptions C06_cert_10.
Print Assumptions C06_cert_dense_10.
Print Assumptions C06_instance_10.
Print Assumptions C06_instance_7.
Print Assumptions C06_block_size_10.
Print Assumptions C06_concrete_10.
Print Assumptions C06_rejects.
