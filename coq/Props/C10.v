(* C10 -- Octet arithmetic is the field GF(256) of RFC 6330 5.7.
   Only pinned statements, each closed by lemmas of Proofs/OctetProofs.v. *)
From Coq Require Import NArith List Bool Lia.
From RQ Require Import Base.Outcome Base.ListX Gen.OctetTables Spec.GF256 Model.Octet Proofs.OctetProofs.
Open Scope N_scope.

(* The model's value-level operations are total on octets and never take a panic branch
   (the get_unchecked sites stay inside the tables). *)
Theorem C10_ops_total : forall a b, a < 256 -> b < 256 ->
  oct_mul a b = Ok (mulN a b) /\ (b <> 0 -> oct_div a b = Ok (divN a b)).
Proof. intros a b Ha Hb. split; [exact (oct_mul_ok a b Ha Hb) | exact (oct_div_ok a b Ha Hb)]. Qed.

Theorem C10_mul_is_polynomial : forall a b, a < 256 -> b < 256 -> oct_mul a b = Ok (pmul a b).
Proof. intros a b Ha Hb. rewrite <- (mulN_is_pmul a b Ha Hb). exact (oct_mul_ok a b Ha Hb). Qed.

Theorem C10_add_is_xor : forall a b, oct_add a b = padd a b.
Proof. reflexivity. Qed.

Theorem C10_closed : forall a b, a < 256 -> b < 256 -> mulN a b < 256 /\ oct_add a b < 256.
Proof. intros a b Ha Hb. split; [exact (mulN_lt a b Ha Hb) | exact (lxor_lt_256 a b Ha Hb)]. Qed.

Theorem C10_mul_comm : forall a b, mulN a b = mulN b a.
Proof. exact mulN_comm. Qed.

Theorem C10_mul_assoc : forall a b c, a < 256 -> b < 256 -> c < 256 ->
  mulN (mulN a b) c = mulN a (mulN b c).
Proof. exact mulN_assoc. Qed.

Theorem C10_mul_one : forall a, a < 256 -> mulN a 1 = a.
Proof. exact mulN_1_r. Qed.

Theorem C10_distrib : forall a b c, a < 256 -> b < 256 -> c < 256 ->
  mulN a (N.lxor b c) = N.lxor (mulN a b) (mulN a c).
Proof. exact mulN_distr_r. Qed.

Theorem C10_div_is_inverse : forall a, a < 256 -> a <> 0 ->
  oct_div 1 a = Ok (divN 1 a) /\ mulN a (divN 1 a) = 1.
Proof.
  intros a Ha Hz. split; [apply oct_div_ok; [reflexivity | exact Ha | exact Hz] | exact (mulN_inv a Ha Hz)].
Qed.

Theorem C10_div_mul : forall a b, a < 256 -> b < 256 -> b <> 0 -> mulN (divN a b) b = a.
Proof. exact mulN_div. Qed.

Theorem C10_div_zero_panics : forall a, oct_div a 0 = Panic PAssert.
Proof. reflexivity. Qed.

Theorem C10_fma : forall acc a b, acc < 256 -> a < 256 -> b < 256 ->
  oct_fma acc a b = Ok (N.lxor acc (mulN a b)).
Proof. exact oct_fma_ok. Qed.

Theorem C10_alpha : forall i, i < 256 -> oct_alpha i = Ok (ppow2 (N.to_nat i)).
Proof. exact oct_alpha_ok. Qed.

Theorem C10_alpha_range : forall i, 256 <= i -> oct_alpha i = Panic PAssert.
Proof. intros i H. unfold oct_alpha. apply N.ltb_ge in H. rewrite H. reflexivity. Qed.

Theorem C10_tables : forall c x, c < 256 -> x < 256 ->
  tbl2 octet_mul_table c x = Ok (mulN c x) /\
  exists l h, tbl2 octet_mul_low_table c (N.land x 15) = Ok l /\
              tbl2 octet_mul_hi_table c (N.shiftr x 4) = Ok h /\ N.lxor l h = mulN c x.
Proof. exact tables_ok. Qed.

Theorem C10_tables_dup : forall c j, c < 256 -> j < 16 ->
  tbl2 octet_mul_low_table c (j + 16) = tbl2 octet_mul_low_table c j /\
  tbl2 octet_mul_hi_table c (j + 16) = tbl2 octet_mul_hi_table c j /\
  is_ok (tbl2 octet_mul_low_table c j) = true /\ is_ok (tbl2 octet_mul_hi_table c j) = true.
Proof. exact tables_dup_ok. Qed.

(* the unchecked look-ups of octet.rs are in bounds (also C12's obligation for these sites) *)
Theorem C10_unchecked_in_bounds : forall a b, a < 256 -> b < 256 -> a <> 0 -> b <> 0 ->
  logN a + logN b < 510 /\ 1 <= 255 + logN a - logN b < 510.
Proof. exact unchecked_in_bounds. Qed.

(* non-vacuity: concrete products *)
Example C10_example : oct_mul 87 131 = Ok (pmul 87 131) /\ pmul 87 131 = 49 /\ oct_div 1 2 = Ok 142.
Proof. vm_compute. auto. Qed.

Print Assumptions C10_ops_total.
Print Assumptions C10_mul_is_polynomial.
Print Assumptions C10_add_is_xor.
Print Assumptions C10_closed.
Print Assumptions C10_mul_comm.
Print Assumptions C10_mul_assoc.
Print Assumptions C10_mul_one.
Print Assumptions C10_distrib.
Print Assumptions C10_div_is_inverse.
Print Assumptions C10_div_mul.
Print Assumptions C10_div_zero_panics.
Print Assumptions C10_fma.
Print Assumptions C10_alpha.
Print Assumptions C10_alpha_range.
Print Assumptions C10_tables.
Print Assumptions C10_tables_dup.
Print Assumptions C10_unchecked_in_bounds.
