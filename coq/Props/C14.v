(* C14 -- Derivation of the transport parameters (ObjectTransmissionInformation::generate_encoding_parameters,
   with_defaults, EncoderBuilder::build) computes the RFC 6330 4.3 values.
   Only pinned statements, each closed by lemmas of Proofs/ParamsProofs.v.

   gen_params fixed m F mtu WS = Ok (F, T, Z, N, Al) | Panic c
     fixed = true  : the repaired closure `kl` (u64 comparison, 0 when no K' fits)
     fixed = false : the pinned code (commit 0c30b9e) *)
From Coq Require Import NArith List Bool Lia.
From RQ Require Import Base.Outcome Base.Ints Base.ListX Gen.SysTables Gen.Consts
  Spec.Derive Model.Params Proofs.ParamsProofs.
Open Scope N_scope.

(* On the whole domain the repaired code returns the RFC values, in both build modes. *)
Theorem C14_matches_rfc : forall F mtu WS,
  D F mtu WS -> WS < 2 ^ 64 -> mtu < 2 ^ 16 ->
  forall m, gen_params true m F mtu WS = Ok (F, T_of mtu, Z_of F mtu WS, N_of F mtu WS, Al_of mtu).
Proof. exact matches_rfc. Qed.

(* T is the largest multiple of Al not above the packet size. *)
Theorem C14_T_largest_multiple : forall mtu,
  T_of mtu mod Al_of mtu = 0 /\ T_of mtu <= mtu /\ mtu < T_of mtu + Al_of mtu.
Proof. exact T_largest_multiple. Qed.

(* Z is the least block count z >= 1 with ceil(Kt/z) <= KL(N_max). *)
Theorem C14_Z_least : forall F mtu WS,
  D F mtu WS ->
  exists k, KL mtu WS (Nmax_of mtu) = Some k /\
    1 <= Z_of F mtu WS /\ ceil_div (Kt_of F mtu) (Z_of F mtu WS) <= k /\
    forall z, 1 <= z -> ceil_div (Kt_of F mtu) z <= k -> Z_of F mtu WS <= z.
Proof. exact Z_least. Qed.

(* N satisfies ceil(Kt/Z) <= KL(N) and no smaller n >= 1 does (an undefined KL(n) does not). *)
Theorem C14_N_least : forall F mtu WS,
  D F mtu WS ->
  (exists k, KL mtu WS (N_of F mtu WS) = Some k /\ ceil_div (Kt_of F mtu) (Z_of F mtu WS) <= k) /\
  (forall j, 1 <= j < N_of F mtu WS ->
     forall k, KL mtu WS j = Some k -> k < ceil_div (Kt_of F mtu) (Z_of F mtu WS)).
Proof. exact N_least. Qed.

(* On the domain the search succeeds within 1..N_max. *)
Theorem C14_N_exists : forall F mtu WS,
  D F mtu WS -> N_opt F mtu WS = Some (N_of F mtu WS) /\ 1 <= N_of F mtu WS <= Nmax_of mtu.
Proof. exact N_exists. Qed.

(* KL is monotone non-decreasing in n (which is why n = N_max always accepts the object). *)
Theorem C14_KL_monotone_n : forall mtu WS n n' k,
  Al_of mtu <= mtu -> 1 <= n -> n <= n' -> KL mtu WS n = Some k ->
  exists k', KL mtu WS n' = Some k' /\ k <= k'.
Proof. exact KL_mono_n. Qed.

(* A larger memory budget never yields more source blocks. *)
Theorem C14_monotone : forall F mtu WS WS',
  D F mtu WS -> D F mtu WS' -> WS <= WS' -> Z_of F mtu WS' <= Z_of F mtu WS.
Proof. exact Z_monotone. Qed.

(* The derived parameters are acceptable to the OTI constructor and to the partitioning. *)
Theorem C14_result_valid : forall F mtu WS,
  D F mtu WS -> mtu < 2 ^ 16 ->
  F <= 942574504275 /\
  T_of mtu mod Al_of mtu = 0 /\
  ceil_div (ceil_div F (T_of mtu)) (Z_of F mtu WS) <= 56403 /\
  1 <= Z_of F mtu WS <= 255 /\
  Z_of F mtu WS <= ceil_div F (T_of mtu) /\
  1 <= N_of F mtu WS <= T_of mtu / Al_of mtu.
Proof. exact result_valid. Qed.

(* Defect D1 (pinned code): the u64 quotient 2^40 / 64 = 2^34 is narrowed to u32 = 0. *)
Theorem C14_pinned_refuted_narrowing : forall m,
  D 30000 1024 (2 ^ 40) /\
  gen_params false m 30000 1024 (2 ^ 40) = Panic PUnreachable /\
  gen_params true m 30000 1024 (2 ^ 40) = Ok (30000, 1024, 1, 1, 8).
Proof.
  intros m. split; [apply Db_spec; vm_compute; reflexivity|].
  destruct m; vm_compute; split; reflexivity.
Qed.

(* Defect D2 (pinned code): kl(1) has no admissible K' although kl(16) has. *)
Theorem C14_pinned_refuted_subblock_search : forall m,
  D 30000 1024 700 /\
  gen_params false m 30000 1024 700 = Panic PUnreachable /\
  gen_params true m 30000 1024 700 = Ok (30000, 1024, 3, 16, 8).
Proof.
  intros m. split; [apply Db_spec; vm_compute; reflexivity|].
  destruct m; vm_compute; split; reflexivity.
Qed.

(* The pinned code agrees with the repaired one whenever, for every n the code consults (N_max and
   1..N), the quotient WS / (Al * ceil(T/(Al*n))) fits u32 and some K' fits. *)
Theorem C14_pinned_agrees_when : forall F mtu WS,
  D F mtu WS -> WS < 2 ^ 64 -> mtu < 2 ^ 16 ->
  (forall n, n = Nmax_of mtu \/ 1 <= n <= N_of F mtu WS ->
             KL_bound mtu WS n < 2 ^ 32 /\ KL mtu WS n <> None) ->
  forall m, gen_params false m F mtu WS = gen_params true m F mtu WS.
Proof. exact pinned_agrees_when. Qed.

(* A sufficient condition on the inputs alone. *)
Theorem C14_pinned_agrees_simple : forall F mtu WS,
  D F mtu WS -> WS < 2 ^ 64 -> mtu < 2 ^ 16 ->
  KL_bound mtu WS (Nmax_of mtu) < 2 ^ 32 -> KL mtu WS 1 <> None ->
  forall m, gen_params false m F mtu WS = gen_params true m F mtu WS.
Proof. exact pinned_agrees_simple. Qed.

(* The boolean domain test decides D. *)
Theorem C14_domain_decidable : forall F mtu WS, Db F mtu WS = true <-> D F mtu WS.
Proof. exact Db_spec. Qed.

(* ---- non-vacuity ---- *)

(* the default 10 MiB budget, 1024-byte packets, a 10^9-byte object: in D, and all three versions agree *)
Example C14_example_default :
  D 1000000000 1024 DEFAULT_MEMORY /\ DEFAULT_MEMORY < 2 ^ 64 /\ 1024 < 2 ^ 16 /\
  KL_bound 1024 DEFAULT_MEMORY (Nmax_of 1024) < 2 ^ 32 /\ KL 1024 DEFAULT_MEMORY 1 <> None /\
  (T_of 1024, Z_of 1000000000 1024 DEFAULT_MEMORY, N_of 1000000000 1024 DEFAULT_MEMORY, Al_of 1024)
    = (1024, 18, 6, 8) /\
  with_defaults true Checked 1000000000 1024 = Ok (1000000000, 1024, 18, 6, 8) /\
  with_defaults false Release 1000000000 1024 = Ok (1000000000, 1024, 18, 6, 8).
Proof.
  split; [apply Db_spec; vm_compute; reflexivity|].
  split; [reflexivity | split; [reflexivity | split; [reflexivity|]]].
  split; [vm_compute; discriminate|]. vm_compute. auto.
Qed.

(* two budgets for C14_monotone: Z drops from 3 to 1 *)
Example C14_example_monotone :
  D 30000 1024 700 /\ D 30000 1024 2000 /\ Z_of 30000 1024 700 = 3 /\ Z_of 30000 1024 2000 = 1.
Proof.
  split; [apply Db_spec; vm_compute; reflexivity|].
  split; [apply Db_spec; vm_compute; reflexivity|]. vm_compute. auto.
Qed.

(* small packets (Al = 1), the extreme transfer length, and an input outside the domain *)
Example C14_example_edges :
  D 500000 63 7000 /\ gen_params true Release 500000 63 7000 = Ok (500000, 63, 2, 63, 1) /\
  D (56403 * 255 * 65528) 65535 (2 ^ 64 - 1) /\ Db (56403 * 255 * 65528 + 1) 65535 (2 ^ 64 - 1) = false /\ MAX_TRANSFER_LENGTH = 56403 * 255 * 65535 /\
  Db 30000 1024 70 = false /\ gen_params true Release 30000 1024 70 = Panic PDivZero /\
  gen_params true Release 30000 0 700 = Panic PAssert.
Proof.
  split; [apply Db_spec; vm_compute; reflexivity|]. split; [vm_compute; reflexivity|].
  split; [apply Db_spec; vm_compute; reflexivity|]. vm_compute. auto.
Qed.

Print Assumptions C14_matches_rfc.
Print Assumptions C14_T_largest_multiple.
Print Assumptions C14_Z_least.
Print Assumptions C14_N_least.
Print Assumptions C14_N_exists.
Print Assumptions C14_KL_monotone_n.
Print Assumptions C14_monotone.
Print Assumptions C14_result_valid.
Print Assumptions C14_pinned_refuted_narrowing.
Print Assumptions C14_pinned_refuted_subblock_search.
Print Assumptions C14_pinned_agrees_when.
Print Assumptions C14_pinned_agrees_simple.
Print Assumptions C14_domain_decidable.
