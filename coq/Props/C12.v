(* C12 (logic part) -- no kernel of src/octets.rs reads or writes outside the slices it is given:
   vector loads/stores, the unaligned u64 tail loops, get_unchecked on slices and on OCTET_MUL,
   the u32 / u64 re-interpretation of the bit-vector words all stay in bounds.
   Two forms: (a) the explicit access list of every kernel satisfies off + width <= buffer length;
   (b) the model's unchecked accessors return Panic PIndex on any out-of-bounds access, and every
   kernel returns Ok (C11), so no such access happens.
   Only pinned statements, each closed by lemmas of Proofs/KernelsAccess.v. *)
From Coq Require Import NArith List Bool Arith.
From RQ Require Import Base.Outcome Base.Ints Base.ListX Base.Vec Spec.Bits Model.Octet Model.Kernels
  Proofs.OctetProofs Proofs.VecLemmas Proofs.KernelsProofs Proofs.KernelsMulProofs
  Proofs.KernelsBinProofs Proofs.KernelsDispatch Proofs.KernelsAccess.
Import ListNotations.
Open Scope N_scope.

(* in_bounds ol sl wl (buf, off, w) :  off + w <= length of buf, where |octets| = ol, |other| = sl,
   the word buffer has wl u64 words (8 * wl bytes), OCTET_MUL is 256 x 256, the nibble tables 256 x 32 *)

Theorem C12_add_assign_in_bounds : forall wl octets other, length octets = length other ->
  Forall (in_bounds (length octets) (length other) wl) (add_assign_avx512_accesses octets other) /\
  Forall (in_bounds (length octets) (length other) wl) (add_assign_avx2_accesses octets other) /\
  Forall (in_bounds (length octets) (length other) wl) (add_assign_ssse3_accesses octets other) /\
  Forall (in_bounds (length octets) (length other) wl) (add_assign_fallback_accesses octets other).
Proof.
  intros wl octets other HL. repeat split.
  - apply add_assign_simd_in_bounds; auto.
  - apply add_assign_simd_in_bounds; auto.
  - apply add_assign_simd_in_bounds; auto.
  - apply add_assign_fallback_in_bounds; auto.
Qed.

Theorem C12_mulassign_in_bounds : forall sl wl octets c, c < 256 -> bytes octets ->
  Forall (in_bounds (length octets) sl wl) (mulassign_scalar_avx512_accesses octets c) /\
  Forall (in_bounds (length octets) sl wl) (mulassign_scalar_avx2_accesses octets c) /\
  Forall (in_bounds (length octets) sl wl) (mulassign_scalar_ssse3_accesses octets c) /\
  Forall (in_bounds (length octets) sl wl) (mulassign_scalar_fallback_accesses octets c).
Proof.
  intros sl wl octets c Hc Bo. repeat split.
  - apply mulassign_scalar_simd_in_bounds; auto.
  - apply mulassign_scalar_simd_in_bounds; auto.
  - apply mulassign_scalar_simd_in_bounds; auto.
  - apply mulassign_scalar_fallback_in_bounds; auto.
Qed.

Theorem C12_fma_in_bounds : forall wl octets other c, length octets = length other -> c < 256 -> bytes other ->
  Forall (in_bounds (length octets) (length other) wl) (fused_addassign_mul_scalar_avx512_accesses octets other c) /\
  Forall (in_bounds (length octets) (length other) wl) (fused_addassign_mul_scalar_avx2_accesses octets other c) /\
  Forall (in_bounds (length octets) (length other) wl) (fused_addassign_mul_scalar_ssse3_accesses octets other c) /\
  Forall (in_bounds (length octets) (length other) wl) (fused_addassign_mul_scalar_fallback_accesses octets other c).
Proof.
  intros wl octets other c HL Hc Bo. repeat split.
  - apply fused_addassign_mul_scalar_simd_in_bounds; auto.
  - apply fused_addassign_mul_scalar_simd_in_bounds; auto.
  - apply fused_addassign_mul_scalar_simd_in_bounds; auto.
  - apply fused_addassign_mul_scalar_fallback_in_bounds; auto.
Qed.

Theorem C12_fma_binary_in_bounds : forall sl octets bits, wf_bvec bits -> length octets = N.to_nat (snd bits) ->
  Forall (in_bounds (length octets) sl (length (fst bits))) (fused_addassign_mul_scalar_binary_avx512_accesses octets bits) /\
  ((0 < length octets)%nat ->
   Forall (in_bounds (length octets) sl (length (fst bits))) (fused_addassign_mul_scalar_binary_avx2_accesses octets bits)).
Proof.
  intros sl octets bits Hwf HL. split.
  - exact (fused_addassign_mul_scalar_binary_avx512_in_bounds sl octets bits Hwf HL).
  - exact (fused_addassign_mul_scalar_binary_avx2_in_bounds sl octets bits Hwf HL).
Qed.

Theorem C12_kernel_in_bounds : forall octets other bits c,
  length octets = length other -> c < 256 -> bytes octets -> bytes other ->
  wf_bvec bits -> length octets = N.to_nat (snd bits) ->
  let P := in_bounds (length octets) (length other) (length (fst bits)) in
  Forall P (add_assign_avx512_accesses octets other) /\
  Forall P (add_assign_avx2_accesses octets other) /\
  Forall P (add_assign_ssse3_accesses octets other) /\
  Forall P (add_assign_fallback_accesses octets other) /\
  Forall P (mulassign_scalar_avx512_accesses octets c) /\
  Forall P (mulassign_scalar_avx2_accesses octets c) /\
  Forall P (mulassign_scalar_ssse3_accesses octets c) /\
  Forall P (mulassign_scalar_fallback_accesses octets c) /\
  Forall P (fused_addassign_mul_scalar_avx512_accesses octets other c) /\
  Forall P (fused_addassign_mul_scalar_avx2_accesses octets other c) /\
  Forall P (fused_addassign_mul_scalar_ssse3_accesses octets other c) /\
  Forall P (fused_addassign_mul_scalar_fallback_accesses octets other c) /\
  Forall P (fused_addassign_mul_scalar_binary_avx512_accesses octets bits) /\
  ((0 < length octets)%nat -> Forall P (fused_addassign_mul_scalar_binary_avx2_accesses octets bits)).
Proof. exact kernel_in_bounds. Qed.

Theorem C12_tables_in_bounds :
  length octet_mul_table = 256%nat /\ (forall r, In r octet_mul_table -> length r = 256%nat) /\
  length octet_mul_low_table = 256%nat /\ (forall r, In r octet_mul_low_table -> length r = 32%nat) /\
  length octet_mul_hi_table = 256%nat /\ (forall r, In r octet_mul_hi_table -> length r = 32%nat).
Proof. exact tables_in_bounds. Qed.

Theorem C12_table_lookups_in_bounds : forall c x, c < 256 -> x < 256 ->
  is_ok (tbl2 octet_mul_table c x) = true /\
  is_ok (tbl2 octet_mul_low_table c (N.land x 15)) = true /\
  is_ok (tbl2 octet_mul_hi_table c (N.shiftr x 4)) = true.
Proof. exact table_lookups_in_bounds. Qed.

(* form (b): an out-of-bounds unchecked access is a Panic PIndex of the model ... *)
Theorem C12_oob_is_panic : forall (buf v : list N) (o w : nat) (x : N),
  ((length buf < o + w)%nat -> loadu w buf o = Panic PIndex) /\
  ((length buf < o + length v)%nat -> storeu buf o v = Panic PIndex) /\
  ((length buf <= o)%nat -> get_unchecked buf o = Panic PIndex) /\
  ((length buf <= o)%nat -> set_unchecked buf o x = Panic PIndex).
Proof. exact oob_is_panic. Qed.

(* ... and no kernel panics *)
Theorem C12_kernels_never_out_of_bounds : forall octets other bits c,
  length octets = length other -> c < 256 -> bytes octets -> bytes other ->
  wf_bvec bits -> length octets = N.to_nat (snd bits) ->
  is_ok (add_assign_avx512 octets other) = true /\ is_ok (add_assign_avx2 octets other) = true /\
  is_ok (add_assign_ssse3 octets other) = true /\ is_ok (add_assign_fallback octets other) = true /\
  is_ok (mulassign_scalar_avx512 octets c) = true /\ is_ok (mulassign_scalar_avx2 octets c) = true /\
  is_ok (mulassign_scalar_ssse3 octets c) = true /\ is_ok (mulassign_scalar_fallback octets c) = true /\
  is_ok (fused_addassign_mul_scalar_avx512 octets other c) = true /\
  is_ok (fused_addassign_mul_scalar_avx2 octets other c) = true /\
  is_ok (fused_addassign_mul_scalar_ssse3 octets other c) = true /\
  is_ok (fused_addassign_mul_scalar_fallback octets other c) = true /\
  is_ok (to_octet_vec bits) = true /\
  is_ok (fused_addassign_mul_scalar_binary_avx512 octets bits c) = true /\
  ((0 < length octets)%nat -> is_ok (fused_addassign_mul_scalar_binary_avx2 octets bits c) = true).
Proof. exact kernels_never_out_of_bounds. Qed.

(* non-vacuity: the access lists of concrete calls are non-empty and pass the boolean check *)
Definition ex_lens : list nat := [0; 1; 15; 16; 17; 31; 33; 63; 64; 65; 130]%nat.
Definition ex_buf (n : nat) : list N := map (fun i => N.of_nat (i * 7 mod 256)) (seq 0 n).
Definition ex_bvec (n : nat) : bvec :=
  (map (fun i => N.of_nat i mod 2 * 0xF0F0F0F00F0F0F0F) (seq 0 (N.to_nat (ceil_div (N.of_nat n) 64))), N.of_nat n).
Definition all_in (ol sl wl : nat) (l : list access) : bool := forallb (in_boundsb ol sl wl) l.

Example C12_example :
  forallb (fun n =>
    let o := ex_buf n in let s := ex_buf n in let bv := ex_bvec n in
    let chk := all_in n n (length (fst bv)) in
    chk (add_assign_avx512_accesses o s) && chk (add_assign_avx2_accesses o s) &&
    chk (add_assign_ssse3_accesses o s) && chk (add_assign_fallback_accesses o s) &&
    chk (mulassign_scalar_avx512_accesses o 87) && chk (mulassign_scalar_avx2_accesses o 87) &&
    chk (mulassign_scalar_ssse3_accesses o 87) && chk (mulassign_scalar_fallback_accesses o 87) &&
    chk (fused_addassign_mul_scalar_avx512_accesses o s 87) && chk (fused_addassign_mul_scalar_avx2_accesses o s 87) &&
    chk (fused_addassign_mul_scalar_ssse3_accesses o s 87) && chk (fused_addassign_mul_scalar_fallback_accesses o s 87) &&
    chk (fused_addassign_mul_scalar_binary_avx512_accesses o bv) &&
    ((n =? 0)%nat || chk (fused_addassign_mul_scalar_binary_avx2_accesses o bv)))
    ex_lens = true /\
  length (add_assign_avx512_accesses (ex_buf 130) (ex_buf 130)) = 12%nat /\
  length (fused_addassign_mul_scalar_binary_avx2_accesses (ex_buf 130) (ex_bvec 130)) = 17%nat /\
  (* one byte too far is rejected *)
  all_in 130 130 3 [(BOctets, 99, 32)]%nat = false.
Proof. vm_compute. auto. Qed.

Print Assumptions C12_add_assign_in_bounds.
Print Assumptions C12_mulassign_in_bounds.
Print Assumptions C12_fma_in_bounds.
Print Assumptions C12_fma_binary_in_bounds.
Print Assumptions C12_kernel_in_bounds.
Print Assumptions C12_tables_in_bounds.
Print Assumptions C12_table_lookups_in_bounds.
Print Assumptions C12_oob_is_panic.
Print Assumptions C12_kernels_never_out_of_bounds.
