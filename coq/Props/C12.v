(* C12 (logic part) -- no kernel of src/octets.rs reads or writes outside the slices it is given:
   vector loads/stores, the unaligned u64 tail loops, get_unchecked on slices and on OCTET_MUL,
   the u32 / u64 re-interpretation of the bit-vector words all stay in bounds.
   Two forms: (a) the explicit access list of every kernel satisfies off + width <= buffer length;
   (b) the model's unchecked accessors return Panic PIndex on any out-of-bounds access, and every
   kernel returns Ok (C11), so no such access happens.
   Only pinned statements, each closed by lemmas of Proofs/KernelsAccess.v. *)
From Coq Require Import NArith List Bool Arith.
From RQ Require Import Base.Outcome Base.Ints Base.ListX Base.Vec Spec.Bits Model.Octet Model.Kernels
  Proofs.OctetProofs Proofs.VecLemmas Proofs.KernelsProofs Proofs.KernelsMulProofs
  Proofs.KernelsBinProofs Proofs.KernelsDispatch Proofs.KernelsAccess Model.Slab Proofs.SlabAccess.
Import ListNotations.
Open Scope N_scope.

(* in_bounds ol sl wl (buf, off, w) :  off + w <= length of buf, where |octets| = ol, |other| = sl,
   the word buffer has wl u64 words (8 * wl bytes), OCTET_MUL is 256 x 256, the nibble tables 256 x 32 *)

Theorem C12_add_assign_in_bounds : forall wl octets other, length octets = length other ->
  Forall (in_bounds (length octets) (length other) wl) (add_assign_avx512_accesses octets other) /\
  Forall (in_bounds (length octets) (length other) wl) (add_assign_avx2_accesses octets other) /\
  Forall (in_bounds (length octets) (length other) wl) (add_assign_ssse3_accesses octets other) /\
  Forall (in_bounds (length octets) (length other) wl) (add_assign_fallback_accesses octets other).
Proof.
  intros wl octets other HL. repeat split.
  - apply add_assign_simd_in_bounds; auto.
  - apply add_assign_simd_in_bounds; auto.
  - apply add_assign_simd_in_bounds; auto.
  - apply add_assign_fallback_in_bounds; auto.
Qed.

Theorem C12_mulassign_in_bounds : forall sl wl octets c, c < 256 -> bytes octets ->
  Forall (in_bounds (length octets) sl wl) (mulassign_scalar_avx512_accesses octets c) /\
  Forall (in_bounds (length octets) sl wl) (mulassign_scalar_avx2_accesses octets c) /\
  Forall (in_bounds (length octets) sl wl) (mulassign_scalar_ssse3_accesses octets c) /\
  Forall (in_bounds (length octets) sl wl) (mulassign_scalar_fallback_accesses octets c).
Proof.
  intros sl wl octets c Hc Bo. repeat split.
  - apply mulassign_scalar_simd_in_bounds; auto.
  - apply mulassign_scalar_simd_in_bounds; auto.
  - apply mulassign_scalar_simd_in_bounds; auto.
  - apply mulassign_scalar_fallback_in_bounds; auto.
Qed.

Theorem C12_fma_in_bounds : forall wl octets other c, length octets = length other -> c < 256 -> bytes other ->
  Forall (in_bounds (length octets) (length other) wl) (fused_addassign_mul_scalar_avx512_accesses octets other c) /\
  Forall (in_bounds (length octets) (length other) wl) (fused_addassign_mul_scalar_avx2_accesses octets other c) /\
  Forall (in_bounds (length octets) (length other) wl) (fused_addassign_mul_scalar_ssse3_accesses octets other c) /\
  Forall (in_bounds (length octets) (length other) wl) (fused_addassign_mul_scalar_fallback_accesses octets other c).
Proof.
  intros wl octets other c HL Hc Bo. repeat split.
  - apply fused_addassign_mul_scalar_simd_in_bounds; auto.
  - apply fused_addassign_mul_scalar_simd_in_bounds; auto.
  - apply fused_addassign_mul_scalar_simd_in_bounds; auto.
  - apply fused_addassign_mul_scalar_fallback_in_bounds; auto.
Qed.

Theorem C12_fma_binary_in_bounds : forall sl octets bits, wf_bvec bits -> length octets = N.to_nat (snd bits) ->
  Forall (in_bounds (length octets) sl (length (fst bits))) (fused_addassign_mul_scalar_binary_avx512_accesses octets bits) /\
  ((0 < length octets)%nat ->
   Forall (in_bounds (length octets) sl (length (fst bits))) (fused_addassign_mul_scalar_binary_avx2_accesses octets bits)).
Proof.
  intros sl octets bits Hwf HL. split.
  - exact (fused_addassign_mul_scalar_binary_avx512_in_bounds sl octets bits Hwf HL).
  - exact (fused_addassign_mul_scalar_binary_avx2_in_bounds sl octets bits Hwf HL).
Qed.

Theorem C12_kernel_in_bounds : forall octets other bits c,
  length octets = length other -> c < 256 -> bytes octets -> bytes other ->
  wf_bvec bits -> length octets = N.to_nat (snd bits) ->
  let P := in_bounds (length octets) (length other) (length (fst bits)) in
  Forall P (add_assign_avx512_accesses octets other) /\
  Forall P (add_assign_avx2_accesses octets other) /\
  Forall P (add_assign_ssse3_accesses octets other) /\
  Forall P (add_assign_fallback_accesses octets other) /\
  Forall P (mulassign_scalar_avx512_accesses octets c) /\
  Forall P (mulassign_scalar_avx2_accesses octets c) /\
  Forall P (mulassign_scalar_ssse3_accesses octets c) /\
  Forall P (mulassign_scalar_fallback_accesses octets c) /\
  Forall P (fused_addassign_mul_scalar_avx512_accesses octets other c) /\
  Forall P (fused_addassign_mul_scalar_avx2_accesses octets other c) /\
  Forall P (fused_addassign_mul_scalar_ssse3_accesses octets other c) /\
  Forall P (fused_addassign_mul_scalar_fallback_accesses octets other c) /\
  Forall P (fused_addassign_mul_scalar_binary_avx512_accesses octets bits) /\
  ((0 < length octets)%nat -> Forall P (fused_addassign_mul_scalar_binary_avx2_accesses octets bits)).
Proof. exact kernel_in_bounds. Qed.

Theorem C12_tables_in_bounds :
  length octet_mul_table = 256%nat /\ (forall r, In r octet_mul_table -> length r = 256%nat) /\
  length octet_mul_low_table = 256%nat /\ (forall r, In r octet_mul_low_table -> length r = 32%nat) /\
  length octet_mul_hi_table = 256%nat /\ (forall r, In r octet_mul_hi_table -> length r = 32%nat).
Proof. exact tables_in_bounds. Qed.

Theorem C12_table_lookups_in_bounds : forall c x, c < 256 -> x < 256 ->
  is_ok (tbl2 octet_mul_table c x) = true /\
  is_ok (tbl2 octet_mul_low_table c (N.land x 15)) = true /\
  is_ok (tbl2 octet_mul_hi_table c (N.shiftr x 4)) = true.
Proof. exact table_lookups_in_bounds. Qed.

(* form (b): an out-of-bounds unchecked access is a Panic PIndex of the model ... *)
Theorem C12_oob_is_panic : forall (buf v : list N) (o w : nat) (x : N),
  ((length buf < o + w)%nat -> loadu w buf o = Panic PIndex) /\
  ((length buf < o + length v)%nat -> storeu buf o v = Panic PIndex) /\
  ((length buf <= o)%nat -> get_unchecked buf o = Panic PIndex) /\
  ((length buf <= o)%nat -> set_unchecked buf o x = Panic PIndex).
Proof. exact oob_is_panic. Qed.

(* ... and no kernel panics *)
Theorem C12_kernels_never_out_of_bounds : forall octets other bits c,
  length octets = length other -> c < 256 -> bytes octets -> bytes other ->
  wf_bvec bits -> length octets = N.to_nat (snd bits) ->
  is_ok (add_assign_avx512 octets other) = true /\ is_ok (add_assign_avx2 octets other) = true /\
  is_ok (add_assign_ssse3 octets other) = true /\ is_ok (add_assign_fallback octets other) = true /\
  is_ok (mulassign_scalar_avx512 octets c) = true /\ is_ok (mulassign_scalar_avx2 octets c) = true /\
  is_ok (mulassign_scalar_ssse3 octets c) = true /\ is_ok (mulassign_scalar_fallback octets c) = true /\
  is_ok (fused_addassign_mul_scalar_avx512 octets other c) = true /\
  is_ok (fused_addassign_mul_scalar_avx2 octets other c) = true /\
  is_ok (fused_addassign_mul_scalar_ssse3 octets other c) = true /\
  is_ok (fused_addassign_mul_scalar_fallback octets other c) = true /\
  is_ok (to_octet_vec bits) = true /\
  is_ok (fused_addassign_mul_scalar_binary_avx512 octets bits c) = true /\
  ((0 < length octets)%nat -> is_ok (fused_addassign_mul_scalar_binary_avx2 octets bits c) = true).
Proof. exact kernels_never_out_of_bounds. Qed.

(* the slab's paired borrow (SymbolSlab::get_pair_mut, the only other unsafe block that builds slices from raw
   pointers): whenever the call does not panic, the mutable dest slice and the shared src slice are each
   symbol_size bytes long, lie inside the count * symbol_size bytes of the storage, and do not overlap --
   for every mapping (also one that is not a permutation), every pair of logical indices and every symbol size *)
Theorem C12_slab_pair_in_bounds_and_disjoint : forall s dest src o1 w1 o2 w2,
  slab_pair_ranges s dest src = Ok ((o1, w1), (o2, w2)) ->
  w1 = N.of_nat (sl_ss s) /\ w2 = N.of_nat (sl_ss s) /\
  o1 + w1 <= slab_bytes s /\ o2 + w2 <= slab_bytes s /\
  (o1 + w1 <= o2 \/ o2 + w2 <= o1).
Proof. exact pair_ranges_safe. Qed.

(* the byte-offset computation and the symbol-level model used by C09 / C06 / C01 take the same decisions: both
   panic or neither does, and the symbols handed out are the ones stored at those offsets *)
Theorem C12_slab_pair_agrees_with_model : forall s dest src,
  (forall sym, In sym (sl_data s) -> length sym = sl_ss s) ->
  match slab_pair s dest src, slab_pair_ranges s dest src with
  | Ok (pd, d, v), Ok ((o1, w1), (o2, _)) =>
      o1 = pd * N.of_nat (sl_ss s) /\ N.of_nat (length d) = w1 /\ N.of_nat (length v) = w1 /\
      exists ps, o2 = ps * N.of_nat (sl_ss s) /\ nth_ok (sl_data s) (N.to_nat ps) = Ok v /\
                 nth_ok (sl_data s) (N.to_nat pd) = Ok d
  | Panic _, Panic _ => True
  | _, _ => False
  end.
Proof. exact pair_ranges_agree. Qed.

(* non-vacuity: a slab of 4 symbols of 3 bytes whose mapping is NOT a permutation (entry 7 is out of range, entry
   1 is repeated): in-range distinct physical symbols are handed out, everything else is refused *)
Example C12_slab_pair_example :
  let s := mkSlab [[1;2;3];[4;5;6];[7;8;9];[10;11;12]] 3 (Some [2; 1; 1; 7]) in
  slab_pair_ranges s 0 1 = Ok ((6, 3), (3, 3)) /\
  slab_pair_ranges s 1 2 = Panic PAssert /\ slab_pair_ranges s 0 3 = Panic PAssert /\
  slab_pair_ranges s 0 4 = Panic PIndex.
Proof. vm_compute. repeat split; reflexivity. Qed.

(* non-vacuity: the access lists of concrete calls are non-empty and pass the boolean check *)
Definition ex_lens : list nat := [0; 1; 15; 16; 17; 31; 33; 63; 64; 65; 130]%nat.
Definition ex_buf (n : nat) : list N := map (fun i => N.of_nat (i * 7 mod 256)) (seq 0 n).
Definition ex_bvec (n : nat) : bvec :=
  (map (fun i => N.of_nat i mod 2 * 0xF0F0F0F00F0F0F0F) (seq 0 (N.to_nat (ceil_div (N.of_nat n) 64))), N.of_nat n).
Definition all_in (ol sl wl : nat) (l : list access) : bool := forallb (in_boundsb ol sl wl) l.

Example C12_example :
  forallb (fun n =>
    let o := ex_buf n in let s := ex_buf n in let bv := ex_bvec n in
    let chk := all_in n n (length (fst bv)) in
    chk (add_assign_avx512_accesses o s) && chk (add_assign_avx2_accesses o s) &&
    chk (add_assign_ssse3_accesses o s) && chk (add_assign_fallback_accesses o s) &&
    chk (mulassign_scalar_avx512_accesses o 87) && chk (mulassign_scalar_avx2_accesses o 87) &&
    chk (mulassign_scalar_ssse3_accesses o 87) && chk (mulassign_scalar_fallback_accesses o 87) &&
    chk (fused_addassign_mul_scalar_avx512_accesses o s 87) && chk (fused_addassign_mul_scalar_avx2_accesses o s 87) &&
    chk (fused_addassign_mul_scalar_ssse3_accesses o s 87) && chk (fused_addassign_mul_scalar_fallback_accesses o s 87) &&
    chk (fused_addassign_mul_scalar_binary_avx512_accesses o bv) &&
    ((n =? 0)%nat || chk (fused_addassign_mul_scalar_binary_avx2_accesses o bv)))
    ex_lens = true /\
  length (add_assign_avx512_accesses (ex_buf 130) (ex_buf 130)) = 12%nat /\
  length (fused_addassign_mul_scalar_binary_avx2_accesses (ex_buf 130) (ex_bvec 130)) = 17%nat /\
  (* one byte too far is rejected *)
  all_in 130 130 3 [(BOctets, 99, 32)]%nat = false.
Proof. vm_compute. auto. Qed.

Print Assumptions C12_add_assign_in_bounds.
Print Assumptions C12_mulassign_in_bounds.
Print Assumptions C12_fma_in_bounds.
Print Assumptions C12_fma_binary_in_bounds.
Print Assumptions C12_kernel_in_bounds.
Print Assumptions C12_tables_in_bounds.
Print Assumptions C12_table_lookups_in_bounds.
Print Assumptions C12_oob_is_panic.
Print Assumptions C12_kernels_never_out_of_bounds.
Print Assumptions C12_slab_pair_in_bounds_and_disjoint.
Print Assumptions C12_slab_pair_agrees_with_model.
