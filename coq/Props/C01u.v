(* C01, unconditional form: the statements of Props/C01.v with the three hypotheses about the
   constraint-matrix generators (MatWF, RowsOK, GenTotal) discharged by Proofs/C01Glue.v from the
   constraint-matrix development (Proofs/CMatrix*.v, Props/C04m.v).  No hypothesis is left besides
   the validity of the configuration, "the encoder returned e / encs" and "the packets were produced
   by the encoder". *)
From Coq Require Import NArith List Bool Lia.
From RQ Require Import Base.Outcome Base.Ints Base.ListX Spec.Linear Spec.Layout
  Model.Octet Model.FieldFast Model.SysConst Model.Tuple Model.CMatrix Model.Layout Model.Slab
  Model.Encoder Model.Decoder
  Proofs.OutcomeLemmas Proofs.RowParams Proofs.EncoderProofs Proofs.RowSem
  Proofs.SoundProofs Proofs.BlockSound Proofs.ObjectSound Proofs.C01Glue Proofs.C01Closed.
Import ListNotations.
Open Scope N_scope.

(* the three hypotheses hold for every K and both build modes *)
Theorem C01u_MatWF : forall m K, MatWF m K.
Proof. exact MatWF_holds. Qed.
Theorem C01u_RowsOK : forall m K, RowsOK m K.
Proof. exact RowsOK_holds. Qed.
Theorem C01u_GenTotal : forall m K, GenTotal m K.
Proof. exact GenTotal_holds. Qed.

(* ---- block level ---- *)

(* every answer is None or the block, and no call panics *)
Theorem C01u_block_sound : forall m c data id K blk e,
  cfg_ok c data -> lenN blk = K * cT c -> Forall (fun b => b < 256) blk ->
  sbe_new m id c blk = Ok e ->
  exists d0, sbd_new id c (K * cT c) = Ok d0 /\
    forall bs, Forall (Forall (enc_produces m e)) bs ->
      exists rs d', run_batches m d0 bs = Ok (rs, d') /\
                    Forall (fun r => r = None \/ r = Some blk) rs.
Proof. exact c01u_block_sound. Qed.

(* once all K source packets have been delivered the answer is the block *)
Theorem C01u_all_source_complete : forall m c data id K blk e,
  cfg_ok c data -> lenN blk = K * cT c -> Forall (fun b => b < 256) blk ->
  sbe_new m id c blk = Ok e ->
  forall d0, sbd_new id c (K * cT c) = Ok d0 ->
  forall bs b, Forall (Forall (enc_produces m e)) (bs ++ [b]) ->
    (forall i, i < K -> exists p, In p (concat (bs ++ [b])) /\ snd (fst p) = i) ->
    exists rs d1 d2, run_batches m d0 bs = Ok (rs, d1) /\ sbd_decode m d1 b = Ok (Some blk, d2).
Proof. exact c01u_all_source_complete. Qed.

(* the intermediate symbols solve the encoding system; Enc of ISI i < K is source symbol i *)
Theorem C01u_encoder_solves : forall m c data id K blk e,
  cfg_ok c data -> lenN blk = K * cT c -> Forall (fun b => b < 256) blk ->
  sbe_new m id c blk = Ok e ->
  exists sp bin hdpc,
    sys_params K = Ok sp /\
    generate_constraint_matrix m K (rangeN (N.to_nat (spK sp))) = Ok (bin, hdpc) /\
    let A := full_matrix (spS sp) (spH sp) bin hdpc in
    solves fmul (N.to_nat (cT c)) A (sbe_C e) (create_d sp (sbe_syms e) (N.to_nat (cT c))) /\
    wf_mat (N.to_nat (spL sp)) A /\ length A = N.to_nat (spL sp) /\
    length (sbe_C e) = N.to_nat (spL sp) /\ wf_mat (N.to_nat (cT c)) (sbe_C e).
Proof. exact c01u_encoder_solves. Qed.

Theorem C01u_source_is_enc : forall m c data id K blk e,
  cfg_ok c data -> lenN blk = K * cT c -> Forall (fun b => b < 256) blk ->
  sbe_new m id c blk = Ok e ->
  exists sp, sys_params K = Ok sp /\ K <= spK sp /\
    (forall i, i < K ->
       rebuild_source_symbol m sp (sbe_C e) i = Ok (nth (N.to_nat i) (sbe_syms e) [])) /\
    (forall i, K <= i < spK sp ->
       rebuild_source_symbol m sp (sbe_C e) i = Ok (repeat 0 (N.to_nat (cT c)))) /\
    (forall p, enc_produces m e p -> K <= snd (fst p) ->
       snd (fst p) < 16777216 /\ length (snd p) = N.to_nat (cT c) /\
       forall r, enc_row m sp (snd (fst p) + (spK sp - K)) = Ok r ->
         lincomb fmul (N.to_nat (cT c)) r (sbe_C e) = snd p).
Proof. exact c01u_source_is_enc. Qed.

(* ---- object level ---- *)

(* for every valid configuration, every object and every list of packets the encoder produced:
   the decoder never panics, every answer is None or exactly the object (of exactly F bytes) ... *)
Theorem C01u_object_sound : forall m c data encs d0 pkts,
  cfg_ok c data -> encoder_new_full m c data = Ok encs -> dec_new c = Ok d0 ->
  Forall (obj_produces m c encs) pkts ->
  exists rs d', run_dec m d0 pkts = Ok (rs, d') /\
    Forall (fun r => r = None \/ (r = Some data /\ lenN data = cF c)) rs.
Proof. exact c01u_object_sound. Qed.

(* ... and once all source packets of every block have been delivered it is the object *)
Theorem C01u_object_complete : forall m c data encs d0 pkts,
  cfg_ok c data -> encoder_new_full m c data = Ok encs -> dec_new c = Ok d0 ->
  Forall (obj_produces m c encs) pkts ->
  (forall j i, j < cZ c -> i < blk_K c j -> exists p, In p pkts /\ fst p = (j, i)) ->
  exists rs d', run_dec m d0 pkts = Ok (rs, d') /\
    dec_result d' = Some data /\ last rs None = Some data.
Proof. exact c01u_object_complete. Qed.

Print Assumptions C01u_MatWF.
Print Assumptions C01u_RowsOK.
Print Assumptions C01u_GenTotal.
Print Assumptions C01u_block_sound.
Print Assumptions C01u_all_source_complete.
Print Assumptions C01u_encoder_solves.
Print Assumptions C01u_source_is_enc.
Print Assumptions C01u_object_sound.
Print Assumptions C01u_object_complete.
