(* C13 -- wire formats: PayloadId (RFC 6330 3.2), EncodingPacket (4.4.2) and the Object
   Transmission Information (3.3.2, 3.3.3) serialise to the big-endian layouts of Spec/Wire.v and
   deserialise back.  Only pinned statements, each closed by lemmas of Proofs/WireProofs.v. *)
From Coq Require Import NArith List Bool Lia.
From RQ Require Import Base.Outcome Base.Ints Spec.Wire Model.Wire Proofs.WireProofs.
Import ListNotations.
Open Scope N_scope.

(* `be` is positional base-256 notation: w digits, each a byte, value x mod 256^w *)
Theorem C13_be_val : forall w x,
  be_val (be w x) = x mod 256 ^ N.of_nat w /\ length (be w x) = w /\
  Forall (fun d => d < 256) (be w x).
Proof. intros w x. split; [apply be_val_be | split; [apply be_length | exact (be_bytes w x)]]. Qed.

Theorem C13_be_val_small : forall w x, x < 256 ^ N.of_nat w -> be_val (be w x) = x.
Proof. exact be_val_be_small. Qed.

Theorem C13_be_of_val : forall l, Forall (fun d => d < 256) l ->
  be (length l) (be_val l) = l /\ be_val l < 256 ^ N.of_nat (length l).
Proof. intros l H. split; [exact (be_be_val l H) | exact (be_val_lt l H)]. Qed.

(* ---- PayloadId ---- *)

Theorem C13_pid_new : forall sbn esi,
  (esi < 2 ^ 24 -> pid_new sbn esi = Ok (sbn, esi)) /\
  (2 ^ 24 <= esi -> pid_new sbn esi = Panic PAssert).
Proof. intros sbn esi. split; [apply pid_new_ok | apply pid_new_panics]. Qed.

Theorem C13_pid_layout : forall sbn esi, sbn < 2 ^ 8 -> esi < 2 ^ 24 ->
  pid_ser (sbn, esi) = sbn :: be 3 esi.
Proof. intros sbn esi _ _. exact (pid_ser_layout sbn esi). Qed.

Theorem C13_pid_roundtrip : forall sbn esi, sbn < 2 ^ 8 -> esi < 2 ^ 24 ->
  pid_deser (pid_ser (sbn, esi)) = Ok (sbn, esi).
Proof. intros sbn esi _ H. exact (pid_roundtrip sbn esi H). Qed.

Theorem C13_pid_reserialize : forall b0 b1 b2 b3, b0 < 256 -> b1 < 256 -> b2 < 256 -> b3 < 256 ->
  exists p, pid_deser [b0; b1; b2; b3] = Ok p /\ pid_ser p = [b0; b1; b2; b3].
Proof. exact pid_reserialize. Qed.

(* the u32 `<<` and `+` of PayloadId::deserialize stay in range; the decoded ESI is 24-bit *)
Theorem C13_pid_deser_no_overflow : forall d0 d1 d2 d3, d1 < 256 -> d2 < 256 -> d3 < 256 ->
  N.shiftl d1 16 < 2 ^ 24 /\ N.shiftl d2 8 < 2 ^ 16 /\
  N.shiftl d1 16 + N.shiftl d2 8 + d3 < 2 ^ 24 /\
  exists esi, pid_deser [d0; d1; d2; d3] = Ok (d0, esi) /\ esi < 2 ^ 24.
Proof. exact pid_deser_range. Qed.

Theorem C13_pid_deser_wrong_length : forall b, length b <> 4%nat -> pid_deser b = Panic PIndex.
Proof. exact pid_deser_len. Qed.

(* ---- EncodingPacket ---- *)

Theorem C13_packet_layout : forall id data, pkt_ser (id, data) = pid_ser id ++ data.
Proof. exact pkt_ser_layout. Qed.

Theorem C13_packet_roundtrip : forall sbn esi data, sbn < 2 ^ 8 -> esi < 2 ^ 24 ->
  pkt_deser (pkt_ser ((sbn, esi), data)) = Ok ((sbn, esi), data).
Proof. intros sbn esi data _ H. exact (pkt_roundtrip sbn esi data H). Qed.

Theorem C13_packet_short_input : forall b, (length b < 4)%nat -> pkt_deser b = Panic PIndex.
Proof. exact pkt_short. Qed.

Theorem C13_packet_reserialize : forall b, (4 <= length b)%nat -> Forall (fun d => d < 256) b ->
  exists p, pkt_deser b = Ok p /\ pkt_ser p = b.
Proof. exact pkt_reserialize. Qed.

(* ---- ObjectTransmissionInformation ---- *)

Theorem C13_oti_layout : forall F T Z Nsub Al,
  F < 2 ^ 40 -> T < 2 ^ 16 -> Z < 2 ^ 8 -> Nsub < 2 ^ 16 -> Al < 2 ^ 8 ->
  oti_ser (F, T, Z, Nsub, Al) = be 5 F ++ [0] ++ be 2 T ++ [Z] ++ be 2 Nsub ++ [Al].
Proof. intros F T Z Nsub Al _ _ _ _ _. exact (oti_ser_layout F T Z Nsub Al). Qed.

Theorem C13_oti_roundtrip : forall F T Z Nsub Al,
  F < 2 ^ 40 -> T < 2 ^ 16 -> Z < 2 ^ 8 -> Nsub < 2 ^ 16 -> Al < 2 ^ 8 ->
  oti_deser (oti_ser (F, T, Z, Nsub, Al)) = Ok (F, T, Z, Nsub, Al).
Proof. intros F T Z Nsub Al HF HT _ HN _. exact (oti_roundtrip F T Z Nsub Al HF HT HN). Qed.

(* only the reserved byte (index 5) is lost *)
Theorem C13_oti_reserialize : forall b, length b = 12%nat -> Forall (fun d => d < 256) b ->
  exists x, oti_deser b = Ok x /\ oti_ser x = firstn 5 b ++ 0 :: skipn 6 b.
Proof. exact oti_reserialize_list. Qed.

Theorem C13_oti_deser_no_overflow : forall d0 d1 d2 d3 d4 d5 d6 d7 d8 d9 d10 d11,
  d0 < 256 -> d1 < 256 -> d2 < 256 -> d3 < 256 -> d4 < 256 -> d6 < 256 -> d7 < 256 ->
  d8 < 256 -> d9 < 256 -> d10 < 256 -> d11 < 256 ->
  N.shiftl d0 32 + N.shiftl d1 24 + N.shiftl d2 16 + N.shiftl d3 8 + d4 < 2 ^ 40 /\
  N.shiftl d6 8 + d7 < 2 ^ 16 /\ N.shiftl d9 8 + d10 < 2 ^ 16 /\
  exists F T Z Nsub Al,
    oti_deser [d0; d1; d2; d3; d4; d5; d6; d7; d8; d9; d10; d11] = Ok (F, T, Z, Nsub, Al) /\
    F < 2 ^ 40 /\ T < 2 ^ 16 /\ Z < 2 ^ 8 /\ Nsub < 2 ^ 16 /\ Al < 2 ^ 8.
Proof. exact oti_deser_range. Qed.

Theorem C13_oti_deser_wrong_length : forall b, length b <> 12%nat -> oti_deser b = Panic PIndex.
Proof. exact oti_deser_len. Qed.

(* every serialised element is a byte, and the lengths are 4, 4 + |data|, 12 *)
Theorem C13_serialised_bytes : forall sbn esi data F T Z Nsub Al,
  sbn < 2 ^ 8 -> Forall (fun d => d < 256) data -> Z < 2 ^ 8 -> Al < 2 ^ 8 ->
  Forall (fun d => d < 256) (pid_ser (sbn, esi)) /\ length (pid_ser (sbn, esi)) = 4%nat /\
  Forall (fun d => d < 256) (pkt_ser ((sbn, esi), data)) /\
  length (pkt_ser ((sbn, esi), data)) = (4 + length data)%nat /\
  Forall (fun d => d < 256) (oti_ser (F, T, Z, Nsub, Al)) /\
  length (oti_ser (F, T, Z, Nsub, Al)) = 12%nat.
Proof.
  intros sbn esi data F T Z Nsub Al Hs Hd HZ HA.
  split; [exact (pid_ser_bytes sbn esi Hs)|]. split; [reflexivity|].
  split; [exact (pkt_ser_bytes sbn esi data Hs Hd)|]. split; [apply pkt_ser_length|].
  split; [exact (oti_ser_bytes F T Z Nsub Al HZ HA) | reflexivity].
Qed.

(* non-vacuity *)
Example C13_example_be : be 3 66051 = [1; 2; 3] /\ be_val [1; 2; 3] = 66051 /\ be 2 66051 = [2; 3].
Proof. vm_compute. auto. Qed.

Example C13_example_pid :
  pid_new 7 16777215 = Ok (7, 16777215) /\ pid_new 7 16777216 = Panic PAssert /\
  pid_ser (7, 66051) = [7; 1; 2; 3] /\ pid_deser [7; 1; 2; 3] = Ok (7, 66051) /\
  pid_ser (255, 16777215) = [255; 255; 255; 255] /\ pid_deser [1; 2; 3] = Panic PIndex.
Proof. vm_compute. repeat split. Qed.

Example C13_example_packet :
  pkt_ser ((7, 66051), [9; 8]) = [7; 1; 2; 3; 9; 8] /\
  pkt_deser [7; 1; 2; 3; 9; 8] = Ok ((7, 66051), [9; 8]) /\
  pkt_deser [7; 1; 2; 3] = Ok ((7, 66051), []) /\
  pkt_deser (pkt_ser ((7, 66051), [])) = Ok ((7, 66051), []) /\
  pkt_deser [7; 1; 2] = Panic PIndex /\ pkt_deser [] = Panic PIndex.
Proof. vm_compute. repeat split. Qed.

Example C13_example_oti :
  oti_ser (942574504275, 1280, 20, 3, 8) = [219; 117; 209; 137; 83; 0; 5; 0; 20; 0; 3; 8] /\
  oti_deser [219; 117; 209; 137; 83; 0; 5; 0; 20; 0; 3; 8] = Ok (942574504275, 1280, 20, 3, 8) /\
  (exists x, oti_deser [219; 117; 209; 137; 83; 77; 5; 0; 20; 0; 3; 8] = Ok x /\
             oti_ser x = [219; 117; 209; 137; 83; 0; 5; 0; 20; 0; 3; 8]) /\
  oti_deser [1; 2; 3] = Panic PIndex.
Proof. vm_compute. repeat split. eexists. split; reflexivity. Qed.

Print Assumptions C13_be_val.
Print Assumptions C13_be_val_small.
Print Assumptions C13_be_of_val.
Print Assumptions C13_pid_new.
Print Assumptions C13_pid_layout.
Print Assumptions C13_pid_roundtrip.
Print Assumptions C13_pid_reserialize.
Print Assumptions C13_pid_deser_no_overflow.
Print Assumptions C13_pid_deser_wrong_length.
Print Assumptions C13_packet_layout.
Print Assumptions C13_packet_roundtrip.
Print Assumptions C13_packet_short_input.
Print Assumptions C13_packet_reserialize.
Print Assumptions C13_oti_layout.
Print Assumptions C13_oti_roundtrip.
Print Assumptions C13_oti_reserialize.
Print Assumptions C13_oti_deser_no_overflow.
Print Assumptions C13_oti_deser_wrong_length.
Print Assumptions C13_serialised_bytes.
