(* C02 -- a source block is returned as soon as, and only if, all its source symbols have arrived or
   the constraint matrix of the received set has full rank over GF(256).
   Only pinned statements, each closed by lemmas of Proofs/Decoder*.v.

   [A_of m d] is the full constraint matrix the model decoder builds in Case 3b for the ISIs
   [isis_of d] (S LDPC rows, H HDPC rows, one G_ENC row per received or padding ISI), [L_of d] the
   number L of intermediate symbols; `injective fmul L A` says A.x = 0 -> x = 0 over GF(256), which
   for a matrix with L columns is "rank L".  That A_of is the matrix of RFC 6330 5.3.3.4.2 is the
   subject of the constraint-matrix properties, not of C02.
   [reached m d pkts]: d is the state after the consistent history pkts on a fresh block decoder. *)
From Coq Require Import NArith List Bool Lia Permutation.
From RQ Require Import Base.Outcome Base.Ints Base.ListX Spec.Linear Spec.Layout
  Model.FieldFast Model.SysConst Model.CMatrix Model.Layout Model.Decoder Model.DecoderSpec
  Proofs.LinearInst Proofs.DecoderLists Proofs.DecoderProofs Proofs.DecoderMatrix Proofs.DecoderTry
  Proofs.DecoderParams Proofs.DecoderFinish Proofs.DecoderC02.
Import ListNotations.
Open Scope N_scope.

(* Case 1 is right to give up: fewer than K distinct ESIs give fewer than L rows *)
Theorem C02_case1_not_injective : forall m d,
  sbd_inv d -> sbd_K d <= 56403 -> lenN (sbd_esis d) < sbd_K d ->
  ~ injective fmul (L_of d) (A_of m d) /\
  (forall sp A, sys_params (sbd_K d) = Ok sp -> wf_mat (L_of d) A ->
     length A = (N.to_nat (spS sp + spH sp) + length (isis_of d))%nat -> ~ injective fmul (L_of d) A).
Proof. exact case1_not_injective. Qed.

(* Case 3: an answer is returned iff the full matrix has full rank; in particular the decoder does
   not panic on a decodable set (generators, solver read-out, rebuild and unpack are all Ok) *)
Theorem C02_decodes_iff : forall m d pkts,
  reached m d pkts -> cfg_sub_ok (sbd_cfg d) -> sbd_K d <= 56403 ->
  ~ all_source d -> sbd_K d <= lenN (sbd_esis d) ->
  ((exists r d', sbd_try m d = Ok (Some r, d')) <-> injective fmul (L_of d) (A_of m d)).
Proof. exact decodes_iff_hist. Qed.

(* the same on any state satisfying the loop invariant *)
Theorem C02_decodes_iff_state : forall m d,
  sbd_inv d -> sized d -> cfg_sub_ok (sbd_cfg d) -> sbd_K d <= 56403 ->
  ~ all_source d -> sbd_K d <= lenN (sbd_esis d) ->
  ((exists r d', sbd_try m d = Ok (Some r, d')) <-> injective fmul (L_of d) (A_of m d)).
Proof. exact decodes_iff. Qed.

(* Case 2 *)
Theorem C02_all_source_decodes : forall m d,
  sbd_inv d -> sized d -> cfg_sub_ok (sbd_cfg d) -> sbd_K d <= 56403 -> all_source d ->
  exists syms b, sbd_src d = map Some syms /\
    block_from_all_source (sbd_cfg d) (sbd_K d) syms = Ok b /\
    sbd_try m d = Ok (Some b, set_dec d true).
Proof. exact all_source_decodes. Qed.

(* the binary-only fast path never costs a decodable set: its rows are rows of the full matrix (so
   when it succeeds the full solve would too), and an answer None with at least K ESIs means that
   the FULL matrix is rank deficient *)
Theorem C02_fast_path_never_loses :
  (forall m K isis A3a bin hd sp,
     generate_constraint_matrix_no_hdpc m K isis = Ok A3a ->
     generate_constraint_matrix m K isis = Ok (bin, hd) -> sys_params K = Ok sp ->
     incl A3a (full_matrix (spS sp) (spH sp) bin hd) /\
     (injective fmul (N.to_nat (spL sp)) A3a ->
      injective fmul (N.to_nat (spL sp)) (full_matrix (spS sp) (spH sp) bin hd))) /\
  (forall m d d', sbd_K d <= lenN (sbd_esis d) -> sbd_try m d = Ok (None, d') ->
     ~ injective fmul (L_of d) (A_of m d)).
Proof.
  split.
  - intros m K isis A3a bin hd sp E3 Eg Esp. destruct (fast_path_rows _ _ _ _ _ _ _ E3 Eg Esp) as [Hi _].
    split; [exact Hi | apply injective_incl_gf; exact Hi].
  - exact none_means_deficient.
Qed.

Theorem C02_monotone : forall m id c bl d0 pkts p d d',
  sbd_new id c bl = Ok d0 -> consistent id (N.to_nat (cT c)) (pkts ++ [p]) ->
  sbd_run m d0 pkts = Ok d -> sbd_add m d p = Ok d' -> sbd_K d <= 56403 ->
  injective fmul (L_of d) (A_of m d) -> injective fmul (L_of d') (A_of m d').
Proof. exact monotone_hist. Qed.

(* fidelity of the model's parameter record: decoder.rs looks J and P1 up with K, the model (and
   constraint_matrix.rs for W, P) with K'; both read the same row of the tables *)
Theorem C02_params_K_eq_Kp : forall K, K <= 56403 ->
  exists K', extended_source_block_symbols K = Ok K' /\
    extended_source_block_symbols K' = Ok K' /\
    systematic_index K' = systematic_index K /\ calculate_p1 K' = calculate_p1 K /\
    num_lt_symbols K' = num_lt_symbols K /\ num_pi_symbols K' = num_pi_symbols K /\
    num_ldpc_symbols K' = num_ldpc_symbols K /\ num_hdpc_symbols K' = num_hdpc_symbols K /\
    num_intermediate_symbols K' = num_intermediate_symbols K.
Proof. exact params_K_eq_Kp. Qed.

(* ---- non-vacuity: K = 10, T = 2 (K' = 10, S = 7, H = 10, L = 27) ---- *)

Definition ex_c : cfg := mkCfg 20 2 1 1 1.
Definition ex_data : list N := map (fun i => (7 * i + 3) mod 256) (rangeN 20).
Definition ex_src (i : N) : packet := ((0, i), [14 * i + 3; 14 * i + 10]).
Definition ex_d0 : sb_decoder := mkSBD 0 ex_c 10 (repeat None 10) [] 0 [] false.
(* exactly K symbols that decode / that do not *)
Definition ex_good : list packet := map ex_src [2; 3; 4; 5; 6; 7; 8; 9] ++ [((0, 10), [6; 40]); ((0, 11), [214; 21])].
Definition ex_bad : list packet := map ex_src [2; 3; 4; 5; 6; 7; 8; 9] ++ [((0, 21), [104; 104]); ((0, 29), [24; 110])].
Definition ex_all : list packet := map ex_src (rangeN 10).
Definition ex_few : list packet := map ex_src [1; 2; 3; 4; 5; 6; 7; 8; 9].

Definition run_of (l : list packet) : sb_decoder :=
  match sbd_run Checked ex_d0 l with Ok d => d | Panic _ => ex_d0 end.

Example C02_ex_reached :
  reached Checked (run_of ex_good) ex_good /\ reached Checked (run_of ex_bad) ex_bad /\
  reached Checked (run_of ex_all) ex_all /\ reached Checked (run_of ex_few) ex_few /\
  cfg_sub_ok ex_c /\ sbd_K (run_of ex_good) <= 56403.
Proof.
  assert (G : forall l, consistentb 0 2 l = true -> is_ok (sbd_run Checked ex_d0 l) = true ->
                        reached Checked (run_of l) l).
  { intros l H1 H2. exists 0, ex_c, 20, ex_d0. split; [vm_compute; reflexivity|].
    split; [apply consistentb_ok; exact H1|]. unfold run_of.
    destruct (sbd_run Checked ex_d0 l); [reflexivity | discriminate]. }
  repeat split; try (apply G; vm_compute; reflexivity); vm_compute; intros E; discriminate E.
Qed.

(* K symbols, full rank: the block comes back *)
Example C02_ex_decodes :
  let d := run_of ex_good in
  lenN (sbd_esis d) = 10 /\ sbd_nsrc d = 8 /\ L_of d = 27%nat /\ length (A_of Checked d) = 27%nat /\
  gauss_rank_full fmul finv (L_of d) (A_of Checked d) = true /\
  sbd_try Checked d = Ok (Some ex_data, set_dec d true).
Proof. vm_compute. repeat split. Qed.

(* K symbols, rank deficient: no answer, and the decoder keeps waiting (a further symbol helps) *)
Definition ex_dbad : sb_decoder := run_of ex_bad.

Example C02_ex_undecodable :
  lenN (sbd_esis ex_dbad) = 10 /\ length (A_of Checked ex_dbad) = 27%nat /\
  gauss_rank_full fmul finv (L_of ex_dbad) (A_of Checked ex_dbad) = false /\
  sbd_try Checked ex_dbad = Ok (None, set_dec ex_dbad false).
Proof. vm_compute. repeat split. Qed.

Example C02_ex_undecodable_then_decodes :
  omap fst (sbd_decode Checked ex_dbad [((0, 10), [6; 40])]) = Ok (Some ex_data).
Proof. vm_compute. reflexivity. Qed.

Example C02_ex_not_all_source : ~ all_source (run_of ex_good) /\ ~ all_source (run_of ex_bad).
Proof.
  split; intros H; vm_compute in H; inversion H as [|? ? H0 _]; apply H0; reflexivity.
Qed.

(* all source symbols: Case 2 *)
Example C02_ex_all_source :
  let d := run_of ex_all in
  all_source d /\ sbd_try Checked d = Ok (Some ex_data, set_dec d true).
Proof.
  split; [|vm_compute; reflexivity].
  vm_compute. repeat constructor; discriminate.
Qed.

(* K - 1 symbols: Case 1 *)
Example C02_ex_case1 :
  let d := run_of ex_few in
  lenN (sbd_esis d) = 9 /\ sbd_try Checked d = Ok (None, d) /\ A_of Checked d = [].
Proof. vm_compute. repeat split. Qed.

Print Assumptions C02_case1_not_injective.
Print Assumptions C02_decodes_iff.
Print Assumptions C02_decodes_iff_state.
Print Assumptions C02_all_source_decodes.
Print Assumptions C02_fast_path_never_loses.
Print Assumptions C02_monotone.
Print Assumptions C02_params_K_eq_Kp.
