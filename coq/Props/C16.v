(* C16 (dense half) -- Under every sequence of operations allowed by the matrix interface's
   preconditions, the bit-packed dense matrix (Model/DenseMatrix.v, a transcription of
   DenseBinaryMatrix in src/matrix.rs) gives the same answers as a plain two-dimensional bit array
   (Spec/BitMatrix.v) on every cell the interface defines.

   Only pinned statements; proofs are in Proofs/Dense{Bits,MatrixProofs,Queries,Resize,Seq}.v.

   Reading guide
   * [dm_inv m]   : representation invariant (enough words for height rows; all words < 2^64).
   * [dm_abs m]   : abstraction function (cell i j = bit (j mod 64) of word i * rww + j / 64).
   * [adm o a]    : the documented preconditions of operation o on the abstract matrix a.
   * For a mutating operation the theorem gives EQUALITY [dm_abs m' = bm_op (dm_abs m) args]
     (cells and defined-mask), which is stronger than agreement on the defined cells; for
     add_assign_rows (the one operation that un-defines cells) it gives equality of all cells plus
     [bm_agree].
   * [fixed] selects the repaired code (true) or the pinned code (false) of get_row_iter and
     count_ones; everything else is identical.
   * Three places where the pinned dense code does NOT meet the interface are pinned as
     [_refuted] theorems (each confirmed on the real code): get_row_iter / count_ones at the right
     edge of the last row (repaired under [fixed]), and resize to width 0 (not repaired; carried as
     the side condition [dense_ok]). *)
From Coq Require Import NArith List Bool Lia.
From RQ Require Import Base.Outcome Base.Ints Base.ListX Spec.BitMatrix Model.DenseMatrix
  Proofs.DenseBits Proofs.DenseMatrixProofs Proofs.DenseQueries Proofs.DenseResize Proofs.DenseSeq.
Import ListNotations.
Open Scope N_scope.

(* ---- construction ---- *)

Theorem C16_dense_new : forall h w,
  dm_inv (dm_new h w) /\ dm_abs (dm_new h w) = bm_new (N.to_nat h) (N.to_nat w).
Proof. intros h w. split; [exact (dm_new_inv h w) | exact (dm_new_abs h w)]. Qed.

(* ---- mutating operations ---- *)

Theorem C16_dense_set_refines : forall m i j v,
  dm_inv m -> adm (OSet i j v) (dm_abs m) = true ->
  exists m', dm_set m i j v = Ok m' /\ dm_inv m' /\
    dm_abs m' = bm_set (dm_abs m) (N.to_nat i) (N.to_nat j) (negb (v =? 0)).
Proof. exact abs_set_eq. Qed.

Theorem C16_dense_swap_rows_refines : forall m i j,
  dm_inv m -> adm (OSwapRows i j) (dm_abs m) = true ->
  exists m', dm_swap_rows m i j = Ok m' /\ dm_inv m' /\
    dm_abs m' = bm_swap_rows (dm_abs m) (N.to_nat i) (N.to_nat j).
Proof. exact abs_swap_rows_eq. Qed.

(* [adm] contains the hint's promise: rows above the hint have equal values in columns i and j *)
Theorem C16_dense_swap_columns_refines : forall m i j hint,
  dm_inv m -> adm (OSwapCols i j hint) (dm_abs m) = true ->
  exists m', dm_swap_columns m i j hint = Ok m' /\ dm_inv m' /\
    dm_abs m' = bm_swap_columns (dm_abs m) (N.to_nat i) (N.to_nat j) (N.to_nat (N.min hint (height m))).
Proof. exact abs_swap_columns_eq. Qed.

(* all cells stay exact, including those left of start_col that the interface un-defines *)
Theorem C16_dense_add_assign_rows_refines : forall m dest src start_col,
  dm_inv m -> adm (OAddRows dest src start_col) (dm_abs m) = true ->
  exists m', dm_add_assign_rows m dest src start_col = Ok m' /\ dm_inv m' /\
    cell (dm_abs m') =
      cell (bm_add_assign_rows (dm_abs m) (N.to_nat dest) (N.to_nat src) (N.to_nat start_col)) /\
    bm_agree (dm_abs m')
      (bm_add_assign_rows (dm_abs m) (N.to_nat dest) (N.to_nat src) (N.to_nat start_col)).
Proof. exact abs_add_rows. Qed.

(* side condition: see C16_dense_resize_zero_width_refuted *)
Theorem C16_dense_resize_refines : forall m new_h new_w,
  dm_inv m -> adm (OResize new_h new_w) (dm_abs m) = true ->
  (0 < new_w \/ new_h = 0 \/ width m = 0) ->
  exists m', dm_resize m new_h new_w = Ok m' /\ dm_inv m' /\
    dm_abs m' = bm_resize (dm_abs m) (N.to_nat new_h) (N.to_nat new_w).
Proof. exact abs_resize_eq. Qed.

Theorem C16_dense_noops_refine : forall m col,
  dm_abs (dm_hint_column_dense_and_frozen m col) =
    bm_hint_column_dense_and_frozen (dm_abs m) (N.to_nat col) /\
  dm_abs (dm_enable_column_access_acceleration m) = bm_enable_column_access_acceleration (dm_abs m) /\
  dm_abs (dm_disable_column_access_acceleration m) = bm_disable_column_access_acceleration (dm_abs m).
Proof. intros. repeat split; reflexivity. Qed.

(* ---- queries ---- *)

Theorem C16_dense_get_refines : forall m i j,
  dm_inv m -> adm (OGet i j) (dm_abs m) = true ->
  dm_get m i j = Ok (b2n (bm_get (dm_abs m) (N.to_nat i) (N.to_nat j))).
Proof. intros m i j Hinv. exact (sim_get m _ i j (refines_abs m Hinv)). Qed.

(* repaired code: plain admissibility *)
Theorem C16_dense_count_ones_refines : forall m row s e,
  dm_inv m -> adm (OCountOnes row s e) (dm_abs m) = true ->
  dm_count_ones true m row s e =
  Ok (N.of_nat (bm_count_ones (dm_abs m) (N.to_nat row) (N.to_nat s) (N.to_nat e))).
Proof.
  intros m row s e Hinv Hadm.
  exact (sim_count_ones true m _ row s e (refines_abs m Hinv) Hadm (or_introl eq_refl)).
Qed.

(* pinned code: not the empty range at the right edge of a row that is followed by no word *)
Theorem C16_dense_count_ones_pinned_refines : forall m row s e,
  dm_inv m -> adm (OCountOnes row s e) (dm_abs m) = true ->
  (s < e \/ e < width m \/ width m mod 64 <> 0 \/
   (row + 1) * row_word_width m < N.of_nat (length (elements m))) ->
  dm_count_ones false m row s e =
  Ok (N.of_nat (bm_count_ones (dm_abs m) (N.to_nat row) (N.to_nat s) (N.to_nat e))).
Proof.
  intros m row s e Hinv Hadm Hx.
  exact (sim_count_ones false m _ row s e (refines_abs m Hinv) Hadm (or_intror Hx)).
Qed.

(* repaired code: every admissible argument; the answer is the full (column, value) sequence *)
Theorem C16_dense_get_row_iter_refines : forall m row s e,
  dm_inv m -> adm (ORowIter row s e) (dm_abs m) = true ->
  dm_get_row_iter true m row s e =
  Ok (map (fun cb => (N.of_nat (fst cb), b2n (snd cb)))
          (bm_row (dm_abs m) (N.to_nat row) (N.to_nat s) (N.to_nat e))).
Proof. intros m row s e Hinv. exact (sim_row_iter_fixed m _ row s e (refines_abs m Hinv)). Qed.

(* pinned code: needs the word holding column end_col to exist *)
Theorem C16_dense_get_row_iter_pinned_refines : forall m row s e,
  dm_inv m -> adm (ORowIter row s e) (dm_abs m) = true ->
  (e < width m \/ width m mod 64 <> 0 \/ (row + 1 < height m /\ 0 < width m) \/
   (row + 1) * row_word_width m < N.of_nat (length (elements m))) ->
  dm_get_row_iter false m row s e =
  Ok (map (fun cb => (N.of_nat (fst cb), b2n (snd cb)))
          (bm_row (dm_abs m) (N.to_nat row) (N.to_nat s) (N.to_nat e))).
Proof. intros m row s e Hinv. exact (sim_row_iter_pinned m _ row s e (refines_abs m Hinv)). Qed.

(* ... and without it the pinned code panics, whatever the contents *)
Theorem C16_dense_get_row_iter_pinned_panics : forall m row s e,
  s <= e -> N.of_nat (length (elements m)) <= row * row_word_width m + e / 64 ->
  dm_get_row_iter false m row s e = Panic PIndex.
Proof. exact pinned_row_iter_panics. Qed.

(* the iterator model's fuel is never exhausted, for any arguments and either code version *)
Theorem C16_dense_get_row_iter_fuel : forall fixed m row s e,
  dm_get_row_iter fixed m row s e <> Panic PFuel.
Proof. exact dm_get_row_iter_fuel. Qed.

(* rows are returned as u32: height <= 2^32 *)
Theorem C16_dense_get_ones_in_column_refines : forall m col s e,
  dm_inv m -> adm (OOnesInCol col s e) (dm_abs m) = true -> height m <= 2 ^ 32 ->
  dm_get_ones_in_column m col s e =
  Ok (map N.of_nat (bm_ones_in_column (dm_abs m) (N.to_nat col) (N.to_nat s) (N.to_nat e))).
Proof.
  intros m col s e Hinv Hadm H32. apply (sim_ones_in_column m _ col s e (refines_abs m Hinv) Hadm).
  cbn [dense_ok]. rewrite abs_bh, N2Nat.id. apply N.leb_le. exact H32.
Qed.

(* the packed sub-row, read back the way BinaryOctetVec::to_octet_vec reads it *)
Theorem C16_dense_get_sub_row_refines : forall m row s,
  dm_inv m -> adm (OSubRow row s) (dm_abs m) = true ->
  exists ws, dm_get_sub_row_as_octets m row s = Ok (ws, width m - s) /\
    N.of_nat (length ws) = ceil_div (width m - s) 64 /\
    bov_to_octet_vec ws (width m - s) =
    Ok (map b2n (bm_sub_row (dm_abs m) (N.to_nat row) (N.to_nat s))).
Proof. intros m row s Hinv. exact (sim_sub_row m _ row s (refines_abs m Hinv)). Qed.

Theorem C16_dense_query_non_zero_columns_refines : forall m row s,
  dm_inv m -> adm (ONonZeroCols row s) (dm_abs m) = true ->
  dm_query_non_zero_columns m row s =
  Ok (map N.of_nat (bm_non_zero_columns (dm_abs m) (N.to_nat row) (N.to_nat s))).
Proof. intros m row s Hinv. exact (sim_non_zero_columns m _ row s (refines_abs m Hinv)). Qed.

(* ---- popcount ---- *)

(* count_ones over a masked word = number of set bits in the selected range *)
Theorem C16_popcount_masked : forall x a b, x < 2 ^ 64 -> a <= b -> b <= 64 ->
  popcount (N.land x (N.land (select_bit_and_all_left_mask a) (select_all_right_of_mask b))) =
  N.of_nat (length (filter (fun k => N.testbit x (N.of_nat k)) (seq (N.to_nat a) (N.to_nat b - N.to_nat a)))).
Proof. exact popcount_masked. Qed.

(* ---- the defects of the pinned code, as refutations of the unconditional statements ---- *)

(* new(64,64,0); resize(64,64); get_row_iter(63,0,64) *)
Theorem C16_dense_row_iter_pinned_refuted : exists m row,
  dm_inv m /\ adm (ORowIter row 0 64) (dm_abs m) = true /\
  dm_get_row_iter false m row 0 64 = Panic PIndex.
Proof. exact row_iter_pinned_refuted. Qed.

(* new(1,64,0); count_ones(0,64,64): an empty range at the right edge *)
Theorem C16_dense_count_ones_empty_edge_refuted : exists m row,
  dm_inv m /\ adm (OCountOnes row 64 64) (dm_abs m) = true /\
  dm_count_ones false m row 64 64 = Panic PIndex.
Proof.
  exists (dm_new 1 64), 0. split; [exact (dm_new_inv 1 64)|]. split; vm_compute; reflexivity.
Qed.

(* new(6,5,0); resize(4,0): resize's own final assert fails when the new width is 0 *)
Theorem C16_dense_resize_zero_width_refuted : exists m,
  dm_inv m /\ adm (OResize 4 0) (dm_abs m) = true /\ dm_resize m 4 0 = Panic PAssert.
Proof.
  exists (dm_new 6 5). split; [exact (dm_new_inv 6 5)|]. split; vm_compute; reflexivity.
Qed.

Theorem C16_dense_resize_zero_width_panics : forall m new_h,
  0 < new_h -> new_h <= height m -> 0 < width m -> dm_resize m new_h 0 = Panic PAssert.
Proof. exact dm_resize_zero_width_panics. Qed.

(* ---- sequences ---- *)

(* Every admissible sequence of operations (set, get, swaps, row addition, freeze, acceleration
   switches, resize, all queries), run on the repaired dense matrix from new(h, w) and on the
   abstract matrix from bm_new h w: no panic, every query answer equal, and the final dense matrix
   agrees with the abstract one on every defined cell. *)
Theorem C16_dense_sequence : forall h w ops,
  adm_seq (bm_new (N.to_nat h) (N.to_nat w)) ops = true ->
  dense_ok_seq (bm_new (N.to_nat h) (N.to_nat w)) ops = true ->
  exists m',
    dm_exec true (dm_new h w) ops = Ok (m', snd (bm_exec (bm_new (N.to_nat h) (N.to_nat w)) ops)) /\
    dm_inv m' /\
    bm_agree (dm_abs m') (fst (bm_exec (bm_new (N.to_nat h) (N.to_nat w)) ops)).
Proof. exact dense_sequence. Qed.

(* the same from any state related by the refinement (not only from new) *)
Theorem C16_dense_sequence_from : forall m a ops,
  refines m a -> adm_seq a ops = true -> dense_ok_seq a ops = true ->
  exists m', dm_exec true m ops = Ok (m', snd (bm_exec a ops)) /\ refines m' (fst (bm_exec a ops)).
Proof. intros m a ops. exact (exec_sim ops m a). Qed.

(* the differential-testing entry point computes the abstract machine's answers *)
Theorem C16_dense_run : forall h w ops,
  let decoded := fold_right (fun l acc => match decode_op l with Some o => o :: acc | None => acc end) [] ops in
  (forall l, In l ops -> decode_op l <> None) ->
  adm_seq (bm_new (N.to_nat h) (N.to_nat w)) decoded = true ->
  dense_ok_seq (bm_new (N.to_nat h) (N.to_nat w)) decoded = true ->
  dm_run true h w ops = bm_run h w ops.
Proof. exact dense_run. Qed.

(* ---- non-vacuity ---- *)

(* 3 x 130: three words per row, column swaps across both word boundaries, a partial row addition
   (start_col = 64 un-defines 64 cells, later re-defined by set), all queries *)
Definition ex_ops_3x130 : list (list N) :=
  [ [1;0;0;1]; [1;0;63;1]; [1;0;64;1]; [1;0;129;1]; [1;1;5;1]; [1;1;64;1]; [1;2;128;1]; [1;2;63;1];
    [4;63;64;0]; [4;0;129;0]; [4;5;128;0];
    [3;0;2];
    [5;1;2;64];
    [7;0;0;130]; [7;2;60;70]; [7;1;64;130]; [7;0;130;130];
    [8;2;0;130]; [8;1;64;130]; [8;0;128;130];
    [9;64;0;3]; [9;129;1;3];
    [10;2;60]; [10;0;130]; [10;1;64];
    [11;2;0]; [11;1;64];
    [12;129]; [13]; [14];
    [1;1;0;0]; [2;1;0];
    [6;3;128]; [8;2;0;128]; [7;2;128;128]; [10;0;1];
    [6;2;64]; [3;0;1]; [8;1;0;64]; [9;63;1;2] ].

Example C16_example_3x130 :
  let decoded := fold_right (fun l acc => match decode_op l with Some o => o :: acc | None => acc end) [] ex_ops_3x130 in
  length decoded = length ex_ops_3x130 /\
  adm_seq (bm_new 3 130) decoded = true /\ dense_ok_seq (bm_new 3 130) decoded = true /\
  dm_run true 3 130 ex_ops_3x130 = bm_run 3 130 ex_ops_3x130 /\
  (* pinned code: same answers until the last-row iterator after the first resize (3 x 128) *)
  dm_run false 3 130 ex_ops_3x130 = firstn 33 (bm_run 3 130 ex_ops_3x130) ++ [[0]] /\
  nth 13 (dm_run true 3 130 ex_ops_3x130) [] = [1; 2] /\
  nth 17 (dm_run true 3 130 ex_ops_3x130) [] = [1; 0; 63; 64; 129].
Proof. vm_compute. repeat split; reflexivity. Qed.

(* 70 x 70 (height >= width, two words per row): fill a diagonal band, swap columns across the
   word boundary with and without a hint, eliminate, shrink *)
Definition ex_ops_70x70 : list (list N) :=
  map (fun i => [1; i; i; 1]) (rangeN 70) ++
  map (fun i => [1; i; (i + 7) mod 70; 1]) (rangeN 70) ++
  [ [4;63;64;0]; [4;0;69;0]; [4;10;65;0];
    (* rows 0..19 are 0 in columns 40 and 66: a hint of 20 is admissible *)
    [4;40;66;20];
    [3;0;69]; [3;63;64];
    [5;3;4;0]; [5;69;0;0]; [5;10;11;64];
    [7;3;0;70]; [7;69;63;65]; [8;3;0;70]; [8;69;60;70]; [9;64;0;70]; [9;3;0;10];
    [10;3;0]; [10;69;63]; [11;4;0]; [11;0;64];
    [12;69]; [6;70;64]; [8;69;0;64]; [7;69;64;64]; [9;63;11;70]; [6;64;64]; [8;63;0;64]; [10;63;0] ].

Example C16_example_70x70 :
  let decoded := fold_right (fun l acc => match decode_op l with Some o => o :: acc | None => acc end) [] ex_ops_70x70 in
  length decoded = length ex_ops_70x70 /\
  adm_seq (bm_new 70 70) decoded = true /\ dense_ok_seq (bm_new 70 70) decoded = true /\
  dm_run true 70 70 ex_ops_70x70 = bm_run 70 70 ex_ops_70x70 /\
  nth 151 (dm_run true 70 70 ex_ops_70x70) [] = [1; 3; 4; 11; 65].
Proof. vm_compute. repeat split; reflexivity. Qed.

(* the hint's promise is a real restriction: the same swap with the hint on an unequal row is
   inadmissible, and the dense matrix then does NOT compute the swap of all rows *)
Example C16_example_hint_matters :
  adm (OSwapCols 0 1 1) (bm_set (bm_new 2 2) 0 0 true) = false /\
  dm_run true 2 2 [[1;0;0;1]; [4;0;1;1]; [2;0;0]] = [[1]; [1]; [1; 1]] /\
  bm_get (bm_swap_columns (bm_set (bm_new 2 2) 0 0 true) 0 1 1) 0 0 = false.
Proof. vm_compute. repeat split; reflexivity. Qed.

Print Assumptions C16_dense_new.
Print Assumptions C16_dense_set_refines.
Print Assumptions C16_dense_swap_rows_refines.
Print Assumptions C16_dense_swap_columns_refines.
Print Assumptions C16_dense_add_assign_rows_refines.
Print Assumptions C16_dense_resize_refines.
Print Assumptions C16_dense_noops_refine.
Print Assumptions C16_dense_get_refines.
Print Assumptions C16_dense_count_ones_refines.
Print Assumptions C16_dense_count_ones_pinned_refines.
Print Assumptions C16_dense_get_row_iter_refines.
Print Assumptions C16_dense_get_row_iter_pinned_refines.
Print Assumptions C16_dense_get_row_iter_pinned_panics.
Print Assumptions C16_dense_get_row_iter_fuel.
Print Assumptions C16_dense_get_ones_in_column_refines.
Print Assumptions C16_dense_get_sub_row_refines.
Print Assumptions C16_dense_query_non_zero_columns_refines.
Print Assumptions C16_popcount_masked.
Print Assumptions C16_dense_row_iter_pinned_refuted.
Print Assumptions C16_dense_count_ones_empty_edge_refuted.
Print Assumptions C16_dense_resize_zero_width_refuted.
Print Assumptions C16_dense_resize_zero_width_panics.
Print Assumptions C16_dense_sequence.
Print Assumptions C16_dense_sequence_from.
Print Assumptions C16_dense_run.
Print Assumptions C16_example_3x130.
Print Assumptions C16_example_70x70.
Print Assumptions C16_example_hint_matters.
