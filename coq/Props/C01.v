(* C01 -- round trip: for every object, every valid transmission configuration and every multiset
   of packets the encoder produced, delivered in any order, the decoder answers "not yet" or
   exactly the original bytes with exactly the transfer length; once all source packets of every
   block have been delivered it answers the object.

   Only pinned statements, closed by Proofs/{RowSem,SoundProofs,BlockSound,ObjectSound}.v.

   Explicit hypotheses about Model/CMatrix.v (Definitions in Proofs/SoundProofs.v, discharged by
   the constraint-matrix development, C04):
     MatWF m K    the matrices generated for in-range ISI lists are well formed (byte entries,
                  rows of length L);
     RowsOK m K   for in-range ISI lists the LDPC and HDPC rows do not depend on the ISI list and
                  the G_ENC row of ISI x is [enc_row m sp x], the 0/1 row with ones at the indices
                  enc_indices lists for Tuple[K', x];
     GenTotal m K (only in the `_no_panic` statements) the generators do not panic on in-range
                  ISI lists that satisfy their length assert.
   Everything else (parameters, tuples, index ranges, duplicate-free index lists, GF(256) linear
   algebra, layout) is proved.  "Produced by the encoder" ([enc_produces]) means: a source packet,
   or a packet of any repair window sbe_repair_packets accepts (the repaired function refuses
   windows beyond the 24-bit id space, so every ESI is below 2^24 and nothing wraps; for the
   pre-repair behaviour see C18_pinned_refuted). *)
From Coq Require Import NArith List Bool Lia.
From RQ Require Import Base.Outcome Base.Ints Base.ListX Spec.Linear Spec.Layout
  Model.Octet Model.FieldFast Model.SysConst Model.Tuple Model.CMatrix Model.Layout Model.Slab
  Model.Encoder Model.Decoder
  Proofs.OutcomeLemmas Proofs.RowParams Proofs.EncoderProofs Proofs.RowSem
  Proofs.SoundProofs Proofs.BlockSound Proofs.ObjectSound.
Import ListNotations.
Open Scope N_scope.

(* ---- (a) the intermediate symbols solve the encoding system A.C = D ---- *)
Theorem C01_encoder_solves : forall m c data id K blk e,
  cfg_ok c data -> lenN blk = K * cT c -> Forall (fun b => b < 256) blk ->
  sbe_new m id c blk = Ok e -> MatWF m K -> RowsOK m K ->
  exists sp bin hdpc,
    sys_params K = Ok sp /\
    generate_constraint_matrix m K (rangeN (N.to_nat (spK sp))) = Ok (bin, hdpc) /\
    let A := full_matrix (spS sp) (spH sp) bin hdpc in
    solves fmul (N.to_nat (cT c)) A (sbe_C e) (create_d sp (sbe_syms e) (N.to_nat (cT c))) /\
    wf_mat (N.to_nat (spL sp)) A /\ length A = N.to_nat (spL sp) /\
    length (sbe_C e) = N.to_nat (spL sp) /\ wf_mat (N.to_nat (cT c)) (sbe_C e).
Proof. exact encoder_solves. Qed.

(* ---- (b) row semantics: a 0/1 row built by storing 1 at the indices of a duplicate-free,
   in-range list combines the symbols into their xor, which is what Enc computes ---- *)
Theorem C01_row_semantics : forall T C, wf_mat T C ->
  forall idx, idx <> [] -> NoDup idx -> Forall (fun j => j < lenN C) idx ->
  xor_at C idx = Ok (lincomb fmul T (ind_row (length C) idx) C).
Proof. exact xor_at_lincomb. Qed.

(* the index lists of the code are duplicate-free (W, P1 prime; d < W; P >= 3) *)
Theorem C01_enc_indices_nodup : forall m K' J S H W P1 X idx,
  In (K', J, S, H, W) Gen.SysTables.TABLE2 -> In (K', P1) Gen.SysTables.P1_TABLE ->
  enc_indices m (Spec.Tuple.Tuple J W P1 X) W (K' + S + H - W) P1 = Ok idx -> NoDup idx.
Proof. exact Proofs.EncIdxNoDup.enc_indices_nodup_row. Qed.

(* ---- (c) Enc of ISI i < K is source symbol i, padding ISIs give the zero symbol, a repair
   payload with ESI x is the linear combination of the row of ISI x + K' - K ---- *)
Theorem C01_source_is_enc : forall m c data id K blk e,
  cfg_ok c data -> lenN blk = K * cT c -> Forall (fun b => b < 256) blk ->
  sbe_new m id c blk = Ok e -> MatWF m K -> RowsOK m K ->
  exists sp, sys_params K = Ok sp /\ K <= spK sp /\
    (forall i, i < K ->
       rebuild_source_symbol m sp (sbe_C e) i = Ok (nth (N.to_nat i) (sbe_syms e) [])) /\
    (forall i, K <= i < spK sp ->
       rebuild_source_symbol m sp (sbe_C e) i = Ok (repeat 0 (N.to_nat (cT c)))) /\
    (forall p, enc_produces m e p -> K <= snd (fst p) ->
       snd (fst p) < 16777216 /\ length (snd p) = N.to_nat (cT c) /\
       forall r, enc_row m sp (snd (fst p) + (spK sp - K)) = Ok r ->
         lincomb fmul (N.to_nat (cT c)) r (sbe_C e) = snd p).
Proof. exact source_is_enc. Qed.

(* ---- (d) the true intermediate symbols solve whatever system the decoder builds (Case 3b with
   the HDPC rows and Case 3a without) from a state reached by feeding it packets of the encoder ---- *)
Theorem C01_true_solution_solves_received : forall m c data id K blk e,
  cfg_ok c data -> lenN blk = K * cT c -> Forall (fun b => b < 256) blk ->
  sbe_new m id c blk = Ok e -> MatWF m K -> RowsOK m K ->
  forall d0 bs rs d pkts d1, sbd_new id c (K * cT c) = Ok d0 ->
    Forall (Forall (enc_produces m e)) bs -> run_batches m d0 bs = Ok (rs, d) ->
    Forall (enc_produces m e) pkts -> ofold (fun p d => sbd_add m d p) pkts d = Ok d1 ->
  exists sp, sys_params K = Ok sp /\
    let T := N.to_nat (cT c) in
    let npad := spK sp - K in
    let isis := map fst (present_sources d1) ++ map (fun i => K + i) (rangeN (N.to_nat npad))
                ++ map (fun r => fst r + npad) (sbd_rep d1) in
    let body := map snd (present_sources d1) ++ repeat (repeat 0 T) (N.to_nat npad)
                ++ map snd (sbd_rep d1) in
    (forall bin hd, generate_constraint_matrix m K isis = Ok (bin, hd) ->
       solves fmul T (full_matrix (spS sp) (spH sp) bin hd) (sbe_C e)
              (repeat (repeat 0 T) (N.to_nat (spS sp + spH sp)) ++ body) /\
       wf_mat (N.to_nat (spL sp)) (full_matrix (spS sp) (spH sp) bin hd)) /\
    (forall A, generate_constraint_matrix_no_hdpc m K isis = Ok A ->
       solves fmul T A (sbe_C e) (repeat (repeat 0 T) (N.to_nat (spS sp)) ++ body) /\
       wf_mat (N.to_nat (spL sp)) A) /\
    length (sbe_C e) = N.to_nat (spL sp) /\ wf_mat T (sbe_C e).
Proof. exact true_solution_solves_received. Qed.

(* ---- (e) block level: batches of the encoder's packets (any order, multiplicity, subset), one
   sbd_decode call per batch from sbd_new: every answer is None or the block ---- *)
Theorem C01_block_sound : forall m c data id K blk e,
  cfg_ok c data -> lenN blk = K * cT c -> Forall (fun b => b < 256) blk ->
  sbe_new m id c blk = Ok e -> MatWF m K -> RowsOK m K ->
  exists d0, sbd_new id c (K * cT c) = Ok d0 /\
    forall bs rs d', Forall (Forall (enc_produces m e)) bs ->
      run_batches m d0 bs = Ok (rs, d') -> Forall (fun r => r = None \/ r = Some blk) rs.
Proof. exact block_sound. Qed.

Theorem C01_block_no_panic : forall m c data id K blk e,
  cfg_ok c data -> lenN blk = K * cT c -> Forall (fun b => b < 256) blk ->
  sbe_new m id c blk = Ok e -> MatWF m K -> RowsOK m K -> GenTotal m K ->
  forall d0, sbd_new id c (K * cT c) = Ok d0 ->
    forall bs, Forall (Forall (enc_produces m e)) bs -> exists rs d', run_batches m d0 bs = Ok (rs, d').
Proof. exact block_no_panic. Qed.

(* ---- (f) once all K source packets have been delivered the answer is the block (Case 2; no
   matrix is involved, so no GenTotal) ---- *)
Theorem C01_all_source_complete : forall m c data id K blk e,
  cfg_ok c data -> lenN blk = K * cT c -> Forall (fun b => b < 256) blk ->
  sbe_new m id c blk = Ok e -> MatWF m K -> RowsOK m K ->
  forall d0, sbd_new id c (K * cT c) = Ok d0 ->
  forall bs b rs d1, Forall (Forall (enc_produces m e)) (bs ++ [b]) ->
    run_batches m d0 bs = Ok (rs, d1) ->
    (forall i, i < K -> exists p, In p (concat (bs ++ [b])) /\ snd (fst p) = i) ->
    exists d2, sbd_decode m d1 b = Ok (Some blk, d2).
Proof. exact block_complete. Qed.

(* ---- (g) object level ---- *)
Theorem C01_object_sound : forall m c data,
  cfg_ok c data ->
  (forall j, j < cZ c -> MatWF m (blk_K c j)) -> (forall j, j < cZ c -> RowsOK m (blk_K c j)) ->
  forall encs, encoder_new_full m c data = Ok encs ->
  forall d0 pkts rs d', dec_new c = Ok d0 -> Forall (obj_produces m c encs) pkts ->
    run_dec m d0 pkts = Ok (rs, d') ->
    Forall (fun r => r = None \/ (r = Some data /\ lenN data = cF c)) rs.
Proof. exact object_sound. Qed.

Theorem C01_object_complete : forall m c data,
  cfg_ok c data ->
  (forall j, j < cZ c -> MatWF m (blk_K c j)) -> (forall j, j < cZ c -> RowsOK m (blk_K c j)) ->
  forall encs, encoder_new_full m c data = Ok encs ->
  forall d0 pkts rs d', dec_new c = Ok d0 -> Forall (obj_produces m c encs) pkts ->
    run_dec m d0 pkts = Ok (rs, d') ->
    (forall j i, j < cZ c -> i < blk_K c j -> exists p, In p pkts /\ fst p = (j, i)) ->
    dec_result d' = Some data /\ last rs None = Some data.
Proof. exact object_complete. Qed.

Theorem C01_object_no_panic : forall m c data,
  cfg_ok c data ->
  (forall j, j < cZ c -> MatWF m (blk_K c j)) -> (forall j, j < cZ c -> RowsOK m (blk_K c j)) ->
  forall encs, encoder_new_full m c data = Ok encs ->
  (forall j, j < cZ c -> GenTotal m (blk_K c j)) ->
  forall d0 pkts, dec_new c = Ok d0 -> Forall (obj_produces m c encs) pkts ->
    exists rs d', run_dec m d0 pkts = Ok (rs, d').
Proof. exact object_no_panic. Qed.

(* ---- non-vacuity: F = 100, T = 8, Z = N = Al = 1 (K = 13, K' = 18): source symbol 4 is dropped,
   12 source packets and 1 repair packet are delivered; the 13th answer is the object ---- *)

Definition ex_c : cfg := mkCfg 100 8 1 1 1.
Definition ex_data : list N := map (fun i => (i * 7 + 3) mod 251) (rangeN 100).

Example C01_example_cfg_ok : cfg_ok ex_c ex_data.
Proof.
  assert (Hb : forallb (fun b => b <? 256) ex_data = true) by (vm_compute; reflexivity).
  unfold cfg_ok. repeat split; try (vm_compute; congruence).
  apply Forall_forall. intros b Hin. rewrite forallb_forall in Hb. apply N.ltb_lt. exact (Hb b Hin).
Qed.

Definition ex_run : outcome (list (option (list N))) :=
  (encs <- encoder_new_full Checked ex_c ex_data ;;
   e <- nth_ok encs 0 ;;
   src <- sbe_source_packets e ;;
   rep <- sbe_repair_packets Checked e 0 1 ;;
   d0 <- dec_new ex_c ;;
   r <- run_dec Checked d0 (firstn 4 src ++ skipn 5 src ++ rep) ;;
   Ok (fst r))%outcome.

Example C01_example_decode : ex_run = Ok (repeat None 12 ++ [Some ex_data]).
Proof. vm_compute. reflexivity. Qed.

(* the same packets in reverse order, every packet twice *)
Definition ex_run_rev : outcome (option (list N)) :=
  (encs <- encoder_new_full Release ex_c ex_data ;;
   e <- nth_ok encs 0 ;;
   src <- sbe_source_packets e ;;
   rep <- sbe_repair_packets Release e 0 1 ;;
   d0 <- dec_new ex_c ;;
   let pk := rev (firstn 4 src ++ skipn 5 src ++ rep) in
   r <- run_dec Release d0 (flat_map (fun p => [p; p]) pk) ;;
   Ok (last (fst r) None))%outcome.

Example C01_example_decode_rev : ex_run_rev = Ok (Some ex_data).
Proof. vm_compute. reflexivity. Qed.

Print Assumptions C01_encoder_solves.
Print Assumptions C01_row_semantics.
Print Assumptions C01_enc_indices_nodup.
Print Assumptions C01_source_is_enc.
Print Assumptions C01_true_solution_solves_received.
Print Assumptions C01_block_sound.
Print Assumptions C01_block_no_panic.
Print Assumptions C01_all_source_complete.
Print Assumptions C01_object_sound.
Print Assumptions C01_object_complete.
Print Assumptions C01_object_no_panic.
Print Assumptions C01_example_cfg_ok.
Print Assumptions C01_example_decode.
Print Assumptions C01_example_decode_rev.
