(* C05 -- Object / source block / sub-block / symbol layout is the one of RFC 6330 4.4.1.2, only
   the tail of the last block is zero padded, source packets carry (SBN j, ESI m, symbol j m) with
   payloads of exactly T bytes, and the decoder's unpacking inverts exactly this layout.
   Only pinned statements, each closed by lemmas of Proofs/LayoutProofs.v. *)
From Coq Require Import NArith List Bool Lia.
From RQ Require Import Base.Outcome Base.Ints Base.ListX Spec.Layout Model.Layout
                       Proofs.LayoutLists Proofs.LayoutProofs.
Import ListNotations.
Open Scope N_scope.

(* ---- Partition[I, J] ---- *)

(* Spec.ceil is the ceiling: the least q with a <= q * b *)
Theorem C05_ceil_is_ceiling : forall a b, 0 < b -> a <= ceil a b * b /\ ceil a b * b < a + b.
Proof. exact ceil_bounds. Qed.

(* base.rs partition over u32 (int_div_ceil narrows u64 -> u32, but never loses a bit here) *)
Theorem C05_partition_is_rfc : forall i j, 0 < j -> i < 2 ^ 32 -> j < 2 ^ 32 ->
  partition i j = Ok (Partition i j).
Proof. exact partition_ok. Qed.

Theorem C05_partition_no_wrap : forall i j, 0 < j -> i < 2 ^ 32 -> j < 2 ^ 32 ->
  (i / j) * j <= i /\ i - (i / j) * j <= j /\ ceil i j < 2 ^ 32 /\ (i / j) * j < 2 ^ 32.
Proof. exact partition_u32_range. Qed.

Theorem C05_partition_div_zero : forall i, partition i 0 = Panic PDivZero.
Proof. exact partition_zero. Qed.

(* JL blocks of IL plus JS blocks of IS make up I exactly; IL, IS are ceil / floor of I / J *)
Theorem C05_partition_facts : forall I J IL IS JL JS, 0 < J -> Partition I J = (IL, IS, JL, JS) ->
  JL * IL + JS * IS = I /\ JL + JS = J /\ IL = ceil I J /\ IS = I / J /\ IS <= IL /\ JL < J.
Proof. exact pinned_partition_facts. Qed.

(* ---- source blocks ---- *)

(* Z blocks; block j is [blk_off j, blk_off j + K_j * T); contiguous from 0 to Kt * T *)
Theorem C05_block_offsets : forall c data, cfg_ok c data ->
  calculate_block_offsets (cF c) (cT c) (cZ c) (lenN data) =
    Ok (map (fun j => (blk_off c j, blk_off c j + blk_K c j * cT c)) (rangeN (N.to_nat (cZ c)))) /\
  length (rangeN (N.to_nat (cZ c))) = N.to_nat (cZ c) /\
  blk_off c 0 = 0 /\
  (forall j, blk_off c (j + 1) = blk_off c j + blk_K c j * cT c) /\
  blk_off c (cZ c) = Kt c * cT c /\
  (forall j, 1 <= blk_K c j /\ blk_K c j <= 56403) /\
  Kt c * cT c < 2 ^ 48.
Proof. exact pinned_block_offsets. Qed.

(* the encoder's blocks are the K_j * T byte windows of the object extended by fewer than T
   zeros: only the tail of the last block is padding, all of it zero, at object offsets >= F *)
Theorem C05_padding_only_tail : forall c data, cfg_ok c data ->
  exists blocks,
    encoder_blocks c data = Ok blocks /\
    blocks = map (block_bytes c data) (rangeN (N.to_nat (cZ c))) /\
    (forall j, j < cZ c -> lenN (nth (N.to_nat j) blocks []) = blk_K c j * cT c) /\
    concat blocks = data ++ repeat 0 (N.to_nat (Kt c * cT c - cF c)) /\
    Kt c * cT c - cF c < cT c /\
    (forall j, j < cZ c -> blk_off c j < cF c).
Proof. exact pinned_padding_only_tail. Qed.

(* ---- sub-blocks and symbols ---- *)

(* the N sub-symbol sizes add up to T *)
Theorem C05_sub_lens_sum : forall c data, cfg_ok c data ->
  sumN (map (sub_len c) (rangeN (N.to_nat (cN c)))) = cT c /\
  partition (cT c / cAl c) (cN c) = Ok (TL c, TS c, NL c, NS c) /\
  NL c + NS c = cN c /\ (NL c * TL c + NS c * TS c) * cAl c = cT c.
Proof. exact pinned_sub_lens_sum. Qed.

(* Encoder::new + source_packets of every block = the RFC packet list: ids in order, SBN j,
   ESI m, payload = concatenation of the m-th sub-symbols of the N sub-blocks of block j *)
Theorem C05_source_packets_are_rfc : forall c data, cfg_ok c data ->
  source_packets_of_object c data = Ok (source_packets_spec c data).
Proof. exact source_packets_of_object_ok. Qed.

(* every payload is exactly T bytes; SBN < Z <= 255 and ESI < K_j <= 56403 *)
Theorem C05_payload_length : forall c data, cfg_ok c data ->
  Forall (fun p => lenN (snd p) = cT c) (source_packets_spec c data) /\
  Forall (fun p => fst (fst p) < cZ c /\ fst (fst p) < 256 /\
                   snd (fst p) < blk_K c (fst (fst p)) /\ snd (fst p) < 56403)
         (source_packets_spec c data).
Proof. exact pinned_payload_length. Qed.

(* the ids of the packet list, in order: for j in 0..Z-1, for m in 0..K_j-1 : (j, m) *)
Theorem C05_packet_ids : forall c data,
  map fst (source_packets_spec c data) =
  concat (map (fun j => map (fun m => (j, m)) (rangeN (N.to_nat (blk_K c j)))) (rangeN (N.to_nat (cZ c)))).
Proof. exact pinned_packet_ids. Qed.

(* create_symbols of a K * T byte block never panics and yields K symbols of T bytes *)
Theorem C05_create_symbols_total : forall c data, cfg_ok c data -> forall K block,
  lenN block = K * cT c ->
  exists syms, create_symbols c block = Ok syms /\ lenN syms = K /\
               Forall (fun s => lenN s = cT c) syms.
Proof. exact create_symbols_shape. Qed.

(* ---- decoder ---- *)

Theorem C05_decoder_block_sizes : forall c data, cfg_ok c data ->
  decoder_block_sizes c = Ok (map (blk_K c) (rangeN (N.to_nat (cZ c)))).
Proof. exact decoder_block_sizes_ok. Qed.

(* the decoder's un-interleave inverts the encoder's interleave, for every Partition[T/Al, N] *)
Theorem C05_unpack_inverts_create : forall c data, cfg_ok c data -> forall K block syms,
  lenN block = K * cT c -> create_symbols c block = Ok syms ->
  block_from_all_source c K syms = Ok block.
Proof. exact unpack_inverts_create. Qed.

(* unpacking the RFC source symbols of every block and truncating to F gives back the object *)
Theorem C05_decoder_inverts : forall c data, cfg_ok c data ->
  exists blocks,
    omapM (fun j => block_from_all_source c (blk_K c j)
                      (map (symbol c data j) (rangeN (N.to_nat (blk_K c j)))))
          (rangeN (N.to_nat (cZ c))) = Ok blocks /\
    blocks = map (block_bytes c data) (rangeN (N.to_nat (cZ c))) /\
    reassemble c blocks = data.
Proof. exact pinned_decoder_inverts. Qed.

(* the same round trip on model functions only *)
Theorem C05_roundtrip_model : forall c data, cfg_ok c data ->
  exists encs sizes blocks,
    encoder_new c data = Ok encs /\ decoder_block_sizes c = Ok sizes /\
    omapM (fun ke => block_from_all_source c (fst ke) (snd (snd ke))) (combine sizes encs) = Ok blocks /\
    reassemble c blocks = data.
Proof. exact decoder_inverts_model. Qed.

(* ---- non-vacuity: F = 991 (not a multiple of T = 20), Z = 3 does not divide Kt = 50,
   N = 3 does not divide T/Al = 5, position-coded data (byte i = i mod 251) ---- *)

Definition ex_c : cfg := mkCfg 991 20 3 3 4.
Definition ex_data : list N := map (fun i => i mod 251) (rangeN 991).

Example C05_example_cfg_ok : cfg_ok ex_c ex_data.
Proof.
  assert (Hb : forallb (fun b => b <? 256) ex_data = true) by (vm_compute; reflexivity).
  unfold cfg_ok. repeat split; try (vm_compute; congruence).
  apply Forall_forall. intros b Hin. rewrite forallb_forall in Hb. apply N.ltb_lt. exact (Hb b Hin).
Qed.

Example C05_example_partitions :
  Kt ex_c = 50 /\ Partition (Kt ex_c) 3 = (17, 16, 2, 1) /\ Partition (20 / 4) 3 = (2, 1, 2, 1) /\
  calculate_block_offsets 991 20 3 991 = Ok [(0, 340); (340, 680); (680, 1000)] /\
  decoder_block_sizes ex_c = Ok [17; 17; 16].
Proof. vm_compute. auto. Qed.

Example C05_example_packets :
  source_packets_of_object ex_c ex_data = Ok (source_packets_spec ex_c ex_data) /\
  length (source_packets_spec ex_c ex_data) = 50%nat /\
  nth 0 (source_packets_spec ex_c ex_data) ((0, 0), []) =
    ((0, 0), [0; 1; 2; 3; 4; 5; 6; 7; 136; 137; 138; 139; 140; 141; 142; 143; 21; 22; 23; 24]) /\
  nth 1 (source_packets_spec ex_c ex_data) ((0, 0), []) =
    ((0, 1), [8; 9; 10; 11; 12; 13; 14; 15; 144; 145; 146; 147; 148; 149; 150; 151; 25; 26; 27; 28]) /\
  nth 17 (source_packets_spec ex_c ex_data) ((0, 0), []) =
    ((1, 0), [89; 90; 91; 92; 93; 94; 95; 96; 225; 226; 227; 228; 229; 230; 231; 232; 110; 111; 112; 113]) /\
  nth 49 (source_packets_spec ex_c ex_data) ((0, 0), []) =
    ((2, 15), [47; 48; 49; 50; 51; 52; 53; 54; 175; 176; 177; 178; 179; 180; 181; 182; 0; 0; 0; 0]).
Proof. vm_compute. repeat split; reflexivity. Qed.

(* round trip through model functions only: cut, interleave, unpack, reassemble *)
Example C05_example_roundtrip :
  (encs <- encoder_new ex_c ex_data ;;
   sizes <- decoder_block_sizes ex_c ;;
   blocks <- omapM (fun ke => block_from_all_source ex_c (fst ke) (snd (snd ke))) (combine sizes encs) ;;
   Ok (reassemble ex_c blocks))%outcome = Ok ex_data.
Proof. vm_compute. reflexivity. Qed.

Print Assumptions C05_ceil_is_ceiling.
Print Assumptions C05_partition_is_rfc.
Print Assumptions C05_partition_no_wrap.
Print Assumptions C05_partition_div_zero.
Print Assumptions C05_partition_facts.
Print Assumptions C05_block_offsets.
Print Assumptions C05_padding_only_tail.
Print Assumptions C05_sub_lens_sum.
Print Assumptions C05_source_packets_are_rfc.
Print Assumptions C05_payload_length.
Print Assumptions C05_packet_ids.
Print Assumptions C05_create_symbols_total.
Print Assumptions C05_decoder_block_sizes.
Print Assumptions C05_unpack_inverts_create.
Print Assumptions C05_decoder_inverts.
Print Assumptions C05_roundtrip_model.
Print Assumptions C05_example_cfg_ok.
Print Assumptions C05_example_packets.
Print Assumptions C05_example_roundtrip.
