(* C16 (sparse half) -- Under every sequence of operations allowed by the matrix interface's
   preconditions AND by what the sparse implementation itself documents / asserts
   ([adm_sparse], Spec/SparseAdm.v), the sparse matrix with its dense tail and column index
   (Model/SparseMatrix.v, a transcription of SparseBinaryMatrix in src/sparse_matrix.rs with
   SparseBinaryVec, ImmutableListMap and the sparse branch of OctetIter) gives the same answers as a
   plain two-dimensional bit array (Spec/BitMatrix.v) on every cell the interface defines.

   Only pinned statements; proofs are in Proofs/Sparse{VecProofs,MatrixProofs,Sim,Queries,QuerySim,
   Add,Freeze,Resize,Seq}.v.

   Reading guide
   * [sm_inv md m]   : representation invariant (row / column maps are inverse permutations; every
                       sparse row strictly increasing, its keys physical columns of logical columns
                       left of the dense tail; the dense tail has height * row_word_width words
                       < 2^64 whose left padding bits are 0; when indexed, the index has one slot
                       per row, duplicate-free lists, and contains every current entry).
   * [sm_abs m]      : abstraction function (cell i j = membership of the physical column in the
                       physical row if j is left of the dense tail, else the right-aligned dense bit).
   * [ghost_ok md m g]: the ghost state g = (indexed?, #dense columns, creation width, stale columns)
                       describes m: in particular the index is EXACT on the columns not marked
                       stale, and (Checked) debug_indexed_column_valid = the non-stale columns.
   * [adm_sparse (a, g) o] : the interface's preconditions [adm o a] plus the sparse ones.
   * [sg_step (a, g) o]    : the ghost state after o.
   * mode: Release = release profile, Checked = dev profile (debug_assert!, overflow checks,
     debug_indexed_column_valid and verify() exist).  Every theorem holds for both.
   * For a mutating operation the theorem gives EQUALITY [sm_abs m' = bm_op (sm_abs m) args];
     for add_assign_rows with start_col = first dense column (the one operation that un-defines
     cells) it gives agreement on the defined cells [bm_agree].
   * Row / column answers of get_row_iter and get_ones_in_column come in the implementation's own
     order: they are pinned as permutations of the abstract (increasing) answer.
   * The model is that of the CURRENT tree, which contains five repairs of the sparse matrix:
     hint_column_dense_and_frozen (`dest` starts at 0 when there is no dense word yet),
     ImmutableListMapBuilder::build (an empty entry list builds the empty map),
     query_non_zero_columns (no dense column: the empty answer), swap_columns (a dense column is
     refused in either position) and enable_column_access_acceleration (a debug build clears
     debug_indexed_column_valid).  The behaviour before these repairs is kept under the flag
     [fixed = false] ([sm_run_pinned]) and pinned as [_pinned_refuted] / [_panics] theorems.
   * verify() (debug builds) is part of the model ([sm_verify]); it cannot fire under the
     invariant ([C16_sparse_verify_never_fires]). *)
From Coq Require Import NArith List Bool Lia Permutation.
From RQ Require Import Base.Outcome Base.Ints Base.ListX Spec.BitMatrix Spec.SparseAdm
  Model.DenseMatrix Model.SparseMatrix Proofs.DenseBits Proofs.DenseMatrixProofs
  Proofs.SparseVecProofs Proofs.SparseMatrixProofs
  Proofs.SparseSim Proofs.SparseQueries Proofs.SparseQuerySim Proofs.SparseAdd Proofs.SparseFreeze
  Proofs.SparseResize Proofs.SparseSeq.
Import ListNotations.
Open Scope N_scope.

(* ---- construction ---- *)

Theorem C16_sparse_new : forall md h w hint, adm_sparse_new h w hint = true ->
  exists m, sm_new md h w hint = Ok m /\ sm_inv md m /\
    ghost_ok md m (snd (ss_new (N.to_nat h) (N.to_nat w) (N.to_nat hint))) /\
    sm_abs m = bm_new (N.to_nat h) (N.to_nat w).
Proof. exact abs_new. Qed.

(* ---- mutating operations ---- *)

(* a sparse column only while the index is disabled; a dense column in any phase *)
Theorem C16_sparse_set_refines : forall md m g i j v, sm_inv md m -> ghost_ok md m g ->
  adm_sparse (sm_abs m, g) (OSet i j v) = true ->
  exists m', sm_set md m i j v = Ok m' /\ sm_inv md m' /\ ghost_ok md m' g /\
    sm_abs m' = bm_set (sm_abs m) (N.to_nat i) (N.to_nat j) (negb (v =? 0)).
Proof. exact abs_set. Qed.

Theorem C16_sparse_swap_rows_refines : forall md m g i j, sm_inv md m -> ghost_ok md m g ->
  adm_sparse (sm_abs m, g) (OSwapRows i j) = true ->
  exists m', sm_swap_rows md m i j = Ok m' /\ sm_inv md m' /\ ghost_ok md m' g /\
    sm_abs m' = bm_swap_rows (sm_abs m) (N.to_nat i) (N.to_nat j).
Proof. exact abs_swap_rows. Qed.

(* both columns left of the dense tail; the stale marks travel with the columns *)
Theorem C16_sparse_swap_columns_refines : forall md m g i j hint, sm_inv md m -> ghost_ok md m g ->
  adm_sparse (sm_abs m, g) (OSwapCols i j hint) = true ->
  exists m', sm_swap_columns md m i j hint = Ok m' /\ sm_inv md m' /\
    ghost_ok md m' (sg_step (sm_abs m, g) (OSwapCols i j hint)) /\
    sm_abs m' = bm_swap_columns (sm_abs m) (N.to_nat i) (N.to_nat j)
                  (N.to_nat (N.min hint (s_height m))).
Proof. exact abs_swap_columns. Qed.

(* the index is rebuilt exact for every column and the stale marks are cleared (a debug build
   fills debug_indexed_column_valid with true); an all-zero sparse part is fine *)
Theorem C16_sparse_enable_refines : forall md m g, sm_inv md m -> ghost_ok md m g ->
  adm_sparse (sm_abs m, g) OEnableAccel = true ->
  exists m', sm_enable_column_access_acceleration md m = Ok m' /\ sm_inv md m' /\
    ghost_ok md m' (sg_step (sm_abs m, g) OEnableAccel) /\ sm_abs m' = sm_abs m.
Proof. exact abs_enable. Qed.

Theorem C16_sparse_disable_refines : forall md m g, sm_inv md m -> ghost_ok md m g ->
  exists m', sm_disable_column_access_acceleration md m = Ok m' /\ sm_inv md m' /\
    ghost_ok md m' (sg_step (sm_abs m, g) ODisableAccel) /\ sm_abs m' = sm_abs m.
Proof. exact abs_disable. Qed.

(* freezing the last sparse column: one more dense column, NO cell changes -- the re-spacing keeps
   every dense bit and the frozen column's bits move from the sparse rows into bit 0 of the tail *)
Theorem C16_sparse_freeze_refines : forall md m g col, sm_inv md m -> ghost_ok md m g ->
  adm_sparse (sm_abs m, g) (OFreeze col) = true ->
  exists m', sm_hint_column_dense_and_frozen md m col = Ok m' /\ sm_inv md m' /\
    ghost_ok md m' (sg_step (sm_abs m, g) (OFreeze col)) /\ s_nd m' = s_nd m + 1 /\
    sm_abs m' = sm_abs m.
Proof. exact abs_freeze. Qed.

(* the re-spacing loop in isolation: from (old words ++ height zero words), with src = old length
   and dest = new length, it ends with src = dest = 0 (the two assert_eq!s hold) and word q of the
   result is 0 when q is the first word of a row, else the old word one position to the left *)
Theorem C16_sparse_respace : forall md old rw h, 1 <= rw -> Forall lt64 old ->
  N.of_nat (length old) = h * rw -> h * (rw + 1) < 2 ^ 64 ->
  exists de', respace md (S (length old)) (old ++ repeat 0 (N.to_nat h)) (h * rw) (h * (rw + 1)) (rw + 1)
              = Ok (de', 0, 0) /\
    N.of_nat (length de') = h * (rw + 1) /\
    forall q, q < h * (rw + 1) -> eword de' q = newval old rw q.
Proof. exact respace_from_start. Qed.

(* start_col = 0: the whole row is added (all cells stay defined: equality);
   start_col = first dense column: only the dense tail is exact, the sparse part of dest keeps its
   old contents and is undefined for the interface (agreement on the defined cells).
   While indexed only the elimination of one column entry by a single-entry row is admissible;
   it marks that column stale. *)
Theorem C16_sparse_add_assign_rows_refines : forall md m g dest src start_col,
  sm_inv md m -> ghost_ok md m g ->
  adm_sparse (sm_abs m, g) (OAddRows dest src start_col) = true ->
  exists m', sm_add_assign_rows md m dest src start_col = Ok m' /\ sm_inv md m' /\
    ghost_ok md m' (sg_step (sm_abs m, g) (OAddRows dest src start_col)) /\
    bm_agree (sm_abs m')
      (bm_add_assign_rows (sm_abs m) (N.to_nat dest) (N.to_nat src) (N.to_nat start_col)) /\
    (start_col = 0 ->
     sm_abs m' = bm_add_assign_rows (sm_abs m) (N.to_nat dest) (N.to_nat src) 0).
Proof. exact abs_add_rows. Qed.

(* only while the index is disabled; keeps all of the dense tail or none of it *)
Theorem C16_sparse_resize_refines : forall md m g new_h new_w, sm_inv md m -> ghost_ok md m g ->
  adm_sparse (sm_abs m, g) (OResize new_h new_w) = true ->
  exists m', sm_resize md m new_h new_w = Ok m' /\ sm_inv md m' /\
    ghost_ok md m' (sg_step (sm_abs m, g) (OResize new_h new_w)) /\
    sm_abs m' = bm_resize (sm_abs m) (N.to_nat new_h) (N.to_nat new_w).
Proof. exact abs_resize. Qed.

(* the debug-only consistency check cannot fire *)
Theorem C16_sparse_verify_never_fires : forall md m, sm_inv md m -> sm_verify md m = Ok tt.
Proof. exact sm_verify_ok. Qed.

(* ---- queries ---- *)

Theorem C16_sparse_get_refines : forall md m g i j, sm_inv md m -> ghost_ok md m g ->
  adm_sparse (sm_abs m, g) (OGet i j) = true ->
  sm_get md m i j = Ok (b2n (bm_get (sm_abs m) (N.to_nat i) (N.to_nat j))).
Proof. exact abs_get. Qed.

(* within the sparse columns *)
Theorem C16_sparse_count_ones_refines : forall md m g row s e, sm_inv md m -> ghost_ok md m g ->
  adm_sparse (sm_abs m, g) (OCountOnes row s e) = true ->
  sm_count_ones md m row s e =
  Ok (N.of_nat (bm_count_ones (sm_abs m) (N.to_nat row) (N.to_nat s) (N.to_nat e))).
Proof. exact abs_count_ones. Qed.

(* as a SET of (col, 1) pairs: every value is 1 and the columns are a permutation of the columns
   in [s, e) whose cell is 1 *)
Theorem C16_sparse_get_row_iter_refines : forall md m g row s e, sm_inv md m -> ghost_ok md m g ->
  adm_sparse (sm_abs m, g) (ORowIter row s e) = true ->
  exists l, sm_get_row_iter md m row s e = Ok l /\ Forall (fun cv => snd cv = 1) l /\
    Permutation (map fst l)
      (map N.of_nat (filter (fun c => bm_get (sm_abs m) (N.to_nat row) c)
                            (seq (N.to_nat s) (N.to_nat e - N.to_nat s)))).
Proof. exact abs_row_iter. Qed.

(* as a set; only while indexed, for a sparse column that is not stale *)
Theorem C16_sparse_get_ones_in_column_refines : forall md m g col s e,
  sm_inv md m -> ghost_ok md m g ->
  adm_sparse (sm_abs m, g) (OOnesInCol col s e) = true ->
  exists l, sm_get_ones_in_column md m col s e = Ok l /\
    Permutation l
      (map N.of_nat (bm_ones_in_column (sm_abs m) (N.to_nat col) (N.to_nat s) (N.to_nat e))).
Proof. exact abs_ones_in_column. Qed.

(* from the first dense column; the packed words read back the way BinaryOctetVec reads them *)
Theorem C16_sparse_get_sub_row_refines : forall md m g row s, sm_inv md m -> ghost_ok md m g ->
  adm_sparse (sm_abs m, g) (OSubRow row s) = true ->
  exists ws, sm_get_sub_row_as_octets md m row s = Ok (ws, s_nd m) /\
    N.of_nat (length ws) = ceil_div (s_nd m) 64 /\
    bov_to_octet_vec ws (s_nd m) =
    Ok (map b2n (bm_sub_row (sm_abs m) (N.to_nat row) (N.to_nat s))).
Proof. exact abs_sub_row. Qed.

(* the trailing_zeros word walk returns exactly the increasing list of the dense columns with a 1 *)
Theorem C16_sparse_query_non_zero_columns_refines : forall md m g row s,
  sm_inv md m -> ghost_ok md m g ->
  adm_sparse (sm_abs m, g) (ONonZeroCols row s) = true ->
  sm_query_non_zero_columns md m row s =
  Ok (map N.of_nat (bm_non_zero_columns (sm_abs m) (N.to_nat row) (N.to_nat s))).
Proof. exact abs_non_zero_columns. Qed.

(* ---- sequences ---- *)

(* Every sparse-admissible sequence, run from new(h, w, hint) on the sparse matrix and from
   bm_new h w on the abstract matrix: no panic (in particular no loop fuel is exhausted), every
   answer equivalent to the abstract one (identical; a row answer compared as the set of the
   columns whose value is 1), the invariant holds at the end, and the final sparse matrix agrees
   with the abstract one on every defined cell. *)
Theorem C16_sparse_sequence : forall md h w hint ops,
  adm_sparse_new h w hint = true ->
  adm_sparse_seq (ss_new (N.to_nat h) (N.to_nat w) (N.to_nat hint)) ops = true ->
  exists m0 m' l, sm_new md h w hint = Ok m0 /\ sm_exec md m0 ops = Ok (m', l) /\
    sm_inv md m' /\
    Forall2 ans_equiv l (snd (bm_exec (bm_new (N.to_nat h) (N.to_nat w)) ops)) /\
    bm_agree (sm_abs m') (fst (bm_exec (bm_new (N.to_nat h) (N.to_nat w)) ops)).
Proof. exact sparse_sequence. Qed.

(* the same from any state related by the refinement *)
Theorem C16_sparse_sequence_from : forall md ops m st,
  srefines md m st -> adm_sparse_seq st ops = true ->
  exists m' l, sm_exec md m ops = Ok (m', l) /\ srefines md m' (fst (ss_exec st ops)) /\
    Forall2 ans_equiv l (snd (ss_exec st ops)).
Proof. exact exec_sim. Qed.

(* sparse admissibility implies the interface's admissibility, and the ghost-extended abstract
   machine computes the abstract machine's matrix and answers *)
Theorem C16_sparse_adm_is_adm : forall ops st,
  adm_sparse_seq st ops = true -> adm_seq (fst st) ops = true.
Proof. exact adm_sparse_seq_adm. Qed.

Theorem C16_sparse_ghost_machine : forall ops st,
  fst (fst (ss_exec st ops)) = fst (bm_exec (fst st) ops) /\
  snd (ss_exec st ops) = snd (bm_exec (fst st) ops).
Proof. exact ss_exec_bm. Qed.

(* the differential-testing entry point computes the abstract machine's answers (and those of the
   oracle [sp_run] that checks sparse admissibility itself) *)
Theorem C16_sparse_run : forall md h w hint ops,
  (forall l, In l ops -> decode_op l <> None) ->
  adm_sparse_new h w hint = true ->
  adm_sparse_seq (ss_new (N.to_nat h) (N.to_nat w) (N.to_nat hint)) (decode_all ops) = true ->
  sm_run md h w hint ops = bm_run h w ops /\ sm_run md h w hint ops = sp_run h w hint ops.
Proof. exact sparse_run. Qed.

(* ---- the repaired defect, as a statement about the pinned code ---- *)

(* hint_column_dense_and_frozen on a matrix without any dense column (created with
   trailing_dense_column_hint = 0): the pinned code fails its own assert_eq!(dest, 0) *)
Theorem C16_sparse_freeze_pinned_panics : forall md m i,
  sm_inv md m -> s_disabled m = false -> i + 1 = sfd m -> s_nd m = 0 ->
  sm_freeze_gen false md m i = Panic PAssert.
Proof. exact freeze_pinned_panics. Qed.

(* new(11,5,0); set(0,0,1); enable; freeze 4 : admissible, the repaired code agrees with the
   abstract matrix, the pinned code panics *)
Theorem C16_sparse_freeze_pinned_refuted :
  let ops := [[1;0;0;1]; [13]; [12;4]; [2;0;0]] in
  adm_sparse_seq (ss_new 11 5 0) (decode_all ops) = true /\
  sm_run Release 11 5 0 ops = bm_run 11 5 ops /\
  sm_run_pinned Release 11 5 0 ops = [[1]; [1]; [0]] /\
  sm_run_pinned Checked 11 5 0 ops = [[1]; [1]; [0]].
Proof. vm_compute. repeat split; reflexivity. Qed.

(* ---- non-vacuity ---- *)

(* 8 x 6, two dense columns: construction, queries, row / column swaps, indexing, a single-entry
   elimination (column 1 becomes stale), column swap while indexed, two freezes, a partial row
   addition (start_col = first dense: row 0's sparse cells become undefined), disable, full row
   additions, re-definition by set, shrinking with and without the dense tail *)
Definition exs_ops_8x6 : list (list N) :=
  [ [1;0;0;1]; [1;0;2;1]; [1;1;1;1]; [1;2;0;1]; [1;2;3;1]; [1;3;1;1]; [1;3;4;1]; [1;4;5;1]; [1;5;2;1];
    [1;6;3;1]; [1;7;0;1]; [1;1;5;1]; [1;0;0;0]; [1;0;0;1];
    [2;0;0]; [7;0;0;4]; [8;2;0;4]; [10;3;4]; [11;1;4];
    [3;0;7]; [4;0;3;0];
    [13];
    [9;1;0;8]; [5;3;1;0]; [9;2;0;8]; [4;1;2;0]; [9;1;0;8];
    [12;3]; [5;0;2;3]; [2;3;4]; [10;3;3]; [11;3;3]; [9;0;1;8];
    [12;2]; [10;5;2]; [11;2;2];
    [14];
    [5;4;5;0]; [1;0;0;1]; [7;4;0;2]; [8;4;0;2]; [5;6;7;2];
    [6;6;6]; [10;5;2]; [11;5;2]; [2;5;5];
    [6;4;2]; [8;1;0;2]; [7;1;0;2]; [2;3;1] ].

Example C16s_example_8x6 :
  length (decode_all exs_ops_8x6) = length exs_ops_8x6 /\
  adm_sparse_new 8 6 2 = true /\
  adm_sparse_seq (ss_new 8 6 2) (decode_all exs_ops_8x6) = true /\
  sm_run Release 8 6 2 exs_ops_8x6 = bm_run 8 6 exs_ops_8x6 /\
  sm_run Checked 8 6 2 exs_ops_8x6 = bm_run 8 6 exs_ops_8x6 /\
  nth 22 (sm_run Release 8 6 2 exs_ops_8x6) [] = [1; 1; 3] /\
  nth 30 (sm_run Release 8 6 2 exs_ops_8x6) [] = [1; 0; 1; 1].
Proof. vm_compute. repeat split; reflexivity. Qed.

(* 70 x 70 with 64 dense columns: the first freeze makes the 65th dense column, i.e. a new word per
   row and the re-spacing of 70 rows; then a second freeze, partial and full additions, shrinking *)
Definition exs_ops_70x70 : list (list N) :=
  map (fun i => [1; i; i; 1]) (rangeN 70) ++
  map (fun i => [1; i; (i + 7) mod 70; 1]) (rangeN 70) ++
  [ [2;3;3]; [2;3;10]; [10;3;6]; [11;63;6]; [7;5;0;6]; [8;68;0;6];
    [13];
    [9;5;0;70]; [4;0;5;0]; [9;0;0;70]; [3;5;68];
    [12;5]; [2;5;5]; [2;68;5]; [10;68;5]; [11;68;5]; [11;3;5];
    [5;6;7;5]; [10;6;5];
    [9;4;7;70]; [12;4]; [11;4;4]; [10;67;4];
    [14];
    [5;1;2;0]; [5;3;4;4]; [11;1;4]; [8;1;0;4]; [7;2;0;4];
    [6;64;70]; [11;63;4]; [10;0;4];
    [6;60;3]; [8;1;0;3]; [2;59;2] ].

Example C16s_example_70x70 :
  length (decode_all exs_ops_70x70) = length exs_ops_70x70 /\
  adm_sparse_new 70 70 64 = true /\
  adm_sparse_seq (ss_new 70 70 64) (decode_all exs_ops_70x70) = true /\
  sm_run Release 70 70 64 exs_ops_70x70 = bm_run 70 70 exs_ops_70x70 /\
  sm_run Checked 70 70 64 exs_ops_70x70 = bm_run 70 70 exs_ops_70x70 /\
  nth 147 (sm_run Release 70 70 64 exs_ops_70x70) [] = [1; 5; 68] /\
  nth 161 (sm_run Release 70 70 64 exs_ops_70x70) [] = [1; 4; 11].
Proof. vm_compute. repeat split; reflexivity. Qed.

(* the sparse restrictions are real restrictions *)

(* a stale column: after eliminating column 0 from row 1 while indexed, get_ones_in_column(0) is
   inadmissible; the release build answers with the stale index ({0,1} instead of {0}) and the
   debug build panics on debug_indexed_column_valid *)
Example C16s_example_stale_column_matters :
  let ops := [[1;0;0;1]; [1;1;0;1]; [13]; [5;1;0;0]; [9;0;0;3]] in
  adm_sparse_seq (ss_new 3 3 0) (decode_all (firstn 4 ops)) = true /\
  adm_sparse_seq (ss_new 3 3 0) (decode_all ops) = false /\
  bm_run 3 3 ops = [[1]; [1]; [1]; [1]; [1; 0]] /\
  sm_run Release 3 3 0 ops = [[1]; [1]; [1]; [1]; [1; 0; 1]] /\
  sm_run Checked 3 3 0 ops = [[1]; [1]; [1]; [1]; [0]].
Proof. vm_compute. repeat split; reflexivity. Qed.

(* the column index has one slot per ROW: with more columns than rows it cannot be built *)
Example C16s_example_index_needs_height :
  let ops := [[1;0;2;1]; [13]] in
  adm_sparse_seq (ss_new 2 3 0) (decode_all ops) = false /\
  sm_run Release 2 3 0 ops = [[1]; [0]].
Proof. vm_compute. repeat split; reflexivity. Qed.

(* ---- the other repaired defects, as statements about the pinned code (fixed = false) ---- *)

(* R1. new(4,3,2) with ones only in the dense tail; enable: admissible, fine in the current code;
   the pinned builder failed `assert!(!entries.is_empty())` *)
Theorem C16_sparse_enable_empty_pinned_refuted :
  let ops := [[1;0;2;1]; [13]; [2;0;2]] in
  adm_sparse_seq (ss_new 4 3 2) (decode_all ops) = true /\
  sm_run Release 4 3 2 ops = bm_run 4 3 ops /\ sm_run Checked 4 3 2 ops = bm_run 4 3 ops /\
  sm_run_pinned Release 4 3 2 ops = [[1]; [0]] /\ sm_run_pinned Checked 4 3 2 ops = [[1]; [0]].
Proof. vm_compute. repeat split; reflexivity. Qed.

(* R2. new(2,2,0); query_non_zero_columns(0,2): the interface allows start_col = width (answer: no
   column); the pinned code read the first dense word unconditionally and panicked *)
Theorem C16_sparse_non_zero_columns_pinned_refuted :
  let ops := [[11;0;2]] in
  adm_seq (bm_new 2 2) (decode_all ops) = true /\
  adm_sparse_seq (ss_new 2 2 0) (decode_all ops) = true /\
  bm_run 2 2 ops = [[1]] /\ sm_run Release 2 2 0 ops = [[1]] /\ sm_run Checked 2 2 0 ops = [[1]] /\
  sm_run_pinned Release 2 2 0 ops = [[0]].
Proof. vm_compute. repeat split; reflexivity. Qed.

(* R3. new(2,3,1); set(0,0,1); swap_columns(2,0,0); get(0,2): the pinned code only refused a dense
   column in the second position; with the dense column first it swapped the sparse maps only and
   the bit was silently lost (0 where the abstract matrix has 1).  The current code refuses the
   call (and [adm_sparse] excludes it, as it always did). *)
Theorem C16_sparse_swap_columns_pinned_refuted :
  let ops := [[1;0;0;1]; [4;2;0;0]; [2;0;2]] in
  adm_seq (bm_new 2 3) (decode_all ops) = true /\
  adm_sparse_seq (ss_new 2 3 1) (decode_all ops) = false /\
  bm_run 2 3 ops = [[1]; [1]; [1; 1]] /\
  sm_run_pinned Release 2 3 1 ops = [[1]; [1]; [1; 0]] /\
  sm_run Release 2 3 1 ops = [[1]; [0]] /\ sm_run Checked 2 3 1 ops = [[1]; [0]].
Proof. vm_compute. repeat split; reflexivity. Qed.

(* R4. eliminate column 0 while indexed, disable, enable again, get_ones_in_column(0): the rebuilt
   index is exact, so the call is admissible and both profiles answer {0}; the pinned debug build
   kept the stale mark and panicked where the pinned release build answered *)
Theorem C16_sparse_reenable_pinned_refuted :
  let ops := [[1;0;0;1]; [1;1;0;1]; [13]; [5;1;0;0]; [14]; [13]; [9;0;0;3]] in
  adm_sparse_seq (ss_new 3 3 0) (decode_all ops) = true /\
  bm_run 3 3 ops = [[1]; [1]; [1]; [1]; [1]; [1]; [1; 0]] /\
  sm_run Release 3 3 0 ops = bm_run 3 3 ops /\ sm_run Checked 3 3 0 ops = bm_run 3 3 ops /\
  sm_run_pinned Release 3 3 0 ops = bm_run 3 3 ops /\
  sm_run_pinned Checked 3 3 0 ops = [[1]; [1]; [1]; [1]; [1]; [1]; [0]].
Proof. vm_compute. repeat split; reflexivity. Qed.

Print Assumptions C16_sparse_new.
Print Assumptions C16_sparse_set_refines.
Print Assumptions C16_sparse_swap_rows_refines.
Print Assumptions C16_sparse_swap_columns_refines.
Print Assumptions C16_sparse_enable_refines.
Print Assumptions C16_sparse_disable_refines.
Print Assumptions C16_sparse_freeze_refines.
Print Assumptions C16_sparse_respace.
Print Assumptions C16_sparse_add_assign_rows_refines.
Print Assumptions C16_sparse_resize_refines.
Print Assumptions C16_sparse_verify_never_fires.
Print Assumptions C16_sparse_get_refines.
Print Assumptions C16_sparse_count_ones_refines.
Print Assumptions C16_sparse_get_row_iter_refines.
Print Assumptions C16_sparse_get_ones_in_column_refines.
Print Assumptions C16_sparse_get_sub_row_refines.
Print Assumptions C16_sparse_query_non_zero_columns_refines.
Print Assumptions C16_sparse_sequence.
Print Assumptions C16_sparse_sequence_from.
Print Assumptions C16_sparse_adm_is_adm.
Print Assumptions C16_sparse_ghost_machine.
Print Assumptions C16_sparse_run.
Print Assumptions C16_sparse_freeze_pinned_panics.
Print Assumptions C16_sparse_freeze_pinned_refuted.
Print Assumptions C16_sparse_enable_empty_pinned_refuted.
Print Assumptions C16_sparse_non_zero_columns_pinned_refuted.
Print Assumptions C16_sparse_swap_columns_pinned_refuted.
Print Assumptions C16_sparse_reenable_pinned_refuted.
Print Assumptions C16s_example_8x6.
Print Assumptions C16s_example_70x70.
Print Assumptions C16s_example_stale_column_matters.
Print Assumptions C16s_example_index_needs_height.
