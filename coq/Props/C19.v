(* C19 -- ObjectTransmissionInformation::new accepts exactly the parameter sets RFC 6330 4.4.1.2
   allows (F <= 942574504275, Al | T, ceil(ceil(F/T)/Z) <= 56403).
   Proved for the constructor whose ceiling division stays in u64 (oti_new_fixed); REFUTED for the
   pinned constructor, whose int_div_ceil narrows to u32 (oti_new_pinned), with the exact region
   where the pinned code is still right.  Only pinned statements (Proofs/OtiProofs.v). *)
From Coq Require Import NArith List Bool Lia.
From RQ Require Import Base.Outcome Base.Ints Gen.Consts Spec.Oti Model.Wire Model.Oti Proofs.OtiProofs.
Open Scope N_scope.

Theorem C19_fixed_accepts_iff_valid : forall F T Z Nsub Al,
  0 < T < 2 ^ 16 -> 0 < Z < 2 ^ 8 -> Nsub < 2 ^ 16 -> 0 < Al < 2 ^ 8 -> F < 2 ^ 64 ->
  forall m,
    (oti_new_fixed m F T Z Nsub Al = Ok (F, T, Z, Nsub, Al) <-> oti_valid F T Z Al) /\
    (~ oti_valid F T Z Al -> exists c, oti_new_fixed m F T Z Nsub Al = Panic c).
Proof.
  intros F T Z Nsub Al HT HZ _ HA _ m.
  destruct (oti_new_fixed_iff m F T Z Nsub Al) as [I P]; try lia.
  split; [exact I | intros V; exists PAssert; exact (P V)].
Qed.

(* the rejection is the assert, and validity is decidable by the boolean spec *)
Theorem C19_fixed_decides : forall m F T Z Nsub Al, T <> 0 -> Z <> 0 -> Al <> 0 ->
  oti_new_fixed m F T Z Nsub Al =
  (if oti_validb F T Z Al then Ok (F, T, Z, Nsub, Al) else Panic PAssert) /\
  (oti_validb F T Z Al = true <-> oti_valid F T Z Al).
Proof.
  intros m F T Z Nsub Al HT HZ HA.
  split; [exact (oti_new_fixed_validb m F T Z Nsub Al HT HZ HA) | apply oti_validb_spec].
Qed.

(* an accepted configuration is exactly the tuple given (pinned and fixed alike) *)
Theorem C19_accessors : forall idc m F T Z Nsub Al x,
  oti_new_gen idc m F T Z Nsub Al = Ok x ->
  x = (F, T, Z, Nsub, Al) /\
  oti_transfer_length x = F /\ oti_symbol_size x = T /\ oti_source_blocks x = Z /\
  oti_sub_blocks x = Nsub /\ oti_symbol_alignment x = Al.
Proof.
  intros idc m F T Z Nsub Al x H.
  split; [exact (oti_new_gen_accessors idc m F T Z Nsub Al x H) | exact (oti_new_gen_fields idc m F T Z Nsub Al x H)].
Qed.

(* the pinned constructor accepts F = 2^32 + 5, T = Z = Al = 1: 4294967301 symbols in one block *)
Theorem C19_pinned_refuted : forall m,
  ~ oti_valid (2 ^ 32 + 5) 1 1 1 /\
  oti_new_pinned m (2 ^ 32 + 5) 1 1 1 1 = Ok (2 ^ 32 + 5, 1, 1, 1, 1).
Proof.
  intros m. destruct (oti_new_pinned_refuted m) as [V A].
  split; [apply oti_validb_false; exact V | exact A].
Qed.

(* `oti_new` is the code as it is now *)
Theorem C19_oti_new_is_fixed : oti_new = oti_new_fixed.
Proof. reflexivity. Qed.

Theorem C19_pinned_sound_below_2_32 : forall m F T Z Nsub Al,
  cdiv F T < 2 ^ 32 -> oti_new_pinned m F T Z Nsub Al = oti_new_fixed m F T Z Nsub Al.
Proof. exact oti_new_pinned_agrees. Qed.

Theorem C19_pinned_sound_F_below_2_32 : forall m F T Z Nsub Al,
  F < 2 ^ 32 -> oti_new_pinned m F T Z Nsub Al = oti_new_fixed m F T Z Nsub Al.
Proof. exact oti_new_pinned_agrees_F. Qed.

(* the pinned constructor never rejects a valid set: the defect is one-sided *)
Theorem C19_pinned_complete : forall m F T Z Nsub Al,
  0 < T -> 0 < Z < 2 ^ 8 -> 0 < Al -> oti_valid F T Z Al ->
  oti_new_pinned m F T Z Nsub Al = Ok (F, T, Z, Nsub, Al).
Proof.
  intros m F T Z Nsub Al HT HZ HA V. apply oti_new_pinned_complete; try lia. exact V.
Qed.

(* degenerate inputs, for any ceiling division (pinned and fixed alike) *)
Theorem C19_zero_T : forall idc m F Z Nsub Al, 0 < Al ->
  oti_new_gen idc m F 0 Z Nsub Al =
  if F <=? 942574504275 then Ok (F, 0, Z, Nsub, Al) else Panic PAssert.
Proof. intros idc m F Z Nsub Al HA. apply oti_new_gen_zero_T. lia. Qed.

Theorem C19_zero_Z : forall idc m F T Nsub Al, 0 < Al ->
  oti_new_gen idc m F T 0 Nsub Al =
  if (F <=? 942574504275) && (T mod Al =? 0) then Ok (F, T, 0, Nsub, Al) else Panic PAssert.
Proof. intros idc m F T Nsub Al HA. apply oti_new_gen_zero_Z. lia. Qed.

Theorem C19_zero_Al : forall idc m F T Z Nsub,
  oti_new_gen idc m F T Z Nsub 0 =
  if F <=? 942574504275 then Panic PDivZero else Panic PAssert.
Proof. exact oti_new_gen_zero_Al. Qed.

(* modelling obligations: int_div_ceil's u64 `+ 1` cannot overflow; the mode is irrelevant *)
Theorem C19_int_div_ceil_no_overflow : forall a b, a < 2 ^ 64 -> b <> 0 ->
  ceil_div64 a b < 2 ^ 64 /\ ceil_div64 a b = cdiv a b /\
  int_div_ceil_pinned a b = u32 (ceil_div64 a b).
Proof.
  intros a b Ha Hb.
  split; [exact (int_div_ceil_no_overflow a b Ha Hb) | split; [exact (ceil_div64_cdiv a b Hb) | reflexivity]].
Qed.

Theorem C19_mode_irrelevant : forall idc m m' F T Z Nsub Al,
  oti_new_gen idc m F T Z Nsub Al = oti_new_gen idc m' F T Z Nsub Al.
Proof. exact oti_new_gen_mode. Qed.

(* non-vacuity *)
Example C19_example_valid :
  oti_valid 942574504275 65535 255 5 /\
  oti_new_fixed Release 942574504275 65535 255 1 5 = Ok (942574504275, 65535, 255, 1, 5) /\
  oti_new_pinned Checked 942574504275 65535 255 1 5 = Ok (942574504275, 65535, 255, 1, 5) /\
  cdiv 942574504275 65535 < 2 ^ 32 /\
  (0 < 65535 < 2 ^ 16 /\ 0 < 255 < 2 ^ 8 /\ 1 < 2 ^ 16 /\ 0 < 5 < 2 ^ 8 /\ 942574504275 < 2 ^ 64).
Proof.
  split; [apply oti_validb_spec; vm_compute; reflexivity | vm_compute; repeat split].
Qed.

Example C19_example_invalid :
  ~ oti_valid 1000000 1 1 1 /\
  oti_new_fixed Release 1000000 1 1 1 1 = Panic PAssert /\
  oti_new_pinned Release 1000000 1 1 1 1 = Panic PAssert /\
  oti_new_fixed Release (2 ^ 32 + 5) 1 1 1 1 = Panic PAssert /\
  oti_new_fixed Checked 942574504276 1024 255 1 8 = Panic PAssert /\
  oti_new_fixed Checked 1024 1022 1 1 4 = Panic PAssert.
Proof.
  split; [apply oti_validb_false; vm_compute; reflexivity | vm_compute; repeat split].
Qed.

Example C19_example_zero :
  oti_new_pinned Release 5 0 1 1 8 = Ok (5, 0, 1, 1, 8) /\
  oti_new_pinned Release 5 8 0 1 8 = Ok (5, 8, 0, 1, 8) /\
  oti_new_pinned Release 5 8 1 1 0 = Panic PDivZero /\
  oti_new_pinned Release 942574504276 8 1 1 0 = Panic PAssert.
Proof. vm_compute. repeat split. Qed.

(* the limit "at most 56403 symbols per source block" without division: ceil(ceil(F/T)/Z) <= 56403 iff
   F <= 56403 * Z * T (the form the symbolic-correspondence reference kani/src/refs.rs::oti_valid_mul uses) *)
Theorem C19_valid_division_free : forall F T Z Al, 0 < T -> 0 < Z ->
  (oti_valid F T Z Al <-> F <= 942574504275 /\ T mod Al = 0 /\ F <= 56403 * Z * T).
Proof. exact valid_division_free. Qed.

Print Assumptions C19_fixed_accepts_iff_valid.
Print Assumptions C19_fixed_decides.
Print Assumptions C19_accessors.
Print Assumptions C19_pinned_refuted.
Print Assumptions C19_oti_new_is_fixed.
Print Assumptions C19_pinned_sound_below_2_32.
Print Assumptions C19_pinned_sound_F_below_2_32.
Print Assumptions C19_pinned_complete.
Print Assumptions C19_zero_T.
Print Assumptions C19_zero_Z.
Print Assumptions C19_zero_Al.
Print Assumptions C19_int_div_ceil_no_overflow.
Print Assumptions C19_mode_irrelevant.
Print Assumptions C19_valid_division_free.
