(* C15 -- code parameters and tuple generation (RFC 6330 5.3.1, 5.3.3.3, 5.3.5, 5.6).
   Only pinned statements, each closed by lemmas of Proofs/.

   A "row" below is a row (K', J, S, H, W) of TABLE2 together with the P1 that P1_TABLE lists for
   the same K'; P = K'+S+H-W and L = K'+S+H.  `intermediate_tuple_gen wrapping m` is the model of
   `intermediate_tuple` with `rand` computing its first index as `y.wrapping_add(i)` (wrapping =
   true, the fix) or `y + i` (wrapping = false, the pinned code) in build mode m. *)
From Coq Require Import NArith List Bool Lia.
From RQ Require Import Base.Outcome Base.Ints Base.ListX Gen.Consts Gen.RandTables Gen.SysTables
  Spec.Tables_RFC Spec.Prime Spec.Rand Spec.Tuple Model.SysConst Model.Tuple
  Proofs.GenIsRfc Proofs.PrimeProofs Proofs.C15Proofs.
Import ListNotations.
Open Scope N_scope.

(* the unstructured tables and constants in the crate are those of the RFC snapshot *)
Theorem C15_tables_are_rfc :
  V0 = RFC_V0 /\ V1 = RFC_V1 /\ V2 = RFC_V2 /\ V3 = RFC_V3 /\ TABLE2 = RFC_TABLE2 /\
  DEG_F = RFC_DEG_F /\ TUPLE_A_BASE = 53591 /\ TUPLE_A_MUL = 997 /\ TUPLE_B_MUL = 10267 /\
  TUPLE_Y_MOD = 2 ^ 32 /\ TUPLE_V_RANGE = 2 ^ 20 /\ DEG_V_LIMIT = 2 ^ 20 /\
  MAX_SOURCE_SYMBOLS_PER_BLOCK = 56403.
Proof.
  split; [exact V0_is_rfc|]. split; [exact V1_is_rfc|]. split; [exact V2_is_rfc|].
  split; [exact V3_is_rfc|]. split; [exact TABLE2_is_rfc|]. split; [exact DEG_F_is_rfc|].
  exact (conj TUPLE_A_BASE_is_rfc (conj TUPLE_A_MUL_is_rfc (conj TUPLE_B_MUL_is_rfc
    (conj TUPLE_Y_MOD_is_rfc (conj TUPLE_V_RANGE_is_rfc (conj DEG_V_LIMIT_is_rfc MAX_K_is_rfc)))))).
Qed.

(* the primality checker used below is sound and complete *)
Theorem C15_is_prime_spec : forall n,
  is_prime n = true <-> (1 < n /\ forall d, 1 < d < n -> n mod d <> 0).
Proof. exact is_prime_spec. Qed.

(* every K <= 56403 selects a consistent set of parameters *)
Theorem C15_params : forall K, K <= 56403 ->
  exists K' J S H W P1,
    (extended_source_block_symbols K = Ok K' /\ systematic_index K = Ok J /\
     num_ldpc_symbols K = Ok S /\ num_hdpc_symbols K = Ok H /\ num_lt_symbols K = Ok W /\
     num_intermediate_symbols K = Ok (K' + S + H) /\
     num_pi_symbols K = Ok (K' + S + H - W) /\ calculate_p1 K = Ok P1) /\
    In (K', J, S, H, W) TABLE2 /\ In (K', P1) P1_TABLE /\
    K <= K' /\ (forall r, In r TABLE2 -> K <= r_k r -> K' <= r_k r) /\
    is_prime S = true /\ is_prime W = true /\ is_prime P1 = true /\
    K' + S + H - W <= P1 /\ (forall q, K' + S + H - W <= q < P1 -> is_prime q = false) /\
    1 <= W - S /\ S < W /\ 2 <= H <= K' + S + H - W /\ K' + S + H < 65536 /\ W <= K' + S.
Proof. exact c15_params. Qed.

Theorem C15_params_reject : forall K, 56403 < K -> K < 2 ^ 32 ->
  extended_source_block_symbols K = Panic PAssert /\ systematic_index K = Panic PAssert /\
  num_hdpc_symbols K = Panic PAssert /\ num_ldpc_symbols K = Panic PAssert /\
  num_lt_symbols K = Panic PAssert /\ num_intermediate_symbols K = Panic PAssert /\
  num_pi_symbols K = Panic PAssert /\ calculate_p1 K = Panic PAssert.
Proof. exact c15_params_reject. Qed.

(* the fixed code computes Tuple[K', X] of the RFC in every build mode ... *)
Theorem C15_tuple_is_rfc : forall K' J S H W P1,
  In (K', J, S, H, W) TABLE2 -> In (K', P1) P1_TABLE ->
  forall X, X < 2 ^ 32 -> forall m,
  intermediate_tuple_gen true m X W J P1 = Ok (Tuple J W P1 X).
Proof.
  intros K' J S H W P1 Hr Hp X HX m.
  apply (c15_tuple_ok true m K' J S H W P1 X Hr Hp HX). left. reflexivity.
Qed.

(* ... and so does the pinned code in builds without overflow checks *)
Theorem C15_tuple_is_rfc_release : forall K' J S H W P1,
  In (K', J, S, H, W) TABLE2 -> In (K', P1) P1_TABLE ->
  forall X, X < 2 ^ 32 ->
  intermediate_tuple_gen false Release X W J P1 = Ok (Tuple J W P1 X).
Proof.
  intros K' J S H W P1 Hr Hp X HX.
  apply (c15_tuple_ok false Release K' J S H W P1 X Hr Hp HX). right. left. reflexivity.
Qed.

Theorem C15_tuple_ranges : forall K' J S H W P1,
  In (K', J, S, H, W) TABLE2 -> In (K', P1) P1_TABLE ->
  forall X,
  let '(d, a, b, d1, a1, b1) := Tuple J W P1 X in
  1 <= d <= N.min 30 (W - 2) /\ 1 <= a < W /\ b < W /\ (d1 = 2 \/ d1 = 3) /\
  1 <= a1 < P1 /\ b1 < P1.
Proof. intros K' J S H W P1 Hr Hp X. exact (c15_tuple_ranges K' J S H W P1 X Hr Hp). Qed.

(* the pinned code with overflow checks panics exactly when y(X) + 2 or X + 5 leaves u32
   (the second disjunct is outside the reachable range X < 2^24 + K') *)
Theorem C15_pinned_overflow_iff : forall K' J S H W P1,
  In (K', J, S, H, W) TABLE2 -> In (K', P1) P1_TABLE ->
  forall X, X < 2 ^ 32 ->
  (is_ok (intermediate_tuple_gen false Checked X W J P1) = false <->
   2 ^ 32 - 2 <= Tuple_y J X \/ 2 ^ 32 - 5 <= X).
Proof. intros K' J S H W P1 Hr Hp X HX. exact (c15_pinned_overflow_iff K' J S H W P1 X Hr Hp HX). Qed.

(* on the reachable range (X < 2^24 + K' < 2^32 - 5) only `rand(y, 1, _)` / `rand(y, 2, _)` trap *)
Theorem C15_pinned_overflow_iff_reachable : forall K' J S H W P1,
  In (K', J, S, H, W) TABLE2 -> In (K', P1) P1_TABLE ->
  forall X, X < 2 ^ 32 - 5 ->
  (is_ok (intermediate_tuple_gen false Checked X W J P1) = false <-> 2 ^ 32 - 2 <= Tuple_y J X).
Proof.
  intros K' J S H W P1 Hr Hp X HX.
  assert (P32 : 2 ^ 32 - 5 < 2 ^ 32) by reflexivity.
  assert (HX32 : X < 2 ^ 32) by lia.
  rewrite (c15_pinned_overflow_iff K' J S H W P1 X Hr Hp HX32). split; [intros [H1|H1]; [exact H1 | lia] | auto].
Qed.

Theorem C15_pinned_overflow_class : forall K' J S H W P1,
  In (K', J, S, H, W) TABLE2 -> In (K', P1) P1_TABLE ->
  forall X, X < 2 ^ 32 -> 2 ^ 32 - 2 <= Tuple_y J X \/ 2 ^ 32 - 5 <= X ->
  intermediate_tuple_gen false Checked X W J P1 = Panic POverflow.
Proof. intros K' J S H W P1 Hr Hp X HX. exact (c15_pinned_overflow K' J S H W P1 X Hr Hp HX). Qed.

(* the two reachable witnesses: K' = 989 (J = 691, W = 1009, P1 = 53), repair ISI 3158229, and
   K' = 2195 (J = 858, W = 2221, P1 = 79), ISI 8192877 *)
Theorem C15_pinned_refuted :
  (In (989, 691, 59, 10, 1009) TABLE2 /\ In (989, 53) P1_TABLE /\
   intermediate_tuple_gen false Checked 3158229 1009 691 53 = Panic POverflow /\
   3158229 < 2 ^ 24 + 989) /\
  (In (2195, 858, 89, 11, 2221) TABLE2 /\ In (2195, 79) P1_TABLE /\
   intermediate_tuple_gen false Checked 8192877 2221 858 79 = Panic POverflow /\
   8192877 < 2 ^ 24 + 2195).
Proof.
  split.
  - split; [exact (in_by_nth TABLE2 118 (0, 0, 0, 0, 0) _ eq_refl eq_refl)|].
    split; [exact (in_by_nth P1_TABLE 118 (0, 0) _ eq_refl eq_refl)|].
    split; [vm_compute; reflexivity | reflexivity].
  - split; [exact (in_by_nth TABLE2 175 (0, 0, 0, 0, 0) _ eq_refl eq_refl)|].
    split; [exact (in_by_nth P1_TABLE 175 (0, 0) _ eq_refl eq_refl)|].
    split; [vm_compute; reflexivity | reflexivity].
Qed.

(* ... and there is no other among the internal symbol IDs reachable from a 24-bit ESI *)
Theorem C15_pinned_only_two : forall K' J S H W P1,
  In (K', J, S, H, W) TABLE2 -> In (K', P1) P1_TABLE ->
  forall X, X < 2 ^ 24 + K' ->
  is_ok (intermediate_tuple_gen false Checked X W J P1) = false ->
  (K' = 989 /\ X = 3158229) \/ (K' = 2195 /\ X = 8192877).
Proof. intros K' J S H W P1 Hr Hp X HX. exact (c15_pinned_only_two K' J S H W P1 X Hr Hp HX). Qed.

(* the fixed code never panics when producing a tuple, nor enc_indices when consuming it *)
Theorem C15_no_panic_fixed : forall K' J S H W P1,
  In (K', J, S, H, W) TABLE2 -> In (K', P1) P1_TABLE ->
  forall X, X < 2 ^ 32 -> forall m,
  is_ok (intermediate_tuple_gen true m X W J P1) = true /\
  is_ok (enc_indices m (Tuple J W P1 X) W (K' + S + H - W) P1) = true.
Proof. intros K' J S H W P1 Hr Hp X HX m. exact (c15_no_panic_fixed K' J S H W P1 X m Hr Hp HX). Qed.

(* enc_indices: d + d1 indices, all < L; in particular the fuel N.to_nat P1 of the two
   `while b1 >= p` loops is never exhausted (the result is Ok, not Panic PFuel) *)
Theorem C15_enc_indices_in_range : forall K' J S H W P1,
  In (K', J, S, H, W) TABLE2 -> In (K', P1) P1_TABLE ->
  forall X m,
  let '(d, a, b, d1, a1, b1) := Tuple J W P1 X in
  exists l, enc_indices m (Tuple J W P1 X) W (K' + S + H - W) P1 = Ok l /\
            length l = N.to_nat (d + d1) /\ Forall (fun i => i < K' + S + H) l.
Proof. intros K' J S H W P1 Hr Hp X m. exact (c15_enc_indices m K' J S H W P1 X Hr Hp). Qed.

(* ---- non-vacuity ---- *)

(* hypothesis set {K <= 56403}: K = 11 selects the second row *)
Example C15_example_params :
  11 <= 56403 /\
  extended_source_block_symbols 11 = Ok 12 /\ systematic_index 11 = Ok 630 /\
  num_ldpc_symbols 11 = Ok 7 /\ num_hdpc_symbols 11 = Ok 10 /\ num_lt_symbols 11 = Ok 19 /\
  num_intermediate_symbols 11 = Ok 29 /\ num_pi_symbols 11 = Ok 10 /\ calculate_p1 11 = Ok 11.
Proof. vm_compute. repeat split; intros E; discriminate E. Qed.

(* hypothesis set {56403 < K < 2^32} *)
Example C15_example_reject :
  56403 < 56404 /\ 56404 < 2 ^ 32 /\ extended_source_block_symbols 56404 = Panic PAssert.
Proof. vm_compute. repeat split. Qed.

(* hypothesis set {row, X < 2^32}: first row, X = 5; the tuple in both variants and modes *)
Example C15_example_row :
  In (10, 254, 7, 10, 17) TABLE2 /\ In (10, 11) P1_TABLE /\ 5 < 2 ^ 32 /\
  Tuple 254 17 11 5 = (2, 8, 7, 2, 3, 4) /\
  intermediate_tuple_gen true Checked 5 17 254 11 = Ok (2, 8, 7, 2, 3, 4) /\
  intermediate_tuple_gen false Checked 5 17 254 11 = Ok (2, 8, 7, 2, 3, 4) /\
  enc_indices Checked (2, 8, 7, 2, 3, 4) 17 10 11 = Ok [7; 15; 21; 24].
Proof.
  split; [left; reflexivity|]. split; [left; reflexivity|]. vm_compute. repeat split.
Qed.

(* hypothesis set {row, X < 2^24 + K', panic}: the first witness *)
Example C15_example_witness :
  3158229 < 2 ^ 24 + 989 /\ is_ok (intermediate_tuple_gen false Checked 3158229 1009 691 53) = false /\
  Tuple_y 691 3158229 = 2 ^ 32 - 1 /\
  is_ok (intermediate_tuple_gen true Checked 3158229 1009 691 53) = true.
Proof. vm_compute. repeat split. Qed.

Print Assumptions C15_tables_are_rfc.
Print Assumptions C15_is_prime_spec.
Print Assumptions C15_params.
Print Assumptions C15_params_reject.
Print Assumptions C15_tuple_is_rfc.
Print Assumptions C15_tuple_is_rfc_release.
Print Assumptions C15_tuple_ranges.
Print Assumptions C15_pinned_overflow_iff.
Print Assumptions C15_pinned_overflow_iff_reachable.
Print Assumptions C15_pinned_overflow_class.
Print Assumptions C15_pinned_refuted.
Print Assumptions C15_pinned_only_two.
Print Assumptions C15_no_panic_fixed.
Print Assumptions C15_enc_indices_in_range.
