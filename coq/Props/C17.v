(* C17 -- The process-wide encoding-plan cache (src/encoder.rs) is transparent and bounded under
   every interleaving of any number of threads.
   A schedule is an arbitrary list of atomic steps (Lookup t k = first critical section,
   Generate t = unlocked plan generation, Insert t = second critical section) of arbitrary
   threads, and Abort t = the request of thread t dies between its critical sections -- a panic in the
   unlocked generation, e.g. a symbol count the library refuses); the Mutex makes every execution of the
   Rust code one such schedule.  Plan generation
   is an arbitrary function [gen] of the symbol count.  Since every plan handed out for k is
   [gen k] (C17_transparent), the encoder built from it is the one a single thread builds without
   caching, which uses [gen k] too.
   Only pinned statements, each closed by lemmas of Proofs/CacheProofs.v. *)
From Coq Require Import NArith List Bool Arith Lia.
From RQ Require Import Gen.Consts Model.Cache Proofs.CacheProofs.
Import ListNotations.
Open Scope N_scope.

Section C17.
  Variable plan : Type.
  Variable gen : N -> plan.
  Variable capacity : nat.
  Hypothesis cap_pos : (0 < capacity)%nat.

  Local Notation run := (Cache.run gen capacity).
  Local Notation exec := (Cache.exec gen capacity).
  Local Notation Inv := (CacheProofs.Inv gen capacity).

  (* what Inv says *)
  Theorem C17_Inv_def : forall st, Inv st <->
    (length (plans st) <= capacity)%nat /\
    NoDup (order st) /\
    NoDup (map fst (plans st)) /\
    (forall k, In k (order st) <-> In k (map fst (plans st))) /\
    length (order st) = length (plans st) /\
    (forall k p, In (k, p) (plans st) -> p = gen k) /\
    (forall t k p, get_pc t (threads st) = Generated k p -> p = gen k).
  Proof. intros st. reflexivity. Qed.

  Theorem C17_invariant : forall (schedule : list step), Inv (fst (run schedule init)).
  Proof. exact (invariant_reachable plan gen capacity cap_pos). Qed.

  (* every plan handed to a request for k is gen k *)
  Theorem C17_transparent : forall schedule t k p,
    In (Ret t k p) (snd (run schedule init)) -> p = gen k.
  Proof. exact (transparent plan gen capacity cap_pos). Qed.

  (* an Insert of a fresh key into a full cache evicts exactly the oldest inserted key *)
  Theorem C17_fifo_eviction : forall st t k p e rest,
    Inv st ->
    get_pc t (threads st) = Generated k p ->
    assoc_get k (plans st) = None ->
    length (plans st) = capacity ->
    order st = e :: rest ->
    let st' := fst (exec (Insert t) st) in
    order st' = rest ++ [k] /\
    plans st' = assoc_remove e (plans st) ++ [(k, p)] /\
    assoc_get e (plans st') = None /\
    assoc_get k (plans st') = Some p /\
    (forall k', k' <> e -> k' <> k -> assoc_get k' (plans st') = assoc_get k' (plans st)) /\
    length (plans st') = capacity.
  Proof. exact (fifo_eviction plan gen capacity cap_pos). Qed.

  (* ... and below capacity nothing leaves *)
  Theorem C17_no_eviction_below_capacity : forall st t k p,
    get_pc t (threads st) = Generated k p ->
    assoc_get k (plans st) = None ->
    (length (plans st) < capacity)%nat ->
    let st' := fst (exec (Insert t) st) in
    order st' = order st ++ [k] /\ plans st' = plans st ++ [(k, p)].
  Proof. exact (no_eviction_below_capacity plan gen capacity). Qed.

  (* a request of thread t issued in any reachable state, with arbitrary steps of other threads
     interleaved between its three steps, returns exactly once, with gen k *)
  Theorem C17_request_completes : forall pre t k s1 s2,
    let st := fst (run pre init) in
    get_pc t (threads st) = Idle ->
    Forall (fun s => step_thread s <> t) s1 ->
    Forall (fun s => step_thread s <> t) s2 ->
    let r := run ([Lookup t k] ++ s1 ++ [Generate t] ++ s2 ++ [Insert t]) st in
    rets_of t (snd r) = [Ret t k (gen k)] /\ get_pc t (threads (fst r)) = Idle.
  Proof.
    intros pre t k s1 s2 st. apply (request_completes plan gen capacity cap_pos).
    exact (invariant_reachable plan gen capacity cap_pos pre).
  Qed.

  (* a request that dies between its critical sections (Abort) changes nothing for anybody else: the cache
     keeps its contents and order, nothing is returned, every other thread keeps its program counter, and
     the dead request's thread is Idle again.  With C17_invariant / C17_transparent / C17_request_completes
     (whose schedules and interleaved steps s1, s2 range over Abort steps too) this is: a refused or crashed
     request never disturbs the others. *)
  Theorem C17_abort_harmless : forall st t,
    let st' := fst (exec (Abort t) st) in
    plans st' = plans st /\ order st' = order st /\
    snd (exec (Abort t) st) = [] /\
    get_pc t (threads st') = Idle /\
    (forall t', t' <> t -> get_pc t' (threads st') = get_pc t' (threads st)).
  Proof. exact (abort_harmless plan gen capacity). Qed.
End C17.

(* instantiation with the crate's constant *)
Theorem C17_invariant_64 : forall (plan : Type) (gen : N -> plan) (schedule : list step),
  Inv gen (N.to_nat PLAN_CACHE_CAPACITY)
      (fst (run gen (N.to_nat PLAN_CACHE_CAPACITY) schedule init)).
Proof.
  intros plan gen. apply C17_invariant.
  change (N.to_nat PLAN_CACHE_CAPACITY) with 64%nat. lia.
Qed.

Theorem C17_bound : forall (plan : Type) (gen : N -> plan) (schedule : list step),
  (length (plans (fst (run gen (N.to_nat PLAN_CACHE_CAPACITY) schedule init))) <= 64)%nat.
Proof. intros plan gen schedule. exact (proj1 (C17_invariant_64 plan gen schedule)). Qed.

(* ---------- non-vacuity (plan := N, gen k := 1000 + k) ---------- *)
Definition ex_gen (k : N) : N := 1000 + k.

(* (a) two threads miss the same key concurrently: both get gen k, the cache holds k once *)
Example C17_example_concurrent_miss :
  run ex_gen 64 [Lookup 0 5; Lookup 1 5; Generate 0; Generate 1; Insert 0; Insert 1] init
  = (mkSys [(5, 1005)] [5] [(0%nat, Idle); (1%nat, Idle)], [Ret 0 5 1005; Ret 1 5 1005]).
Proof. vm_compute. reflexivity. Qed.

(* (b) one thread requests 70 distinct keys, capacity 64: the last 64 remain, in order *)
Definition ex_keys (from n : nat) : list N := map N.of_nat (seq from n).
Definition ex_sched70 : list step := flat_map (request 0) (ex_keys 1 70).

Example C17_example_70_keys :
  let st := fst (run ex_gen (N.to_nat PLAN_CACHE_CAPACITY) ex_sched70 init) in
  order st = ex_keys 7 64 /\
  plans st = map (fun k => (k, ex_gen k)) (ex_keys 7 64) /\
  length (plans st) = 64%nat /\
  snd (run ex_gen (N.to_nat PLAN_CACHE_CAPACITY) ex_sched70 init)
    = map (fun k => Ret 0 k (ex_gen k)) (ex_keys 1 70).
Proof. vm_compute. repeat split; reflexivity. Qed.

(* (c) a re-request of the evicted key 1 misses, regenerates it, and evicts key 7 *)
Example C17_example_rerequest_evicted :
  let cap := N.to_nat PLAN_CACHE_CAPACITY in
  let st := fst (run ex_gen cap ex_sched70 init) in
  assoc_get 1 (plans st) = None /\
  get_pc 0 (threads (fst (run ex_gen cap [Lookup 0 1] st))) = Missed 1 /\
  snd (run ex_gen cap (request 0 1) st) = [Ret 0 1 1001] /\
  order (fst (run ex_gen cap (request 0 1) st)) = ex_keys 8 63 ++ [1] /\
  assoc_get 7 (plans (fst (run ex_gen cap (request 0 1) st))) = None /\
  snd (run ex_gen cap (request 0 70) st) = [Ret 0 70 1070].
Proof. vm_compute. repeat split; reflexivity. Qed.

(* (d) thread 0's request for 60000 dies after its miss (the generation panics); thread 1, which missed the same
   key concurrently, and thread 2 are served as if nothing had happened; thread 0 can ask again *)
Example C17_example_abort :
  run ex_gen 64 [Lookup 0 60000; Lookup 1 5; Abort 0; Generate 1; Lookup 2 5; Insert 1; Generate 2; Insert 2;
                 Lookup 0 5] init
  = (mkSys [(5, 1005)] [5] [(0%nat, Idle); (1%nat, Idle); (2%nat, Idle)], [Ret 1 5 1005; Ret 2 5 1005; Ret 0 5 1005]).
Proof. vm_compute. reflexivity. Qed.

(* hypotheses of C17_fifo_eviction are satisfiable: capacity 2, full cache, fresh key *)
Example C17_example_fifo_hyps :
  let st := fst (run ex_gen 2 (request 0 10 ++ request 0 20 ++ [Lookup 1 30; Generate 1]) init) in
  get_pc 1 (threads st) = Generated 30 1030 /\ assoc_get 30 (plans st) = None /\
  length (plans st) = 2%nat /\ order st = [10; 20] /\
  order (fst (exec ex_gen 2 (Insert 1) st)) = [20; 30].
Proof. vm_compute. repeat split; reflexivity. Qed.

(* the differential-test entry point on a small run (capacity 2) *)
Example C17_example_trace :
  cache_trace 2 [(0, 0, 9); (1, 0, 9); (0, 1, 0); (1, 1, 0); (0, 2, 0); (1, 2, 0);
                 (0, 0, 4); (0, 1, 0); (0, 2, 0); (0, 0, 2); (0, 1, 0); (0, 2, 0); (0, 0, 4)]
  = [[0; 0; 0; 0]; [0; 0; 0; 0]; [0; 0; 0; 0]; [0; 0; 0; 0];
     [1; 9; 1; 9; 1; 9]; [1; 9; 1; 9; 1; 9];
     [0; 0; 1; 9; 1; 9]; [0; 0; 1; 9; 1; 9]; [1; 4; 2; 9; 4; 2; 4; 9];
     [0; 0; 2; 9; 4; 2; 4; 9]; [0; 0; 2; 9; 4; 2; 4; 9]; [1; 2; 2; 4; 2; 2; 2; 4];
     [1; 4; 2; 4; 2; 2; 2; 4]].
Proof. vm_compute. reflexivity. Qed.

Print Assumptions C17_Inv_def.
Print Assumptions C17_invariant.
Print Assumptions C17_invariant_64.
Print Assumptions C17_transparent.
Print Assumptions C17_bound.
Print Assumptions C17_fifo_eviction.
Print Assumptions C17_no_eviction_below_capacity.
Print Assumptions C17_request_completes.
Print Assumptions C17_abort_harmless.
