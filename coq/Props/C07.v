(* C07 -- results depend only on the inputs, not on build, CPU, back-end or caching.
   The ALGORITHMIC independence is proved here as corollaries of the uniqueness theorems; independence
   of the actual builds (release / debug, std / no_std) and of the CPU is validated by cross-build
   correspondence runs (driver/props/C07.py) -- see MANIFEST: partial. *)
From Coq Require Import NArith List Bool Lia.
From RQ Require Import Base.Outcome Base.Ints Base.Vec Spec.Linear Spec.Bits Model.FieldFast Model.CMatrix Model.Layout
  Model.Encoder Model.CertRun Model.Kernels Model.Tuple
  Model.Slab Model.DecoderPi Model.Decoder Model.DecoderSpec Proofs.LinearInst Proofs.BuildMode Proofs.BuildModeDec Props.C06 Props.C11 Props.C15.
Import ListNotations.
Open Scope N_scope.

(* Any two successful solves of one system -- whatever back-end, threshold, pivoting order or plan origin
   produced their operation lists -- read out the same symbols. *)
Theorem C07_two_certificates_same_symbols : forall T L A ops1 order1 ops2 order2 C D,
  check_cert fmul L A ops1 order1 = true -> check_cert fmul L A ops2 order2 = true ->
  wf_mat L A -> wf_mat T C -> length C = L -> solves fmul T A C D ->
  read_out order1 (apply_ops fmul ops1 D) = read_out order2 (apply_ops fmul ops2 D).
Proof.
  intros T L A ops1 order1 ops2 order2 C D H1 H2 HA HC HL HS.
  rewrite (cert_sound_unique_gf T L A ops1 order1 C D H1 HA HC HL HS).
  rewrite (cert_sound_unique_gf T L A ops2 order2 C D H2 HA HC HL HS). reflexivity.
Qed.

(* Whether a solve can succeed at all is a property of the system (injectivity), not of the solver run:
   a certificate from any back-end implies that the reference elimination succeeds too. *)
Theorem C07_success_is_backend_independent : forall T L A ops order D,
  check_cert fmul L A ops order = true -> wf_mat L A ->
  gauss_solve fmul finv T L A D <> None.
Proof.
  intros T L A ops order D H HA.
  apply gauss_solve_some_iff_gf. apply gauss_rank_full_iff_injective_gf; [exact HA|].
  exact (cert_injective_gf L A ops order H HA).
Qed.

(* plan origin: replaying a certified plan and solving directly give the same intermediate symbols *)
Theorem C07_plan_origin_irrelevant : forall K v sp A,
  cert_ok K v = true -> sys_params K = Ok sp -> enc_matrix K = Ok A ->
  forall T syms, lenN syms = K -> wf_mat T syms ->
  forall m1 m2, gen_intermediate_symbols m1 syms T = gen_intermediate_symbols m2 syms T /\
                gen_intermediate_symbols m1 syms T = Ok (plan_solution v (create_d sp syms T)).
Proof.
  intros K v sp A Hc Hs Ha T syms Hl Hw m1 m2.
  rewrite (C06_direct_equals_replay K v sp A Hc Hs Ha T syms Hl Hw m1).
  rewrite (C06_direct_equals_replay K v sp A Hc Hs Ha T syms Hl Hw m2). split; reflexivity.
Qed.

(* build mode: the constraint matrix and the tuples do not depend on overflow checking *)
Theorem C07_matrix_mode_irrelevant : forall m K isis, Forall (fun x => x < 2 ^ 32) isis ->
  generate_constraint_matrix m K isis = generate_constraint_matrix Release K isis.
Proof. exact C06_matrix_mode_irrelevant. Qed.

(* build mode, encoder: the intermediate symbols of a block do not depend on the build -- the reference model is
   mode-independent, and the model that runs the REAL five-phase solver (debug variant: X matrix, full-row
   eliminations, overflow checks; release variant: the errata-11 shortcuts) plus the operation replay yields the
   same symbols in both variants, whenever the block is encodable at all *)
Theorem C07_encoder_reference_mode_irrelevant : forall m syms T,
  gen_intermediate_symbols m syms T = gen_intermediate_symbols Release syms T.
Proof. exact gen_intermediate_symbols_mode. Qed.

Theorem C07_encoder_build_mode_irrelevant : forall m1 m2 syms T C, wf_mat T syms ->
  gen_intermediate_symbols m1 syms T = Ok C ->
  gen_intermediate_symbols_pi m1 syms T = Ok C /\ gen_intermediate_symbols_pi m2 syms T = Ok C.
Proof. exact encoder_build_mode_irrelevant. Qed.

(* build mode, decoder: for every state the packet loop can reach, the constraint matrix built for the received set
   and WHETHER the block decoder answers are the same in both build variants (C02_decodes_iff holds for every mode
   and the matrix is mode-independent); what it answers is the block in both (C01u / C01s, for every mode) *)
Theorem C07_decoder_matrix_mode_irrelevant : forall m d,
  sbd_inv d -> sized d -> sbd_K d <= 56403 -> A_of m d = A_of Release d.
Proof. exact A_of_mode. Qed.

Theorem C07_decodability_build_mode_irrelevant : forall m1 m2 d,
  sbd_inv d -> sized d -> cfg_sub_ok (sbd_cfg d) -> sbd_K d <= 56403 ->
  ~ all_source d -> sbd_K d <= Layout.lenN (sbd_esis d) ->
  ((exists r d', sbd_try m1 d = Ok (Some r, d')) <-> (exists r d', sbd_try m2 d = Ok (Some r, d'))).
Proof. exact decodability_mode. Qed.

(* CPU: every dispatch path computes the same function as the portable kernels *)
Theorem C07_kernel_dispatch_irrelevant : forall (m : mode) (c : cpu),
  (forall dest src, bytes dest -> bytes src ->
     add_assign c dest src = add_assign_fallback dest src) /\
  (forall dest s, s < 256 -> bytes dest ->
     mulassign_scalar c dest s = mulassign_scalar_fallback dest s).
Proof.
  intros m c. destruct (C11_dispatch_irrelevant m c) as [H1 [H2 _]]. split; assumption.
Qed.

Print Assumptions C07_two_certificates_same_symbols.
Print Assumptions C07_success_is_backend_independent.
Print Assumptions C07_plan_origin_irrelevant.
Print Assumptions C07_matrix_mode_irrelevant.
Print Assumptions C07_kernel_dispatch_irrelevant.
Print Assumptions C07_encoder_reference_mode_irrelevant.
Print Assumptions C07_encoder_build_mode_irrelevant.
Print Assumptions C07_decoder_matrix_mode_irrelevant.
Print Assumptions C07_decodability_build_mode_irrelevant.
