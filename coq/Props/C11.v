(* C11 -- the in-place slice operations dest ^= src, dest *= c, dest ^= c*src, dest ^= c*bits give
   exactly the element-wise GF(256) result, for every length, scalar, content and instruction-set
   path (AVX-512, AVX2, SSSE3, portable), and the run-time dispatch does not matter.
   Only pinned statements, each closed by lemmas of Proofs/Kernels*.v. *)
From Coq Require Import NArith List Bool Arith.
From RQ Require Import Base.Outcome Base.Ints Base.ListX Base.Vec Spec.Bits Model.Octet Model.Kernels
  Proofs.OctetProofs Proofs.VecLemmas Proofs.KernelsProofs Proofs.KernelsMulProofs
  Proofs.KernelsBinProofs Proofs.KernelsDispatch.
Import ListNotations.
Open Scope N_scope.

(* ---- dest ^= src ---- *)
Theorem C11_add_assign_avx512 : forall dest src, length dest = length src -> bytes dest -> bytes src ->
  add_assign_avx512 dest src = Ok (map2 N.lxor dest src).
Proof. exact add_assign_avx512_ok. Qed.
Theorem C11_add_assign_avx2 : forall dest src, length dest = length src -> bytes dest -> bytes src ->
  add_assign_avx2 dest src = Ok (map2 N.lxor dest src).
Proof. exact add_assign_avx2_ok. Qed.
Theorem C11_add_assign_ssse3 : forall dest src, length dest = length src -> bytes dest -> bytes src ->
  add_assign_ssse3 dest src = Ok (map2 N.lxor dest src).
Proof. exact add_assign_ssse3_ok. Qed.
Theorem C11_add_assign_fallback : forall dest src, length dest = length src -> bytes dest -> bytes src ->
  add_assign_fallback dest src = Ok (map2 N.lxor dest src).
Proof. exact add_assign_fallback_ok. Qed.
Theorem C11_add_assign_len_mismatch : forall w dest src, length dest <> length src ->
  add_assign_simd w dest src = Panic PAssert /\ add_assign_fallback dest src = Panic PAssert.
Proof. exact add_assign_len_mismatch. Qed.

(* ---- dest *= c ---- *)
Theorem C11_mulassign_avx512 : forall dest c, c < 256 -> bytes dest ->
  mulassign_scalar_avx512 dest c = Ok (map (mulN c) dest).
Proof. exact mulassign_scalar_avx512_ok. Qed.
Theorem C11_mulassign_avx2 : forall dest c, c < 256 -> bytes dest ->
  mulassign_scalar_avx2 dest c = Ok (map (mulN c) dest).
Proof. exact mulassign_scalar_avx2_ok. Qed.
Theorem C11_mulassign_ssse3 : forall dest c, c < 256 -> bytes dest ->
  mulassign_scalar_ssse3 dest c = Ok (map (mulN c) dest).
Proof. exact mulassign_scalar_ssse3_ok. Qed.
Theorem C11_mulassign_fallback : forall dest c, c < 256 -> bytes dest ->
  mulassign_scalar_fallback dest c = Ok (map (mulN c) dest).
Proof. exact mulassign_scalar_fallback_ok. Qed.

(* ---- dest ^= c * src ---- *)
Theorem C11_fma_avx512 : forall dest src c, c < 256 -> length dest = length src -> bytes src ->
  fused_addassign_mul_scalar_avx512 dest src c = Ok (map2 (fun d s => N.lxor d (mulN c s)) dest src).
Proof. exact fused_addassign_mul_scalar_avx512_ok. Qed.
Theorem C11_fma_avx2 : forall dest src c, c < 256 -> length dest = length src -> bytes src ->
  fused_addassign_mul_scalar_avx2 dest src c = Ok (map2 (fun d s => N.lxor d (mulN c s)) dest src).
Proof. exact fused_addassign_mul_scalar_avx2_ok. Qed.
Theorem C11_fma_ssse3 : forall dest src c, c < 256 -> length dest = length src -> bytes src ->
  fused_addassign_mul_scalar_ssse3 dest src c = Ok (map2 (fun d s => N.lxor d (mulN c s)) dest src).
Proof. exact fused_addassign_mul_scalar_ssse3_ok. Qed.
Theorem C11_fma_fallback : forall dest src c, c < 256 -> length dest = length src -> bytes src ->
  fused_addassign_mul_scalar_fallback dest src c = Ok (map2 (fun d s => N.lxor d (mulN c s)) dest src).
Proof. exact fused_addassign_mul_scalar_fallback_ok. Qed.

(* ---- dest ^= c * bits (bits from a packed BinaryOctetVec) ---- *)
Theorem C11_to_octet_vec : forall bits, wf_bvec bits -> to_octet_vec bits = Ok (to_bits bits).
Proof. exact to_octet_vec_ok. Qed.
Theorem C11_fma_binary_avx512 : forall dest bits c, c < 256 -> wf_bvec bits ->
  length dest = N.to_nat (snd bits) ->
  fused_addassign_mul_scalar_binary_avx512 dest bits c
  = Ok (map2 (fun d b => N.lxor d (mulN c b)) dest (to_bits bits)).
Proof. exact fused_addassign_mul_scalar_binary_avx512_ok. Qed.
(* the AVX2 kernel is only ever entered with a non-empty slice (see C11_fma_binary_avx2_empty) *)
Theorem C11_fma_binary_avx2 : forall dest bits c, c < 256 -> wf_bvec bits ->
  length dest = N.to_nat (snd bits) -> (0 < length dest)%nat ->
  fused_addassign_mul_scalar_binary_avx2 dest bits c
  = Ok (map2 (fun d b => N.lxor d (mulN c b)) dest (to_bits bits)).
Proof. exact fused_addassign_mul_scalar_binary_avx2_ok. Qed.
Theorem C11_fma_binary_avx2_empty : forall c,
  fused_addassign_mul_scalar_binary_avx2 [] ([], 0) c = Panic PIndex.
Proof. exact fused_addassign_mul_scalar_binary_avx2_empty. Qed.
Theorem C11_fma_binary_generic : forall m cpu dest bits c, c < 256 -> wf_bvec bits ->
  length dest = N.to_nat (snd bits) -> bytes dest -> debug_ne m c 0 ->
  fused_addassign_mul_scalar_binary_generic m cpu dest bits c
  = Ok (map2 (fun d b => N.lxor d (mulN c b)) dest (to_bits bits)).
Proof. exact fused_addassign_mul_scalar_binary_generic_ok. Qed.
Theorem C11_fma_binary : forall m cpu dest bits c, c < 256 -> wf_bvec bits ->
  N.of_nat (length dest) = snd bits -> bytes dest -> debug_ne m c 0 ->
  fused_addassign_mul_scalar_binary m cpu dest bits c
  = Ok (map2 (fun d b => N.lxor d (mulN c b)) dest (to_bits bits)).
Proof. exact fused_addassign_mul_scalar_binary_ok. Qed.

(* ---- key lemmas ---- *)
(* nibble split, on the two 16-entry tables every pshufb lane sees (TLf / THf read
   OCTET_MUL_LOW_BITS / OCTET_MUL_HI_BITS), including the duplicated upper halves *)
Theorem C11_nibble_split : forall c x, c < 256 -> x < 256 ->
  N.lxor (THf c (N.to_nat (N.shiftr x 4))) (TLf c (N.to_nat (N.land x 15))) = mulN c x.
Proof. exact nibble_split. Qed.
Theorem C11_table_halves : forall c j, c < 256 -> (j < 16)%nat ->
  TLf c (16 + j) = TLf c j /\ THf c (16 + j) = THf c j.
Proof. intros c j Hc Hj. split; [exact (TLf_dup c j Hc Hj) | exact (THf_dup c j Hc Hj)]. Qed.
Theorem C11_lane_tables : forall c, c < 256 ->
  (exists tl th, load_low_table 16 c = Ok tl /\ load_hi_table 16 c = Ok th /\
                 lane_table 1 tl (TLf c) /\ lane_table 1 th (THf c)) /\
  (exists tl th, load_low_table 32 c = Ok tl /\ load_hi_table 32 c = Ok th /\
                 lane_table 2 tl (TLf c) /\ lane_table 2 th (THf c)) /\
  (exists tl th, load_low_table 16 c = Ok tl /\ load_hi_table 16 c = Ok th /\
                 lane_table 4 (v_broadcast128 64 tl) (TLf c) /\ lane_table 4 (v_broadcast128 64 th) (THf c)).
Proof.
  intros c Hc. split; [exact (load_tables_16 c Hc)|]. split; [exact (load_tables_32 c Hc) | exact (load_tables_bcast c Hc)].
Qed.
Theorem C11_shuffle : forall lanes t x (T : nat -> N),
  length x = (16 * lanes)%nat -> Forall (fun v => v < 16) x -> lane_table lanes t T ->
  v_shuffle_epi8 lanes t x = map (fun xj => T (N.to_nat xj)) x.
Proof. exact shuffle_ok. Qed.
(* srli_epi64 by 4 then and 0x0F (AVX-512), and 0xF0 then srli_epi64 by 4 (AVX2, SSSE3): per-byte >> 4 *)
Theorem C11_srli4_and15 : forall q x, length x = (8 * q)%nat -> bytes x ->
  v_and (v_srli_epi64 q 4 x) (v_set1_epi8 (8 * q) 15) = map (fun b => N.shiftr b 4) x.
Proof.
  intros q x HL Hb. unfold v_and, v_set1_epi8.
  rewrite map2_repeat_r by (rewrite srli_length; apply le_n). exact (srli4_and15 q x HL Hb).
Qed.
Theorem C11_and240_srli4 : forall q x, length x = (8 * q)%nat -> bytes x ->
  v_srli_epi64 q 4 (v_and x (v_set1_epi8 (8 * q) 240)) = map (fun b => N.shiftr b 4) x.
Proof.
  intros q x HL Hb. unfold v_and, v_set1_epi8.
  rewrite map2_repeat_r by (rewrite HL; apply le_n). exact (mask240_srli4 q x HL Hb).
Qed.
Theorem C11_mulvec : forall c tl th v, c < 256 -> bytes v ->
  (length v = 64%nat -> lane_table 4 tl (TLf c) -> lane_table 4 th (THf c) -> mulvec_avx512 tl th v = map (mulN c) v) /\
  (length v = 32%nat -> lane_table 2 tl (TLf c) -> lane_table 2 th (THf c) -> mulvec_avx2 tl th v = map (mulN c) v) /\
  (length v = 16%nat -> lane_table 1 tl (TLf c) -> lane_table 1 th (THf c) -> mulvec_ssse3 tl th v = map (mulN c) v).
Proof.
  intros c tl th v Hc Hb. repeat split; intros HL H1 H2.
  - exact (mulvec_avx512_ok c tl th v Hc HL Hb H1 H2).
  - exact (mulvec_avx2_ok c tl th v Hc HL Hb H1 H2).
  - exact (mulvec_ssse3_ok c tl th v Hc HL Hb H1 H2).
Qed.
(* the unaligned u64 xor of the tail loops is the byte-wise xor *)
Theorem C11_u64_xor : forall a b, length a = 8%nat -> length b = 8%nat -> bytes a -> bytes b ->
  le_bytes 8 (N.lxor (le_val a) (le_val b)) = map2 N.lxor a b.
Proof. exact u64_xor_bytes. Qed.
(* BinaryOctetVec layout: padding + length fills the words exactly; u32 / u64 views *)
Theorem C11_layout : forall bits, wf_bvec bits ->
  (N.to_nat (padding_bits bits) + N.to_nat (snd bits) = 64 * length (fst bits))%nat.
Proof. exact layout_total. Qed.
Theorem C11_word_views : forall els k j,
  ((j < 32)%nat -> N.testbit (nth k (u32_view els) 0) (N.of_nat j) = gtest els (32 * k + j)) /\
  ((j < 64)%nat -> N.testbit (nth k els 0) (N.of_nat j) = gtest els (64 * k + j)).
Proof. intros els k j. split; [exact (u32_view_bit els k j) | exact (u64_view_bit els k j)]. Qed.
Theorem C11_unpack_avx2 : forall w c, c < 256 ->
  v_and (v_cmpeq_epi8 (v_andnot (v_shuffle_epi8 2 (v_set1_epi32 32 w)
           (v_set_epi64x 0x0303030303030303 0x0202020202020202 0x0101010101010101 0))
           (v_set1_epi64x 32 0x8040201008040201)) (v_setzero 32)) (v_set1_epi8 32 c)
  = map (fun j => if N.testbit w (N.of_nat j) then c else 0) (seq 0 32).
Proof. exact avx2_unpack. Qed.
Theorem C11_unpack_avx512 : forall k c,
  v_maskz_mov_epi8 k (v_set1_epi8 64 c) = map (fun j => if N.testbit k (N.of_nat j) then c else 0) (seq 0 64).
Proof. exact avx512_unpack. Qed.
(* remaining mod w = 0 after the binary head, the head fits, the word index after it is exact *)
Theorem C11_binary_head_aligned : forall bits w, wf_bvec bits -> (w = 32 \/ w = 64)%nat ->
  let b := (N.to_nat (padding_bits bits) mod w)%nat in
  let head := if (0 <? b)%nat then (w - b)%nat else O in
  (head <= N.to_nat (snd bits))%nat /\ ((N.to_nat (snd bits) - head) mod w = 0)%nat /\
  (w * (if (0 <? b)%nat then N.to_nat (padding_bits bits) / w + 1 else N.to_nat (padding_bits bits) / w)
   = N.to_nat (padding_bits bits) + head)%nat.
Proof. exact binary_head_aligned. Qed.

(* ---- the dispatch does not matter ---- *)
Theorem C11_dispatch_irrelevant : forall (m : mode) (cpu : cpu),
  (forall dest src, bytes dest -> bytes src ->
     add_assign cpu dest src = add_assign_fallback dest src) /\
  (forall dest c, c < 256 -> bytes dest ->
     mulassign_scalar cpu dest c = mulassign_scalar_fallback dest c) /\
  (forall dest src c, c < 256 -> length dest = length src -> bytes src ->
     debug_ne m c 1 -> debug_ne m c 0 ->
     fused_addassign_mul_scalar m cpu dest src c = fused_addassign_mul_scalar_fallback dest src c) /\
  (forall dest bits c, c < 256 -> wf_bvec bits -> N.of_nat (length dest) = snd bits -> bytes dest ->
     debug_ne m c 0 ->
     fused_addassign_mul_scalar_binary m cpu dest bits c
     = fused_addassign_mul_scalar_binary_generic m [] dest bits c).
Proof.
  intros m cpu. split; [exact (add_assign_dispatch cpu)|]. split; [exact (mulassign_scalar_dispatch cpu)|].
  split; [exact (fused_addassign_mul_scalar_dispatch m cpu) | exact (fused_addassign_mul_scalar_binary_dispatch m cpu)].
Qed.
Theorem C11_dispatch_len_mismatch : forall m cpu dest src bits c,
  debug_ne m c 1 -> debug_ne m c 0 ->
  (length dest <> length src -> fused_addassign_mul_scalar m cpu dest src c = Panic PAssert) /\
  (N.of_nat (length dest) <> snd bits -> fused_addassign_mul_scalar_binary m cpu dest bits c = Panic PAssert).
Proof.
  intros m cpu dest src bits c D1 D0. split; intros H.
  - exact (fused_addassign_mul_scalar_len_mismatch m cpu dest src c H D1 D0).
  - exact (fused_addassign_mul_scalar_binary_len_mismatch m cpu dest bits c H D0).
Qed.

(* ---- non-vacuity: concrete buffers of lengths 0 1 15 16 17 31 33 63 64 65 130 ---- *)
Fixpoint ex_bytes (n : nat) (s : N) : list N :=
  match n with
  | O => []
  | S k => let s' := (s * 1103515245 + 12345) mod 2147483648 in (s' / 65536) mod 256 :: ex_bytes k s'
  end.
Fixpoint ex_words (n : nat) (s : N) : list N :=
  match n with
  | O => []
  | S k => let s' := (s * 6364136223846793005 + 1442695040888963407) mod 2 ^ 64 in
           (if s' mod 3 =? 0 then 0 else s') :: ex_words k s'
  end.
Definition ex_bvec (n : nat) (s : N) : bvec :=
  (ex_words (N.to_nat (ceil_div (N.of_nat n) 64)) s, N.of_nat n).
Definition ex_lens : list nat := [0; 1; 15; 16; 17; 31; 33; 63; 64; 65; 130]%nat.
Definition ex_scalars : list N := [0; 1; 2; 87; 255].
Definition list_eqb (a b : list N) : bool :=
  (length a =? length b)%nat && forallb (fun p => fst p =? snd p) (combine a b).
Definition is (x : outcome (list N)) (l : list N) : bool :=
  match x with Ok v => list_eqb v l | Panic _ => false end.
Definition wf_bvecb (bv : bvec) : bool :=
  (length (fst bv) =? N.to_nat (ceil_div (snd bv) 64))%nat && forallb (fun w => w <? 2 ^ 64) (fst bv).

Example C11_example_add :
  forallb (fun n => let d := ex_bytes n 1 in let s := ex_bytes n 7 in
     bytesb d && bytesb s && (length d =? length s)%nat &&
     is (add_assign_avx512 d s) (map2 N.lxor d s) && is (add_assign_avx2 d s) (map2 N.lxor d s) &&
     is (add_assign_ssse3 d s) (map2 N.lxor d s) && is (add_assign_fallback d s) (map2 N.lxor d s))
    ex_lens = true.
Proof. vm_compute. reflexivity. Qed.

Example C11_example_mul :
  forallb (fun n => forallb (fun c => let d := ex_bytes n (3 + c) in
     bytesb d && (c <? 256) &&
     is (mulassign_scalar_avx512 d c) (map (mulN c) d) && is (mulassign_scalar_avx2 d c) (map (mulN c) d) &&
     is (mulassign_scalar_ssse3 d c) (map (mulN c) d) && is (mulassign_scalar_fallback d c) (map (mulN c) d))
    ex_scalars) ex_lens = true.
Proof. vm_compute. reflexivity. Qed.

Example C11_example_fma :
  forallb (fun n => forallb (fun c => let d := ex_bytes n (3 + c) in let s := ex_bytes n (11 + c) in
     let r := map2 (fun a b => N.lxor a (mulN c b)) d s in
     bytesb s && (c <? 256) && (length d =? length s)%nat &&
     is (fused_addassign_mul_scalar_avx512 d s c) r && is (fused_addassign_mul_scalar_avx2 d s c) r &&
     is (fused_addassign_mul_scalar_ssse3 d s c) r && is (fused_addassign_mul_scalar_fallback d s c) r)
    ex_scalars) ex_lens = true.
Proof. vm_compute. reflexivity. Qed.

Example C11_example_fma_binary :
  forallb (fun n => forallb (fun c => let d := ex_bytes n (3 + c) in let bv := ex_bvec n (5 + c) in
     let r := map2 (fun a b => N.lxor a (mulN c b)) d (to_bits bv) in
     wf_bvecb bv && bytesb d && (N.of_nat (length d) =? snd bv) &&
     is (to_octet_vec bv) (to_bits bv) &&
     is (fused_addassign_mul_scalar_binary_avx512 d bv c) r &&
     ((length d =? 0)%nat || is (fused_addassign_mul_scalar_binary_avx2 d bv c) r) &&
     is (fused_addassign_mul_scalar_binary_generic Release [] d bv c) r &&
     is (fused_addassign_mul_scalar_binary Release [AVX2; BMI1; SSSE3] d bv c) r &&
     is (fused_addassign_mul_scalar_binary Release [AVX512F; AVX512BW; AVX2; BMI1; SSSE3] d bv c) r)
    ex_scalars) ex_lens = true.
Proof. vm_compute. reflexivity. Qed.

Example C11_example_dispatch :
  forallb (fun cpu => forallb (fun n =>
     let d := ex_bytes n 5 in let s := ex_bytes n 9 in
     is (add_assign cpu d s) (map2 N.lxor d s) && is (mulassign_scalar cpu d 87) (map (mulN 87) d) &&
     is (fused_addassign_mul_scalar Checked cpu d s 87) (map2 (fun a b => N.lxor a (mulN 87 b)) d s))
    ex_lens) [[]; [SSSE3]; [AVX2; SSSE3]; [AVX512F; AVX2]; [AVX512F; AVX512BW; AVX2; BMI1; SSSE3]] = true.
Proof. vm_compute. reflexivity. Qed.

Print Assumptions C11_add_assign_avx512.
Print Assumptions C11_add_assign_avx2.
Print Assumptions C11_add_assign_ssse3.
Print Assumptions C11_add_assign_fallback.
Print Assumptions C11_add_assign_len_mismatch.
Print Assumptions C11_mulassign_avx512.
Print Assumptions C11_mulassign_avx2.
Print Assumptions C11_mulassign_ssse3.
Print Assumptions C11_mulassign_fallback.
Print Assumptions C11_fma_avx512.
Print Assumptions C11_fma_avx2.
Print Assumptions C11_fma_ssse3.
Print Assumptions C11_fma_fallback.
Print Assumptions C11_to_octet_vec.
Print Assumptions C11_fma_binary_avx512.
Print Assumptions C11_fma_binary_avx2.
Print Assumptions C11_fma_binary_avx2_empty.
Print Assumptions C11_fma_binary_generic.
Print Assumptions C11_fma_binary.
Print Assumptions C11_nibble_split.
Print Assumptions C11_table_halves.
Print Assumptions C11_lane_tables.
Print Assumptions C11_shuffle.
Print Assumptions C11_srli4_and15.
Print Assumptions C11_and240_srli4.
Print Assumptions C11_mulvec.
Print Assumptions C11_u64_xor.
Print Assumptions C11_layout.
Print Assumptions C11_word_views.
Print Assumptions C11_unpack_avx2.
Print Assumptions C11_unpack_avx512.
Print Assumptions C11_binary_head_aligned.
Print Assumptions C11_dispatch_irrelevant.
Print Assumptions C11_dispatch_len_mismatch.
