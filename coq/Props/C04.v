(* C04 (matrix part) -- the constraint matrix the crate builds is, entry for entry, the matrix A of
   RFC 6330 5.3.3.3 / 5.3.3.4.2 / 5.4.2.2, for every row of Table 2 and every list of internal
   symbol ids.  Only pinned statements, each closed by lemmas of Proofs/CMatrix*.v.

   A "row" is a row (K', J, S, H, W) of TABLE2 together with the P1 that P1_TABLE lists for the same
   K'; L = K'+S+H, P = L-W, p = mkCP K' J S H W P1.  `sys_params K = Ok (mkSP ..row..)` says that
   K selects that row (every K <= 56403 selects one: C04_params).  Matrix entries are read with
   `ent M r c = nth c (nth r M []) 0` (Proofs/CMatrixBase.v).  m is the build mode. *)
From Coq Require Import NArith List Bool Lia.
From RQ Require Import Base.Outcome Base.Ints Base.ListX Gen.SysTables
  Spec.GF256 Spec.Rand Spec.Tuple Spec.Code Spec.Linear
  Model.SysConst Model.Tuple Model.CMatrix
  Proofs.C15Proofs Proofs.CMatrixBase Proofs.CMatrixProofs.
Import ListNotations.
Open Scope N_scope.

(* every K <= 56403 selects a row, and sys_params returns its fields *)
Theorem C04_params : forall K, K <= 56403 ->
  exists K' J S H W P1, In (K', J, S, H, W) TABLE2 /\ In (K', P1) P1_TABLE /\ K <= K' /\
    sys_params K = Ok (mkSP K' J S H W (K' + S + H - W) P1 (K' + S + H)).
Proof. exact sys_params_ok. Qed.

(* the right-to-left recursion of generate_hdpc_rows is the product MT x GAMMA (followed by I_H) *)
Theorem C04_hdpc_recursion_is_product : forall K' J S H W P1,
  In (K', J, S, H, W) TABLE2 -> In (K', P1) P1_TABLE -> forall m,
  let p := mkCP K' J S H W P1 in
  exists rows, generate_hdpc_rows m K' S H = Ok rows /\ length rows = N.to_nat H /\
    forall i j, i < H -> j < K' + S + H ->
      nth (N.to_nat j) (nth (N.to_nat i) rows []) 0 = hdpc_entry p i j.
Proof.
  intros K' J S H W P1 Hr Hp m p.
  destruct (cm_hdpc K' J S H W P1 Hr Hp m) as [rows [E [[Hl _] He]]].
  exists rows. split; [exact E|]. split; [exact Hl | exact He].
Qed.

(* rows 0..S-1 of the binary matrix are the LDPC relations *)
Theorem C04_ldpc_rows_are_rfc : forall K' J S H W P1,
  In (K', J, S, H, W) TABLE2 -> In (K', P1) P1_TABLE -> forall m K isis,
  sys_params K = Ok (mkSP K' J S H W (K' + S + H - W) P1 (K' + S + H)) ->
  Forall (fun x => x < 2 ^ 32) isis -> K' + S + H <= S + H + N.of_nat (length isis) ->
  let p := mkCP K' J S H W P1 in
  exists bin hdpc, generate_constraint_matrix m K isis = Ok (bin, hdpc) /\
    forall r j, r < S -> j < K' + S + H -> ent bin r j = ldpc_entry p r j.
Proof. exact c04_ldpc_rows. Qed.

(* one G_ENC row: the code's tuple and index list are the RFC's, the indices are pairwise distinct
   and in range, so the indicator row written by `set` is the RFC's parity row *)
Theorem C04_enc_rows_are_rfc : forall K' J S H W P1,
  In (K', J, S, H, W) TABLE2 -> In (K', P1) P1_TABLE -> forall m isi, isi < 2 ^ 32 ->
  let p := mkCP K' J S H W P1 in
  exists t idx,
    intermediate_tuple_gen true m isi W J P1 = Ok t /\
    enc_indices m t W (K' + S + H - W) P1 = Ok idx /\
    t = Tuple_of p isi /\ idx = Enc_indices p (Tuple_of p isi) /\
    NoDup idx /\ Forall (fun j => j < K' + S + H) idx /\
    forall j, (if existsb (N.eqb j) idx then 1 else 0) = enc_entry p isi j.
Proof. intros K' J S H W P1 Hr Hp m isi HX p. exact (cm_enc_row K' J S H W P1 Hr Hp m isi HX). Qed.

(* ... and these are the rows S+H.. of the binary matrix (rows S..S+H-1 stay zero) *)
Theorem C04_enc_rows_in_matrix : forall K' J S H W P1,
  In (K', J, S, H, W) TABLE2 -> In (K', P1) P1_TABLE -> forall m K isis,
  sys_params K = Ok (mkSP K' J S H W (K' + S + H - W) P1 (K' + S + H)) ->
  Forall (fun x => x < 2 ^ 32) isis -> K' + S + H <= S + H + N.of_nat (length isis) ->
  let p := mkCP K' J S H W P1 in
  exists bin hdpc, generate_constraint_matrix m K isis = Ok (bin, hdpc) /\
    (forall k j, k < N.of_nat (length isis) -> j < K' + S + H ->
       ent bin (S + H + k) j = enc_entry p (nth (N.to_nat k) isis 0) j) /\
    (forall r j, S <= r < S + H -> j < K' + S + H -> ent bin r j = 0).
Proof. exact c04_enc_rows_in_matrix. Qed.

(* the whole matrix *)
Theorem C04_matrix_is_rfc : forall K' J S H W P1,
  In (K', J, S, H, W) TABLE2 -> In (K', P1) P1_TABLE -> forall m K isis,
  sys_params K = Ok (mkSP K' J S H W (K' + S + H - W) P1 (K' + S + H)) ->
  Forall (fun x => x < 2 ^ 32) isis -> K' + S + H <= S + H + N.of_nat (length isis) ->
  let p := mkCP K' J S H W P1 in
  exists bin hdpc, generate_constraint_matrix m K isis = Ok (bin, hdpc) /\
    full_matrix S H bin hdpc = A_rfc p isis.
Proof.
  intros K' J S H W P1 Hr Hp m K isis Hsys Hisis Hlen p.
  exact (cm_matrix_is_rfc K' J S H W P1 Hr Hp K Hsys m isis Hisis Hlen).
Qed.

Theorem C04_matrix_no_hdpc_is_rfc : forall K' J S H W P1,
  In (K', J, S, H, W) TABLE2 -> In (K', P1) P1_TABLE -> forall m K isis,
  sys_params K = Ok (mkSP K' J S H W (K' + S + H - W) P1 (K' + S + H)) ->
  Forall (fun x => x < 2 ^ 32) isis -> K' + S + H <= S + N.of_nat (length isis) ->
  let p := mkCP K' J S H W P1 in
  exists A', generate_constraint_matrix_no_hdpc m K isis = Ok A' /\
    A' = firstn (N.to_nat S) (A_rfc p isis) ++ skipn (N.to_nat (S + H)) (A_rfc p isis).
Proof.
  intros K' J S H W P1 Hr Hp m K isis Hsys Hisis Hlen p.
  exact (cm_matrix_no_hdpc_is_rfc K' J S H W P1 Hr Hp K Hsys m isis Hisis Hlen).
Qed.

(* well-formedness in the sense of Spec.Linear: rows of length L, entries bytes *)
Theorem C04_matrix_wf : forall K' J S H W P1,
  In (K', J, S, H, W) TABLE2 -> In (K', P1) P1_TABLE -> forall m K isis,
  sys_params K = Ok (mkSP K' J S H W (K' + S + H - W) P1 (K' + S + H)) ->
  Forall (fun x => x < 2 ^ 32) isis ->
  (K' + S + H <= S + H + N.of_nat (length isis) ->
   exists bin hdpc, generate_constraint_matrix m K isis = Ok (bin, hdpc) /\
     wf_mat (N.to_nat (K' + S + H)) (full_matrix S H bin hdpc)) /\
  (K' + S + H <= S + N.of_nat (length isis) ->
   exists A', generate_constraint_matrix_no_hdpc m K isis = Ok A' /\
     wf_mat (N.to_nat (K' + S + H)) A').
Proof. exact c04_matrix_wf. Qed.

(* the assert: too few rows *)
Theorem C04_matrix_panics_iff : forall K' J S H W P1,
  In (K', J, S, H, W) TABLE2 -> In (K', P1) P1_TABLE -> forall m K isis,
  sys_params K = Ok (mkSP K' J S H W (K' + S + H - W) P1 (K' + S + H)) ->
  Forall (fun x => x < 2 ^ 32) isis ->
  (S + H + N.of_nat (length isis) < K' + S + H ->
     generate_constraint_matrix m K isis = Panic PAssert) /\
  (K' + S + H <= S + H + N.of_nat (length isis) ->
     is_ok (generate_constraint_matrix m K isis) = true) /\
  (S + N.of_nat (length isis) < K' + S + H ->
     generate_constraint_matrix_no_hdpc m K isis = Panic PAssert) /\
  (K' + S + H <= S + N.of_nat (length isis) ->
     is_ok (generate_constraint_matrix_no_hdpc m K isis) = true).
Proof. exact c04_matrix_panics_iff. Qed.

(* ---- non-vacuity ---- *)

Definition ex_isis : list N := rangeN 10 ++ [17; 1000003].

(* K = 10: first row, 12 ISIs (10 source, 2 repair), L = 27 = S + H + 10: all hypotheses hold and
   the model matrix is the RFC matrix *)
Example C04_example_K10 :
  In (10, 254, 7, 10, 17) TABLE2 /\ In (10, 11) P1_TABLE /\
  sys_params 10 = Ok (mkSP 10 254 7 10 17 (10 + 7 + 10 - 17) 11 (10 + 7 + 10)) /\
  forallb (fun x => x <? 2 ^ 32) ex_isis = true /\
  (10 + 7 + 10 <=? 7 + 10 + N.of_nat (length ex_isis)) = true /\
  (forall m, match generate_constraint_matrix m 10 ex_isis with
             | Ok (bin, hdpc) => full_matrix 7 10 bin hdpc = A_rfc (mkCP 10 254 7 10 17 11) ex_isis
             | Panic _ => False
             end) /\
  generate_constraint_matrix Checked 10 (rangeN 9) = Panic PAssert.
Proof.
  split; [left; reflexivity|]. split; [left; reflexivity|].
  split; [vm_compute; reflexivity|]. split; [vm_compute; reflexivity|].
  split; [vm_compute; reflexivity|].
  split; [intros [|]; vm_compute; reflexivity | vm_compute; reflexivity].
Qed.

(* K = 26: the third row; also the no-HDPC generator with K' + H ISIs *)
Example C04_example_K26 :
  In (26, 80, 11, 10, 37) TABLE2 /\ In (26, 11) P1_TABLE /\
  sys_params 26 = Ok (mkSP 26 80 11 10 37 (26 + 11 + 10 - 37) 11 (26 + 11 + 10)) /\
  (match generate_constraint_matrix Checked 26 (rangeN 26) with
   | Ok (bin, hdpc) => full_matrix 11 10 bin hdpc = A_rfc (mkCP 26 80 11 10 37 11) (rangeN 26)
   | Panic _ => False
   end) /\
  (match generate_constraint_matrix_no_hdpc Release 26 (rangeN 36) with
   | Ok A' => A' = firstn 11 (A_rfc (mkCP 26 80 11 10 37 11) (rangeN 36)) ++
                   skipn 21 (A_rfc (mkCP 26 80 11 10 37 11) (rangeN 36))
   | Panic _ => False
   end).
Proof.
  split; [exact (in_by_nth TABLE2 4 (0, 0, 0, 0, 0) _ eq_refl eq_refl)|].
  split; [exact (in_by_nth P1_TABLE 4 (0, 0) _ eq_refl eq_refl)|].
  split; [vm_compute; reflexivity|]. split; vm_compute; reflexivity.
Qed.

Print Assumptions C04_params.
Print Assumptions C04_hdpc_recursion_is_product.
Print Assumptions C04_ldpc_rows_are_rfc.
Print Assumptions C04_enc_rows_are_rfc.
Print Assumptions C04_enc_rows_in_matrix.
Print Assumptions C04_matrix_is_rfc.
Print Assumptions C04_matrix_no_hdpc_is_rfc.
Print Assumptions C04_matrix_wf.
Print Assumptions C04_matrix_panics_iff.
