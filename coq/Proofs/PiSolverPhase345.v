(* Third, fourth and fifth phase: the additions recorded in the first phase are applied in reverse
   order (third), U_upper is cleared with the rows of the identity block (fourth), the additions are
   applied again in order (fifth).  Over GF(2) an addition is its own inverse, so the third and the
   fifth phase cancel on the columns left of i, and on the other columns the fifth phase adds zero
   rows: the logical matrix ends as the identity.  Then the read-out order is a certificate. *)
From Coq Require Import NArith List Bool Lia Arith.
From RQ Require Import Base.Outcome Base.Ints Base.ListX Model.Octet Model.CMatrix Model.Slab
  Model.FieldFast Proofs.FieldFastProofs
  Spec.Linear Proofs.OutcomeLemmas Proofs.OctetProofs Proofs.LinearProofs Model.PiSolver
  Proofs.PiSolverBase Proofs.PiSolverStruct Proofs.PiSolverOps Proofs.PiSolverG Proofs.PiSolverInvDefs.
Import ListNotations.
Open Scope N_scope.

(* ---- the effect of a list of row additions on one column ---- *)
Definition addf (a b : N) (f : N -> N) : N -> N :=
  fun k => if k =? b then N.lxor (f b) (f a) else f k.

Fixpoint colapply (ops : list rowop) (f : N -> N) : N -> N :=
  match ops with
  | [] => f
  | RAdd a b :: t => colapply t (addf a b f)
  | RSwap _ _ :: t => colapply t f
  end.

Lemma colapply_app l1 l2 f : colapply (l1 ++ l2) f = colapply l2 (colapply l1 f).
Proof. revert f; induction l1 as [|[a b|a b] l1 IH]; intros f; cbn [colapply app]; auto. Qed.

Lemma addf_ext_lt n a b f g : a < n -> b < n -> (forall k, k < n -> f k = g k) ->
  forall k, k < n -> addf a b f k = addf a b g k.
Proof. intros Ha Hb E k Hk. unfold addf. rewrite (E a Ha), (E b Hb), (E k Hk). reflexivity. Qed.

Lemma colapply_ext_lt i n l : Forall (xo_lt i) l -> i <= n ->
  forall f g, (forall k, k < n -> f k = g k) -> forall k, k < n -> colapply l f k = colapply l g k.
Proof.
  induction 1 as [|op l Hop _ IH]; intros Hin f g E k Hk; cbn [colapply]; [apply E, Hk|].
  destruct op as [a b|a b]; [|destruct Hop]. cbn in Hop.
  apply IH; auto. apply addf_ext_lt; try lia; auto.
Qed.

Lemma addf_invol a b f k : a <> b -> addf a b (addf a b f) k = f k.
Proof.
  intros Hne. unfold addf. destruct (N.eqb_spec k b) as [->|Hk]; [|reflexivity].
  rewrite N.eqb_refl. destruct (N.eqb_spec a b); [contradiction|].
  rewrite N.lxor_assoc, N.lxor_nilpotent, N.lxor_0_r. reflexivity.
Qed.

Lemma colapply_cancel i n l : Forall (xo_lt i) l -> i <= n ->
  forall f k, k < n -> colapply l (colapply (rev l) f) k = f k.
Proof.
  induction 1 as [|op l Hop Hl IH]; intros Hin f k Hk; [reflexivity|].
  destruct op as [a b|a b]; [|destruct Hop]. cbn in Hop. cbn [rev]. rewrite colapply_app. cbn [colapply].
  rewrite (colapply_ext_lt i n l Hl Hin _ (colapply (rev l) f)); [apply IH; auto| |exact Hk].
  intros k' _. apply addf_invol. lia.
Qed.

Lemma colapply_high i l : Forall (xo_lt i) l -> forall f k, i <= k -> colapply l f k = f k.
Proof.
  induction 1 as [|op l Hop Hl IH]; intros f k Hk; [reflexivity|].
  destruct op as [a b|a b]; [|destruct Hop]. cbn in Hop. cbn [colapply]. rewrite IH by exact Hk.
  unfold addf. destruct (N.eqb_spec k b); [lia | reflexivity].
Qed.

Lemma colapply_zero i l : Forall (xo_lt i) l -> forall f, (forall k, k < i -> f k = 0) ->
  forall k, k < i -> colapply l f k = 0.
Proof.
  induction 1 as [|op l Hop Hl IH]; intros f Hz k Hk; [apply Hz, Hk|].
  destruct op as [a b|a b]; [|destruct Hop]. cbn in Hop. cbn [colapply]. apply IH; [|exact Hk].
  intros k' Hk'. unfold addf. destruct (k' =? b); [|apply Hz, Hk'].
  rewrite !Hz by lia. reflexivity.
Qed.

(* ---- list helpers ---- *)
Lemma smap2_length {A B C} (f : A -> B -> C) : forall l1 l2,
  length (Slab.map2 f l1 l2) = Nat.min (length l1) (length l2).
Proof. induction l1 as [|a t IH]; intros [|b t2]; cbn [Slab.map2 length]; try reflexivity. rewrite IH. reflexivity. Qed.

Lemma smap2_nth_lxor : forall l1 l2 k, length l1 = length l2 ->
  nth k (Slab.map2 N.lxor l1 l2) 0 = N.lxor (nth k l1 0) (nth k l2 0).
Proof.
  induction l1 as [|a t IH]; intros [|b t2] k H; cbn [length] in H; try discriminate.
  - destruct k; reflexivity.
  - cbn [Slab.map2]. destruct k; [reflexivity|]. cbn [nth]. apply IH. lia.
Qed.

(* parity of the number of occurrences of j *)
Fixpoint hits (cols : list N) (j : N) : N :=
  match cols with
  | [] => 0
  | c :: t => N.lxor (if c =? j then 1 else 0) (hits t j)
  end.

Lemma hits_nonzero : forall l s j,
  hits (map fst (filter (fun p : N * N => negb (snd p =? 0)) (combine (seqN s (s + lenN l)) l))) j =
  if (s <=? j) && (j <? s + lenN l) && negb (nth (N.to_nat (j - s)) l 0 =? 0) then 1 else 0.
Proof.
  induction l as [|x t IH]; intros s j.
  - unfold lenN. cbn [length]. replace (s + N.of_nat 0) with s by lia. rewrite seqN_nil by lia. cbn.
    destruct (N.leb_spec s j); destruct (N.ltb_spec j s); cbn; try reflexivity. lia.
  - assert (EL : s + lenN (x :: t) = s + 1 + lenN t) by (unfold lenN; cbn [length]; lia).
    rewrite EL. rewrite seqN_cons by (unfold lenN; lia). cbn [combine filter snd].
    specialize (IH (s + 1) j).
    destruct (N.eqb_spec s j) as [->|Hsj].
    + (* j = s *)
      replace (j - j) with 0 by lia. cbn [N.to_nat nth].
      assert (E0 : hits (map fst (filter (fun p : N * N => negb (snd p =? 0)) (combine (seqN (j + 1) (j + 1 + lenN t)) t))) j = 0).
      { rewrite IH. destruct (N.leb_spec (j + 1) j); [lia|]. reflexivity. }
      destruct (N.leb_spec j j); [|lia]. destruct (N.ltb_spec j (j + 1 + lenN t)); [|lia]. cbn [andb].
      destruct (x =? 0); cbn [negb map fst hits]; [exact E0|]. rewrite E0, N.eqb_refl. reflexivity.
    + assert (E1 : hits (map fst (filter (fun p : N * N => negb (snd p =? 0)) (combine (seqN (s + 1) (s + 1 + lenN t)) t))) j =
                   if (s <=? j) && (j <? s + 1 + lenN t) && negb (nth (N.to_nat (j - s)) (x :: t) 0 =? 0) then 1 else 0).
      { rewrite IH. destruct (N.leb_spec (s + 1) j); destruct (N.leb_spec s j); try lia; cbn [andb]; [|reflexivity].
        replace (N.to_nat (j - s)) with (S (N.to_nat (j - (s + 1)))) by lia. reflexivity. }
      destruct (x =? 0); cbn [negb map fst hits]; [exact E1|].
      apply N.eqb_neq in Hsj. rewrite Hsj, N.lxor_0_l. exact E1.
Qed.

Lemma hits_range lo hi cols j : Forall (fun c => lo <= c < hi) cols -> ~ (lo <= j < hi) -> hits cols j = 0.
Proof.
  induction 1 as [|c t Hc _ IH]; intros Hj; [reflexivity|]. cbn [hits]. rewrite IH by exact Hj.
  destruct (N.eqb_spec c j); [subst; lia | reflexivity].
Qed.
(* ---- the stored matrix ---- *)
Lemma dims_row A Mn Wn k : dims A Mn Wn -> k < Mn -> length (rowN A k) = N.to_nat Wn.
Proof.
  intros [Hl Hr] Hk. rewrite Forall_forall in Hr. unfold rowN, lenN in *.
  specialize (Hr (nth (N.to_nat k) A [])). rewrite <- Hr; [lia|]. apply nth_In. lia.
Qed.

Lemma bin_lxor x y : (x = 0 \/ x = 1) -> (y = 0 \/ y = 1) -> (N.lxor x y = 0 \/ N.lxor x y = 1).
Proof. intros [->| ->] [->| ->]; cbn; auto. Qed.

Lemma bin_map2_lxor a b : bin_row a -> bin_row b -> bin_row (Slab.map2 N.lxor a b).
Proof.
  unfold bin_row. revert b; induction a as [|x a IH]; intros [|y b] Ha Hb; cbn [Slab.map2]; try constructor.
  - inversion Ha; inversion Hb; subst. apply bin_lxor; assumption.
  - inversion Ha; inversion Hb; subst. apply IH; assumption.
Qed.

Lemma bin_mat_row A k : bin_mat A -> bin_row (rowN A k).
Proof.
  intros H. unfold rowN. destruct (Nat.ltb_spec (N.to_nat k) (length A)) as [L|L].
  - unfold bin_mat in H. rewrite Forall_forall in H. apply H. apply nth_In. exact L.
  - rewrite nth_overflow by exact L. constructor.
Qed.

Lemma bin_cell A k j : bin_mat A -> cell A k j = 0 \/ cell A k j = 1.
Proof.
  intros H. unfold cell. pose proof (bin_mat_row A k H) as Hr.
  destruct (Nat.ltb_spec (N.to_nat j) (length (rowN A k))) as [L|L].
  - unfold bin_row in Hr. rewrite Forall_forall in Hr. apply Hr. apply nth_In. exact L.
  - rewrite nth_overflow by exact L. auto.
Qed.

Lemma bm_add_rows_spec Wn A dest src st A' : dims A Wn Wn -> bm_add_rows A dest src st = Ok A' ->
  dest < Wn /\ src < Wn /\ dest <> src /\ dims A' Wn Wn /\ (bin_mat A -> bin_mat A') /\
  forall k j, j < Wn -> cell A' k j =
    if (k =? dest) && (st <=? j) then N.lxor (cell A dest j) (cell A src j) else cell A k j.
Proof.
  unfold bm_add_rows. intros D H. destruct (N.eqb_spec dest src) as [|Hne]; [discriminate|].
  oinvas H as rd Erd. oinvas H as rs Ers.
  destruct (getN_inv _ _ _ [] Erd) as [Ld Hrd]. destruct (getN_inv _ _ _ [] Ers) as [Ls Hrs].
  destruct (putN_inv _ _ _ _ H) as [_ ->]. clear H.
  pose proof D as [DL DR]. unfold lenN in DL.
  assert (Hd : dest < Wn) by lia. assert (Hs : src < Wn) by lia.
  pose proof (dims_row _ _ _ _ D Hd) as Lrd. pose proof (dims_row _ _ _ _ D Hs) as Lrs.
  fold (rowN A dest) in Hrd. fold (rowN A src) in Hrs. rewrite <- Hrd in Lrd. rewrite <- Hrs in Lrs.
  set (k0 := N.to_nat st).
  set (nr := firstn k0 rd ++ Slab.map2 N.lxor (skipn k0 rd) (skipn k0 rs)).
  assert (Lnr : length nr = N.to_nat Wn).
  { unfold nr. rewrite app_length, firstn_length, smap2_length, !skipn_length. lia. }
  repeat split; try assumption.
  - unfold lenN. rewrite upd_nth_length. lia.
  - apply Forall_upd_nth; [exact DR|]. unfold lenN. lia.
  - intros B. apply Forall_upd_nth; [exact B|].
    pose proof (bin_mat_row A dest B) as Bd. pose proof (bin_mat_row A src B) as Bs.
    rewrite <- Hrd in Bd. rewrite <- Hrs in Bs.
    unfold nr. apply Forall_app. split; [apply Forall_firstn, Bd|].
    apply bin_map2_lxor; apply Forall_skipn; assumption.
  - intros k j Hj. unfold cell at 1. unfold rowN at 1.
    destruct (N.eqb_spec k dest) as [->|Hk]; cbn [andb].
    + rewrite nth_upd_same by exact Ld.
      unfold cell. rewrite <- Hrd, <- Hrs. unfold nr.
      destruct (N.leb_spec st j) as [Hst|Hst].
      * rewrite app_nth2 by (rewrite firstn_length; lia).
        rewrite firstn_length, smap2_nth_lxor by (rewrite !skipn_length; lia).
        rewrite !nth_skipn'. replace (k0 + (N.to_nat j - Nat.min k0 (length rd)))%nat with (N.to_nat j) by lia.
        reflexivity.
      * rewrite app_nth1 by (rewrite firstn_length; lia). apply nth_firstn_lt. lia.
    + rewrite nth_upd_other by lia. reflexivity.
Qed.

Lemma nonzero_cols_spec Wn A r st cols : dims A Wn Wn -> st <= Wn -> bm_nonzero_cols A r st = Ok cols ->
  r < Wn /\ Forall (fun j => st <= j < Wn) cols /\
  forall j, hits cols j = if (st <=? j) && (j <? Wn) && negb (cell A r j =? 0) then 1 else 0.
Proof.
  unfold bm_nonzero_cols. intros D Hst H. oinvas H as row Er. inversion H; subst cols. clear H.
  destruct (getN_inv _ _ _ [] Er) as [Lr Hrow]. pose proof D as [DL _]. unfold lenN in DL.
  assert (Hr : r < Wn) by lia. pose proof (dims_row _ _ _ _ D Hr) as Lrow.
  fold (rowN A r) in Hrow. rewrite <- Hrow in Lrow.
  assert (EL : lenN row = st + lenN (skipn (N.to_nat st) row)).
  { unfold lenN. rewrite skipn_length. lia. }
  split; [exact Hr|]. split.
  - apply Forall_forall. intros j Hj. apply in_map_iff in Hj. destruct Hj as [[c v] [<- Hin]].
    apply filter_In in Hin. destruct Hin as [Hin _]. apply in_combine_l in Hin. apply seqN_in in Hin.
    cbn [fst]. unfold lenN in Hin. lia.
  - intros j. rewrite EL, hits_nonzero. rewrite <- EL.
    replace (lenN row) with Wn by (unfold lenN; lia).
    destruct (N.leb_spec st j) as [H1|H1]; [|reflexivity]. destruct (N.ltb_spec j Wn) as [H2|H2]; [|reflexivity].
    cbn [andb]. rewrite nth_skipn'. unfold cell. rewrite <- Hrow.
    replace (N.to_nat st + N.to_nat (j - st))%nat with (N.to_nat j) by lia. reflexivity.
Qed.

Lemma fma_rows_inv m s a b st s' : ps_hd s = None -> fma_rows m s a b st = Ok s' ->
  exists s1 A', record_fma_rows s a b 1 = Ok s1 /\ bm_add_rows (ps_A s) b a st = Ok A' /\ s' = set_A s1 A'.
Proof.
  unfold fma_rows. intros Hh H. oinvas H as s1 E1.
  destruct (record_fma_frame _ _ _ _ _ E1) as [EA [Eh _]]. rewrite Eh, Hh in H.
  oinvas H as A' EA'. inversion H; subst. rewrite EA in EA'. eauto.
Qed.

(* ---- permutations are bijective ---- *)
Lemma perm_surj n l j : permN n l -> j < n -> exists t, t < n /\ nth (N.to_nat t) l 0 = j.
Proof.
  intros [Hl [ND Hb]] Hj. unfold lenN in Hl.
  assert (I : incl (seqN 0 n) l).
  { apply NoDup_length_incl; [exact ND | rewrite seqN_length; lia|].
    intros x Hx. apply seqN_in. rewrite Forall_forall in Hb. specialize (Hb x Hx). lia. }
  assert (Hin : In j l) by (apply I, seqN_in; lia).
  destruct (In_nth _ _ 0 Hin) as [t [Lt Et]]. exists (N.of_nat t). rewrite Nat2N.id.
  split; [lia | exact Et].
Qed.

Lemma perm_inj n l t t' : permN n l -> t < n -> t' < n ->
  nth (N.to_nat t) l 0 = nth (N.to_nat t') l 0 -> t = t'.
Proof.
  intros [Hl [ND _]] Ht Ht' E. unfold lenN in Hl.
  apply (proj1 (NoDup_nth l 0) ND) in E; lia.
Qed.

Lemma nth_unit_row L j x : (x < L)%nat -> nth x (unit_row L j) 0 = if (x =? j)%nat then 1 else 0.
Proof.
  intros Hx. unfold unit_row. set (f := fun k : nat => if (k =? j)%nat then 1 else 0).
  rewrite (nth_indep _ 0 (f 0%nat)) by (rewrite map_length, seq_length; exact Hx).
  rewrite map_nth, seq_nth by exact Hx. reflexivity.
Qed.

Lemma reorder_spec s ord : permN (ps_L s) (ps_c s) -> reorder_of s = Ok ord ->
  length ord = N.to_nat (ps_L s) /\
  forall t, t < ps_L s -> nth (N.to_nat (cat s t)) ord 0 = dat s t.
Proof.
  unfold reorder_of. intros Pc H. set (Wn := ps_L s) in *.
  pose (P := fun (pre : list N) (im : list N) => length im = N.to_nat Wn /\
                forall t, In t pre -> nth (N.to_nat (cat s t)) im 0 = dat s t).
  assert (R : P (seqN 0 Wn) ord).
  { revert H. apply (ofold_inv_pre P).
    - intros pre t0 post im im' El [Len Hp] Eb. oinvas Eb as ci Eci. oinvas Eb as di Edi.
      destruct (getN_inv _ _ _ 0 Eci) as [Lc ->]. destruct (getN_inv _ _ _ 0 Edi) as [Ld ->].
      destruct (putN_inv _ _ _ _ Eb) as [Lp ->].
      change (nth (N.to_nat t0) (ps_c s) 0) with (cat s t0) in *.
      change (nth (N.to_nat t0) (ps_d s) 0) with (dat s t0) in *.
      assert (Hrange : forall t, In t (pre ++ [t0]) -> t < Wn).
      { intros t Hin. assert (In t (seqN 0 Wn)).
        { rewrite El. apply in_app_or in Hin. apply in_or_app. destruct Hin as [Hin|[<-|[]]]; [left; exact Hin | right; left; reflexivity]. }
        apply seqN_in in H. lia. }
      split; [rewrite upd_nth_length; exact Len|]. intros t Hin. pose proof (Hrange t Hin) as Ht.
      assert (Ht0 : t0 < Wn) by (apply Hrange, in_or_app; right; left; reflexivity).
      destruct (N.eq_dec (cat s t) (cat s t0)) as [E|NE].
      + assert (t = t0) by (apply (perm_inj Wn (ps_c s)); assumption). subst t.
        rewrite nth_upd_same by exact Lp. reflexivity.
      + rewrite nth_upd_other by (intros X; apply NE; lia).
        apply Hp. apply in_app_or in Hin. destruct Hin as [Hin|[<-|[]]]; [exact Hin | contradiction].
    - split; [apply repeat_length | intros t []]. }
  destruct R as [Len Hp]. split; [exact Len|]. intros t Ht. apply Hp, seqN_in. lia.
Qed.

Section P345.
Variable A0 : list (list N).
Variable M W : N.
Hypothesis A0_wf : wf_mat (N.to_nat W) A0.
Hypothesis A0_len : lenN A0 = M.
Local Notation G := (G A0).

(* the state at the end of the second phase *)
Record p3_pre (s : pstate) : Prop := mkP3 {
  p3_lite : lite M s;
  p3_hd : ps_hd s = None;
  p3_dims : dims (ps_A s) W W;
  p3_bin : bin_mat (ps_A s);
  p3_W : ps_W s = W;
  p3_L : ps_L s = W;
  p3_iu : ps_i s + ps_u s = W;
  p3_WM : W <= M;
  p3_agree : forall k j, k < W -> ps_i s <= j < W -> cell (ps_A s) k j = G s k j;
  p3_I : forall k j, k < ps_i s -> j < ps_i s -> G s k j = if k =? j then 1 else 0;
  p3_low : forall k j, ps_i s <= k < W -> j < W -> G s k j = if k =? j then 1 else 0 }.

(* the logical effect of one recorded addition *)
Lemma G_record_add s a b s' : lite M s -> record_fma_rows s a b 1 = Ok s' -> a <> b ->
  lite M s' /\ forall k j, k < M -> G s' k j = addf a b (fun k => G s k j) k.
Proof.
  intros L H Hne. split; [eapply lite_record_fma; [exact L | exact H | reflexivity | exact Hne]|].
  intros k j Hk. rewrite (G_record_fma A0 M W A0_wf A0_len s a b 1 s' L H eq_refl Hne k j Hk).
  unfold addf. rewrite mulN_1_l by (apply (G_byte A0 M W A0_wf A0_len); exact L). reflexivity.
Qed.

Lemma G_fma m s a b st s' : lite M s -> ps_hd s = None -> fma_rows m s a b st = Ok s' ->
  lite M s' /\ ps_hd s' = None /\ ps_c s' = ps_c s /\ ps_L s' = ps_L s /\ ps_i s' = ps_i s /\
  bm_add_rows (ps_A s) b a st = Ok (ps_A s') /\ a <> b /\
  forall k j, k < M -> G s' k j = addf a b (fun k => G s k j) k.
Proof.
  intros L Hh H. destruct (lite_fma_rows _ _ _ _ _ _ _ L H) as [L' Hne].
  destruct (fma_rows_inv _ _ _ _ _ _ Hh H) as [s1 [A' [E1 [EA ->]]]].
  destruct (record_fma_frame _ _ _ _ _ E1) as [_ [Eh [_ [Ec [_ [Ei [_ [EL _]]]]]]]].
  destruct (G_record_add _ _ _ _ L E1 Hne) as [_ HG].
  split; [exact L'|]. cbn [set_A ps_hd ps_c ps_L ps_i ps_A].
  split; [congruence|]. split; [exact Ec|]. split; [exact EL|]. split; [exact Ei|]. split; [exact EA|].
  split; [exact Hne|].
  intros k j Hk. rewrite <- HG by exact Hk. apply (G_frame A0); reflexivity.
Qed.

(* the invariant of the third and fourth phase *)
Record pinv (i : N) (c : list N) (s : pstate) : Prop := mkPinv {
  pv_lite : lite M s;
  pv_hd : ps_hd s = None;
  pv_dims : dims (ps_A s) W W;
  pv_bin : bin_mat (ps_A s);
  pv_L : ps_L s = W;
  pv_i : ps_i s = i;
  pv_c : ps_c s = c;
  pv_agree : forall k j, k < W -> i <= j < W -> cell (ps_A s) k j = G s k j }.

Lemma pinv_fma i c m s a b st s' : i <= W -> W <= M -> pinv i c s -> st <= i ->
  fma_rows m s a b st = Ok s' ->
  pinv i c s' /\ a < W /\ b < W /\ a <> b /\
  forall k j, k < M -> G s' k j = addf a b (fun k => G s k j) k.
Proof.
  intros HiW HWM [L Hh D B HL Hi Hc Ag] Hst H.
  destruct (G_fma _ _ _ _ _ _ L Hh H) as [L' [Hh' [Hc' [HL' [Hi' [EA [Hne HG]]]]]]].
  destruct (bm_add_rows_spec W _ _ _ _ _ D EA) as [Hb [Ha [_ [D' [B' Hcell]]]]].
  split; [|repeat split; assumption].
  constructor; try assumption; try congruence; [apply B', B|].
  intros k j Hk Hj. rewrite Hcell by lia. rewrite HG by lia. unfold addf.
  destruct (N.leb_spec st j); [|lia]. rewrite andb_true_r.
  destruct (k =? b); [rewrite !Ag by lia; reflexivity | apply Ag; lia].
Qed.

Lemma fold_colapply (Q : pstate -> Prop) (F : rowop -> pstate -> outcome pstate) i l :
  i <= M -> Forall (xo_lt i) l ->
  (forall a b s s', In (RAdd a b) l -> Q s -> F (RAdd a b) s = Ok s' ->
     Q s' /\ forall k j, k < M -> G s' k j = addf a b (fun k => G s k j) k) ->
  forall s s', Q s -> ofold F l s = Ok s' ->
  Q s' /\ forall k j, k < M -> G s' k j = colapply l (fun k => G s k j) k.
Proof.
  intros HiM Hl. induction Hl as [|op l Hop Hl IH]; intros Hstep s s' Qs H.
  - cbn in H. inversion H; subst. split; [exact Qs | reflexivity].
  - apply ofold_cons_inv in H. destruct H as [s1 [E1 E2]].
    destruct op as [a b|a b]; [|destruct Hop].
    destruct (Hstep a b s s1 (or_introl eq_refl) Qs E1) as [Q1 G1].
    destruct (IH (fun a' b' s0 s0' Hin => Hstep a' b' s0 s0' (or_intror Hin)) s1 s' Q1 E2) as [Q2 G2].
    split; [exact Q2|]. intros k j Hk. rewrite G2 by exact Hk. cbn [colapply].
    apply (colapply_ext_lt i M l Hl HiM); [|exact Hk]. intros k' Hk'. apply G1, Hk'.
Qed.

Definition lowrows (i : N) (s : pstate) : Prop :=
  forall k j, i <= k < W -> j < W -> G s k j = if k =? j then 1 else 0.

Lemma third_spec i c m s xo s3 : i <= W -> W <= M -> pinv i c s -> Forall (xo_lt i) xo ->
  third_phase m s xo = Ok s3 ->
  pinv i c s3 /\ forall k j, k < M -> G s3 k j = colapply (rev xo) (fun k => G s k j) k.
Proof.
  unfold third_phase. intros HiW HWM P Hxo H. omon H. inversion H; subst. clear H.
  match goal with E : ofold _ (rev xo) s = Ok s3 |- _ => revert E end.
  apply (fold_colapply (pinv i c) _ i); [lia | apply Forall_rev, Hxo | | exact P].
  intros xa xb sa sb _ Pa Eb.
  assert (Hst : errata11_start m sa <= i) by (unfold errata11_start; rewrite (pv_i _ _ _ Pa); destruct m; lia).
  destruct (pinv_fma i c m sa xa xb _ sb HiW HWM Pa Hst Eb) as [Pb [_ [_ [_ HG]]]].
  split; assumption.
Qed.

Lemma fourth_inner i c m r : i <= W -> W <= M -> r < i -> forall cols s s', pinv i c s -> lowrows i s ->
  Forall (fun j => i <= j < W) cols ->
  ofold (fun j s => fma_rows m s j r (errata11_start m s)) cols s = Ok s' ->
  pinv i c s' /\ forall k j, k < M -> j < W ->
    G s' k j = if k =? r then N.lxor (G s k j) (hits cols j) else G s k j.
Proof.
  intros HiW HWM Hr. induction cols as [|j0 t IH]; intros s s' P Lw Hc H.
  - cbn in H. inversion H; subst. split; [exact P|]. intros k j _ _. cbn [hits]. rewrite N.lxor_0_r.
    destruct (k =? r); reflexivity.
  - apply ofold_cons_inv in H. destruct H as [s1 [E1 E2]]. inversion Hc as [|x y Hj0 Ht]; subst.
    assert (Hst : errata11_start m s <= i) by (unfold errata11_start; rewrite (pv_i _ _ _ P); destruct m; lia).
    destruct (pinv_fma i c m s j0 r _ s1 HiW HWM P Hst E1) as [P1 [_ [_ [_ HG]]]].
    assert (Lw1 : lowrows i s1).
    { intros k j Hk Hj. rewrite HG by lia. unfold addf. destruct (N.eqb_spec k r); [lia|]. apply Lw; assumption. }
    destruct (IH s1 s' P1 Lw1 Ht E2) as [P2 HG2]. split; [exact P2|].
    intros k j Hk Hj. rewrite HG2 by assumption. rewrite !HG by lia. unfold addf.
    destruct (N.eqb_spec k r) as [->|Hkr]; [|reflexivity].
    cbn [hits]. rewrite (Lw j0 j) by lia. rewrite N.lxor_assoc. reflexivity.
Qed.

Lemma fourth_spec i c m s3 s4 : i <= W -> W <= M -> pinv i c s3 -> lowrows i s3 ->
  fourth_phase m s3 = Ok s4 ->
  pinv i c s4 /\
  (forall k j, k < M -> j < W -> j < i \/ i <= k -> G s4 k j = G s3 k j) /\
  (forall r j, r < i -> i <= j < W -> G s4 r j = 0).
Proof.
  unfold fourth_phase. intros HiW HWM P3 Lw3 H. omon H. inversion H; subst. clear H.
  rewrite (pv_i _ _ _ P3) in *.
  match goal with E : ofold _ (seqN 0 i) s3 = Ok s4 |- _ => rename E into EF end.
  pose (P := fun (pre : list N) (s : pstate) => pinv i c s /\
    (forall k j, k < M -> j < W -> j < i \/ i <= k -> G s k j = G s3 k j) /\
    (forall r j, In r pre -> i <= j < W -> G s r j = 0)).
  assert (R : P (seqN 0 i) s4).
  { revert EF. apply (ofold_inv_pre P).
    - intros pre r post sa sb El [Pa [Fr Z]] Eb. omon Eb.
      assert (Hr : r < i).
      { assert (In r (seqN 0 i)) by (rewrite El; apply in_or_app; right; left; reflexivity).
        apply seqN_in in H. lia. }
      rewrite (pv_i _ _ _ Pa) in *.
      match goal with E : bm_nonzero_cols _ r i = Ok ?cols |- _ =>
        destruct (nonzero_cols_spec W _ _ _ _ (pv_dims _ _ _ Pa) HiW E) as [_ [Hcols Hhits]] end.
      assert (Lwa : lowrows i sa).
      { intros k j Hk Hj. rewrite Fr by lia. apply Lw3; assumption. }
      destruct (fourth_inner i c m r HiW HWM Hr _ _ _ Pa Lwa Hcols Eb) as [Pb HG].
      split; [exact Pb|]. split.
      + intros k j Hk Hj Hor. rewrite HG by assumption. destruct (N.eqb_spec k r) as [->|Hkr]; [|apply Fr; assumption].
        rewrite Hhits. destruct (N.leb_spec i j); [lia|]. cbn [andb]. rewrite N.lxor_0_r. apply Fr; assumption.
      + intros r' j Hin Hj. assert (Hr' : r' < i).
        { assert (In r' (seqN 0 i)).
          { rewrite El. apply in_app_or in Hin. apply in_or_app. destruct Hin as [Hin|[<-|[]]]; [left; exact Hin | right; left; reflexivity]. }
          apply seqN_in in H. lia. }
        rewrite HG by lia. destruct (N.eqb_spec r' r) as [->|Hne].
        * rewrite Hhits. destruct (N.leb_spec i j); [|lia]. destruct (N.ltb_spec j W); [|lia]. cbn [andb].
          rewrite <- (pv_agree _ _ _ Pa) by lia.
          destruct (bin_cell (ps_A sa) r j (pv_bin _ _ _ Pa)) as [-> | ->]; reflexivity.
        * apply Z; [|exact Hj]. apply in_app_or in Hin. destruct Hin as [Hin|[<-|[]]]; [exact Hin | contradiction].
    - split; [exact P3|]. split; [reflexivity | intros r j []]. }
  destruct R as [P4 [Fr Z]]. split; [exact P4|]. split; [exact Fr|].
  intros r j Hr Hj. apply Z; [|exact Hj]. apply seqN_in. lia.
Qed.

Definition q5 (c : list N) (s : pstate) : Prop :=
  lite M s /\ ps_hd s = None /\ ps_c s = c /\ ps_L s = W.

Lemma fifth_spec i c m s4 xo s5 : i <= M -> q5 c s4 -> Forall (xo_lt i) xo ->
  fifth_phase m s4 xo = Ok s5 ->
  q5 c s5 /\ forall k j, k < M -> G s5 k j = colapply xo (fun k => G s4 k j) k.
Proof.
  unfold fifth_phase. intros HiM Q Hxo H. omon H. inversion H; subst. clear H.
  match goal with E : ofold _ xo s4 = Ok s5 |- _ => revert E end.
  apply (fold_colapply (q5 c) _ i); [exact HiM | exact Hxo | | exact Q].
  intros xa xb sa sb Hin [La [Hh [Hc HL]]] Eb.
  rewrite Forall_forall in Hxo. pose proof (Hxo _ Hin) as Hop. cbn in Hop.
  destruct m.
  - destruct (G_record_add _ _ _ _ La Eb) as [Lb HG]; [lia|].
    destruct (record_fma_frame _ _ _ _ _ Eb) as [_ [Eh [_ [Ec [_ [_ [_ [EL _]]]]]]]].
    split; [|exact HG]. unfold q5. split; [exact Lb|]. split; [congruence|]. split; congruence.
  - destruct (G_fma _ _ _ _ _ _ La Hh Eb) as [Lb [Hhb [Hcb [HLb [_ [_ [_ HG]]]]]]].
    split; [|exact HG]. unfold q5. split; [exact Lb|]. split; [congruence|]. split; congruence.
Qed.

Lemma phases345_spec m s xo s3 s4 s5 : p3_pre s -> Forall (xo_lt (ps_i s)) xo ->
  third_phase m s xo = Ok s3 -> fourth_phase m s3 = Ok s4 -> fifth_phase m s4 xo = Ok s5 ->
  lite M s5 /\ ps_c s5 = ps_c s /\ ps_L s5 = W /\
  forall k j, k < W -> j < W -> G s5 k j = if k =? j then 1 else 0.
Proof.
  intros P Hxo H3 H4 H5. destruct P as [L Hh D B HW HL Hiu HWM Ag HI Hlow].
  remember (ps_i s) as i eqn:Ei.
  assert (HiW : i <= W) by lia. assert (HiM : i <= M) by lia.
  assert (P0 : pinv i (ps_c s) s) by (constructor; auto).
  destruct (third_spec i _ m s xo s3 HiW HWM P0 Hxo H3) as [P3 G3].
  assert (Hrx : Forall (xo_lt i) (rev xo)) by (apply Forall_rev, Hxo).
  assert (Lw3 : lowrows i s3).
  { intros k j Hk Hj. rewrite G3 by lia. rewrite (colapply_high i _ Hrx) by lia. apply Hlow; assumption. }
  destruct (fourth_spec i _ m s3 s4 HiW HWM P3 Lw3 H4) as [P4 [Fr Z]].
  assert (Q4 : q5 (ps_c s) s4).
  { destruct P4 as [L4 Hh4 _ _ HL4 _ Hc4 _]. unfold q5. split; [exact L4|]. split; [exact Hh4|]. split; assumption. }
  destruct (fifth_spec i _ m s4 xo s5 HiM Q4 Hxo H5) as [[L5 [_ [Hc5 HL5]]] G5].
  split; [exact L5|]. split; [exact Hc5|]. split; [exact HL5|].
  intros k j Hk Hj. rewrite G5 by lia.
  destruct (N.ltb_spec j i) as [Hji|Hji].
  - transitivity (colapply xo (colapply (rev xo) (fun k => G s k j)) k).
    { apply (colapply_ext_lt i M xo Hxo HiM); [|lia]. intros k' Hk'.
      rewrite Fr by (try lia; left; exact Hji). apply G3, Hk'. }
    rewrite (colapply_cancel i M xo Hxo HiM) by lia.
    destruct (N.ltb_spec k i); [apply HI; assumption | apply Hlow; lia].
  - destruct (N.ltb_spec k i) as [Hki|Hki].
    + rewrite (colapply_zero i xo Hxo); [| intros k' Hk'; apply Z; lia | exact Hki].
      destruct (N.eqb_spec k j); [lia | reflexivity].
    + rewrite (colapply_high i xo Hxo) by exact Hki.
      rewrite Fr by (try lia; right; exact Hki). apply Lw3; lia.
Qed.

(* the final Reorder: index_mapping[c[i]] = d[i] *)
Lemma final_cert s ord : lite M s -> permN W (ps_c s) -> ps_L s = W -> W <= M ->
  (forall k j, k < W -> j < W -> G s k j = if k =? j then 1 else 0) ->
  reorder_of s = Ok ord ->
  check_cert mulN (N.to_nat W) A0 (map sym_of (rev (ps_ops s))) (map N.to_nat ord) = true.
Proof.
  intros L Pc HL HWM HG H. rewrite <- HL in Pc. destruct (reorder_spec _ _ Pc H) as [Len Hord].
  rewrite HL in Pc, Len, Hord.
  assert (LA : length A0 = N.to_nat M) by (unfold lenN in A0_len; lia).
  unfold check_cert. rewrite !andb_true_iff. split; [split; [split|]|].
  - apply (sops_valid A0 M A0_len). apply (lt_ops _ _ L).
  - apply Nat.eqb_eq. rewrite map_length. exact Len.
  - apply forallb_forall. intros x Hx. apply in_map_iff in Hx. destruct Hx as [y [<- Hy]].
    destruct (In_nth _ _ 0 Hy) as [p [Lp Ep]].
    destruct (perm_surj W (ps_c s) (N.of_nat p) Pc) as [t [Ht Et]]; [lia|].
    fold (cat s t) in Et. specialize (Hord t Ht). rewrite Et, Nat2N.id, Ep in Hord.
    apply Nat.ltb_lt. rewrite LA, Hord. pose proof (dat_lt A0 M A0_len s t L). lia.
  - apply forallb_forall. intros j Hj. apply in_seq in Hj.
    destruct (perm_surj W (ps_c s) (N.of_nat j) Pc) as [t [Ht Et]]; [lia|]. fold (cat s t) in Et.
    pose proof (Hord t Ht) as Ho. rewrite Et, Nat2N.id in Ho.
    replace (nth j (map N.to_nat ord) 0%nat) with (N.to_nat (dat s t))
      by (rewrite <- Ho; symmetry; apply (map_nth N.to_nat ord 0)).
    change (nth (N.to_nat (dat s t)) (apply_ops mulN (map sym_of (rev (ps_ops s))) A0) [])
      with (rowN (Bmat A0 s) (dat s t)).
    assert (Dt : dat s t < M) by (apply (dat_lt A0 M A0_len s t L); lia).
    pose proof (Bmat_row_len A0 M W A0_wf A0_len s (dat s t) L Dt) as RL.
    assert (Erow : rowN (Bmat A0 s) (dat s t) = unit_row (N.to_nat W) j).
    { apply (nth_ext _ _ 0 0); [rewrite RL, unit_row_length; reflexivity|].
      intros x Hx. rewrite RL in Hx.
      destruct (perm_surj W (ps_c s) (N.of_nat x) Pc) as [t' [Ht' Et']]; [lia|]. fold (cat s t') in Et'.
      rewrite nth_unit_row by lia.
      pose proof (HG t t' Ht Ht') as Hg. unfold PiSolverG.G, cell in Hg. rewrite Et', Nat2N.id in Hg. rewrite Hg.
      destruct (N.eqb_spec t t') as [->|Hne].
      - assert (x = j) by lia. subst x. rewrite Nat.eqb_refl. reflexivity.
      - destruct (Nat.eqb_spec x j) as [->|]; [|reflexivity]. exfalso. apply Hne.
        apply (perm_inj W (ps_c s)); try assumption. unfold cat in Et, Et'. congruence. }
    rewrite Erow. apply vec_eqb_refl.
Qed.

Lemma final_order_nodup s ord : lite M s -> permN W (ps_c s) -> ps_L s = W -> W <= M ->
  reorder_of s = Ok ord -> NoDup (map N.to_nat ord) /\ length ord = N.to_nat W.
Proof.
  intros L Pc HL HWM H. rewrite <- HL in Pc. destruct (reorder_spec _ _ Pc H) as [Len Hord].
  rewrite HL in Pc, Len, Hord. split; [|exact Len].
  apply (proj2 (NoDup_nth _ 0%nat)). rewrite map_length. intros p q Lp Lq E.
  assert (E' : nth p ord 0 = nth q ord 0).
  { apply N2Nat.inj. rewrite <- (map_nth N.to_nat ord 0 p), <- (map_nth N.to_nat ord 0 q). exact E. }
  destruct (perm_surj W (ps_c s) (N.of_nat p) Pc) as [t [Ht Et]]; [lia|]. fold (cat s t) in Et.
  destruct (perm_surj W (ps_c s) (N.of_nat q) Pc) as [t' [Ht' Et']]; [lia|]. fold (cat s t') in Et'.
  pose proof (Hord t Ht) as Ho. rewrite Et, Nat2N.id in Ho.
  pose proof (Hord t' Ht') as Ho'. rewrite Et', Nat2N.id in Ho'.
  assert (t = t') by (apply (dat_inj A0 M A0_len s); try assumption; try lia; congruence).
  subst t'. apply Nat2N.inj. congruence.
Qed.

End P345.

(* the table multiplication of Model/Octet.v and the trie multiplication of Model/FieldFast.v give
   the same certificate check on byte matrices *)
Lemma vscale_fmul c v : c < 256 -> wf_vec v -> vscale fmul c v = vscale mulN c v.
Proof.
  intros Hc Hv. unfold vscale. apply map_ext_in. intros x Hx. apply fmul_mulN; [exact Hc|].
  unfold wf_vec in Hv. rewrite Forall_forall in Hv. apply Hv, Hx.
Qed.

Lemma apply_op_fmul n Mn o rows : op_valid Mn o = true -> wf_mat n rows ->
  apply_op fmul o rows = apply_op mulN o rows.
Proof.
  intros V Hw. pose proof (op_valid_scalar Mn o V) as Sc. destruct o as [d s|d c|d s c]; unfold apply_op.
  - reflexivity.
  - destruct (nth_error rows d) as [rd|] eqn:Ed; [|reflexivity].
    rewrite vscale_fmul; [reflexivity | tauto | apply (wf_mat_nth_error _ _ _ _ Hw Ed)].
  - destruct (nth_error rows d) as [rd|] eqn:Ed; [|reflexivity].
    destruct (nth_error rows s) as [rs|] eqn:Es; [|reflexivity].
    rewrite vscale_fmul; [reflexivity | exact Sc | apply (wf_mat_nth_error _ _ _ _ Hw Es)].
Qed.

Lemma apply_ops_fmul n Mn ops : forall rows, forallb (op_valid Mn) ops = true -> wf_mat n rows ->
  apply_ops fmul ops rows = apply_ops mulN ops rows.
Proof.
  unfold apply_ops. induction ops as [|o ops IH]; intros rows V Hw; [reflexivity|].
  cbn [forallb] in V. apply andb_true_iff in V. destruct V as [V1 V2]. cbn [fold_left].
  rewrite (apply_op_fmul n Mn) by assumption. apply IH; [exact V2|].
  eapply (apply_op_wf mulN inv8 mulN_field); eassumption.
Qed.

Lemma check_cert_mulN_fmul L A ops order : wf_mat L A ->
  check_cert mulN L A ops order = true -> check_cert fmul L A ops order = true.
Proof.
  intros Hw H. unfold check_cert in *. cbv zeta in *.
  assert (V : forallb (op_valid (length A)) ops = true).
  { apply andb_true_iff in H. destruct H as [H _]. apply andb_true_iff in H. destruct H as [H _].
    apply andb_true_iff in H. tauto. }
  rewrite (apply_ops_fmul L (length A) ops A V Hw). exact H.
Qed.
