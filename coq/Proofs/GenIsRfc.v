(* The tables and constants re-extracted from the crate sources (Gen/) are those of RFC 6330
   (the committed snapshot Spec/Tables_RFC.v).  Re-checked on every run. *)
From Coq Require Import NArith List.
From RQ Require Import Gen.Consts Gen.RandTables Gen.SysTables Spec.Tables_RFC.
Open Scope N_scope.

Lemma V0_is_rfc : V0 = RFC_V0. Proof. vm_compute. reflexivity. Qed.
Lemma V1_is_rfc : V1 = RFC_V1. Proof. vm_compute. reflexivity. Qed.
Lemma V2_is_rfc : V2 = RFC_V2. Proof. vm_compute. reflexivity. Qed.
Lemma V3_is_rfc : V3 = RFC_V3. Proof. vm_compute. reflexivity. Qed.
Lemma TABLE2_is_rfc : TABLE2 = RFC_TABLE2. Proof. vm_compute. reflexivity. Qed.
Lemma DEG_F_is_rfc : DEG_F = RFC_DEG_F. Proof. vm_compute. reflexivity. Qed.

Lemma TUPLE_A_BASE_is_rfc : TUPLE_A_BASE = 53591. Proof. reflexivity. Qed.
Lemma TUPLE_A_MUL_is_rfc : TUPLE_A_MUL = 997. Proof. reflexivity. Qed.
Lemma TUPLE_B_MUL_is_rfc : TUPLE_B_MUL = 10267. Proof. reflexivity. Qed.
Lemma TUPLE_Y_MOD_is_rfc : TUPLE_Y_MOD = 2 ^ 32. Proof. reflexivity. Qed.
Lemma TUPLE_V_RANGE_is_rfc : TUPLE_V_RANGE = 2 ^ 20. Proof. reflexivity. Qed.
Lemma DEG_V_LIMIT_is_rfc : DEG_V_LIMIT = 2 ^ 20. Proof. reflexivity. Qed.
Lemma MAX_K_is_rfc : MAX_SOURCE_SYMBOLS_PER_BLOCK = 56403. Proof. reflexivity. Qed.

Lemma consts_are_rfc :
  TUPLE_A_BASE = RFC_TUPLE_A_BASE /\ TUPLE_A_MUL = RFC_TUPLE_A_MUL /\
  TUPLE_B_MUL = RFC_TUPLE_B_MUL /\ MAX_SOURCE_SYMBOLS_PER_BLOCK = RFC_MAX_K.
Proof. repeat split. Qed.

Lemma len_V : length V0 = 256%nat /\ length V1 = 256%nat /\ length V2 = 256%nat /\ length V3 = 256%nat.
Proof. repeat split. Qed.
Lemma len_TABLE2 : length TABLE2 = 477%nat /\ length P1_TABLE = 477%nat. Proof. split; reflexivity. Qed.
Lemma len_DEG_F : length DEG_F = 31%nat. Proof. reflexivity. Qed.
