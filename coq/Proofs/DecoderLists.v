(* Generic facts about the outcome combinators (ofold, ofor, omapM), list_put / list_upd / nth_ok,
   enumerate_from and permutations, used by the decoder proofs. *)
From Coq Require Import NArith List Bool Arith Lia Permutation.
From RQ Require Import Base.Outcome Base.Ints Base.ListX Spec.Linear Model.CMatrix Model.Layout
  Proofs.LinearProofs.
Import ListNotations.
Open Scope N_scope.

Arguments N.add : simpl never.
Arguments N.sub : simpl never.
Arguments N.mul : simpl never.

(* ---- ofold / omapM ---- *)

Lemma ofold_app {A St} (f : A -> St -> outcome St) l1 l2 s :
  ofold f (l1 ++ l2) s = obind (ofold f l1 s) (fun s' => ofold f l2 s').
Proof.
  revert s; induction l1 as [|a t IH]; intros s; cbn [app ofold obind]; [reflexivity|].
  destruct (f a s) as [s'|c]; cbn [obind]; [apply IH | reflexivity].
Qed.

Lemma omapM_Forall2 {A B} (f : A -> outcome B) l bs :
  omapM f l = Ok bs <-> Forall2 (fun a b => f a = Ok b) l bs.
Proof.
  revert bs; induction l as [|a t IH]; intros bs; cbn [omapM].
  - split; intros H; [injection H as <-; constructor | inversion H; reflexivity].
  - split.
    + intros H. destruct (f a) as [b|c] eqn:E; [|discriminate].
      destruct (omapM f t) as [bs'|c] eqn:E2; [|discriminate]. injection H as <-.
      constructor; [exact E | apply IH; reflexivity].
    + intros H. inversion H as [|a' b l' bs' Hab Hrest]; subst. rewrite Hab.
      apply IH in Hrest. rewrite Hrest. reflexivity.
Qed.

Lemma omapM_length {A B} (f : A -> outcome B) l bs : omapM f l = Ok bs -> length bs = length l.
Proof. intros H. apply omapM_Forall2 in H. symmetry. eapply Forall2_len; exact H. Qed.

Lemma omapM_ok_of_all {A B} (f : A -> outcome B) l :
  (forall a, In a l -> exists b, f a = Ok b) -> exists bs, omapM f l = Ok bs.
Proof.
  induction l as [|a t IH]; intros H; cbn [omapM]; [eexists; reflexivity|].
  destruct (H a (or_introl eq_refl)) as [b Hb]. rewrite Hb.
  destruct IH as [bs Hbs]; [intros x Hx; apply H; right; exact Hx|]. rewrite Hbs. eexists; reflexivity.
Qed.

Lemma omapM_all_of_ok {A B} (f : A -> outcome B) l bs :
  omapM f l = Ok bs -> forall a, In a l -> exists b, f a = Ok b /\ In b bs.
Proof.
  intros H. apply omapM_Forall2 in H. induction H as [|a b l bs Hab _ IH]; intros x Hx; [destruct Hx|].
  destruct Hx as [<-|Hx]; [exists b; split; [exact Hab | left; reflexivity]|].
  destruct (IH x Hx) as [b' [H1 H2]]. exists b'. split; [exact H1 | right; exact H2].
Qed.

Lemma omapM_Forall_out {A B} (f : A -> outcome B) (Q : B -> Prop) l bs :
  omapM f l = Ok bs -> (forall a b, In a l -> f a = Ok b -> Q b) -> Forall Q bs.
Proof.
  intros H. apply omapM_Forall2 in H. induction H as [|a b l bs Hab _ IH]; intros HQ; constructor.
  - apply (HQ a b); [left; reflexivity | exact Hab].
  - apply IH. intros a' b' Hin. apply HQ. right. exact Hin.
Qed.

Lemma omapM_app {A B} (f : A -> outcome B) l1 l2 :
  omapM f (l1 ++ l2) =
  match omapM f l1 with
  | Ok b1 => match omapM f l2 with Ok b2 => Ok (b1 ++ b2) | Panic c => Panic c end
  | Panic c => Panic c
  end.
Proof.
  induction l1 as [|a t IH]; cbn [app omapM].
  - destruct (omapM f l2); reflexivity.
  - destruct (f a) as [b|c]; [|reflexivity]. rewrite IH.
    destruct (omapM f t) as [b1|c]; [|reflexivity]. destruct (omapM f l2); reflexivity.
Qed.

Lemma Forall2_perm_l {A B} (R : A -> B -> Prop) l l' bs :
  Permutation l l' -> Forall2 R l bs -> exists bs', Forall2 R l' bs' /\ Permutation bs bs'.
Proof.
  intros P. revert bs. induction P as [|x l l' P IH|x y l|l l' l'' P1 IH1 P2 IH2]; intros bs H.
  - inversion H; subst. exists []. split; constructor.
  - inversion H as [|a b t bt Hab Hrest]; subst. destruct (IH bt Hrest) as [bs' [H1 H2]].
    exists (b :: bs'). split; [constructor; assumption | apply perm_skip; exact H2].
  - inversion H as [|a b t bt Hab Hrest]; subst. inversion Hrest as [|a2 b2 t2 bt2 Hab2 Hrest2]; subst.
    exists (b2 :: b :: bt2). split; [repeat constructor; assumption | apply perm_swap].
  - destruct (IH1 bs H) as [bs1 [H1 H2]]. destruct (IH2 bs1 H1) as [bs2 [H3 H4]].
    exists bs2. split; [exact H3 | eapply perm_trans; eassumption].
Qed.

Lemma omapM_perm {A B} (f : A -> outcome B) l l' bs :
  Permutation l l' -> omapM f l = Ok bs -> exists bs', omapM f l' = Ok bs' /\ Permutation bs bs'.
Proof.
  intros P H. apply omapM_Forall2 in H. destruct (Forall2_perm_l _ _ _ _ P H) as [bs' [H1 H2]].
  exists bs'. split; [apply omapM_Forall2; exact H1 | exact H2].
Qed.

(* ---- ofor ---- *)

Lemma ofor_inv {St} (Q : St -> Prop) (f : N -> St -> outcome St) :
  (forall i s s', Q s -> f i s = Ok s' -> Q s') ->
  forall n i s s', Q s -> ofor n i f s = Ok s' -> Q s'.
Proof.
  intros Hf. induction n as [|n IH]; intros i s s' HQ H; cbn [ofor] in H.
  - injection H as <-. exact HQ.
  - destruct (f i s) as [s1|c] eqn:E; [|discriminate]. cbn [obind] in H.
    eapply IH; [eapply Hf; eassumption | exact H].
Qed.

Lemma ofor_ok {St} (Q : St -> Prop) (f : N -> St -> outcome St) :
  forall n i s, (forall k s, i <= k < i + N.of_nat n -> Q s -> exists s', f k s = Ok s' /\ Q s') ->
  Q s -> exists s', ofor n i f s = Ok s' /\ Q s'.
Proof.
  induction n as [|n IH]; intros i s Hf HQ; cbn [ofor].
  - exists s. split; [reflexivity | exact HQ].
  - destruct (Hf i s ltac:(lia) HQ) as [s1 [E Q1]]. rewrite E. cbn [obind].
    apply IH; [|exact Q1]. intros k s0 Hk. apply Hf. lia.
Qed.

(* a loop that only touches a prefix of the state *)
Lemma ofor_app_l {A} (f : N -> list A -> outcome (list A)) (rest : list A) (len : nat) :
  forall n i mat,
  (forall k mat, i <= k < i + N.of_nat n -> length mat = len ->
     f k (mat ++ rest) = obind (f k mat) (fun t => Ok (t ++ rest)) /\
     (forall t, f k mat = Ok t -> length t = len)) ->
  length mat = len ->
  ofor n i f (mat ++ rest) = obind (ofor n i f mat) (fun t => Ok (t ++ rest)).
Proof.
  induction n as [|n IH]; intros i mat Hf Hl; cbn [ofor obind]; [reflexivity|].
  destruct (Hf i mat ltac:(lia) Hl) as [E Hlen]. rewrite E.
  destruct (f i mat) as [t|c]; cbn [obind]; [|reflexivity].
  apply IH; [|apply Hlen; reflexivity]. intros k mat0 Hk. apply Hf. lia.
Qed.

(* ---- nth_ok, list_put, list_upd ---- *)

Lemma nth_ok_some {A} (l : list A) i a : nth_error l i = Some a -> nth_ok l i = Ok a.
Proof. intros H. unfold nth_ok. rewrite H. reflexivity. Qed.

Lemma nth_ok_inv {A} (l : list A) i a : nth_ok l i = Ok a -> nth_error l i = Some a.
Proof. unfold nth_ok. destruct (nth_error l i); intros H; [injection H as <-; reflexivity | discriminate]. Qed.

Lemma nth_ok_lt {A} (l : list A) i : (i < length l)%nat -> exists a, nth_ok l i = Ok a /\ nth_error l i = Some a.
Proof.
  intros H. destruct (nth_error l i) as [a|] eqn:E.
  - exists a. split; [apply nth_ok_some; exact E | reflexivity].
  - apply nth_error_None in E. lia.
Qed.

Lemma list_put_spec {A} (l : list A) i v :
  (i < length l)%nat -> list_put l i v = Ok (upd_nth i v l).
Proof.
  revert i; induction l as [|x t IH]; intros [|i] H; cbn in H; try lia; cbn [list_put upd_nth]; [reflexivity|].
  rewrite IH by lia. reflexivity.
Qed.

Lemma list_put_inv {A} (l : list A) i v l' :
  list_put l i v = Ok l' -> (i < length l)%nat /\ l' = upd_nth i v l.
Proof.
  revert i l'; induction l as [|x t IH]; intros i l' H; [destruct i; discriminate H|].
  destruct i as [|i]; cbn [list_put] in H.
  - injection H as <-. split; [cbn; lia | reflexivity].
  - destruct (list_put t i v) as [t'|c] eqn:E; [|discriminate]. injection H as <-.
    destruct (IH i t' E) as [H1 ->]. split; [cbn; lia | reflexivity].
Qed.

Lemma list_put_panic {A} (l : list A) i v : (length l <= i)%nat -> list_put l i v = Panic PIndex.
Proof.
  revert i; induction l as [|x t IH]; intros i H; [destruct i; reflexivity|].
  destruct i as [|i]; cbn in H; [lia|]. cbn [list_put]. rewrite IH by lia. reflexivity.
Qed.

Lemma list_upd_inv {A} (l : list A) i f l' :
  list_upd l i f = Ok l' -> exists x, nth_error l i = Some x /\ l' = upd_nth i (f x) l.
Proof.
  revert i l'; induction l as [|x t IH]; intros i l' H; [destruct i; discriminate H|].
  destruct i as [|i]; cbn [list_upd] in H.
  - injection H as <-. exists x. split; reflexivity.
  - destruct (list_upd t i f) as [t'|c] eqn:E; [|discriminate]. injection H as <-.
    destruct (IH i t' E) as [y [H1 ->]]. exists y. split; [exact H1 | reflexivity].
Qed.

Lemma list_upd_spec {A} (l : list A) i f x :
  nth_error l i = Some x -> list_upd l i f = Ok (upd_nth i (f x) l).
Proof.
  revert i; induction l as [|y t IH]; intros [|i] H; cbn in H; try discriminate; cbn [list_upd upd_nth].
  - injection H as ->. reflexivity.
  - rewrite (IH i H). reflexivity.
Qed.

Lemma upd_nth_app_mid {A} (pre post : list A) x y :
  upd_nth (length pre) y (pre ++ x :: post) = pre ++ y :: post.
Proof. induction pre as [|a t IH]; cbn [length app upd_nth]; [reflexivity | rewrite IH; reflexivity]. Qed.

Lemma nth_error_app_mid {A} (pre post : list A) x : nth_error (pre ++ x :: post) (length pre) = Some x.
Proof. induction pre as [|a t IH]; cbn; [reflexivity | exact IH]. Qed.

Lemma upd_nth_app_l {A} (l rest : list A) i x :
  (i < length l)%nat -> upd_nth i x (l ++ rest) = upd_nth i x l ++ rest.
Proof.
  revert i; induction l as [|a t IH]; intros [|i] H; cbn in H; try lia; cbn [app upd_nth]; [reflexivity|].
  rewrite IH by lia. reflexivity.
Qed.

Lemma nth_error_upd {A} i j (x : A) l :
  nth_error (upd_nth i x l) j =
  if Nat.eqb i j then (if Nat.ltb i (length l) then Some x else None) else nth_error l j.
Proof.
  destruct (Nat.eqb i j) eqn:E.
  - apply Nat.eqb_eq in E. subst j. destruct (Nat.ltb i (length l)) eqn:E2.
    + apply Nat.ltb_lt in E2. apply nth_error_upd_same. exact E2.
    + apply Nat.ltb_ge in E2. apply nth_error_None. rewrite upd_nth_length. exact E2.
  - apply Nat.eqb_neq in E. apply nth_error_upd_other. exact E.
Qed.

(* ---- enumerate_from ---- *)

Lemma enumerate_from_in {A} (l : list A) : forall s i a,
  In (i, a) (enumerate_from s l) <-> exists k, i = s + N.of_nat k /\ nth_error l k = Some a.
Proof.
  induction l as [|x t IH]; intros s i a; cbn [enumerate_from In].
  - split; [intros [] | intros [k [_ H]]; destruct k; discriminate H].
  - rewrite IH. split.
    + intros [E|[k [E1 E2]]].
      * injection E as <- <-. exists 0%nat. split; [lia | reflexivity].
      * exists (S k). split; [lia | exact E2].
    + intros [[|k] [E1 E2]].
      * left. cbn in E2. injection E2 as <-. f_equal. lia.
      * right. exists k. split; [lia | exact E2].
Qed.

Lemma enumerate_from_fst {A} (l : list A) : forall s,
  map fst (enumerate_from s l) = map (fun k => s + N.of_nat k) (seq 0 (length l)).
Proof.
  induction l as [|x t IH]; intros s; cbn [enumerate_from map length seq fst]; [reflexivity|].
  f_equal; [lia|]. rewrite IH, <- seq_shift, map_map. apply map_ext. intros k. lia.
Qed.

Lemma enumerate_from_snd {A} (l : list A) : forall s, map snd (enumerate_from s l) = l.
Proof. induction l as [|x t IH]; intros s; cbn [enumerate_from map]; [reflexivity | rewrite IH; reflexivity]. Qed.

Lemma enumerate_from_length {A} (l : list A) : forall s, length (enumerate_from s l) = length l.
Proof. induction l as [|x t IH]; intros s; cbn [enumerate_from length]; [reflexivity | rewrite IH; reflexivity]. Qed.

(* ---- lists of options ---- *)

Lemma opt_list_ext {A} (l1 l2 : list (option A)) :
  length l1 = length l2 ->
  (forall k x, nth_error l1 k = Some (Some x) <-> nth_error l2 k = Some (Some x)) -> l1 = l2.
Proof.
  revert l2; induction l1 as [|a t IH]; intros [|b t2] Hl H; cbn in Hl; try discriminate; [reflexivity|].
  f_equal.
  - pose proof (H 0%nat) as H0. cbn in H0. destruct a as [x|], b as [y|]; try reflexivity.
    + destruct (H0 x) as [H1 _]. specialize (H1 eq_refl). injection H1 as ->. reflexivity.
    + destruct (H0 x) as [H1 _]. specialize (H1 eq_refl). discriminate.
    + destruct (H0 y) as [_ H1]. specialize (H1 eq_refl). discriminate.
  - apply IH; [lia|]. intros k x. exact (H (S k) x).
Qed.

(* ---- NoDup / permutation helpers ---- *)

Lemma NoDup_map_inj_in {A B} (f : A -> B) (l : list A) x y :
  NoDup (map f l) -> In x l -> In y l -> f x = f y -> x = y.
Proof.
  induction l as [|a t IH]; intros ND Hx Hy E; [destruct Hx|].
  cbn [map] in ND. inversion ND as [|? ? Hn ND']; subst.
  destruct Hx as [<-|Hx], Hy as [<-|Hy]; try reflexivity.
  - exfalso. apply Hn. rewrite E. apply in_map. exact Hy.
  - exfalso. apply Hn. rewrite <- E. apply in_map. exact Hx.
  - apply IH; assumption.
Qed.

Lemma NoDup_of_map {A B} (f : A -> B) (l : list A) : NoDup (map f l) -> NoDup l.
Proof.
  induction l as [|a t IH]; intros ND; [constructor|].
  cbn [map] in ND. inversion ND as [|? ? Hn ND']; subst. constructor; [|apply IH; exact ND'].
  intros Hin. apply Hn. apply in_map. exact Hin.
Qed.

Lemma same_set_NoDup_length {A} (l1 l2 : list A) :
  NoDup l1 -> NoDup l2 -> (forall x, In x l1 <-> In x l2) -> length l1 = length l2.
Proof. intros N1 N2 H. apply Permutation_length. apply NoDup_Permutation; assumption. Qed.
