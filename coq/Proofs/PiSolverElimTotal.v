(* The two elimination loops of a first-phase step (rows of pivot_column_ones, HDPC rows) never
   panic, and the complete statistics invariant survives the first one. *)
From Coq Require Import NArith List Bool Lia Arith.
From RQ Require Import Base.Outcome Base.Ints Base.ListX Model.Octet Model.CMatrix Model.Slab
  Spec.Linear Proofs.OutcomeLemmas Proofs.OctetProofs Proofs.LinearProofs Model.PiSolver
  Proofs.PiSolverBase Proofs.PiSolverStruct Proofs.PiSolverOps Proofs.PiSolverG Proofs.PiSolverInvDefs
  Proofs.PiSolverStats Proofs.PiSolverHist Proofs.PiSolverGraph Proofs.PiSolverXStats
  Proofs.PiSolverSwapCols Proofs.PiSolverCells Proofs.PiSolverPhase1.
Import ListNotations.
Open Scope N_scope.


(* ---- forward (totality) lemmas for the primitives ---- *)
Lemma usub_ok m a b : b <= a -> usub m a b = Ok (a - b).
Proof. intros H. unfold usub, sub_w. destruct (N.leb_spec b a); [reflexivity | lia]. Qed.

Lemma getN_okN {A} (l : list A) i d : i < lenN l -> getN l i = Ok (nth (N.to_nat i) l d).
Proof. intros H. apply getN_ok. unfold lenN in H. lia. Qed.

Lemma putN_okN {A} (l : list A) i v : i < lenN l -> putN l i v = Ok (upd_nth (N.to_nat i) v l).
Proof. intros H. apply putN_ok. unfold lenN in H. lia. Qed.

Lemma record_fma_rows_ok s i ip beta : i < lenN (ps_d s) -> ip < lenN (ps_d s) ->
  exists s1, record_fma_rows s i ip beta = Ok s1.
Proof.
  intros Hi Hip. unfold record_fma_rows.
  rewrite (getN_okN _ ip 0 Hip). cbn [obind]. rewrite (getN_okN _ i 0 Hi). cbn [obind]. eauto.
Qed.

Lemma bm_add_rows_ok A dest src sc : dest <> src -> dest < lenN A -> src < lenN A ->
  exists A', bm_add_rows A dest src sc = Ok A'.
Proof.
  intros Hne Hd Hs. unfold bm_add_rows. destruct (N.eqb_spec dest src) as [|_]; [contradiction|].
  rewrite (getN_okN _ dest [] Hd). cbn [obind]. rewrite (getN_okN _ src [] Hs). cbn [obind].
  rewrite (putN_okN _ dest _ Hd). eauto.
Qed.

Lemma lite_lenN_d Mn s : lite Mn s -> lenN (ps_d s) = Mn.
Proof. intros L. apply (lt_d _ _ L). Qed.

Lemma hd_rows_some s h : ps_hd s = Some h -> hd_rows s = h.
Proof. intros E. unfold hd_rows. rewrite E. reflexivity. Qed.

Lemma fma_rows_ok m s i ip sc Mn :
  lenN (ps_d s) = Mn -> ps_height s = Mn -> lenN (hd_rows s) <= Mn ->
  i <> ip -> i + lenN (hd_rows s) < Mn -> ip + lenN (hd_rows s) < Mn ->
  exists s', fma_rows m s i ip sc = Ok s'.
Proof.
  intros Ld Lh Hh Hne Hi Hip. unfold fma_rows.
  destruct (record_fma_rows_ok s i ip 1) as [s1 E1]; try lia.
  destruct (record_fma_frame _ _ _ _ _ E1) as (EA & Eh & _).
  rewrite E1. cbn [obind]. unfold ps_height in *.
  destruct (bm_add_rows_ok (ps_A s) ip i sc) as [A' EA']; try lia.
  unfold hd_rows in *. rewrite Eh, EA. destruct (ps_hd s) as [h|].
  - rewrite Lh. rewrite usub_ok by exact Hh. cbn [obind].
    replace (i <? Mn - lenN h) with true by (symmetry; apply N.ltb_lt; lia). cbn [assert_ok obind].
    destruct (N.leb_spec (Mn - lenN h) ip); [lia|]. rewrite EA'. cbn [obind]. eauto.
  - rewrite EA'. cbn [obind]. eauto.
Qed.

Lemma st_recompute_od m st A row st' : st_recompute_row m st A row = Ok st' -> st_od st' = st_od st.
Proof.
  unfold st_recompute_row. intros H. omon H.
  match type of H with (if ?c then _ else _) = _ => destruct c end.
  - unfold st_add_graph_edge in H. omon H. inversion H; subst. reflexivity.
  - inversion H; subst. reflexivity.
Qed.

(* a fold is total when every step is total and preserves an invariant *)
Lemma ofold_total {A St} (Q : St -> Prop) (f : A -> St -> outcome St) l :
  (forall a s, In a l -> Q s -> exists s', f a s = Ok s' /\ Q s') ->
  forall s, Q s -> exists r, ofold f l s = Ok r /\ Q r.
Proof.
  induction l as [|a l IH]; intros Hstep s Hs.
  - exists s. split; [reflexivity | exact Hs].
  - destruct (Hstep a s (or_introl eq_refl) Hs) as [s1 [E1 Q1]].
    destruct (IH (fun a' s0 Hin => Hstep a' s0 (or_intror Hin)) s1 Q1) as [r [E2 Q2]].
    exists r. split; [|exact Q2]. cbn [ofold]. rewrite E1. cbn [obind]. exact E2.
Qed.

Lemma map2_len {A B C} (f : A -> B -> C) u v : length u = length v -> length (Slab.map2 f u v) = length u.
Proof.
  revert v; induction u as [|x u IH]; intros [|y v] H; cbn in *; try discriminate; [reflexivity|].
  rewrite IH by lia. reflexivity.
Qed.

(* the HDPC branch of fma_rows_with_pi never panics *)
Lemma fma_rows_with_pi_hdpc_ok m s i ip beta col pio h Mn Wn :
  ps_hd s = Some h -> lenN (ps_d s) = Mn -> dims (ps_A s) Mn Wn -> lenN h <= Mn ->
  Mn - lenN h <= ip -> ip < Mn -> i + lenN h < Mn ->
  Forall (fun r => lenN r = Wn) h -> ps_W s = Wn -> lenN pio <= Wn -> col < Wn -> beta <> 0 ->
  exists s', fma_rows_with_pi m s i ip beta col pio = Ok s'.
Proof.
  intros Eh Ld D Hle Hip HipM Hi Hrows HW Hpio Hcol Hb. unfold fma_rows_with_pi.
  destruct (record_fma_rows_ok s i ip beta) as [s1 E1]; try lia.
  destruct (record_fma_frame _ _ _ _ _ E1) as (EA & Eh1 & _ & _ & EW & _).
  rewrite E1. cbn [obind]. rewrite Eh1, Eh. unfold ps_height. rewrite EA, EW, HW.
  destruct D as [LA RA]. rewrite LA. rewrite usub_ok by exact Hle. cbn [obind].
  replace (i <? Mn - lenN h) with true by (symmetry; apply N.ltb_lt; lia). cbn [assert_ok obind].
  destruct (N.leb_spec (Mn - lenN h) ip) as [_|]; [|lia].
  set (hr := ip - (Mn - lenN h)).
  assert (Lhr : hr < lenN h) by (unfold hr; lia).
  rewrite (getN_okN h hr [] Lhr). cbn [obind].
  set (row := nth (N.to_nat hr) h []).
  assert (Lrow : lenN row = Wn) by (apply (Forall_nth_N (fun r => lenN r = Wn)); assumption).
  assert (R2 : exists row2, (match m with
      | Checked => mult <- bm_get (ps_A s) i col ;; v <- getN row col ;;
           putN row col (if negb (mult =? 0) && negb (beta =? 0) then N.lxor v (mulN mult beta) else v)
      | Release => Ok row end)%outcome = Ok row2 /\ lenN row2 = Wn).
  { destruct m; [exists row; auto|].
    assert (Li : i < lenN (ps_A s)) by lia.
    unfold bm_get. rewrite (getN_okN _ i [] Li). cbn [obind].
    assert (Lri : lenN (nth (N.to_nat i) (ps_A s) []) = Wn)
      by (apply (Forall_nth_N (fun r => lenN r = Wn)); assumption).
    rewrite (getN_okN _ col 0) by lia. cbn [obind].
    rewrite (getN_okN row col 0) by lia. cbn [obind].
    rewrite (putN_okN row col) by lia. eexists. split; [reflexivity|]. rewrite lenN_upd. exact Lrow. }
  destruct R2 as (row2 & ER2 & Lrow2). rewrite ER2. cbn [obind].
  rewrite usub_ok by exact Hpio. cbn [obind].
  replace (Wn - lenN pio + lenN pio) with Wn by lia.
  rewrite Lrow2. destruct (N.leb_spec Wn Wn) as [_|]; [|lia]. cbn [obind].
  unfold fma_binary.
  assert (X : (match m with Checked => assert_ok (negb (beta =? 0)) | Release => Ok tt end) = Ok tt).
  { destruct m; [reflexivity|]. destruct (N.eqb_spec beta 0); [contradiction | reflexivity]. }
  rewrite X. cbn [obind].
  assert (Lsub : length (subl row2 (Wn - lenN pio) Wn) = length pio).
  { rewrite subl_length by lia. unfold lenN in *. lia. }
  rewrite Lsub, Nat.eqb_refl. cbn [assert_ok obind].
  rewrite (putN_okN h hr _ Lhr). cbn [obind]. eauto.
Qed.

Section ET.
Variable A0 : list (list N).
Variable M W Hn : N.
Hypothesis A0_wf : wf_mat (N.to_nat W) A0.
Hypothesis A0_len : lenN A0 = M.
Hypothesis W16 : W < 65536.
Hypothesis HM : Hn <= M.
Hypothesis M32 : M < 4294967296.
Local Notation fp_inv := (fp_inv A0 M W Hn).
Local Notation el_inv := (el_inv A0 M W Hn).

Lemma el_step_total m r b stb ec N0 done s st rops row :
  fp_inv b stb -> ps_i b + Hn < M ->
  1 <= r -> ec = W - ps_u b - (r - 1) -> ps_i b + 1 <= ec -> ps_u b + (r - 1) <= W ->
  (forall j, ps_i b < j < ec -> cell (ps_A b) (ps_i b) j = 0) ->
  ps_i b < row -> row + Hn < M -> ~ In (ps_i b) done ->
  el_inv b ec done s st ->
  xst_inv (ps_A s) st (ps_i b + 1) (M - Hn) (ps_i b + 1) ec N0 -> ec <= N0 -> N0 <= W ->
  exists s' st' rops',
    eliminate_row m r (ps_i b) 1 row (s, st, rops) = Ok (s', st', rops') /\
    xst_inv (ps_A s') st' (ps_i b + 1) (M - Hn) (ps_i b + 1) ec N0 /\ st_od st' = st_od st.
Proof.
  intros Ib HiM Hr Hec Hec1 Hur Hshape Hirow HrowM Hind E X HN0 HN0W.
  pose proof (ei_dims _ _ _ _ _ _ _ _ _ E) as D. pose proof (ei_lite _ _ _ _ _ _ _ _ _ E) as Ls.
  assert (Hh : lenN (hd_rows s) = Hn).
  { unfold hd_rows. rewrite (ei_hd _ _ _ _ _ _ _ _ _ E). apply (fi_hlen _ _ _ _ _ _ Ib). }
  (* the start column *)
  assert (Hsc : exists a, (match m with
                 | Checked => Ok 0
                 | Release => r1 <- usub m r 1 ;; usub m (ps_W s) (ps_u s + r1) end)%outcome = Ok a /\
                 (a = 0 \/ a = ec)).
  { destruct m; [|exists 0; auto]. rewrite usub_ok by exact Hr. cbn [obind].
    rewrite (ei_W _ _ _ _ _ _ _ _ _ E), (fi_W _ _ _ _ _ _ Ib), (ei_u _ _ _ _ _ _ _ _ _ E).
    rewrite usub_ok by exact Hur. eexists. split; [reflexivity|]. right. lia. }
  destruct Hsc as (a & Ea & Hsc).
  destruct (fma_rows_ok m s (ps_i b) row a M) as [s1 Ef]; try lia.
  { apply (lite_lenN_d _ _ Ls). }
  { unfold ps_height. apply D. }
  destruct (fma_rows_inv _ _ _ _ _ _ Ef) as (s0 & A' & Erec & Eadd & Es1 & _).
  assert (HscW : a <= W) by (destruct Hsc; subst; lia).
  destruct (bm_add_rows_spec _ _ _ _ _ _ _ D HscW Eadd) as (D' & Hne & Lrow & Li & Hother & Hcells).
  assert (EA1 : ps_A s1 = A') by (subst s1; reflexivity).
  assert (Hrowi : forall j, cell (ps_A s) (ps_i b) j = cell (ps_A b) (ps_i b) j).
  { intros j. unfold cell. rewrite (ei_rows _ _ _ _ _ _ _ _ _ E) by exact Hind. reflexivity. }
  assert (Hwin : forall j, ps_i b + 1 <= j < ec -> cell A' row j = cell (ps_A s) row j).
  { intros j Hj. rewrite Hcells. destruct (a <=? j); [|reflexivity].
    rewrite Hrowi, Hshape by lia. apply N.lxor_0_r. }
  unfold eliminate_row. rewrite N.eqb_refl. cbn [assert_ok obind]. rewrite Ea. cbn [obind].
  rewrite Ef. cbn [obind]. destruct (r =? 1).
  - exists s1, st, (RAdd (ps_i b) row :: rops). split; [reflexivity|]. split; [|reflexivity].
    rewrite EA1. apply (xst_ext st (ps_A s)); [exact X | destruct D' as [Y _]; destruct D as [Z _]; lia | |].
    + intros k j Hk Hj. destruct (N.eq_dec k row) as [->|Hkr]; [apply Hwin; exact Hj|].
      unfold cell. rewrite Hother by exact Hkr. reflexivity.
    + intros k Hk. rewrite (dims_row _ _ _ _ D') by lia. rewrite (dims_row _ _ _ _ D) by lia. reflexivity.
  - rewrite EA1.
    destruct (xst_recompute m st (ps_A s) A' M W (ps_i b + 1) (M - Hn) (ps_i b + 1) ec N0 row X D D' M32)
      as (st' & Est' & X'); try assumption; try lia.
    rewrite Est'. cbn [obind]. exists s1, st', (RAdd (ps_i b) row :: rops). split; [reflexivity|].
    rewrite EA1. split; [exact X'|]. apply (st_recompute_od _ _ _ _ _ Est').
Qed.

Lemma el_fold_total m r b stb ec N0 : forall pco done s st rops,
  fp_inv b stb -> ps_i b + Hn < M ->
  1 <= r -> ec = W - ps_u b - (r - 1) -> ps_i b + 1 <= ec -> ps_u b + (r - 1) <= W ->
  (forall j, ps_i b < j < ec -> cell (ps_A b) (ps_i b) j = 0) ->
  NoDup (done ++ pco) -> (forall x, In x (done ++ pco) -> ps_i b < x /\ x + Hn < M) ->
  el_inv b ec done s st ->
  xst_inv (ps_A s) st (ps_i b + 1) (M - Hn) (ps_i b + 1) ec N0 -> ec <= N0 -> N0 <= W ->
  exists s' st' rops',
    ofold (eliminate_row m r (ps_i b) 1) pco (s, st, rops) = Ok (s', st', rops') /\
    xst_inv (ps_A s') st' (ps_i b + 1) (M - Hn) (ps_i b + 1) ec N0 /\ st_od st' = st_od st.
Proof using All.
  induction pco as [|row t IH]; intros done s st rops Ib HiM Hr Hec Hec1 Hur Hshape ND Hrange E X HN0 HN0W.
  - exists s, st, rops. split; [reflexivity|]. split; [exact X | reflexivity].
  - assert (Hrow : ps_i b < row /\ row + Hn < M) by (apply Hrange; apply in_or_app; right; left; reflexivity).
    assert (Hnd : ~ In row done).
    { intros Y. apply NoDup_remove_2 in ND. apply ND. apply in_or_app. left. exact Y. }
    assert (Hind : ~ In (ps_i b) done).
    { intros Y. assert (Z : ps_i b < ps_i b) by (apply Hrange; apply in_or_app; left; exact Y). lia. }
    destruct (el_step_total m r b stb ec N0 done s st rops row Ib HiM Hr Hec Hec1 Hur Hshape
                (proj1 Hrow) (proj2 Hrow) Hind E X HN0 HN0W) as (s1 & st1 & rops1 & E1 & X1 & Od1).
    pose proof (el_step A0 M W Hn A0_wf A0_len W16 HM M32 _ _ _ _ _ _ _ _ _ _ _ _ _ _
                  Ib HiM Hr Hec Hec1 Hur Hshape Hnd (proj1 Hrow) (proj2 Hrow) Hind E E1) as E'.
    destruct (IH (done ++ [row]) s1 st1 rops1 Ib HiM Hr Hec Hec1 Hur Hshape) as (s' & st' & rops' & E2 & X2 & Od2);
      try assumption.
    + rewrite <- app_assoc. exact ND.
    + intros x Hx. apply Hrange. rewrite <- app_assoc in Hx. exact Hx.
    + exists s', st', rops'. split; [|split; [exact X2 | congruence]].
      cbn [ofold]. rewrite E1. cbn [obind]. exact E2.
Qed.

(* the structural invariant carried through the fold over the HDPC rows *)
Definition hdq (A : bmat) (s : pstate) : Prop :=
  lite M s /\ ps_A s = A /\ ps_W s = W /\ lenN (hd_rows s) = Hn /\
  Forall (fun row => lenN row = W) (hd_rows s).

Lemma hd_row_total m i pio hr A s :
  dims A M W -> i + Hn < M -> i < W - lenN pio -> lenN pio <= W -> hr < Hn ->
  hdq A s -> exists s', eliminate_hdpc_row m Hn i 1 pio hr s = Ok s' /\ hdq A s'.
Proof.
  intros D HiM Hi Hpio Hhr (Ls & EA & EW & Hlen & Hrows).
  unfold eliminate_hdpc_row. destruct (ps_hd s) as [h|] eqn:Eh.
  2:{ unfold hd_rows in Hlen. rewrite Eh in Hlen. cbn in Hlen. lia. }
  rewrite (hd_rows_some _ _ Eh) in Hlen, Hrows.
  assert (Lhr : hr < lenN h) by lia.
  assert (Lrow : lenN (nth (N.to_nat hr) h []) = W)
    by (apply (Forall_nth_N (fun r => lenN r = W)); assumption).
  assert (Eget : bm_get h hr i = Ok (cell h hr i)).
  { unfold bm_get. rewrite (getN_okN h hr [] Lhr). cbn [obind]. rewrite (getN_okN _ i 0) by lia. reflexivity. }
  rewrite Eget. cbn [obind].
  assert (Byte : cell h hr i < 256).
  { pose proof (lt_hd _ _ Ls) as Bh. rewrite Eh in Bh. eapply bytes_bm_get; eassumption. }
  destruct (N.eqb_spec (cell h hr i) 0) as [Hz|Hnz].
  - exists s. split; [reflexivity|]. unfold hdq. rewrite (hd_rows_some _ _ Eh). auto.
  - destruct (N.eqb_spec 1 0) as [|_]; [discriminate|]. cbn [obind].
    rewrite divN_1_r by exact Byte.
    assert (HM' : ps_height s = M) by (unfold ps_height; rewrite EA; apply D).
    rewrite HM'. rewrite usub_ok by exact HM. cbn [obind].
    destruct (fma_rows_with_pi_hdpc_ok m s i (hr + (M - Hn)) (cell h hr i) i pio h M W Eh) as [s' Es'];
      try assumption; try lia.
    { apply (lite_lenN_d _ _ Ls). }
    { rewrite EA. exact D. }
    exists s'. split; [exact Es'|].
    pose proof (lite_fma_rows_with_pi _ _ _ _ _ _ _ _ _ Ls Byte Es') as Ls'.
    destruct (fma_rows_with_pi_hdpc m s i (hr + (M - Hn)) (cell h hr i) i pio s' h W Eh) as
      (s1 & h' & Erec & Eq' & _ & _ & Lh' & Rh' & _); try assumption; try (rewrite HM'; lia).
    destruct (record_fma_frame _ _ _ _ _ Erec) as (EA1 & _ & _ & _ & EW1 & _).
    subst s'. split; [exact Ls'|]. cbn [set_hd ps_A ps_W]. unfold hd_rows. cbn [set_hd ps_hd].
    split; [congruence|]. split; [congruence|]. split; [lia | exact Rh'].
Qed.

Lemma hd_total m r s :
  lite M s -> dims (ps_A s) M W -> ps_W s = W ->
  lenN (hd_rows s) = Hn -> Forall (fun row => lenN row = W) (hd_rows s) ->
  ps_i s + Hn < M -> 1 <= r -> ps_u s + (r - 1) <= W -> ps_i s < W - (ps_u s + (r - 1)) ->
  exists s', eliminate_hdpc m Hn (ps_i s) 1 r s = Ok s' /\ ps_A s' = ps_A s.
Proof using All. (* same leading arguments as the former stub *)
  intros Ls D EW Hlen Hrows HiM Hr Hur Hi. unfold eliminate_hdpc.
  destruct (N.ltb_spec 0 Hn) as [Hpos|_]; [|eauto].
  rewrite EW. rewrite usub_ok by lia. cbn [obind].
  set (scol := W - (ps_u s + r - 1)).
  assert (Li : ps_i s < lenN (ps_A s)) by (destruct D as [LA _]; lia).
  unfold bm_sub_row. rewrite (getN_okN _ (ps_i s) [] Li). cbn [obind].
  fold (rowN (ps_A s) (ps_i s)). rewrite (dims_row _ _ _ _ D) by lia.
  destruct (N.leb_spec scol W) as [_|]; [|unfold scol in *; lia]. cbn [obind].
  set (pio := skipn (N.to_nat scol) (rowN (ps_A s) (ps_i s))).
  assert (Lpio : lenN pio = W - scol).
  { unfold pio, lenN. rewrite skipn_length. pose proof (dims_row _ _ _ (ps_i s) D) as Y. unfold lenN in Y. lia. }
  destruct (ofold_total (hdq (ps_A s)) (eliminate_hdpc_row m Hn (ps_i s) 1 pio) (seqN 0 Hn)) with (s := s)
    as (s' & Es' & Q').
  - intros hr s0 Hin Q0. apply seqN_in in Hin.
    apply (hd_row_total m (ps_i s) pio hr (ps_A s) s0 D HiM); try assumption; try (unfold scol in *; lia).
  - unfold hdq. auto.
  - destruct Q' as (_ & EA' & _). eauto.
Qed.

End ET.
