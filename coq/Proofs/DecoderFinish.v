(* The tail of try_pi_decode / try_pi_decode_no_hdpc (sbd_finish) and Case 2 do not panic on a state
   reached by consistent packets, for any L intermediate symbols of T bytes (C02, panic-freedom). *)
From Coq Require Import NArith List Bool Arith Lia Permutation.
From RQ Require Import Base.Outcome Base.Ints Base.ListX Spec.Linear Spec.Layout
  Model.SysConst Model.Tuple Model.CMatrix Model.Layout Model.Slab Model.Decoder Model.DecoderSpec
  Proofs.LinearProofs Proofs.LayoutProofs Proofs.DecoderLists Proofs.DecoderProofs Proofs.DecoderMatrix
  Proofs.DecoderParams.
Import ListNotations.
Open Scope N_scope.

Arguments N.add : simpl never.
Arguments N.sub : simpl never.
Arguments N.mul : simpl never.
Arguments N.pow : simpl never.
Arguments N.div : simpl never.
Arguments N.modulo : simpl never.

(* ---- unpack_sub_blocks: bounds only ---- *)

Definition sb_bytes (tl ts nl al : N) (sb : N) : N := if sb <? nl then tl * al else ts * al.

Lemma unpack_loop_total tl ts nl al K symbol idx : idx < K -> forall sbs result so sbo,
  so + sumN (map (sb_bytes tl ts nl al) sbs) <= lenN symbol ->
  sbo + sumN (map (sb_bytes tl ts nl al) sbs) * K <= lenN result ->
  exists r', unpack_loop tl ts nl al K symbol idx sbs result so sbo = Ok r' /\ length r' = length result.
Proof.
  intros Hidx. induction sbs as [|sb rest IH]; intros result so sbo H1 H2; cbn [unpack_loop].
  - exists result. split; reflexivity.
  - cbn [map sumN fold_right] in H1, H2. fold (sumN (map (sb_bytes tl ts nl al) rest)) in H1, H2.
    fold (sb_bytes tl ts nl al sb). set (bytes := sb_bytes tl ts nl al sb) in *.
    set (tot := sumN (map (sb_bytes tl ts nl al) rest)) in *.
    rewrite slice_ok by lia. cbn [obind].
    set (src := firstn (N.to_nat bytes) (skipn (N.to_nat so) symbol)).
    assert (Hsrc : lenN src = bytes).
    { unfold lenN, src. rewrite firstn_length, skipn_length. unfold lenN in H1. lia. }
    unfold write_slice. rewrite Hsrc.
    assert (Hfit : sbo + bytes * idx + bytes <= lenN result) by nia.
    apply N.leb_le in Hfit. rewrite Hfit. cbn [obind]. apply N.leb_le in Hfit.
    set (result' := firstn (N.to_nat (sbo + bytes * idx)) result ++ src ++
                    skipn (N.to_nat (sbo + bytes * idx + bytes)) result).
    assert (Hlen : length result' = length result).
    { unfold result'. rewrite !app_length, firstn_length, skipn_length. unfold lenN in *. lia. }
    destruct (IH result' (so + bytes) (sbo + bytes * K)) as [r' [E Hr']].
    + lia.
    + unfold lenN. rewrite Hlen. unfold lenN in H2. nia.
    + exists r'. split; [exact E | congruence].
Qed.

Lemma unpack_sub_blocks_total c K result symbol idx :
  cfg_sub_ok c -> idx < K -> lenN symbol = cT c -> lenN result = cT c * K ->
  exists r', unpack_sub_blocks c K result symbol idx = Ok r' /\ length r' = length result.
Proof.
  intros [HAl [HN [HN16 HT16]]] Hidx Hs Hr. unfold unpack_sub_blocks.
  rewrite div_ok_eq by lia. cbn [obind].
  assert (P16 : 2 ^ 16 < 2 ^ 32) by reflexivity.
  assert (Hq : cT c / cAl c <= cT c) by (apply N.div_le_upper_bound; nia).
  rewrite partition_ok by lia. cbn [obind].
  pose proof (Partition_facts (cT c / cAl c) (cN c) ltac:(lia)) as F. cbv zeta in F.
  destruct F as [F1 [F2 _]].
  destruct (Partition (cT c / cAl c) (cN c)) as [[[tl ts] nl] ns] eqn:EP. cbn [q1 q2 q3 q4] in F1, F2.
  assert (Hsum : sumN (map (sb_bytes tl ts nl (cAl c)) (rangeN (N.to_nat (nl + ns)))) = (cT c / cAl c) * cAl c).
  { unfold sb_bytes. rewrite sum_piecewise, N2Nat.id.
    destruct (nl + ns <=? nl) eqn:E; [apply N.leb_le in E | apply N.leb_gt in E].
    - assert (ns = 0) by lia. subst ns. nia.
    - replace (nl + ns - nl) with ns by lia. nia. }
  assert (Hle : cT c / cAl c * cAl c <= cT c) by (rewrite N.mul_comm; apply N.mul_div_le; lia).
  apply unpack_loop_total; [exact Hidx | |]; fold (sb_bytes tl ts nl (cAl c)); rewrite Hsum; nia.
Qed.

(* ---- rebuild_source_symbol ---- *)

Lemma slab_map2_length {A B C} (f : A -> B -> C) : forall l1 l2,
  length (Slab.map2 f l1 l2) = Nat.min (length l1) (length l2).
Proof. induction l1 as [|a t IH]; intros [|b t2]; cbn [Slab.map2 length]; try reflexivity. rewrite IH. reflexivity. Qed.

Lemma rebuild_ok m K sp C i T : row_for K sp -> i < 2 ^ 32 ->
  length C = N.to_nat (spL sp) -> Forall (fun s : list N => length s = T) C ->
  exists s, rebuild_source_symbol m sp C i = Ok s /\ length s = T.
Proof.
  intros R Hi HC HT. destruct (tuple_and_indices K sp m i R Hi) as [t [idx [Et [Ei [Hne Hall]]]]].
  unfold rebuild_source_symbol. rewrite Et. cbn [obind]. rewrite Ei. cbn [obind].
  destruct idx as [|i0 rest]; [congruence|]. inversion Hall as [|? ? H0 Hrest]; subst.
  assert (Hget : forall j, j < spL sp -> exists s, nth_ok C (N.to_nat j) = Ok s /\ length s = T).
  { intros j Hj. destruct (nth_ok_lt C (N.to_nat j)) as [s [E1 E2]]; [lia|]. exists s. split; [exact E1|].
    rewrite Forall_forall in HT. apply HT. eapply nth_error_In. exact E2. }
  destruct (Hget i0 H0) as [first [E0 L0]]. rewrite E0. cbn [obind].
  apply (ofold_ok (fun acc : list N => length acc = T)); [|exact L0].
  intros j acc Hin Hacc. rewrite Forall_forall in Hrest. destruct (Hget j (Hrest j Hin)) as [s [E1 L1]].
  rewrite E1. cbn [obind]. eexists. split; [reflexivity|].
  unfold bytes_add. rewrite slab_map2_length, Hacc, L1. apply Nat.min_id.
Qed.

(* ---- sbd_finish ---- *)

Lemma sized_pres d k s : sized d -> nth_error (sbd_src d) k = Some (Some s) ->
  lenN s = cT (sbd_cfg d).
Proof.
  intros Hs Hn. unfold sized in Hs. rewrite Forall_forall in Hs.
  destruct (Hs (N.of_nat k, s)) as [H1 _].
  - apply abs_in. left. apply pres_in. exists k. split; [lia | exact Hn].
  - cbn [snd] in H1. unfold lenN. lia.
Qed.

Lemma sbd_finish_ok m d sp C :
  sbd_inv d -> sized d -> cfg_sub_ok (sbd_cfg d) -> row_for (sbd_K d) sp ->
  length C = N.to_nat (spL sp) ->
  Forall (fun s : list N => length s = N.to_nat (cT (sbd_cfg d))) C ->
  exists r, sbd_finish m d sp C = Ok r.
Proof.
  intros I Hs Hc R HC HT. unfold sbd_finish. cbv zeta.
  destruct (ofold_ok (fun res : list N => lenN res = cT (sbd_cfg d) * sbd_K d)
    (fun (ix : N * option (list N)) result =>
       match snd ix with
       | Some s => unpack_sub_blocks (sbd_cfg d) (sbd_K d) result s (fst ix)
       | None => obind (rebuild_source_symbol m sp C (fst ix))
                   (fun s => unpack_sub_blocks (sbd_cfg d) (sbd_K d) result s (fst ix))
       end) (enumerate_from 0 (sbd_src d))) with (s := repeat 0 (N.to_nat (cT (sbd_cfg d) * sbd_K d)))
    as [r [E _]].
  - intros [i o] res Hin Hres. apply enumerate_from_in in Hin. destruct Hin as [k [Ei Hn]]. cbn [fst snd].
    assert (Hk : (k < length (sbd_src d))%nat) by (apply nth_error_Some; rewrite Hn; discriminate).
    rewrite (inv_len d I) in Hk. pose proof (inv_K d I) as HK32.
    assert (Hi : i < sbd_K d) by lia.
    destruct o as [s|].
    + destruct (unpack_sub_blocks_total (sbd_cfg d) (sbd_K d) res s i Hc Hi (sized_pres d k s Hs Hn) Hres) as [r' [E1 E2]].
      exists r'. split; [exact E1|]. unfold lenN in *. rewrite E2. exact Hres.
    + destruct (rebuild_ok m (sbd_K d) sp C i _ R ltac:(lia) HC HT) as [s [E0 L0]]. rewrite E0. cbn [obind].
      destruct (unpack_sub_blocks_total (sbd_cfg d) (sbd_K d) res s i Hc Hi ltac:(unfold lenN; lia) Hres) as [r' [E1 E2]].
      exists r'. split; [exact E1|]. unfold lenN in *. rewrite E2. exact Hres.
  - unfold lenN. rewrite repeat_length. lia.
  - exists r. exact E.
Qed.

(* ---- Case 2 ---- *)

Lemma unpack_all_total c K : cfg_sub_ok c -> forall isyms result,
  (forall i s, In (i, s) isyms -> i < K /\ lenN s = cT c) -> lenN result = cT c * K ->
  exists r, unpack_all c K isyms result = Ok r.
Proof.
  intros Hc. induction isyms as [|[i s] rest IH]; intros result Hall Hres; cbn [unpack_all].
  - eexists. reflexivity.
  - destruct (Hall i s (or_introl eq_refl)) as [Hi Hs].
    destruct (unpack_sub_blocks_total c K result s i Hc Hi Hs Hres) as [r' [E1 E2]]. rewrite E1. cbn [obind].
    apply IH; [intros i0 s0 Hin; apply Hall; right; exact Hin|]. unfold lenN in *. rewrite E2. exact Hres.
Qed.

Lemma all_source_syms d : all_source d ->
  exists syms, sbd_src d = map Some syms /\
    omapM (fun o : option (list N) => match o with Some s => Ok s | None => Panic PUnwrap end) (sbd_src d) = Ok syms.
Proof.
  unfold all_source. induction (sbd_src d) as [|o t IH]; intros H.
  - exists []. split; reflexivity.
  - inversion H as [|? ? Ho Ht]; subst. destruct (IH Ht) as [syms [E1 E2]].
    destruct o as [s|]; [|congruence]. exists (s :: syms). cbn [map omapM]. rewrite E2, <- E1. split; reflexivity.
Qed.
