(* C15 sweep 1: facts about every (row of TABLE2, its P1) -- 477 rows. *)
From Coq Require Import NArith List Bool Lia.
From RQ Require Import Base.Outcome Base.Ints Base.ListX Gen.Consts Gen.SysTables
  Spec.Prime Model.SysConst Proofs.PrimeProofs Proofs.SysConstProofs.
Import ListNotations.
Open Scope N_scope.

Lemma sweep_rows_ok :
  forall_rows (fun K' J S H W P1 =>
    let L := K' + S + H in
    let P := L - W in
    (J <=? 1000) && is_prime S && is_prime W && is_prime P1 && (P <=? P1) &&
    forall_lt (N.to_nat (P1 - P)) (fun j => negb (is_prime (P + j))) &&
    (1 <=? W - S) && (S <? W) && (2 <=? H) && (H <=? P) && (L <? 65536) && (W <=? K' + S) &&
    (3 <=? W) && (P1 <? 65536) && (10 <=? K') && (K' <=? MAX_SOURCE_SYMBOLS_PER_BLOCK)) = true.
Proof. vm_compute. reflexivity. Qed.

Record row_ok (K' J S H W P1 : N) : Prop := {
  ro_J : J <= 1000;
  ro_S : is_prime S = true;
  ro_W : is_prime W = true;
  ro_P1 : is_prime P1 = true;
  ro_P_le : K' + S + H - W <= P1;
  ro_P1_least : forall q, K' + S + H - W <= q < P1 -> is_prime q = false;
  ro_B : 1 <= W - S;
  ro_SW : S < W;
  ro_H : 2 <= H;
  ro_HP : H <= K' + S + H - W;
  ro_L : K' + S + H < 65536;
  ro_WL : W <= K' + S;
  ro_W3 : 3 <= W;
  ro_P1lt : P1 < 65536;
  ro_K10 : 10 <= K';
  ro_Kmax : K' <= MAX_SOURCE_SYMBOLS_PER_BLOCK
}.

Lemma row_facts K' J S H W P1 :
  In (K', J, S, H, W) TABLE2 -> In (K', P1) P1_TABLE -> row_ok K' J S H W P1.
Proof.
  intros Hr Hp. pose proof sweep_rows_ok as S0.
  pose proof (forall_rows_spec _ S0 K' J S H W P1 Hr Hp) as F. cbv beta zeta in F. clear S0.
  repeat (let X := fresh "F" in apply andb_true_iff in F; destruct F as [F X]).
  repeat match goal with
  | H : (_ <? _) = true |- _ => apply N.ltb_lt in H
  | H : (_ <=? _) = true |- _ => apply N.leb_le in H
  end.
  constructor; try assumption.
  intros q Hq.
  match goal with HH : forall_lt _ _ = true |- _ =>
    pose proof (forall_lt_spec _ _ HH (q - (K' + S + H - W))) as G end.
  cbv beta in G. rewrite N2Nat.id in G.
  replace (K' + S + H - W + (q - (K' + S + H - W))) with q in G by lia.
  apply negb_true_iff. apply G. lia.
Qed.
