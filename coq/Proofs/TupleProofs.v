(* Proofs about Model/Tuple.v: `rand`, `deg`, `intermediate_tuple` against RFC 6330 5.3.5
   (Spec/Rand.v, Spec/Tuple.v), for both variants of `rand` and both build modes. *)
From Coq Require Import NArith List Bool Lia.
From RQ Require Import Base.Outcome Base.Ints Base.ListX Gen.Consts Gen.RandTables
  Spec.Tables_RFC Spec.Rand Spec.Tuple Model.Tuple Proofs.GenIsRfc Proofs.C15Sweep2.
Import ListNotations.
Open Scope N_scope.
Open Scope outcome_scope.

(* ---- fixed-width helpers ---- *)

Lemma add_w_small m w a b : a + b < 2 ^ w -> add_w m w a b = Ok (a + b).
Proof. intros H. unfold add_w. cbv zeta. apply N.ltb_lt in H. rewrite H. reflexivity. Qed.

Lemma mul_w_small m w a b : a * b < 2 ^ w -> mul_w m w a b = Ok (a * b).
Proof. intros H. unfold mul_w. cbv zeta. apply N.ltb_lt in H. rewrite H. reflexivity. Qed.

Lemma sub_w_ok m w a b : b <= a -> sub_w m w a b = Ok (a - b).
Proof. intros H. unfold sub_w. apply N.leb_le in H. rewrite H. reflexivity. Qed.

Lemma add_w_checked_ovf w a b : 2 ^ w <= a + b -> add_w Checked w a b = Panic POverflow.
Proof. intros H. unfold add_w. cbv zeta. apply N.ltb_ge in H. rewrite H. reflexivity. Qed.

Lemma mod_2p32_256 x : (x mod 2 ^ 32) mod 256 = x mod 256.
Proof.
  change (2 ^ 32) with (256 * 2 ^ 24). rewrite N.mod_mul_r by discriminate.
  rewrite (N.mul_comm 256), N.mod_add by discriminate. apply N.mod_mod. discriminate.
Qed.

Lemma div_bounds y : y < 2 ^ 32 -> y / 2 ^ 8 < 2 ^ 24 /\ y / 2 ^ 16 < 2 ^ 16 /\ y / 2 ^ 24 < 2 ^ 8.
Proof.
  intros H. repeat split; apply N.div_lt_upper_bound; try discriminate.
  - change (2 ^ 8 * 2 ^ 24) with (2 ^ 32). exact H.
  - change (2 ^ 16 * 2 ^ 16) with (2 ^ 32). exact H.
  - change (2 ^ 24 * 2 ^ 8) with (2 ^ 32). exact H.
Qed.

Lemma nth_ok_tab (t : list N) x : length t = 256%nat -> x < 256 ->
  nth_ok t (N.to_nat x) = Ok (nth (N.to_nat x) t 0).
Proof.
  intros Hl Hx. unfold nth_ok. rewrite (nth_error_nth' t (N.to_nat x) 0); [reflexivity|].
  rewrite Hl. lia.
Qed.

(* ---- rand ---- *)

(* the first addition `y + i` does not trap *)
Definition allowed (wr : bool) (m : mode) (y i : N) : Prop :=
  wr = true \/ m = Release \/ y + i < 2 ^ 32.

Lemma first_add_ok wr m y i : allowed wr m y i ->
  exists s0, (if wr then Ok (u32 (y + i)) else add_w m 32 y i) = Ok s0 /\
             s0 mod 256 = (y + i) mod 256.
Proof.
  assert (Hw : exists s0, Ok (u32 (y + i)) = Ok s0 /\ s0 mod 256 = (y + i) mod 256).
  { eexists. split; [reflexivity|]. unfold u32, wrap. apply mod_2p32_256. }
  intros [->|[->|H]]; [exact Hw | |]; destruct wr; try exact Hw.
  - unfold add_w. cbv zeta. destruct (y + i <? 2 ^ 32); [eexists; split; reflexivity | exact Hw].
  - rewrite add_w_small by exact H. eexists; split; reflexivity.
Qed.

Lemma mod256_lt x : x mod 256 < 256. Proof. apply N.mod_lt. discriminate. Qed.

Lemma rand_gen_ok wr m y i mm : 0 < mm -> y < 2 ^ 32 -> i < 2 ^ 24 -> allowed wr m y i ->
  rand_gen wr m y i mm = Ok (Rand y i mm).
Proof.
  intros Hm Hy Hi Hal. unfold rand_gen. cbv zeta. apply N.ltb_lt in Hm. rewrite Hm.
  destruct (first_add_ok wr m y i Hal) as [s0 [E0 M0]]. rewrite E0. cbn [obind].
  destruct (div_bounds y Hy) as [B1 [B2 B3]].
  rewrite !N.shiftr_div_pow2.
  assert (P24 : 2 ^ 24 + 2 ^ 24 < 2 ^ 32) by reflexivity.
  assert (P16 : 2 ^ 16 + 2 ^ 24 < 2 ^ 32) by reflexivity.
  assert (P8 : 2 ^ 8 + 2 ^ 24 < 2 ^ 32) by reflexivity.
  rewrite (add_w_small m 32 (y / 2 ^ 8) i) by lia. cbn [obind].
  rewrite (add_w_small m 32 (y / 2 ^ 16) i) by lia. cbn [obind].
  rewrite (add_w_small m 32 (y / 2 ^ 24) i) by lia. cbn [obind].
  destruct len_V as [L0 [L1 [L2 L3]]].
  rewrite (nth_ok_tab V0 _ L0 (mod256_lt _)). cbn [obind].
  rewrite (nth_ok_tab V1 _ L1 (mod256_lt _)). cbn [obind].
  rewrite (nth_ok_tab V2 _ L2 (mod256_lt _)). cbn [obind].
  rewrite (nth_ok_tab V3 _ L3 (mod256_lt _)). cbn [obind].
  unfold Rand, rfc_v. cbv zeta. rewrite M0.
  rewrite <- V0_is_rfc, <- V1_is_rfc, <- V2_is_rfc, <- V3_is_rfc.
  change (2 ^ 8) with 256. reflexivity.
Qed.

Lemma rand_gen_ovf y i mm : 0 < mm -> 2 ^ 32 <= y + i ->
  rand_gen false Checked y i mm = Panic POverflow.
Proof.
  intros Hm H. unfold rand_gen. apply N.ltb_lt in Hm. rewrite Hm.
  rewrite add_w_checked_ovf by exact H. reflexivity.
Qed.

Lemma rand_gen_assert wr m y i : rand_gen wr m y i 0 = Panic PAssert.
Proof. reflexivity. Qed.

Lemma Rand_lt y i mm : 0 < mm -> Rand y i mm < mm.
Proof. intros H. unfold Rand. cbv zeta. apply N.mod_lt. lia. Qed.

(* ---- deg ---- *)

Lemma deg_loop_split m v W n : forall d,
  deg_loop m v W n d = (r <- deg_idx_loop v n d ;; w2 <- sub_w m 32 W 2 ;; Ok (N.min r w2)).
Proof.
  induction n as [|n IH]; intros d; cbn [deg_loop deg_idx_loop]; [reflexivity|].
  destruct (nth_ok DEG_F (N.to_nat d)) as [fd|c]; cbn [obind]; [|reflexivity].
  destruct (v <? fd); [reflexivity | apply IH].
Qed.

Lemma deg_ok m v W : v < 2 ^ 20 -> 2 <= W -> deg m v W = Ok (Deg v W).
Proof.
  intros Hv HW. unfold deg. change DEG_V_LIMIT with (2 ^ 20).
  pose proof Hv as Hv'. apply N.ltb_lt in Hv'. rewrite Hv'.
  change (length DEG_F - 1)%nat with 30%nat. rewrite deg_loop_split.
  destruct (deg_idx_ok v Hv) as [E _]. rewrite E. cbn [obind].
  rewrite sub_w_ok by exact HW. reflexivity.
Qed.

Lemma deg_assert m v W : 2 ^ 20 <= v -> deg m v W = Panic PAssert.
Proof.
  intros Hv. unfold deg. change DEG_V_LIMIT with (2 ^ 20). apply N.ltb_ge in Hv. rewrite Hv.
  reflexivity.
Qed.

Lemma Deg_range v W : v < 2 ^ 20 -> 3 <= W -> 1 <= Deg v W <= N.min 30 (W - 2).
Proof. intros Hv HW. destruct (deg_idx_ok v Hv) as [_ R]. unfold Deg. lia. Qed.

(* ---- intermediate_tuple ---- *)

(* everything after `let y = ...` *)
Definition tuple_tail (wr : bool) (m : mode) (X W P1 y : N) : outcome tuple6 :=
  v <- rand_gen wr m y 0 TUPLE_V_RANGE ;;
  d <- deg m v W ;;
  w1 <- sub_w m 32 W 1 ;;
  ra <- rand_gen wr m y 1 w1 ;;
  a <- add_w m 32 1 ra ;;
  b <- rand_gen wr m y 2 W ;;
  d1 <- (if d <? 4 then r3 <- rand_gen wr m X 3 2 ;; add_w m 32 2 r3 else Ok 2) ;;
  p11 <- sub_w m 32 P1 1 ;;
  ra1 <- rand_gen wr m X 4 p11 ;;
  a1 <- add_w m 32 1 ra1 ;;
  b1 <- rand_gen wr m X 5 P1 ;;
  Ok (d, a, b, d1, a1, b1).

Lemma Tuple_A_bounds J : J <= 1000 -> Tuple_A J < 2 ^ 21 /\ Tuple_A J mod 2 = 1.
Proof.
  intros HJ. unfold Tuple_A, RFC_TUPLE_A_BASE, RFC_TUPLE_A_MUL. cbv zeta.
  assert (P21 : 53591 + 1000 * 997 + 1 < 2 ^ 21) by reflexivity.
  destruct (N.eqb_spec ((53591 + J * 997) mod 2) 0) as [E|E].
  - split; [lia|]. rewrite <- N.add_mod_idemp_l by discriminate. rewrite E. reflexivity.
  - split; [lia|]. assert (H : (53591 + J * 997) mod 2 < 2) by (apply N.mod_lt; discriminate).
    set (r := (53591 + J * 997) mod 2) in *. clearbody r. lia.
Qed.

Lemma Tuple_B_bound J : J <= 1000 -> Tuple_B J < 2 ^ 24.
Proof.
  intros HJ. unfold Tuple_B, RFC_TUPLE_B_MUL.
  assert (P24 : 10267 * (1000 + 1) < 2 ^ 24) by reflexivity. nia.
Qed.

Lemma Tuple_y_lt J X : Tuple_y J X < 2 ^ 32.
Proof. unfold Tuple_y. apply N.mod_lt. discriminate. Qed.

Lemma tuple_gen_prefix wr m X W J P1 : J <= 1000 -> X < 2 ^ 32 ->
  intermediate_tuple_gen wr m X W J P1 = tuple_tail wr m X W P1 (Tuple_y J X).
Proof.
  intros HJ HX. unfold intermediate_tuple_gen.
  change TUPLE_A_MUL with 997. change TUPLE_A_BASE with 53591. change TUPLE_B_MUL with 10267.
  change TUPLE_Y_MOD with (2 ^ 32).
  assert (P1a : 1000 * 997 < 2 ^ 32) by reflexivity.
  assert (P2a : 53591 + 1000 * 997 + 1 < 2 ^ 32) by reflexivity.
  assert (P3a : 10267 * (1000 + 1) < 2 ^ 32) by reflexivity.
  rewrite (mul_w_small m 32 J 997) by lia. cbn [obind].
  rewrite (add_w_small m 32 53591 (J * 997)) by lia. cbn [obind].
  destruct (Tuple_A_bounds J HJ) as [HA _]. pose proof (Tuple_B_bound J HJ) as HB.
  assert (EA : (if (53591 + J * 997) mod 2 =? 0
                then add_w m 32 (53591 + J * 997) 1 else Ok (53591 + J * 997)) = Ok (Tuple_A J)).
  { unfold Tuple_A, RFC_TUPLE_A_BASE, RFC_TUPLE_A_MUL. cbv zeta.
    destruct ((53591 + J * 997) mod 2 =? 0); [|reflexivity]. apply add_w_small. lia. }
  rewrite EA. cbn [obind].
  rewrite (add_w_small m 32 J 1) by lia. cbn [obind].
  assert (EB : 10267 * (J + 1) = Tuple_B J) by reflexivity.
  rewrite (mul_w_small m 32 10267 (J + 1)) by nia. cbn [obind]. rewrite EB.
  assert (HXA : X * Tuple_A J < 2 ^ 32 * 2 ^ 21).
  { apply N.mul_lt_mono; assumption. }
  assert (P53 : 2 ^ 24 + 2 ^ 32 * 2 ^ 21 < 2 ^ 64) by reflexivity.
  rewrite (mul_w_small m 64 X (Tuple_A J)) by lia. cbn [obind].
  rewrite (add_w_small m 64 (Tuple_B J) (X * Tuple_A J)) by lia. cbn [obind]. cbv zeta.
  fold (Tuple_y J X). unfold u32. rewrite wrap_small by apply Tuple_y_lt. reflexivity.
Qed.

(* the tuple of the Spec, as a function of y *)
Definition Tuple_of_y (W P1 X y : N) : tuple6 :=
  let v := Rand y 0 (2 ^ 20) in
  let d := Deg v W in
  (d, 1 + Rand y 1 (W - 1), Rand y 2 W,
   if d <? 4 then 2 + Rand X 3 2 else 2, 1 + Rand X 4 (P1 - 1), Rand X 5 P1).

Lemma Tuple_of_y_eq J W P1 X : Tuple J W P1 X = Tuple_of_y W P1 X (Tuple_y J X).
Proof. reflexivity. Qed.

Lemma tuple_tail_ok wr m X W P1 y :
  y < 2 ^ 32 -> X < 2 ^ 32 -> 3 <= W < 2 ^ 32 -> 2 <= P1 < 2 ^ 32 ->
  wr = true \/ m = Release \/ (y + 2 < 2 ^ 32 /\ X + 5 < 2 ^ 32) ->
  tuple_tail wr m X W P1 y = Ok (Tuple_of_y W P1 X y).
Proof.
  intros Hy HX HW HP1 Hal.
  assert (Al : forall i, i <= 2 -> allowed wr m y i).
  { intros i Hi. destruct Hal as [->|[->|[H1 H2]]]; [left; reflexivity | right; left; reflexivity|].
    right; right. lia. }
  assert (AlX : forall i, i <= 5 -> allowed wr m X i).
  { intros i Hi. destruct Hal as [->|[->|[H1 H2]]]; [left; reflexivity | right; left; reflexivity|].
    right; right. lia. }
  assert (S24 : 5 < 2 ^ 24) by reflexivity.
  unfold tuple_tail, Tuple_of_y. cbv zeta. change TUPLE_V_RANGE with (2 ^ 20).
  assert (P20 : 0 < 2 ^ 20) by reflexivity.
  rewrite (rand_gen_ok wr m y 0 (2 ^ 20)) by (try apply Al; lia). cbn [obind].
  pose proof (Rand_lt y 0 (2 ^ 20) P20) as Hv.
  rewrite (deg_ok m _ W Hv) by lia. cbn [obind].
  rewrite (sub_w_ok m 32 W 1) by lia. cbn [obind].
  rewrite (rand_gen_ok wr m y 1 (W - 1)) by (try apply Al; lia). cbn [obind].
  assert (Ha : Rand y 1 (W - 1) < W - 1) by (apply Rand_lt; lia).
  rewrite (add_w_small m 32 1 _) by lia. cbn [obind].
  rewrite (rand_gen_ok wr m y 2 W) by (try apply Al; lia). cbn [obind].
  assert (E1 : (if Deg (Rand y 0 (2 ^ 20)) W <? 4
                then r3 <- rand_gen wr m X 3 2 ;; add_w m 32 2 r3 else Ok 2) =
               Ok (if Deg (Rand y 0 (2 ^ 20)) W <? 4 then 2 + Rand X 3 2 else 2)).
  { destruct (Deg (Rand y 0 (2 ^ 20)) W <? 4); [|reflexivity].
    rewrite (rand_gen_ok wr m X 3 2) by (try apply AlX; lia). cbn [obind].
    assert (Rand X 3 2 < 2) by (apply Rand_lt; lia).
    apply add_w_small. lia. }
  rewrite E1. cbn [obind].
  rewrite (sub_w_ok m 32 P1 1) by lia. cbn [obind].
  rewrite (rand_gen_ok wr m X 4 (P1 - 1)) by (try apply AlX; lia). cbn [obind].
  assert (Ha1 : Rand X 4 (P1 - 1) < P1 - 1) by (apply Rand_lt; lia).
  rewrite (add_w_small m 32 1 _) by lia. cbn [obind].
  rewrite (rand_gen_ok wr m X 5 P1) by (try apply AlX; lia). cbn [obind].
  reflexivity.
Qed.

Lemma tuple_tail_ovf X W P1 y :
  y < 2 ^ 32 -> X < 2 ^ 32 -> 3 <= W < 2 ^ 32 -> 2 <= P1 < 2 ^ 32 ->
  2 ^ 32 <= y + 2 \/ 2 ^ 32 <= X + 5 ->
  tuple_tail false Checked X W P1 y = Panic POverflow.
Proof.
  intros Hy HX HW HP1 Hov.
  assert (S24 : 5 < 2 ^ 24) by reflexivity.
  assert (P20 : 0 < 2 ^ 20) by reflexivity.
  assert (R : forall y i mm, 0 < mm -> y < 2 ^ 32 -> i <= 5 ->
            rand_gen false Checked y i mm =
            if y + i <? 2 ^ 32 then Ok (Rand y i mm) else Panic POverflow).
  { intros y0 i mm Hm Hy0 Hi. destruct (N.ltb_spec (y0 + i) (2 ^ 32)) as [H|H].
    - apply rand_gen_ok; try assumption; [lia | right; right; exact H].
    - apply rand_gen_ovf; assumption. }
  unfold tuple_tail. change TUPLE_V_RANGE with (2 ^ 20).
  rewrite (R y 0 (2 ^ 20)) by lia.
  replace (y + 0 <? 2 ^ 32) with true by (symmetry; apply N.ltb_lt; lia). cbn [obind].
  pose proof (Rand_lt y 0 (2 ^ 20) P20) as Hv.
  rewrite (deg_ok Checked _ W Hv) by lia. cbn [obind].
  rewrite (sub_w_ok Checked 32 W 1) by lia. cbn [obind].
  rewrite (R y 1 (W - 1)) by lia.
  destruct (N.ltb_spec (y + 1) (2 ^ 32)) as [H1|H1]; [|reflexivity]. cbn [obind].
  assert (Ha : Rand y 1 (W - 1) < W - 1) by (apply Rand_lt; lia).
  rewrite (add_w_small Checked 32 1 _) by lia. cbn [obind].
  rewrite (R y 2 W) by lia.
  destruct (N.ltb_spec (y + 2) (2 ^ 32)) as [H2|H2]; [|reflexivity]. cbn [obind].
  assert (HX5 : 2 ^ 32 <= X + 5) by (destruct Hov; [lia | assumption]).
  assert (Hr3 : Rand X 3 2 < 2) by (apply Rand_lt; lia).
  assert (E1 : (if Deg (Rand y 0 (2 ^ 20)) W <? 4
                then r3 <- rand_gen false Checked X 3 2 ;; add_w Checked 32 2 r3 else Ok 2) =
               Panic POverflow \/
               exists d1, (if Deg (Rand y 0 (2 ^ 20)) W <? 4
                then r3 <- rand_gen false Checked X 3 2 ;; add_w Checked 32 2 r3 else Ok 2) = Ok d1).
  { destruct (Deg (Rand y 0 (2 ^ 20)) W <? 4); [|right; eexists; reflexivity].
    rewrite (R X 3 2) by lia.
    destruct (N.ltb_spec (X + 3) (2 ^ 32)) as [H3|H3]; [|left; reflexivity]. cbn [obind].
    right. rewrite add_w_small by lia. eexists; reflexivity. }
  destruct E1 as [E1|[d1 E1]]; rewrite E1; cbn [obind]; [reflexivity|].
  rewrite (sub_w_ok Checked 32 P1 1) by lia. cbn [obind].
  rewrite (R X 4 (P1 - 1)) by lia.
  destruct (N.ltb_spec (X + 4) (2 ^ 32)) as [H4|H4]; [|reflexivity]. cbn [obind].
  assert (Ha1 : Rand X 4 (P1 - 1) < P1 - 1) by (apply Rand_lt; lia).
  rewrite (add_w_small Checked 32 1 _) by lia. cbn [obind].
  rewrite (R X 5 P1) by lia.
  destruct (N.ltb_spec (X + 5) (2 ^ 32)) as [H5|H5]; [lia | reflexivity].
Qed.

(* ranges of the Spec tuple *)
Lemma Tuple_of_y_ranges W P1 X y : 3 <= W -> 2 <= P1 ->
  let '(d, a, b, d1, a1, b1) := Tuple_of_y W P1 X y in
  1 <= d <= N.min 30 (W - 2) /\ 1 <= a < W /\ b < W /\ (d1 = 2 \/ d1 = 3) /\
  1 <= a1 < P1 /\ b1 < P1.
Proof.
  intros HW HP1. unfold Tuple_of_y. cbv zeta.
  assert (P20 : 0 < 2 ^ 20) by reflexivity.
  pose proof (Rand_lt y 0 (2 ^ 20) P20) as Hv.
  pose proof (Deg_range _ W Hv HW) as Hd.
  assert (Ha : Rand y 1 (W - 1) < W - 1) by (apply Rand_lt; lia).
  assert (Hb : Rand y 2 W < W) by (apply Rand_lt; lia).
  assert (Hr3 : Rand X 3 2 < 2) by (apply Rand_lt; lia).
  assert (Ha1 : Rand X 4 (P1 - 1) < P1 - 1) by (apply Rand_lt; lia).
  assert (Hb1 : Rand X 5 P1 < P1) by (apply Rand_lt; lia).
  repeat split; try lia.
  destruct (Deg (Rand y 0 (2 ^ 20)) W <? 4); lia.
Qed.
