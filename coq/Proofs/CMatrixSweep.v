(* C04 sweep: facts about every (row of TABLE2, its P1) needed by the constraint-matrix proofs:
   S is an odd number >= 3, the LDPC step a = 1 + i/S stays below S for i < B, H <= 256 (so that
   Octet::alpha(i) is defined for i < H), P >= 3, and the look-ups for K' select the row of K'. *)
From Coq Require Import NArith List Bool Lia.
From RQ Require Import Base.Outcome Base.Ints Base.ListX Gen.Consts Gen.SysTables
  Model.SysConst Proofs.SysConstProofs.
Import ListNotations.
Open Scope N_scope.

Definition oeqN (x : outcome N) (v : N) : bool :=
  match x with Ok w => w =? v | Panic _ => false end.
Lemma oeqN_eq x v : oeqN x v = true -> x = Ok v.
Proof. destruct x; cbn; intros H; [apply N.eqb_eq in H; subst; auto | discriminate]. Qed.

Lemma sweep_cm_rows_ok :
  forall_rows (fun K' J S H W P1 =>
    let L := K' + S + H in
    let P := L - W in
    (3 <=? S) && (S mod 2 =? 1) && (1 + (W - S - 1) / S <? S) && (H <=? 256) && (3 <=? P) &&
    oeqN (extended_source_block_symbols K') K' && oeqN (num_lt_symbols K') W &&
    oeqN (num_pi_symbols K') P && oeqN (systematic_index K') J && oeqN (calculate_p1 K') P1) = true.
Proof. vm_compute. reflexivity. Qed.

Record cm_row_ok (K' J S H W P1 : N) : Prop := {
  cm_S3 : 3 <= S;
  cm_Sodd : S mod 2 = 1;
  cm_a : 1 + (W - S - 1) / S < S;
  cm_H256 : H <= 256;
  cm_P3 : 3 <= K' + S + H - W;
  cm_selfK : extended_source_block_symbols K' = Ok K';
  cm_selfW : num_lt_symbols K' = Ok W;
  cm_selfP : num_pi_symbols K' = Ok (K' + S + H - W);
  cm_selfJ : systematic_index K' = Ok J;
  cm_selfP1 : calculate_p1 K' = Ok P1
}.

Lemma cm_row_facts K' J S H W P1 :
  In (K', J, S, H, W) TABLE2 -> In (K', P1) P1_TABLE -> cm_row_ok K' J S H W P1.
Proof.
  intros Hr Hp. pose proof sweep_cm_rows_ok as S0.
  pose proof (forall_rows_spec _ S0 K' J S H W P1 Hr Hp) as F. cbv beta zeta in F. clear S0.
  repeat (let X := fresh "F" in apply andb_true_iff in F; destruct F as [F X]).
  repeat match goal with
  | H : (_ <? _) = true |- _ => apply N.ltb_lt in H
  | H : (_ <=? _) = true |- _ => apply N.leb_le in H
  | H : (_ =? _) = true |- _ => apply N.eqb_eq in H
  | H : oeqN _ _ = true |- _ => apply oeqN_eq in H
  end.
  constructor; assumption.
Qed.
