(* Second phase: record_reduce_to_row_echelon + backwards_elimination turn U_lower into the identity
   (Gauss-Jordan on the rows i.. of the logical matrix G), leave the rows above i alone, and write the
   identity block into A. *)
From Coq Require Import NArith List Bool Lia Arith.
From RQ Require Import Base.Outcome Base.Ints Base.ListX Model.Octet Model.CMatrix Model.Slab
  Spec.Linear Proofs.OutcomeLemmas Proofs.OctetProofs Proofs.LinearProofs Model.PiSolver
  Proofs.PiSolverBase Proofs.PiSolverStruct Proofs.PiSolverOps Proofs.PiSolverG Proofs.PiSolverInvDefs.
Import ListNotations.
Open Scope N_scope.

Definition hd_rows (s : pstate) : list (list N) := match ps_hd s with Some h => h | None => [] end.

(* ================= (A) generic list / cell lemmas ================= *)

Lemma getN_ltN {X} (l : list X) k x : getN l k = Ok x -> k < lenN l.
Proof.
  intros H. destruct l as [|d0 l0]; [unfold getN, nth_ok in H; destruct (N.to_nat k); discriminate|].
  destruct (getN_inv _ _ _ d0 H) as [Lk _]. unfold lenN. lia.
Qed.

Lemma getN_rowN (A : list (list N)) k r : getN A k = Ok r -> k < lenN A /\ r = rowN A k.
Proof.
  intros H. split; [exact (getN_ltN _ _ _ H)|]. destruct (getN_inv _ _ _ [] H) as [_ ->]. reflexivity.
Qed.

Lemma getN_nth0 (r : list N) j v : getN r j = Ok v -> j < lenN r /\ v = nth (N.to_nat j) r 0.
Proof.
  intros H. split; [exact (getN_ltN _ _ _ H)|]. destruct (getN_inv _ _ _ 0 H) as [_ ->]. reflexivity.
Qed.

Lemma bm_get_cell A i j v : bm_get A i j = Ok v -> i < lenN A /\ j < lenN (rowN A i) /\ v = cell A i j.
Proof.
  unfold bm_get. intros H. oinvas H as r Er. destruct (getN_rowN _ _ _ Er) as [Li ->].
  destruct (getN_nth0 _ _ _ H) as [Lj ->]. auto.
Qed.

Lemma putN_lenN {A} (l : list A) i v l' : putN l i v = Ok l' -> i < lenN l /\ lenN l' = lenN l.
Proof.
  intros H. destruct (putN_inv _ _ _ _ H) as [Li ->]. unfold lenN. rewrite upd_nth_length. lia.
Qed.

Lemma putN_rowN (A : list (list N)) i v A' : putN A i v = Ok A' ->
  forall k, rowN A' k = if k =? i then v else rowN A k.
Proof.
  intros H k. destruct (putN_inv _ _ _ _ H) as [Li ->]. unfold rowN.
  destruct (N.eqb_spec k i) as [->|Hne].
  - apply nth_upd_same. exact Li.
  - apply nth_upd_other. lia.
Qed.

Lemma swapN_rowN (A : list (list N)) i j A' k : swapN A i j = Ok A' -> rowN A' k = rowN A (trN i j k).
Proof. apply swapN_cell. Qed.

Lemma trN_shift o a b k : trN (o + a) (b + o) (o + k) = o + trN a b k.
Proof.
  unfold trN. destruct (N.eqb_spec (o + k) (o + a)), (N.eqb_spec k a); try lia.
  destruct (N.eqb_spec (o + k) (b + o)), (N.eqb_spec k b); lia.
Qed.

Lemma trN_below a b k lo : lo <= a -> lo <= b -> k < lo -> trN a b k = k.
Proof. intros. apply trN_other; lia. Qed.

Lemma dims_row A Mn Wn k : dims A Mn Wn -> k < Mn -> lenN (rowN A k) = Wn.
Proof.
  intros [Hl Hr] Hk. rewrite Forall_forall in Hr. apply Hr. unfold rowN. apply nth_In. unfold lenN in Hl. lia.
Qed.

Lemma Forall_rowN (P : list N -> Prop) A k : Forall P A -> k < lenN A -> P (rowN A k).
Proof. intros H Hk. rewrite Forall_forall in H. apply H. unfold rowN. apply nth_In. unfold lenN in Hk. lia. Qed.

Lemma map2_length {X Y Z} (f : X -> Y -> Z) a b : length (map2 f a b) = Nat.min (length a) (length b).
Proof. revert b; induction a as [|x a IH]; intros [|y b]; cbn; auto. Qed.

Lemma nth_map2 (f : N -> N -> N) a b j : (j < length a)%nat -> (j < length b)%nat ->
  nth j (map2 f a b) 0 = f (nth j a 0) (nth j b 0).
Proof.
  revert b j; induction a as [|x a IH]; intros [|y b] [|j] Ha Hb; cbn in *; try lia; auto.
  apply IH; lia.
Qed.

Lemma nth_oct_row_fma dest src c j : bytes_row src -> (j < length dest)%nat -> (j < length src)%nat ->
  nth j (oct_row_fma dest src c) 0 = N.lxor (nth j dest 0) (mulN c (nth j src 0)).
Proof.
  intros Bs Hd Hs. unfold oct_row_fma. destruct (N.eqb_spec c 1) as [->|Hc].
  - rewrite nth_map2 by assumption. rewrite mulN_1_l; [reflexivity|]. apply bytes_nth, Bs.
  - rewrite nth_map2 by assumption. reflexivity.
Qed.

Lemma oct_row_fma_length dest src c : length (oct_row_fma dest src c) = Nat.min (length dest) (length src).
Proof. unfold oct_row_fma. destruct (c =? 1); apply map2_length. Qed.

Lemma nth_map_mulN c r j : nth j (map (mulN c) r) 0 = mulN c (nth j r 0).
Proof. apply (nth_vscale c r j). Qed.

(* folds over s..e with an invariant indexed by the position *)
Lemma ofold_seqN_inv {St} (P : N -> St -> Prop) (f : N -> St -> outcome St) b :
  (forall j s s', j < b -> P j s -> f j s = Ok s' -> P (j + 1) s') ->
  forall n a s r, N.of_nat n + a = b -> P a s -> ofold f (seqN a b) s = Ok r -> P b r.
Proof.
  intros Hstep. induction n as [|n IH]; intros a s r Hn Ha H.
  - rewrite seqN_nil in H by lia. cbn in H. inversion H; subst. replace (N.of_nat 0 + a) with a by lia. exact Ha.
  - rewrite seqN_cons in H by lia. apply ofold_cons_inv in H. destruct H as [s1 [E1 E2]].
    apply (IH (a + 1) s1 r); [lia | | exact E2]. apply (Hstep a s s1); [lia | exact Ha | exact E1].
Qed.

Lemma ofold_seqN_inv' {St} (P : N -> St -> Prop) (f : N -> St -> outcome St) a b :
  a <= b -> (forall j s s', a <= j < b -> P j s -> f j s = Ok s' -> P (j + 1) s') ->
  forall s r, P a s -> ofold f (seqN a b) s = Ok r -> P b r.
Proof.
  intros Hab Hstep s r Ha H.
  apply (ofold_seqN_inv (fun j st => a <= j /\ P j st) f b) with (n := N.to_nat (b - a)) (a := a) (s := s);
    [| lia | split; [lia | exact Ha] | exact H].
  intros j x x' Hj [Haj Hp] E. split; [lia|]. apply (Hstep j x x'); [lia | exact Hp | exact E].
Qed.

(* folds over (s..e).rev() *)
Lemma ofold_rev_seqN_inv {St} (P : N -> St -> Prop) (f : N -> St -> outcome St) :
  forall n b, b = N.of_nat n ->
  (forall j s s', j < b -> P (j + 1) s -> f j s = Ok s' -> P j s') ->
  forall s r, P b s -> ofold f (rev (seqN 0 b)) s = Ok r -> P 0 r.
Proof.
  induction n as [|n IH]; intros b Hb Hstep s r Hs H.
  - subst b. cbn in H. inversion H; subst. exact Hs.
  - replace b with ((b - 1) + 1) in H by lia. rewrite seqN_snoc in H by lia.
    rewrite rev_app_distr in H. cbn [rev app] in H. apply ofold_cons_inv in H. destruct H as [s1 [E1 E2]].
    apply (IH (b - 1)) with (s := s1); [lia | | | exact E2].
    + intros j x x' Hj. apply Hstep. lia.
    + apply (Hstep (b - 1) s s1); [lia | | exact E1]. replace (b - 1 + 1) with b by lia. exact Hs.
Qed.

Lemma nth_map_lt {X Y} (f : X -> Y) l k d d' : (k < length l)%nat -> nth k (map f l) d = f (nth k l d').
Proof. intros H. rewrite (nth_indep _ d (f d')) by (rewrite map_length; exact H). apply map_nth. Qed.

Lemma nth_map_seqN (f : N -> N) s e k : (k < N.to_nat (e - s))%nat ->
  nth k (map f (seqN s e)) 0 = f (s + N.of_nat k).
Proof.
  intros H. rewrite (nth_map_lt f _ k 0 0) by (rewrite seqN_length; exact H).
  rewrite seqN_nth by exact H. reflexivity.
Qed.

(* ================= (E) the identity block written into A, and the final resize ================= *)

Lemma ident_row_spec (r : list N) i0 u row Wn : lenN r = Wn -> i0 + u <= Wn ->
  forall r', r' = firstn (N.to_nat i0) r ++ map (fun col => if row =? col then 1 else 0) (seqN i0 (i0 + u))
                  ++ skipn (N.to_nat i0 + N.to_nat u) r ->
  lenN r' = Wn /\ (bin_row r -> bin_row r') /\
  forall j, i0 <= j < i0 + u -> nth (N.to_nat j) r' 0 = if row =? j then 1 else 0.
Proof.
  intros Hl Hw r' ->. unfold lenN in Hl. repeat split.
  - unfold lenN. rewrite !app_length, firstn_length, map_length, seqN_length, skipn_length. lia.
  - intros Hb. unfold bin_row. apply Forall_app. split; [apply Forall_firstn, Hb|].
    apply Forall_app. split; [|apply Forall_skipn, Hb].
    apply Forall_forall. intros x Hx. apply in_map_iff in Hx. destruct Hx as [col [<- _]].
    destruct (row =? col); auto.
  - intros j Hj.
    assert (L1 : length (firstn (N.to_nat i0) r) = N.to_nat i0) by (rewrite firstn_length; lia).
    rewrite app_nth2 by lia. rewrite L1.
    rewrite app_nth1 by (rewrite map_length, seqN_length; lia).
    rewrite nth_map_seqN by lia. replace (i0 + N.of_nat (N.to_nat j - N.to_nat i0)) with j by lia. reflexivity.
Qed.

Lemma ident_write Mn Wn i0 u A A' : dims A Mn Wn -> bin_mat A -> i0 + u <= Wn -> i0 + u <= Mn ->
  ofold (fun row A =>
         r <- getN A row ;;
         (if (u =? 0) || (i0 + u <=? lenN r) then Ok tt else Panic PIndex) ;;;
         let k := N.to_nat i0 in
         let seg := map (fun col => if row =? col then 1 else 0) (seqN i0 (i0 + u)) in
         putN A row (firstn k r ++ seg ++ skipn (k + N.to_nat u) r))
       (seqN i0 (i0 + u)) A = Ok A' ->
  dims A' Mn Wn /\ bin_mat A' /\ (forall k, k < i0 -> rowN A' k = rowN A k) /\
  (forall k j, i0 <= k < i0 + u -> i0 <= j < i0 + u -> cell A' k j = if k =? j then 1 else 0).
Proof.
  intros HD HB Hw Hm H.
  revert H. apply (ofold_seqN_inv' (fun p X => dims X Mn Wn /\ bin_mat X /\
     (forall k, k < i0 -> rowN X k = rowN A k) /\
     (forall k j, i0 <= k < p -> i0 <= j < i0 + u -> cell X k j = if k =? j then 1 else 0))); [lia| |].
  - intros p X X' Hp (XD & XB & XR & XC) E. omon E. cbv zeta in E.
    destruct (getN_rowN _ _ _ E0) as [Lp ->].
    assert (HpM : p < Mn) by lia.
    destruct (ident_row_spec (rowN X p) i0 u p Wn (dims_row _ _ _ _ XD HpM) Hw _ eq_refl) as (RL & RB & RC).
    pose proof (putN_rowN _ _ _ _ E) as HR. destruct (putN_lenN _ _ _ _ E) as [_ HL].
    destruct XD as [XL XF]. split; [split|split; [|split]].
    + lia.
    + eapply bytes_putN; [exact XF | exact RL | exact E].
    + eapply bytes_putN; [exact XB | | exact E]. apply RB. apply Forall_rowN; [exact XB | exact Lp].
    + intros k Hk. rewrite HR. destruct (N.eqb_spec k p); [lia|]. apply XR, Hk.
    + intros k j Hk Hj. unfold cell. rewrite HR. destruct (N.eqb_spec k p) as [->|Hne].
      * apply RC, Hj.
      * apply XC; lia.
  - split; [exact HD|]. split; [exact HB|]. split; [reflexivity|]. intros k j Hk. lia.
Qed.

Lemma resize_spec A Mn Wn wd A' : dims A Mn Wn -> Wn <= Mn -> bm_resize A wd Wn Wn = Ok A' ->
  dims A' Wn Wn /\ (bin_mat A -> bin_mat A') /\ forall k, k < Wn -> rowN A' k = rowN A k.
Proof.
  unfold bm_resize. intros [HL HF] Hw H. destruct ((Wn <=? lenN A) && (Wn <=? wd)); [|discriminate].
  inversion H; subst A'. clear H. unfold lenN in HL. repeat split.
  - unfold lenN. rewrite map_length, firstn_length. lia.
  - apply Forall_forall. intros x Hx. apply in_map_iff in Hx. destruct Hx as [y [<- Hy]].
    apply In_firstn_incl' in Hy. rewrite Forall_forall in HF. specialize (HF y Hy). unfold lenN in *.
    rewrite firstn_length. lia.
  - intros HB. apply Forall_forall. intros x Hx. apply in_map_iff in Hx. destruct Hx as [y [<- Hy]].
    apply In_firstn_incl' in Hy. unfold bin_mat in HB. rewrite Forall_forall in HB. apply Forall_firstn, HB, Hy.
  - intros k Hk. unfold rowN. rewrite (nth_map_lt _ _ _ [] []) by (rewrite firstn_length; lia).
    rewrite nth_firstn_lt by lia. apply firstn_all2.
    assert (HD : dims A Mn Wn) by (split; [unfold lenN; lia | exact HF]).
    assert (HkM : k < Mn) by lia.
    pose proof (dims_row A Mn Wn k HD HkM) as X. unfold lenN, rowN in X. lia.
Qed.

(* ================= the submatrix copied by record_reduce_to_row_echelon ================= *)

Lemma sub_init (A hd : list (list N)) first i0 u Mn Wn sub :
  dims A Mn Wn -> Forall (fun r => lenN r = Wn) hd -> i0 + u = Wn ->
  omapM (fun row =>
           r <- (if row <? first then getN A row else getN hd (row - first)) ;;
           if (u =? 0) || (i0 + u <=? lenN r) then Ok (subl r i0 (i0 + u))
           else Panic PIndex) (seqN i0 Mn) = Ok sub ->
  lenN sub = Mn - i0 /\ Forall (fun r => lenN r = u) sub /\
  (bytes_mat A -> bytes_mat hd -> bytes_mat sub) /\
  forall k' j', k' < Mn - i0 -> j' < u ->
    cell sub k' j' = if i0 + k' <? first then cell A (i0 + k') (i0 + j')
                     else cell hd (i0 + k' - first) (i0 + j').
Proof.
  intros [DL DF] HF Hiu H.
  assert (Hrow : forall row r, (if row <? first then getN A row else getN hd (row - first)) = Ok r ->
     lenN r = Wn /\ (bytes_mat A -> bytes_mat hd -> bytes_row r)).
  { intros row r E. destruct (row <? first); destruct (getN_rowN _ _ _ E) as [L ->]; split.
    - apply (Forall_rowN _ _ _ DF L).
    - intros BA _. apply bytes_mat_nth, BA.
    - apply (Forall_rowN _ _ _ HF L).
    - intros _ Bh. apply bytes_mat_nth, Bh. }
  split; [|split; [|split]].
  - apply omapM_length in H. rewrite seqN_length in H. unfold lenN. lia.
  - eapply (Forall_omapM (fun _ => True)); [| | exact H]; [|apply Forall_forall; auto].
    intros row b _ Eb. oinvas Eb as r Er. destruct (Hrow _ _ Er) as [Lr _].
    destruct ((u =? 0) || (i0 + u <=? lenN r)); [|discriminate]. inversion Eb; subst b.
    unfold lenN. rewrite subl_length by lia. lia.
  - intros BA Bh. eapply (Forall_omapM (fun _ => True)); [| | exact H]; [|apply Forall_forall; auto].
    intros row b _ Eb. oinvas Eb as r Er. destruct (Hrow _ _ Er) as [_ Br].
    destruct ((u =? 0) || (i0 + u <=? lenN r)); [|discriminate]. inversion Eb; subst b.
    apply Forall_subl, Br; assumption.
  - intros k' j' Hk' Hj'.
    assert (Lk : (N.to_nat k' < length (seqN i0 Mn))%nat) by (rewrite seqN_length; lia).
    pose proof (omapM_nth _ _ _ 0 [] _ H Lk) as E. cbv beta in E.
    rewrite seqN_nth in E by lia. replace (i0 + N.of_nat (N.to_nat k')) with (i0 + k') in E by lia.
    oinvas E as r Er.
    destruct ((u =? 0) || (i0 + u <=? lenN r)); [|discriminate]. inversion E as [E']. clear E.
    unfold cell at 1. unfold rowN at 1. rewrite <- E'. rewrite subl_nth by lia.
    replace (N.to_nat i0 + N.to_nat j')%nat with (N.to_nat (i0 + j')) by lia.
    destruct (i0 + k' <? first); destruct (getN_rowN _ _ _ Er) as [_ ->]; reflexivity.
Qed.

Lemma onX_frame m s f s' : onX m s f = Ok s' ->
  ps_A s' = ps_A s /\ ps_hd s' = ps_hd s /\ ps_c s' = ps_c s /\ ps_d s' = ps_d s /\ ps_ops s' = ps_ops s /\
  ps_i s' = ps_i s /\ ps_u s' = ps_u s /\ ps_W s' = ps_W s /\ ps_L s' = ps_L s.
Proof.
  unfold onX. intros H. destruct m; [inversion H; subst; repeat split|].
  oinvas H as X EX. inversion H; subst. cbn. repeat split.
Qed.

Lemma find_pivot_ge l col : forall j p, find_pivot l col j = Ok (Some p) -> j <= p.
Proof.
  induction l as [|row t IH]; intros j p H; cbn [find_pivot] in H; [discriminate|].
  oinvas H as v Ev. destruct (v =? 0).
  - apply IH in H. lia.
  - inversion H; subst. lia.
Qed.

Lemma record_mul_frame s i beta s' : record_mul_row s i beta = Ok s' ->
  i < lenN (ps_d s) /\
  ps_A s' = ps_A s /\ ps_hd s' = ps_hd s /\ ps_d s' = ps_d s /\ ps_c s' = ps_c s /\ ps_W s' = ps_W s
  /\ ps_i s' = ps_i s /\ ps_u s' = ps_u s /\ ps_L s' = ps_L s /\ ps_X s' = ps_X s.
Proof.
  unfold record_mul_row. intros H. oinvas H as di Edi. apply getN_ltN in Edi.
  destruct (ps_hd s) eqn:Eh; [discriminate|]. inversion H; subst; cbn. rewrite Eh. repeat split. exact Edi.
Qed.

Lemma record_fma_lt s i ip beta s' : record_fma_rows s i ip beta = Ok s' ->
  i < lenN (ps_d s) /\ ip < lenN (ps_d s).
Proof.
  unfold record_fma_rows. intros H. oinvas H as dp Edp. oinvas H as di Edi.
  apply getN_ltN in Edp, Edi. auto.
Qed.

Lemma ps_swap_rows_frame m s a b s' : ps_swap_rows m s a b = Ok s' ->
  swapN (ps_A s) a b = Ok (ps_A s') /\ ps_hd s' = ps_hd s /\ ps_c s' = ps_c s /\ ps_W s' = ps_W s
  /\ ps_i s' = ps_i s /\ ps_u s' = ps_u s /\ ps_L s' = ps_L s.
Proof.
  unfold ps_swap_rows. intros H. omon H. inversion H; subst s'. cbn.
  match goal with X : bm_swap_rows _ _ _ = Ok _ |- _ => unfold bm_swap_rows in X; rewrite X end.
  repeat split.
Qed.

Section P2.
Variable A0 : list (list N).
Variable M W : N.
Hypothesis A0_wf : wf_mat (N.to_nat W) A0.
Hypothesis A0_len : lenN A0 = M.
Local Notation G := (G A0).

(* the state at the end of the first phase: H HDPC rows logically at rows M-H .. M-1 *)
Record p2_pre (H : N) (s : pstate) : Prop := mkP2 {
  p2_lite : lite M s;
  p2_dims : dims (ps_A s) M W;
  p2_bin : bin_mat (ps_A s);
  p2_hlen : lenN (hd_rows s) = H;
  p2_hrows : Forall (fun r => lenN r = W) (hd_rows s);
  p2_HM : H <= M;
  p2_W : ps_W s = W;
  p2_L : ps_L s = W;
  p2_iu : ps_i s + ps_u s = W;
  p2_WM : W <= M;
  p2_agreeA : forall k j, k + H < M -> ps_i s <= j < W -> cell (ps_A s) k j = G s k j;
  p2_agreeH : forall k j, k < H -> ps_i s <= j < W -> cell (hd_rows s) k j = G s (M - H + k) j;
  p2_zero : forall k j, ps_i s <= k < M -> j < ps_i s -> G s k j = 0 }.

Section Inv.
Variable s0 : pstate.
Variables i0 u : N.
Hypothesis iuW : i0 + u = W.
Hypothesis WM : W <= M.

(* the part of the invariant that concerns the solver state alone *)
Record rinv (s : pstate) : Prop := mkRinv {
  ri_lite : lite M s;
  ri_hd : ps_hd s = None;
  ri_c : ps_c s = ps_c s0;
  ri_i : ps_i s = i0;
  ri_u : ps_u s = u;
  ri_W : ps_W s = W;
  ri_L : ps_L s = W;
  ri_dims : dims (ps_A s) M W;
  ri_bin : bin_mat (ps_A s);
  ri_rowA : forall k, k < i0 -> rowN (ps_A s) k = rowN (ps_A s0) k;
  ri_Gup : forall k j, k < i0 -> G s k j = G s0 k j;
  ri_zero : forall k j, i0 <= k < M -> j < i0 -> G s k j = 0 }.

Lemma rinv_swap m s a b s' : rinv s -> i0 <= a -> i0 <= b -> ps_swap_rows m s a b = Ok s' ->
  rinv s' /\ a < M /\ b < M.
Proof.
  intros R Ha Hb H. pose proof (lite_ps_swap_rows _ _ _ _ _ _ (ri_lite _ R) H) as L'.
  pose proof (G_swap_rows A0 _ _ _ _ _ H) as HG.
  destruct (ps_swap_rows_frame _ _ _ _ _ H) as (EA & Eh & Ec & EW & Ei & Eu & EL).
  destruct (swapN_lenN _ _ _ _ EA) as [LA [La Lb]]. destruct (ri_dims _ R) as [DL DF]. rewrite DL in *.
  split; [|split; assumption]. constructor.
  - exact L'.
  - rewrite Eh. apply (ri_hd _ R).
  - rewrite Ec. apply (ri_c _ R).
  - rewrite Ei. apply (ri_i _ R).
  - rewrite Eu. apply (ri_u _ R).
  - rewrite EW. apply (ri_W _ R).
  - rewrite EL. apply (ri_L _ R).
  - split; [exact LA|]. eapply Forall_swapN; eassumption.
  - unfold bin_mat. eapply Forall_swapN; [apply (ri_bin _ R) | exact EA].
  - intros k Hk. rewrite (swapN_rowN _ _ _ _ k EA). rewrite trN_below with (lo := i0) by assumption.
    apply (ri_rowA _ R), Hk.
  - intros k j Hk. rewrite HG. rewrite trN_below with (lo := i0) by assumption. apply (ri_Gup _ R), Hk.
  - intros k j Hk Hj. rewrite HG. apply (ri_zero _ R); [|exact Hj].
    apply (trN_range a b k i0 M); lia.
Qed.

Lemma rinv_mul s a beta s' : rinv s -> i0 <= a -> beta < 256 -> beta <> 0 ->
  record_mul_row s a beta = Ok s' -> rinv s' /\ a < M.
Proof.
  intros R Ha Hb Hnz H. pose proof (lite_record_mul _ _ _ _ _ (ri_lite _ R) H Hb Hnz) as L'.
  pose proof (G_record_mul A0 M A0_len _ _ _ _ (ri_lite _ R) H) as HG.
  destruct (record_mul_frame _ _ _ _ H) as (La & EA & Eh & Ed & Ec & EW & Ei & Eu & EL & _).
  destruct (lt_d _ _ (ri_lite _ R)) as [Dl _]. rewrite Dl in La.
  split; [|exact La]. constructor.
  - exact L'.
  - rewrite Eh. apply (ri_hd _ R).
  - rewrite Ec. apply (ri_c _ R).
  - rewrite Ei. apply (ri_i _ R).
  - rewrite Eu. apply (ri_u _ R).
  - rewrite EW. apply (ri_W _ R).
  - rewrite EL. apply (ri_L _ R).
  - rewrite EA. apply (ri_dims _ R).
  - rewrite EA. apply (ri_bin _ R).
  - intros k Hk. rewrite EA. apply (ri_rowA _ R), Hk.
  - intros k j Hk. rewrite HG by lia. destruct (N.eqb_spec k a); [lia|]. apply (ri_Gup _ R), Hk.
  - intros k j Hk Hj. rewrite HG by lia. destruct (N.eqb_spec k a) as [->|_].
    + rewrite (ri_zero _ R) by assumption. apply mulN_0_r.
    + apply (ri_zero _ R); assumption.
Qed.

Lemma rinv_fma s a b beta s' : rinv s -> i0 <= a -> i0 <= b -> a <> b -> beta < 256 ->
  record_fma_rows s a b beta = Ok s' -> rinv s' /\ a < M /\ b < M.
Proof.
  intros R Ha Hb Hne Hbeta H. pose proof (lite_record_fma _ _ _ _ _ _ (ri_lite _ R) H Hbeta Hne) as L'.
  pose proof (G_record_fma A0 M W A0_wf A0_len _ _ _ _ _ (ri_lite _ R) H Hbeta Hne) as HG.
  destruct (record_fma_frame _ _ _ _ _ H) as (EA & Eh & Ed & Ec & EW & Ei & Eu & EL & _).
  destruct (record_fma_lt _ _ _ _ _ H) as [La Lb].
  destruct (lt_d _ _ (ri_lite _ R)) as [Dl _]. rewrite Dl in La, Lb.
  split; [|split; assumption]. constructor.
  - exact L'.
  - rewrite Eh. apply (ri_hd _ R).
  - rewrite Ec. apply (ri_c _ R).
  - rewrite Ei. apply (ri_i _ R).
  - rewrite Eu. apply (ri_u _ R).
  - rewrite EW. apply (ri_W _ R).
  - rewrite EL. apply (ri_L _ R).
  - rewrite EA. apply (ri_dims _ R).
  - rewrite EA. apply (ri_bin _ R).
  - intros k Hk. rewrite EA. apply (ri_rowA _ R), Hk.
  - intros k j Hk. rewrite HG by lia. destruct (N.eqb_spec k b); [lia|]. apply (ri_Gup _ R), Hk.
  - intros k j Hk Hj. rewrite HG by lia. destruct (N.eqb_spec k b) as [->|_].
    + rewrite !(ri_zero _ R) by (try assumption; lia). rewrite mulN_0_r. reflexivity.
    + apply (ri_zero _ R); assumption.
Qed.

(* the state together with the second-phase submatrix *)
Record sinv (c : N) (s : pstate) (sub : list (list N)) : Prop := mkSinv {
  si_r : rinv s;
  si_len : lenN sub = M - i0;
  si_rows : Forall (fun r => lenN r = u) sub;
  si_bytes : bytes_mat sub;
  si_agree : forall k' j', k' < M - i0 -> j' < u -> cell sub k' j' = G s (i0 + k') (i0 + j');
  si_ech : forall c', c' < c -> cell sub c' c' = 1 /\ forall k', c' < k' < M - i0 -> cell sub k' c' = 0 }.

Lemma sinv_swap m c s sub j sub' s' : sinv c s sub -> c <= j -> swapN sub c j = Ok sub' ->
  ps_swap_rows m s (i0 + c) (j + i0) = Ok s' -> sinv c s' sub'.
Proof.
  intros S Hcj Hs Hp. destruct (swapN_lenN _ _ _ _ Hs) as [LS [Lc Lj]]. rewrite (si_len _ _ _ S) in *.
  assert (G1 : i0 <= i0 + c) by lia. assert (G2 : i0 <= j + i0) by lia.
  destruct (rinv_swap _ _ _ _ _ (si_r _ _ _ S) G1 G2 Hp) as [R' _].
  pose proof (G_swap_rows A0 _ _ _ _ _ Hp) as HG.
  constructor.
  - exact R'.
  - exact LS.
  - eapply Forall_swapN; [apply (si_rows _ _ _ S) | exact Hs].
  - unfold bytes_mat. eapply Forall_swapN; [apply (si_bytes _ _ _ S) | exact Hs].
  - intros k' j' Hk Hj. unfold cell. rewrite (swapN_rowN _ _ _ _ k' Hs). fold (cell sub (trN c j k') j').
    rewrite (si_agree _ _ _ S); [|apply (trN_range c j k' 0 (M - i0)); lia | exact Hj].
    rewrite HG, trN_shift. reflexivity.
  - intros c' Hc'. destruct (si_ech _ _ _ S c' Hc') as [E1 E2]. split.
    + unfold cell. rewrite (swapN_rowN _ _ _ _ c' Hs). rewrite trN_other by lia. exact E1.
    + intros k' Hk'. unfold cell. rewrite (swapN_rowN _ _ _ _ k' Hs). apply E2.
      pose proof (trN_range c j k' (c' + 1) (M - i0)) as X. lia.
Qed.

Lemma sinv_mul c s sub row inv sub' s' : sinv c s sub -> getN sub c = Ok row ->
  putN sub c (map (mulN inv) row) = Ok sub' -> record_mul_row s (i0 + c) inv = Ok s' ->
  inv < 256 -> inv <> 0 -> sinv c s' sub' /\ cell sub' c c = mulN inv (cell sub c c).
Proof.
  intros S Hg Hp Hr Hi Hnz. destruct (getN_rowN _ _ _ Hg) as [Lc ->]. rewrite (si_len _ _ _ S) in Lc.
  destruct (putN_lenN _ _ _ _ Hp) as [_ LS]. pose proof (putN_rowN _ _ _ _ Hp) as HR.
  assert (G1 : i0 <= i0 + c) by lia.
  destruct (rinv_mul _ _ _ _ (si_r _ _ _ S) G1 Hi Hnz Hr) as [R' _].
  pose proof (G_record_mul A0 M A0_len _ _ _ _ (ri_lite _ (si_r _ _ _ S)) Hr) as HG.
  assert (HC : forall k' j', cell sub' k' j' = if k' =? c then mulN inv (cell sub c j') else cell sub k' j').
  { intros k' j'. unfold cell. rewrite HR. destruct (k' =? c); [apply nth_map_mulN | reflexivity]. }
  split; [|rewrite HC, N.eqb_refl; reflexivity].
  constructor.
  - exact R'.
  - rewrite LS. apply (si_len _ _ _ S).
  - eapply bytes_putN; [apply (si_rows _ _ _ S) | | exact Hp]. unfold lenN. rewrite map_length.
    apply (Forall_rowN _ _ _ (si_rows _ _ _ S)). rewrite (si_len _ _ _ S). exact Lc.
  - eapply bytes_putN; [apply (si_bytes _ _ _ S) | | exact Hp]. apply bytes_map_mulN; [exact Hi|].
    apply bytes_mat_nth, (si_bytes _ _ _ S).
  - intros k' j' Hk Hj. rewrite HC, HG by lia. rewrite <- !(si_agree _ _ _ S) by assumption.
    destruct (N.eqb_spec k' c), (N.eqb_spec (i0 + k') (i0 + c)); try lia; reflexivity.
  - intros c' Hc'. destruct (si_ech _ _ _ S c' Hc') as [E1 E2]. split.
    + rewrite HC. destruct (N.eqb_spec c' c); [lia | exact E1].
    + intros k' Hk'. rewrite HC. destruct (N.eqb_spec k' c) as [->|_]; [|apply E2, Hk'].
      rewrite E2 by lia. apply mulN_0_r.
Qed.

Lemma sinv_fma c s sub j rowj scalar sub' s' : sinv c s sub -> c < j -> c < u ->
  getN sub j = Ok rowj -> scalar < 256 ->
  putN sub j (oct_row_fma rowj (rowN sub c) scalar) = Ok sub' ->
  record_fma_rows s (i0 + c) (i0 + j) scalar = Ok s' ->
  sinv c s' sub' /\ (forall k', k' <> j -> rowN sub' k' = rowN sub k') /\
  cell sub' j c = N.lxor (cell sub j c) (mulN scalar (cell sub c c)).
Proof.
  intros S Hcj Hcu Hg Hsc Hp Hr. destruct (getN_rowN _ _ _ Hg) as [Lj ->]. rewrite (si_len _ _ _ S) in Lj.
  destruct (putN_lenN _ _ _ _ Hp) as [_ LS]. pose proof (putN_rowN _ _ _ _ Hp) as HR.
  assert (G1 : i0 <= i0 + c) by lia. assert (G2 : i0 <= i0 + j) by lia. assert (G3 : i0 + c <> i0 + j) by lia.
  destruct (rinv_fma _ _ _ _ _ (si_r _ _ _ S) G1 G2 G3 Hsc Hr) as [R' _].
  pose proof (G_record_fma A0 M W A0_wf A0_len _ _ _ _ _ (ri_lite _ (si_r _ _ _ S)) Hr Hsc G3) as HG.
  assert (Lrow : forall k', k' < M - i0 -> length (rowN sub k') = N.to_nat u).
  { intros k' Hk'. assert (X : lenN (rowN sub k') = u).
    { apply (Forall_rowN _ _ _ (si_rows _ _ _ S)). rewrite (si_len _ _ _ S). exact Hk'. }
    unfold lenN in X. lia. }
  assert (Bc : bytes_row (rowN sub c)) by apply bytes_mat_nth, (si_bytes _ _ _ S).
  assert (Bj : bytes_row (rowN sub j)) by apply bytes_mat_nth, (si_bytes _ _ _ S).
  assert (HC : forall k' j', j' < u -> cell sub' k' j' =
     if k' =? j then N.lxor (cell sub j j') (mulN scalar (cell sub c j')) else cell sub k' j').
  { intros k' j' Hj'. unfold cell. rewrite HR. destruct (k' =? j); [|reflexivity].
    apply nth_oct_row_fma; [exact Bc | rewrite Lrow by lia; lia | rewrite Lrow by lia; lia]. }
  split; [|split].
  - constructor.
    + exact R'.
    + rewrite LS. apply (si_len _ _ _ S).
    + eapply bytes_putN; [apply (si_rows _ _ _ S) | | exact Hp]. unfold lenN.
      rewrite oct_row_fma_length, !Lrow by lia. lia.
    + eapply bytes_putN; [apply (si_bytes _ _ _ S) | | exact Hp]. apply bytes_oct_row_fma; assumption.
    + intros k' j' Hk Hj. rewrite HC, HG by lia. rewrite <- !(si_agree _ _ _ S) by (try assumption; lia).
      destruct (N.eqb_spec k' j), (N.eqb_spec (i0 + k') (i0 + j)); try lia; reflexivity.
    + intros c' Hc'. destruct (si_ech _ _ _ S c' Hc') as [E1 E2]. split.
      * rewrite HC by lia. destruct (N.eqb_spec c' j); [lia | exact E1].
      * intros k' Hk'. rewrite HC by lia. destruct (N.eqb_spec k' j) as [->|_]; [|apply E2, Hk'].
        rewrite !E2 by lia. rewrite mulN_0_r. reflexivity.
  - intros k' Hk'. rewrite HR. destruct (N.eqb_spec k' j); [contradiction | reflexivity].
  - rewrite HC by exact Hcu. rewrite N.eqb_refl. reflexivity.
Qed.

Lemma sinv_weaken c c' s sub : sinv c s sub -> c' <= c -> sinv c' s sub.
Proof. intros [a b d e f g] H. constructor; try assumption. intros x Hx. apply g. lia. Qed.

Lemma sinv_reduce_column m c s sub s' sub' : sinv c s sub -> c < u ->
  reduce_column m i0 c (s, sub) = Ok (Some (s', sub')) -> sinv (c + 1) s' sub'.
Proof.
  intros S Hcu H. unfold reduce_column in H. omon H.
  assert (S1 : sinv c p l).
  { destruct a as [j|]; [|inversion E0; subst; exact S]. apply find_pivot_ge in E. omon E0. inversion E0; subst.
    eapply sinv_swap; eassumption. }
  clear E E0 S.
  destruct (bm_get_cell _ _ _ _ E1) as (Lc & _ & ->). rewrite (si_len _ _ _ S1) in Lc.
  destruct (cell l c c =? 0) eqn:Ez; [discriminate|]. apply N.eqb_neq in Ez. omon H.
  inversion H; subst p1 l1. clear H E1.
  assert (S2 : sinv c p0 l0 /\ cell l0 c c = 1).
  { destruct (N.eqb_spec (cell l c c) 1) as [E1'|Hne]; [inversion E; subst; auto|].
    omon E. inversion E; subst.
    assert (Bv : cell l c c < 256) by apply bytes_nth, bytes_mat_nth, (si_bytes _ _ _ S1).
    assert (Hi : divN 1 (cell l c c) < 256) by (apply divN_lt; [reflexivity | exact Bv | exact Ez]).
    assert (Hnz : divN 1 (cell l c c) <> 0) by (apply divN_1_nz; assumption).
    match goal with X1 : getN l c = Ok _, X2 : putN l c _ = Ok _, X3 : record_mul_row _ _ _ = Ok _ |- _ =>
      destruct (sinv_mul _ _ _ _ _ _ _ S1 X1 X2 X3 Hi Hnz) as [S2 EC] end.
    split; [exact S2|]. rewrite EC, mulN_comm. apply mulN_inv; assumption. }
  clear E S1. destruct S2 as [S2 Ecc]. destruct (getN_rowN _ _ _ E0) as [_ ->]. clear E0.
  rewrite (si_len _ _ _ S2) in E2.
  assert (K : sinv c s' sub' /\ rowN sub' c = rowN l0 c /\ forall j, c < j < M - i0 -> cell sub' j c = 0).
  { revert E2. apply (ofold_seqN_inv' (fun p (st : pstate * list (list N)) =>
      sinv c (fst st) (snd st) /\ rowN (snd st) c = rowN l0 c /\ forall j, c < j < p -> cell (snd st) j c = 0)
      _ (c + 1) (M - i0) ltac:(lia)).
    - intros j [sa suba] [sb subb] Hj (Sa & Ra & Za) Eb. cbn [fst snd] in *. omon Eb.
      match goal with X : getN suba j = Ok _ |- _ => rename X into Grow end.
      match goal with X : getN _ c = Ok _ |- _ => rename X into Gsc end.
      destruct (getN_rowN _ _ _ Grow) as [Lj Erow]. subst.
      destruct (getN_nth0 _ _ _ Gsc) as [_ Esc]. fold (cell suba j c) in Esc. subst.
      destruct (N.eqb_spec (cell suba j c) 0) as [Esz|Esnz].
      + inversion Eb; subst. split; [exact Sa|]. split; [exact Ra|].
        intros j' Hj'. destruct (N.eq_dec j' j) as [->|Hne]; [exact Esz | apply Za; lia].
      + omon Eb. inversion Eb; subst.
        assert (Bs : cell suba j c < 256) by apply bytes_nth, bytes_mat_nth, (si_bytes _ _ _ Sa).
        assert (Hcj : c < j) by lia.
        match goal with X2 : putN suba j _ = Ok _, X3 : record_fma_rows _ _ _ _ = Ok _ |- _ =>
          rewrite <- Ra in X2;
          destruct (sinv_fma _ _ _ _ _ _ _ _ Sa Hcj Hcu Grow Bs X2 X3) as (Sb & Rb & Cb) end.
        split; [exact Sb|]. split; [rewrite Rb by lia; exact Ra|].
        intros j' Hj'. destruct (N.eq_dec j' j) as [->|Hne].
        * rewrite Cb. unfold cell at 3. rewrite Ra. fold (cell l0 c c). rewrite Ecc.
          rewrite mulN_1_r by exact Bs. apply N.lxor_nilpotent.
        * unfold cell. rewrite Rb by exact Hne. apply Za. lia.
    - cbn [fst snd]. split; [exact S2|]. split; [reflexivity|]. intros j Hj. lia. }
  destruct K as (S3 & R3 & Z3). constructor.
  - apply (si_r _ _ _ S3).
  - apply (si_len _ _ _ S3).
  - apply (si_rows _ _ _ S3).
  - apply (si_bytes _ _ _ S3).
  - apply (si_agree _ _ _ S3).
  - intros c' Hc'. destruct (N.eq_dec c' c) as [->|Hne].
    + split; [|exact Z3]. unfold cell. rewrite R3. exact Ecc.
    + apply (si_ech _ _ _ S3). lia.
Qed.

Lemma sinv_reduce_loop m : forall n c s sub s' sub', N.of_nat n + c = u -> sinv c s sub ->
  reduce_loop m i0 (seqN c u) (s, sub) = Ok (Some (s', sub')) -> sinv u s' sub'.
Proof.
  induction n as [|n IH]; intros c s sub s' sub' Hn S H.
  - rewrite seqN_nil in H by lia. cbn in H. inversion H; subst. replace u with c by lia. exact S.
  - rewrite seqN_cons in H by lia. cbn [reduce_loop] in H. oinvas H as r Er.
    destruct r as [[s1 sub1]|]; [|discriminate].
    apply (IH (c + 1) s1 sub1); [lia | | exact H].
    eapply sinv_reduce_column; [exact S | lia | exact Er].
Qed.

(* ================= (D) backwards elimination ================= *)

Lemma back_inner sS s sub c sB : sinv u sS sub -> c < u -> rinv s ->
  (forall k' j', k' < u -> j' < u ->
     G s (i0 + k') (i0 + j') = if c + 1 <=? j' then (if k' =? j' then 1 else 0) else cell sub k' j') ->
  ofold (fun j s => scalar <- bm_get sub j c ;;
                    if scalar =? 0 then Ok s else record_fma_rows s (i0 + c) (i0 + j) scalar)
        (seqN 0 c) s = Ok sB ->
  rinv sB /\
  (forall k' j', k' < u -> j' < u ->
     G sB (i0 + k') (i0 + j') = if c <=? j' then (if k' =? j' then 1 else 0) else cell sub k' j').
Proof.
  intros S Hc R HP H.
  assert (K : rinv sB /\
    (forall k' j', k' < u -> j' < u -> j' <> c ->
       G sB (i0 + k') (i0 + j') = if c + 1 <=? j' then (if k' =? j' then 1 else 0) else cell sub k' j') /\
    (forall k', c <= k' < u -> G sB (i0 + k') (i0 + c) = cell sub k' c) /\
    (forall k', k' < c -> G sB (i0 + k') (i0 + c) = 0)).
  { revert H. apply (ofold_seqN_inv' (fun p st => rinv st /\
      (forall k' j', k' < u -> j' < u -> j' <> c ->
         G st (i0 + k') (i0 + j') = if c + 1 <=? j' then (if k' =? j' then 1 else 0) else cell sub k' j') /\
      (forall k', p <= k' < u -> G st (i0 + k') (i0 + c) = cell sub k' c) /\
      (forall k', k' < p -> G st (i0 + k') (i0 + c) = 0)) _ 0 c ltac:(lia)).
    - intros j st st' Hj (Rs & Q1 & Q2 & Q3) E. omon E.
      match goal with X : bm_get sub j c = Ok _ |- _ => destruct (bm_get_cell _ _ _ _ X) as (_ & _ & ->) end.
      destruct (N.eqb_spec (cell sub j c) 0) as [Ez|Enz].
      + inversion E; subst st'. split; [exact Rs|]. split; [exact Q1|]. split.
        * intros k' Hk'. apply Q2. lia.
        * intros k' Hk'. destruct (N.eq_dec k' j) as [->|Hne]; [rewrite Q2 by lia; exact Ez | apply Q3; lia].
      + assert (Bs : cell sub j c < 256) by apply bytes_nth, bytes_mat_nth, (si_bytes _ _ _ S).
        assert (G1 : i0 <= i0 + c) by lia. assert (G2 : i0 <= i0 + j) by lia.
        assert (G3 : i0 + c <> i0 + j) by lia.
        destruct (rinv_fma _ _ _ _ _ Rs G1 G2 G3 Bs E) as [R' _].
        pose proof (G_record_fma A0 M W A0_wf A0_len _ _ _ _ _ (ri_lite _ Rs) E Bs G3) as HG.
        assert (Hrow : forall j', j' < u -> G st (i0 + c) (i0 + j') = if j' =? c then 1 else 0).
        { intros j' Hj'. destruct (N.eqb_spec j' c) as [->|Hne].
          - rewrite Q2 by lia. apply (si_ech _ _ _ S c Hc).
          - rewrite Q1 by assumption. destruct (N.leb_spec (c + 1) j').
            + destruct (N.eqb_spec c j'); [lia | reflexivity].
            + apply (si_ech _ _ _ S j'); lia. }
        split; [exact R'|]. split; [|split].
        * intros k' j' Hk' Hj' Hne. rewrite HG by lia. rewrite Hrow by exact Hj'.
          destruct (N.eqb_spec j' c); [contradiction|]. rewrite mulN_0_r, N.lxor_0_r.
          destruct (N.eqb_spec (i0 + k') (i0 + j)) as [Ee|_]; [rewrite <- Ee|]; apply Q1; assumption.
        * intros k' Hk'. rewrite HG by lia. destruct (N.eqb_spec (i0 + k') (i0 + j)); [lia|]. apply Q2. lia.
        * intros k' Hk'. rewrite HG by lia. destruct (N.eqb_spec (i0 + k') (i0 + j)) as [Ee|Hne].
          -- rewrite Hrow by exact Hc. rewrite N.eqb_refl. rewrite Q2 by lia.
             rewrite mulN_1_r by exact Bs. apply N.lxor_nilpotent.
          -- apply Q3. lia.
    - split; [exact R|]. split; [|split].
      + intros k' j' Hk' Hj' _. apply HP; assumption.
      + intros k' Hk'. rewrite HP by lia. destruct (N.leb_spec (c + 1) c); [lia | reflexivity].
      + intros k' Hk'. lia. }
  destruct K as (RB & Q1 & Q2 & Q3). split; [exact RB|].
  intros k' j' Hk' Hj'. destruct (N.eq_dec j' c) as [->|Hne].
  - destruct (N.leb_spec c c); [|lia]. destruct (N.eqb_spec k' c) as [->|Hkc].
    + rewrite Q2 by lia. apply (si_ech _ _ _ S c Hc).
    + destruct (N.ltb_spec k' c).
      * apply Q3. assumption.
      * rewrite Q2 by lia. apply (si_ech _ _ _ S c Hc). lia.
  - rewrite Q1 by assumption. destruct (N.leb_spec (c + 1) j'), (N.leb_spec c j'); try lia; reflexivity.
Qed.

Lemma back_fold s sub sB : sinv u s sub ->
  ofold (fun i s =>
         ofold (fun j s =>
           scalar <- bm_get sub j i ;;
           if scalar =? 0 then Ok s else record_fma_rows s (i0 + i) (i0 + j) scalar)
         (seqN 0 i) s) (rev (seqN 0 u)) s = Ok sB ->
  rinv sB /\
  (forall k' j', k' < u -> j' < u -> G sB (i0 + k') (i0 + j') = if k' =? j' then 1 else 0).
Proof.
  intros S H.
  assert (K : rinv sB /\ (forall k' j', k' < u -> j' < u ->
     G sB (i0 + k') (i0 + j') = if 0 <=? j' then (if k' =? j' then 1 else 0) else cell sub k' j')).
  { revert H. apply (ofold_rev_seqN_inv (fun c st => rinv st /\ (forall k' j', k' < u -> j' < u ->
       G st (i0 + k') (i0 + j') = if c <=? j' then (if k' =? j' then 1 else 0) else cell sub k' j'))
       _ (N.to_nat u) u ltac:(lia)).
    - intros c st st' Hc [Rs HP] E. eapply back_inner; eassumption.
    - split; [apply (si_r _ _ _ S)|]. intros k' j' Hk' Hj'. destruct (N.leb_spec u j'); [lia|].
      symmetry. apply (si_agree _ _ _ S); lia. }
  destruct K as [RB HB]. split; [exact RB|]. intros k' j' Hk' Hj'. rewrite HB by assumption.
  destruct (N.leb_spec 0 j'); [reflexivity | lia].
Qed.

Lemma back_spec s sub s' : sinv u s sub -> backwards_elimination s sub i0 i0 u = Ok s' ->
  ps_hd s' = None /\ ps_c s' = ps_c s0 /\ ps_i s' = i0 /\ ps_u s' = u /\ ps_W s' = W /\ ps_L s' = W /\
  dims (ps_A s') M W /\ bin_mat (ps_A s') /\
  (forall k, k < i0 -> rowN (ps_A s') k = rowN (ps_A s0) k) /\
  (forall k j, k < i0 -> G s' k j = G s0 k j) /\
  (forall k j, i0 <= k < W -> j < W -> G s' k j = if k =? j then 1 else 0) /\
  (forall k j, i0 <= k < W -> i0 <= j < W -> cell (ps_A s') k j = if k =? j then 1 else 0).
Proof.
  intros S H. unfold backwards_elimination in H. omon H. inversion H; subst s'. clear H.
  match goal with X : ofold _ (rev _) s = Ok ?sB |- _ => destruct (back_fold _ _ _ S X) as [RB HB]; rename sB into sb end.
  match goal with X : ofold _ (seqN i0 _) (ps_A sb) = Ok ?A' |- _ =>
    destruct (ident_write M W i0 u _ _ (ri_dims _ RB) (ri_bin _ RB) ltac:(lia) ltac:(lia) X) as (D' & B' & R' & C') end.
  assert (HG : forall A' k j, G (set_A sb A') k j = G sb k j) by (intros; apply G_frame; reflexivity).
  cbn [set_A ps_hd ps_c ps_i ps_u ps_W ps_L ps_A].
  split; [apply (ri_hd _ RB)|]. split; [apply (ri_c _ RB)|]. split; [apply (ri_i _ RB)|].
  split; [apply (ri_u _ RB)|]. split; [apply (ri_W _ RB)|]. split; [apply (ri_L _ RB)|].
  split; [exact D'|]. split; [exact B'|].
  split; [intros k Hk; rewrite R' by exact Hk; apply (ri_rowA _ RB), Hk|].
  split; [intros k j Hk; rewrite HG; apply (ri_Gup _ RB), Hk|].
  split.
  - intros k j Hk Hj. rewrite HG. destruct (N.ltb_spec j i0) as [Hlt|Hge].
    + rewrite (ri_zero _ RB) by lia. destruct (N.eqb_spec k j); [lia | reflexivity].
    + replace k with (i0 + (k - i0)) by lia. replace j with (i0 + (j - i0)) by lia.
      rewrite HB by lia.
      destruct (N.eqb_spec (k - i0) (j - i0)), (N.eqb_spec (i0 + (k - i0)) (i0 + (j - i0))); try lia; reflexivity.
  - intros k j Hk Hj. apply C'; lia.
Qed.
End Inv.

Lemma second_phase_spec m H s xo s' : p2_pre H s -> second_phase m s xo = Ok (Some s') ->
  lite M s' /\ ps_hd s' = None /\ ps_i s' = ps_i s /\ ps_u s' = ps_u s /\ ps_c s' = ps_c s /\
  ps_W s' = W /\ ps_L s' = W /\ dims (ps_A s') W W /\ bin_mat (ps_A s') /\
  (forall k j, k < ps_i s -> cell (ps_A s') k j = cell (ps_A s) k j) /\
  (forall k j, k < ps_i s -> G s' k j = G s k j) /\
  (forall k j, ps_i s <= k < W -> j < W -> G s' k j = if k =? j then 1 else 0) /\
  (forall k j, ps_i s <= k < W -> ps_i s <= j < W -> cell (ps_A s') k j = if k =? j then 1 else 0).
Proof.
  intros P H0. pose proof (lite_second_phase _ _ _ _ _ (p2_lite _ _ P) H0) as Lfin.
  unfold second_phase in H0. omon H0.
  match goal with X : onX m s _ = Ok ?s1 |- _ =>
    destruct (onX_frame _ _ _ _ X) as (EA & Eh & Ec & Ed & Eo & Ei & Eu & EW & EL);
    pose proof (lite_onX _ _ _ _ _ (p2_lite _ _ P) X) as L1; rename s1 into sx end.
  clear E E0. rewrite Ei, Eu in *.
  destruct a1 as [[sr sub]|]; [|discriminate]. omon H0. inversion H0; subst s'. clear H0.
  fold (hd_rows sx) in E1. assert (Ehr : hd_rows sx = hd_rows s) by (unfold hd_rows; rewrite Eh; reflexivity).
  rewrite Ehr in E1.
  set (sI := set_hd sx None) in *. set (i0 := ps_i s) in *. set (u := ps_u s) in *.
  pose proof (p2_iu _ _ P) as iuW. fold i0 u in iuW. pose proof (p2_WM _ _ P) as WM.
  assert (LI : lite M sI) by apply lite_set_hd_none, L1.
  assert (GI : forall k j, G sI k j = G s k j) by (intros; apply G_frame; assumption).
  assert (RI : rinv sI i0 u sI).
  { constructor; cbn [sI set_hd ps_hd ps_c ps_i ps_u ps_W ps_L ps_A]; try reflexivity; try assumption.
    - rewrite EW. apply (p2_W _ _ P).
    - rewrite EL. apply (p2_L _ _ P).
    - rewrite EA. apply (p2_dims _ _ P).
    - rewrite EA. apply (p2_bin _ _ P).
    - intros k j Hk Hj. rewrite GI. apply (p2_zero _ _ P); assumption. }
  unfold record_reduce_to_row_echelon in E1. omon E1.
  assert (EhI : ps_height sI = M).
  { unfold ps_height. cbn [sI set_hd ps_A]. rewrite EA. apply (p2_dims _ _ P). }
  rewrite EhI in *. pose proof (p2_HM _ _ P) as HM.
  match goal with X : usub m M _ = Ok ?f |- _ =>
    rewrite (p2_hlen _ _ P) in X; apply usub_inv in X; [|exact HM]; subst f end.
  assert (DI : dims (ps_A sI) M W) by apply (ri_dims _ _ _ _ RI).
  match goal with X : omapM _ (seqN i0 M) = Ok ?sb |- _ =>
    destruct (sub_init _ _ _ _ _ _ _ _ DI (p2_hrows _ _ P) iuW X) as (SL & SR & SB & SC); rename sb into sub0 end.
  assert (S0 : sinv sI i0 u 0 sI sub0).
  { constructor.
    - exact RI.
    - exact SL.
    - exact SR.
    - apply SB; [apply (lt_A _ _ LI)|]. pose proof (lt_hd _ _ (p2_lite _ _ P)) as X. unfold hd_rows.
      destruct (ps_hd s); [exact X | constructor].
    - intros k' j' Hk' Hj'. rewrite SC by assumption. rewrite GI.
      destruct (N.ltb_spec (i0 + k') (M - H)).
      + cbn [sI set_hd ps_A]. rewrite EA. apply (p2_agreeA _ _ P); fold i0; lia.
      + rewrite (p2_agreeH _ _ P) by (fold i0; lia). f_equal. lia.
    - intros c' Hc'. lia. }
  assert (Hn : N.of_nat (N.to_nat u) + 0 = u) by lia.
  pose proof (sinv_reduce_loop sI i0 u iuW WM m (N.to_nat u) 0 _ _ _ _ Hn S0 E1) as S1.
  match goal with X : backwards_elimination sr sub i0 i0 u = Ok ?sb |- _ =>
    destruct (back_spec sI i0 u iuW WM _ _ _ S1 X) as (Bh & Bc & Bi & Bu & BW & BL & BD & BB & BR & BGu & BGi & BC);
    rename sb into sB end.
  match goal with X : bm_resize (ps_A sB) _ _ _ = Ok ?A' |- _ =>
    rewrite BL in X; destruct (resize_spec _ _ _ _ _ BD WM X) as (FD & FB & FR); rename A' into AF end.
  assert (GF : forall A' Wd k j, G (mkPS A' Wd (ps_hd sB) (ps_X sB) (ps_c sB) (ps_d sB) (ps_i sB) (ps_u sB)
                                    (ps_L sB) (ps_ops sB)) k j = G sB k j)
    by (intros; apply G_frame; reflexivity).
  cbn [ps_A ps_hd ps_i ps_u ps_c ps_W ps_L].
  assert (Hi0W : i0 <= W) by lia.
  split; [exact Lfin|]. split; [exact Bh|]. split; [exact Bi|]. split; [exact Bu|].
  split; [rewrite Bc; exact Ec|]. split; [exact BL|]. split; [exact BL|]. split; [exact FD|].
  split; [exact (FB BB)|].
  split; [intros k j Hk; unfold cell; rewrite FR by lia; rewrite BR by exact Hk;
          cbn [sI set_hd ps_A]; rewrite EA; reflexivity|].
  split; [intros k j Hk; rewrite GF, BGu by exact Hk; apply GI|].
  split; [intros k j Hk Hj; rewrite GF; apply BGi; assumption|].
  intros k j Hk Hj. unfold cell. rewrite FR by lia. apply BC; assumption.
Qed.

End P2.
