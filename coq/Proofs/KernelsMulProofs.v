(* Proofs about Model/Kernels.v, part 2: the nibble-split multiplication of one register
   (pshufb per lane, srli_epi64 + mask = per-byte shift), generic in the number of 128-bit lanes,
   then mulassign_scalar and fused_addassign_mul_scalar (four kernels each, every length). *)
From Coq Require Import NArith ZArith List Bool Arith Lia ZifyBool ZifyN ZifyNat.
From RQ Require Import Base.Outcome Base.Ints Base.ListX Base.Vec Spec.Bits Model.Octet Model.Kernels
  Proofs.OctetProofs Proofs.VecLemmas Proofs.KernelsProofs.
Import ListNotations.
Ltac Zify.zify_post_hook ::= Z.div_mod_to_equations.
Open Scope N_scope.

(* ---------------------------------------------------------------- the two 16-entry tables *)

Definition TLf (c : N) (j : nat) : N := or0 (tbl2 octet_mul_low_table c (N.of_nat j)).
Definition THf (c : N) (j : nat) : N := or0 (tbl2 octet_mul_hi_table c (N.of_nat j)).

(* mulN c x = hi[c][x >> 4] xor low[c][x & 15]   (from tables_ok) *)
Lemma nibble_split c x : c < 256 -> x < 256 ->
  N.lxor (THf c (N.to_nat (N.shiftr x 4))) (TLf c (N.to_nat (N.land x 15))) = mulN c x.
Proof.
  intros Hc Hx. destruct (tables_ok c x Hc Hx) as [_ [l [h [H1 [H2 H3]]]]].
  unfold TLf, THf. rewrite !N2Nat.id, H1, H2. cbn [or0]. rewrite N.lxor_comm. exact H3.
Qed.

(* the upper half of each 32-byte row repeats the lower half (from tables_dup_ok) *)
Lemma TLf_dup c j : c < 256 -> (j < 16)%nat -> TLf c (16 + j) = TLf c j.
Proof.
  intros Hc Hj. unfold TLf. destruct (tables_dup_ok c (N.of_nat j) Hc ltac:(lia)) as [E _].
  replace (N.of_nat (16 + j)) with (N.of_nat j + 16) by lia. rewrite E. reflexivity.
Qed.
Lemma THf_dup c j : c < 256 -> (j < 16)%nat -> THf c (16 + j) = THf c j.
Proof.
  intros Hc Hj. unfold THf. destruct (tables_dup_ok c (N.of_nat j) Hc ltac:(lia)) as [_ [E _]].
  replace (N.of_nat (16 + j)) with (N.of_nat j + 16) by lia. rewrite E. reflexivity.
Qed.

Lemma rows_low_ok : forallb (fun r => (length r =? 32)%nat) octet_mul_low_table = true.
Proof. vm_compute. reflexivity. Qed.
Lemma rows_hi_ok : forallb (fun r => (length r =? 32)%nat) octet_mul_hi_table = true.
Proof. vm_compute. reflexivity. Qed.
Lemma len_low_table : length octet_mul_low_table = 256%nat. Proof. vm_compute. reflexivity. Qed.
Lemma len_hi_table : length octet_mul_hi_table = 256%nat. Proof. vm_compute. reflexivity. Qed.

Lemma nth_or0 (row : list N) j : nth j row 0 = or0 (nth_ok row j).
Proof.
  unfold nth_ok. destruct (nth_error row j) eqn:E; cbn [or0].
  - apply nth_error_nth. exact E.
  - apply nth_overflow. apply nth_error_None. exact E.
Qed.

Lemma low_row c : c < 256 -> exists row,
  nth_ok octet_mul_low_table (N.to_nat c) = Ok row /\ length row = 32%nat /\
  forall j, nth j row 0 = TLf c j.
Proof.
  intros Hc. exists (nth (N.to_nat c) octet_mul_low_table []).
  assert (Hlt : (N.to_nat c < length octet_mul_low_table)%nat) by (rewrite len_low_table; lia).
  split; [apply nth_ok_nth; exact Hlt|]. split.
  - pose proof rows_low_ok as R. rewrite forallb_forall in R. apply Nat.eqb_eq. apply R.
    apply nth_In. exact Hlt.
  - intros j. unfold TLf, tbl2. rewrite (nth_ok_nth [] _ _ Hlt). cbn [obind].
    rewrite Nat2N.id. apply nth_or0.
Qed.

Lemma hi_row c : c < 256 -> exists row,
  nth_ok octet_mul_hi_table (N.to_nat c) = Ok row /\ length row = 32%nat /\
  forall j, nth j row 0 = THf c j.
Proof.
  intros Hc. exists (nth (N.to_nat c) octet_mul_hi_table []).
  assert (Hlt : (N.to_nat c < length octet_mul_hi_table)%nat) by (rewrite len_hi_table; lia).
  split; [apply nth_ok_nth; exact Hlt|]. split.
  - pose proof rows_hi_ok as R. rewrite forallb_forall in R. apply Nat.eqb_eq. apply R.
    apply nth_In. exact Hlt.
  - intros j. unfold THf, tbl2. rewrite (nth_ok_nth [] _ _ Hlt). cbn [obind].
    rewrite Nat2N.id. apply nth_or0.
Qed.

(* every 128-bit lane of register t holds the 16-entry table T *)
Definition lane_table (lanes : nat) (t : list N) (T : nat -> N) : Prop :=
  forall l j, (l < lanes)%nat -> (j < 16)%nat -> nth (16 * l + j) t 0 = T j.

Lemma lane_table_16 row T : (forall j, nth j row 0 = T j) -> lane_table 1 (firstn 16 (skipn 0 row)) T.
Proof.
  intros H l j Hl Hj. cbn [skipn]. rewrite nth_firstn_lt by lia. rewrite H.
  f_equal. lia.
Qed.

Lemma lane_table_32 row T : (forall j, nth j row 0 = T j) -> (forall j, (j < 16)%nat -> T (16 + j)%nat = T j) ->
  lane_table 2 (firstn 32 (skipn 0 row)) T.
Proof.
  intros H D l j Hl Hj. cbn [skipn]. rewrite nth_firstn_lt by lia. rewrite H.
  destruct l as [|[|l]]; [f_equal; lia | | lia].
  replace (16 * 1 + j)%nat with (16 + j)%nat by lia. apply D. exact Hj.
Qed.

Lemma lane_table_broadcast row T : length row = 32%nat -> (forall j, nth j row 0 = T j) ->
  lane_table 4 (v_broadcast128 64 (firstn 16 (skipn 0 row))) T.
Proof.
  intros HL H l j Hl Hj. cbn [skipn]. unfold v_broadcast128.
  change (64 / 16)%nat with 4%nat. cbn [repeat concat].
  assert (L16 : length (firstn 16 row) = 16%nat) by (rewrite firstn_length; lia).
  assert (E : nth j (firstn 16 row) 0 = T j) by (rewrite nth_firstn_lt by lia; apply H).
  destruct l as [|[|[|[|l]]]]; try lia.
  - rewrite app_nth1 by lia. replace (16 * 0 + j)%nat with j by lia. exact E.
  - rewrite app_nth2 by lia. rewrite app_nth1 by lia.
    replace (16 * 1 + j - length (firstn 16 row))%nat with j by lia. exact E.
  - rewrite app_nth2 by lia. rewrite app_nth2 by lia. rewrite app_nth1 by lia.
    replace (16 * 2 + j - length (firstn 16 row) - length (firstn 16 row))%nat with j by lia. exact E.
  - rewrite app_nth2 by lia. rewrite app_nth2 by lia. rewrite app_nth2 by lia. rewrite app_nth1 by lia.
    replace (16 * 3 + j - length (firstn 16 row) - length (firstn 16 row) - length (firstn 16 row))%nat
      with j by lia. exact E.
Qed.

(* ---------------------------------------------------------------- pshufb *)

Lemma pshufb128_ok t x (T : nat -> N) :
  Forall (fun v => v < 16) x -> (forall j, (j < 16)%nat -> nth j t 0 = T j) ->
  pshufb128 t x = map (fun xj => T (N.to_nat xj)) x.
Proof.
  intros Hx HT. unfold pshufb128. apply map_ext_in. intros a Ha.
  rewrite Forall_forall in Hx. specialize (Hx a Ha).
  destruct (128 <=? a) eqn:E; [apply N.leb_le in E; lia|].
  rewrite N.mod_small by lia. apply HT. lia.
Qed.

Lemma shuffle_ok : forall lanes t x (T : nat -> N),
  length x = (16 * lanes)%nat -> Forall (fun v => v < 16) x -> lane_table lanes t T ->
  v_shuffle_epi8 lanes t x = map (fun xj => T (N.to_nat xj)) x.
Proof.
  induction lanes as [|lanes IH]; intros t x T HL Hx HT.
  - destruct x; [reflexivity | cbn [length] in HL; lia].
  - cbn [v_shuffle_epi8].
    rewrite (pshufb128_ok (firstn 16 t) (firstn 16 x) T).
    + rewrite (IH (skipn 16 t) (skipn 16 x) T).
      * rewrite <- map_app, firstn_skipn. reflexivity.
      * rewrite skipn_length. lia.
      * apply Forall_skipn. exact Hx.
      * intros l j Hl Hj. rewrite nth_skipn.
        replace (16 + (16 * l + j))%nat with (16 * S l + j)%nat by lia. apply HT; lia.
    + apply Forall_firstn. exact Hx.
    + intros j Hj. rewrite nth_firstn_lt by lia.
      replace j with (16 * 0 + j)%nat at 1 by lia. apply HT; lia.
Qed.

(* ---------------------------------------------------------------- srli_epi64 by 4 *)

Lemma srli_length : forall q s x, length (v_srli_epi64 q s x) = (8 * q)%nat.
Proof.
  induction q as [|q IH]; intros s x; cbn [v_srli_epi64]; [reflexivity|].
  rewrite app_length, le_bytes_length, IH. lia.
Qed.

(* one 64-bit element: the bits that cross a byte boundary are removed by the mask *)
Lemma srli4_qword_div : forall bs n, length bs = n -> bytes bs ->
  map (fun x => x mod 16) (le_bytes n (le_val bs / 16)) = map (fun b => b / 16) bs.
Proof.
  induction bs as [|b t IH]; intros n Hn Hb; subst n; cbn [length le_bytes le_val map]; [reflexivity|].
  inversion Hb as [|? ? Hb1 Hb2]; subst.
  replace ((b + 256 * le_val t) / 16 / 256) with (le_val t / 16) by lia.
  f_equal; [lia|]. apply IH; [reflexivity | assumption].
Qed.

Lemma land15_mod x : N.land x 15 = x mod 16.
Proof. change 15 with (N.ones 4). rewrite N.land_ones. reflexivity. Qed.
Lemma shiftr4_div x : N.shiftr x 4 = x / 16.
Proof. rewrite N.shiftr_div_pow2. reflexivity. Qed.

Lemma srli4_qword_and15 bs n : length bs = n -> bytes bs ->
  map (fun x => N.land x 15) (le_bytes n (N.shiftr (le_val bs) 4)) = map (fun b => N.shiftr b 4) bs.
Proof.
  intros Hn Hb. rewrite shiftr4_div.
  rewrite (map_ext (fun x => N.land x 15) (fun x => x mod 16) land15_mod).
  rewrite (map_ext (fun b => N.shiftr b 4) (fun b => b / 16) shiftr4_div).
  apply srli4_qword_div; assumption.
Qed.

Lemma sweep_land240_ok : forall_lt 256 (fun b => N.land b 240 =? 16 * (b / 16)) = true.
Proof. vm_compute. reflexivity. Qed.
Lemma land240 b : b < 256 -> N.land b 240 = 16 * (b / 16).
Proof.
  intros H. apply N.eqb_eq. pose proof sweep_land240_ok as S0. exact (forall_lt_spec _ _ S0 b H).
Qed.

Lemma le_val_mul16 : forall bs, le_val (map (fun b => 16 * (b / 16)) bs) = 16 * le_val (map (fun b => b / 16) bs).
Proof. induction bs as [|b t IH]; cbn [map le_val]; [reflexivity|]. rewrite IH. lia. Qed.

Lemma srli4_qword_masked bs n : length bs = n -> bytes bs ->
  le_bytes n (N.shiftr (le_val (map (fun b => N.land b 240) bs)) 4) = map (fun b => N.shiftr b 4) bs.
Proof.
  intros Hn Hb. rewrite shiftr4_div.
  rewrite (map_ext_in (fun b => N.land b 240) (fun b => 16 * (b / 16))).
  2:{ intros a Ha. apply land240. unfold bytes in Hb. rewrite Forall_forall in Hb. apply Hb, Ha. }
  rewrite le_val_mul16. replace (16 * le_val (map (fun b => b / 16) bs) / 16) with (le_val (map (fun b => b / 16) bs)) by lia.
  rewrite (map_ext (fun b => N.shiftr b 4) (fun b => b / 16) shiftr4_div).
  apply le_bytes_le_val; [rewrite map_length; exact Hn|].
  unfold bytes in *. rewrite Forall_forall in *. intros y Hy. apply in_map_iff in Hy.
  destruct Hy as [b [<- Hin]]. specialize (Hb b Hin). lia.
Qed.

(* AVX-512 order: srli_epi64(v, 4) then and 0x0F  =  per-byte >> 4 *)
Lemma srli4_and15 : forall q x, length x = (8 * q)%nat -> bytes x ->
  map (fun v => N.land v 15) (v_srli_epi64 q 4 x) = map (fun b => N.shiftr b 4) x.
Proof.
  induction q as [|q IH]; intros x HL Hb.
  - destruct x; [reflexivity | cbn [length] in HL; lia].
  - cbn [v_srli_epi64]. rewrite map_app.
    rewrite (srli4_qword_and15 (firstn 8 x) 8) by (try (rewrite firstn_length; lia); apply bytes_firstn, Hb).
    rewrite IH by (try (rewrite skipn_length; lia); apply bytes_skipn, Hb).
    rewrite <- map_app, firstn_skipn. reflexivity.
Qed.

(* AVX2 / SSSE3 order: and 0xF0 then srli_epi64(., 4)  =  per-byte >> 4 *)
Lemma mask240_srli4 : forall q x, length x = (8 * q)%nat -> bytes x ->
  v_srli_epi64 q 4 (map (fun b => N.land b 240) x) = map (fun b => N.shiftr b 4) x.
Proof.
  induction q as [|q IH]; intros x HL Hb.
  - destruct x; [reflexivity | cbn [length] in HL; lia].
  - cbn [v_srli_epi64]. rewrite firstn_map, skipn_map.
    rewrite (srli4_qword_masked (firstn 8 x) 8) by (try (rewrite firstn_length; lia); apply bytes_firstn, Hb).
    rewrite IH by (try (rewrite skipn_length; lia); apply bytes_skipn, Hb).
    rewrite <- map_app, firstn_skipn. reflexivity.
Qed.

(* ---------------------------------------------------------------- one register times c *)

Lemma nibble_combine lanes c tl th v : c < 256 ->
  length v = (16 * lanes)%nat -> bytes v -> lane_table lanes tl (TLf c) -> lane_table lanes th (THf c) ->
  v_xor (v_shuffle_epi8 lanes th (map (fun b => N.shiftr b 4) v))
        (v_shuffle_epi8 lanes tl (map (fun b => N.land b 15) v)) = map (mulN c) v.
Proof.
  intros Hc HL Hb Htl Hth.
  assert (B : forall a, In a v -> a < 256) by (unfold bytes in Hb; rewrite Forall_forall in Hb; exact Hb).
  rewrite (shuffle_ok lanes th _ (THf c)); [| rewrite map_length; exact HL | | exact Hth].
  2:{ rewrite Forall_forall. intros y Hy. apply in_map_iff in Hy. destruct Hy as [b [<- Hin]].
      rewrite shiftr4_div. specialize (B b Hin). lia. }
  rewrite (shuffle_ok lanes tl _ (TLf c)); [| rewrite map_length; exact HL | | exact Htl].
  2:{ rewrite Forall_forall. intros y Hy. apply in_map_iff in Hy. destruct Hy as [b [<- Hin]].
      rewrite land15_mod. lia. }
  unfold v_xor. rewrite !map_map, map2_map_l, map2_map_r, map2_diag.
  apply map_ext_in. intros a Ha. apply nibble_split; [exact Hc | apply B, Ha].
Qed.

Lemma mulvec_avx512_ok c tl th v : c < 256 -> length v = 64%nat -> bytes v ->
  lane_table 4 tl (TLf c) -> lane_table 4 th (THf c) -> mulvec_avx512 tl th v = map (mulN c) v.
Proof.
  intros Hc HL Hb Htl Hth. unfold mulvec_avx512, v_and, v_set1_epi8.
  rewrite !map2_repeat_r by (rewrite ?srli_length; lia).
  rewrite (srli4_and15 8 v) by (try assumption; lia).
  apply nibble_combine; try assumption; lia.
Qed.

Lemma mulvec_avx2_ok c tl th v : c < 256 -> length v = 32%nat -> bytes v ->
  lane_table 2 tl (TLf c) -> lane_table 2 th (THf c) -> mulvec_avx2 tl th v = map (mulN c) v.
Proof.
  intros Hc HL Hb Htl Hth. unfold mulvec_avx2, v_and, v_set1_epi8.
  rewrite !map2_repeat_r by lia.
  rewrite (mask240_srli4 4 v) by (try assumption; lia).
  apply nibble_combine; try assumption; lia.
Qed.

Lemma mulvec_ssse3_ok c tl th v : c < 256 -> length v = 16%nat -> bytes v ->
  lane_table 1 tl (TLf c) -> lane_table 1 th (THf c) -> mulvec_ssse3 tl th v = map (mulN c) v.
Proof.
  intros Hc HL Hb Htl Hth. unfold mulvec_ssse3, v_and, v_set1_epi8.
  rewrite !map2_repeat_r by lia.
  rewrite (mask240_srli4 2 v) by (try assumption; lia).
  apply nibble_combine; try assumption; lia.
Qed.

(* ---------------------------------------------------------------- table loads *)

Lemma load_tables_16 c : c < 256 -> exists tl th,
  load_low_table 16 c = Ok tl /\ load_hi_table 16 c = Ok th /\
  lane_table 1 tl (TLf c) /\ lane_table 1 th (THf c).
Proof.
  intros Hc. destruct (low_row c Hc) as [rl [E1 [L1 N1]]]. destruct (hi_row c Hc) as [rh [E2 [L2 N2]]].
  exists (firstn 16 (skipn 0 rl)), (firstn 16 (skipn 0 rh)). unfold load_low_table, load_hi_table.
  rewrite E1, E2. cbn [obind]. rewrite !loadu_ok by lia.
  repeat split; apply lane_table_16; assumption.
Qed.

Lemma load_tables_32 c : c < 256 -> exists tl th,
  load_low_table 32 c = Ok tl /\ load_hi_table 32 c = Ok th /\
  lane_table 2 tl (TLf c) /\ lane_table 2 th (THf c).
Proof.
  intros Hc. destruct (low_row c Hc) as [rl [E1 [L1 N1]]]. destruct (hi_row c Hc) as [rh [E2 [L2 N2]]].
  exists (firstn 32 (skipn 0 rl)), (firstn 32 (skipn 0 rh)). unfold load_low_table, load_hi_table.
  rewrite E1, E2. cbn [obind]. rewrite !loadu_ok by lia.
  repeat split; apply lane_table_32; try assumption; intros j Hj; [apply TLf_dup | apply THf_dup]; assumption.
Qed.

Lemma load_tables_bcast c : c < 256 -> exists tl th,
  load_low_table 16 c = Ok tl /\ load_hi_table 16 c = Ok th /\
  lane_table 4 (v_broadcast128 64 tl) (TLf c) /\ lane_table 4 (v_broadcast128 64 th) (THf c).
Proof.
  intros Hc. destruct (low_row c Hc) as [rl [E1 [L1 N1]]]. destruct (hi_row c Hc) as [rh [E2 [L2 N2]]].
  exists (firstn 16 (skipn 0 rl)), (firstn 16 (skipn 0 rh)). unfold load_low_table, load_hi_table.
  rewrite E1, E2. cbn [obind]. rewrite !loadu_ok by lia.
  repeat split; apply lane_table_broadcast; assumption.
Qed.

(* ---------------------------------------------------------------- scalar tail loops *)

Lemma nth_map_lt {A B} (f : A -> B) (da : A) (db : B) : forall i l, (i < length l)%nat ->
  nth i (map f l) db = f (nth i l da).
Proof.
  induction i as [|i IH]; intros [|x t] H; cbn [length] in H; try lia; cbn [map nth]; [reflexivity|].
  apply IH. lia.
Qed.

Lemma octet_mul_unchecked_ok c x : c < 256 -> x < 256 -> octet_mul_unchecked c x = Ok (mulN c x).
Proof. intros Hc Hx. exact (proj1 (tables_ok c x Hc Hx)). Qed.

Lemma mul_byte_loop_ok dest c a b : c < 256 -> bytes dest -> (a <= b <= length dest)%nat ->
  mul_byte_loop a b c (mix (map (mulN c) dest) dest a) = Ok (mix (map (mulN c) dest) dest b).
Proof.
  intros Hc Bd Hab. remember (map (mulN c) dest) as spec eqn:Espec.
  assert (HS : length spec = length dest) by (subst spec; apply map_length).
  unfold mul_byte_loop. apply (ofold_range _ (fun i => mix spec dest i)); [lia|].
  intros i Hi. rewrite get_mix by (try assumption; lia). cbn [obind].
  rewrite octet_mul_unchecked_ok by (first [assumption | apply bytes_nth; [assumption | lia]]). cbn [obind].
  apply set_mix; [assumption | lia |].
  subst spec. symmetry. apply nth_map_lt. lia.
Qed.

Lemma fma_byte_loop_ok dest src c a b : c < 256 -> length dest = length src -> bytes src ->
  (a <= b <= length dest)%nat ->
  fma_byte_loop a b c src (mix (map2 (fun d s => N.lxor d (mulN c s)) dest src) dest a)
  = Ok (mix (map2 (fun d s => N.lxor d (mulN c s)) dest src) dest b).
Proof.
  intros Hc HL Bs Hab. remember (map2 (fun d s => N.lxor d (mulN c s)) dest src) as spec eqn:Espec.
  assert (HS : length spec = length dest) by (subst spec; apply map2_length_eq; exact HL).
  unfold fma_byte_loop. apply (ofold_range _ (fun i => mix spec dest i)); [lia|].
  intros i Hi. rewrite get_mix by (try assumption; lia). cbn [obind].
  rewrite get_ok by lia. cbn [obind].
  rewrite octet_mul_unchecked_ok by (first [assumption | apply bytes_nth; [assumption | lia]]). cbn [obind].
  apply set_mix; [assumption | lia |].
  subst spec. symmetry. apply (nth_map2 (fun d s => N.lxor d (mulN c s)) 0 0 0); lia.
Qed.

(* ---------------------------------------------------------------- mulassign_scalar *)

Theorem mulassign_scalar_fallback_ok dest c : c < 256 -> bytes dest ->
  mulassign_scalar_fallback dest c = Ok (map (mulN c) dest).
Proof.
  intros Hc Bd. unfold mulassign_scalar_fallback.
  induction Bd as [|x t Hx Ht IH]; cbn [omapM map]; [reflexivity|].
  rewrite octet_mul_unchecked_ok by assumption. rewrite IH. reflexivity.
Qed.

(* the vector body + scalar tail shape shared by the three SIMD mulassign kernels *)
Lemma mul_vec_tail_ok (w : nat) (M : list N -> list N) dest c :
  c < 256 -> bytes dest -> (w = 16 \/ w = 32 \/ w = 64)%nat ->
  (forall v, length v = w -> bytes v -> M v = map (mulN c) v) ->
  (o1 <- ofold (fun o i => self_vec <- loadu w o (i * w) ;; storeu o (i * w) (M self_vec))
               (range 0 (length dest / w)) dest ;;
   mul_byte_loop (length dest - length dest mod w) (length dest) c o1)%outcome
  = Ok (map (mulN c) dest).
Proof.
  intros Hc Bd Hw HM. remember (map (mulN c) dest) as spec eqn:Espec.
  assert (HS : length spec = length dest) by (subst spec; apply map_length).
  loop_with (fun i => mix spec dest (i * w)).
  { lia. }
  { intros i Hi.
    assert (Hiw : (i * w + w <= length dest)%nat) by (destruct Hw as [->|[->| ->]]; lia).
    rewrite loadu_mix by (try assumption; lia). cbn [obind].
    replace (S i * w)%nat with (i * w + w)%nat by lia.
    apply storeu_mix; [assumption | lia |].
    subst spec. rewrite skipn_map, firstn_map.
    apply HM; [apply chunk_length; lia | apply bytes_chunk; assumption]. }
  replace (length dest / w * w)%nat with (length dest - length dest mod w)%nat
    by (destruct Hw as [->|[->| ->]]; lia).
  subst spec. rewrite mul_byte_loop_ok by (try assumption; lia).
  f_equal. apply mix_all; [apply map_length | lia].
Qed.

Theorem mulassign_scalar_avx512_ok dest c : c < 256 -> bytes dest ->
  mulassign_scalar_avx512 dest c = Ok (map (mulN c) dest).
Proof.
  intros Hc Bd. unfold mulassign_scalar_avx512.
  destruct (load_tables_bcast c Hc) as [tl [th [E1 [E2 [T1 T2]]]]]. rewrite E1, E2. cbn [obind].
  apply (mul_vec_tail_ok 64 (mulvec_avx512 (v_broadcast128 64 tl) (v_broadcast128 64 th))); auto.
  intros v Lv Bv. apply mulvec_avx512_ok; assumption.
Qed.

Theorem mulassign_scalar_avx2_ok dest c : c < 256 -> bytes dest ->
  mulassign_scalar_avx2 dest c = Ok (map (mulN c) dest).
Proof.
  intros Hc Bd. unfold mulassign_scalar_avx2.
  destruct (load_tables_32 c Hc) as [tl [th [E1 [E2 [T1 T2]]]]]. rewrite E1, E2. cbn [obind].
  apply (mul_vec_tail_ok 32 (mulvec_avx2 tl th)); auto.
  intros v Lv Bv. apply mulvec_avx2_ok; assumption.
Qed.

Theorem mulassign_scalar_ssse3_ok dest c : c < 256 -> bytes dest ->
  mulassign_scalar_ssse3 dest c = Ok (map (mulN c) dest).
Proof.
  intros Hc Bd. unfold mulassign_scalar_ssse3.
  destruct (load_tables_16 c Hc) as [tl [th [E1 [E2 [T1 T2]]]]]. rewrite E1, E2. cbn [obind].
  apply (mul_vec_tail_ok 16 (mulvec_ssse3 tl th)); auto.
  intros v Lv Bv. apply mulvec_ssse3_ok; assumption.
Qed.

(* ---------------------------------------------------------------- fused_addassign_mul_scalar *)

Definition fma_spec (c : N) (dest src : list N) : list N :=
  map2 (fun d s => N.lxor d (mulN c s)) dest src.

Theorem fused_addassign_mul_scalar_fallback_ok dest src c :
  c < 256 -> length dest = length src -> bytes src ->
  fused_addassign_mul_scalar_fallback dest src c = Ok (fma_spec c dest src).
Proof.
  intros Hc HL Bs. unfold fused_addassign_mul_scalar_fallback, fma_spec.
  change dest with (mix (map2 (fun d s => N.lxor d (mulN c s)) dest src) dest 0) at 2.
  rewrite fma_byte_loop_ok by (try assumption; lia).
  f_equal. apply mix_all; [apply map2_length_eq; exact HL | lia].
Qed.

Lemma fma_vec_tail_ok (w : nat) (M : list N -> list N) dest src c :
  c < 256 -> length dest = length src -> bytes src -> (w = 16 \/ w = 32 \/ w = 64)%nat ->
  (forall v, length v = w -> bytes v -> M v = map (mulN c) v) ->
  (o1 <- ofold (fun o i => other_vec <- loadu w src (i * w) ;;
                           let other_vec := M other_vec in
                           self_vec <- loadu w o (i * w) ;;
                           let result := v_xor self_vec other_vec in
                           storeu o (i * w) result)
               (range 0 (length dest / w)) dest ;;
   fma_byte_loop (length dest - length dest mod w) (length dest) c src o1)%outcome
  = Ok (fma_spec c dest src).
Proof.
  intros Hc HL Bs Hw HM. unfold fma_spec.
  remember (map2 (fun d s => N.lxor d (mulN c s)) dest src) as spec eqn:Espec.
  assert (HS : length spec = length dest) by (subst spec; apply map2_length_eq; exact HL).
  loop_with (fun i => mix spec dest (i * w)).
  { lia. }
  { intros i Hi.
    assert (Hiw : (i * w + w <= length dest)%nat) by (destruct Hw as [->|[->| ->]]; lia).
    rewrite loadu_ok by lia. cbn [obind].
    rewrite loadu_mix by (try assumption; lia). cbn [obind].
    replace (S i * w)%nat with (i * w + w)%nat by lia.
    apply storeu_mix; [assumption | lia |].
    subst spec. rewrite skipn_map2, firstn_map2.
    rewrite HM by (try (apply chunk_length; lia); apply bytes_chunk; assumption).
    unfold v_xor. apply map2_map_r. }
  replace (length dest / w * w)%nat with (length dest - length dest mod w)%nat
    by (destruct Hw as [->|[->| ->]]; lia).
  subst spec. rewrite fma_byte_loop_ok by (try assumption; lia).
  f_equal. apply mix_all; [apply map2_length_eq; exact HL | lia].
Qed.

Theorem fused_addassign_mul_scalar_avx512_ok dest src c :
  c < 256 -> length dest = length src -> bytes src ->
  fused_addassign_mul_scalar_avx512 dest src c = Ok (fma_spec c dest src).
Proof.
  intros Hc HL Bs. unfold fused_addassign_mul_scalar_avx512.
  destruct (load_tables_bcast c Hc) as [tl [th [E1 [E2 [T1 T2]]]]]. rewrite E1, E2. cbn [obind].
  apply (fma_vec_tail_ok 64 (mulvec_avx512 (v_broadcast128 64 tl) (v_broadcast128 64 th))); auto.
  intros v Lv Bv. apply mulvec_avx512_ok; assumption.
Qed.

Theorem fused_addassign_mul_scalar_avx2_ok dest src c :
  c < 256 -> length dest = length src -> bytes src ->
  fused_addassign_mul_scalar_avx2 dest src c = Ok (fma_spec c dest src).
Proof.
  intros Hc HL Bs. unfold fused_addassign_mul_scalar_avx2.
  destruct (load_tables_32 c Hc) as [tl [th [E1 [E2 [T1 T2]]]]]. rewrite E1, E2. cbn [obind].
  apply (fma_vec_tail_ok 32 (mulvec_avx2 tl th)); auto.
  intros v Lv Bv. apply mulvec_avx2_ok; assumption.
Qed.

Theorem fused_addassign_mul_scalar_ssse3_ok dest src c :
  c < 256 -> length dest = length src -> bytes src ->
  fused_addassign_mul_scalar_ssse3 dest src c = Ok (fma_spec c dest src).
Proof.
  intros Hc HL Bs. unfold fused_addassign_mul_scalar_ssse3.
  destruct (load_tables_16 c Hc) as [tl [th [E1 [E2 [T1 T2]]]]]. rewrite E1, E2. cbn [obind].
  apply (fma_vec_tail_ok 16 (mulvec_ssse3 tl th)); auto.
  intros v Lv Bv. apply mulvec_ssse3_ok; assumption.
Qed.
