(* Proofs about Model/Cache.v: the cache invariant holds in every reachable state of every
   schedule, every returned plan is gen k, FIFO eviction, completion of a request. *)
From Coq Require Import NArith List Bool Arith Lia Permutation.
From RQ Require Import Model.Cache.
Import ListNotations.
Open Scope N_scope.

(* ---------- association lists ---------- *)
Lemma assoc_get_none {A} (k : N) (l : list (N * A)) : assoc_get k l = None <-> ~ In k (keys l).
Proof.
  induction l as [|[k' v] t IH]; cbn [assoc_get keys map fst In].
  - split; [intros _ H; exact H | reflexivity].
  - destruct (k' =? k) eqn:E.
    + apply N.eqb_eq in E. split; [discriminate | intros H; exfalso; apply H; left; exact E].
    + apply N.eqb_neq in E. rewrite IH. unfold keys. tauto.
Qed.

Lemma assoc_get_some_in {A} (k : N) (l : list (N * A)) (v : A) : assoc_get k l = Some v -> In (k, v) l.
Proof.
  induction l as [|[k' v'] t IH]; cbn [assoc_get In]; [discriminate|].
  destruct (k' =? k) eqn:E.
  - apply N.eqb_eq in E. intros H. injection H as H. subst. left. reflexivity.
  - intros H. right. exact (IH H).
Qed.

Lemma assoc_get_app {A} (k : N) (a b : list (N * A)) :
  assoc_get k (a ++ b) = match assoc_get k a with Some v => Some v | None => assoc_get k b end.
Proof.
  induction a as [|[k' v'] t IH]; cbn [assoc_get app]; [reflexivity|].
  destruct (k' =? k); [reflexivity | exact IH].
Qed.

Lemma assoc_insert_fresh {A} (k : N) (v : A) (l : list (N * A)) :
  assoc_get k l = None -> assoc_insert k v l = l ++ [(k, v)].
Proof.
  induction l as [|[k' v'] t IH]; cbn [assoc_get assoc_insert app]; [reflexivity|].
  destruct (k' =? k); [discriminate|]. intros H. rewrite (IH H). reflexivity.
Qed.

Lemma keys_app {A} (a b : list (N * A)) : keys (a ++ b) = keys a ++ keys b.
Proof. unfold keys. apply map_app. Qed.

Lemma in_keys {A} (k : N) (v : A) (l : list (N * A)) : In (k, v) l -> In k (keys l).
Proof. intros H. unfold keys. change k with (fst (k, v)). apply in_map. exact H. Qed.

Lemma in_remove {A} (e : N) (l : list (N * A)) (kv : N * A) :
  In kv (assoc_remove e l) <-> In kv l /\ fst kv <> e.
Proof.
  unfold assoc_remove. rewrite filter_In. rewrite negb_true_iff, N.eqb_neq. reflexivity.
Qed.

Lemma in_keys_remove {A} (e : N) (l : list (N * A)) (k : N) :
  In k (keys (assoc_remove e l)) <-> In k (keys l) /\ k <> e.
Proof.
  unfold keys. rewrite !in_map_iff. split.
  - intros [kv [Hk Hin]]. apply in_remove in Hin. destruct Hin as [Hin Hne]. subst k.
    split; [exists kv; auto | exact Hne].
  - intros [[kv [Hk Hin]] Hne]. exists kv. split; [exact Hk|]. apply in_remove. subst k. auto.
Qed.

Lemma remove_notin {A} (e : N) (l : list (N * A)) : ~ In e (keys l) -> assoc_remove e l = l.
Proof.
  induction l as [|[k v] t IH]; cbn [keys map fst In]; [reflexivity|].
  intros H. unfold assoc_remove. cbn [filter fst].
  destruct (k =? e) eqn:E.
  - apply N.eqb_eq in E. exfalso. apply H. left. exact E.
  - cbn [negb]. f_equal. apply IH. intros Hin. apply H. right. exact Hin.
Qed.

Lemma nodup_keys_remove {A} (e : N) (l : list (N * A)) :
  NoDup (keys l) -> NoDup (keys (assoc_remove e l)).
Proof.
  induction l as [|[k v] t IH]; cbn [keys map fst]; intros H.
  - constructor.
  - inversion H as [|x xs Hnin Hnd]; subst. unfold assoc_remove. cbn [filter fst].
    destruct (k =? e); cbn [negb].
    + exact (IH Hnd).
    + cbn [keys map fst]. constructor; [|exact (IH Hnd)].
      intros Hin. apply in_keys_remove in Hin. apply Hnin. exact (proj1 Hin).
Qed.

Lemma length_remove {A} (e : N) (l : list (N * A)) :
  NoDup (keys l) -> In e (keys l) -> S (length (assoc_remove e l)) = length l.
Proof.
  induction l as [|[k v] t IH]; cbn [keys map fst In]; intros Hnd Hin; [contradiction|].
  inversion Hnd as [|x xs Hnin Hnd']; subst. unfold assoc_remove. cbn [filter fst].
  destruct (k =? e) eqn:E; cbn [negb length].
  - apply N.eqb_eq in E. subst k. f_equal.
    change (filter (fun kv : N * A => negb (fst kv =? e)) t) with (assoc_remove e t).
    rewrite (remove_notin e t Hnin). reflexivity.
  - apply N.eqb_neq in E. f_equal. apply IH; [exact Hnd'|].
    destruct Hin as [Hin|Hin]; [contradiction | exact Hin].
Qed.

Lemma assoc_get_remove {A} (e k : N) (l : list (N * A)) :
  assoc_get k (assoc_remove e l) = if k =? e then None else assoc_get k l.
Proof.
  induction l as [|[k' v] t IH]; unfold assoc_remove; cbn [filter fst assoc_get].
  - destruct (k =? e); reflexivity.
  - fold (assoc_remove e t). destruct (k' =? e) eqn:E1; cbn [negb].
    + rewrite IH. destruct (k =? e) eqn:E2; [reflexivity|].
      apply N.eqb_eq in E1. apply N.eqb_neq in E2.
      destruct (k' =? k) eqn:E3; [|reflexivity]. apply N.eqb_eq in E3. congruence.
    + cbn [assoc_get]. destruct (k' =? k) eqn:E3.
      * apply N.eqb_eq in E3. subst k'. rewrite E1. reflexivity.
      * exact IH.
Qed.

Lemma nodup_snoc {A} (l : list A) (x : A) : NoDup l -> ~ In x l -> NoDup (l ++ [x]).
Proof.
  intros Hnd Hnin. apply (Permutation_NoDup (l := x :: l)).
  - apply Permutation_cons_append.
  - constructor; assumption.
Qed.

(* ---------- thread map ---------- *)
Lemma get_set_pc {plan} (t t' : nat) (c : pc plan) (l : list (nat * pc plan)) :
  get_pc t' (set_pc t c l) = if Nat.eqb t t' then c else get_pc t' l.
Proof.
  induction l as [|[t0 c0] r IH]; cbn [set_pc get_pc].
  - reflexivity.
  - destruct (Nat.eqb t0 t) eqn:E0; cbn [get_pc].
    + apply Nat.eqb_eq in E0. subst t0. destruct (Nat.eqb t t'); reflexivity.
    + destruct (Nat.eqb t0 t') eqn:E1.
      * apply Nat.eqb_eq in E1. subst t0. rewrite Nat.eqb_sym, E0. reflexivity.
      * exact IH.
Qed.

Lemma get_set_pc_same {plan} (t : nat) (c : pc plan) l : get_pc t (set_pc t c l) = c.
Proof. rewrite get_set_pc, Nat.eqb_refl. reflexivity. Qed.

Lemma get_set_pc_other {plan} (t t' : nat) (c : pc plan) l :
  t <> t' -> get_pc t' (set_pc t c l) = get_pc t' l.
Proof. intros H. rewrite get_set_pc. apply Nat.eqb_neq in H. rewrite H. reflexivity. Qed.

(* ---------- run: projections ---------- *)
Lemma run_cons {plan} (gen : N -> plan) cap s rest st :
  run gen cap (s :: rest) st =
  (fst (run gen cap rest (fst (exec gen cap s st))),
   snd (exec gen cap s st) ++ snd (run gen cap rest (fst (exec gen cap s st)))).
Proof.
  cbn [run]. destruct (exec gen cap s st) as [st1 ev1]. cbn [fst snd].
  destruct (run gen cap rest st1) as [st2 ev2]. reflexivity.
Qed.

Lemma run_app {plan} (gen : N -> plan) cap a b st :
  run gen cap (a ++ b) st =
  (fst (run gen cap b (fst (run gen cap a st))),
   snd (run gen cap a st) ++ snd (run gen cap b (fst (run gen cap a st)))).
Proof.
  revert st. induction a as [|s a IH]; intros st.
  - cbn [app run fst snd]. destruct (run gen cap b st); reflexivity.
  - rewrite <- app_comm_cons. rewrite !run_cons. cbn [fst snd]. rewrite IH. cbn [fst snd].
    rewrite app_assoc. reflexivity.
Qed.

Section CacheProofs.
  Variable plan : Type.
  Variable gen : N -> plan.
  Variable capacity : nat.

  (* the invariant of the pinned statement C17_invariant *)
  Definition Inv (st : sysstate plan) : Prop :=
    (length (plans st) <= capacity)%nat /\
    NoDup (order st) /\
    NoDup (map fst (plans st)) /\
    (forall k, In k (order st) <-> In k (map fst (plans st))) /\
    length (order st) = length (plans st) /\
    (forall k p, In (k, p) (plans st) -> p = gen k) /\
    (forall t k p, get_pc t (threads st) = Generated k p -> p = gen k).

  Definition CacheInv (pl : list (N * plan)) (ord : list N) : Prop :=
    (length pl <= capacity)%nat /\
    NoDup ord /\
    NoDup (keys pl) /\
    (forall k, In k ord <-> In k (keys pl)) /\
    length ord = length pl /\
    (forall k p, In (k, p) pl -> p = gen k).

  Definition ThInv (th : list (nat * pc plan)) : Prop :=
    forall t k p, get_pc t th = Generated k p -> p = gen k.

  Lemma Inv_split st : Inv st <-> CacheInv (plans st) (order st) /\ ThInv (threads st).
  Proof. unfold Inv, CacheInv, ThInv, keys. tauto. Qed.

  Lemma init_inv : Inv init.
  Proof.
    unfold Inv, init. cbn [plans order threads length map get_pc].
    repeat split; try constructor; try contradiction; try discriminate; try lia; auto.
  Qed.

  Lemma ThInv_set th t c :
    ThInv th -> (forall k p, c = Generated k p -> p = gen k) -> ThInv (set_pc t c th).
  Proof.
    intros H Hc t' k p. rewrite get_set_pc. destruct (Nat.eqb t t').
    - apply Hc.
    - apply H.
  Qed.

  Hypothesis cap_pos : (0 < capacity)%nat.

  (* eviction re-establishes the invariant with room for one more entry *)
  Lemma evict_ok pl ord :
    CacheInv pl ord ->
    CacheInv (fst (evict capacity pl ord)) (snd (evict capacity pl ord)) /\
    (length (fst (evict capacity pl ord)) < capacity)%nat /\
    (forall k, In k (keys (fst (evict capacity pl ord))) -> In k (keys pl)).
  Proof.
    intros (Hlen & Hndo & Hndk & Hiff & Hleq & Hpl). unfold evict.
    destruct (capacity <=? length pl)%nat eqn:Ecap.
    - apply Nat.leb_le in Ecap. destruct ord as [|e rest].
      + exfalso. cbn [length] in Hleq. lia.
      + cbn [fst snd].
        assert (He : In e (keys pl)) by (apply Hiff; left; reflexivity).
        pose proof (length_remove e pl Hndk He) as Hrm.
        inversion Hndo as [|x xs Hnin Hndr]; subst.
        split; [|split].
        * unfold CacheInv. repeat split.
          -- lia.
          -- exact Hndr.
          -- apply nodup_keys_remove. exact Hndk.
          -- intros Hin. apply in_keys_remove. split.
             ++ apply Hiff. right. exact Hin.
             ++ intros ->. contradiction.
          -- intros Hin. apply in_keys_remove in Hin. destruct Hin as [Hin Hne].
             apply Hiff in Hin. destruct Hin as [Hin|Hin]; [congruence | exact Hin].
          -- cbn [length] in Hleq. lia.
          -- intros k p Hin. apply in_remove in Hin. apply Hpl. exact (proj1 Hin).
        * lia.
        * intros k Hin. apply in_keys_remove in Hin. exact (proj1 Hin).
    - apply Nat.leb_gt in Ecap. cbn [fst snd]. split; [|split].
      + unfold CacheInv. auto 10.
      + exact Ecap.
      + auto.
  Qed.

  Lemma push_ok pl ord k p :
    CacheInv pl ord -> (length pl < capacity)%nat -> assoc_get k pl = None -> p = gen k ->
    CacheInv (assoc_insert k p pl) (ord ++ [k]).
  Proof.
    intros (Hlen & Hndo & Hndk & Hiff & Hleq & Hpl) Hlt Hfresh Hp.
    rewrite (assoc_insert_fresh k p pl Hfresh).
    pose proof (proj1 (assoc_get_none k pl) Hfresh) as Hnin.
    unfold CacheInv. rewrite keys_app. cbn [keys map fst]. repeat split.
    - rewrite app_length. cbn [length]. lia.
    - apply nodup_snoc; [exact Hndo|]. intros Hin. apply Hnin. apply Hiff. exact Hin.
    - apply nodup_snoc; assumption.
    - rewrite !in_app_iff. intros [Hin|Hin]; [left; apply Hiff; exact Hin | right; exact Hin].
    - rewrite !in_app_iff. intros [Hin|Hin]; [left; apply Hiff; exact Hin | right; exact Hin].
    - rewrite !app_length. cbn [length]. lia.
    - intros k' p' Hin. apply in_app_iff in Hin. destruct Hin as [Hin|Hin].
      + apply Hpl. exact Hin.
      + cbn [In] in Hin. destruct Hin as [Hin|[]]. injection Hin as <- <-. exact Hp.
  Qed.

  Lemma exec_inv s st : Inv st -> Inv (fst (exec gen capacity s st)).
  Proof.
    intros HI. pose proof HI as HI0. apply Inv_split in HI. destruct HI as [HC HT].
    destruct s as [t k | t | t | t]; cbn [exec].
    4: { unfold do_abort. destruct (get_pc t (threads st)) eqn:Epc; cbn [fst]; try exact HI0;
         (apply Inv_split; cbn [plans order threads]; split; [exact HC|];
          apply ThInv_set; [exact HT | discriminate]). }
    - unfold do_lookup. destruct (get_pc t (threads st)) eqn:Epc; cbn [fst]; try exact HI0.
      destruct (assoc_get k (plans st)) eqn:Eg; cbn [fst]; [exact HI0|].
      apply Inv_split. cbn [plans order threads]. split; [exact HC|].
      apply ThInv_set; [exact HT | discriminate].
    - unfold do_generate. destruct (get_pc t (threads st)) eqn:Epc; cbn [fst]; try exact HI0.
      apply Inv_split. cbn [plans order threads]. split; [exact HC|].
      apply ThInv_set; [exact HT|]. intros k' p' H. injection H as <- <-. reflexivity.
    - unfold do_insert. destruct (get_pc t (threads st)) as [|k0|k0 p0] eqn:Epc; cbn [fst]; try exact HI0.
      destruct (assoc_get k0 (plans st)) eqn:Eg.
      + cbn [fst]. apply Inv_split. cbn [plans order threads]. split; [exact HC|].
        apply ThInv_set; [exact HT | discriminate].
      + pose proof (evict_ok _ _ HC) as (HC1 & Hlt & Hsub).
        destruct (evict capacity (plans st) (order st)) as [pl1 ord1] eqn:Eev. cbn [fst snd] in *.
        apply Inv_split. cbn [plans order threads]. split.
        * apply push_ok; [exact HC1 | exact Hlt | | exact (HT t k0 p0 Epc)].
          apply assoc_get_none. intros Hin. apply Hsub in Hin.
          apply (proj1 (assoc_get_none k0 (plans st)) Eg). exact Hin.
        * apply ThInv_set; [exact HT | discriminate].
  Qed.

  Lemma exec_ret s st t k p :
    Inv st -> In (Ret t k p) (snd (exec gen capacity s st)) -> p = gen k.
  Proof.
    intros HI. apply Inv_split in HI. destruct HI as [HC HT].
    destruct HC as (_ & _ & _ & _ & _ & Hpl).
    destruct s as [t0 k0 | t0 | t0 | t0]; cbn [exec].
    4: { unfold do_abort. destruct (get_pc t0 (threads st)); cbn [snd In]; contradiction. }
    - unfold do_lookup. destruct (get_pc t0 (threads st)) eqn:Epc; cbn [snd In]; try contradiction.
      destruct (assoc_get k0 (plans st)) eqn:Eg; cbn [snd In]; [|contradiction].
      intros [H|[]]. injection H as <- <- <-. apply Hpl. apply assoc_get_some_in. exact Eg.
    - unfold do_generate. destruct (get_pc t0 (threads st)); cbn [snd In]; contradiction.
    - unfold do_insert. destruct (get_pc t0 (threads st)) as [|k1|k1 p1] eqn:Epc; cbn [snd In]; try contradiction.
      destruct (assoc_get k1 (plans st)) eqn:Eg.
      + cbn [snd In]. intros [H|[]]. injection H as <- <- <-. apply Hpl. apply assoc_get_some_in. exact Eg.
      + destruct (evict capacity (plans st) (order st)) as [pl1 ord1]. cbn [snd In].
        intros [H|[]]. injection H as <- <- <-. exact (HT t0 k1 p1 Epc).
  Qed.

  Lemma run_inv sched : forall st, Inv st -> Inv (fst (run gen capacity sched st)).
  Proof.
    induction sched as [|s rest IH]; intros st HI.
    - exact HI.
    - rewrite run_cons. cbn [fst]. apply IH. apply exec_inv. exact HI.
  Qed.

  Lemma run_ret sched : forall st t k p,
    Inv st -> In (Ret t k p) (snd (run gen capacity sched st)) -> p = gen k.
  Proof.
    induction sched as [|s rest IH]; intros st t k p HI Hin.
    - contradiction.
    - rewrite run_cons in Hin. cbn [snd] in Hin. apply in_app_iff in Hin. destruct Hin as [Hin|Hin].
      + exact (exec_ret s st t k p HI Hin).
      + exact (IH _ t k p (exec_inv s st HI) Hin).
  Qed.

  Theorem invariant_reachable : forall schedule, Inv (fst (run gen capacity schedule init)).
  Proof. intros schedule. apply run_inv. exact init_inv. Qed.

  Theorem transparent : forall schedule t k p,
    In (Ret t k p) (snd (run gen capacity schedule init)) -> p = gen k.
  Proof. intros schedule t k p. apply run_ret. exact init_inv. Qed.

  (* ---------- FIFO eviction (one Insert step) ---------- *)
  Lemma fifo_eviction st t k p e rest :
    Inv st ->
    get_pc t (threads st) = Generated k p ->
    assoc_get k (plans st) = None ->
    length (plans st) = capacity ->
    order st = e :: rest ->
    let st' := fst (exec gen capacity (Insert t) st) in
    order st' = rest ++ [k] /\
    plans st' = assoc_remove e (plans st) ++ [(k, p)] /\
    assoc_get e (plans st') = None /\
    assoc_get k (plans st') = Some p /\
    (forall k', k' <> e -> k' <> k -> assoc_get k' (plans st') = assoc_get k' (plans st)) /\
    length (plans st') = capacity.
  Proof.
    intros HI Epc Eg Hfull Eord st'.
    destruct HI as (Hlen & Hndo & Hndk & Hiff & Hleq & Hpl & Hth).
    assert (He : In e (keys (plans st))) by (apply Hiff; rewrite Eord; left; reflexivity).
    assert (Hek : e <> k).
    { intros ->. apply (proj1 (assoc_get_none k (plans st)) Eg). exact He. }
    assert (Hfr : assoc_get k (assoc_remove e (plans st)) = None).
    { rewrite assoc_get_remove. destruct (k =? e); [reflexivity | exact Eg]. }
    assert (Hst' : st' = mkSys (assoc_remove e (plans st) ++ [(k, p)]) (rest ++ [k])
                               (set_pc t Idle (threads st))).
    { unfold st'. cbn [exec]. unfold do_insert. rewrite Epc, Eg. unfold evict.
      rewrite Hfull, Nat.leb_refl, Eord. cbn [fst]. rewrite (assoc_insert_fresh _ _ _ Hfr). reflexivity. }
    rewrite Hst'. cbn [plans order]. repeat split.
    - rewrite assoc_get_app, assoc_get_remove, N.eqb_refl. cbn [assoc_get].
      apply N.eqb_neq in Hek. rewrite N.eqb_sym, Hek. reflexivity.
    - rewrite assoc_get_app, Hfr. cbn [assoc_get]. rewrite N.eqb_refl. reflexivity.
    - intros k' Hne Hnk. rewrite assoc_get_app, assoc_get_remove.
      apply N.eqb_neq in Hne. rewrite Hne. destruct (assoc_get k' (plans st)); [reflexivity|].
      cbn [assoc_get]. apply N.eqb_neq in Hnk. rewrite N.eqb_sym, Hnk. reflexivity.
    - rewrite app_length. cbn [length]. pose proof (length_remove e (plans st) Hndk He). lia.
  Qed.

  Lemma no_eviction_below_capacity st t k p :
    get_pc t (threads st) = Generated k p ->
    assoc_get k (plans st) = None ->
    (length (plans st) < capacity)%nat ->
    let st' := fst (exec gen capacity (Insert t) st) in
    order st' = order st ++ [k] /\ plans st' = plans st ++ [(k, p)].
  Proof.
    intros Epc Eg Hlt st'. unfold st'. cbn [exec]. unfold do_insert. rewrite Epc, Eg. unfold evict.
    apply Nat.leb_gt in Hlt. rewrite Hlt. cbn [fst plans order].
    rewrite (assoc_insert_fresh _ _ _ Eg). split; reflexivity.
  Qed.

  (* ---------- a request completes with exactly one return ---------- *)
  Lemma exec_other s st t :
    step_thread s <> t ->
    get_pc t (threads (fst (exec gen capacity s st))) = get_pc t (threads st) /\
    rets_of t (snd (exec gen capacity s st)) = [].
  Proof.
    intros Hne. destruct s as [t0 k0 | t0 | t0 | t0]; cbn [step_thread] in Hne; cbn [exec].
    4: { unfold do_abort. destruct (get_pc t0 (threads st)); cbn [fst snd threads rets_of filter]; auto;
         rewrite get_set_pc_other by exact Hne; auto. }
    - unfold do_lookup. destruct (get_pc t0 (threads st)); cbn [fst snd rets_of filter]; auto.
      destruct (assoc_get k0 (plans st)); cbn [fst snd threads rets_of filter ev_thread].
      + apply Nat.eqb_neq in Hne. rewrite Hne. auto.
      + rewrite get_set_pc_other by exact Hne. auto.
    - unfold do_generate. destruct (get_pc t0 (threads st)); cbn [fst snd threads rets_of filter]; auto.
      rewrite get_set_pc_other by exact Hne. auto.
    - unfold do_insert. destruct (get_pc t0 (threads st)); cbn [fst snd rets_of filter]; auto.
      destruct (assoc_get k (plans st)).
      + cbn [fst snd threads rets_of filter ev_thread]. rewrite get_set_pc_other by exact Hne.
        apply Nat.eqb_neq in Hne. rewrite Hne. auto.
      + destruct (evict capacity (plans st) (order st)) as [pl1 ord1].
        cbn [fst snd threads rets_of filter ev_thread]. rewrite get_set_pc_other by exact Hne.
        apply Nat.eqb_neq in Hne. rewrite Hne. auto.
  Qed.

  Lemma rets_of_app t (a b : list (event plan)) : rets_of t (a ++ b) = rets_of t a ++ rets_of t b.
  Proof. unfold rets_of. apply filter_app. Qed.

  Lemma run_other l t : forall st,
    Forall (fun s => step_thread s <> t) l ->
    get_pc t (threads (fst (run gen capacity l st))) = get_pc t (threads st) /\
    rets_of t (snd (run gen capacity l st)) = [].
  Proof.
    induction l as [|s rest IH]; intros st HF.
    - cbn [run fst snd rets_of filter]. auto.
    - inversion HF as [|x xs Hs Hrest]; subst. rewrite run_cons. cbn [fst snd].
      destruct (exec_other s st t Hs) as [E1 E2].
      destruct (IH (fst (exec gen capacity s st)) Hrest) as [E3 E4].
      rewrite rets_of_app, E2, E4, E3, E1. auto.
  Qed.

  Lemma insert_generated st t k p :
    Inv st -> get_pc t (threads st) = Generated k p ->
    rets_of t (snd (exec gen capacity (Insert t) st)) = [Ret t k (gen k)] /\
    snd (exec gen capacity (Insert t) st) = [Ret t k (gen k)] /\
    get_pc t (threads (fst (exec gen capacity (Insert t) st))) = Idle.
  Proof.
    intros HI Epc.
    assert (Hev : exists p', snd (exec gen capacity (Insert t) st) = [Ret t k p'] /\
                  get_pc t (threads (fst (exec gen capacity (Insert t) st))) = Idle).
    { cbn [exec]. unfold do_insert. rewrite Epc. destruct (assoc_get k (plans st)) as [p'|].
      - exists p'. cbn [fst snd threads]. rewrite get_set_pc_same. auto.
      - destruct (evict capacity (plans st) (order st)) as [pl1 ord1]. exists p.
        cbn [fst snd threads]. rewrite get_set_pc_same. auto. }
    destruct Hev as [p' [Hev Hidle]].
    assert (Hp' : p' = gen k).
    { apply (exec_ret (Insert t) st t k p' HI). rewrite Hev. left. reflexivity. }
    subst p'. rewrite Hev. cbn [rets_of filter ev_thread]. rewrite Nat.eqb_refl. auto.
  Qed.

  Lemma idle_noop st t :
    get_pc t (threads st) = Idle ->
    exec gen capacity (Generate t) st = (st, []) /\ exec gen capacity (Insert t) st = (st, []).
  Proof.
    intros Epc. cbn [exec]. unfold do_generate, do_insert. rewrite Epc. auto.
  Qed.

  Theorem request_completes st t k s1 s2 :
    Inv st ->
    get_pc t (threads st) = Idle ->
    Forall (fun s => step_thread s <> t) s1 ->
    Forall (fun s => step_thread s <> t) s2 ->
    let r := run gen capacity ([Lookup t k] ++ s1 ++ [Generate t] ++ s2 ++ [Insert t]) st in
    rets_of t (snd r) = [Ret t k (gen k)] /\ get_pc t (threads (fst r)) = Idle.
  Proof.
    intros HI Epc H1 H2 r. unfold r. clear r.
    cbn [app]. rewrite run_cons, run_app, run_cons, run_app, run_cons. cbn [fst snd run].
    set (st1 := fst (exec gen capacity (Lookup t k) st)).
    set (st2 := fst (run gen capacity s1 st1)).
    set (st3 := fst (exec gen capacity (Generate t) st2)).
    set (st4 := fst (run gen capacity s2 st3)).
    assert (I1 : Inv st1) by (apply exec_inv; exact HI).
    assert (I2 : Inv st2) by (apply run_inv; exact I1).
    assert (I3 : Inv st3) by (apply exec_inv; exact I2).
    assert (I4 : Inv st4) by (apply run_inv; exact I3).
    destruct (run_other s1 t st1 H1) as [P2 R2]. fold st2 in P2.
    destruct (run_other s2 t st3 H2) as [P4 R4]. fold st4 in P4.
    rewrite !rets_of_app, R2, R4. rewrite app_nil_r.
    destruct (assoc_get k (plans st)) as [p|] eqn:Eg.
    - (* hit in the first critical section *)
      assert (E1 : exec gen capacity (Lookup t k) st = (st, [Ret t k p])).
      { cbn [exec]. unfold do_lookup. rewrite Epc, Eg. reflexivity. }
      assert (Hp : p = gen k).
      { apply (exec_ret (Lookup t k) st t k p HI). rewrite E1. left. reflexivity. }
      subst p.
      assert (S1 : st1 = st) by (unfold st1; rewrite E1; reflexivity).
      rewrite E1. cbn [snd].
      assert (Q2 : get_pc t (threads st2) = Idle) by (rewrite P2, S1; exact Epc).
      destruct (idle_noop st2 t Q2) as [G _].
      assert (S3 : st3 = st2) by (unfold st3; rewrite G; reflexivity).
      rewrite G. cbn [snd].
      assert (Q4 : get_pc t (threads st4) = Idle) by (rewrite P4, S3; exact Q2).
      destruct (idle_noop st4 t Q4) as [_ Ins].
      rewrite Ins. cbn [fst snd rets_of filter ev_thread app]. rewrite Nat.eqb_refl. auto.
    - (* miss: generate and insert *)
      assert (E1 : exec gen capacity (Lookup t k) st =
                   (mkSys (plans st) (order st) (set_pc t (Missed k) (threads st)), [])).
      { cbn [exec]. unfold do_lookup. rewrite Epc, Eg. reflexivity. }
      assert (Q1 : get_pc t (threads st1) = Missed k).
      { unfold st1. rewrite E1. cbn [fst threads]. apply get_set_pc_same. }
      rewrite E1. cbn [snd].
      assert (Q2 : get_pc t (threads st2) = Missed k) by (rewrite P2; exact Q1).
      assert (G : exec gen capacity (Generate t) st2 =
                  (mkSys (plans st2) (order st2) (set_pc t (Generated k (gen k)) (threads st2)), [])).
      { cbn [exec]. unfold do_generate. rewrite Q2. reflexivity. }
      assert (Q3 : get_pc t (threads st3) = Generated k (gen k)).
      { unfold st3. rewrite G. cbn [fst threads]. apply get_set_pc_same. }
      rewrite G. cbn [snd].
      assert (Q4 : get_pc t (threads st4) = Generated k (gen k)) by (rewrite P4; exact Q3).
      destruct (insert_generated st4 t k (gen k) I4 Q4) as (R5 & _ & Q5).
      cbn [rets_of filter app]. fold (rets_of t (snd (exec gen capacity (Insert t) st4))).
      rewrite R5. auto.
  Qed.

  (* ---------- a request that dies between its critical sections ---------- *)
  Lemma abort_harmless st t :
    let st' := fst (exec gen capacity (Abort t) st) in
    plans st' = plans st /\ order st' = order st /\
    snd (exec gen capacity (Abort t) st) = [] /\
    get_pc t (threads st') = Idle /\
    (forall t', t' <> t -> get_pc t' (threads st') = get_pc t' (threads st)).
  Proof.
    cbn [exec]. unfold do_abort. destruct (get_pc t (threads st)) eqn:Epc; cbn [fst snd plans order threads].
    - repeat split; auto.
    - repeat split; auto; [apply get_set_pc_same | intros t' Hne; apply get_set_pc_other; auto].
    - repeat split; auto; [apply get_set_pc_same | intros t' Hne; apply get_set_pc_other; auto].
  Qed.

End CacheProofs.

Arguments Inv {plan} gen capacity st.
Arguments CacheInv {plan} gen capacity pl ord.
Arguments ThInv {plan} gen th.
