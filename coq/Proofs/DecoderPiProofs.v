(* The five-phase solver followed by the replay of its operation list computes exactly what the
   reference elimination computes, on every consistent system the crate builds; hence the decoder and
   the encoder built on it (Model/DecoderPi.v) agree with Model/Decoder.v / Model/Encoder.v. *)
From Coq Require Import NArith List Bool Lia Arith.
From RQ Require Import Base.Outcome Base.Ints Base.ListX Spec.Linear Spec.Layout
  Model.Octet Model.FieldFast Model.SysConst Model.Tuple Model.CMatrix Model.Layout Model.Slab
  Model.CertFast Model.CertRun Model.Encoder Model.Decoder Model.PiSolver Model.DecoderPi
  Proofs.OutcomeLemmas Proofs.LinearProofs Proofs.LinearInst Proofs.CertRunProofs Proofs.DecoderMatrix
  Proofs.PiSolverBase Proofs.PiSolverOps Proofs.PiSolverG Proofs.PiSolverInvDefs Proofs.PiSolverSound
  Proofs.PiSolverSystem Proofs.PiSolverTotalAll Proofs.PiSolverFmaNZ Proofs.PiSolverPlan
  Proofs.CMatrixProofs Gen.Consts.
Import ListNotations.
Open Scope N_scope.

(* ---- recorded operations as the `fop`s of Model/CertFast.v ---- *)
Definition fop_of (o : symbol_op) : fop :=
  match o with
  | SAdd d s => FAdd d s
  | SMul d c => FMul d c
  | SFMA d s c => FFMA d s c
  | SReorder _ => FMul 0 0
  end.

Lemma sop_fop o M : sop_valid M o = true -> sop_of (fop_of o) = o.
Proof. destruct o; cbn; intros H; [reflexivity..|discriminate]. Qed.

Lemma op_fop o : op_of (fop_of o) = sym_of o.
Proof. destruct o; reflexivity. Qed.

Lemma fop_valid_of o M : sop_valid M o = true -> fop_valid M (fop_of o) = true.
Proof. destruct o; cbn; intros H; [assumption..|discriminate]. Qed.

Lemma fma_ok_of o : fma_ok o = true -> fma_scalar_ok (fop_of o) = true.
Proof. destruct o; cbn; intros H; try assumption; reflexivity. Qed.

(* a right-hand side with a solution is well formed *)
Lemma solves_wf T L A C D : wf_mat L A -> wf_mat T C -> solves fmul T A C D ->
  wf_mat T D /\ length D = length A.
Proof.
  intros WA WC S. split; [|symmetry; exact (Forall2_len _ _ _ S)].
  unfold wf_mat in *. induction S as [|r d A' D' Hrd _ IH]; [constructor|].
  assert (Wr : wf_vec r) by (inversion WA as [|? ? [_ X] ?]; exact X).
  assert (WA' : Forall (fun r0 => length r0 = L /\ wf_vec r0) A') by (inversion WA; assumption).
  constructor; [|apply IH; exact WA']. rewrite <- Hrd.
  split; [apply (lincomb_length fmul); exact WC | apply (lincomb_wf fmul finv gf_field_ok); assumption].
Qed.

(* ---- the replay of a returned list reads out the certificate's solution ---- *)
Lemma replay_solver_ops m T D body ord C Mn :
  wf_mat T D -> N.of_nat (length D) = Mn ->
  forallb (sop_valid Mn) body = true -> forallb fma_ok body = true ->
  Forall (fun i => (N.to_nat i < length D)%nat) ord ->
  read_out (map N.to_nat ord) (apply_ops fmul (map sym_of body) D) = C ->
  exists s', replay m (body ++ [SReorder ord]) (mkSlab D T None) = Ok s' /\
             slab_read s' (length ord) 0 = Ok C.
Proof.
  intros WD HM V F Hord HC.
  assert (E1 : map sop_of (map fop_of body) = body).
  { rewrite map_map. rewrite <- (map_id body) at 2. apply map_ext_in. intros o Ho.
    rewrite forallb_forall in V. exact (sop_fop o Mn (V o Ho)). }
  assert (E2 : map op_of (map fop_of body) = map sym_of body).
  { rewrite map_map. apply map_ext. intros o. apply op_fop. }
  destruct (replay_plan_readout m T D (map fop_of body) ord WD) as (s' & R1 & R2).
  - rewrite HM. rewrite forallb_forall in *. intros o Ho. apply in_map_iff in Ho. destruct Ho as (o' & <- & Ho').
    apply fop_valid_of, V, Ho'.
  - intros _. rewrite forallb_forall in *. intros o Ho. apply in_map_iff in Ho. destruct Ho as (o' & <- & Ho').
    apply fma_ok_of, F, Ho'.
  - exact Hord.
  - exists s'. rewrite E1 in R1. rewrite E2 in R2. rewrite HC in R2. split; assumption.
Qed.

(* forallb over the body of a list ending with the Reorder *)
Lemma fma_ok_body body ord : forallb fma_ok (body ++ [SReorder ord]) = true -> forallb fma_ok body = true.
Proof. rewrite forallb_app. intros H. apply andb_prop in H. apply H. Qed.

(* ---- the core: solver + replay = reference elimination, on a consistent system ---- *)
Lemma solve_core m T L A D Mn (r : option (list symbol_op)) :
  wf_mat L A -> N.of_nat (length A) = Mn ->
  (exists C, wf_mat T C /\ length C = L /\ solves fmul T A C D) ->
  (r = None <-> ~ injective fmul L A) ->
  (forall ops, r = Some ops -> exists body ord, ops = body ++ [SReorder ord] /\
      check_cert fmul L A (map sym_of body) (map N.to_nat ord) = true /\ length ord = L /\
      forallb (sop_valid Mn) body = true /\ forallb fma_ok body = true) ->
  match r with
  | None => gauss_solve fmul finv T L A D = None
  | Some ops => exists s' C, replay m ops (mkSlab D T None) = Ok s' /\ slab_read s' L 0 = Ok C /\
                             gauss_solve fmul finv T L A D = Some C
  end.
Proof.
  intros WA HM (C & WC & LC & HS) Hiff Hsome.
  destruct (solves_wf _ _ _ _ _ WA WC HS) as [WD LD].
  destruct r as [ops|].
  - destruct (Hsome ops eq_refl) as (body & ord & -> & Hc & Lord & V & F).
    pose proof (cert_injective_gf _ _ _ _ Hc WA) as Inj.
    pose proof (cert_sound_unique_gf _ _ _ _ _ _ _ Hc WA WC LC HS) as HR.
    destruct (check_cert_spec fmul _ _ _ _ Hc) as (_ & Lo & Hlt & _).
    destruct (replay_solver_ops m T D body ord C Mn WD ltac:(rewrite LD; exact HM) V F) as (s' & R1 & R2).
    + apply Forall_forall. intros x Hx. destruct (In_nth _ _ 0 Hx) as (j & Lj & <-).
      rewrite map_length in Lo. specialize (Hlt j ltac:(lia)).
      rewrite (nth_indep _ O (N.to_nat 0)) in Hlt by (rewrite map_length; lia). rewrite map_nth in Hlt. lia.
    + exact HR.
    + exists s', C. split; [exact R1|]. split; [rewrite <- Lord; exact R2|].
      destruct (gauss_solve fmul finv T L A D) as [C'|] eqn:EG.
      * f_equal. symmetry. exact (gauss_solve_correct_gf _ _ _ _ _ EG WA C WC LC HS).
      * exfalso. assert (X : gauss_solve fmul finv T L A D <> None).
        { apply gauss_solve_some_iff_gf. apply gauss_rank_full_iff_injective_gf; assumption. }
        contradiction.
  - destruct (gauss_solve fmul finv T L A D) as [C'|] eqn:EG; [|reflexivity]. exfalso.
    apply (proj1 Hiff eq_refl). apply gauss_rank_full_iff_injective_gf; [exact WA|].
    apply gauss_solve_some_iff_gf with (T := T) (D := D). rewrite EG. discriminate.
Qed.

(* the matrix of a system: with the HDPC rows, or without *)
Definition sys_matrix (m : mode) (K : N) (nh : bool) (isis : list N) (sp : sysparams)
  : outcome (list (list N)) :=
  if nh then generate_constraint_matrix_no_hdpc m K isis
  else match generate_constraint_matrix m K isis with
       | Ok (bin, hd) => Ok (full_matrix (spS sp) (spH sp) bin hd)
       | Panic c => Panic c
       end.

Theorem solver_equals_reference m K nh isis sp A T D :
  K <= 56403 -> Forall (fun x => x < 2 ^ 32) isis -> lenN isis < 2 ^ 31 ->
  sys_params K = Ok sp -> sys_matrix m K nh isis sp = Ok A ->
  (exists C, wf_mat T C /\ length C = N.to_nat (spL sp) /\ solves fmul T A C D) ->
  solve_pi m K nh isis T D = Ok (gauss_solve fmul finv T (N.to_nat (spL sp)) A D).
Proof.
  intros HK Hisis Hn Hsys HA Hcons. unfold sys_matrix in HA. unfold solve_pi. destruct nh.
  - (* without HDPC rows *)
    destruct (pi_system_no_hdpc_total m K isis sp A HK Hisis Hn Hsys HA) as (r & Er & Hiff).
    destruct (system_no_hdpc_facts m K isis sp A HK Hisis Hn Hsys HA) as (Dm & HM0 & M32 & Bin & HP & W16 & _).
    pose proof (dims_wf _ _ _ Dm (bin_bytes _ Bin)) as WA.
    rewrite Er. cbn [obind].
    pose proof (solve_core m T (N.to_nat (spL sp)) A D (lenN A) r WA eq_refl Hcons Hiff) as Core.
    assert (Hs : forall ops, r = Some ops -> exists body ord, ops = body ++ [SReorder ord] /\
      check_cert fmul (N.to_nat (spL sp)) A (map sym_of body) (map N.to_nat ord) = true /\
      length ord = N.to_nat (spL sp) /\ forallb (sop_valid (lenN A)) body = true /\ forallb fma_ok body = true).
    { intros ops ->. destruct (pi_system_no_hdpc_sound m K isis sp A ops HK Hisis Hn Hsys HA Er)
        as (body & ord & E & Hc & _ & Lo).
      assert (Erun : pi_run_no_hdpc m A (spL sp) (spP sp) = Ok (Some ops)).
      { unfold pi_system_run_no_hdpc in Er. rewrite Hsys in Er. cbn [obind] in Er. rewrite HA in Er. exact Er. }
      destruct (pi_run_no_hdpc_ops_valid _ _ _ _ _ (bin_bytes _ Bin) Erun) as (body' & ord' & E' & V).
      pose proof (pi_run_no_hdpc_fma_ok _ _ _ _ _ (bin_bytes _ Bin) Erun) as F.
      rewrite E in E'. apply app_inj_tail in E'. destruct E' as [<- Eo]. inversion Eo; subst ord'.
      exists body, ord. repeat split; try assumption. subst ops. exact (fma_ok_body _ _ F). }
    specialize (Core Hs). destruct r as [ops|].
    + destruct Core as (s' & C & R1 & R2 & EG). rewrite R1. cbn [obind]. rewrite Hsys. cbn [obind].
      rewrite R2. cbn [obind]. rewrite EG. reflexivity.
    + rewrite Core. reflexivity.
  - (* with HDPC rows *)
    destruct (generate_constraint_matrix m K isis) as [[bin hd]|] eqn:Hgen; [|discriminate].
    inversion HA; subst A. clear HA.
    destruct (pi_system_total m K isis sp bin hd HK Hisis Hn Hsys Hgen) as (r & Er & Hiff).
    destruct (system_facts m K isis sp bin hd HK Hisis Hn Hsys Hgen) as (Dm & HM0 & M32 & Bin & Dh & Bh & HS & HP & W16 & _).
    pose proof (gcm_wf _ _ _ _ _ _ Hgen Hsys) as WA.
    assert (LA : lenN (full_matrix (spS sp) (spH sp) bin hd) = lenN bin).
    { apply full_matrix_len; [apply Dh | destruct Dm as [X _]; lia]. }
    rewrite Er. cbn [obind].
    pose proof (solve_core m T (N.to_nat (spL sp)) _ D (lenN bin) r WA LA Hcons Hiff) as Core.
    assert (Hs : forall ops, r = Some ops -> exists body ord, ops = body ++ [SReorder ord] /\
      check_cert fmul (N.to_nat (spL sp)) (full_matrix (spS sp) (spH sp) bin hd) (map sym_of body) (map N.to_nat ord) = true /\
      length ord = N.to_nat (spL sp) /\ forallb (sop_valid (lenN bin)) body = true /\ forallb fma_ok body = true).
    { intros ops ->. destruct (pi_system_sound m K isis sp bin hd ops HK Hisis Hn Hsys Hgen Er)
        as (body & ord & E & Hc & _ & Lo).
      assert (Erun : pi_run m (spS sp) (spH sp) bin hd (spL sp) (spP sp) = Ok (Some ops)).
      { unfold pi_system_run in Er. rewrite Hsys in Er. cbn [obind] in Er. rewrite Hgen in Er. exact Er. }
      destruct (pi_run_ops_valid _ _ _ _ _ _ _ _ (bin_bytes _ Bin) Bh Erun) as (body' & ord' & E' & V).
      pose proof (pi_run_fma_ok _ _ _ _ _ _ _ _ (bin_bytes _ Bin) Bh Erun) as F.
      rewrite E in E'. apply app_inj_tail in E'. destruct E' as [<- Eo]. inversion Eo; subst ord'.
      exists body, ord. repeat split; try assumption. subst ops. exact (fma_ok_body _ _ F). }
    specialize (Core Hs). destruct r as [ops|].
    + destruct Core as (s' & C & R1 & R2 & EG). rewrite R1. cbn [obind]. rewrite Hsys. cbn [obind].
      rewrite R2. cbn [obind]. rewrite EG. reflexivity.
    + rewrite Core. reflexivity.
Qed.

(* ---- the encoder ---- *)
Lemma sys_params_K_le K sp : sys_params K = Ok sp -> K <= 56403.
Proof.
  unfold sys_params, extended_source_block_symbols, lookup5. intros H.
  destruct (N.leb_spec K MAX_SOURCE_SYMBOLS_PER_BLOCK) as [Hle|]; [exact Hle | discriminate].
Qed.

Theorem encoder_equal m syms T C : wf_mat T syms ->
  gen_intermediate_symbols m syms T = Ok C -> gen_intermediate_symbols_pi m syms T = Ok C.
Proof.
  intros Wsy. unfold gen_intermediate_symbols, gen_intermediate_symbols_pi. cbv zeta.
  change (Layout.lenN syms) with (lenN syms).
  destruct (sys_params (lenN syms)) as [sp|] eqn:Hsys; cbn [obind]; [|discriminate].
  destruct (generate_constraint_matrix m (lenN syms) (rangeN (N.to_nat (spK sp)))) as [[bin hd]|] eqn:Hgen;
    cbn [obind]; [|discriminate].
  destruct (gauss_solve fmul finv T (N.to_nat (spL sp)) (full_matrix (spS sp) (spH sp) bin hd) (create_d sp syms T))
    as [C'|] eqn:EG; [|discriminate]. intros H. inversion H; subst C'. clear H.
  pose proof (sys_params_K_le _ _ Hsys) as HK.
  pose proof (spK_small _ _ HK Hsys) as HKp.
  assert (Hisis : Forall (fun x => x < 2 ^ 32) (rangeN (N.to_nat (spK sp)))).
  { apply Forall_forall. intros x Hx. apply rangeN_in in Hx. change (2 ^ 32) with 4294967296. lia. }
  assert (Hn : lenN (rangeN (N.to_nat (spK sp))) < 2 ^ 31).
  { unfold lenN. rewrite rangeN_length. change (2 ^ 31) with 2147483648. lia. }
  destruct (system_facts m _ _ sp bin hd HK Hisis Hn Hsys Hgen) as (Dm & _ & _ & _ & Dh & _).
  pose proof (gcm_wf _ _ _ _ _ _ Hgen Hsys) as WA.
  destruct (sys_params_ok _ HK) as (K' & J & S & Hh & W & P1 & _ & _ & HKK & Hsys').
  rewrite Hsys in Hsys'. inversion Hsys'; subst sp. cbn [spS spH spK spL spP] in *.
  assert (LA : length (full_matrix S Hh bin hd) = N.to_nat (K' + S + Hh)).
  { pose proof (full_matrix_len S Hh bin hd (proj1 Dh) ltac:(destruct Dm as [X _]; lia)) as X.
    destruct Dm as [Y _]. unfold lenN in *. rewrite rangeN_length in Y. lia. }
  assert (LD : length (create_d (mkSP K' J S Hh W (K' + S + Hh - W) P1 (K' + S + Hh)) syms T) = N.to_nat (K' + S + Hh)).
  { unfold create_d. cbn [spS spH spK]. rewrite !app_length, !repeat_length. unfold lenN in HKK. lia. }
  assert (WD : wf_mat T (create_d (mkSP K' J S Hh W (K' + S + Hh - W) P1 (K' + S + Hh)) syms T)).
  { unfold create_d, wf_mat. apply Forall_app. split; [|apply Forall_app; split; [exact Wsy|]];
      apply Forall_forall; intros r Hr; apply repeat_spec in Hr; subst r;
      (split; [apply repeat_length | apply Forall_forall; intros x Hx; apply repeat_spec in Hx; subst x; reflexivity]). }
  destruct (gauss_solve_exists_gf _ _ _ _ _ EG LA LD WA WD) as (HS & WC & LC).
  rewrite (solver_equals_reference m (lenN syms) false _ _ (full_matrix S Hh bin hd) T _ HK Hisis Hn Hsys).
  - cbn [obind spL]. rewrite EG. reflexivity.
  - unfold sys_matrix. rewrite Hgen. reflexivity.
  - exists C. repeat split; assumption.
Qed.
