(* The block decoder, the object decoder and the block encoder built on the five-phase solver
   (Model/DecoderPi.v) behave exactly like those of Model/Decoder.v / Model/Encoder.v on everything an
   encoder produces: the received systems are consistent (the true intermediate symbols solve them),
   so Proofs/DecoderPiProofs.solver_equals_reference applies at every step. *)
From Coq Require Import NArith List Bool Lia Arith.
From RQ Require Import Base.Outcome Base.Ints Base.ListX Spec.Linear Spec.Layout
  Model.Octet Model.FieldFast Model.SysConst Model.Tuple Model.CMatrix Model.Layout Model.Slab
  Model.Encoder Model.Decoder Model.PiSolver Model.DecoderPi
  Proofs.OutcomeLemmas Proofs.RowParams Proofs.EncoderProofs Proofs.RowSem
  Proofs.SoundProofs Proofs.BlockSound Proofs.ObjectSound Proofs.C01Glue Proofs.C01Closed
  Proofs.DecoderPiProofs.
Import ListNotations.
Open Scope N_scope.

(* one sbd_decode_pi call per batch / one dec_decode_pi call per packet *)
Fixpoint run_batches_pi (m : mode) (d : sb_decoder) (bs : list (list packet))
  : outcome (list (option (list N)) * sb_decoder) :=
  match bs with
  | [] => Ok ([], d)
  | b :: t =>
      obind (sbd_decode_pi m d b) (fun rd =>
      obind (run_batches_pi m (snd rd) t) (fun rs => Ok (fst rd :: fst rs, snd rs)))
  end.

Fixpoint run_dec_pi (m : mode) (d : decoder) (pkts : list packet)
  : outcome (list (option (list N)) * decoder) :=
  match pkts with
  | [] => Ok ([], d)
  | p :: t =>
      obind (dec_decode_pi m d p) (fun rd =>
      obind (run_dec_pi m (snd rd) t) (fun rs => Ok (fst rd :: fst rs, snd rs)))
  end.

(* NOTE on blk_ok_decode_pi.  solver_equals_reference needs fewer than 2^31 ISIs.  The number of ISIs
   of a decoder state is |sbd_esis| + (K' - K) (dec_isis_len), and sbd_inv / blk_ok bound neither
   |sbd_esis| nor |sbd_rep| (inv_cnt only relates them; nothing says the received ESIs are distinct).
   Every state REACHED from sbd_new keeps its ESI set duplicate free and below 2^24 (`esis_ok`
   below: sbd_add only conses an ESI that is not yet a member, sbd_try does not touch the set), hence
   at most 2^24 ESIs.  blk_ok_decode_pi is therefore proved with the extra hypothesis `esis_ok sd`
   (blk_ok_decode_pi_fixed, with blk_ok_decode_esis for the next state); the theorems that start from
   sbd_new / dec_new carry esis_ok along and are proved exactly as stated. *)

Definition esis_ok (d : sb_decoder) : Prop :=
  NoDup (sbd_esis d) /\ Forall (fun x => x < 16777216) (sbd_esis d).

Lemma nodup_bound (l : list N) (n : N) :
  NoDup l -> Forall (fun x => x < n) l -> N.of_nat (length l) <= n.
Proof.
  intros ND F. assert (Hincl : incl l (rangeN (N.to_nat n))).
  { intros x Hx. rewrite Forall_forall in F. apply in_rangeN. specialize (F x Hx). lia. }
  pose proof (NoDup_incl_length ND Hincl) as Hle. rewrite rangeN_length in Hle. lia.
Qed.

Lemma esis_ok_len d : esis_ok d -> N.of_nat (length (sbd_esis d)) <= 16777216.
Proof. intros [ND F]. exact (nodup_bound _ _ ND F). Qed.

Section Core.
Variables (m : mode) (c : cfg) (id : N) (blk : list N) (e : sb_encoder) (K K' J S H W P1 : N).
Hypothesis EC : enc_ctx m c id blk e K K' J S H W P1.
Variables ldpc hdpc : list (list N).
Hypothesis HWF : MatWF m K.
Hypothesis HRS : rows_spec m K (the_sp K' J S H W P1) ldpc hdpc.
Variable d : sb_decoder.
Hypothesis I : sbd_inv m c id K K' J S H W P1 (sbe_syms e) (sbe_C e) d.
Hypothesis HE : N.of_nat (length (sbd_esis d)) <= 16777216.

Let PO := ec_po _ _ _ _ _ _ _ _ _ _ _ _ EC.
Let HL := ec_len _ _ _ _ _ _ _ _ _ _ _ _ EC.
Let HW := ec_wf _ _ _ _ _ _ _ _ _ _ _ _ EC.
Let HG := ec_gen _ _ _ _ _ _ _ _ _ _ _ _ EC.
Let HT := ec_T _ _ _ _ _ _ _ _ _ _ _ _ EC.
Let T := N.to_nat (cT c).
Let sp := the_sp K' J S H W P1.

Lemma core_solver nh A D :
  sys_matrix m K nh (dec_isis K K' d) sp = Ok A ->
  solves fmul T A (sbe_C e) D ->
  solve_pi m K nh (dec_isis K K' d) T D
  = Ok (gauss_solve fmul finv T (N.to_nat (K' + S + H)) A D).
Proof.
  intros EA SV.
  pose proof (po_Kmax _ _ _ _ _ _ _ PO) as HK.
  pose proof (po_facts _ _ _ _ _ _ _ PO) as RO. destruct RO.
  change Gen.Consts.MAX_SOURCE_SYMBOLS_PER_BLOCK with 56403 in ro_Kmax.
  destruct (enc_facts m c K K' J S H W P1 PO _ _ ldpc hdpc HL HW HWF HRS HG) as [X1 [X2 _]].
  apply (solver_equals_reference m K nh (dec_isis K K' d) sp A T D HK).
  - exact (dec_isis_range m c id K K' J S H W P1 PO _ _ HL HT d I).
  - pose proof (dec_isis_len m c id K K' J S H W P1 _ _ HL HT d I) as Hlen.
    unfold Layout.lenN in Hlen. unfold lenN. rewrite Hlen. change (2 ^ 31) with 2147483648. lia.
  - exact (po_sys_params _ _ _ _ _ _ _ PO).
  - exact EA.
  - exists (sbe_C e). split; [exact X2|]. split; [exact X1 | exact SV].
Qed.

Lemma core_3a A : generate_constraint_matrix_no_hdpc m K (dec_isis K K' d) = Ok A ->
  pi_solver m K T true (dec_isis K K' d) A (repeat (repeat 0 T) (N.to_nat S) ++ dec_body c K K' d)
  = gauss_solver T (N.to_nat (K' + S + H)) true (dec_isis K K' d) A
      (repeat (repeat 0 T) (N.to_nat S) ++ dec_body c K K' d).
Proof.
  intros EA. unfold pi_solver, gauss_solver.
  destruct (dec_systems m c id K K' J S H W P1 PO _ _ ldpc hdpc HL HW HWF HRS HG HT d I) as [_ D2].
  apply core_solver; [exact EA | exact (proj1 (D2 A EA))].
Qed.

Lemma core_3b bin hd : generate_constraint_matrix m K (dec_isis K K' d) = Ok (bin, hd) ->
  pi_solver m K T false (dec_isis K K' d) (full_matrix S H bin hd)
    (repeat (repeat 0 T) (N.to_nat (S + H)) ++ dec_body c K K' d)
  = gauss_solver T (N.to_nat (K' + S + H)) false (dec_isis K K' d) (full_matrix S H bin hd)
      (repeat (repeat 0 T) (N.to_nat (S + H)) ++ dec_body c K K' d).
Proof.
  intros EB. unfold pi_solver, gauss_solver.
  destruct (dec_systems m c id K K' J S H W P1 PO _ _ ldpc hdpc HL HW HWF HRS HG HT d I) as [D1 _].
  apply core_solver; [|exact (proj1 (D1 bin hd EB))].
  unfold sys_matrix. rewrite EB. reflexivity.
Qed.

Lemma sbd_try_pi_eq : sbd_try_pi m d = sbd_try m d.
Proof.
  change (sbd_try m d) with (sbd_try_ref m d).
  unfold sbd_try_pi, sbd_try_ref, sbd_try_gen. cbv zeta.
  rewrite (inv_cfg _ _ _ _ _ _ _ _ _ _ _ _ d I), (inv_K _ _ _ _ _ _ _ _ _ _ _ _ d I), (po_ext _ _ _ _ _ _ _ PO).
  cbn [obind].
  destruct (lenN (sbd_esis d) <? K); [reflexivity|].
  destruct (sbd_nsrc d =? K); [reflexivity|].
  rewrite (po_sys_params _ _ _ _ _ _ _ PO). cbn [obind]. fold sp.
  destruct (omapM (fun x => check_len (N.to_nat (cT c)) (snd x)) (present_sources d)) as [srcs|] eqn:E0;
    cbn [obind]; [|reflexivity].
  destruct (omapM (fun x => check_len (N.to_nat (cT c)) (snd x)) (sbd_rep d)) as [reps|] eqn:E1;
    cbn [obind]; [|reflexivity].
  apply check_len_all in E0, E1. destruct E0 as [-> _]. destruct E1 as [-> _].
  change (spS sp) with S. change (spH sp) with H. change (spL sp) with (K' + S + H).
  fold T. fold (dec_isis K K' d).
  change (map snd (present_sources d) ++ repeat (repeat 0 T) (N.to_nat (K' - K)) ++ map snd (sbd_rep d))
    with (dec_body c K K' d).
  assert (R3b : forall k : option (list (list N)) -> outcome (option (list N) * sb_decoder),
    obind (generate_constraint_matrix m K (dec_isis K K' d)) (fun x => let (bin, hd) := x in
      obind (pi_solver m K T false (dec_isis K K' d) (full_matrix S H bin hd)
               (repeat (repeat 0 T) (N.to_nat (S + H)) ++ dec_body c K K' d)) k)
    = obind (generate_constraint_matrix m K (dec_isis K K' d)) (fun x => let (bin, hd) := x in
      obind (gauss_solver T (N.to_nat (K' + S + H)) false (dec_isis K K' d) (full_matrix S H bin hd)
               (repeat (repeat 0 T) (N.to_nat (S + H)) ++ dec_body c K K' d)) k)).
  { intros k. destruct (generate_constraint_matrix m K (dec_isis K K' d)) as [[bin hd]|] eqn:EB;
      cbn [obind]; [|reflexivity]. rewrite (core_3b bin hd EB). reflexivity. }
  destruct (K' + S + H <=? S + lenN (dec_isis K K' d)); cbn [obind]; [|apply R3b].
  destruct (generate_constraint_matrix_no_hdpc m K (dec_isis K K' d)) as [A|] eqn:EA;
    cbn [obind]; [|reflexivity].
  rewrite (core_3a A EA).
  destruct (gauss_solver T (N.to_nat (K' + S + H)) true (dec_isis K K' d) A
              (repeat (repeat 0 T) (N.to_nat S) ++ dec_body c K K' d)) as [[C0|]|]; cbn [obind];
    [|apply R3b|reflexivity].
  destruct (sbd_finish m d sp C0); cbn [obind]; reflexivity.
Qed.
End Core.

(* ---- the ESI set stays duplicate free and inside the 24-bit id space ---- *)
Lemma sbd_new_esis id c n d : sbd_new id c n = Ok d -> esis_ok d.
Proof.
  unfold sbd_new. intros E. oinvas E as k Ek. injection E as <-. split; cbn [sbd_esis]; constructor.
Qed.

Lemma sbd_add_esis m d p d' : snd (fst p) < 16777216 -> esis_ok d -> sbd_add m d p = Ok d' -> esis_ok d'.
Proof.
  destruct p as [[sbn esi] payload]. cbn [fst snd]. intros Hesi [ND F] E. unfold sbd_add in E.
  oinvas E as u Eu.
  destruct (mem_N esi (sbd_esis d)) eqn:Emem; [injection E as <-; split; assumption|].
  assert (Hnin : ~ In esi (sbd_esis d)) by (intros X; apply mem_N_In in X; congruence).
  destruct (sbd_K d <=? esi).
  - injection E as <-. split; cbn [sbd_esis]; constructor; assumption.
  - oinvas E as src' E1. oinvas E as n' E2. injection E as <-. split; cbn [sbd_esis]; constructor; assumption.
Qed.

Lemma sbd_adds_esis m pkts : forall d d', Forall (fun p : packet => snd (fst p) < 16777216) pkts ->
  esis_ok d -> ofold (fun p d => sbd_add m d p) pkts d = Ok d' -> esis_ok d'.
Proof.
  induction pkts as [|p pkts IH]; intros d d' F HE E; cbn [ofold] in E.
  - injection E as <-. exact HE.
  - oinvas E as d1 E1. apply (IH d1 d' (Forall_inv_tail F)); [|exact E].
    exact (sbd_add_esis m d p d1 (Forall_inv F) HE E1).
Qed.

Lemma sbd_try_esis m d r d' : sbd_try m d = Ok (r, d') -> sbd_esis d' = sbd_esis d.
Proof.
  intros E. unfold sbd_try in E. cbv zeta in E. oinv E.
  destruct (Layout.lenN (sbd_esis d) <? sbd_K d); [injection E as _ <-; reflexivity|].
  destruct (sbd_nsrc d =? sbd_K d).
  - oinv E. oinv E. injection E as _ <-. reflexivity.
  - oinv E. oinv E. oinv E. oinvas E as [rr|] E3a; [injection E as _ <-; reflexivity|].
    oinvas E as [bin hd] Egen.
    destruct (gauss_solve _ _ _ _ _ _); [oinv E|]; injection E as _ <-; reflexivity.
Qed.

Lemma sbd_decode_esis m d b r d' : Forall (fun p : packet => snd (fst p) < 16777216) b ->
  esis_ok d -> sbd_decode m d b = Ok (r, d') -> esis_ok d'.
Proof.
  intros F HE E. unfold sbd_decode in E. oinvas E as d1 E1.
  pose proof (sbd_adds_esis m b d d1 F HE E1) as H1. unfold esis_ok in *.
  rewrite (sbd_try_esis m d1 r d' E). exact H1.
Qed.

(* packets of the encoder carry 24-bit ESIs *)
Lemma produced_esi m c id blk e K sd p : MatWF m K ->
  blk_ok m c id blk e K sd -> enc_produces m e p -> snd (fst p) < 16777216.
Proof.
  intros HWF [K' [J [S [H [W [P1 [ldpc [hdpc [EC [HRS I]]]]]]]]]] Hp.
  pose proof (ec_po _ _ _ _ _ _ _ _ _ _ _ _ EC) as PO. pose proof (po_Kmax _ _ _ _ _ _ _ PO) as HK.
  destruct (produced_block_packet m c id blk e K K' J S H W P1 EC ldpc hdpc HWF HRS p Hp)
    as [_ [[X _]|[X _]]]; lia.
Qed.

Lemma produced_esis m c id blk e K sd b : MatWF m K ->
  blk_ok m c id blk e K sd -> Forall (enc_produces m e) b ->
  Forall (fun p : packet => snd (fst p) < 16777216) b.
Proof.
  intros HWF B F. eapply Forall_impl; [|exact F]. intros p Hp.
  exact (produced_esi m c id blk e K sd p HWF B Hp).
Qed.

(* one call, from any state reached by feeding packets of the encoder.
   ORIGINAL STATEMENT (not provable from blk_ok alone, see the report at the end of the file):
Lemma blk_ok_decode_pi m c id blk e K sd b : MatWF m K ->
  blk_ok m c id blk e K sd -> Forall (enc_produces m e) b ->
  sbd_decode_pi m sd b = sbd_decode m sd b.
*)
Lemma blk_ok_decode_pi_fixed m c id blk e K sd b : MatWF m K ->
  blk_ok m c id blk e K sd -> esis_ok sd -> Forall (enc_produces m e) b ->
  sbd_decode_pi m sd b = sbd_decode m sd b.
Proof.
  intros HWF B HE F. pose proof (produced_esis m c id blk e K sd b HWF B F) as F24.
  destruct B as [K' [J [S [H [W [P1 [ldpc [hdpc [EC [HRS I]]]]]]]]]].
  pose proof (ec_po _ _ _ _ _ _ _ _ _ _ _ _ EC) as PO.
  pose proof (ec_len _ _ _ _ _ _ _ _ _ _ _ _ EC) as HL. pose proof (ec_T _ _ _ _ _ _ _ _ _ _ _ _ EC) as HT.
  assert (F' : Forall (block_packet m c id K K' J S H W P1 (sbe_syms e) (sbe_C e)) b).
  { eapply Forall_impl; [|exact F]. intros p Hp.
    exact (produced_block_packet m c id blk e K K' J S H W P1 EC ldpc hdpc HWF HRS p Hp). }
  unfold sbd_decode_pi, sbd_decode.
  destruct (sbd_add_all_ok m c id K K' J S H W P1 PO _ _ HL HT b sd I F') as [d1 [E1 I1]].
  rewrite E1. cbn [obind].
  apply (sbd_try_pi_eq m c id blk e K K' J S H W P1 EC ldpc hdpc HWF HRS d1 I1).
  apply esis_ok_len. exact (sbd_adds_esis m b sd d1 F24 HE E1).
Qed.

Lemma blk_ok_decode_esis m c id blk e K sd b r sd' : MatWF m K ->
  blk_ok m c id blk e K sd -> esis_ok sd -> Forall (enc_produces m e) b ->
  sbd_decode m sd b = Ok (r, sd') -> esis_ok sd'.
Proof.
  intros HWF B HE F E.
  exact (sbd_decode_esis m sd b r sd' (produced_esis m c id blk e K sd b HWF B F) HE E).
Qed.

Lemma run_batches_pi_eq m c id blk e K bs : MatWF m K -> forall d,
  blk_ok m c id blk e K d -> esis_ok d -> Forall (Forall (enc_produces m e)) bs ->
  run_batches_pi m d bs = run_batches m d bs.
Proof.
  intros HWF. induction bs as [|b t IH]; intros d B HE F; cbn [run_batches_pi run_batches]; [reflexivity|].
  rewrite (blk_ok_decode_pi_fixed m c id blk e K d b HWF B HE (Forall_inv F)).
  destruct (sbd_decode m d b) as [[r d1]|pc] eqn:E; cbn [obind fst snd]; [|reflexivity].
  destruct (blk_ok_decode m c id blk e K d b r d1 HWF B (Forall_inv F) E) as [_ [B1 _]].
  pose proof (blk_ok_decode_esis m c id blk e K d b r d1 HWF B HE (Forall_inv F) E) as HE1.
  rewrite (IH d1 B1 HE1 (Forall_inv_tail F)). reflexivity.
Qed.

Theorem block_decoder_equal m c data id K blk e :
  cfg_ok c data -> lenN blk = K * cT c -> Forall (fun b => b < 256) blk ->
  sbe_new m id c blk = Ok e ->
  forall d0, sbd_new id c (K * cT c) = Ok d0 ->
  forall bs, Forall (Forall (enc_produces m e)) bs ->
    run_batches_pi m d0 bs = run_batches m d0 bs.
Proof.
  intros OK HB Hb E d0 E0 bs F.
  destruct (blk_ok_init m c data id K blk e d0 OK HB Hb E (RowsOK_holds m K) E0) as [B _].
  exact (run_batches_pi_eq m c id blk e K bs (MatWF_holds m K) d0 B (sbd_new_esis _ _ _ _ E0) F).
Qed.

(* ---- object level ---- *)
Lemma dec_new_esis c data d0 : cfg_ok c data -> dec_new c = Ok d0 -> Forall esis_ok (dec_sbd d0).
Proof.
  intros OK E. destruct (dec_new_spec c data OK d0 E) as [_ [_ [HL Hn]]].
  apply Forall_forall. intros sd Hin. destruct (In_nth _ _ (dsd c) Hin) as [k [Hk <-]].
  assert (Hkz : N.of_nat k < cZ c) by lia.
  pose proof (Hn (N.of_nat k) Hkz) as X. rewrite Nat2N.id in X. exact (sbd_new_esis _ _ _ _ X).
Qed.

Section ObjPi.
Variables (m : mode) (c : cfg) (data : list N) (encs : list sb_encoder).
Let HWF : forall j, j < cZ c -> MatWF m (blk_K c j) := fun j _ => MatWF_holds m _.

Lemma dec_add_pi_eq D d p : obj_inv m c data encs D d -> Forall esis_ok (dec_sbd d) ->
  obj_produces m c encs p ->
  dec_add_pi m d p = dec_add m d p /\
  (forall d', dec_add m d p = Ok d' -> Forall esis_ok (dec_sbd d')).
Proof.
  intros I HE [j [e [Hj [He Hp]]]].
  destruct (oi_blk m c data encs D d I j e Hj He) as [B1 _].
  destruct (blk_ok_packet_id m c j _ e (blk_K c j) _ p (HWF j Hj) B1 Hp) as [Hid _].
  unfold dec_add_pi, dec_add. rewrite Hid.
  destruct (nth_ok (dec_blocks d) (N.to_nat j)) as [[bb|]|pc]; cbn [obind];
    [split; [reflexivity | intros d' X; injection X as <-; exact HE] | | split; [reflexivity | discriminate]].
  destruct (nth_ok (dec_sbd d) (N.to_nat j)) as [sd|pc] eqn:Esd; cbn [obind];
    [|split; [reflexivity | discriminate]].
  destruct (nth_ok_inv _ _ _ (dsd c) Esd) as [Hlt ->].
  assert (HEj : esis_ok (nth (N.to_nat j) (dec_sbd d) (dsd c))).
  { rewrite Forall_forall in HE. apply HE. apply nth_In. exact Hlt. }
  rewrite (blk_ok_decode_pi_fixed m c j _ e (blk_K c j) _ [p] (HWF j Hj) B1 HEj (Forall_cons _ Hp (Forall_nil _))).
  split; [reflexivity|]. intros d' X. oinvas X as [r sd'] ED. oinvas X as sbds E1. oinvas X as blks E2.
  injection X as <-. cbn [dec_sbd].
  pose proof (blk_ok_decode_esis m c j _ e (blk_K c j) _ [p] r sd' (HWF j Hj) B1 HEj
                (Forall_cons _ Hp (Forall_nil _)) ED) as HE'.
  rewrite list_put_ok in E1 by exact Hlt. injection E1 as <-.
  apply LinearProofs.Forall_upd_nth; assumption.
Qed.

Lemma run_dec_pi_eq pkts : forall D d, obj_inv m c data encs D d -> Forall esis_ok (dec_sbd d) ->
  Forall (obj_produces m c encs) pkts -> run_dec_pi m d pkts = run_dec m d pkts.
Proof.
  induction pkts as [|p t IH]; intros D d I HE F; cbn [run_dec_pi run_dec]; [reflexivity|].
  destruct (dec_add_pi_eq D d p I HE (Forall_inv F)) as [EA HE1].
  unfold dec_decode_pi, dec_decode. rewrite EA.
  destruct (dec_add m d p) as [d1|pc] eqn:E1; cbn [obind fst snd]; [|reflexivity].
  pose proof (dec_add_sound m c data HWF encs D d p d1 I (Forall_inv F) E1) as I1.
  rewrite (IH (p :: D) d1 I1 (HE1 d1 eq_refl) (Forall_inv_tail F)). reflexivity.
Qed.
End ObjPi.

Theorem object_decoder_equal m c data encs d0 pkts :
  cfg_ok c data -> encoder_new_full m c data = Ok encs -> dec_new c = Ok d0 ->
  Forall (obj_produces m c encs) pkts ->
  run_dec_pi m d0 pkts = run_dec m d0 pkts.
Proof.
  intros OK E E0 F.
  pose proof (obj_inv_init m c data OK (fun j _ => RowsOK_holds m _) encs E d0 E0) as I0.
  exact (run_dec_pi_eq m c data encs pkts [] d0 I0 (dec_new_esis c data d0 OK E0) F).
Qed.

Theorem object_sound_pi m c data encs d0 pkts :
  cfg_ok c data -> encoder_new_full m c data = Ok encs -> dec_new c = Ok d0 ->
  Forall (obj_produces m c encs) pkts ->
  exists rs d', run_dec_pi m d0 pkts = Ok (rs, d') /\
    Forall (fun r => r = None \/ (r = Some data /\ lenN data = cF c)) rs.
Proof.
  intros OK E E0 F. rewrite (object_decoder_equal m c data encs d0 pkts OK E E0 F).
  exact (c01u_object_sound m c data encs d0 pkts OK E E0 F).
Qed.

Theorem object_complete_pi m c data encs d0 pkts :
  cfg_ok c data -> encoder_new_full m c data = Ok encs -> dec_new c = Ok d0 ->
  Forall (obj_produces m c encs) pkts ->
  (forall j i, j < cZ c -> i < blk_K c j -> exists p, In p pkts /\ fst p = (j, i)) ->
  exists rs d', run_dec_pi m d0 pkts = Ok (rs, d') /\
    dec_result d' = Some data /\ last rs None = Some data.
Proof.
  intros OK E E0 F Hall. rewrite (object_decoder_equal m c data encs d0 pkts OK E E0 F).
  exact (c01u_object_complete m c data encs d0 pkts OK E E0 F Hall).
Qed.

(* the block encoder with the direct five-phase solve *)
Theorem sbe_new_pi_equal m c data id K blk e :
  cfg_ok c data -> lenN blk = K * cT c -> Forall (fun b => b < 256) blk ->
  sbe_new m id c blk = Ok e -> sbe_new_pi m id c blk = Ok e.
Proof.
  intros OK HB Hb E.
  destruct (sbe_new_ctx m c data id K blk e OK HB Hb E) as [K' [J [S [H [W [P1 EC]]]]]].
  pose proof (ec_wf _ _ _ _ _ _ _ _ _ _ _ _ EC) as HW.
  unfold sbe_new in E. oinvas E as syms E0. oinvas E as C E1. injection E as <-.
  cbn [sbe_syms] in HW. unfold sbe_new_pi. rewrite E0. cbn [obind].
  rewrite (encoder_equal m syms _ C HW E1). reflexivity.
Qed.
