(* The constraint matrix of Model/CMatrix.v does not depend on the build mode: for every K accepted
   by sys_params, generate_constraint_matrix Checked = generate_constraint_matrix Release on
   ISIs below 2^32 (no addition / multiplication / subtraction in it can overflow). *)
From Coq Require Import NArith List Bool Lia Arith.
From RQ Require Import Base.Outcome Base.Ints Base.ListX Gen.Consts Gen.SysTables
  Spec.Rand Spec.Tuple Model.Octet Model.SysConst Model.Tuple Model.CMatrix
  Proofs.SysConstProofs Proofs.C15Sweep1 Proofs.TupleProofs Proofs.EncIndicesProofs Proofs.C15Proofs.
Import ListNotations.
Open Scope N_scope.
Open Scope outcome_scope.

(* ---- "whatever succeeds with overflow checks succeeds identically without" ---- *)

Definition ole {A} (x y : outcome A) : Prop := forall a, x = Ok a -> y = Ok a.

Lemma ole_refl {A} (x : outcome A) : ole x x.
Proof. intros a H; exact H. Qed.

Lemma ole_bind {A B} (x y : outcome A) (f g : A -> outcome B) :
  ole x y -> (forall a, ole (f a) (g a)) -> ole (obind x f) (obind y g).
Proof.
  intros Hxy Hfg b H. destruct x as [a|c]; [|discriminate].
  rewrite (Hxy a eq_refl). cbn [obind] in *. apply Hfg. exact H.
Qed.

Lemma add_w_ole w a b : ole (add_w Checked w a b) (add_w Release w a b).
Proof. intros s. unfold add_w. cbv zeta. destruct (a + b <? 2 ^ w); [auto | discriminate]. Qed.

Lemma lt_loop_ole n a W : forall b, ole (lt_loop Checked n a W b) (lt_loop Release n a W b).
Proof.
  induction n as [|n IH]; intros b; cbn [lt_loop]; [apply ole_refl|].
  apply ole_bind; [apply add_w_ole | intros s].
  apply ole_bind; [apply ole_refl | intros b'].
  apply ole_bind; [apply IH | intros r; apply ole_refl].
Qed.

Lemma pi_skip_ole fuel a1 P P1 : forall b1,
  ole (pi_skip Checked fuel a1 P P1 b1) (pi_skip Release fuel a1 P P1 b1).
Proof.
  induction fuel as [|f IH]; intros b1; cbn [pi_skip]; [apply ole_refl|].
  destruct (P <=? b1); [|apply ole_refl].
  apply ole_bind; [apply add_w_ole | intros s].
  apply ole_bind; [apply ole_refl | intros b']. apply IH.
Qed.

Lemma pi_loop_ole fuel n a1 W P P1 : forall b1,
  ole (pi_loop Checked fuel n a1 W P P1 b1) (pi_loop Release fuel n a1 W P P1 b1).
Proof.
  induction n as [|n IH]; intros b1; cbn [pi_loop]; [apply ole_refl|].
  apply ole_bind; [apply add_w_ole | intros s].
  apply ole_bind; [apply ole_refl | intros b'].
  apply ole_bind; [apply pi_skip_ole | intros b''].
  apply ole_bind; [apply add_w_ole | intros i].
  apply ole_bind; [apply IH | intros r; apply ole_refl].
Qed.

Lemma enc_indices_ole t W P P1 : ole (enc_indices Checked t W P P1) (enc_indices Release t W P P1).
Proof.
  destruct t as [[[[[d a] b] d1] a1] b1]. unfold enc_indices.
  repeat (apply ole_bind; [apply ole_refl | intros _]).
  cbv zeta.
  apply ole_bind; [apply lt_loop_ole | intros lt].
  apply ole_bind; [apply pi_skip_ole | intros b1'].
  apply ole_bind; [apply add_w_ole | intros i0].
  apply ole_bind; [apply pi_loop_ole | intros pis]. apply ole_refl.
Qed.

Lemma enc_indices_mode m t W P P1 :
  (exists l, enc_indices Checked t W P P1 = Ok l) ->
  enc_indices m t W P P1 = enc_indices Release t W P P1.
Proof.
  intros [l E]. destruct m; [reflexivity|]. rewrite E. symmetry. apply enc_indices_ole. exact E.
Qed.

(* ---- G_ENC ---- *)

Lemma set_enc_mode m K' J S H W P1 first isis mat :
  In (K', J, S, H, W) TABLE2 -> In (K', P1) P1_TABLE -> Forall (fun x => x < 2 ^ 32) isis ->
  set_enc m first W (K' + S + H - W) P1 J isis mat =
  set_enc Release first W (K' + S + H - W) P1 J isis mat.
Proof.
  intros Hr Hp Hall. unfold set_enc. f_equal.
  generalize (0, mat). induction Hall as [|x isis Hx Hall IH]; intros st; cbn [ofold]; [reflexivity|].
  assert (E : forall m0,
    (let '(row, mat0) := st in
     t <- intermediate_tuple_gen true m0 x W J P1 ;;
     idx <- enc_indices m0 t W (K' + S + H - W) P1 ;;
     mat1 <- ofold (fun j mat1 => mset mat1 (row + first) j 1) idx mat0 ;; Ok (row + 1, mat1)) =
    (let '(row, mat0) := st in
     idx <- enc_indices Release (Tuple J W P1 x) W (K' + S + H - W) P1 ;;
     mat1 <- ofold (fun j mat1 => mset mat1 (row + first) j 1) idx mat0 ;; Ok (row + 1, mat1))).
  { intros m0. destruct st as [row mat0].
    rewrite (c15_tuple_ok true m0 K' J S H W P1 x Hr Hp Hx) by (left; reflexivity). cbn [obind].
    rewrite (enc_indices_mode m0); [reflexivity|].
    pose proof (c15_enc_indices Checked K' J S H W P1 x Hr Hp) as Ex.
    destruct (Tuple J W P1 x) as [[[[[d a] b] d1] a1] b1]. destruct Ex as [l [El _]]. eauto. }
  rewrite (E m), (E Release).
  match goal with |- obind ?X _ = obind ?X _ => destruct X as [st'|c] end; cbn [obind]; [apply IH | reflexivity].
Qed.

(* ---- HDPC ---- *)

Lemma hdpc_step_mode m H j next : 2 <= H -> j + 1 < 2 ^ 32 ->
  hdpc_step m H j next = hdpc_step Release H j next.
Proof.
  intros HH Hj. unfold hdpc_step.
  assert (S24 : 7 < 2 ^ 24) by reflexivity.
  destruct (oct_alpha 1) as [al|c]; cbn [obind]; [|reflexivity].
  destruct (omapM (fun x => oct_mul al x) next) as [col|c]; cbn [obind]; [|reflexivity].
  rewrite !(rand_gen_ok true _ (j + 1) 6 H) by (try lia; left; reflexivity). cbn [obind].
  rewrite !sub_w_ok by lia. cbn [obind].
  rewrite !(rand_gen_ok true _ (j + 1) 7 (H - 1)) by (try lia; left; reflexivity). reflexivity.
Qed.

Lemma hdpc_cols_mode m H : 2 <= H -> forall n j next acc, j + 1 < 2 ^ 32 ->
  hdpc_cols m H n j next acc = hdpc_cols Release H n j next acc.
Proof.
  intros HH. induction n as [|n IH]; intros j next acc Hj; cbn [hdpc_cols]; [reflexivity|].
  rewrite (hdpc_step_mode m H j next HH Hj).
  destruct (hdpc_step Release H j next) as [col|c]; cbn [obind]; [|reflexivity].
  apply IH. lia.
Qed.

Lemma generate_hdpc_rows_mode m Kp S H : 2 <= H -> Kp + S < 2 ^ 32 ->
  generate_hdpc_rows m Kp S H = generate_hdpc_rows Release Kp S H.
Proof.
  intros HH Hn. unfold generate_hdpc_rows. cbv zeta.
  destruct (omapM oct_alpha (rangeN (N.to_nat H))) as [lc|c]; cbn [obind]; [|reflexivity].
  destruct (Kp + S <? 2) eqn:E2; cbn [obind]; [reflexivity|].
  apply N.ltb_ge in E2.
  rewrite (hdpc_cols_mode m H HH) by lia. reflexivity.
Qed.

(* ---- the parameters ---- *)

Lemma sys_params_inv K sp : sys_params K = Ok sp ->
  extended_source_block_symbols K = Ok (spK sp) /\ num_ldpc_symbols K = Ok (spS sp) /\
  num_hdpc_symbols K = Ok (spH sp) /\ num_lt_symbols K = Ok (spW sp) /\
  num_pi_symbols K = Ok (spP sp) /\ num_intermediate_symbols K = Ok (spL sp) /\
  systematic_index (spK sp) = Ok (spJ sp) /\ calculate_p1 (spK sp) = Ok (spP1 sp).
Proof.
  unfold sys_params. intros H.
  destruct (extended_source_block_symbols K) as [Kp|] eqn:E1; cbn [obind] in H; [|discriminate].
  destruct (num_ldpc_symbols K) as [S|] eqn:E2; cbn [obind] in H; [|discriminate].
  destruct (num_hdpc_symbols K) as [Hh|] eqn:E3; cbn [obind] in H; [|discriminate].
  destruct (num_lt_symbols K) as [W|] eqn:E4; cbn [obind] in H; [|discriminate].
  destruct (num_pi_symbols K) as [P|] eqn:E5; cbn [obind] in H; [|discriminate].
  destruct (num_intermediate_symbols K) as [L|] eqn:E6; cbn [obind] in H; [|discriminate].
  destruct (systematic_index Kp) as [J|] eqn:E7; cbn [obind] in H; [|discriminate].
  destruct (calculate_p1 Kp) as [P1|] eqn:E8; cbn [obind] in H; [|discriminate].
  inversion H. subst sp. cbn [spK spS spH spW spP spL spJ spP1]. repeat split; assumption.
Qed.

Lemma lookup_ok_le K : forall k, extended_source_block_symbols K = Ok k -> K <= 56403.
Proof.
  intros k. unfold extended_source_block_symbols, lookup5.
  destruct (N.leb_spec K MAX_SOURCE_SYMBOLS_PER_BLOCK) as [H|H]; [intros _; exact H | discriminate].
Qed.

(* everything the other proofs need about an accepted K *)
Lemma sys_params_facts K sp : sys_params K = Ok sp ->
  K <= spK sp /\ spL sp = spK sp + spS sp + spH sp /\ spP sp = spL sp - spW sp /\
  spL sp < 65536 /\ 2 <= spH sp /\ 10 <= spK sp /\ spW sp <= spK sp + spS sp /\ spS sp < spW sp /\
  exists K'' S' H' W',
    num_lt_symbols (spK sp) = Ok W' /\ num_pi_symbols (spK sp) = Ok (K'' + S' + H' - W') /\
    In (K'', spJ sp, S', H', W') TABLE2 /\ In (K'', spP1 sp) P1_TABLE.
Proof.
  intros Hsp. destruct (sys_params_inv K sp Hsp) as [E1 [E2 [E3 [E4 [E5 [E6 [E7 E8]]]]]]].
  pose proof (lookup_ok_le K _ E1) as HK.
  destruct (c15_params K HK) as [K' [J [S [H [W [P1 [[F1 [F2 [F3 [F4 [F5 [F6 [F7 F8]]]]]]] R]]]]]]].
  destruct R as [Hr [Hp [HKK' [_ [_ [_ [_ [_ [_ [_ [HSW [HH [HL HWL]]]]]]]]]]]]].
  rewrite F1 in E1. rewrite F3 in E2. rewrite F4 in E3. rewrite F5 in E4. rewrite F7 in E5. rewrite F6 in E6.
  inversion E1 as [X1]. inversion E2 as [X2]. inversion E3 as [X3]. inversion E4 as [X4].
  inversion E5 as [X5]. inversion E6 as [X6].
  destruct (row_facts K' J S H W P1 Hr Hp).
  assert (HK' : spK sp <= 56403) by (rewrite <- X1; exact ro_Kmax).
  destruct (c15_params (spK sp) HK') as [K'' [J' [S' [H' [W' [P1' [[G1 [G2 [G3 [G4 [G5 [G6 [G7 G8]]]]]]] R']]]]]]].
  destruct R' as [Hr' [Hp' _]].
  rewrite G2 in E7. rewrite G8 in E8. inversion E7 as [Y7]. inversion E8 as [Y8].
  repeat split; try lia.
  exists K'', S', H', W'. rewrite <- Y7, <- Y8. auto.
Qed.

(* ---- the theorem ---- *)

Theorem generate_constraint_matrix_mode m K isis :
  Forall (fun x => x < 2 ^ 32) isis ->
  generate_constraint_matrix m K isis = generate_constraint_matrix Release K isis.
Proof.
  intros Hall. unfold generate_constraint_matrix.
  destruct (sys_params K) as [sp|c] eqn:Hsp; cbn [obind]; [|reflexivity].
  destruct (sys_params_facts K sp Hsp) as [HK [HL [HP [HL16 [HH [HK10 [HWL [HSW [K'' [S' [H' [W' [G5 [G7 [Hr Hp]]]]]]]]]]]]]]].
  cbv zeta.
  destruct (assert_ok _) as [[]|c]; cbn [obind]; [|reflexivity].
  destruct (set_ldpc _ _ _ _ _) as [mat|c]; cbn [obind]; [|reflexivity].
  rewrite G5, G7. cbn [obind].
  rewrite (set_enc_mode m K'' (spJ sp) S' H' W' (spP1 sp) _ isis mat Hr Hp Hall).
  destruct (set_enc Release _ _ _ _ _ _ _) as [mat'|c]; cbn [obind]; [|reflexivity].
  assert (P16 : 65536 < 2 ^ 32) by reflexivity.
  rewrite (generate_hdpc_rows_mode m (spK sp) (spS sp) (spH sp)) by lia. reflexivity.
Qed.
