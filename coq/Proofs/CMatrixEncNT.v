(* C04, number theory behind the G_ENC rows: arithmetic progressions modulo a prime are injective
   on [0, p) and hit every residue; consequences for the LT walk (b + k a mod W) and for the PI walk
   with skipping (b1 + k a1 mod P1, values >= P skipped) of RFC 6330 5.3.5.3. *)
From Coq Require Import NArith List Bool Lia Arith.
From RQ Require Import Base.ListX Spec.Prime Spec.Code Proofs.PrimeProofs Proofs.CMatrixBase.
Import ListNotations.
Open Scope N_scope.

Lemma mod_sub_eq p x y : p <> 0 -> x <= y -> x mod p = y mod p -> (y - x) mod p = 0.
Proof.
  intros Hp Hxy E.
  assert (Hq : x / p <= y / p) by (apply N.div_le_mono; assumption).
  pose proof (N.div_mod x p Hp) as Hx. pose proof (N.div_mod y p Hp) as Hy.
  replace (y - x) with ((y / p - x / p) * p).
  - apply N.mod_mul. exact Hp.
  - rewrite N.mul_sub_distr_r. rewrite E in Hx.
    revert Hx Hy Hq. generalize (y mod p) (x / p) (y / p). intros r q1 q2 Hx Hy Hq.
    assert (q1 * p <= q2 * p) by (apply N.mul_le_mono_r; exact Hq). lia.
Qed.

Lemma prime_mul_nz p a k : prime_N p -> 1 <= a < p -> 0 < k < p -> (k * a) mod p <> 0.
Proof.
  intros Hp Ha Hk Hz. pose proof (prime_coprime p a Hp Ha) as Hg.
  assert (Hp0 : p <> 0) by lia.
  apply N.mod_divide in Hz; [|exact Hp0].
  rewrite N.gcd_comm in Hg. rewrite N.mul_comm in Hz.
  pose proof (N.gauss p a k Hz Hg) as Hd.
  apply N.divide_pos_le in Hd; lia.
Qed.

Lemma walk_inj p a b i j : prime_N p -> 1 <= a < p -> i < j -> j < p ->
  (b + i * a) mod p <> (b + j * a) mod p.
Proof.
  intros Hp Ha Hij Hj E. assert (Hp0 : p <> 0) by lia.
  assert (Hle : b + i * a <= b + j * a) by (apply N.add_le_mono_l, N.mul_le_mono_r; lia).
  pose proof (mod_sub_eq p _ _ Hp0 Hle E) as Hz.
  replace (b + j * a - (b + i * a)) with ((j - i) * a) in Hz
    by (rewrite N.mul_sub_distr_r; lia).
  apply (prime_mul_nz p a (j - i) Hp Ha); [lia | exact Hz].
Qed.

Lemma hits_target p a b c : prime_N p -> 1 <= a < p -> b < p -> c < p ->
  exists k, k < p /\ (b + k * a) mod p = c.
Proof.
  intros Hp Ha Hb Hc. assert (Hp0 : p <> 0) by lia.
  assert (Hb' : (b + (p - c)) mod p < p) by (apply N.mod_lt; exact Hp0).
  destruct (prime_hits_zero p a _ Hp Ha Hb') as [k [Hk Hz]].
  exists k. split; [exact Hk|].
  rewrite N.add_mod_idemp_l in Hz by exact Hp0.
  replace (b + (p - c) + k * a) with ((b + k * a) + (p - c)) in Hz by lia.
  rewrite <- N.add_mod_idemp_l in Hz by exact Hp0.
  assert (M : (b + k * a) mod p < p) by (apply N.mod_lt; exact Hp0).
  revert Hz M. generalize ((b + k * a) mod p). intros z Hz M.
  rewrite (mod_lt2 (z + (p - c)) p Hp0) in Hz by lia.
  destruct (N.ltb_spec (z + (p - c)) p); lia.
Qed.

Lemma NoDup_app' {A} (l1 l2 : list A) :
  NoDup l1 -> NoDup l2 -> (forall x, In x l1 -> ~ In x l2) -> NoDup (l1 ++ l2).
Proof.
  induction l1 as [|x t IH]; intros H1 H2 Hd; cbn [app]; [exact H2|].
  inversion H1 as [|? ? Hx Ht]; subst. constructor.
  - intros Hin. apply in_app_or in Hin. destruct Hin as [Hin|Hin]; [contradiction|].
    apply (Hd x); [left; reflexivity | exact Hin].
  - apply IH; [exact Ht | exact H2 |]. intros y Hy. apply Hd. right. exact Hy.
Qed.

(* ---- the LT walk ---- *)
Section LT.
Variables (W a b : N).
Hypothesis HW : prime_N W.
Hypothesis Ha : 1 <= a < W.

Definition wkW (t : N) : N := (b + t * a) mod W.

Lemma wkW_succ t : (wkW t + a) mod W = wkW (t + 1).
Proof.
  unfold wkW. assert (W <> 0) by (destruct HW; lia).
  rewrite N.add_mod_idemp_l by assumption. f_equal. lia.
Qed.

Lemma enc_lt_nodup : forall n t, t + N.of_nat n < W ->
  (forall s, s <= t -> ~ In (wkW s) (enc_lt n a W (wkW t))) /\
  NoDup (enc_lt n a W (wkW t)) /\ Forall (fun x => x < W) (enc_lt n a W (wkW t)).
Proof.
  assert (HW0 : W <> 0) by (destruct HW; lia).
  induction n as [|n IH]; intros t Ht; cbn [enc_lt].
  - split; [intros s _ []|]. split; constructor.
  - cbv zeta. rewrite wkW_succ.
    destruct (IH (t + 1)) as [I1 [I2 I3]]; [lia|]. split; [|split].
    + intros s Hs [E|Hin].
      * apply (walk_inj W a b s (t + 1) HW Ha); [lia | lia | symmetry; exact E].
      * apply (I1 s); [lia | exact Hin].
    + constructor; [apply I1; lia | exact I2].
    + constructor; [apply N.mod_lt; exact HW0 | exact I3].
Qed.

End LT.

(* ---- the PI walk with skipping ---- *)
Section PI.
Variables (W P P1 a1 b1 : N).
Hypothesis HP1 : prime_N P1.
Hypothesis Ha1 : 1 <= a1 < P1.
Hypothesis Hb1 : b1 < P1.
Hypothesis HP : 1 <= P.
Hypothesis HPP1 : P <= P1.

Let P1nz : P1 <> 0. Proof. destruct HP1; lia. Qed.

Definition wk (t : N) : N := (b1 + t * a1) mod P1.

Lemma wk_0 : wk 0 = b1.
Proof. unfold wk. rewrite N.mul_0_l, N.add_0_r. apply N.mod_small. exact Hb1. Qed.

Lemma wk_lt t : wk t < P1.
Proof. apply N.mod_lt. exact P1nz. Qed.

Lemma wk_add t k : (wk t + k * a1) mod P1 = wk (t + k).
Proof. unfold wk. rewrite N.add_mod_idemp_l by exact P1nz. f_equal. lia. Qed.

Lemma wk_succ t : (wk t + a1) mod P1 = wk (t + 1).
Proof. rewrite <- wk_add. rewrite N.mul_1_l. reflexivity. Qed.

Lemma wk_inj i j : i < j -> j < P1 -> wk i <> wk j.
Proof. intros Hij Hj. apply walk_inj; assumption. Qed.

Lemma wk_hits c : c < P1 -> exists k, k < P1 /\ wk k = c.
Proof. intros Hc. apply hits_target; assumption. Qed.

Lemma skip_char : forall fuel t,
  exists t', t <= t' <= t + N.of_nat fuel /\ enc_skip fuel a1 P P1 (wk t) = wk t' /\
    (forall j, t <= j < t' -> P <= wk j) /\ (wk t' < P \/ t' = t + N.of_nat fuel).
Proof.
  induction fuel as [|f IH]; intros t; cbn [enc_skip].
  - exists t. split; [lia|]. split; [reflexivity|]. split; [intros j Hj; lia | right; lia].
  - destruct (N.leb_spec P (wk t)) as [Hge|Hlt].
    + rewrite wk_succ. destruct (IH (t + 1)) as [t' [R [E [Hall Hend]]]].
      exists t'. split; [lia|]. split; [exact E|]. split.
      * intros j Hj. destruct (N.eq_dec j t) as [->|Hne]; [exact Hge | apply Hall; lia].
      * destruct Hend as [Hend|Hend]; [left; exact Hend | right; lia].
    + exists t. split; [lia|]. split; [reflexivity|]. split; [intros j Hj; lia | left; exact Hlt].
Qed.

(* with fuel P1 the skip always ends on a value < P *)
Lemma skip_total t :
  exists t', t <= t' /\ enc_skip (N.to_nat P1) a1 P P1 (wk t) = wk t' /\
    (forall j, t <= j < t' -> P <= wk j) /\ wk t' < P.
Proof.
  destruct (skip_char (N.to_nat P1) t) as [t' [R [E [Hall Hend]]]].
  exists t'. split; [lia|]. split; [exact E|]. split; [exact Hall|].
  destruct Hend as [Hend|Hend]; [exact Hend|]. exfalso.
  destruct (prime_hits_zero P1 a1 (wk t) HP1 Ha1 (wk_lt t)) as [k [Hk Hz]].
  rewrite wk_add in Hz. pose proof (Hall (t + k) ltac:(lia)) as Hc. lia.
Qed.

(* the d1 <= 3 PI values are pairwise distinct *)
Lemma pi_two t0 t1 :
  2 <= P -> t0 < t1 -> (forall j, j < t1 -> j <> t0 -> P <= wk j) -> t1 < P1.
Proof.
  intros HP2 H01 Hall. destruct (N.lt_ge_cases t1 P1) as [?|Hge]; [assumption|]. exfalso.
  destruct (wk_hits 0 ltac:(lia)) as [o0 [Ho0 E0]].
  destruct (wk_hits 1 ltac:(lia)) as [o1 [Ho1 E1]].
  assert (A0 : o0 = t0).
  { destruct (N.eq_dec o0 t0); [assumption|]. pose proof (Hall o0 ltac:(lia) ltac:(assumption)). lia. }
  assert (A1 : o1 = t0).
  { destruct (N.eq_dec o1 t0); [assumption|]. pose proof (Hall o1 ltac:(lia) ltac:(assumption)). lia. }
  subst. rewrite E0 in E1. discriminate.
Qed.

Lemma pi_three t0 t1 t2 :
  3 <= P -> t0 < t1 -> t1 < t2 -> (forall j, j < t2 -> j <> t0 -> j <> t1 -> P <= wk j) -> t2 < P1.
Proof.
  intros HP3 H01 H12 Hall. destruct (N.lt_ge_cases t2 P1) as [?|Hge]; [assumption|]. exfalso.
  destruct (wk_hits 0 ltac:(lia)) as [o0 [Ho0 E0]].
  destruct (wk_hits 1 ltac:(lia)) as [o1 [Ho1 E1]].
  destruct (wk_hits 2 ltac:(lia)) as [o2 [Ho2 E2]].
  assert (A : forall o c, o < P1 -> wk o = c -> c < 3 -> o = t0 \/ o = t1).
  { intros o c Ho E Hc. destruct (N.eq_dec o t0); [left; assumption|].
    destruct (N.eq_dec o t1); [right; assumption|].
    pose proof (Hall o ltac:(lia) ltac:(assumption) ltac:(assumption)). lia. }
  destruct (A o0 0 Ho0 E0 ltac:(lia)) as [A0|A0];
  destruct (A o1 1 Ho1 E1 ltac:(lia)) as [A1|A1];
  destruct (A o2 2 Ho2 E2 ltac:(lia)) as [A2|A2]; subst; congruence.
Qed.

Lemma enc_pi_nodup n : 3 <= P -> (n = 1 \/ n = 2)%nat ->
  let fuel := N.to_nat P1 in
  let b1' := enc_skip fuel a1 P P1 b1 in
  let l := (W + b1') :: enc_pi fuel n a1 W P P1 b1' in
  NoDup l /\ Forall (fun x => W <= x < W + P) l.
Proof.
  intros HP3 Hn. cbv zeta.
  destruct (skip_total 0) as [t0 [_ [E0 [Hall0 Hlt0]]]]. rewrite wk_0 in E0. rewrite E0.
  destruct (skip_total (t0 + 1)) as [t1 [R1 [E1 [Hall1 Hlt1]]]].
  destruct (skip_total (t1 + 1)) as [t2 [R2 [E2 [Hall2 Hlt2]]]].
  assert (B1 : t1 < P1).
  { apply (pi_two t0 t1); [lia | lia |]. intros j Hj Hne.
    destruct (N.lt_ge_cases j t0); [apply Hall0; lia | apply Hall1; lia]. }
  destruct Hn as [->| ->]; cbn [enc_pi]; cbv zeta.
  - rewrite wk_succ, E1. split.
    + constructor; [|constructor; [intros [] | constructor]].
      intros [E|[]]. apply (wk_inj t0 t1); lia.
    + repeat constructor; lia.
  - rewrite wk_succ, E1, wk_succ, E2.
    assert (B2 : t2 < P1).
    { apply (pi_three t0 t1 t2); [lia | lia | lia |]. intros j Hj Hne0 Hne1.
      destruct (N.lt_ge_cases j t0); [apply Hall0; lia|].
      destruct (N.lt_ge_cases j t1); [apply Hall1; lia | apply Hall2; lia]. }
    split.
    + constructor; [|constructor; [|constructor; [intros [] | constructor]]].
      * intros [E|[E|[]]]; [apply (wk_inj t0 t1); lia | apply (wk_inj t0 t2); lia].
      * intros [E|[]]. apply (wk_inj t1 t2); lia.
    + repeat constructor; lia.
Qed.

End PI.
