(* C01 at the block level: the intermediate symbols solve the encoding system (a), every G_ENC row
   means Enc over its index list (b, Proofs/RowSem.v), source symbols are re-encoded exactly (c),
   the true intermediate symbols solve every system the decoder can build from the encoder's
   packets (d), hence the decoder's answer is None or the block (e), and it is the block once all
   source symbols are there (f).

   Explicit hypotheses about Model/CMatrix.v (discharged elsewhere):
     MatWF    the generated matrices are well formed (byte entries, rows of length L);
     RowsOK   LDPC / HDPC rows do not depend on the ISI list, G_ENC row of ISI x = enc_row x;
     GenTotal (no-panic statements only) the generators do not panic on in-range ISI lists. *)
From Coq Require Import NArith List Bool Lia Arith.
From RQ Require Import Base.Outcome Base.Ints Base.ListX Gen.Consts Gen.SysTables Spec.Linear Spec.Layout Spec.Tuple
  Model.Octet Model.FieldFast Model.SysConst Model.Tuple Model.CMatrix Model.Layout Model.Slab
  Model.Encoder Model.Decoder
  Proofs.LinearProofs Proofs.LinearInst Proofs.SysConstProofs Proofs.C15Sweep1 Proofs.C15Proofs
  Proofs.LayoutLists Proofs.LayoutProofs
  Proofs.OutcomeLemmas Proofs.RowParams Proofs.EncoderProofs Proofs.EncIdxNoDup Proofs.RowSem.
Import ListNotations.
Open Scope N_scope.

(* ---- the hypotheses about the constraint matrix generators ---- *)

Definition isis_ok (isis : list N) : Prop := Forall (fun x => x < 2 ^ 32) isis.

Definition MatWF (m : mode) (K : N) : Prop :=
  forall sp, sys_params K = Ok sp ->
  (forall isis bin hd, isis_ok isis -> generate_constraint_matrix m K isis = Ok (bin, hd) ->
     wf_mat (N.to_nat (spL sp)) (full_matrix (spS sp) (spH sp) bin hd)) /\
  (forall isis bin, isis_ok isis -> generate_constraint_matrix_no_hdpc m K isis = Ok bin ->
     wf_mat (N.to_nat (spL sp)) bin).

Definition rows_spec (m : mode) (K : N) (sp : sysparams) (ldpc hdpc : list (list N)) : Prop :=
  length ldpc = N.to_nat (spS sp) /\ length hdpc = N.to_nat (spH sp) /\
  (forall isis bin hd, isis_ok isis -> generate_constraint_matrix m K isis = Ok (bin, hd) ->
     hd = hdpc /\
     exists rows, omapM (enc_row m sp) isis = Ok rows /\
       bin = ldpc ++ repeat (repeat 0 (N.to_nat (spL sp))) (N.to_nat (spH sp)) ++ rows) /\
  (forall isis bin, isis_ok isis -> generate_constraint_matrix_no_hdpc m K isis = Ok bin ->
     exists rows, omapM (enc_row m sp) isis = Ok rows /\ bin = ldpc ++ rows).

Definition RowsOK (m : mode) (K : N) : Prop :=
  forall sp, sys_params K = Ok sp -> exists ldpc hdpc, rows_spec m K sp ldpc hdpc.

Definition GenTotal (m : mode) (K : N) : Prop :=
  forall sp, sys_params K = Ok sp -> forall isis, isis_ok isis ->
  (spL sp <= spS sp + spH sp + lenN isis ->
     exists bin hd, generate_constraint_matrix m K isis = Ok (bin, hd)) /\
  (spL sp <= spS sp + lenN isis ->
     exists bin, generate_constraint_matrix_no_hdpc m K isis = Ok bin).

(* ---- lists ---- *)

Lemma firstn_app_len {A} (l1 l2 : list A) : firstn (length l1) (l1 ++ l2) = l1.
Proof. induction l1 as [|a l1 IH]; cbn; [destruct l2; reflexivity|]. rewrite IH. reflexivity. Qed.

Lemma skipn_app_len {A} (l1 l2 : list A) : skipn (length l1) (l1 ++ l2) = l2.
Proof. induction l1 as [|a l1 IH]; cbn; [reflexivity | exact IH]. Qed.

Lemma full_matrix_shape Sn Hn (ldpc Z rows hdpc : list (list N)) :
  length ldpc = N.to_nat Sn -> length Z = N.to_nat Hn ->
  full_matrix Sn Hn (ldpc ++ Z ++ rows) hdpc = ldpc ++ hdpc ++ rows.
Proof.
  intros H1 H2. unfold full_matrix. rewrite <- H1, firstn_app_len. f_equal. f_equal.
  rewrite app_assoc. replace (N.to_nat (Sn + Hn)) with (length (ldpc ++ Z)) by (rewrite app_length; lia).
  apply skipn_app_len.
Qed.

Lemma Forall2_app_split {A B} (R : A -> B -> Prop) l1 : forall l2 r1 r2,
  length l1 = length r1 -> Forall2 R (l1 ++ l2) (r1 ++ r2) -> Forall2 R l1 r1 /\ Forall2 R l2 r2.
Proof.
  induction l1 as [|a l1 IH]; intros l2 [|b r1] r2 E F; cbn [length] in E; try discriminate.
  - split; [constructor | exact F].
  - cbn [app] in F. inversion F; subst. destruct (IH l2 r1 r2) as [F1 F2]; [lia | assumption|].
    split; [constructor; assumption | exact F2].
Qed.

Lemma nth_repeat' {A} (x d : A) n k : (k < n)%nat -> nth k (repeat x n) d = x.
Proof. revert k; induction n as [|n IH]; intros [|k] H; cbn; try lia; auto. apply IH. lia. Qed.

Lemma wf_mat_app n A B : wf_mat n (A ++ B) <-> wf_mat n A /\ wf_mat n B.
Proof. unfold wf_mat. apply Forall_app. Qed.

Lemma wf_mat_repeat_zero T n : wf_mat T (repeat (repeat 0 T) n).
Proof.
  unfold wf_mat. apply Forall_forall. intros r Hr. apply repeat_spec in Hr. subst r.
  split; [apply repeat_length | apply wf_vec_vzero].
Qed.

Lemma solves_zero_rows T A C n : length A = n -> wf_mat T C ->
  (solves fmul T A C (repeat (repeat 0 T) n) <-> Forall (fun r => lincomb fmul T r C = vzero T) A).
Proof.
  intros <- HC. unfold solves. induction A as [|r A IH]; cbn [length repeat].
  - split; constructor.
  - split; intros F; inversion F; subst; constructor; try assumption; apply IH; assumption.
Qed.

Fixpoint count_some {A} (l : list (option A)) : nat :=
  match l with
  | [] => O
  | Some _ :: t => S (count_some t)
  | None :: t => count_some t
  end.

Lemma count_some_le {A} (l : list (option A)) : (count_some l <= length l)%nat.
Proof. induction l as [|[a|] t IH]; cbn; lia. Qed.

Lemma count_some_full {A} (l : list (option A)) : count_some l = length l ->
  forall i, (i < length l)%nat -> nth i l None <> None.
Proof.
  induction l as [|[a|] t IH]; cbn [count_some length]; intros E i Hi; [lia | |].
  - destruct i as [|i]; cbn [nth]; [discriminate | apply IH; lia].
  - pose proof (count_some_le t). lia.
Qed.

Lemma count_some_all {A} (l : list (option A)) :
  (forall i, (i < length l)%nat -> nth i l None <> None) -> count_some l = length l.
Proof.
  induction l as [|[a|] t IH]; cbn [count_some length]; intros Hall; [reflexivity | |].
  - f_equal. apply IH. intros i Hi. apply (Hall (S i)). lia.
  - exfalso. apply (Hall O); [lia | reflexivity].
Qed.

Lemma count_some_upd {A} (l : list (option A)) i (v : A) : (i < length l)%nat ->
  nth i l None = None -> count_some (upd_nth i (Some v) l) = S (count_some l).
Proof.
  revert i; induction l as [|[a|] t IH]; intros [|i] Hi Hn; cbn [length nth upd_nth count_some] in *;
    try lia; try discriminate; try reflexivity.
  - f_equal. apply IH; [lia | exact Hn].
  - apply IH; [lia | exact Hn].
Qed.

Lemma list_put_ok {A} (l : list A) : forall i v, (i < length l)%nat ->
  list_put l i v = Ok (upd_nth i v l).
Proof.
  induction l as [|x t IH]; intros [|i] v Hi; cbn [length] in Hi; try lia; cbn [list_put upd_nth].
  - reflexivity.
  - rewrite IH by lia. reflexivity.
Qed.

Lemma nth_upd_nth_eq {A} i (x d : A) l : (i < length l)%nat -> nth i (upd_nth i x l) d = x.
Proof. revert i; induction l as [|h t IH]; intros [|i] H; cbn in *; try lia; auto. apply IH. lia. Qed.

Lemma mem_N_In x l : mem_N x l = true <-> In x l.
Proof.
  unfold mem_N. rewrite existsb_exists. split.
  - intros [y [Hy E]]. apply N.eqb_eq in E. subst y. exact Hy.
  - intros Hin. exists x. split; [exact Hin | apply N.eqb_refl].
Qed.

Lemma check_len_all T (l : list (N * list N)) r :
  omapM (fun x => check_len T (snd x)) l = Ok r ->
  r = map snd l /\ Forall (fun x => length (snd x) = T) l.
Proof.
  intros E. apply omapM_Forall2 in E. induction E as [|x y l r Hxy F IH].
  - split; [reflexivity | constructor].
  - unfold check_len in Hxy. destruct (Nat.eqb (length (snd x)) T) eqn:El; [|discriminate Hxy].
    injection Hxy as <-. apply Nat.eqb_eq in El. destruct IH as [-> IH2].
    split; [reflexivity | constructor; assumption].
Qed.

Lemma check_len_ok T (l : list (N * list N)) : Forall (fun x => length (snd x) = T) l ->
  omapM (fun x => check_len T (snd x)) l = Ok (map snd l).
Proof.
  induction 1 as [|x l Hx F IH]; cbn [omapM map]; [reflexivity|].
  unfold check_len at 1. apply Nat.eqb_eq in Hx. rewrite Hx, IH. reflexivity.
Qed.

Lemma Forall2_compose {A B X} (R1 : X -> A -> Prop) (R2 : X -> B -> Prop) (Q : A -> B -> Prop) xs :
  (forall x a b, R1 x a -> R2 x b -> Q a b) ->
  forall l r, Forall2 R1 xs l -> Forall2 R2 xs r -> Forall2 Q l r.
Proof.
  intros HQ. induction xs as [|x xs IH]; intros l r F1 F2; inversion F1; inversion F2; subst;
    constructor; eauto.
Qed.

(* ------------------------------------------------------------------------------------------ *)
Section Block.
Variables (m : mode) (c : cfg) (id K K' J S H W P1 : N).
Hypothesis PO : params_of K K' J S H W P1.
Let sp := the_sp K' J S H W P1.
Let T := N.to_nat (cT c).
Let L := N.to_nat (K' + S + H).
Variables (syms C ldpc hdpc : list (list N)).
Hypothesis Hsyms_len : lenN syms = K.
Hypothesis Hsyms_wf : wf_mat T syms.
Hypothesis HWF : MatWF m K.
Hypothesis HRS : rows_spec m K sp ldpc hdpc.
Hypothesis HCgen : gen_intermediate_symbols m syms T = Ok C.

Let zsym := repeat 0 T.
Let pads := repeat zsym (N.to_nat K' - length syms).

Lemma HKK : K <= K'. Proof. exact (po_le _ _ _ _ _ _ _ PO). Qed.

Lemma Hldpc_len : length ldpc = N.to_nat S. Proof. exact (proj1 HRS). Qed.
Lemma Hhdpc_len : length hdpc = N.to_nat H. Proof. exact (proj1 (proj2 HRS)). Qed.

Lemma K'_lt : K' + 16777216 < 2 ^ 32.
Proof. exact (po_K'_lt _ _ _ _ _ _ _ PO). Qed.

(* (a) the encoder's intermediate symbols solve A.C = D *)
Lemma enc_solves :
  exists rows, omapM (enc_row m sp) (rangeN (N.to_nat K')) = Ok rows /\
    solves fmul T (ldpc ++ hdpc ++ rows) C (create_d sp syms T) /\
    wf_mat L (ldpc ++ hdpc ++ rows) /\ length C = L /\ wf_mat T C.
Proof.
  pose proof HKK as HKK. pose proof Hldpc_len as Hl1. pose proof Hhdpc_len as Hl2.
  pose proof HCgen as E. unfold gen_intermediate_symbols in E. rewrite Hsyms_len in E.
  rewrite (po_sys_params _ _ _ _ _ _ _ PO) in E. cbn [obind] in E. fold sp in E.
  oinv E. destruct a as [bin hd].
  destruct (gauss_solve fmul finv T (N.to_nat (spL sp)) (full_matrix (spS sp) (spH sp) bin hd)
              (create_d sp syms T)) as [C0|] eqn:EG; [|discriminate E]. injection E as ->.
  assert (HIS : isis_ok (rangeN (N.to_nat (spK sp)))).
  { apply Forall_forall. intros x Hx. apply rangeN_in in Hx. rewrite N2Nat.id in Hx.
    change (spK sp) with K' in Hx. pose proof K'_lt. lia. }
  destruct HRS as [_ [_ [R1 _]]]. destruct (R1 _ _ _ HIS E0) as [-> [rows [ER ->]]].
  destruct (HWF sp (po_sys_params _ _ _ _ _ _ _ PO)) as [W1 _]. pose proof (W1 _ _ _ HIS E0) as WA.
  unfold sp, the_sp in EG, WA, Hl1, Hl2. cbn [spS spH spL spK] in EG, WA, Hl1, Hl2. fold sp in EG, WA.
  rewrite full_matrix_shape in EG, WA by (try assumption; apply repeat_length).
  fold L in EG, WA. change (spK sp) with K' in ER. exists rows. split; [exact ER|].
  pose proof (omapM_length _ _ _ ER) as Hrl. rewrite rangeN_length in Hrl.
  assert (HlenA : length (ldpc ++ hdpc ++ rows) = L) by (rewrite !app_length; unfold L; lia).
  assert (Hsl : length syms = N.to_nat K) by (unfold lenN in Hsyms_len; lia).
  assert (HlenD : length (create_d sp syms T) = L).
  { unfold create_d, sp, the_sp. cbn [spS spH spK]. rewrite !app_length, !repeat_length. unfold L. lia. }
  assert (HwfD : wf_mat T (create_d sp syms T)).
  { unfold create_d. apply wf_mat_app. split; [apply wf_mat_repeat_zero|].
    apply wf_mat_app. split; [exact Hsyms_wf | apply wf_mat_repeat_zero]. }
  destruct (gauss_solve_exists_gf T L _ _ _ EG HlenA HlenD WA HwfD) as [G1 [G2 G3]].
  repeat split; assumption.
Qed.

(* the consequences used below, row by row *)
Definition dsym (x : N) : list N := nth (N.to_nat x) (syms ++ pads) [].

Lemma enc_facts :
  length C = L /\ wf_mat T C /\
  Forall (fun r => lincomb fmul T r C = vzero T) ldpc /\
  Forall (fun r => lincomb fmul T r C = vzero T) hdpc /\
  wf_mat L ldpc /\ wf_mat L hdpc /\
  (forall x r, x < K' -> enc_row m sp x = Ok r -> lincomb fmul T r C = dsym x).
Proof.
  pose proof HKK as HKK. pose proof Hldpc_len as Hl1. pose proof Hhdpc_len as Hl2.
  destruct enc_solves as [rows [ER [SV [WA [HL HC]]]]].
  assert (Hsl : length syms = N.to_nat K) by (unfold lenN in Hsyms_len; lia).
  unfold create_d, sp, the_sp in SV. cbn [spS spH spK] in SV.
  rewrite N2Nat.inj_add, repeat_app, <- app_assoc in SV.
  apply Forall2_app_split in SV; [|rewrite repeat_length; exact Hl1]. destruct SV as [S1 SV].
  apply Forall2_app_split in SV; [|rewrite repeat_length; exact Hl2]. destruct SV as [S2 S3].
  apply wf_mat_app in WA. destruct WA as [WA1 WA]. apply wf_mat_app in WA. destruct WA as [WA2 WA3].
  split; [exact HL|]. split; [exact HC|].
  split; [apply (solves_zero_rows T ldpc C (N.to_nat S) Hl1 HC); exact S1|].
  split; [apply (solves_zero_rows T hdpc C (N.to_nat H) Hl2 HC); exact S2|].
  split; [exact WA1|]. split; [exact WA2|].
  intros x r Hx Er. apply omapM_Forall2 in ER.
  pose proof (Forall2_nth_N _ _ _ 0 [] (N.to_nat x) ER) as X. rewrite rangeN_length in X.
  specialize (X ltac:(lia)). rewrite rangeN_nth, N2Nat.id in X by lia. rewrite Er in X.
  injection X as X.
  pose proof (Forall2_length' _ _ _ ER) as Hrl. rewrite rangeN_length in Hrl.
  pose proof (Forall2_nth_N _ _ _ [] [] (N.to_nat x) S3 ltac:(lia)) as Y. cbv beta in Y.
  rewrite <- X in Y. exact Y.
Qed.

Lemma dsym_src x : x < K -> dsym x = nth (N.to_nat x) syms [].
Proof. intros Hx. unfold dsym. apply app_nth1. unfold lenN in Hsyms_len. lia. Qed.

Lemma dsym_pad x : K <= x < K' -> dsym x = zsym.
Proof.
  intros Hx. unfold dsym. assert (Hsl : length syms = N.to_nat K) by (unfold lenN in Hsyms_len; lia).
  rewrite app_nth2 by lia. unfold pads. apply nth_repeat'. lia.
Qed.

Lemma HCL : lenN C = K' + S + H.
Proof. destruct enc_facts as [HL _]. unfold lenN. rewrite HL. unfold L. lia. Qed.

Lemma HCwf : wf_mat T C. Proof. exact (proj1 (proj2 enc_facts)). Qed.

(* (c) re-encoding ISI i < K gives back source symbol i; padding ISIs give zero *)
Lemma rebuild_ok i : i < K ->
  rebuild_source_symbol m sp C i = Ok (nth (N.to_nat i) syms []).
Proof.
  intros Hi. pose proof HKK as HKK. pose proof K'_lt as HK32.
  destruct (enc_row_ok m K K' J S H W P1 PO i ltac:(lia)) as [r Er]. fold sp in Er.
  pose proof (rebuild_is_row m K K' J S H W P1 PO T C HCwf HCL i r ltac:(lia) Er) as RB. fold sp in RB.
  rewrite RB.
  destruct enc_facts as [_ [_ [_ [_ [_ [_ F]]]]]]. rewrite (F i r ltac:(lia) Er). rewrite dsym_src by exact Hi.
  reflexivity.
Qed.

Lemma rebuild_pad i : K <= i < K' -> rebuild_source_symbol m sp C i = Ok zsym.
Proof.
  intros Hi. pose proof K'_lt as HK32.
  destruct (enc_row_ok m K K' J S H W P1 PO i ltac:(lia)) as [r Er]. fold sp in Er.
  pose proof (rebuild_is_row m K K' J S H W P1 PO T C HCwf HCL i r ltac:(lia) Er) as RB. fold sp in RB.
  rewrite RB.
  destruct enc_facts as [_ [_ [_ [_ [_ [_ F]]]]]]. rewrite (F i r ltac:(lia) Er). rewrite dsym_pad by exact Hi.
  reflexivity.
Qed.


(* ---- the decoder ---- *)

Variable block : list N.
Hypothesis Hblock : block_from_all_source c K syms = Ok block.
Hypothesis HTpos : 0 < cT c.

(* the right-hand side that belongs to ISI x *)
Definition rhs_ok (x : N) (dd : list N) : Prop :=
  forall r, enc_row m sp x = Ok r -> lincomb fmul T r C = dd.

(* a repair payload for ESI esi *)
Definition rep_ok (esi : N) (payload : list N) : Prop :=
  K <= esi < 16777216 /\ rhs_ok (esi + (K' - K)) payload /\ length payload = T.

(* a packet of this block as the encoder makes it *)
Definition block_packet (p : packet) : Prop :=
  fst (fst p) = id /\
  ((snd (fst p) < K /\ snd p = nth (N.to_nat (snd (fst p))) syms []) \/
   rep_ok (snd (fst p)) (snd p)).

Record sbd_inv (d : sb_decoder) : Prop := {
  inv_id : sbd_id d = id;
  inv_cfg : sbd_cfg d = c;
  inv_K : sbd_K d = K;
  inv_src : Forall2 (fun o s => o = None \/ o = Some s) (sbd_src d) syms;
  inv_rep : Forall (fun r => rep_ok (fst r) (snd r)) (sbd_rep d);
  inv_nsrc : sbd_nsrc d = N.of_nat (count_some (sbd_src d));
  inv_esis : forall i, i < K ->
             (In i (sbd_esis d) <-> nth (N.to_nat i) (sbd_src d) None <> None);
  inv_cnt : lenN (sbd_esis d) = sbd_nsrc d + lenN (sbd_rep d)
}.

Ltac inv_field I d :=
  first [ exact (inv_id d I) | exact (inv_cfg d I) | exact (inv_K d I) | exact (inv_src d I)
        | exact (inv_rep d I) | exact (inv_nsrc d I) | exact (inv_esis d I) | exact (inv_cnt d I) ].

Lemma Hsl : length syms = N.to_nat K.
Proof. unfold lenN in Hsyms_len. lia. Qed.

Lemma inv_src_len d : sbd_inv d -> length (sbd_src d) = N.to_nat K.
Proof. intros I. rewrite (Forall2_length' _ _ _ (inv_src d I)). exact Hsl. Qed.

Lemma Forall2_repeat_None (l : list (list N)) :
  Forall2 (fun (o : option (list N)) s => o = None \/ o = Some s) (repeat None (length l)) l.
Proof. induction l; cbn; constructor; auto. Qed.

Lemma count_some_repeat_None {A} n : count_some (repeat (@None A) n) = O.
Proof. induction n; cbn; auto. Qed.

Lemma sbd_new_ok : exists d0, sbd_new id c (K * cT c) = Ok d0 /\ sbd_inv d0.
Proof.
  pose proof (po_Kmax _ _ _ _ _ _ _ PO) as HK. assert (P32 : 56403 < 2 ^ 32) by reflexivity.
  unfold sbd_new. rewrite (LayoutProofs.int_div_ceil_mul K (cT c) HTpos) by lia. cbn [obind].
  eexists. split; [reflexivity|]. constructor; cbn [sbd_id sbd_cfg sbd_K sbd_src sbd_rep sbd_nsrc sbd_esis];
    try reflexivity.
  - rewrite <- Hsl. apply Forall2_repeat_None.
  - constructor.
  - rewrite count_some_repeat_None. reflexivity.
  - intros i Hi. split; [intros [] |]. intros X. exfalso. apply X.
    apply nth_repeat'. lia.
Qed.

Lemma sbd_add_ok d p : sbd_inv d -> block_packet p ->
  exists d', sbd_add m d p = Ok d' /\ sbd_inv d'.
Proof.
  intros I BP. destruct p as [[sbn esi] payload]. destruct BP as [Hid BP]. cbn [fst snd] in Hid, BP.
  pose proof (inv_src_len d I) as Hlen. pose proof (po_Kmax _ _ _ _ _ _ _ PO) as HK.
  unfold sbd_add. rewrite (inv_id d I), Hid, N.eqb_refl. cbn [assert_ok obind].
  destruct (mem_N esi (sbd_esis d)) eqn:Emem; [exists d; split; [reflexivity | exact I]|].
  rewrite (inv_K d I).
  assert (Hnin : ~ In esi (sbd_esis d)) by (intros X; apply mem_N_In in X; congruence).
  destruct (N.leb_spec K esi) as [Hge|Hlt].
  - destruct BP as [[Hc _]|RO]; [lia|].
    eexists. split; [reflexivity|].
    constructor; cbn [sbd_id sbd_cfg sbd_K sbd_src sbd_rep sbd_nsrc sbd_esis]; try inv_field I d; try reflexivity.
    + apply Forall_app. split; [exact (inv_rep d I) | constructor; [exact RO | constructor]].
    + intros i Hi. rewrite <- (inv_esis d I i Hi). split; [intros [X|X]; [lia | exact X] | intros X; right; exact X].
    + pose proof (inv_cnt d I) as Hc. unfold lenN in *. rewrite app_length. cbn [length]. lia.
  - destruct BP as [[_ Hpay]|[Hc _]]; [|lia].
    rewrite list_put_ok by lia. cbn [obind].
    assert (Hnone : nth (N.to_nat esi) (sbd_src d) None = None).
    { destruct (nth (N.to_nat esi) (sbd_src d) None) eqn:En; [|reflexivity]. exfalso. apply Hnin.
      apply (inv_esis d I esi Hlt). rewrite En. discriminate. }
    assert (Hns : sbd_nsrc d <= K).
    { rewrite (inv_nsrc d I). pose proof (count_some_le (sbd_src d)). lia. }
    assert (P32 : 56403 + 1 < 2 ^ 32) by reflexivity.
    rewrite add_w_small' by lia. cbn [obind]. eexists. split; [reflexivity|].
    constructor; cbn [sbd_id sbd_cfg sbd_K sbd_src sbd_rep sbd_nsrc sbd_esis]; try inv_field I d; try reflexivity.
    + rewrite <- (upd_nth_same (N.to_nat esi) (nth (N.to_nat esi) syms []) syms)
        by (apply nth_error_nth'; rewrite Hsl; lia).
      apply Forall2_upd_nth; [exact (inv_src d I) | right; rewrite Hpay; reflexivity].
    + rewrite count_some_upd by (try exact Hnone; lia). rewrite (inv_nsrc d I). lia.
    + intros i Hi. destruct (N.eq_dec i esi) as [->|Hne].
      * rewrite nth_upd_nth_eq by lia. split; [intros _; discriminate | intros _; left; reflexivity].
      * rewrite nth_upd_nth_ne by (intros X; apply N2Nat.inj in X; congruence).
        rewrite <- (inv_esis d I i Hi). split; [intros [X|X]; [congruence | exact X] | intros X; right; exact X].
    + pose proof (inv_cnt d I) as Hc. unfold lenN in *. cbn [length]. lia.
Qed.

Lemma sbd_add_all_ok pkts : forall d, sbd_inv d -> Forall block_packet pkts ->
  exists d', ofold (fun p d => sbd_add m d p) pkts d = Ok d' /\ sbd_inv d'.
Proof.
  induction pkts as [|p pkts IH]; intros d I F; cbn [ofold]; [eauto|].
  destruct (sbd_add_ok d p I (Forall_inv F)) as [d1 [E1 I1]].
  rewrite E1. cbn [obind]. apply IH; [exact I1 | exact (Forall_inv_tail F)].
Qed.

(* the received source symbols *)
Lemma present_sources_spec src : forall syms' i0,
  Forall2 (fun (o : option (list N)) s => o = None \/ o = Some s) src syms' ->
  Forall (fun ix => i0 <= fst ix < i0 + lenN syms' /\
                    snd ix = nth (N.to_nat (fst ix - i0)) syms' [])
    (flat_map (fun ix : N * option (list N) =>
                 match snd ix with Some s => [(fst ix, s)] | None => [] end)
              (enumerate_from i0 src)).
Proof.
  intros syms' i0 F. revert i0. induction F as [|o s src st Hos Ft IH]; intros i0;
    cbn [enumerate_from flat_map]; [constructor|].
  assert (Hl : lenN (s :: st) = 1 + lenN st) by (unfold lenN; cbn [length]; lia).
  assert (Tail : Forall (fun ix : N * list N => i0 <= fst ix < i0 + lenN (s :: st) /\
                   snd ix = nth (N.to_nat (fst ix - i0)) (s :: st) [])
            (flat_map (fun ix : N * option (list N) =>
                 match snd ix with Some s => [(fst ix, s)] | None => [] end)
              (enumerate_from (i0 + 1) src))).
  { eapply Forall_impl; [|apply (IH (i0 + 1))]. cbv beta. intros ix [H1 H2]. split; [lia|].
    rewrite H2. replace (N.to_nat (fst ix - i0)) with (Datatypes.S (N.to_nat (fst ix - (i0 + 1)))) by lia.
    reflexivity. }
  cbn [snd fst]. destruct o as [s0|]; cbn [app]; [|exact Tail].
  constructor; [|exact Tail]. cbn [fst snd]. split; [lia|].
  destruct Hos as [X|X]; [discriminate|]. injection X as ->.
  replace (N.to_nat (i0 - i0)) with O by lia. reflexivity.
Qed.

Lemma present_ok d : sbd_inv d ->
  Forall (fun ix => fst ix < K /\ snd ix = nth (N.to_nat (fst ix)) syms []) (present_sources d).
Proof.
  intros I. unfold present_sources.
  eapply Forall_impl; [|apply (present_sources_spec _ syms 0 (inv_src d I))]. cbv beta.
  intros ix [H1 H2]. rewrite Hsyms_len in H1. split; [lia|]. rewrite H2. f_equal. lia.
Qed.

(* (d) the true intermediate symbols satisfy every G_ENC equation the decoder writes down *)
Definition dec_isis (d : sb_decoder) : list N :=
  map fst (present_sources d) ++ map (fun i => K + i) (rangeN (N.to_nat (K' - K)))
  ++ map (fun r => fst r + (K' - K)) (sbd_rep d).

Definition dec_body (d : sb_decoder) : list (list N) :=
  map snd (present_sources d) ++ repeat zsym (N.to_nat (K' - K)) ++ map snd (sbd_rep d).

Lemma Forall2_map_both {A B X} (R : A -> B -> Prop) (f : X -> A) (g : X -> B) l :
  Forall (fun x => R (f x) (g x)) l -> Forall2 R (map f l) (map g l).
Proof. induction 1; cbn; constructor; auto. Qed.

Lemma dec_rhs d : sbd_inv d -> Forall2 rhs_ok (dec_isis d) (dec_body d).
Proof.
  intros I. pose proof HKK as HKK. destruct enc_facts as [_ [_ [_ [_ [_ [_ F]]]]]].
  unfold dec_isis, dec_body. apply Forall2_app; [|apply Forall2_app].
  - apply Forall2_map_both. eapply Forall_impl; [|apply (present_ok d I)]. cbv beta.
    intros ix [H1 H2] r Er. rewrite (F (fst ix) r ltac:(lia) Er), dsym_src by exact H1. symmetry. exact H2.
  - rewrite (LayoutLists.repeat_as_map zsym). unfold rangeN. rewrite map_map.
    apply Forall2_map_both. apply Forall_forall. intros k Hk. apply in_seq in Hk.
    intros r Er. rewrite (F (K + N.of_nat k) r ltac:(lia) Er). apply dsym_pad. lia.
  - apply Forall2_map_both. eapply Forall_impl; [|apply (inv_rep d I)]. cbv beta.
    intros rp [_ [H2 _]]. exact H2.
Qed.

Lemma dec_isis_range d : sbd_inv d -> isis_ok (dec_isis d).
Proof.
  intros I. unfold isis_ok. pose proof HKK as HKK. pose proof K'_lt as HK32.
  unfold dec_isis. apply Forall_app. split; [|apply Forall_app; split].
  - apply Forall_forall. intros x Hx. apply in_map_iff in Hx. destruct Hx as [ix [<- Hin]].
    pose proof (present_ok d I) as PR. rewrite Forall_forall in PR. destruct (PR _ Hin). lia.
  - apply Forall_forall. intros x Hx. apply in_map_iff in Hx. destruct Hx as [k [<- Hin]].
    apply rangeN_in in Hin. lia.
  - apply Forall_forall. intros x Hx. apply in_map_iff in Hx. destruct Hx as [rp [<- Hin]].
    pose proof (inv_rep d I) as PR. rewrite Forall_forall in PR. destruct (PR _ Hin) as [H1 _]. lia.
Qed.

Lemma rows_solve d rows : sbd_inv d -> omapM (enc_row m sp) (dec_isis d) = Ok rows ->
  solves fmul T rows C (dec_body d).
Proof.
  intros I ER. apply omapM_Forall2 in ER. pose proof (dec_rhs d I) as RH. unfold solves.
  apply (Forall2_compose (fun x r => enc_row m sp x = Ok r) rhs_ok _ (dec_isis d)); [|exact ER | exact RH].
  intros x r dd Hxr Hrhs. exact (Hrhs r Hxr).
Qed.

Lemma solves_app A1 A2 D1 D2 : solves fmul T A1 C D1 -> solves fmul T A2 C D2 ->
  solves fmul T (A1 ++ A2) C (D1 ++ D2).
Proof. apply Forall2_app. Qed.

(* the system of Case 3b and the one of Case 3a *)
Lemma dec_system_3b d rows : sbd_inv d -> omapM (enc_row m sp) (dec_isis d) = Ok rows ->
  solves fmul T (ldpc ++ hdpc ++ rows) C (repeat zsym (N.to_nat (S + H)) ++ dec_body d).
Proof.
  intros I ER. destruct enc_facts as [_ [HC [F1 [F2 _]]]].
  rewrite N2Nat.inj_add, repeat_app, <- app_assoc. apply solves_app; [|apply solves_app].
  - apply (solves_zero_rows T ldpc C (N.to_nat S) Hldpc_len HC). exact F1.
  - apply (solves_zero_rows T hdpc C (N.to_nat H) Hhdpc_len HC). exact F2.
  - apply rows_solve; assumption.
Qed.

Lemma dec_system_3a d rows : sbd_inv d -> omapM (enc_row m sp) (dec_isis d) = Ok rows ->
  solves fmul T (ldpc ++ rows) C (repeat zsym (N.to_nat S) ++ dec_body d).
Proof.
  intros I ER. destruct enc_facts as [_ [HC [F1 _]]]. apply solves_app.
  - apply (solves_zero_rows T ldpc C (N.to_nat S) Hldpc_len HC). exact F1.
  - apply rows_solve; assumption.
Qed.

(* the tail of the decode: received symbols as they are, missing ones re-encoded *)
Lemma finish_fold src : forall syms' i0 acc,
  Forall2 (fun (o : option (list N)) s => o = None \/ o = Some s) src syms' ->
  (forall k s, nth_error syms' k = Some s ->
     rebuild_source_symbol m sp C (i0 + N.of_nat k) = Ok s) ->
  ofold (fun (ix : N * option (list N)) result =>
           match snd ix with
           | Some s => unpack_sub_blocks c K result s (fst ix)
           | None => obind (rebuild_source_symbol m sp C (fst ix))
                       (fun s => unpack_sub_blocks c K result s (fst ix))
           end) (enumerate_from i0 src) acc
  = unpack_all c K (enumerate_from i0 syms') acc.
Proof.
  intros syms' i0 acc F. revert i0 acc. induction F as [|o s src st Hos Ft IH]; intros i0 acc RB;
    cbn [enumerate_from ofold unpack_all]; [reflexivity|]. cbn [fst snd].
  assert (Step : match o with
                 | Some s0 => unpack_sub_blocks c K acc s0 i0
                 | None => obind (rebuild_source_symbol m sp C i0)
                             (fun s0 => unpack_sub_blocks c K acc s0 i0)
                 end = unpack_sub_blocks c K acc s i0).
  { destruct Hos as [->| ->]; [|reflexivity].
    pose proof (RB O s eq_refl) as R0. rewrite N.add_0_r in R0. rewrite R0. reflexivity. }
  rewrite Step. destruct (unpack_sub_blocks c K acc s i0); cbn [obind]; [|reflexivity].
  apply IH. intros k s1 Hk. replace (i0 + 1 + N.of_nat k) with (i0 + N.of_nat (Datatypes.S k)) by lia.
  apply RB. exact Hk.
Qed.

Lemma finish_ok d : sbd_inv d -> sbd_finish m d sp C = Ok block.
Proof.
  intros I. unfold sbd_finish. rewrite (inv_cfg d I), (inv_K d I). cbv zeta.
  rewrite (finish_fold (sbd_src d) syms 0 _ (inv_src d I)).
  - exact Hblock.
  - intros k s Hk. rewrite N.add_0_l.
    assert (Hkl : (k < length syms)%nat) by (apply nth_error_Some; congruence).
    rewrite rebuild_ok by (rewrite Hsl in Hkl; lia). rewrite Nat2N.id.
    f_equal. apply (nth_error_nth syms k []) in Hk. exact Hk.
Qed.

Lemma unwrap_all src : forall syms' l,
  Forall2 (fun (o : option (list N)) s => o = None \/ o = Some s) src syms' ->
  omapM (fun o : option (list N) => match o with Some s => Ok s | None => Panic PUnwrap end) src = Ok l ->
  l = syms'.
Proof.
  intros syms' l F. revert l. induction F as [|o s src st Hos Ft IH]; intros l E; cbn [omapM] in E.
  - injection E as <-. reflexivity.
  - destruct o as [s0|]; [|discriminate E].
    destruct (omapM _ src) as [r|] eqn:Er; [|discriminate E]. injection E as <-.
    destruct Hos as [X|X]; [discriminate|]. injection X as ->. f_equal. apply (IH r eq_refl).
Qed.

Lemma unwrap_ok src : forall syms',
  Forall2 (fun (o : option (list N)) s => o = None \/ o = Some s) src syms' ->
  (forall i, (i < length src)%nat -> nth i src None <> None) ->
  omapM (fun o : option (list N) => match o with Some s => Ok s | None => Panic PUnwrap end) src = Ok syms'.
Proof.
  intros syms' F. induction F as [|o s src st Hos Ft IH]; intros Hall; cbn [omapM]; [reflexivity|].
  destruct o as [s0|]; [|exfalso; apply (Hall O); [cbn; lia | reflexivity]].
  destruct Hos as [X|X]; [discriminate|]. injection X as ->.
  rewrite IH; [reflexivity|]. intros i Hi. apply (Hall (Datatypes.S i)). cbn [length]. lia.
Qed.

Lemma set_decoded_inv d b : sbd_inv d ->
  sbd_inv (mkSBD (sbd_id d) c K (sbd_src d) (sbd_rep d) (sbd_nsrc d) (sbd_esis d) b).
Proof.
  intros I. constructor; cbn [sbd_id sbd_cfg sbd_K sbd_src sbd_rep sbd_nsrc sbd_esis]; try inv_field I d; reflexivity.
Qed.

(* the decision part under the invariant, as a function of the three possible solver runs *)
Lemma try_isis d : sbd_inv d ->
  map fst (present_sources d) ++ map (fun i => K + i) (rangeN (N.to_nat (K' - K)))
  ++ map (fun r => fst r + (K' - K)) (sbd_rep d) = dec_isis d.
Proof. reflexivity. Qed.

(* (e) one call of the decision part: None or the block *)
Lemma sbd_try_sound d r d' : sbd_inv d -> sbd_try m d = Ok (r, d') ->
  (r = None \/ r = Some block) /\ sbd_inv d'.
Proof.
  intros I E. unfold sbd_try in E. cbv zeta in E.
  rewrite (inv_cfg d I), (inv_K d I), (po_ext _ _ _ _ _ _ _ PO) in E. cbn [obind] in E.
  destruct (lenN (sbd_esis d) <? K); [injection E as <- <-; auto|].
  destruct (sbd_nsrc d =? K).
  - (* Case 2 *)
    oinv E. oinv E. injection E as <- <-. apply (unwrap_all _ _ _ (inv_src d I)) in E0. subst a.
    rewrite Hblock in E1. injection E1 as <-. split; [auto | apply set_decoded_inv; exact I].
  - (* Case 3 *)
    rewrite (po_sys_params _ _ _ _ _ _ _ PO) in E. cbn [obind] in E. fold sp in E.
    oinv E. oinv E. apply check_len_all in E0, E1. destruct E0 as [-> _]. destruct E1 as [-> _].
    change (spS sp) with S in E. change (spH sp) with H in E. change (spL sp) with (K' + S + H) in E.
    fold T in E. fold zsym in E. fold (dec_isis d) in E. fold (dec_body d) in E.
    destruct (HWF sp (po_sys_params _ _ _ _ _ _ _ PO)) as [WF1 WF2].
    destruct HRS as [_ [_ [RS1 RS2]]].
    destruct enc_facts as [HCL' [HCw [_ [_ [Wl [Wh _]]]]]].
    oinv E. destruct a as [rr|].
    + (* 3a succeeded *)
      injection E as <- <-. split; [|apply set_decoded_inv; exact I]. right. f_equal.
      destruct (K' + S + H <=? S + lenN (dec_isis d)); [|discriminate E0].
      oinv E0. rename a into A.
      destruct (gauss_solve fmul finv T (N.to_nat (K' + S + H)) A
                  (repeat zsym (N.to_nat S) ++ dec_body d)) as [C0|] eqn:EG; [|discriminate E0].
      oinv E0. injection E0 as <-.
      destruct (RS2 _ _ (dec_isis_range d I) E) as [rows [ER ->]]. pose proof (WF2 _ _ (dec_isis_range d I) E) as WA.
      change (spL sp) with (K' + S + H) in WA.
      pose proof (dec_system_3a d rows I ER) as SV.
      pose proof (gauss_solve_correct_gf T _ _ _ _ EG WA C HCw HCL' SV) as EC. subst C0.
      rewrite (finish_ok d I) in E1. injection E1 as <-. reflexivity.
    + (* 3b *)
      clear E0. oinv E. destruct a as [bin hd].
      destruct (RS1 _ _ _ (dec_isis_range d I) E0) as [-> [rows [ER ->]]]. pose proof (WF1 _ _ _ (dec_isis_range d I) E0) as WA.
      change (spL sp) with (K' + S + H) in WA. change (spS sp) with S in WA. change (spH sp) with H in WA.
      change (spL sp) with (K' + S + H) in E. change (spH sp) with H in E.
      rewrite full_matrix_shape in E, WA by (try apply repeat_length; exact Hldpc_len).
      destruct (gauss_solve fmul finv T (N.to_nat (K' + S + H)) (ldpc ++ hdpc ++ rows)
                  (repeat zsym (N.to_nat (S + H)) ++ dec_body d)) as [C0|] eqn:EG.
      * oinv E. injection E as <- <-. split; [|apply set_decoded_inv; exact I]. right. f_equal.
        pose proof (dec_system_3b d rows I ER) as SV.
        pose proof (gauss_solve_correct_gf T _ _ _ _ EG WA C HCw HCL' SV) as EC. subst C0.
        rewrite (finish_ok d I) in E1. injection E1 as <-. reflexivity.
      * injection E as <- <-. split; [auto | apply set_decoded_inv; exact I].
Qed.

(* (f) all K source symbols present: Case 2 answers the block *)
Lemma sbd_try_complete d : sbd_inv d ->
  (forall i, i < K -> nth (N.to_nat i) (sbd_src d) None <> None) ->
  sbd_try m d = Ok (Some block, mkSBD (sbd_id d) c K (sbd_src d) (sbd_rep d) (sbd_nsrc d) (sbd_esis d) true).
Proof.
  intros I Hall. pose proof (inv_src_len d I) as Hlen.
  assert (Hall' : forall i, (i < length (sbd_src d))%nat -> nth i (sbd_src d) None <> None).
  { intros i Hi. rewrite <- (Nat2N.id i). apply Hall. lia. }
  assert (Hcnt : sbd_nsrc d = K).
  { rewrite (inv_nsrc d I), (count_some_all _ Hall'). lia. }
  assert (Hes : K <= lenN (sbd_esis d)).
  { assert (Hincl : incl (rangeN (N.to_nat K)) (sbd_esis d)).
    { intros i Hi. apply rangeN_in in Hi. rewrite N2Nat.id in Hi.
      apply (inv_esis d I i Hi). apply Hall. exact Hi. }
    pose proof (NoDup_incl_length (rangeN_NoDup _) Hincl) as Hle. rewrite rangeN_length in Hle.
    unfold lenN. lia. }
  unfold sbd_try. cbv zeta.
  rewrite (inv_cfg d I), (inv_K d I), (po_ext _ _ _ _ _ _ _ PO). cbn [obind].
  replace (lenN (sbd_esis d) <? K) with false by (symmetry; apply N.ltb_ge; exact Hes).
  rewrite Hcnt, N.eqb_refl.
  rewrite (unwrap_ok _ _ (inv_src d I) Hall'). cbn [obind]. rewrite Hblock. reflexivity.
Qed.

(* one call of decode(packets) *)
Lemma sbd_decode_sound d pkts r d' : sbd_inv d -> Forall block_packet pkts ->
  sbd_decode m d pkts = Ok (r, d') -> (r = None \/ r = Some block) /\ sbd_inv d'.
Proof.
  intros I F E. unfold sbd_decode in E.
  destruct (sbd_add_all_ok pkts d I F) as [d1 [E1 I1]]. rewrite E1 in E. cbn [obind] in E.
  exact (sbd_try_sound d1 r d' I1 E).
Qed.

(* batches of packets fed one decode call after the other *)
Fixpoint run_batches (d : sb_decoder) (bs : list (list packet))
  : outcome (list (option (list N)) * sb_decoder) :=
  match bs with
  | [] => Ok ([], d)
  | b :: t =>
      obind (sbd_decode m d b) (fun rd =>
      obind (run_batches (snd rd) t) (fun rs => Ok (fst rd :: fst rs, snd rs)))
  end.

Lemma run_batches_sound bs : forall d rs d', sbd_inv d -> Forall (Forall block_packet) bs ->
  run_batches d bs = Ok (rs, d') ->
  Forall (fun r => r = None \/ r = Some block) rs /\ sbd_inv d'.
Proof.
  induction bs as [|b t IH]; intros d rs d' I F E; cbn [run_batches] in E.
  - injection E as <- <-. split; [constructor | exact I].
  - oinv E. destruct a as [r d1]. oinv E. destruct a as [rs1 d2]. cbn [fst snd] in *.
    injection E as <- <-.
    destruct (sbd_decode_sound d b r d1 I (Forall_inv F) E0) as [Hr I1].
    destruct (IH d1 rs1 d2 I1 (Forall_inv_tail F) E1) as [Hrs I2].
    split; [constructor; assumption | exact I2].
Qed.

(* the source symbols that have been delivered are present in the state *)
Lemma sbd_add_delivers d p d' : sbd_inv d -> block_packet p -> sbd_add m d p = Ok d' ->
  (forall i, nth i (sbd_src d) None <> None -> nth i (sbd_src d') None <> None) /\
  (snd (fst p) < K -> nth (N.to_nat (snd (fst p))) (sbd_src d') None <> None).
Proof.
  intros I BP E. destruct p as [[sbn esi] payload]. destruct BP as [Hid BP]. cbn [fst snd] in *.
  pose proof (inv_src_len d I) as Hlen.
  unfold sbd_add in E. rewrite (inv_id d I), Hid, N.eqb_refl in E. cbn [assert_ok obind] in E.
  destruct (mem_N esi (sbd_esis d)) eqn:Emem.
  - injection E as <-. split; [auto|]. intros Hlt. apply (inv_esis d I esi Hlt). apply mem_N_In. exact Emem.
  - rewrite (inv_K d I) in E. destruct (N.leb_spec K esi) as [Hge|Hlt].
    + injection E as <-. cbn [sbd_src]. split; [auto | lia].
    + rewrite list_put_ok in E by lia. cbn [obind] in E. oinv E. injection E as <-. cbn [sbd_src].
      split.
      * intros i Hi. destruct (Nat.eq_dec i (N.to_nat esi)) as [->|Hne].
        -- rewrite nth_upd_nth_eq by lia. discriminate.
        -- rewrite nth_upd_nth_ne by congruence. exact Hi.
      * intros _. rewrite nth_upd_nth_eq by lia. discriminate.
Qed.

Lemma sbd_try_src d r d' : sbd_try m d = Ok (r, d') -> sbd_src d' = sbd_src d.
Proof.
  intros E. unfold sbd_try in E. cbv zeta in E. oinv E.
  destruct (lenN (sbd_esis d) <? sbd_K d); [injection E as _ <-; reflexivity|].
  destruct (sbd_nsrc d =? sbd_K d).
  - oinv E. oinv E. injection E as _ <-. reflexivity.
  - oinv E. oinv E. oinv E. oinvas E as [rr|] E3a; [injection E as _ <-; reflexivity|].
    oinvas E as [bin hd] Egen.
    destruct (gauss_solve _ _ _ _ _ _); [oinv E|]; injection E as _ <-; reflexivity.
Qed.

(* ---- no panic, given that the matrix generators do not panic ---- *)

Lemma present_count src : forall i0,
  length (flat_map (fun ix : N * option (list N) =>
                      match snd ix with Some s => [(fst ix, s)] | None => [] end)
                   (enumerate_from i0 src)) = count_some src.
Proof.
  induction src as [|[s|] src IH]; intros i0; cbn [enumerate_from flat_map count_some snd fst app length];
    [reflexivity | rewrite IH; reflexivity | apply IH].
Qed.

Lemma dec_isis_len d : sbd_inv d -> lenN (dec_isis d) = lenN (sbd_esis d) + (K' - K).
Proof.
  intros I. pose proof (inv_cnt d I) as Hc. pose proof (inv_nsrc d I) as Hn. unfold dec_isis, lenN in *.
  rewrite !app_length, !map_length, rangeN_length. unfold present_sources. rewrite present_count. lia.
Qed.

(* ---- delivery of source symbols ---- *)

Definition have (d : sb_decoder) (i : N) : Prop := nth (N.to_nat i) (sbd_src d) None <> None.

Lemma adds_deliver pkts : forall d d', sbd_inv d -> Forall block_packet pkts ->
  ofold (fun p d => sbd_add m d p) pkts d = Ok d' ->
  (forall i, have d i -> have d' i) /\
  (forall p, In p pkts -> snd (fst p) < K -> have d' (snd (fst p))).
Proof.
  induction pkts as [|p pkts IH]; intros d d' I F E; cbn [ofold] in E.
  - injection E as <-. split; [auto | intros p []].
  - destruct (sbd_add_ok d p I (Forall_inv F)) as [d1 [E1 I1]]. rewrite E1 in E. cbn [obind] in E.
    destruct (sbd_add_delivers d p d1 I (Forall_inv F) E1) as [M1 D1].
    destruct (IH d1 d' I1 (Forall_inv_tail F) E) as [M2 D2]. split.
    + intros i Hi. apply M2. apply M1. exact Hi.
    + intros q [<-|Hq] Hlt; [apply M2; apply D1; exact Hlt | apply D2; assumption].
Qed.

Lemma decode_deliver d b r d' : sbd_inv d -> Forall block_packet b ->
  sbd_decode m d b = Ok (r, d') ->
  (forall i, have d i -> have d' i) /\
  (forall p, In p b -> snd (fst p) < K -> have d' (snd (fst p))).
Proof.
  intros I F E. unfold sbd_decode in E. oinvas E as d1 E1.
  destruct (adds_deliver b d d1 I F E1) as [M D]. unfold have. rewrite (sbd_try_src d1 r d' E).
  split; assumption.
Qed.

Lemma run_deliver bs : forall d rs d', sbd_inv d -> Forall (Forall block_packet) bs ->
  run_batches d bs = Ok (rs, d') ->
  (forall i, have d i -> have d' i) /\
  (forall p, In p (concat bs) -> snd (fst p) < K -> have d' (snd (fst p))).
Proof.
  induction bs as [|b t IH]; intros d rs d' I F E; cbn [run_batches] in E.
  - injection E as _ <-. split; [auto | intros p []].
  - oinvas E as [r d1] E1. oinvas E as [rs1 d2] E2. cbn [fst snd] in *. injection E as _ <-.
    destruct (decode_deliver d b r d1 I (Forall_inv F) E1) as [M1 D1].
    destruct (sbd_decode_sound d b r d1 I (Forall_inv F) E1) as [_ I1].
    destruct (IH d1 rs1 d2 I1 (Forall_inv_tail F) E2) as [M2 D2]. split.
    + intros i Hi. apply M2. apply M1. exact Hi.
    + intros p Hp Hlt. cbn [concat] in Hp. apply in_app_or in Hp. destruct Hp as [Hp|Hp].
      * apply M2. apply D1; assumption.
      * apply D2; assumption.
Qed.

(* (f) once every source symbol has been delivered, decode answers the block *)
Lemma sbd_decode_complete d b : sbd_inv d -> Forall block_packet b ->
  (forall i, i < K -> have d i \/ exists p, In p b /\ snd (fst p) = i) ->
  exists d', sbd_decode m d b = Ok (Some block, d').
Proof.
  intros I F Hall. unfold sbd_decode.
  destruct (sbd_add_all_ok b d I F) as [d1 [E1 I1]]. rewrite E1. cbn [obind].
  destruct (adds_deliver b d d1 I F E1) as [M D].
  rewrite (sbd_try_complete d1 I1); [eauto|].
  intros i Hi. destruct (Hall i Hi) as [Hh|[p [Hp <-]]]; [apply M; exact Hh | apply D; assumption].
Qed.

Lemma sbd_decode_all_have d b r d' : sbd_inv d -> Forall block_packet b ->
  sbd_decode m d b = Ok (r, d') -> (forall i, i < K -> have d' i) -> r = Some block.
Proof.
  intros I F E Hall. unfold sbd_decode in E. oinvas E as d1 E1.
  destruct (sbd_add_all_ok b d I F) as [d1' [E1' I1]]. rewrite E1 in E1'. injection E1' as <-.
  unfold have in Hall. rewrite (sbd_try_src d1 r d' E) in Hall.
  rewrite (sbd_try_complete d1 I1 Hall) in E. injection E as <- _. reflexivity.
Qed.

(* (d) in terms of the generators: whatever matrices the decoder builds from its state, the true
   intermediate symbols solve the system *)
Lemma dec_systems d : sbd_inv d ->
  (forall bin hd, generate_constraint_matrix m K (dec_isis d) = Ok (bin, hd) ->
     solves fmul T (full_matrix S H bin hd) C (repeat zsym (N.to_nat (S + H)) ++ dec_body d) /\
     wf_mat L (full_matrix S H bin hd)) /\
  (forall A, generate_constraint_matrix_no_hdpc m K (dec_isis d) = Ok A ->
     solves fmul T A C (repeat zsym (N.to_nat S) ++ dec_body d) /\ wf_mat L A).
Proof.
  intros I. destruct (HWF sp (po_sys_params _ _ _ _ _ _ _ PO)) as [WF1 WF2].
  destruct HRS as [_ [_ [RS1 RS2]]]. split.
  - intros bin hd EG. destruct (RS1 _ _ _ (dec_isis_range d I) EG) as [-> [rows [ER ->]]].
    pose proof (WF1 _ _ _ (dec_isis_range d I) EG) as WA.
    change (spL sp) with (K' + S + H) in WA |- *. change (spS sp) with S in WA. change (spH sp) with H in WA |- *.
    rewrite full_matrix_shape in WA |- * by (try apply repeat_length; exact Hldpc_len).
    split; [apply dec_system_3b; assumption | exact WA].
  - intros A EA. destruct (RS2 _ _ (dec_isis_range d I) EA) as [rows [ER ->]].
    pose proof (WF2 _ _ (dec_isis_range d I) EA) as WA. change (spL sp) with (K' + S + H) in WA.
    split; [apply dec_system_3a; assumption | exact WA].
Qed.

Hypothesis HGT : GenTotal m K.

Lemma sbd_try_total d : sbd_inv d -> exists r d', sbd_try m d = Ok (r, d').
Proof.
  intros I. pose proof HKK as HKK.
  unfold sbd_try. cbv zeta.
  rewrite (inv_cfg d I), (inv_K d I), (po_ext _ _ _ _ _ _ _ PO). cbn [obind].
  destruct (N.ltb_spec (lenN (sbd_esis d)) K) as [Hlt|Hge]; [eauto|].
  destruct (N.eqb_spec (sbd_nsrc d) K) as [Heq|Hne].
  - (* Case 2 *)
    pose proof (inv_src_len d I) as Hlen.
    assert (Hall' : forall i, (i < length (sbd_src d))%nat -> nth i (sbd_src d) None <> None).
    { apply count_some_full. pose proof (inv_nsrc d I). lia. }
    rewrite (unwrap_ok _ _ (inv_src d I) Hall'). cbn [obind]. rewrite Hblock. cbn [obind]. eauto.
  - rewrite (po_sys_params _ _ _ _ _ _ _ PO). cbn [obind]. fold sp.
    rewrite check_len_ok.
    2:{ eapply Forall_impl; [|apply (present_ok d I)]. cbv beta. intros ix [H1 H2]. rewrite H2.
        apply (wf_mat_nth T syms _ Hsyms_wf). rewrite Hsl. lia. }
    cbn [obind]. rewrite check_len_ok.
    2:{ eapply Forall_impl; [|apply (inv_rep d I)]. cbv beta. intros rp [_ [_ H3]]. exact H3. }
    cbn [obind].
    change (spS sp) with S. change (spH sp) with H. change (spL sp) with (K' + S + H).
    fold T. fold zsym. fold (dec_isis d). fold (dec_body d).
    destruct (HGT sp (po_sys_params _ _ _ _ _ _ _ PO) (dec_isis d) (dec_isis_range d I)) as [G1 G2].
    change (spS sp) with S in G1, G2. change (spH sp) with H in G1. change (spL sp) with (K' + S + H) in G1, G2.
    destruct (HWF sp (po_sys_params _ _ _ _ _ _ _ PO)) as [WF1 WF2].
    destruct HRS as [_ [_ [RS1 RS2]]].
    destruct enc_facts as [HCL' [HCw _]].
    assert (R3b : exists r d',
      obind (generate_constraint_matrix m K (dec_isis d)) (fun x : list (list N) * list (list N) =>
        let (bin, hd) := x in
        match gauss_solve fmul finv T (N.to_nat (K' + S + H)) (full_matrix S H bin hd)
                (repeat zsym (N.to_nat (S + H)) ++ dec_body d) with
        | Some C0 => obind (sbd_finish m d sp C0) (fun r =>
            Ok (Some r, mkSBD (sbd_id d) c K (sbd_src d) (sbd_rep d) (sbd_nsrc d) (sbd_esis d) true))
        | None => Ok (None, mkSBD (sbd_id d) c K (sbd_src d) (sbd_rep d) (sbd_nsrc d) (sbd_esis d) false)
        end) = Ok (r, d')).
    { destruct G1 as [bin [hd EG]]; [rewrite (dec_isis_len d I); lia|]. rewrite EG. cbn [obind].
      destruct (RS1 _ _ _ (dec_isis_range d I) EG) as [-> [rows [ER ->]]]. pose proof (WF1 _ _ _ (dec_isis_range d I) EG) as WA.
      change (spL sp) with (K' + S + H) in WA |- *. change (spS sp) with S in WA. change (spH sp) with H in WA |- *.
      rewrite full_matrix_shape in WA |- * by (try apply repeat_length; exact Hldpc_len).
      destruct (gauss_solve fmul finv T (N.to_nat (K' + S + H)) (ldpc ++ hdpc ++ rows)
                  (repeat zsym (N.to_nat (S + H)) ++ dec_body d)) as [C0|] eqn:EGS; [|eauto].
      pose proof (dec_system_3b d rows I ER) as SV.
      pose proof (gauss_solve_correct_gf T _ _ _ _ EGS WA C HCw HCL' SV) as EC. subst C0.
      rewrite (finish_ok d I). cbn [obind]. eauto. }
    destruct (N.leb_spec (K' + S + H) (S + lenN (dec_isis d))) as [Hle|Hgt]; cbn [obind]; [|exact R3b].
    destruct (G2 Hle) as [A EA]. rewrite EA. cbn [obind].
    destruct (RS2 _ _ (dec_isis_range d I) EA) as [rows [ER ->]]. pose proof (WF2 _ _ (dec_isis_range d I) EA) as WA.
    change (spL sp) with (K' + S + H) in WA.
    destruct (gauss_solve fmul finv T (N.to_nat (K' + S + H)) (ldpc ++ rows)
                (repeat zsym (N.to_nat S) ++ dec_body d)) as [C0|] eqn:EGS; cbn [obind]; [|exact R3b].
    pose proof (dec_system_3a d rows I ER) as SV.
    pose proof (gauss_solve_correct_gf T _ _ _ _ EGS WA C HCw HCL' SV) as EC. subst C0.
    rewrite (finish_ok d I). cbn [obind]. eauto.
Qed.

Lemma sbd_decode_total d pkts : sbd_inv d -> Forall block_packet pkts ->
  exists r d', sbd_decode m d pkts = Ok (r, d').
Proof.
  intros I F. unfold sbd_decode. destruct (sbd_add_all_ok pkts d I F) as [d1 [E1 I1]].
  rewrite E1. cbn [obind]. apply sbd_try_total. exact I1.
Qed.

Lemma run_batches_total bs : forall d, sbd_inv d -> Forall (Forall block_packet) bs ->
  exists rs d', run_batches d bs = Ok (rs, d').
Proof.
  induction bs as [|b t IH]; intros d I F; cbn [run_batches]; [eauto|].
  destruct (sbd_decode_total d b I (Forall_inv F)) as [r [d1 E1]]. rewrite E1. cbn [obind snd fst].
  destruct (sbd_decode_sound d b r d1 I (Forall_inv F) E1) as [_ I1].
  destruct (IH d1 I1 (Forall_inv_tail F)) as [rs [d2 E2]]. rewrite E2. cbn [obind]. eauto.
Qed.

End Block.
