(* C15 sweep 3: for every row, A is invertible modulo 2^32, and the unique X < 2^32 with
   y(X) = t, for t in {2^32 - 1, 2^32 - 2}, is either not an internal symbol ID reachable from a
   24-bit ESI (X >= 2^24 + K') or one of the two known witnesses. *)
From Coq Require Import NArith List Bool Lia.
From RQ Require Import Base.Outcome Base.Ints Base.ListX Gen.Consts Gen.SysTables
  Spec.Tables_RFC Spec.Tuple Model.SysConst Proofs.SysConstProofs.
Import ListNotations.
Open Scope N_scope.

(* inverse of an odd a modulo 2^32 by Newton iteration x <- x * (2 - a*x); only its result is
   used, and it is checked by the sweep (a * inv32 a mod 2^32 = 1), so no correctness proof *)
Definition inv32_step (a x : N) : N := (x * (2 ^ 32 + 2 - (a * x) mod 2 ^ 32)) mod 2 ^ 32.
Definition inv32 (a : N) : N :=
  inv32_step a (inv32_step a (inv32_step a (inv32_step a (inv32_step a a)))).

(* the only X < 2^32 with (B + X*A) mod 2^32 = t *)
Definition solve_y (J t : N) : N :=
  ((t + (2 ^ 32 - Tuple_B J mod 2 ^ 32)) * inv32 (Tuple_A J)) mod 2 ^ 32.

Lemma sweep_inverse_ok :
  forall_rows (fun K' J S H W P1 =>
    ((Tuple_A J * inv32 (Tuple_A J)) mod 2 ^ 32 =? 1) && (K' <=? 56403) &&
    forallb (fun t =>
      let r := solve_y J t in
      (2 ^ 24 + K' <=? r) || ((K' =? 989) && (r =? 3158229)) || ((K' =? 2195) && (r =? 8192877)))
      [2 ^ 32 - 1; 2 ^ 32 - 2]) = true.
Proof. vm_compute. reflexivity. Qed.

(* modular algebra: y(X) = t has the unique solution solve_y *)
Lemma cancel_mod_r u v c M : M <> 0 -> c < M -> (u + c) mod M = (v + c) mod M -> u mod M = v mod M.
Proof.
  intros HM Hc H.
  assert (E : forall w, w mod M = ((w + c) mod M + (M - c)) mod M).
  { intros w. rewrite N.add_mod_idemp_l by exact HM.
    replace (w + c + (M - c)) with (w + 1 * M) by lia. rewrite N.mod_add by exact HM. reflexivity. }
  rewrite (E u), (E v), H. reflexivity.
Qed.

Lemma solve_unique A Ai B t X M : M <> 0 -> X < M -> t < M ->
  (A * Ai) mod M = 1 -> (B + X * A) mod M = t ->
  X = ((t + (M - B mod M)) * Ai) mod M.
Proof.
  intros HM HX Ht HA Hy.
  assert (HBm : B mod M < M) by (apply N.mod_lt; exact HM).
  assert (H1 : (t + (M - B mod M)) mod M = (X * A) mod M).
  { apply (cancel_mod_r _ _ (B mod M) M HM HBm).
    replace (t + (M - B mod M) + B mod M) with (t + 1 * M) by lia.
    rewrite N.mod_add by exact HM. rewrite (N.mod_small t M Ht).
    rewrite N.add_mod_idemp_r by exact HM. rewrite N.add_comm. symmetry. exact Hy. }
  rewrite <- N.mul_mod_idemp_l by exact HM. rewrite H1.
  rewrite N.mul_mod_idemp_l by exact HM. rewrite <- N.mul_assoc.
  rewrite <- N.mul_mod_idemp_r by exact HM. rewrite HA, N.mul_1_r.
  symmetry. apply N.mod_small. exact HX.
Qed.

Lemma only_two_solutions K' J S H W P1 X t :
  In (K', J, S, H, W) TABLE2 -> In (K', P1) P1_TABLE ->
  X < 2 ^ 24 + K' -> Tuple_y J X = t -> (t = 2 ^ 32 - 1 \/ t = 2 ^ 32 - 2) ->
  (K' = 989 /\ X = 3158229) \/ (K' = 2195 /\ X = 8192877).
Proof.
  intros Hr Hp HX Hy Ht. pose proof sweep_inverse_ok as S0.
  pose proof (forall_rows_spec _ S0 K' J S H W P1 Hr Hp) as F. cbv beta in F. clear S0.
  apply andb_true_iff in F. destruct F as [F F2]. apply andb_true_iff in F. destruct F as [F1 FK].
  apply N.eqb_eq in F1. apply N.leb_le in FK.
  rewrite forallb_forall in F2.
  assert (Hin : In t [2 ^ 32 - 1; 2 ^ 32 - 2]) by (cbn [In]; destruct Ht; auto).
  pose proof (F2 t Hin) as F. cbv beta zeta in F.
  assert (HX32 : X < 2 ^ 32)
    by (change (2 ^ 24) with 16777216 in HX; change (2 ^ 32) with 4294967296; lia).
  assert (Ht32 : t < 2 ^ 32) by (change (2 ^ 32) with 4294967296 in *; lia).
  assert (HXs : X = solve_y J t).
  { unfold solve_y.
    apply (solve_unique (Tuple_A J) (inv32 (Tuple_A J)) (Tuple_B J) t X (2 ^ 32));
      [discriminate | exact HX32 | exact Ht32 | exact F1 | exact Hy]. }
  rewrite <- HXs in F.
  apply orb_true_iff in F. destruct F as [F|F].
  - apply orb_true_iff in F. destruct F as [F|F].
    + apply N.leb_le in F. lia.
    + apply andb_true_iff in F. destruct F as [Fa Fb]. apply N.eqb_eq in Fa, Fb. auto.
  - apply andb_true_iff in F. destruct F as [Fa Fb]. apply N.eqb_eq in Fa, Fb. auto.
Qed.
