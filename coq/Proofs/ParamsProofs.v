(* Proofs about Model/Params.v: the repaired parameter derivation computes the RFC 6330 4.3 values of
   Spec/Derive.v on the whole domain D; properties of those values; when the pinned code agrees. *)
From Coq Require Import NArith ZArith List Bool Lia ZifyBool ZifyN.
From RQ Require Import Base.Outcome Base.Ints Base.ListX Gen.SysTables Gen.Consts Spec.Derive Model.Params.
Import ListNotations.
Open Scope N_scope.

Arguments N.add : simpl never.
Arguments N.sub : simpl never.
Arguments N.mul : simpl never.
Arguments N.div : simpl never.
Arguments N.modulo : simpl never.
Arguments N.eqb : simpl never.
Arguments N.ltb : simpl never.
Arguments N.leb : simpl never.
Arguments N.pow : simpl never.

(* ------------------------------------------------------------------------------------------ *)
(* ceil_div                                                                                    *)
(* ------------------------------------------------------------------------------------------ *)

Lemma ceil_div_le_iff a b c : b <> 0 -> (ceil_div a b <= c <-> a <= b * c).
Proof.
  intros Hb. unfold ceil_div.
  pose proof (N.div_mod a b Hb) as E. pose proof (N.mod_lt a b Hb) as L.
  set (q := a / b) in *. set (r := a mod b) in *.
  destruct (r =? 0) eqn:Er.
  - apply N.eqb_eq in Er. rewrite Er, N.add_0_r in E. rewrite E. split; intros H.
    + apply N.mul_le_mono_l. exact H.
    + apply N.mul_le_mono_pos_l in H; [exact H | lia].
  - apply N.eqb_neq in Er. split; intros H.
    + assert (b * (q + 1) <= b * c) as H1 by (apply N.mul_le_mono_l; exact H). lia.
    + destruct (N.le_gt_cases (q + 1) c) as [G|G]; [exact G|].
      assert (c <= q) as G1 by lia.
      assert (b * c <= b * q) as H1 by (apply N.mul_le_mono_l; exact G1). lia.
Qed.

Lemma ceil_div_mul_ge a b : b <> 0 -> a <= b * ceil_div a b.
Proof. intros Hb. apply (ceil_div_le_iff a b (ceil_div a b) Hb). apply N.le_refl. Qed.

Lemma ceil_div_antitone a b b' : b <> 0 -> b <= b' -> ceil_div a b' <= ceil_div a b.
Proof.
  intros Hb Hle. apply ceil_div_le_iff; [lia|].
  pose proof (ceil_div_mul_ge a b Hb) as H.
  assert (b * ceil_div a b <= b' * ceil_div a b) as H1 by (apply N.mul_le_mono_r; exact Hle). lia.
Qed.

Lemma ceil_div_le_num a b : b <> 0 -> ceil_div a b <= a.
Proof.
  intros Hb. apply ceil_div_le_iff; [exact Hb|].
  assert (1 * a <= b * a) as H by (apply N.mul_le_mono_r; lia). lia.
Qed.

Lemma ceil_div_pos a b : b <> 0 -> 1 <= a -> 1 <= ceil_div a b.
Proof.
  intros Hb Ha. destruct (N.le_gt_cases 1 (ceil_div a b)) as [G|G]; [exact G|].
  assert (ceil_div a b <= 0) as G0 by lia.
  apply (ceil_div_le_iff a b 0 Hb) in G0. lia.
Qed.

(* ceil(a / ceil(a/k)) <= k *)
Lemma ceil_div_ceil_div a k : k <> 0 -> 1 <= a -> ceil_div a (ceil_div a k) <= k.
Proof.
  intros Hk Ha. pose proof (ceil_div_pos a k Hk Ha) as Hp.
  apply ceil_div_le_iff; [lia|]. rewrite N.mul_comm. apply ceil_div_mul_ge. exact Hk.
Qed.

(* z >= 1 satisfies ceil(a/z) <= k  iff  z >= ceil(a/k) *)
Lemma ceil_div_galois a k z : k <> 0 -> z <> 0 -> (ceil_div a z <= k <-> ceil_div a k <= z).
Proof.
  intros Hk Hz. rewrite (ceil_div_le_iff a z k Hz), (ceil_div_le_iff a k z Hk), N.mul_comm. tauto.
Qed.

(* ------------------------------------------------------------------------------------------ *)
(* greatest_le and the reverse scan                                                            *)
(* ------------------------------------------------------------------------------------------ *)

Lemma greatest_le_Some b l k :
  greatest_le b l = Some k -> In k l /\ k <= b /\ forall x, In x l -> x <= b -> x <= k.
Proof.
  revert k. induction l as [|a t IH]; intros k H; cbn [greatest_le] in H; unfold pick_le in H; [discriminate|].
  destruct (a <=? b) eqn:Eab.
  - apply N.leb_le in Eab. destruct (greatest_le b t) as [r|] eqn:Er.
    + destruct (IH r eq_refl) as [I1 [I2 I3]]. injection H as H. subst k.
      split; [|split].
      * destruct (N.max_spec a r) as [[_ M]|[_ M]]; rewrite M; [right; exact I1 | left; reflexivity].
      * lia.
      * intros x [Hx|Hx] Hxb; [subst x; lia | specialize (I3 x Hx Hxb); lia].
    + injection H as H. subst k. split; [left; reflexivity | split; [exact Eab|]].
      intros x [Hx|Hx] Hxb; [subst x; lia|].
      exfalso. clear IH. revert x Hx Hxb. induction t as [|c t IHt]; intros x Hx Hxb; [destruct Hx|].
      cbn [greatest_le] in Er. unfold pick_le in Er. destruct (c <=? b) eqn:Ecb.
      * destruct (greatest_le b t); discriminate.
      * apply N.leb_gt in Ecb. destruct Hx as [Hx|Hx]; [subst x; lia | exact (IHt Er x Hx Hxb)].
  - apply N.leb_gt in Eab. destruct (IH k H) as [I1 [I2 I3]].
    split; [right; exact I1 | split; [exact I2|]].
    intros x [Hx|Hx] Hxb; [subst x; lia | exact (I3 x Hx Hxb)].
Qed.

Lemma greatest_le_None b l : greatest_le b l = None -> forall x, In x l -> b < x.
Proof.
  induction l as [|a t IH]; intros H x Hx; [destruct Hx|].
  cbn [greatest_le] in H. unfold pick_le in H. destruct (a <=? b) eqn:Eab.
  - destruct (greatest_le b t); discriminate.
  - apply N.leb_gt in Eab. destruct Hx as [Hx|Hx]; [subst x; exact Eab | exact (IH H x Hx)].
Qed.

Lemma greatest_le_intro b l k :
  In k l -> k <= b -> (forall x, In x l -> x <= b -> x <= k) -> greatest_le b l = Some k.
Proof.
  intros Hin Hkb Hmax. destruct (greatest_le b l) as [r|] eqn:Er.
  - destruct (greatest_le_Some b l r Er) as [I1 [I2 I3]].
    specialize (Hmax r I1 I2). specialize (I3 k Hin Hkb). f_equal. lia.
  - pose proof (greatest_le_None b l Er k Hin). lia.
Qed.

Lemma greatest_le_None_intro b l : (forall x, In x l -> b < x) -> greatest_le b l = None.
Proof.
  intros H. destruct (greatest_le b l) as [r|] eqn:Er; [|reflexivity].
  destruct (greatest_le_Some b l r Er) as [I1 [I2 _]]. specialize (H r I1). lia.
Qed.

(* monotone in the bound *)
Lemma greatest_le_mono b b' l k :
  b <= b' -> greatest_le b l = Some k -> exists k', greatest_le b' l = Some k' /\ k <= k'.
Proof.
  intros Hb H. destruct (greatest_le_Some b l k H) as [I1 [I2 _]].
  destruct (greatest_le b' l) as [r|] eqn:Er.
  - exists r. split; [reflexivity|]. destruct (greatest_le_Some b' l r Er) as [_ [_ J3]].
    apply J3; [exact I1 | lia].
  - pose proof (greatest_le_None b' l Er k I1). lia.
Qed.

(* the scan the code performs: the first element not above the bound *)
Fixpoint first_le (b : N) (l : list N) : option N :=
  match l with [] => None | k :: t => if k <=? b then Some k else first_le b t end.

(* strictly decreasing, as a boolean *)
Fixpoint decb (l : list N) : bool :=
  match l with
  | [] => true
  | a :: t => match t with [] => true | c :: _ => (c <? a) && decb t end
  end.

Lemma decb_tail a t : decb (a :: t) = true -> decb t = true /\ forall x, In x t -> x < a.
Proof.
  revert a. induction t as [|c t IH]; intros a H.
  - split; [reflexivity | intros x []].
  - change (decb (a :: c :: t)) with ((c <? a) && decb (c :: t)) in H.
    apply andb_true_iff in H. destruct H as [H1 H2]. apply N.ltb_lt in H1.
    split; [exact H2|]. destruct (IH c H2) as [_ I].
    intros x [Hx|Hx]; [subst x; exact H1 | specialize (I x Hx); lia].
Qed.

(* on a strictly decreasing list the first hit is the greatest admissible element *)
Lemma first_le_greatest b l l' :
  decb l = true -> (forall x, In x l <-> In x l') -> first_le b l = greatest_le b l'.
Proof.
  intros Hd Hin. symmetry. destruct (first_le b l) as [k|] eqn:Ef.
  - assert (In k l /\ k <= b /\ forall x, In x l -> x <= b -> x <= k) as [I1 [I2 I3]].
    { clear Hin. revert Hd Ef. induction l as [|a t IH]; intros Hd Ef; [discriminate|].
      cbn [first_le] in Ef. destruct (decb_tail a t Hd) as [Hd' Hlt]. destruct (a <=? b) eqn:Eab.
      - injection Ef as Ef. subst a. apply N.leb_le in Eab.
        split; [left; reflexivity | split; [exact Eab|]].
        intros x [Hx|Hx] _; [subst x; lia | specialize (Hlt x Hx); lia].
      - apply N.leb_gt in Eab. destruct (IH Hd' Ef) as [J1 [J2 J3]].
        split; [right; exact J1 | split; [exact J2|]].
        intros x [Hx|Hx] Hxb; [subst x; lia | exact (J3 x Hx Hxb)]. }
    apply greatest_le_intro; [apply Hin; exact I1 | exact I2|].
    intros x Hx. apply I3. apply Hin. exact Hx.
  - apply greatest_le_None_intro. intros x Hx. apply Hin in Hx.
    clear Hin Hd. induction l as [|a t IH]; [destruct Hx|].
    cbn [first_le] in Ef. destruct (a <=? b) eqn:Eab; [discriminate|]. apply N.leb_gt in Eab.
    destruct Hx as [Hx|Hx]; [subst x; exact Eab | exact (IH Ef Hx)].
Qed.

(* ---- the table: checked against the regenerated Gen.SysTables on every build ---- *)

Definition k5 (r : N * N * N * N * N) : N := let '(k, _, _, _, _) := r in k.

Lemma Kprimes_rev_dec : decb (map k5 (rev TABLE2)) = true.
Proof. vm_compute. reflexivity. Qed.

Lemma Kprimes_range_sweep : forallb (fun k => (10 <=? k) && (k <=? 56403)) Kprimes = true.
Proof. vm_compute. reflexivity. Qed.

Lemma Kprimes_has_10 : In 10 Kprimes.
Proof. left. reflexivity. Qed.

Lemma Kprimes_range k : In k Kprimes -> 10 <= k <= 56403.
Proof.
  intros H. pose proof Kprimes_range_sweep as S0. rewrite forallb_forall in S0.
  specialize (S0 k H). cbv beta in S0. apply andb_true_iff in S0. destruct S0 as [S1 S2].
  apply N.leb_le in S1. apply N.leb_le in S2. lia.
Qed.

Lemma rev_rows_in x : In x (map k5 (rev TABLE2)) <-> In x Kprimes.
Proof.
  unfold Kprimes. fold k5. rewrite map_rev. split; intros H; [apply in_rev; exact H | apply in_rev in H; exact H].
Qed.

Lemma scan_is_greatest b : first_le b (map k5 (rev TABLE2)) = greatest_le b Kprimes.
Proof. apply first_le_greatest; [exact Kprimes_rev_dec | exact rev_rows_in]. Qed.

Lemma greatest_le_Kprimes_range b k : greatest_le b Kprimes = Some k -> 10 <= k <= 56403 /\ k <= b.
Proof.
  intros H. destruct (greatest_le_Some b Kprimes k H) as [I1 [I2 _]].
  split; [exact (Kprimes_range k I1) | exact I2].
Qed.

Lemma greatest_le_Kprimes_defined b : 10 <= b -> greatest_le b Kprimes <> None.
Proof.
  intros Hb H. pose proof (greatest_le_None b Kprimes H 10 Kprimes_has_10). lia.
Qed.

Lemma greatest_le_Kprimes_undefined b : b < 10 -> greatest_le b Kprimes = None.
Proof.
  intros Hb. apply greatest_le_None_intro. intros x Hx. pose proof (Kprimes_range x Hx). lia.
Qed.

Definition optv (o : option N) : N := match o with Some k => k | None => 0 end.

(* ------------------------------------------------------------------------------------------ *)
(* the model's building blocks                                                                 *)
(* ------------------------------------------------------------------------------------------ *)

Lemma pow64 : 2 ^ 64 = 18446744073709551616. Proof. reflexivity. Qed.
Lemma pow32 : 2 ^ 32 = 4294967296. Proof. reflexivity. Qed.
Lemma pow16 : 2 ^ 16 = 65536. Proof. reflexivity. Qed.
Lemma pow8 : 2 ^ 8 = 256. Proof. reflexivity. Qed.

Lemma mul_w_ok m w a b : a * b < 2 ^ w -> mul_w m w a b = Ok (a * b).
Proof. intros H. unfold mul_w. apply N.ltb_lt in H. rewrite H. reflexivity. Qed.

Lemma sub_w_ok m w a b : b <= a -> sub_w m w a b = Ok (a - b).
Proof. intros H. unfold sub_w. apply N.leb_le in H. rewrite H. reflexivity. Qed.

Lemma div_ok_ok a b : b <> 0 -> div_ok a b = Ok (a / b).
Proof. intros H. unfold div_ok. apply N.eqb_neq in H. rewrite H. reflexivity. Qed.

Lemma int_div_ceil_zero m a : int_div_ceil m a 0 = Panic PDivZero.
Proof. reflexivity. Qed.

Lemma int_div_ceil_ok m a b : a < 2 ^ 64 -> b <> 0 -> int_div_ceil m a b = Ok (u32 (ceil_div a b)).
Proof.
  intros Ha Hb. unfold int_div_ceil, ceil_div.
  pose proof Hb as Hb'. apply N.eqb_neq in Hb'. rewrite Hb'.
  destruct (a mod b =? 0) eqn:E; [reflexivity|].
  apply N.eqb_neq in E.
  assert (2 <= b) as Hb2.
  { destruct (N.eq_dec b 1) as [->|]; [rewrite N.mod_1_r in E; congruence | lia]. }
  assert (a / b <= a / 2) as H1 by (apply N.div_le_compat_l; lia).
  assert (a / 2 < 2 ^ 63) as H2.
  { apply N.div_lt_upper_bound; [lia|]. change (2 * 2 ^ 63) with (2 ^ 64). exact Ha. }
  unfold add_w. assert (a / b + 1 <? 2 ^ 64 = true) as H3.
  { apply N.ltb_lt. change (2 ^ 64) with (2 ^ 63 + 2 ^ 63). change (2 ^ 63) with 9223372036854775808 in *. lia. }
  rewrite H3. reflexivity.
Qed.

(* the scan, once the loop-invariant computations in its body are known to succeed *)
Lemma kl_scan_pure fixed m T al n WS d x d2 q :
  mul_w m 64 al n = Ok d -> int_div_ceil m T d = Ok x -> mul_w m 64 al x = Ok d2 ->
  div_ok WS d2 = Ok q ->
  forall rows,
    kl_scan fixed m T al n WS rows =
    match first_le (if fixed then q else u32 q) (map k5 rows) with
    | Some k => Ok k
    | None => if fixed then Ok 0 else Panic PUnreachable
    end.
Proof.
  intros Hd Hx Hd2 Hq rows. induction rows as [|r rest IH]; [reflexivity|].
  destruct r as [[[[k j] s] h] w]. cbn [kl_scan map k5 first_le].
  rewrite Hd. cbn [obind]. rewrite Hx. cbn [obind]. rewrite Hd2. cbn [obind]. rewrite Hq. cbn [obind].
  rewrite IH. destruct fixed; destruct (k <=? _); reflexivity.
Qed.

(* the value x = ceil(T / (Al*n)) the closure computes *)
Lemma kl_body_ok m T al n WS :
  1 <= al <= 8 -> 1 <= T < 2 ^ 16 -> 1 <= n < 2 ^ 32 ->
  let x := ceil_div T (al * n) in
  mul_w m 64 al n = Ok (al * n) /\ int_div_ceil m T (al * n) = Ok x /\
  mul_w m 64 al x = Ok (al * x) /\ div_ok WS (al * x) = Ok (WS / (al * x)) /\ 1 <= x <= T.
Proof.
  intros Hal HT Hn x. rewrite pow16 in HT. rewrite pow32 in Hn.
  assert (al * n <> 0) as Hd by (apply N.neq_mul_0; lia).
  assert (al * n <= 8 * n) as Hle by (apply N.mul_le_mono_r; lia).
  assert (1 <= x <= T) as Hx.
  { split; [apply ceil_div_pos; [exact Hd | lia] | apply ceil_div_le_num; exact Hd]. }
  assert (al * x <= 8 * x) as Hle2 by (apply N.mul_le_mono_r; lia).
  split; [apply mul_w_ok; rewrite pow64; lia|].
  split; [rewrite int_div_ceil_ok; [|rewrite pow64; lia | exact Hd];
          fold x; unfold u32; rewrite wrap_small; [reflexivity | rewrite pow32; lia]|].
  split; [apply mul_w_ok; rewrite pow64; lia|].
  split; [apply div_ok_ok; apply N.neq_mul_0; lia | exact Hx].
Qed.

Lemma kl_fixed_ok m T al n WS :
  1 <= al <= 8 -> 1 <= T < 2 ^ 16 -> 1 <= n < 2 ^ 32 ->
  kl true m T al n WS = Ok (optv (greatest_le (WS / (al * ceil_div T (al * n))) Kprimes)).
Proof.
  intros Hal HT Hn. destruct (kl_body_ok m T al n WS Hal HT Hn) as [H1 [H2 [H3 [H4 _]]]].
  unfold kl. rewrite (kl_scan_pure true m T al n WS _ _ _ _ H1 H2 H3 H4).
  rewrite scan_is_greatest. destruct (greatest_le _ Kprimes); reflexivity.
Qed.

Lemma kl_pinned_ok m T al n WS :
  1 <= al <= 8 -> 1 <= T < 2 ^ 16 -> 1 <= n < 2 ^ 32 ->
  kl false m T al n WS =
  match greatest_le (u32 (WS / (al * ceil_div T (al * n)))) Kprimes with
  | Some k => Ok k
  | None => Panic PUnreachable
  end.
Proof.
  intros Hal HT Hn. destruct (kl_body_ok m T al n WS Hal HT Hn) as [H1 [H2 [H3 [H4 _]]]].
  unfold kl. rewrite (kl_scan_pure false m T al n WS _ _ _ _ H1 H2 H3 H4).
  rewrite scan_is_greatest. reflexivity.
Qed.

(* the two versions of the closure agree when the quotient fits u32 and some K' fits *)
Lemma kl_pinned_agrees m T al n WS :
  1 <= al <= 8 -> 1 <= T < 2 ^ 16 -> 1 <= n < 2 ^ 32 ->
  WS / (al * ceil_div T (al * n)) < 2 ^ 32 ->
  greatest_le (WS / (al * ceil_div T (al * n))) Kprimes <> None ->
  kl false m T al n WS = kl true m T al n WS.
Proof.
  intros Hal HT Hn Hq Hdef. rewrite kl_pinned_ok, kl_fixed_ok by assumption.
  unfold u32. rewrite wrap_small by exact Hq.
  destruct (greatest_le _ Kprimes); [reflexivity | congruence].
Qed.

(* the sub-block search against an abstract closure value g *)
Lemma find_seq_least (p : N -> bool) (c s : nat) (y : N) :
  find p (map N.of_nat (seq s c)) = Some y ->
  N.of_nat s <= y < N.of_nat (s + c) /\ p y = true /\
  forall j, N.of_nat s <= j < y -> p j = false.
Proof.
  revert s. induction c as [|c IH]; intros s H; [discriminate|].
  cbn [seq map find] in H. destruct (p (N.of_nat s)) eqn:Ep.
  - injection H as H. subst y. split; [lia | split; [exact Ep | intros j Hj; lia]].
  - destruct (IH (S s) H) as [I1 [I2 I3]]. split; [lia | split; [exact I2|]].
    intros j Hj. destruct (N.eq_dec j (N.of_nat s)) as [->|Hne]; [exact Ep | apply I3; lia].
Qed.

Lemma find_seq_exists (p : N -> bool) (c s : nat) (x : N) :
  N.of_nat s <= x < N.of_nat (s + c) -> p x = true ->
  exists y, find p (map N.of_nat (seq s c)) = Some y.
Proof.
  revert s. induction c as [|c IH]; intros s Hx Hp; [lia|].
  cbn [seq map find]. destruct (p (N.of_nat s)) eqn:Ep; [eexists; reflexivity|].
  apply IH; [|exact Hp]. destruct (N.eq_dec x (N.of_nat s)) as [->|Hne]; [congruence | lia].
Qed.

Lemma nsearch_ok fixed m T al WS kt nsb lhs (g : N -> N) (p : N -> bool) :
  int_div_ceil m kt nsb = Ok lhs ->
  forall c s y n0,
    find p (map N.of_nat (seq s c)) = Some y ->
    (forall j, N.of_nat s <= j <= y -> kl fixed m T al j WS = Ok (g j) /\ p j = (lhs <=? g j)) ->
    nsearch fixed m T al WS kt nsb c (N.of_nat s) n0 = Ok y.
Proof.
  intros Hl. induction c as [|c IH]; intros s y n0 Hf Hk; [discriminate|].
  destruct (find_seq_least p (S c) s y Hf) as [Hr _].
  cbn [nsearch]. rewrite Hl. cbn [obind].
  destruct (Hk (N.of_nat s)) as [Hk1 Hk2]; [lia|]. rewrite Hk1. cbn [obind].
  cbn [seq map find] in Hf. rewrite Hk2 in Hf. destruct (lhs <=? g (N.of_nat s)).
  - injection Hf as Hf. subst y. reflexivity.
  - replace (N.of_nat s + 1) with (N.of_nat (S s)) by lia.
    apply IH; [exact Hf|]. intros j Hj. apply Hk. lia.
Qed.

(* ------------------------------------------------------------------------------------------ *)
(* facts about the Spec values                                                                 *)
(* ------------------------------------------------------------------------------------------ *)

Lemma Al_cases mtu : (64 <= mtu /\ Al_of mtu = 8 /\ SS_of mtu = 8) \/ (mtu < 64 /\ Al_of mtu = 1 /\ SS_of mtu = 1).
Proof.
  unfold Al_of, SS_of. destruct (64 <=? mtu) eqn:E; [apply N.leb_le in E | apply N.leb_gt in E]; auto.
Qed.

Lemma Al_range mtu : 1 <= Al_of mtu <= 8.
Proof. destruct (Al_cases mtu) as [[_ [-> _]]|[_ [-> _]]]; lia. Qed.

Lemma T_model mtu : T_of mtu = mtu - mtu mod Al_of mtu.
Proof.
  unfold T_of. pose proof (Al_range mtu) as Ha.
  pose proof (N.div_mod mtu (Al_of mtu)) as E. rewrite (N.mul_comm (mtu / _)).
  assert (Al_of mtu <> 0) as Hz by lia. specialize (E Hz). pose proof (N.mod_le mtu _ Hz). lia.
Qed.

Lemma T_largest_multiple mtu :
  T_of mtu mod Al_of mtu = 0 /\ T_of mtu <= mtu /\ mtu < T_of mtu + Al_of mtu.
Proof.
  pose proof (Al_range mtu) as Ha. assert (Al_of mtu <> 0) as Hz by lia.
  split; [unfold T_of; apply N.mod_mul; exact Hz|].
  rewrite T_model. pose proof (N.mod_lt mtu _ Hz). pose proof (N.mod_le mtu _ Hz). lia.
Qed.

(* no multiple of Al strictly between T and mtu *)
Lemma T_largest mtu t : t mod Al_of mtu = 0 -> t <= mtu -> t <= T_of mtu.
Proof.
  intros Hm Hle. pose proof (Al_range mtu) as Ha. assert (Al_of mtu <> 0) as Hz by lia.
  apply N.mod_divide in Hm; [|exact Hz]. destruct Hm as [c Hc]. subst t.
  unfold T_of. apply N.mul_le_mono_r. apply N.div_le_lower_bound; [exact Hz|]. lia.
Qed.

Lemma T_pos mtu : Al_of mtu <= mtu -> Al_of mtu <= T_of mtu.
Proof.
  intros H. apply T_largest; [|exact H]. apply N.mod_same. pose proof (Al_range mtu). lia.
Qed.

Lemma Nmax_facts mtu : Al_of mtu <= mtu -> 1 <= Nmax_of mtu <= T_of mtu /\ Nmax_of mtu <= T_of mtu / Al_of mtu.
Proof.
  intros H. pose proof (T_pos mtu H) as HT. pose proof (T_largest_multiple mtu) as [_ [HTle _]].
  unfold Nmax_of. destruct (Al_cases mtu) as [[H64 [Ea Es]]|[H64 [Ea Es]]]; rewrite Es, Ea in *.
  - change (8 * 8) with 64.
    assert (64 <= T_of mtu) as H1.
    { apply (T_largest mtu 64); [rewrite Ea; reflexivity | exact H64]. }
    split; [split|].
    + apply N.div_le_lower_bound; lia.
    + apply N.div_le_upper_bound; lia.
    + apply N.div_le_lower_bound; [lia|].
      pose proof (N.mul_div_le (T_of mtu) 64). lia.
  - change (1 * 1) with 1. rewrite N.div_1_r. lia.
Qed.

Section OnD.
  Variables F mtu WS : N.
  Hypothesis HD : D F mtu WS.

  Local Notation al := (Al_of mtu).
  Local Notation T := (T_of mtu).
  Local Notation Kt := (Kt_of F mtu).
  Local Notation Nmax := (Nmax_of mtu).

  Lemma D_T_pos : 1 <= T.
  Proof. destruct HD as [_ [H _]]. pose proof (T_pos mtu H). pose proof (Al_range mtu). lia. Qed.

  Lemma D_KLmax : exists k, KL mtu WS Nmax = Some k /\ 10 <= k <= 56403.
  Proof.
    destruct HD as [_ [_ [_ [H _]]]].  destruct (KL mtu WS (Nmax_of mtu)) as [k|] eqn:E; [|congruence].
    exists k. split; [reflexivity|]. unfold KL in E. apply greatest_le_Kprimes_range in E. tauto.
  Qed.

  Lemma D_Kt : 1 <= Kt <= 56403 * 255.
  Proof.
    pose proof D_T_pos as HT. destruct HD as [HF [_ [HFle _]]]. unfold Kt_of. split.
    - apply ceil_div_pos; lia.
    - apply ceil_div_le_iff; lia.
  Qed.

  Lemma D_Z : exists k, KL mtu WS Nmax = Some k /\ 10 <= k <= 56403 /\
                        Z_of F mtu WS = ceil_div Kt k /\ 1 <= Z_of F mtu WS <= Kt /\ Z_of F mtu WS <= 255.
  Proof.
    destruct D_KLmax as [k [Ek Hk]]. pose proof D_Kt as HKt. exists k.
    assert (Z_of F mtu WS = ceil_div Kt k) as EZ by (unfold Z_of; rewrite Ek; reflexivity).
    split; [exact Ek | split; [exact Hk | split; [exact EZ|]]]. rewrite EZ. split; [split|].
    - apply ceil_div_pos; lia.
    - apply ceil_div_le_num; lia.
    - rewrite <- EZ. destruct HD as [_ [_ [_ [_ [H _]]]]]. exact H.
  Qed.

  (* n = N_max accepts the object *)
  Lemma D_fits_Nmax : fits F mtu WS Nmax = true.
  Proof.
    destruct D_Z as [k [Ek [Hk [EZ _]]]]. pose proof D_Kt as HKt.
    unfold fits. rewrite Ek, EZ. apply N.leb_le. apply ceil_div_ceil_div; lia.
  Qed.

  Lemma D_N : exists n, N_opt F mtu WS = Some n /\ 1 <= n <= Nmax /\ fits F mtu WS n = true /\
                        forall j, 1 <= j < n -> fits F mtu WS j = false.
  Proof.
    destruct HD as [_ [Hmtu _]]. pose proof (Nmax_facts mtu Hmtu) as [[HN1 _] _].
    unfold N_opt.
    destruct (find_seq_exists (fits F mtu WS) (N.to_nat Nmax) 1 Nmax) as [y Hy]; [lia | exact D_fits_Nmax|].
    exists y. split; [exact Hy|].
    destruct (find_seq_least _ _ _ _ Hy) as [I1 [I2 I3]].
    split; [lia | split; [exact I2|]]. intros j Hj. apply I3. lia.
  Qed.

  Lemma D_N_of : 1 <= N_of F mtu WS <= Nmax /\ fits F mtu WS (N_of F mtu WS) = true /\
                 forall j, 1 <= j < N_of F mtu WS -> fits F mtu WS j = false.
  Proof. destruct D_N as [n [E H]]. unfold N_of. rewrite E. exact H. Qed.
End OnD.

(* KL is monotone in the memory budget and in n *)
Lemma KL_bound_mono_WS mtu WS WS' n : WS <= WS' -> KL_bound mtu WS n <= KL_bound mtu WS' n.
Proof.
  intros H. unfold KL_bound. set (d := Al_of mtu * _).
  destruct (N.eq_dec d 0) as [->|Hd]; [destruct WS, WS'; apply N.le_refl | apply N.div_le_mono; assumption].
Qed.

Lemma KL_bound_mono_n mtu WS n n' :
  Al_of mtu <= mtu -> 1 <= n -> n <= n' -> KL_bound mtu WS n <= KL_bound mtu WS n'.
Proof.
  intros Hm Hn Hle. unfold KL_bound. pose proof (Al_range mtu) as Ha. pose proof (T_pos mtu Hm) as HT.
  assert (Al_of mtu * n <> 0) as Hd by (apply N.neq_mul_0; lia).
  assert (Al_of mtu * n <= Al_of mtu * n') as Hdd by (apply N.mul_le_mono_l; exact Hle).
  pose proof (ceil_div_antitone (T_of mtu) _ _ Hd Hdd) as Hx.
  assert (1 <= ceil_div (T_of mtu) (Al_of mtu * n')) as Hx1 by (apply ceil_div_pos; lia).
  apply N.div_le_compat_l. split.
  - apply N.mul_pos_pos; lia.
  - apply N.mul_le_mono_l. exact Hx.
Qed.

Lemma KL_mono_WS mtu WS WS' n k :
  WS <= WS' -> KL mtu WS n = Some k -> exists k', KL mtu WS' n = Some k' /\ k <= k'.
Proof. intros H. unfold KL. apply greatest_le_mono. apply KL_bound_mono_WS. exact H. Qed.

Lemma KL_mono_n mtu WS n n' k :
  Al_of mtu <= mtu -> 1 <= n -> n <= n' -> KL mtu WS n = Some k ->
  exists k', KL mtu WS n' = Some k' /\ k <= k'.
Proof. intros Hm Hn Hle. unfold KL. apply greatest_le_mono. apply KL_bound_mono_n; assumption. Qed.

(* a larger memory budget never yields more source blocks *)
Lemma Z_monotone F mtu WS WS' :
  D F mtu WS -> D F mtu WS' -> WS <= WS' -> Z_of F mtu WS' <= Z_of F mtu WS.
Proof.
  intros HD HD' Hle.
  destruct (D_Z F mtu WS HD) as [k [Ek [Hk [EZ _]]]].
  destruct (D_Z F mtu WS' HD') as [k' [Ek' [Hk' [EZ' _]]]].
  destruct (KL_mono_WS mtu WS WS' _ k Hle Ek) as [k2 [Ek2 Hk2]].
  rewrite Ek' in Ek2. injection Ek2 as Ek2. subst k2.
  rewrite EZ, EZ'. apply ceil_div_antitone; lia.
Qed.

(* Z is the least block count keeping every block within KL(N_max) *)
Lemma Z_least F mtu WS :
  D F mtu WS ->
  exists k, KL mtu WS (Nmax_of mtu) = Some k /\
    1 <= Z_of F mtu WS /\ ceil_div (Kt_of F mtu) (Z_of F mtu WS) <= k /\
    forall z, 1 <= z -> ceil_div (Kt_of F mtu) z <= k -> Z_of F mtu WS <= z.
Proof.
  intros HD. destruct (D_Z F mtu WS HD) as [k [Ek [Hk [EZ [HZ _]]]]]. pose proof (D_Kt F mtu WS HD) as HKt.
  exists k. split; [exact Ek | split; [lia | split]].
  - rewrite EZ. apply ceil_div_ceil_div; lia.
  - intros z Hz H. rewrite EZ. apply (ceil_div_galois (Kt_of F mtu) k z); [lia | lia | exact H].
Qed.

Lemma result_valid F mtu WS :
  D F mtu WS -> mtu < 2 ^ 16 ->
  F <= 942574504275 /\
  T_of mtu mod Al_of mtu = 0 /\
  ceil_div (ceil_div F (T_of mtu)) (Z_of F mtu WS) <= 56403 /\
  1 <= Z_of F mtu WS <= 255 /\
  Z_of F mtu WS <= ceil_div F (T_of mtu) /\
  1 <= N_of F mtu WS <= T_of mtu / Al_of mtu.
Proof.
  intros HD Hmtu. rewrite pow16 in Hmtu.
  destruct (T_largest_multiple mtu) as [HT1 [HT2 _]].
  destruct (D_Z F mtu WS HD) as [k [Ek [Hk [EZ [HZ HZ255]]]]]. pose proof (D_Kt F mtu WS HD) as HKt.
  destruct (D_N_of F mtu WS HD) as [HN _].
  pose proof HD as [_ [Hal [HF _]]]. destruct (Nmax_facts mtu Hal) as [_ HNm].
  fold (Kt_of F mtu).
  split; [lia | split; [exact HT1 | split; [|split; [lia | split; [lia | lia]]]]].
  rewrite EZ. pose proof (ceil_div_ceil_div (Kt_of F mtu) k). lia.
Qed.

(* ------------------------------------------------------------------------------------------ *)
(* the model computes the Spec values                                                          *)
(* ------------------------------------------------------------------------------------------ *)

Lemma KL_unfold mtu WS n :
  KL mtu WS n = greatest_le (WS / (Al_of mtu * ceil_div (T_of mtu) (Al_of mtu * n))) Kprimes.
Proof. reflexivity. Qed.

Lemma gen_params_on_D fixed m F mtu WS :
  D F mtu WS -> WS < 2 ^ 64 -> mtu < 2 ^ 16 ->
  (forall j, j = Nmax_of mtu \/ 1 <= j <= N_of F mtu WS ->
             kl fixed m (T_of mtu) (Al_of mtu) j WS = Ok (optv (KL mtu WS j))) ->
  gen_params fixed m F mtu WS = Ok (F, T_of mtu, Z_of F mtu WS, N_of F mtu WS, Al_of mtu).
Proof.
  intros HD HWS Hmtu Hkl. rewrite pow16 in Hmtu.
  pose proof (Al_range mtu) as Ha. destruct (T_largest_multiple mtu) as [_ [HT2 _]].
  pose proof (D_T_pos F mtu WS HD) as HT1. pose proof (D_Kt F mtu WS HD) as HKt.
  destruct (D_Z F mtu WS HD) as [k [Ek [Hk [EZ [HZ HZ255]]]]].
  destruct (D_N F mtu WS HD) as [nn [EN [HN [_ _]]]].
  assert (N_of F mtu WS = nn) as ENof by (unfold N_of; rewrite EN; reflexivity).
  pose proof HD as [HF1 [Hal [HF _]]]. destruct (Nmax_facts mtu Hal) as [[HNm1 HNm2] _].
  unfold gen_params. change (8 * 8) with 64.
  assert ((if 64 <=? mtu then (8, 8) else (1, 1)) = (Al_of mtu, SS_of mtu)) as E
    by (unfold Al_of, SS_of; destruct (64 <=? mtu); reflexivity).
  rewrite E. unfold gen_params_body.
  (* assert!(max_packet_size >= alignment) *)
  assert (Al_of mtu <=? mtu = true) as E1 by (apply N.leb_le; exact Hal).
  rewrite E1. cbn [assert_ok obind].
  (* symbol_size *)
  assert (rem_ok mtu (Al_of mtu) = Ok (mtu mod Al_of mtu)) as E2.
  { unfold rem_ok. assert (Al_of mtu =? 0 = false) as -> by (apply N.eqb_neq; lia). reflexivity. }
  rewrite E2. cbn [obind].
  assert (Al_of mtu <> 0) as Hz by lia.
  rewrite (sub_w_ok m 16 mtu _ (N.mod_le mtu _ Hz)). cbn [obind]. rewrite <- T_model.
  (* kt *)
  rewrite (int_div_ceil_ok m F (T_of mtu)); [|rewrite pow64; lia | lia]. cbn [obind].
  fold (Kt_of F mtu).
  assert (u32 (Kt_of F mtu) = Kt_of F mtu) as EuK by (unfold u32; apply wrap_small; rewrite pow32; lia).
  rewrite !EuK.
  (* n_max *)
  assert (SS_of mtu * Al_of mtu = 64 \/ SS_of mtu * Al_of mtu = 1) as Hsa.
  { destruct (Al_cases mtu) as [[_ [-> ->]]|[_ [-> ->]]]; [left | right]; reflexivity. }
  rewrite (mul_w_ok m 16 (SS_of mtu) (Al_of mtu)); [|rewrite pow16; lia]. cbn [obind].
  rewrite (div_ok_ok (T_of mtu) (SS_of mtu * Al_of mtu)); [|lia]. cbn [obind].
  fold (Nmax_of mtu).
  (* kl(n_max), num_source_blocks *)
  rewrite (Hkl (Nmax_of mtu) (or_introl eq_refl)). cbn [obind]. rewrite Ek. cbn [optv].
  rewrite (int_div_ceil_ok m (Kt_of F mtu) k); [|rewrite pow64; lia | lia]. cbn [obind].
  rewrite <- EZ.
  assert (u32 (Z_of F mtu WS) = Z_of F mtu WS) as EuZ by (unfold u32; apply wrap_small; rewrite pow32; lia).
  rewrite !EuZ.
  (* the sub-block search *)
  assert (int_div_ceil m (Kt_of F mtu) (Z_of F mtu WS) = Ok (ceil_div (Kt_of F mtu) (Z_of F mtu WS))) as El.
  { rewrite int_div_ceil_ok; [|rewrite pow64; lia | lia]. unfold u32. rewrite wrap_small; [reflexivity|].
    pose proof (ceil_div_le_num (Kt_of F mtu) (Z_of F mtu WS)). rewrite pow32. lia. }
  assert (1 <= ceil_div (Kt_of F mtu) (Z_of F mtu WS)) as Hl1 by (apply ceil_div_pos; lia).
  change (nsearch fixed m (T_of mtu) (Al_of mtu) WS (Kt_of F mtu) (Z_of F mtu WS) (N.to_nat (Nmax_of mtu)) 1 1)
    with (nsearch fixed m (T_of mtu) (Al_of mtu) WS (Kt_of F mtu) (Z_of F mtu WS) (N.to_nat (Nmax_of mtu)) (N.of_nat 1) 1).
  rewrite (nsearch_ok fixed m (T_of mtu) (Al_of mtu) WS (Kt_of F mtu) (Z_of F mtu WS) _
             (fun j => optv (KL mtu WS j)) (fits F mtu WS) El (N.to_nat (Nmax_of mtu)) 1%nat nn 1 EN).
  - cbn [obind]. rewrite ENof.
    unfold u8, u16. rewrite !wrap_small; [reflexivity | rewrite pow8; lia | rewrite pow16; lia | rewrite pow8; lia].
  - intros j Hj. split.
    + apply Hkl. right. lia.
    + unfold fits. destruct (KL mtu WS j) as [kj|]; cbn [optv]; [reflexivity|].
      symmetry. apply N.leb_gt. lia.
Qed.

Lemma kl_fixed_spec m mtu WS j :
  Al_of mtu <= mtu -> mtu < 2 ^ 16 -> 1 <= j <= Nmax_of mtu ->
  kl true m (T_of mtu) (Al_of mtu) j WS = Ok (optv (KL mtu WS j)).
Proof.
  intros Hal Hmtu Hj. rewrite pow16 in Hmtu. rewrite KL_unfold.
  destruct (T_largest_multiple mtu) as [_ [HT2 _]]. pose proof (T_pos mtu Hal) as HT. pose proof (Al_range mtu) as Ha.
  destruct (Nmax_facts mtu Hal) as [[_ HNm] _].
  apply kl_fixed_ok; [exact Ha | rewrite pow16; lia | rewrite pow32; lia].
Qed.

Theorem matches_rfc F mtu WS :
  D F mtu WS -> WS < 2 ^ 64 -> mtu < 2 ^ 16 ->
  forall m, gen_params true m F mtu WS = Ok (F, T_of mtu, Z_of F mtu WS, N_of F mtu WS, Al_of mtu).
Proof.
  intros HD HWS Hmtu m. apply gen_params_on_D; [exact HD | exact HWS | exact Hmtu|].
  pose proof HD as [_ [Hal _]]. destruct (Nmax_facts mtu Hal) as [[HNm1 _] _].
  destruct (D_N_of F mtu WS HD) as [HN _].
  intros j Hj. apply kl_fixed_spec; [exact Hal | exact Hmtu|]. destruct Hj as [->|Hj]; lia.
Qed.

(* when the two defects of the pinned code do not bite *)
Theorem pinned_agrees_when F mtu WS :
  D F mtu WS -> WS < 2 ^ 64 -> mtu < 2 ^ 16 ->
  (forall n, n = Nmax_of mtu \/ 1 <= n <= N_of F mtu WS ->
             KL_bound mtu WS n < 2 ^ 32 /\ KL mtu WS n <> None) ->
  forall m, gen_params false m F mtu WS = gen_params true m F mtu WS.
Proof.
  intros HD HWS Hmtu Hc m. rewrite (matches_rfc F mtu WS HD HWS Hmtu m).
  apply gen_params_on_D; [exact HD | exact HWS | exact Hmtu|].
  pose proof HD as [_ [Hal _]]. destruct (Nmax_facts mtu Hal) as [[HNm1 HNm2] _].
  destruct (D_N_of F mtu WS HD) as [HN _].
  destruct (T_largest_multiple mtu) as [_ [HT2 _]]. pose proof (T_pos mtu Hal) as HT. pose proof (Al_range mtu) as Ha.
  intros j Hj. destruct (Hc j Hj) as [Hq Hdef].
  assert (1 <= j <= Nmax_of mtu) as Hjr by (destruct Hj as [->|Hj]; lia).
  rewrite <- (kl_fixed_spec m mtu WS j Hal Hmtu Hjr).
  rewrite pow16 in Hmtu.
  apply kl_pinned_agrees; [exact Ha | rewrite pow16; lia | rewrite pow32; lia | exact Hq | exact Hdef].
Qed.

(* a sufficient condition that does not mention the result: KL(1) defined, quotient at N_max fits u32 *)
Corollary pinned_agrees_simple F mtu WS :
  D F mtu WS -> WS < 2 ^ 64 -> mtu < 2 ^ 16 ->
  KL_bound mtu WS (Nmax_of mtu) < 2 ^ 32 -> KL mtu WS 1 <> None ->
  forall m, gen_params false m F mtu WS = gen_params true m F mtu WS.
Proof.
  intros HD HWS Hmtu Hq Hdef. apply pinned_agrees_when; [exact HD | exact HWS | exact Hmtu|].
  pose proof HD as [_ [Hal _]]. destruct (Nmax_facts mtu Hal) as [[HNm1 _] _].
  destruct (D_N_of F mtu WS HD) as [HN _].
  intros n Hn. assert (1 <= n <= Nmax_of mtu) as Hnr by (destruct Hn as [->|Hn]; lia).
  split.
  - pose proof (KL_bound_mono_n mtu WS n (Nmax_of mtu) Hal). lia.
  - destruct (KL mtu WS 1) as [k1|] eqn:E1; [|congruence].
    assert (exists k', KL mtu WS n = Some k' /\ k1 <= k') as [k' [Ek' _]]
      by (apply (KL_mono_n mtu WS 1 n k1 Hal); [lia | lia | exact E1]).
    rewrite Ek'. discriminate.
Qed.

(* the boolean domain test *)
Lemma Db_spec F mtu WS : Db F mtu WS = true <-> D F mtu WS.
Proof.
  unfold Db, D. rewrite !andb_true_iff, !N.leb_le, N.ltb_lt.
  destruct (KL mtu WS (Nmax_of mtu)) as [k|].
  - split.
    + intros [[[[[H1 H2] H3] _] H5] H6].
      split; [exact H1 | split; [exact H2 | split; [exact H3 | split; [discriminate | split; [exact H5 | exact H6]]]]].
    + intros [H1 [H2 [H3 [_ [H5 H6]]]]]. repeat (split; [|assumption]). split; [split; [split|]|]; auto.
  - split.
    + intros [[[_ H4] _] _]. discriminate.
    + intros [_ [_ [_ [H4 _]]]]. congruence.
Qed.

(* `fits` spelled out *)
Lemma fits_true F mtu WS n :
  fits F mtu WS n = true <->
  exists k, KL mtu WS n = Some k /\ ceil_div (Kt_of F mtu) (Z_of F mtu WS) <= k.
Proof.
  unfold fits. destruct (KL mtu WS n) as [k|]; split.
  - intros H. exists k. split; [reflexivity | apply N.leb_le; exact H].
  - intros [k' [E H]]. injection E as E. subst k'. apply N.leb_le. exact H.
  - discriminate.
  - intros [k' [E _]]. discriminate.
Qed.

Lemma fits_false F mtu WS n :
  fits F mtu WS n = false <->
  forall k, KL mtu WS n = Some k -> k < ceil_div (Kt_of F mtu) (Z_of F mtu WS).
Proof.
  unfold fits. destruct (KL mtu WS n) as [k|]; split.
  - intros H k' E. injection E as E. subst k'. apply N.leb_gt. exact H.
  - intros H. apply N.leb_gt. apply H. reflexivity.
  - intros _ k' E. discriminate.
  - reflexivity.
Qed.

Lemma N_exists F mtu WS :
  D F mtu WS -> N_opt F mtu WS = Some (N_of F mtu WS) /\ 1 <= N_of F mtu WS <= Nmax_of mtu.
Proof.
  intros HD. destruct (D_N F mtu WS HD) as [n [E [H _]]]. unfold N_of. rewrite E. split; [reflexivity | exact H].
Qed.

Lemma N_least F mtu WS :
  D F mtu WS ->
  (exists k, KL mtu WS (N_of F mtu WS) = Some k /\ ceil_div (Kt_of F mtu) (Z_of F mtu WS) <= k) /\
  (forall j, 1 <= j < N_of F mtu WS ->
     forall k, KL mtu WS j = Some k -> k < ceil_div (Kt_of F mtu) (Z_of F mtu WS)).
Proof.
  intros HD. destruct (D_N_of F mtu WS HD) as [_ [H1 H2]]. split.
  - apply fits_true. exact H1.
  - intros j Hj. apply fits_false. apply H2. exact Hj.
Qed.
