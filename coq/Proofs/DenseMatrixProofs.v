(* Proofs about Model/DenseMatrix.v, part 1: representation invariant, abstraction function,
   addressing, and the mutating operations new / set / swap_rows / swap_columns / add_assign_rows
   (plus get).  Each operation gets a "cell characterisation": the bit at (r, c) of the result as
   a function of the bits of the argument. *)
From Coq Require Import NArith ZArith List Bool Lia Arith ZifyBool ZifyN.
From RQ Require Import Base.Outcome Base.Ints Base.ListX Spec.BitMatrix Model.DenseMatrix
  Proofs.DenseBits.
Import ListNotations.
Open Scope N_scope.

Ltac divmod_lia := Z.div_mod_to_equations; lia.
Ltac zlia := zify; Z.div_mod_to_equations; lia.

(* ---------------- invariant and abstraction ---------------- *)

Definition lt64 (x : N) : Prop := x < 2 ^ 64.

Definition dm_inv (m : dmat) : Prop :=
  row_word_width m * height m <= N.of_nat (length (elements m)) /\ Forall lt64 (elements m).

(* bit b of word p *)
Definition ebit (els : list N) (p b : N) : bool := N.testbit (eword els p) b.
(* cell (r, c) of a vector laid out with rw words per row *)
Definition lbit (els : list N) (rw r c : N) : bool := ebit els (r * rw + c / 64) (c mod 64).

Definition dm_bit (m : dmat) (i j : N) : bool := lbit (elements m) (row_word_width m) i j.

Definition dm_abs (m : dmat) : bitmat :=
  bm_make (N.to_nat (height m)) (N.to_nat (width m))
          (fun i j => dm_bit m (N.of_nat i) (N.of_nat j)) (fun _ _ => true).

(* ---------------- tabulation ---------------- *)

Lemma tab_get h w f i j : (i < h)%nat -> (j < w)%nat -> nth j (nth i (tab h w f) []) false = f i j.
Proof.
  intros Hi Hj. unfold tab.
  rewrite (nth_indep _ [] (map (fun j => f 0%nat j) (seq 0 w))) by (rewrite map_length, seq_length; exact Hi).
  rewrite (map_nth (fun i => map (fun j => f i j) (seq 0 w)) (seq 0 h) 0%nat i).
  rewrite seq_nth by exact Hi. cbn [Nat.add].
  rewrite (nth_indep _ false (f i 0%nat)) by (rewrite map_length, seq_length; exact Hj).
  rewrite (map_nth (fun j => f i j) (seq 0 w) 0%nat j).
  rewrite seq_nth by exact Hj. reflexivity.
Qed.

Lemma tab_ext h w f g :
  (forall i j, (i < h)%nat -> (j < w)%nat -> f i j = g i j) -> tab h w f = tab h w g.
Proof.
  intros H. unfold tab. apply map_ext_in. intros i Hi. apply in_seq in Hi.
  apply map_ext_in. intros j Hj. apply in_seq in Hj. apply H; lia.
Qed.

Lemma bm_make_get h w f d i j : (i < h)%nat -> (j < w)%nat -> bm_get (bm_make h w f d) i j = f i j.
Proof. intros. unfold bm_get, bm_make. cbn [cell]. apply tab_get; assumption. Qed.
Lemma bm_make_def h w f d i j : (i < h)%nat -> (j < w)%nat -> bm_def (bm_make h w f d) i j = d i j.
Proof. intros. unfold bm_def, bm_make. cbn [defd]. apply tab_get; assumption. Qed.

Lemma bm_make_ext h w f d f' d' :
  (forall i j, (i < h)%nat -> (j < w)%nat -> f i j = f' i j) ->
  (forall i j, (i < h)%nat -> (j < w)%nat -> d i j = d' i j) ->
  bm_make h w f d = bm_make h w f' d'.
Proof. intros Hf Hd. unfold bm_make. rewrite (tab_ext h w f f' Hf), (tab_ext h w d d' Hd). reflexivity. Qed.

Lemma abs_get m i j : i < height m -> j < width m ->
  bm_get (dm_abs m) (N.to_nat i) (N.to_nat j) = dm_bit m i j.
Proof.
  intros Hi Hj. unfold dm_abs. rewrite bm_make_get by lia. rewrite !N2Nat.id. reflexivity.
Qed.
Lemma abs_get_nat m i j : (i < N.to_nat (height m))%nat -> (j < N.to_nat (width m))%nat ->
  bm_get (dm_abs m) i j = dm_bit m (N.of_nat i) (N.of_nat j).
Proof. intros Hi Hj. unfold dm_abs. rewrite bm_make_get by lia. reflexivity. Qed.
Lemma abs_def_nat m i j : (i < N.to_nat (height m))%nat -> (j < N.to_nat (width m))%nat ->
  bm_def (dm_abs m) i j = true.
Proof. intros Hi Hj. unfold dm_abs. rewrite bm_make_def by lia. reflexivity. Qed.
Lemma abs_bh m : bh (dm_abs m) = N.to_nat (height m). Proof. reflexivity. Qed.
Lemma abs_bw m : bw (dm_abs m) = N.to_nat (width m). Proof. reflexivity. Qed.

(* ---------------- addressing ---------------- *)

Lemma ceil_div_64 w : ceil_div w 64 = (w + 63) / 64.
Proof. unfold ceil_div. destruct (w mod 64 =? 0) eqn:E; zlia. Qed.

Lemma rww_col m j : j < width m -> j / 64 < row_word_width m.
Proof. intros H. unfold row_word_width, WORD_WIDTH. rewrite ceil_div_64. zlia. Qed.

Lemma rww_width m : width m <= 64 * row_word_width m.
Proof. unfold row_word_width, WORD_WIDTH. rewrite ceil_div_64. zlia. Qed.

Lemma rww_le m j : j <= width m -> j / 64 <= row_word_width m.
Proof. intros H. unfold row_word_width, WORD_WIDTH. rewrite ceil_div_64. zlia. Qed.

Lemma row_mul_le i h r : i < h -> (i + 1) * r <= h * r.
Proof. intros H. apply N.mul_le_mono_r. lia. Qed.

Lemma addr_lt m i a : dm_inv m -> i < height m -> a < row_word_width m ->
  i * row_word_width m + a < N.of_nat (length (elements m)).
Proof.
  intros [Hl _] Hi Ha. pose proof (row_mul_le i (height m) (row_word_width m) Hi). lia.
Qed.

Lemma addr_le m i a : dm_inv m -> i < height m -> a <= row_word_width m ->
  i * row_word_width m + a <= N.of_nat (length (elements m)).
Proof.
  intros [Hl _] Hi Ha. pose proof (row_mul_le i (height m) (row_word_width m) Hi). lia.
Qed.

Lemma cell_addr_lt m i j : dm_inv m -> i < height m -> j < width m ->
  i * row_word_width m + j / 64 < N.of_nat (length (elements m)).
Proof. intros Hinv Hi Hj. apply addr_lt; auto. apply rww_col; exact Hj. Qed.

Lemma pos_inj r i a i' a' : a < r -> a' < r -> i * r + a = i' * r + a' -> i = i' /\ a = a'.
Proof.
  intros Ha Ha' E.
  assert (i = i') as ->.
  { destruct (N.lt_trichotomy i i') as [L|[L|L]]; [exfalso | exact L | exfalso].
    - pose proof (row_mul_le i i' r L). lia.
    - pose proof (row_mul_le i' i r L). lia. }
  split; [reflexivity | lia].
Qed.

(* word p lies in row i  <->  ... *)
Lemma row_range_eqb r rw i a : a < rw ->
  ((i * rw <=? r * rw + a) && (r * rw + a <? i * rw + rw)) = (r =? i).
Proof.
  intros Ha. destruct (r =? i) eqn:E.
  - apply N.eqb_eq in E. subst. apply andb_true_iff. split; [apply N.leb_le | apply N.ltb_lt]; lia.
  - apply N.eqb_neq in E. apply andb_false_iff.
    destruct (N.lt_trichotomy r i) as [L|[L|L]]; [| contradiction |].
    + left. apply N.leb_gt. pose proof (row_mul_le r i rw L). lia.
    + right. apply N.ltb_ge. pose proof (row_mul_le i r rw L). lia.
Qed.

Lemma cell_addr_eqb rw r c r' c' : c / 64 < rw -> c' / 64 < rw ->
  ((r * rw + c / 64 =? r' * rw + c' / 64) && (c mod 64 =? c' mod 64)) = ((r =? r') && (c =? c')).
Proof.
  intros Hc Hc'.
  destruct ((r =? r') && (c =? c')) eqn:E.
  - apply andb_true_iff in E. destruct E as [E1 E2]. apply N.eqb_eq in E1, E2. subst.
    rewrite !N.eqb_refl. reflexivity.
  - apply andb_false_iff.
    destruct (r * rw + c / 64 =? r' * rw + c' / 64) eqn:E1; [|left; reflexivity].
    right. apply N.eqb_eq in E1. destruct (pos_inj _ _ _ _ _ Hc Hc' E1) as [-> Hq].
    rewrite N.eqb_refl in E. cbn [andb] in E. apply N.eqb_neq in E. apply N.eqb_neq.
    intros Hm. apply E. zlia.
Qed.

Lemma mod64_lt c : c mod 64 < 64.
Proof. apply N.mod_lt. discriminate. Qed.

(* ---------------- boolean case analysis helper ---------------- *)

Ltac brk :=
  repeat match goal with
  | |- context [?a =? ?b] => let E := fresh "E" in destruct (a =? b) eqn:E;
        [apply N.eqb_eq in E | apply N.eqb_neq in E]
  | |- context [?a <=? ?b] => let E := fresh "E" in destruct (a <=? b) eqn:E;
        [apply N.leb_le in E | apply N.leb_gt in E]
  | |- context [?a <? ?b] => let E := fresh "E" in destruct (a <? b) eqn:E;
        [apply N.ltb_lt in E | apply N.ltb_ge in E]
  end; cbn [andb orb negb].

(* ---------------- generic state lemmas ---------------- *)

Lemma inv_with_elements m els : dm_inv m -> length els = length (elements m) -> Forall lt64 els ->
  dm_inv (with_elements m els).
Proof.
  intros [Hl _] Hlen Hall. split; [|exact Hall].
  unfold with_elements, row_word_width in *. cbn [height width elements] in *. rewrite Hlen. exact Hl.
Qed.

Lemma lt64_0 : lt64 0. Proof. unfold lt64. reflexivity. Qed.

Lemma eword_lt64 els p : Forall lt64 els -> lt64 (eword els p).
Proof. intros H. apply Forall_eword; [exact H | exact lt64_0]. Qed.

(* ---------------- new ---------------- *)

Lemma eword_repeat0 n p : eword (repeat 0 n) p = 0.
Proof.
  unfold eword. destruct (Nat.lt_ge_cases (N.to_nat p) n) as [L|L].
  - apply nth_repeat.
  - apply nth_overflow. rewrite repeat_length. exact L.
Qed.

Lemma Forall_repeat {A} (P : A -> Prop) x n : P x -> Forall P (repeat x n).
Proof. intros H. induction n; cbn; constructor; auto. Qed.

Lemma dm_new_inv h w : dm_inv (dm_new h w).
Proof.
  split.
  - unfold dm_new, row_word_width, WORD_WIDTH. cbn [height width elements].
    rewrite repeat_length, N2Nat.id, ceil_div_64.
    replace (w + 64 - 1) with (w + 63) by lia.
    apply N.div_le_lower_bound; [discriminate|].
    assert (64 * ((w + 63) / 64) <= w + 63) by (apply N.mul_div_le; discriminate).
    transitivity (h * (64 * ((w + 63) / 64))); [lia | apply N.mul_le_mono_l; exact H].
  - unfold dm_new. cbn [elements]. apply Forall_repeat. exact lt64_0.
Qed.

Lemma dm_new_bit h w i j : dm_bit (dm_new h w) i j = false.
Proof.
  unfold dm_bit, lbit, ebit, dm_new. cbn [elements]. rewrite eword_repeat0. apply N.bits_0.
Qed.

Lemma dm_new_abs h w : dm_abs (dm_new h w) = bm_new (N.to_nat h) (N.to_nat w).
Proof.
  unfold dm_abs, bm_new. change (height (dm_new h w)) with h. change (width (dm_new h w)) with w.
  apply bm_make_ext; intros i j _ _; [apply dm_new_bit | reflexivity].
Qed.

(* ---------------- get ---------------- *)

Lemma dm_get_ok m i j : dm_inv m -> i < height m -> j < width m ->
  dm_get m i j = Ok (b2n (dm_bit m i j)).
Proof.
  intros Hinv Hi Hj. unfold dm_get, bit_position, word_offset, WORD_WIDTH. cbv beta iota zeta.
  rewrite vget_ok by (apply cell_addr_lt; assumption). cbn [obind].
  rewrite land_mask_eqb. unfold dm_bit, lbit, ebit.
  destruct (N.testbit _ _); reflexivity.
Qed.

(* the same without range hypotheses on the cell, when only the word exists: used by the loops that
   read cells through `get` *)
Lemma dm_get_word m i j : i * row_word_width m + j / 64 < N.of_nat (length (elements m)) ->
  dm_get m i j = Ok (b2n (dm_bit m i j)).
Proof.
  intros H. unfold dm_get, bit_position, word_offset, WORD_WIDTH. cbv beta iota zeta.
  rewrite vget_ok by exact H. cbn [obind].
  rewrite land_mask_eqb. unfold dm_bit, lbit, ebit.
  destruct (N.testbit _ _); reflexivity.
Qed.

(* ---------------- set ---------------- *)

Definition put (x b : N) (v : bool) : N := if v then set_bit x b else clear_bit x b.

Lemma put_testbit x b v k : lt64 x ->
  N.testbit (put x b v) k = if k =? b then v else N.testbit x k.
Proof.
  intros Hx. unfold put. rewrite (N.eqb_sym k b). destruct v.
  - rewrite set_bit_testbit. destruct (b =? k) eqn:E; [apply orb_true_r | apply orb_false_r].
  - rewrite clear_bit_testbit by exact Hx. destruct (b =? k); cbn [negb]; [apply andb_false_r | apply andb_true_r].
Qed.

Lemma put_lt64 x b v : lt64 x -> b < 64 -> lt64 (put x b v).
Proof.
  intros Hx Hb. unfold put, lt64, set_bit, clear_bit. destruct v.
  - apply lor_lt64; [exact Hx | apply select_mask_lt; exact Hb].
  - apply land_lt64_l. exact Hx.
Qed.

Lemma ebit_upd_put els p b v q k : p < N.of_nat (length els) -> Forall lt64 els ->
  ebit (upd els (N.to_nat p) (put (eword els p) b v)) q k =
  if (q =? p) && (k =? b) then v else ebit els q k.
Proof.
  intros Hp Hall. unfold ebit. rewrite eword_upd by exact Hp.
  destruct (q =? p) eqn:E; cbn [andb]; [|reflexivity].
  apply N.eqb_eq in E. subst. rewrite put_testbit by (apply eword_lt64; exact Hall). reflexivity.
Qed.

Lemma dm_set_ok m i j v : dm_inv m -> i < height m -> j < width m ->
  exists m', dm_set m i j v = Ok m' /\ dm_inv m' /\ height m' = height m /\ width m' = width m /\
    forall r c, r < height m -> c < width m ->
      dm_bit m' r c = if (r =? i) && (c =? j) then negb (v =? 0) else dm_bit m r c.
Proof.
  intros Hinv Hi Hj. pose proof (cell_addr_lt m i j Hinv Hi Hj) as Hp.
  destruct Hinv as [Hl Hall].
  unfold dm_set, bit_position, word_offset, WORD_WIDTH. cbv beta iota zeta.
  rewrite vget_ok by exact Hp. cbn [obind]. rewrite vset_ok by exact Hp. cbn [obind].
  eexists. split; [reflexivity|].
  set (x' := if v =? 0 then _ else _).
  assert (Ex : x' = put (eword (elements m) (i * row_word_width m + j / 64)) (j mod 64) (negb (v =? 0))).
  { unfold x', put. destruct (v =? 0); reflexivity. }
  split; [|split; [reflexivity | split; [reflexivity|]]].
  - apply inv_with_elements; [split; assumption | apply upd_length |].
    apply Forall_upd; [exact Hall|]. rewrite Ex. apply put_lt64; [apply eword_lt64; exact Hall | apply mod64_lt].
  - intros r c Hr Hc. unfold dm_bit, lbit, with_elements, row_word_width. cbn [elements width].
    fold (row_word_width m). rewrite Ex, ebit_upd_put by assumption.
    rewrite cell_addr_eqb by (apply rww_col; assumption). reflexivity.
Qed.

(* ---------------- folds ---------------- *)

Lemma ofold_app {A B} (f : A -> B -> outcome A) l1 l2 a :
  ofold f (l1 ++ l2) a = obind (ofold f l1 a) (ofold f l2).
Proof.
  revert a. induction l1 as [|x t IH]; intros a; cbn [app ofold obind]; [reflexivity|].
  destruct (f a x) as [a1|c]; cbn [obind]; [apply IH | reflexivity].
Qed.

Lemma range_from_0_succ n : range_from 0 (N.of_nat (S n)) = range_from 0 (N.of_nat n) ++ [N.of_nat n].
Proof. rewrite Nat2N.inj_succ, <- N.add_1_r. apply range_from_snoc. lia. Qed.

(* ---------------- swap_rows ---------------- *)

Lemma swap_loop els ri rj (n : nat) :
  ri + N.of_nat n <= N.of_nat (length els) -> rj + N.of_nat n <= N.of_nat (length els) ->
  (ri = rj \/ ri + N.of_nat n <= rj \/ rj + N.of_nat n <= ri) -> Forall lt64 els ->
  exists els', ofold (fun els k => vswap els (ri + k) (rj + k)) (range_from 0 (N.of_nat n)) els = Ok els' /\
    length els' = length els /\ Forall lt64 els' /\
    forall p, eword els' p =
      if (ri <=? p) && (p <? ri + N.of_nat n) then eword els (p - ri + rj)
      else if (rj <=? p) && (p <? rj + N.of_nat n) then eword els (p - rj + ri)
      else eword els p.
Proof.
  intros Hi Hj Hd Hall. induction n as [|n IH].
  - exists els. split; [reflexivity|]. split; [reflexivity|]. split; [exact Hall|].
    intros p. brk; try lia; reflexivity.
  - destruct IH as [els1 [Hf [Hlen [Hall1 Hw]]]]; try lia.
    rewrite range_from_0_succ, ofold_app, Hf. cbn [obind ofold].
    unfold vswap.
    assert (Ha : ri + N.of_nat n < N.of_nat (length els1)) by lia.
    assert (Hb : rj + N.of_nat n < N.of_nat (length els1)) by lia.
    rewrite !vget_ok by assumption. cbn [obind].
    rewrite vset_ok by assumption. cbn [obind].
    rewrite vset_ok by (rewrite upd_length; assumption). cbn [obind].
    eexists. split; [reflexivity|]. split; [rewrite !upd_length; exact Hlen|].
    split; [apply Forall_upd; [apply Forall_upd|]; try assumption; apply eword_lt64; assumption|].
    intros p. rewrite eword_upd by (rewrite upd_length; assumption).
    rewrite eword_upd by assumption. rewrite !Hw.
    rewrite Nat2N.inj_succ.
    brk; try lia; try (f_equal; lia).
Qed.

Lemma dm_swap_rows_ok m i j : dm_inv m -> i < height m -> j < height m ->
  exists m', dm_swap_rows m i j = Ok m' /\ dm_inv m' /\ height m' = height m /\ width m' = width m /\
    forall r c, r < height m -> c < width m ->
      dm_bit m' r c = dm_bit m (if r =? i then j else if r =? j then i else r) c.
Proof.
  intros Hinv Hi Hj. pose proof Hinv as [Hl Hall].
  set (rw := row_word_width m).
  unfold dm_swap_rows, bit_position, word_offset, WORD_WIDTH. cbv beta iota zeta.
  fold rw. change (0 / 64) with 0. rewrite !N.add_0_r.
  destruct (swap_loop (elements m) (i * rw) (j * rw) (N.to_nat rw)) as [els' [Hf [Hlen [Hall' Hw]]]].
  - rewrite N2Nat.id. apply (addr_le m i rw Hinv Hi). lia.
  - rewrite N2Nat.id. apply (addr_le m j rw Hinv Hj). lia.
  - rewrite N2Nat.id. destruct (N.lt_trichotomy i j) as [L|[L|L]].
    + right. left. pose proof (row_mul_le i j rw L). lia.
    + left. subst. reflexivity.
    + right. right. pose proof (row_mul_le j i rw L). lia.
  - exact Hall.
  - rewrite N2Nat.id in Hf, Hw. rewrite Hf. cbn [obind].
    eexists. split; [reflexivity|]. split; [apply inv_with_elements; assumption|].
    split; [reflexivity|]. split; [reflexivity|].
    intros r c Hr Hc. unfold dm_bit, lbit, ebit, with_elements, row_word_width.
    cbn [elements width]. fold (row_word_width m). fold rw.
    rewrite Hw. pose proof (rww_col m c Hc) as Hcw. fold rw in Hcw.
    rewrite !row_range_eqb by exact Hcw.
    destruct (r =? i) eqn:E1; [apply N.eqb_eq in E1; subst; do 2 f_equal; lia|].
    destruct (r =? j) eqn:E2; [apply N.eqb_eq in E2; subst; do 2 f_equal; lia|].
    reflexivity.
Qed.

(* ---------------- swap_columns ---------------- *)

Lemma swap_columns_row_ok els wi wj bi bj rw row :
  row * rw + wi < N.of_nat (length els) -> row * rw + wj < N.of_nat (length els) ->
  bi < 64 -> bj < 64 -> Forall lt64 els ->
  exists els',
    swap_columns_row wi wj (select_mask bi) (select_mask bj) (not64 (select_mask bi))
                     (not64 (select_mask bj)) rw els row = Ok els' /\
    length els' = length els /\ Forall lt64 els' /\
    forall p b, ebit els' p b =
      if (p =? row * rw + wi) && (b =? bi) then ebit els (row * rw + wj) bj
      else if (p =? row * rw + wj) && (b =? bj) then ebit els (row * rw + wi) bi
      else ebit els p b.
Proof.
  intros Hpi Hpj Hbi Hbj Hall. unfold swap_columns_row.
  set (pi := row * rw + wi) in *. set (pj := row * rw + wj) in *.
  rewrite !vget_ok by assumption. cbn [obind]. rewrite !land_mask_eqb, negb_involutive.
  set (X := N.testbit (eword els pi) bi). set (Y := N.testbit (eword els pj) bj).
  assert (E1 : (if negb Y
                then vset els pi (N.land (eword els pi) (not64 (select_mask bi)))
                else vset els pi (N.lor (eword els pi) (select_mask bi)))
               = Ok (upd els (N.to_nat pi) (put (eword els pi) bi Y))).
  { rewrite !vset_ok by assumption.
    unfold put, set_bit, clear_bit. destruct Y; reflexivity. }
  rewrite E1. cbn [obind]. clear E1.
  set (els1 := upd els (N.to_nat pi) (put (eword els pi) bi Y)).
  assert (Hlen1 : length els1 = length els) by apply upd_length.
  assert (Hall1 : Forall lt64 els1).
  { apply Forall_upd; [exact Hall|]. apply put_lt64; [apply eword_lt64; exact Hall | exact Hbi]. }
  assert (E2 : (if X
                then obind (vget els1 pj) (fun y => vset els1 pj (N.lor y (select_mask bj)))
                else obind (vget els1 pj) (fun y => vset els1 pj (N.land y (not64 (select_mask bj)))))
               = Ok (upd els1 (N.to_nat pj) (put (eword els1 pj) bj X))).
  { rewrite vget_ok by (rewrite Hlen1; assumption). cbn [obind].
    rewrite !vset_ok by (rewrite Hlen1; assumption).
    unfold put, set_bit, clear_bit. destruct X; reflexivity. }
  rewrite E2. clear E2.
  eexists. split; [reflexivity|]. split; [rewrite upd_length; exact Hlen1|].
  split.
  { apply Forall_upd; [exact Hall1|]. apply put_lt64; [apply eword_lt64; exact Hall1 | exact Hbj]. }
  intros p b.
  rewrite ebit_upd_put by (try rewrite Hlen1; assumption).
  unfold els1 at 1. rewrite ebit_upd_put by assumption.
  unfold X, Y, ebit.
  destruct (p =? pj) eqn:Epj; destruct (b =? bj) eqn:Ebj; destruct (p =? pi) eqn:Epi;
    destruct (b =? bi) eqn:Ebi; cbn [andb]; try reflexivity.
  apply N.eqb_eq in Epj, Ebj, Epi, Ebi. subst. rewrite <- Epi. reflexivity.
Qed.

Definition swpN (i j c : N) : N := if c =? i then j else if c =? j then i else c.

Lemma swap_columns_loop rw h w i j els s (n : nat) :
  rw * h <= N.of_nat (length els) -> Forall lt64 els -> i < w -> j < w -> w <= 64 * rw ->
  s + N.of_nat n <= h ->
  exists els',
    ofold (swap_columns_row (i / 64) (j / 64) (select_mask (i mod 64)) (select_mask (j mod 64))
             (not64 (select_mask (i mod 64))) (not64 (select_mask (j mod 64))) rw)
          (range_from s (s + N.of_nat n)) els = Ok els' /\
    length els' = length els /\ Forall lt64 els' /\
    forall r c, r < h -> c < w ->
      lbit els' rw r c = if (s <=? r) && (r <? s + N.of_nat n) then lbit els rw r (swpN i j c)
                         else lbit els rw r c.
Proof.
  intros Hl Hall Hi Hj Hw. induction n as [|n IH]; intros Hs.
  - exists els. rewrite N.add_0_r, range_from_nil by lia.
    split; [reflexivity|]. split; [reflexivity|]. split; [exact Hall|].
    intros r c _ _. brk; try lia; reflexivity.
  - destruct IH as [els1 [Hf [Hlen [Hall1 Hb]]]]; [lia|].
    rewrite Nat2N.inj_succ, <- N.add_1_r, N.add_assoc, range_from_snoc by lia.
    rewrite ofold_app, Hf. cbn [obind ofold].
    set (row := s + N.of_nat n).
    assert (Hiw : i / 64 < rw) by zlia. assert (Hjw : j / 64 < rw) by zlia.
    assert (Hrow : row < h) by (unfold row; lia).
    pose proof (row_mul_le row h rw Hrow) as Hmul.
    destruct (swap_columns_row_ok els1 (i / 64) (j / 64) (i mod 64) (j mod 64) rw row)
      as [els2 [Hf2 [Hlen2 [Hall2 Hb2]]]]; try (apply mod64_lt); try exact Hall1; try (rewrite Hlen; lia).
    rewrite Hf2. cbn [obind].
    exists els2. split; [reflexivity|]. split; [congruence|]. split; [exact Hall2|].
    intros r c Hr Hc. assert (Hcw : c / 64 < rw) by zlia.
    unfold lbit at 1. rewrite Hb2.
    rewrite !cell_addr_eqb by assumption.
    fold (lbit els1 rw row j). fold (lbit els1 rw row i). fold (lbit els1 rw r c).
    rewrite !Hb by assumption. fold row.
    unfold swpN.
    destruct (r =? row) eqn:Er.
    + apply N.eqb_eq in Er. subst r.
      replace ((s <=? row) && (row <? s + N.of_nat n)) with false
        by (symmetry; apply andb_false_iff; right; apply N.ltb_ge; unfold row; lia).
      replace ((s <=? row) && (row <? row + 1)) with true
        by (symmetry; apply andb_true_iff; split; [apply N.leb_le; unfold row | apply N.ltb_lt]; lia).
      rewrite ?N.ltb_irrefl, ?andb_false_r. cbn [andb].
      destruct (c =? i) eqn:Eci; [reflexivity|].
      destruct (c =? j) eqn:Ecj; reflexivity.
    + cbn [andb]. apply N.eqb_neq in Er.
      replace (r <? row + 1) with (r <? s + N.of_nat n); [reflexivity|].
      fold row. destruct (r <? row) eqn:E1; symmetry; [apply N.ltb_lt in E1; apply N.ltb_lt | apply N.ltb_ge in E1; apply N.ltb_ge]; lia.
Qed.

Lemma dm_swap_columns_ok m i j hint : dm_inv m -> i < width m -> j < width m ->
  exists m', dm_swap_columns m i j hint = Ok m' /\ dm_inv m' /\ height m' = height m /\
    width m' = width m /\
    forall r c, r < height m -> c < width m ->
      dm_bit m' r c = if hint <=? r then dm_bit m r (swpN i j c) else dm_bit m r c.
Proof.
  intros Hinv Hi Hj. pose proof Hinv as [Hl Hall].
  unfold dm_swap_columns, bit_position, word_offset, WORD_WIDTH. cbv beta iota zeta.
  rewrite !N.mul_0_l, !N.add_0_l.
  destruct (N.le_gt_cases hint (height m)) as [Hh|Hh].
  - set (n := N.to_nat (height m - hint)).
    assert (Hrg : range_from hint (height m) = range_from hint (hint + N.of_nat n))
      by (f_equal; unfold n; lia).
    rewrite Hrg.
    destruct (swap_columns_loop (row_word_width m) (height m) (width m) i j (elements m) hint n)
      as [els' [Hf [Hlen [Hall' Hb]]]]; try assumption.
    + apply rww_width.
    + unfold n. lia.
    + rewrite Hf. cbn [obind]. eexists. split; [reflexivity|].
      split; [apply inv_with_elements; assumption|]. split; [reflexivity|]. split; [reflexivity|].
      intros r c Hr Hc. unfold dm_bit, with_elements, row_word_width. cbn [elements width].
      fold (row_word_width m). rewrite Hb by assumption.
      replace (r <? hint + N.of_nat n) with true by (symmetry; apply N.ltb_lt; unfold n; lia).
      rewrite andb_true_r. reflexivity.
  - rewrite range_from_nil by lia. cbn [ofold obind]. eexists. split; [reflexivity|].
    split; [apply inv_with_elements; auto|]. split; [reflexivity|]. split; [reflexivity|].
    intros r c Hr Hc. replace (hint <=? r) with false by (symmetry; apply N.leb_gt; lia).
    reflexivity.
Qed.

(* ---------------- add_assign_rows ---------------- *)

(* l[a .. a+n] *)
Definition sl (l : list N) (a n : N) : list N := firstn (N.to_nat n) (skipn (N.to_nat a) l).

Lemma nth_skipn' {A} (l : list A) a k d : nth k (skipn a l) d = nth (a + k) l d.
Proof.
  revert l. induction a as [|a IH]; intros l; [reflexivity|].
  destruct l as [|x t]; cbn [skipn Nat.add nth]; [destruct k; reflexivity | apply IH].
Qed.

Lemma nth_firstn' {A} (l : list A) n k d : (k < n)%nat -> nth k (firstn n l) d = nth k l d.
Proof.
  revert l k. induction n as [|n IH]; intros l k H; [lia|].
  destruct l as [|x t]; [reflexivity|]. destruct k as [|k]; cbn [firstn nth]; [reflexivity|].
  apply IH. lia.
Qed.

Lemma sl_length l a n : a + n <= N.of_nat (length l) -> length (sl l a n) = N.to_nat n.
Proof. intros H. unfold sl. rewrite firstn_length, skipn_length. lia. Qed.

Lemma sl_nth l a n k : (k < N.to_nat n)%nat -> nth k (sl l a n) 0 = eword l (a + N.of_nat k).
Proof.
  intros H. unfold sl, eword. rewrite nth_firstn' by exact H. rewrite nth_skipn'. f_equal. lia.
Qed.

Lemma slice_ok_eq l a b : a <= b -> b <= N.of_nat (length l) -> slice_ok l a b = Ok (sl l a (b - a)).
Proof.
  intros H1 H2. unfold slice_ok. apply N.leb_le in H1, H2. rewrite H1, H2. reflexivity.
Qed.

Lemma get_both_ranges_ok v i j n :
  i + n <= N.of_nat (length v) -> j + n <= N.of_nat (length v) -> (i + n <= j \/ j + n <= i) ->
  get_both_ranges v i j n = Ok (sl v i n, sl v j n).
Proof.
  intros Hi Hj Hd. unfold get_both_ranges.
  destruct (i <? j) eqn:E.
  - apply N.ltb_lt in E. assert (Hij : i + n <= j) by lia.
    replace (N.of_nat (length v) <? j) with false by (symmetry; apply N.ltb_ge; lia).
    rewrite slice_ok_eq; [| lia | rewrite firstn_length; lia]. cbn [obind].
    rewrite slice_ok_eq; [| lia | rewrite skipn_length; lia]. cbn [obind].
    f_equal. f_equal.
    + unfold sl. replace (i + n - i) with n by lia.
      replace (N.to_nat j) with (N.to_nat i + (N.to_nat j - N.to_nat i))%nat by lia.
      rewrite <- firstn_skipn_comm, firstn_firstn. f_equal. lia.
    + unfold sl. rewrite N.sub_0_r. reflexivity.
  - apply N.ltb_ge in E. assert (Hij : j + n <= i) by lia.
    replace (N.of_nat (length v) <? i) with false by (symmetry; apply N.ltb_ge; lia).
    rewrite slice_ok_eq; [| lia | rewrite skipn_length; lia]. cbn [obind].
    rewrite slice_ok_eq; [| lia | rewrite firstn_length; lia]. cbn [obind].
    f_equal. f_equal.
    + unfold sl. rewrite N.sub_0_r. reflexivity.
    + unfold sl. replace (j + n - j) with n by lia.
      replace (N.to_nat i) with (N.to_nat j + (N.to_nat i - N.to_nat j))%nat by lia.
      rewrite <- firstn_skipn_comm, firstn_firstn. f_equal. lia.
Qed.

Lemma map2_length {A B C} (f : A -> B -> C) l1 l2 :
  length l1 = length l2 -> length (map2 f l1 l2) = length l1.
Proof.
  revert l2. induction l1 as [|a t IH]; intros [|b t2] H; cbn in *; try lia. rewrite IH; lia.
Qed.

Lemma map2_nth (f : N -> N -> N) l1 l2 k :
  length l1 = length l2 -> (k < length l1)%nat ->
  nth k (map2 f l1 l2) 0 = f (nth k l1 0) (nth k l2 0).
Proof.
  revert l2 k. induction l1 as [|a t IH]; intros [|b t2] k H Hk; cbn in *; try lia.
  destruct k as [|k]; [reflexivity|]. apply IH; lia.
Qed.

Lemma add_assign_binary_ok d s : length d = length s ->
  add_assign_binary d s = Ok (map2 N.lxor d s).
Proof.
  intros H. unfold add_assign_binary. rewrite slice_ok_eq; [| lia | lia]. cbn [obind].
  unfold sl. rewrite N.sub_0_r. cbn [N.to_nat skipn]. rewrite Nat2N.id, H, firstn_all. reflexivity.
Qed.

Lemma splice_length v a x : a + N.of_nat (length x) <= N.of_nat (length v) ->
  length (splice v a x) = length v.
Proof. intros H. unfold splice. rewrite !app_length, firstn_length, skipn_length. lia. Qed.

Lemma splice_eword v a x p : a + N.of_nat (length x) <= N.of_nat (length v) ->
  eword (splice v a x) p =
  if (a <=? p) && (p <? a + N.of_nat (length x)) then nth (N.to_nat (p - a)) x 0 else eword v p.
Proof.
  intros H. unfold splice, eword.
  assert (Hf : length (firstn (N.to_nat a) v) = N.to_nat a) by (rewrite firstn_length; lia).
  destruct (a <=? p) eqn:E1; cbn [andb].
  - apply N.leb_le in E1. rewrite app_nth2 by lia. rewrite Hf.
    destruct (p <? a + N.of_nat (length x)) eqn:E2.
    + apply N.ltb_lt in E2. rewrite app_nth1 by lia. f_equal. lia.
    + apply N.ltb_ge in E2. rewrite app_nth2 by lia. rewrite nth_skipn'. f_equal. lia.
  - apply N.leb_gt in E1. rewrite app_nth1 by lia. apply nth_firstn'. lia.
Qed.

Lemma dm_add_assign_rows_ok m dest src start_col :
  dm_inv m -> dest < height m -> src < height m -> dest <> src ->
  exists m', dm_add_assign_rows m dest src start_col = Ok m' /\ dm_inv m' /\
    height m' = height m /\ width m' = width m /\
    forall r c, r < height m -> c < width m ->
      dm_bit m' r c = if r =? dest then xorb (dm_bit m dest c) (dm_bit m src c) else dm_bit m r c.
Proof.
  intros Hinv Hd Hs Hne. pose proof Hinv as [Hl Hall].
  set (rw := row_word_width m).
  assert (Hdl : dest * rw + rw <= N.of_nat (length (elements m))) by (apply (addr_le m dest rw Hinv Hd); lia).
  assert (Hsl : src * rw + rw <= N.of_nat (length (elements m))) by (apply (addr_le m src rw Hinv Hs); lia).
  unfold dm_add_assign_rows, bit_position, word_offset, WORD_WIDTH. cbv beta iota zeta.
  replace (dest =? src) with false by (symmetry; apply N.eqb_neq; exact Hne).
  fold rw. change (0 / 64) with 0. rewrite !N.add_0_r.
  rewrite get_both_ranges_ok; try assumption.
  2:{ destruct (N.lt_trichotomy dest src) as [L|[L|L]]; [left | contradiction | right].
      - pose proof (row_mul_le dest src rw L). lia.
      - pose proof (row_mul_le src dest rw L). lia. }
  cbn [obind].
  assert (Hld : length (sl (elements m) (dest * rw) rw) = N.to_nat rw) by (apply sl_length; exact Hdl).
  assert (Hls : length (sl (elements m) (src * rw) rw) = N.to_nat rw) by (apply sl_length; exact Hsl).
  rewrite add_assign_binary_ok by congruence. cbn [obind].
  set (d := map2 N.lxor _ _).
  assert (Hdlen : length d = N.to_nat rw) by (unfold d; rewrite map2_length; congruence).
  assert (Hw : forall p, eword (splice (elements m) (dest * rw) d) p =
               if (dest * rw <=? p) && (p <? dest * rw + rw)
               then N.lxor (eword (elements m) p) (eword (elements m) (src * rw + (p - dest * rw)))
               else eword (elements m) p).
  { intros p. rewrite splice_eword by (rewrite Hdlen, N2Nat.id; exact Hdl).
    rewrite Hdlen, N2Nat.id.
    destruct ((dest * rw <=? p) && (p <? dest * rw + rw)) eqn:E; [|reflexivity].
    apply andb_true_iff in E. destruct E as [E1 E2]. apply N.leb_le in E1. apply N.ltb_lt in E2.
    unfold d. rewrite map2_nth by (try congruence; rewrite Hld; lia).
    rewrite !sl_nth by lia. rewrite N2Nat.id. f_equal. f_equal. lia. }
  eexists. split; [reflexivity|].
  assert (Hlen' : length (splice (elements m) (dest * rw) d) = length (elements m))
    by (apply splice_length; rewrite Hdlen, N2Nat.id; exact Hdl).
  split; [|split; [reflexivity | split; [reflexivity|]]].
  - apply inv_with_elements; [exact Hinv | exact Hlen' |].
    apply Forall_nth. intros k dflt Hk.
    rewrite (nth_indep _ dflt 0) by exact Hk.
    assert (Ek : nth k (splice (elements m) (dest * rw) d) 0 = eword (splice (elements m) (dest * rw) d) (N.of_nat k))
      by (unfold eword; rewrite Nat2N.id; reflexivity).
    rewrite Ek, Hw.
    destruct (_ && _); [apply lxor_lt64|]; apply eword_lt64; exact Hall.
  - intros r c Hr Hc. unfold dm_bit, lbit, ebit, with_elements, row_word_width.
    cbn [elements width]. fold (row_word_width m). fold rw.
    pose proof (rww_col m c Hc) as Hcw. fold rw in Hcw.
    rewrite Hw, row_range_eqb by exact Hcw.
    destruct (r =? dest) eqn:E; [|reflexivity].
    apply N.eqb_eq in E. subst r. rewrite N.lxor_spec. f_equal. f_equal. f_equal. lia.
Qed.
