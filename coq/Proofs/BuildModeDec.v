(* Build-mode irrelevance of the block decoder's decision: the constraint matrix of a received set and whether the
   decoder answers do not depend on overflow checking / debug assertions. *)
From Coq Require Import NArith List Bool Lia.
From RQ Require Import Base.Outcome Base.Ints Base.ListX Spec.Linear Spec.Layout
  Model.FieldFast Model.SysConst Model.CMatrix Model.Layout Model.Decoder Model.DecoderSpec
  Proofs.LinearInst Proofs.CMatrixMode Proofs.DecoderParams Proofs.DecoderC02.
Import ListNotations.
Open Scope N_scope.

Lemma A_of_mode m d : sbd_inv d -> sized d -> sbd_K d <= 56403 -> A_of m d = A_of Release d.
Proof.
  intros Hi Hs HK. unfold A_of.
  destruct (DecoderParams.sys_params_ok (sbd_K d) HK) as [sp R].
  rewrite (generate_constraint_matrix_mode m (sbd_K d) (isis_of d)); [reflexivity|].
  exact (isis_bound d sp R Hi Hs).
Qed.

Lemma decodability_mode m1 m2 d :
  sbd_inv d -> sized d -> cfg_sub_ok (sbd_cfg d) -> sbd_K d <= 56403 ->
  ~ all_source d -> sbd_K d <= lenN (sbd_esis d) ->
  ((exists r d', sbd_try m1 d = Ok (Some r, d')) <-> (exists r d', sbd_try m2 d = Ok (Some r, d'))).
Proof.
  intros Hi Hs Hc HK Ha He.
  rewrite (decodes_iff m1 d Hi Hs Hc HK Ha He), (decodes_iff m2 d Hi Hs Hc HK Ha He).
  rewrite (A_of_mode m1 d Hi Hs HK), (A_of_mode m2 d Hi Hs HK). reflexivity.
Qed.
