(* The indices enc_indices passes to `f` are pairwise distinct (tuple within the RFC ranges, W and
   P1 prime, d < W, P >= 3).  LT part: b + k*a mod W, k = 0..d-1, distinct because W is prime.  PI
   part: W + b1 for successive residues < P of the walk b1 + k*a1 mod P1; the walk is a single
   cycle of length P1, so the next residue < P comes back to an earlier one only after all P of
   them have been visited. *)
From Coq Require Import NArith List Bool Lia Arith FinFun.
From RQ Require Import Base.Outcome Base.Ints Base.ListX Spec.Prime Model.Tuple
  Gen.SysTables Spec.Tuple Proofs.PrimeProofs Proofs.TupleProofs Proofs.EncIndicesProofs Proofs.OutcomeLemmas
  Proofs.SysConstProofs Proofs.C15Sweep1 Proofs.C15Proofs Proofs.RowParams.
Import ListNotations.
Open Scope N_scope.

(* ---- arithmetic ---- *)

Lemma mod_eq_divide p x y : p <> 0 -> x <= y -> x mod p = y mod p -> (p | y - x).
Proof.
  intros Hp Hxy E. pose proof (N.div_mod x p Hp) as Hx. pose proof (N.div_mod y p Hp) as Hy.
  assert (Hd : x / p <= y / p) by (apply N.div_le_mono; assumption).
  exists (y / p - x / p). rewrite N.mul_sub_distr_r. lia.
Qed.

Lemma prime_mod_inj p a b k1 k2 : prime_N p -> 1 <= a < p -> k1 < k2 -> k2 - k1 < p ->
  (b + k1 * a) mod p <> (b + k2 * a) mod p.
Proof.
  intros Hp Ha Hk Hd E. assert (Hp0 : p <> 0) by (destruct Hp; lia).
  assert (D : (p | (b + k2 * a) - (b + k1 * a))) by (apply mod_eq_divide; [exact Hp0 | nia | exact E]).
  replace (b + k2 * a - (b + k1 * a)) with ((k2 - k1) * a) in D by nia.
  pose proof (prime_coprime p a Hp Ha) as G. rewrite N.gcd_comm in G.
  rewrite N.mul_comm in D. apply N.gauss in D; [|exact G].
  destruct D as [c Hc]. destruct c as [|c]; [lia|]. nia.
Qed.

Lemma prime_hits p a b q : prime_N p -> 1 <= a < p -> b < p -> q < p ->
  exists k, k < p /\ (b + k * a) mod p = q.
Proof.
  intros Hp Ha Hb Hq. assert (Hp0 : p <> 0) by lia.
  assert (Hb' : (b + (p - q)) mod p < p) by (apply N.mod_lt; exact Hp0).
  destruct (prime_hits_zero p a _ Hp Ha Hb') as [k [Hk Hz]]. exists k. split; [exact Hk|].
  rewrite N.add_mod_idemp_l in Hz by exact Hp0.
  set (x := b + k * a) in *.
  replace (b + (p - q) + k * a) with (x + (p - q)) in Hz by (unfold x; lia).
  apply N.mod_divide in Hz; [|exact Hp0]. destruct Hz as [c Hc].
  destruct c as [|c]; [lia|].
  assert (Ex : x = q + (N.pos c - 1) * p) by nia.
  rewrite Ex. rewrite N.mod_add by exact Hp0. apply N.mod_small. exact Hq.
Qed.

Lemma NoDup_app_intro {A} (l1 l2 : list A) :
  NoDup l1 -> NoDup l2 -> (forall x, In x l1 -> ~ In x l2) -> NoDup (l1 ++ l2).
Proof.
  intros N1 N2 D. induction N1 as [|a l1 Ha N1 IH]; cbn [app]; [exact N2|].
  constructor.
  - intros Hin. apply in_app_or in Hin. destruct Hin as [Hin|Hin]; [exact (Ha Hin)|].
    exact (D a (or_introl eq_refl) Hin).
  - apply IH. intros x Hx. apply D. right. exact Hx.
Qed.

Section NoDup.
Variables (m : mode) (W P P1 : N).
Hypothesis HW : W < 2 ^ 31.
Hypothesis HP1 : P1 < 2 ^ 31.
Hypothesis HWP : W + P <= 2 ^ 32.
Hypothesis HP3 : 3 <= P.
Hypothesis HPP1 : P <= P1.
Hypothesis HWprime : prime_N W.
Hypothesis HP1prime : prime_N P1.

Let P31 : 2 ^ 31 + 2 ^ 31 = 2 ^ 32. Proof. reflexivity. Qed.

(* ---- LT part ---- *)

Lemma lt_loop_elems a : a < W -> forall n b l, b < W -> lt_loop m n a W b = Ok l ->
  forall x, In x l -> exists k, 1 <= k <= N.of_nat n /\ x = (b + k * a) mod W.
Proof.
  intros Ha. induction n as [|n IH]; intros b l Hb E x Hx; cbn [lt_loop] in E.
  - injection E as <-. destruct Hx.
  - rewrite add_w_small' in E by lia. cbn [obind] in E. rewrite rem_ok_nz in E by lia.
    cbn [obind] in E. oinv E. injection E as <-.
    assert (Hb' : (b + a) mod W < W) by (apply N.mod_lt; lia).
    destruct Hx as [<-|Hx].
    + exists 1. split; [lia|]. f_equal. lia.
    + destruct (IH _ _ Hb' E0 x Hx) as [k [Hk ->]]. exists (k + 1). split; [lia|].
      rewrite N.add_mod_idemp_l by lia. f_equal. lia.
Qed.

Lemma lt_loop_nodup a : 1 <= a < W -> forall n b l, b < W -> N.of_nat n < W ->
  lt_loop m n a W b = Ok l -> NoDup (b :: l) /\ Forall (fun x => x < W) l.
Proof.
  intros Ha. induction n as [|n IH]; intros b l Hb Hn E.
  - cbn [lt_loop] in E. injection E as <-. split; [constructor; [intros []|constructor] | constructor].
  - pose proof E as E'. cbn [lt_loop] in E. rewrite add_w_small' in E by lia. cbn [obind] in E.
    rewrite rem_ok_nz in E by lia. cbn [obind] in E. oinv E. injection E as <-.
    assert (Hb' : (b + a) mod W < W) by (apply N.mod_lt; lia).
    destruct (IH _ _ Hb' ltac:(lia) E0) as [ND FA]. split; [|constructor; assumption].
    constructor; [|exact ND]. intros Hin.
    destruct (lt_loop_elems a (proj2 Ha) (S n) b _ Hb E' b Hin) as [k [Hk Ek]].
    apply (prime_mod_inj W a b 0 k HWprime Ha); [lia | lia|].
    rewrite N.mul_0_l, N.add_0_r, N.mod_small by exact Hb. exact Ek.
Qed.

(* ---- PI part ---- *)

Section Walk.
Variable a1 : N.
Hypothesis Ha1 : 1 <= a1 < P1.

Definition wk (b k : N) : N := (b + k * a1) mod P1.

Lemma wk_0 b : b < P1 -> wk b 0 = b.
Proof. intros Hb. unfold wk. rewrite N.mul_0_l, N.add_0_r. apply N.mod_small. exact Hb. Qed.

Lemma wk_lt b k : wk b k < P1.
Proof. unfold wk. apply N.mod_lt. lia. Qed.

Lemma wk_wk b j k : wk (wk b j) k = wk b (j + k).
Proof. unfold wk. rewrite N.add_mod_idemp_l by lia. f_equal. lia. Qed.

Lemma wk_inj b k1 k2 : k1 < k2 -> k2 - k1 < P1 -> wk b k1 <> wk b k2.
Proof. intros H1 H2. unfold wk. apply prime_mod_inj; assumption. Qed.

(* the first residue < P met from b after at least k0 steps *)
Definition nxt (k0 : N) (b r : N) : Prop :=
  exists k, k0 <= k /\ r = wk b k /\ r < P /\ forall j, k0 <= j < k -> P <= wk b j.

Lemma pi_skip_nxt : forall fuel b r, b < P1 -> pi_skip m fuel a1 P P1 b = Ok r -> nxt 0 b r.
Proof.
  induction fuel as [|f IH]; intros b r Hb E; cbn [pi_skip] in E; [discriminate E|].
  destruct (N.leb_spec P b) as [Hge|Hlt].
  - rewrite add_w_small' in E by lia. cbn [obind] in E. rewrite rem_ok_nz in E by lia.
    cbn [obind] in E. assert (Hb' : (b + a1) mod P1 < P1) by (apply N.mod_lt; lia).
    destruct (IH _ _ Hb' E) as [k [_ [Er [HrP Hmin]]]].
    assert (E1 : (b + a1) mod P1 = wk b 1) by (unfold wk; f_equal; lia).
    rewrite E1 in *. rewrite wk_wk in Er. exists (1 + k). split; [lia|]. split; [exact Er|].
    split; [exact HrP|]. intros j Hj. destruct (N.eq_dec j 0) as [->|Hj0].
    + rewrite wk_0 by exact Hb. exact Hge.
    + replace j with (1 + (j - 1)) by lia. rewrite <- wk_wk. apply Hmin. lia.
  - injection E as <-. exists 0. split; [lia|]. split; [symmetry; apply wk_0; exact Hb|].
    split; [exact Hlt|]. intros j Hj. lia.
Qed.

(* one round of the PI loop: step once, then skip *)
Lemma pi_step_nxt fuel b r : b < P1 ->
  pi_skip m fuel a1 P P1 ((b + a1) mod P1) = Ok r -> nxt 1 b r.
Proof.
  intros Hb E. assert (Hb' : (b + a1) mod P1 < P1) by (apply N.mod_lt; lia).
  destruct (pi_skip_nxt _ _ _ Hb' E) as [k [_ [Er [HrP Hmin]]]].
  assert (E1 : (b + a1) mod P1 = wk b 1) by (unfold wk; f_equal; lia).
  rewrite E1 in *. rewrite wk_wk in Er. exists (1 + k). split; [lia|]. split; [exact Er|].
  split; [exact HrP|]. intros j Hj. replace j with (1 + (j - 1)) by lia. rewrite <- wk_wk.
  apply Hmin. lia.
Qed.

(* some residue < P different from two given ones is reached within P1 - 1 steps *)
Lemma other_residue r r' : exists q, q < P /\ q <> r /\ q <> r'.
Proof.
  destruct (N.eq_dec r 0) as [R0|R0]; destruct (N.eq_dec r' 0) as [R0'|R0'].
  - exists 1. lia.
  - destruct (N.eq_dec r' 1); [exists 2 | exists 1]; lia.
  - destruct (N.eq_dec r 1); [exists 2 | exists 1]; lia.
  - exists 0. lia.
Qed.

Lemma nxt_ne b r : b < P -> nxt 1 b r -> r <> b.
Proof.
  intros Hb [k [Hk [Er [HrP Hmin]]]].
  destruct (other_residue b b) as [q [HqP [Hqb _]]].
  destruct (prime_hits P1 a1 b q HP1prime Ha1 ltac:(lia) ltac:(lia)) as [j [Hj Ej]].
  fold (wk b j) in Ej.
  assert (Hj0 : j <> 0) by (intros ->; rewrite wk_0 in Ej by lia; congruence).
  assert (Hkj : k <= j).
  { destruct (N.le_gt_cases k j) as [?|Hgt]; [assumption|]. exfalso.
    pose proof (Hmin j ltac:(lia)). lia. }
  rewrite Er. intros E. apply (wk_inj b 0 k); [lia | lia|]. rewrite wk_0 by lia. congruence.
Qed.

Lemma nxt_nxt_ne b r r' : b < P -> nxt 1 b r -> nxt 1 r r' -> r' <> b.
Proof.
  intros Hb N1 N2. pose proof (nxt_ne b r Hb N1) as Hrb.
  destruct N1 as [k1 [Hk1 [Er [HrP Hmin1]]]]. destruct N2 as [k2 [Hk2 [Er' [Hr'P Hmin2]]]].
  destruct (other_residue b r) as [q [HqP [Hqb Hqr]]].
  destruct (prime_hits P1 a1 b q HP1prime Ha1 ltac:(lia) ltac:(lia)) as [j [Hj Ej]].
  fold (wk b j) in Ej.
  assert (Hj0 : j <> 0) by (intros ->; rewrite wk_0 in Ej by lia; congruence).
  assert (Hkj : k1 < j).
  { destruct (N.lt_trichotomy k1 j) as [?|[Eq|Hgt]]; [assumption | subst j; congruence|]. exfalso.
    pose proof (Hmin1 j ltac:(lia)). lia. }
  assert (Hk2j : k1 + k2 <= j).
  { destruct (N.le_gt_cases (k1 + k2) j) as [?|Hgt]; [assumption|]. exfalso.
    pose proof (Hmin2 (j - k1) ltac:(lia)) as X. rewrite Er, wk_wk in X.
    replace (k1 + (j - k1)) with j in X by lia. lia. }
  rewrite Er', Er, wk_wk. intros E.
  apply (wk_inj b 0 (k1 + k2)); [lia | lia|]. rewrite wk_0 by lia. congruence.
Qed.

Lemma nxt_lt k0 b r : nxt k0 b r -> r < P /\ r < P1.
Proof. intros [k [_ [Er [HrP _]]]]. split; [exact HrP | lia]. Qed.

(* the PI indices: chain of nxt *)
Lemma pi_loop_chain : forall n b l, b < P1 -> pi_loop m (N.to_nat P1) n a1 W P P1 b = Ok l ->
  exists rs, l = map (fun r => W + r) rs /\ length rs = n /\
    match rs with
    | [] => True
    | r1 :: t => nxt 1 b r1 /\ match t with [] => True | r2 :: _ => nxt 1 r1 r2 end
    end.
Proof.
  induction n as [|n IH]; intros b l Hb E; cbn [pi_loop] in E.
  - injection E as <-. exists []. repeat split.
  - rewrite add_w_small' in E by lia. cbn [obind] in E. rewrite rem_ok_nz in E by lia.
    cbn [obind] in E. oinv E. pose proof (pi_step_nxt _ _ _ Hb E0) as N1.
    destruct (nxt_lt _ _ _ N1) as [HaP HaP1].
    rewrite add_w_small' in E by lia. cbn [obind] in E. oinv E. injection E as <-.
    destruct (IH _ _ HaP1 E1) as [rs [-> [Hlen Hch]]]. exists (a :: rs).
    split; [reflexivity|]. split; [cbn [length]; congruence|]. split; [exact N1|].
    destruct rs as [|r2 t]; [exact I | exact (proj1 Hch)].
Qed.

End Walk.

Theorem enc_indices_nodup d a b d1 a1 b1 idx :
  1 <= d -> d < W -> 1 <= a < W -> b < W -> (d1 = 2 \/ d1 = 3) -> 1 <= a1 < P1 -> b1 < P1 ->
  enc_indices m (d, a, b, d1, a1, b1) W P P1 = Ok idx -> NoDup idx.
Proof.
  intros Hd HdW Ha Hb Hd1 Ha1 Hb1 E. unfold enc_indices in E.
  destruct (0 <? d); [|discriminate E].
  destruct ((1 <=? a) && (a <? W)); [|discriminate E].
  destruct (b <? W); [|discriminate E].
  destruct ((d1 =? 2) || (d1 =? 3)); [|discriminate E].
  destruct ((1 <=? a1) && (a1 <? P1)); [|discriminate E].
  destruct (b1 <? P1); [|discriminate E].
  cbn [assert_ok obind] in E. oinv E. oinv E. oinv E. oinv E. injection E as <-.
  rename a0 into lt, a2 into r0, a3 into i0, a4 into pis.
  destruct (lt_loop_nodup a Ha (N.to_nat (d - 1)) b lt Hb ltac:(lia) E0) as [ND1 FA1].
  pose proof (pi_skip_nxt a1 Ha1 _ _ _ Hb1 E1) as N0. destruct (nxt_lt a1 Ha1 _ _ _ N0) as [Hr0P Hr0P1].
  rewrite add_w_small' in E2 by lia. injection E2 as <-.
  destruct (pi_loop_chain a1 Ha1 _ _ _ Hr0P1 E3) as [rs [-> [Hlen Hch]]].
  change (b :: lt ++ W + r0 :: map (fun r => W + r) rs)
    with ((b :: lt) ++ map (fun r => W + r) (r0 :: rs)).
  assert (ND2 : NoDup (r0 :: rs)).
  { destruct rs as [|r1 [|r2 [|r3 t]]].
    - constructor; [intros [] | constructor].
    - destruct Hch as [N1 _]. pose proof (nxt_ne a1 Ha1 r0 r1 Hr0P N1).
      constructor; [intros [X|[]]; congruence | constructor; [intros [] | constructor]].
    - destruct Hch as [N1 N2]. destruct (nxt_lt a1 Ha1 _ _ _ N1) as [Hr1P _].
      pose proof (nxt_ne a1 Ha1 r0 r1 Hr0P N1). pose proof (nxt_ne a1 Ha1 r1 r2 Hr1P N2).
      pose proof (nxt_nxt_ne a1 Ha1 r0 r1 r2 Hr0P N1 N2).
      constructor; [intros [X|[X|[]]]; congruence|].
      constructor; [intros [X|[]]; congruence|]. constructor; [intros [] | constructor].
    - exfalso. cbn [length] in Hlen. destruct Hd1 as [->| ->]; cbn in Hlen; lia. }
  apply NoDup_app_intro.
  - exact ND1.
  - apply FinFun.Injective_map_NoDup; [|exact ND2]. intros x y Exy. lia.
  - intros x H1 H2. apply in_map_iff in H2. destruct H2 as [r [<- _]].
    destruct H1 as [H1|H1]; [lia|]. rewrite Forall_forall in FA1. specialize (FA1 _ H1). lia.
Qed.

End NoDup.

(* for every row of the table and every ISI *)
Theorem enc_indices_nodup_row m K' J S H W P1 X idx :
  In (K', J, S, H, W) TABLE2 -> In (K', P1) P1_TABLE ->
  enc_indices m (Tuple J W P1 X) W (K' + S + H - W) P1 = Ok idx -> NoDup idx.
Proof.
  intros Hr Hp E. pose proof (c15_tuple_ranges K' J S H W P1 X Hr Hp) as R.
  pose proof (row_facts K' J S H W P1 Hr Hp) as F. destruct F.
  pose proof (row_P3 K' J S H W P1 Hr Hp) as HP3.
  destruct (Tuple J W P1 X) as [[[[[d a] b] d1] a1] b1].
  destruct R as [Rd [Ra [Rb [Rd1 [Ra1 Rb1]]]]].
  assert (P16 : 65536 < 2 ^ 31) by reflexivity.
  assert (P32 : 65536 <= 2 ^ 32) by (intros Q; discriminate Q).
  apply (enc_indices_nodup m W (K' + S + H - W) P1) with (d := d) (a := a) (b := b) (d1 := d1)
    (a1 := a1) (b1 := b1); try assumption; try lia.
  - apply is_prime_spec. exact ro_W.
  - apply is_prime_spec. exact ro_P1.
Qed.
